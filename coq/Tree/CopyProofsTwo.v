(* Tree/CopyProofsTwo.v — C13: two sides of a world that evolve independently along any history.
     sides        : two regions A and B (node ids, model numbers, file ids each) that partition what is allocated.
     Two s w      : each side is Sealed against the other (CopyProofsIrp.v).
     LinkBound w  : no dangling ids (every id stored in a node, a model record or a file record is allocated).
     two_step     : an operation apart from side A keeps A (Same), and B grown by what the operation allocated is again
                    Sealed: the invariant Two is kept with the new ids on the acting side.
     two_sided    : along a history whose operations each work on one side, every step leaves the other side alone.
     duplicate_then_independent : after duplicate(), original side (everything that existed) and copy side (everything
                    the call allocated) are such a pair. *)
From AV Require Import Base.Bytes Base.Outcome Hash.HashModel Tree.Heap Tree.Ops Tree.Script Tree.Inv
  Tree.Sort Tree.Copy Tree.Load Tree.Compat Tree.Serialize Tree.Script2
  Tree.CopyProofsW Tree.CopyProofsDefs Tree.CopyProofsIrp Tree.CopyProofsIrpLib Tree.CopyProofsIrpOps
  Tree.CopyProofsIndep Tree.CopyProofsIndep2.
From Coq Require Import Lia PeanoNat.
Open Scope string_scope.
Open Scope list_scope.
Open Scope N_scope.

Notation lenM w := (N.of_nat (List.length (w_models w))).
Notation lenF w := (N.of_nat (List.length (w_files w))).
Definition grow (X : N -> Prop) (lo hi : N) : N -> Prop := fun i => X i \/ (lo <= i /\ i < hi).

Lemma lt_len {A} (l : list A) m : m < N.of_nat (List.length l) <-> exists x, nth_opt l (N.to_nat m) = Some x.
Proof.
  split.
  - intros H. apply nth_opt_lt. lia.
  - intros (x & H). apply nth_opt_Some in H. lia.
Qed.

(* no dangling ids *)
Definition LinkBound (w : world) : Prop :=
  (forall i n, w_nodes w i = Some n ->
     i < w_next w /\ (forall c, In (CElem c) (n_content n) -> c < w_next w) /\
     (forall p, n_parent n = PElem p -> p < w_next w) /\ (forall m, n_parent n = PModel m -> m < lenM w)) /\
  (forall m x, nth_opt (w_models w) (N.to_nat m) = Some x ->
     m_root x < w_next w /\ (forall p j, In (p, j) (m_idents x) -> j < w_next w) /\
     (forall p l j, In (p, l) (m_origins x) -> In j l -> j < w_next w)) /\
  (forall f fl, nth_opt (w_files w) (N.to_nat f) = Some fl -> f_model fl < lenM w).

(* the node part of LinkBound is C03's TreeInv; what it adds are the bounds on index values and on the model number in
   file records *)
Lemma LinkBound_of_TreeInv w :
  TreeInv w ->
  (forall m x, nth_opt (w_models w) (N.to_nat m) = Some x ->
     (forall p j, In (p, j) (m_idents x) -> j < w_next w) /\
     (forall p l j, In (p, l) (m_origins x) -> In j l -> j < w_next w)) ->
  (forall f fl, nth_opt (w_files w) (N.to_nat f) = Some fl -> f_model fl < lenM w) ->
  LinkBound w.
Proof.
  intros (C & (Hf & HR)) HI HF. split; [|split; [|exact HF]].
  - intros i n Hn. split; [apply (c_alloc w C); exists n; exact Hn|]. split; [|split].
    + intros c Hc. apply (c_alloc w C). assert (Hl : lists w i c). { exists n. split; [exact Hn|]. apply in_elems_c. exact Hc. }
      destruct (c_up w C _ _ Hl) as (cn & Hcn & _). exists cn. exact Hcn.
    + intros p Hp. apply (c_alloc w C). assert (Hl : lists w p i). { apply Hf. exists n. auto. }
      destruct Hl as (pn & Hpn & _). exists pn. exact Hpn.
    + intros m Hm. pose proof (HR _ _ _ Hn Hm) as E. assert (N.to_nat m < List.length (roots w))%nat.
      { apply nth_error_Some. congruence. }
      unfold roots in H. rewrite map_length in H. lia.
  - intros m x Hx. destruct (HI m x Hx) as (H1 & H2). split; [|split; [exact H1|exact H2]].
    assert (Hr : nth_error (roots w) (N.to_nat m) = Some (m_root x)).
    { unfold roots. rewrite nth_error_map, <- nth_opt_nth_error, Hx. reflexivity. }
    destruct (c_roots w C _ _ Hr) as (n & Hn & _). apply (c_alloc w C). exists n. exact Hn.
Qed.

Lemma LinkBound_empty : LinkBound empty_world.
Proof.
  split; [|split].
  - intros i n H. discriminate H.
  - intros m x H. cbn in H. destruct (N.to_nat m); discriminate H.
  - intros f fl H. cbn in H. destruct (N.to_nat f); discriminate H.
Qed.

Section Six.
Variables A B : id -> Prop.
Variables AM AF BM BF : N -> Prop.

Definition Part6 (w : world) : Prop :=
  (forall i, i < w_next w <-> A i \/ B i) /\ (forall i, A i -> ~ B i) /\
  (forall m, m < lenM w <-> AM m \/ BM m) /\ (forall m, AM m -> ~ BM m) /\
  (forall f, f < lenF w <-> AF f \/ BF f) /\ (forall f, AF f -> ~ BF f).

End Six.

(* side A was left alone by a step from w to w'; side B, grown by everything the step allocated, is Sealed again *)
Lemma Sealed_grow A AM AF B BM BF w w' :
  Sealed A AM AF w' -> Same A AM AF w w' -> Sealed B BM BF w -> Part6 A B AM AF BM BF w -> LinkBound w ->
  (forall i n, w_nodes w' i = Some n -> i < w_next w') ->
  Sealed (grow B (w_next w) (w_next w')) (grow BM (lenM w) (lenM w')) (grow BF (lenF w) (lenF w')) w' /\
  Part6 A (grow B (w_next w) (w_next w')) AM AF (grow BM (lenM w) (lenM w')) (grow BF (lenF w) (lenF w')) w'.
Proof.
  intros SA (Sn & Sm & Sf & (G1 & G2 & G3)) (T1 & T2 & T3 & T4 & T5 & T6) (P1 & P2 & P3 & P4 & P5 & P6) (L1 & L2 & L3) Hst.
  assert (GM : lenM w <= lenM w') by lia.
  assert (GF : lenF w <= lenF w') by lia.
  split.
  - split; [|split; [|split; [|split; [|split]]]].
    + intros i [Hi|(Hlo & Hhi)]; [|exact Hhi]. apply T1 in Hi. lia.
    + intros i x Hni Hx. pose proof (Hst _ _ Hx) as Hlt.
      assert (Hi : i < w_next w). { destruct (N.lt_ge_cases i (w_next w)); [assumption|]. exfalso. apply Hni. right. lia. }
      assert (HA : A i). { destruct (proj1 (P1 i) Hi) as [Ha|Hb]; [exact Ha|]. exfalso. apply Hni. left. exact Hb. }
      rewrite (Sn i HA) in Hx. destruct (T2 i x (P2 i HA) Hx) as (Gc & Gp & Gm).
      destruct (L1 i x Hx) as (_ & Lc & Lp & Lm).
      split; [|split].
      * intros c Hc [Hb|(Hlo & _)]; [exact (Gc c Hc Hb)|]. pose proof (Lc c Hc). lia.
      * intros p Hp [Hb|(Hlo & _)]; [exact (Gp p Hp Hb)|]. pose proof (Lp p Hp). lia.
      * intros m Hm [Hb|(Hlo & _)]; [exact (Gm m Hm Hb)|]. pose proof (Lm m Hm). lia.
    + intros m x Hnm Hx.
      assert (Hlt : m < lenM w') by (apply lt_len; eauto).
      assert (Hm : m < lenM w). { destruct (N.lt_ge_cases m (lenM w)); [assumption|]. exfalso. apply Hnm. right. lia. }
      assert (HA : AM m). { destruct (proj1 (P3 m) Hm) as [Ha|Hb]; [exact Ha|]. exfalso. apply Hnm. left. exact Hb. }
      rewrite (Sm m HA) in Hx. destruct (T3 m x (P4 m HA) Hx) as (Gr & Gi & Go).
      destruct (L2 m x Hx) as (Lr & Li & Lo).
      split; [|split].
      * intros [Hb|(Hlo & _)]; [exact (Gr Hb)|lia].
      * intros p j Hin [Hb|(Hlo & _)]; [exact (Gi p j Hin Hb)|]. pose proof (Li p j Hin). lia.
      * intros p l j Hin Hj [Hb|(Hlo & _)]; [exact (Go p l j Hin Hj Hb)|]. pose proof (Lo p l j Hin Hj). lia.
    + intros m [Hb|(Hlo & Hhi)]; [|apply lt_len; exact Hhi].
      apply lt_len. destruct (T4 m Hb) as (x & Hx). assert (m < lenM w) by (apply lt_len; eauto). lia.
    + intros f [Hb|(Hlo & Hhi)]; [|apply lt_len; exact Hhi].
      apply lt_len. destruct (T5 f Hb) as (x & Hx). assert (f < lenF w) by (apply lt_len; eauto). lia.
    + intros f fl Hnf Hfl.
      assert (Hlt : f < lenF w') by (apply lt_len; eauto).
      assert (Hf : f < lenF w). { destruct (N.lt_ge_cases f (lenF w)); [assumption|]. exfalso. apply Hnf. right. lia. }
      assert (HA : AF f). { destruct (proj1 (P5 f) Hf) as [Ha|Hb]; [exact Ha|]. exfalso. apply Hnf. left. exact Hb. }
      rewrite (Sf f HA) in Hfl. pose proof (T6 f fl (P6 f HA) Hfl) as Gm. pose proof (L3 f fl Hfl) as Lm.
      intros [Hb|(Hlo & _)]; [exact (Gm Hb)|lia].
  - destruct SA as (A1 & _ & _ & A4 & A5 & _).
    split; [|split; [|split; [|split; [|split]]]].
    + intros i. split.
      * intros Hi. destruct (N.lt_ge_cases i (w_next w)) as [Hlt|Hge].
        -- destruct (proj1 (P1 i) Hlt); [left; assumption|right; left; assumption].
        -- right. right. lia.
      * intros [Ha|[Hb|(_ & Hhi)]]; [|apply T1 in Hb; lia|exact Hhi].
        assert (i < w_next w) by (apply P1; left; exact Ha). lia.
    + intros i Ha [Hb|(Hlo & _)]; [exact (P2 i Ha Hb)|]. assert (i < w_next w) by (apply P1; left; exact Ha). lia.
    + intros m. split.
      * intros Hm. destruct (N.lt_ge_cases m (lenM w)) as [Hlt|Hge].
        -- destruct (proj1 (P3 m) Hlt); [left; assumption|right; left; assumption].
        -- right. right. lia.
      * intros [Ha|[Hb|(_ & Hhi)]]; [| |exact Hhi].
        -- assert (m < lenM w) by (apply P3; left; exact Ha). lia.
        -- assert (m < lenM w) by (apply P3; right; exact Hb). lia.
    + intros m Ha [Hb|(Hlo & _)]; [exact (P4 m Ha Hb)|]. assert (m < lenM w) by (apply P3; left; exact Ha). lia.
    + intros f. split.
      * intros Hf. destruct (N.lt_ge_cases f (lenF w)) as [Hlt|Hge].
        -- destruct (proj1 (P5 f) Hlt); [left; assumption|right; left; assumption].
        -- right. right. lia.
      * intros [Ha|[Hb|(_ & Hhi)]]; [| |exact Hhi].
        -- assert (f < lenF w) by (apply P5; left; exact Ha). lia.
        -- assert (f < lenF w) by (apply P5; right; exact Hb). lia.
    + intros f Ha [Hb|(Hlo & _)]; [exact (P6 f Ha Hb)|]. assert (f < lenF w) by (apply P5; left; exact Ha). lia.
Qed.

(* ------------------------------------------------------------------ sides *)
Record sides := mkSides { sA : id -> Prop; sAM : N -> Prop; sAF : N -> Prop; sB : id -> Prop; sBM : N -> Prop; sBF : N -> Prop }.
Definition swap (s : sides) : sides := mkSides (sB s) (sBM s) (sBF s) (sA s) (sAM s) (sAF s).
Definition Part (s : sides) (w : world) : Prop := Part6 (sA s) (sB s) (sAM s) (sAF s) (sBM s) (sBF s) w.
Definition Two (s : sides) (w : world) : Prop :=
  Sealed (sA s) (sAM s) (sAF s) w /\ Sealed (sB s) (sBM s) (sBF s) w /\ Part s w.

Lemma Part_swap s w : Part s w -> Part (swap s) w.
Proof.
  intros (P1 & P2 & P3 & P4 & P5 & P6). unfold Part, Part6, swap; cbn.
  split; [intros i; rewrite (P1 i); tauto|]. split; [intros i Hb Ha; exact (P2 i Ha Hb)|].
  split; [intros i; rewrite (P3 i); tauto|]. split; [intros i Hb Ha; exact (P4 i Ha Hb)|].
  split; [intros i; rewrite (P5 i); tauto|]. intros i Hb Ha; exact (P6 i Ha Hb).
Qed.
Lemma Two_swap s w : Two s w -> Two (swap s) w.
Proof. intros (H1 & H2 & H3). split; [exact H2|]. split; [exact H1|]. apply Part_swap. exact H3. Qed.

(* which side an operation works on *)
Inductive side := OnA | OnB.
(* side B takes what a step from w to w' allocated *)
Definition growB (s : sides) (w w' : world) : sides :=
  mkSides (sA s) (sAM s) (sAF s)
          (grow (sB s) (w_next w) (w_next w')) (grow (sBM s) (lenM w) (lenM w')) (grow (sBF s) (lenF w) (lenF w')).
Definition step_sides (d : side) (s : sides) (w w' : world) : sides :=
  match d with OnB => growB s w w' | OnA => swap (growB (swap s) w w') end.
(* the protected side of a step *)
Definition other (d : side) (s : sides) : sides := match d with OnB => s | OnA => swap s end.
Definition same_other (d : side) (s : sides) (w w' : world) : Prop :=
  Same (sA (other d s)) (sAM (other d s)) (sAF (other d s)) w w'.

Section Hist.
Variable T : tables.
Variable tab_el tab_at tab_en : nametab.
Variable check_fn : N -> list N -> res bool.
Variable float_parse : list N -> option N.
Variable float_fmt : N -> list N.
Variable LATEST name_index name_definition_ref attr_schema_location : N.
Variable root_attrs : list (N * cdata).

Notation run2 := (run_op2 T tab_el tab_at tab_en check_fn float_parse float_fmt LATEST name_index name_definition_ref
                          attr_schema_location root_attrs).

Definition apart_other (d : side) (s : sides) (o : op2) : Prop :=
  pending_indep2 o = false /\ op2_apart (sA (other d s)) (sAM (other d s)) (sAF (other d s)) o.

Lemma two_stepB s w o r w' :
  Two s w -> LinkBound w -> apart_other OnB s o -> run2 o w = Val (r, w') -> LinkBound w' ->
  Same (sA s) (sAM s) (sAF s) w w' /\ Two (growB s w w') w'.
Proof.
  intros (TA & TB & TP) LB (Hp & Ho) E LB'.
  destruct (irp_run_op2 T tab_el tab_at tab_en check_fn float_parse float_fmt LATEST name_index name_definition_ref
              attr_schema_location root_attrs _ _ _ o Hp Ho _ _ _ TA E) as (SA' & Sm & _).
  split; [exact Sm|].
  destruct (Sealed_grow _ _ _ _ _ _ w w' SA' Sm TB TP LB (fun i n H => proj1 (proj1 LB' i n H))) as (SB' & TP').
  split; [exact SA'|]. split; [exact SB'|exact TP'].
Qed.

Lemma two_step d s w o r w' :
  Two s w -> LinkBound w -> apart_other d s o -> run2 o w = Val (r, w') -> LinkBound w' ->
  same_other d s w w' /\ Two (step_sides d s w w') w'.
Proof.
  destruct d; intros HT LB Ho E LB'.
  - destruct (two_stepB (swap s) w o r w' (Two_swap _ _ HT) LB Ho E LB') as (Sm & HT').
    split; [exact Sm|]. cbn [step_sides]. apply Two_swap in HT'. exact HT'.
  - exact (two_stepB s w o r w' HT LB Ho E LB').
Qed.

(* a history of operations, each tagged with the side it works on: what is assumed of it ... *)
Fixpoint two_ok (l : list (side * op2)) (s : sides) (w : world) : Prop :=
  match l with
  | [] => True
  | (d, o) :: rest =>
    apart_other d s o /\
    match run2 o w with
    | Val (_, w') => LinkBound w' /\ two_ok rest (step_sides d s w w') w'
    | _ => True
    end
  end.
(* ... and what follows: every step leaves the side it does not work on alone *)
Fixpoint two_indep (l : list (side * op2)) (s : sides) (w : world) : Prop :=
  match l with
  | [] => True
  | (d, o) :: rest =>
    match run2 o w with
    | Val (_, w') => same_other d s w w' /\ two_indep rest (step_sides d s w w') w'
    | _ => True
    end
  end.

Theorem two_sided l : forall s w, Two s w -> LinkBound w -> two_ok l s w -> two_indep l s w.
Proof.
  induction l as [|[d o] l IH]; intros s w HT LB Hok; cbn [two_ok two_indep] in *; [exact I|].
  destruct Hok as (Ho & Hrest). destruct (run2 o w) as [[r w']| |] eqn:E; try exact I.
  destruct Hrest as (LB' & Hrest). destruct (two_step d s w o r w' HT LB Ho E LB') as (Sm & HT').
  split; [exact Sm|]. exact (IH _ _ HT' LB' Hrest).
Qed.

(* ------------------------------------------------------------------ everything against nothing *)
Definition all_below (w : world) : sides :=
  mkSides (fun i => i < w_next w) (fun m => m < lenM w) (fun f => f < lenF w) (fun _ => False) (fun _ => False) (fun _ => False).

Lemma Two_init w : LinkBound w -> Two (all_below w) w.
Proof.
  intros (L1 & L2 & L3). split; [|split]; cbn [all_below sA sAM sAF sB sBM sBF].
  - split; [intros i Hi; exact Hi|]. split; [intros i n Hi Hn; exfalso; apply Hi; exact (proj1 (L1 i n Hn))|].
    split; [intros m x Hm Hx; exfalso; apply Hm; apply lt_len; eauto|].
    split; [intros m Hm; apply lt_len; exact Hm|]. split; [intros f Hf; apply lt_len; exact Hf|].
    intros f fl Hf Hfl. exfalso. apply Hf. apply lt_len. eauto.
  - split; [intros i []|]. split; [intros i n _ _; split; [intros ? _ []|split; [intros ? _ []|intros ? _ []]]|].
    split; [intros m x _ _; split; [intros []|split; [intros ? ? _ []|intros ? ? ? _ _ []]]|].
    split; [intros m []|]. split; [intros f []|]. intros f fl _ _ [].
  - unfold Part, Part6; cbn. repeat split; try tauto; intros ? ? [].
Qed.

(* the sides after duplicate(): A = whatever existed before the call, B = whatever the call allocated (the nodes of
   the copy, its model record, its files) *)
Definition after_dup (w0 w1 : world) : sides := growB (all_below w0) w0 w1.

Theorem duplicate_then_independent m l w0 r w1 :
  LinkBound w0 -> run2 (OpDuplicate m) w0 = Val (r, w1) -> LinkBound w1 ->
  Same (fun i => i < w_next w0) (fun k => k < lenM w0) (fun f => f < lenF w0) w0 w1 /\
  Two (after_dup w0 w1) w1 /\
  (two_ok l (after_dup w0 w1) w1 -> two_indep l (after_dup w0 w1) w1).
Proof.
  intros LB E LB'.
  assert (Ho : apart_other OnB (all_below w0) (OpDuplicate m)).
  { split; [reflexivity|]. split; [intros i []|split; [intros k []|intros f []]]. }
  destruct (two_stepB (all_below w0) w0 _ r w1 (Two_init w0 LB) LB Ho E LB') as (Sm & HT).
  split; [exact Sm|]. split; [exact HT|]. intros Hok. exact (two_sided l _ _ HT LB' Hok).
Qed.

End Hist.
