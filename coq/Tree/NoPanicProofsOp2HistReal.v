(* Tree/NoPanicProofsOp2HistReal.v — C12: the op2 history theorem on the regenerated tables (every table hypothesis
   discharged: Tree/NoPanicProofsHistReal.v, MaskOK_real of agent-c17). *)
From AV Require Import Base.Bytes Base.Outcome Hash.HashModel Spec.SpecOps Spec.SpecReal Xml.TablesOk
  Tree.Heap Tree.Ops Tree.Script Tree.Script2 Tree.Inv Tree.SortProofsHeap Tree.SortProofsReadyV Tree.SortProofsReal
  Tree.CompatHist1 Tree.CompatHistReal.
From AV Require Import Hash.HashRealElement Hash.HashRealAttr Hash.HashRealEnum.
From AV Require Import Tree.NoPanic Tree.NoPanicProofsBase Tree.NoPanicProofsCopy2 Tree.NoPanicFloat Tree.NoPanicProofsHist Tree.NoPanicReal
  Tree.NoPanicProofsHistReal Tree.NoPanicProofsOp2 Tree.NoPanicProofsFiles Tree.NoPanicProofsSerFile Tree.NoPanicProofsOp2Hist
  Tree.Copy Tree.NoPanicProofsDup Tree.NoPanicProofsDupHist.
Open Scope list_scope.
Open Scope N_scope.

Section Real.
Variable check_fn : N -> list N -> res bool.
Variable float_parse : list N -> option N.
Variable fmt : N -> list N.
Variable LATEST name_index name_definition_ref attr_schema_location : N.
Variable root_attrs : list (N * cdata).
Hypothesis CHECK : forall fn s, exists b, check_fn fn s = Val b.
Hypothesis RootOK : forall a, In a root_attrs -> to_str tab_attr (fst a) <> None /\ cdata_named tab_enum (snd a).

Notation run_ops2F' := (run_ops2F RT tab_element tab_attr tab_enum check_fn float_parse fmt LATEST name_index name_definition_ref
                                  attr_schema_location root_attrs).
Notation wf_ops2' := (wf_ops2 RT tab_element tab_attr tab_enum check_fn float_parse fmt LATEST name_index name_definition_ref
                              attr_schema_location root_attrs).
Notation run2F := (run_op2F RT tab_element tab_attr tab_enum check_fn float_parse fmt LATEST name_index name_definition_ref
                            attr_schema_location root_attrs).
Notation H2r := (H2 RT tab_element tab_attr tab_enum).

Lemma hist2_real l w : H2r w -> wf_ops2' l w -> exists w', run_ops2F' l w = Val w' /\ H2r w'.
Proof.
  exact (no_panic2_hist RT tab_element tab_attr tab_enum check_fn float_parse fmt LATEST name_index name_definition_ref
           attr_schema_location root_attrs tables_ok12_real CHECK en_ok_real short_ok_real NamesOK_real EnumsOK_real AttrsOK_real
           RootOK (tkr_real check_fn) root_plain_real MaskOK_real l w).
Qed.

Theorem no_panic2_histories_real l : wf_ops2' l empty_world -> exists w', run_ops2F' l empty_world = Val w'.
Proof. intros WF. destruct (hist2_real l empty_world (H2_empty _ _ _ _) WF) as (w' & E & _). eauto. Qed.

(* one more call after any history *)
Theorem no_panic2_after_history_real l w o :
  run_ops2F' l empty_world = Val w -> wf_ops2' l empty_world -> covered_step2 o = true -> op2_wfh tab_element tab_enum w o ->
  (forall s, run2F o w <> Pan s) /\ run2F o w <> Fuel.
Proof.
  intros E WF COV WFo. destruct (hist2_real l empty_world (H2_empty _ _ _ _) WF) as (w' & E' & I).
  rewrite E in E'. injection E' as <-.
  destruct (no_panic_step2 RT tab_element tab_attr tab_enum check_fn float_parse fmt LATEST name_index name_definition_ref
              attr_schema_location root_attrs tables_ok12_real CHECK en_ok_real short_ok_real EnumsOK_real AttrsOK_real
              MaskOK_real o w COV WFo I) as (x & w1 & R).
  rewrite R. split; [intros s|]; discriminate.
Qed.

(* AutosarModel::duplicate as the call after any history of covered steps *)
Theorem duplicate_after_history_real l w m :
  run_ops2F' l empty_world = Val w -> wf_ops2' l empty_world ->
  m < N.of_nat (List.length (w_models w)) ->
  dup_sized RT LATEST root_attrs m w ->
  (forall s, m_duplicate RT tab_element tab_enum check_fn LATEST root_attrs m w <> Pan s) /\
  m_duplicate RT tab_element tab_enum check_fn LATEST root_attrs m w <> Fuel.
Proof.
  intros E WF Lm HS.
  destruct (duplicate_after_history RT tab_element tab_attr tab_enum check_fn float_parse fmt LATEST name_index name_definition_ref
              attr_schema_location root_attrs tables_ok12_real CHECK en_ok_real short_ok_real NamesOK_real EnumsOK_real AttrsOK_real
              RootOK (tkr_real check_fn) root_plain_real MaskOK_real l w m E WF Lm HS) as (r & w1 & R).
  rewrite R. split; [intros s|]; discriminate.
Qed.

End Real.
