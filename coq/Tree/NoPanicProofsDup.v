(* Tree/NoPanicProofsDup.v — C12: AutosarModel::duplicate (Tree/Copy.v, m_duplicate) never panics or runs out of fuel.
   The body is new_model, create_file per file, create_copied_sub_element per child of the root — operations of the small
   alphabet, whose no-panic theorems and invariant steps are reused — plus three record updates (root attributes and
   comment, xml_standalone, local file sets) and two pre-order walks.  Carried through the loops:
     D w = H2 w /\ FilesOwned w   (agent-c10: the file ids in a model's file list exist)
   and, for the copies, the usual size assumption at each state where a copy runs (sized_copies: SizeOk, as in wf_ops). *)
From Coq Require Import Lia PeanoNat.
From AV Require Import Base.Bytes Base.Outcome Hash.HashModel Spec.SpecOps Xml.TablesOk Tree.Heap Tree.Ops Tree.Script Tree.Copy Tree.Inv.
From AV Require Import Tree.InvProofsBase Tree.InvProofsCore Tree.InvProofsPrim Tree.InvProofs Tree.Files Tree.FilesProofsOp2 Tree.FilesProofsTop Tree.FilesProofsDup2 Tree.CopyProofsIrp
  Tree.SortProofsReadyV Tree.IndexProofsNodeInv Tree.OrdFiles Tree.OrdHist.
From AV Require Import Tree.FilesProofsBase Tree.CopyProofsRegId.
From AV Require Import Tree.NoPanic Tree.NoPanicProofsBase Tree.NoPanicProofsOps1 Tree.NoPanicProofsOps4 Tree.NoPanicProofsDepth
  Tree.NoPanicProofsCopy2 Tree.NoPanicFloat Tree.NoPanicProofsHist Tree.NoPanicProofsOp2Inv Tree.NoPanicProofsFiles Tree.NoPanicProofsSerFile
  Tree.NoPanicProofsOp2Hist.
Open Scope string_scope.
Open Scope list_scope.
Open Scope N_scope.

Lemma wbind_ok {A B} (m : W A) (k : A -> W B) w a w1 : m w = Val (OK a, w1) -> wbind m k w = k a w1.
Proof. intros E. unfold wbind. rewrite E. reflexivity. Qed.
Lemma wbind_er {A B} (m : W A) (k : A -> W B) w e w1 : m w = Val (ER e, w1) -> wbind m k w = Val (ER e, w1).
Proof. intros E. unfold wbind. rewrite E. reflexivity. Qed.
Lemma wmap_any {A B} (m : W A) (g : A -> B) w r0 w1 : m w = Val (r0, w1) -> exists r, (do x <- m; wret (g x))%W w = Val (r, w1).
Proof. intros E. unfold wbind. rewrite E. destruct r0; unfold wret; eauto. Qed.

Lemma nth_opt_list_set_fwd {A} (l : list A) k x j y : nth_opt l j = Some y ->
  nth_opt (list_set l k x) j = Some (if Nat.eqb j k then x else y).
Proof.
  revert k j. induction l as [|a l IH]; intros k j H; [destruct j; discriminate|].
  destruct k as [|k], j as [|j]; cbn in *; auto.
Qed.
Lemma list_set_len {A} (l : list A) k x : List.length (list_set l k x) = List.length l.
Proof. revert k. induction l as [|a l IH]; intros [|k]; cbn; auto. Qed.

Section Dup.
Variable T : tables.
Variable tab_el tab_at tab_en : nametab.
Variable check_fn : N -> list N -> res bool.
Variable LATEST : N.
Variable root_attrs : list (N * cdata).
Hypothesis OK12 : tables_ok12 T = true.
Hypothesis CHECK : forall fn s, exists b, check_fn fn s = Val b.
Hypothesis EN_OK : nametab_ok tab_en = true.
Hypothesis SHORT_OK : name_ok tab_el (name_short_name T).
Hypothesis NamesOK : forall i e, i < n_elements T -> T_elements T i = Some e -> to_str tab_el (ed_name e) <> None.
Hypothesis EnumsOK : forall k items it, T_cdata T k = Some (CEnum items) -> In it items -> to_str tab_en (fst it) <> None.
Hypothesis AttrsOK : forall k name cdid req, T_attributes T k = Some (name, cdid, req) -> to_str tab_at name <> None.
Hypothesis RootOK : attrV tab_at tab_en root_attrs.
Hypothesis TKr : forall ty cs v ver, is_ref T ty = Val true -> chardata_spec T ty = Val (Some cs) ->
  check_value check_fn v cs ver = Val true -> exists s, v = DString s.
Hypothesis RootTy : forall ty, et_new T (autosar_element T) = Val ty -> plainty T ty.

Notation ENV f := (f T tab_el tab_en check_fn LATEST root_attrs OK12 CHECK) (only parsing).
Notation H12 := (H12 T tab_el tab_at tab_en).
Notation H2 := (H2 T tab_el tab_at tab_en).
Notation run := (Inv.run T tab_el tab_en check_fn LATEST root_attrs).
Notation lenM w := (N.of_nat (List.length (w_models w))).
Notation lenF w := (N.of_nat (List.length (w_files w))).

Definition D (w : world) : Prop := H2 w /\ FilesOwned w.

Lemma D_op o w r w' : D w -> op_wf tab_el tab_en w o -> op_wfv o -> run o w = Val (r, w') -> D w'.
Proof.
  intros ((I & F) & O) WF WV H. pose proof I as (C & _). split; [split|].
  - exact (H12_step T tab_el tab_at tab_en check_fn LATEST root_attrs OK12 NamesOK EnumsOK AttrsOK RootOK TKr RootTy o w r w' I H).
  - exact (FI_step T tab_el tab_en check_fn LATEST root_attrs o w r w' F WF WV H).
  - exact (owned_step_all T tab_el tab_en check_fn LATEST root_attrs o w r w' C O H).
Qed.

(* a file record whose standalone flag alone changes *)
Lemma D_set_standalone w nf fl s : D w -> nth_opt (w_files w) (N.to_nat nf) = Some fl ->
  D (mkWorld (w_nodes w) (w_next w) (list_set (w_files w) (N.to_nat nf) (set_standalone fl s)) (w_models w)).
Proof.
  intros ((I & (NF & FK)) & O) Hfl. split; [split; [|split]|].
  - apply (H12_same T tab_el tab_at tab_en w); auto.
  - split; [|reflexivity]. cbn [w_nodes w_files]. intros i n Hn g Hg. destruct (proj1 NF i n Hn g Hg) as (y & Hy).
    eexists. exact (nth_opt_list_set_fwd _ _ _ _ _ Hy).
  - intros k y Hk. cbn [w_files w_models] in *. apply nth_opt_list_set in Hk as [(_ & -> & _)|(_ & Hk)]; [|exact (FK _ _ Hk)].
    exact (FK _ _ Hfl).
  - intros m x f Hx Hf. unfold model_b in *. cbn [w_models w_files] in *. destruct (O m x f Hx Hf) as (gl & Hg & Hm).
    eexists. split; [exact (nth_opt_list_set_fwd _ _ _ _ _ Hg)|]. destruct (Nat.eqb _ _) eqn:E; [|exact Hm].
    apply Nat.eqb_eq in E. apply Nnat.N2Nat.inj in E. subst f. rewrite Hfl in Hg. injection Hg as <-. exact Hm.
Qed.

(* the file map of duplicate: every value is an existing file id *)
Definition fm_ok (w : world) (fm : list (list N * N)) : Prop := forall k v, assoc_get k fm = Some v -> v < lenF w.
Lemma fm_ok_grow w w' fm : Grow w w' -> fm_ok w fm -> fm_ok w' fm.
Proof. intros (_ & _ & G) H k v E. pose proof (H k v E). lia. Qed.

Lemma dup_files_ok c : forall files fm w, D w -> c < lenM w -> (forall f, In f files -> f < lenF w) -> fm_ok w fm ->
  exists r w', dup_files T c files fm w = Val (r, w') /\ D w' /\ Grow w w' /\ (forall fm', r = OK fm' -> fm_ok w' fm').
Proof.
  induction files as [|f rest IH]; intros fm w HD Lc Hf HM; cbn [dup_files].
  - exists (OK fm), w. split; [reflexivity|]. split; [exact HD|]. split; [apply Grow_refl|]. intros fm' [= <-]. exact HM.
  - pose proof HD as ((I & (NF & FK)) & O).
    destruct (nth_opt_lt' (w_files w) (N.to_nat f)) as (fl & Hfl); [pose proof (Hf f (or_introl eq_refl)); lia|].
    rewrite (wbind_ok _ _ w fl w) by (unfold get_file; rewrite Hfl; reflexivity).
    destruct (ENV np_create_file w c (f_name fl) (f_version fl) (H12_PanicFree T tab_el tab_at tab_en w I) Lc) as (r1 & w1 & E1).
    destruct (wmap_any _ VFile _ _ _ E1) as (rv & Ev).
    assert (D1 : D w1).
    { apply (D_op (OpCreateFile c (f_name fl) (f_version fl)) w rv w1 HD); [exact Lc|exact (proj2 (FK _ _ Hfl))|exact Ev]. }
    pose proof (grow_op T tab_el tab_en check_fn LATEST root_attrs (OpCreateFile c (f_name fl) (f_version fl)) w rv w1 Ev) as G1.
    destruct r1 as [nf|e]; [|rewrite (wbind_er _ _ _ _ _ E1); exists (ER e), w1; split; [reflexivity|]; split; [exact D1|]; split; [exact G1|]; intros fm' [=]].
    rewrite (wbind_ok _ _ _ _ _ E1).
    destruct (create_file_effect T c (f_name fl) (f_version fl) w nf w1 E1) as (-> & Fw1 & _).
    assert (Hnf : nth_opt (w_files w1) (N.to_nat (lenF w)) = Some (mkFile c (f_name fl) (f_version fl) None)).
    { rewrite Fw1, Nnat.Nat2N.id. apply nth_opt_app_last. }
    rewrite (wbind_ok _ _ w1 _ w1) by (unfold get_file; rewrite Hnf; reflexivity).
    unfold wbind at 1, set_file.
    set (w2 := mkWorld _ _ _ _).
    assert (D2 : D w2) by (exact (D_set_standalone w1 (lenF w) _ (f_standalone fl) D1 Hnf)).
    assert (G2 : Grow w w2).
    { destruct G1 as (A & B & C0). unfold Grow, w2. cbn [w_next w_models w_files]. rewrite list_set_len. auto. }
    assert (LF2 : lenF w < lenF w2).
    { unfold w2. cbn [w_files]. rewrite list_set_len, Fw1, app_length. cbn. lia. }
    destruct (IH (assoc_insert (f_name fl) (lenF w) fm) w2 D2) as (r & w' & E & D' & G' & M').
    { destruct G2 as (_ & B & _). lia. }
    { intros g Hg. destruct G2 as (_ & _ & C0). pose proof (Hf g (or_intror Hg)). lia. }
    { intros k v Hk. rewrite assoc_get_insert_cases in Hk. destruct (bytes_eqb (f_name fl) k); [injection Hk as <-; exact LF2|].
      pose proof (HM k v Hk). lia. }
    exists r, w'. split; [exact E|]. split; [exact D'|]. split; [eapply Grow_trans; eauto|exact M'].
Qed.

(* ---------- the copies of the root's children ---------- *)
Fixpoint sized_copies (croot : id) (items : list citem) (w : world) : Prop :=
  match items with
  | [] => True
  | CElem e :: rest => SizeOk w /\ forall r w', e_create_copied_sub_element T LATEST croot e w = Val (r, w') -> sized_copies croot rest w'
  | CData _ :: rest => sized_copies croot rest w
  end.

Lemma dup_children_ok croot : forall items w, D w -> croot < w_next w -> (forall e, In (CElem e) items -> e < w_next w) ->
  sized_copies croot items w ->
  exists r w', dup_children T LATEST croot items w = Val (r, w') /\ D w' /\ Grow w w'.
Proof.
  induction items as [|[e|d] rest IH]; intros w HD Lc He SZ; cbn [dup_children sized_copies] in *.
  - exists (OK tt), w. split; [reflexivity|]. split; [exact HD|apply Grow_refl].
  - destruct SZ as (SZ & K). pose proof HD as ((I & _) & _).
    pose proof (He e (or_introl eq_refl)) as Le.
    destruct (ENV np_copy w croot e (H12_PanicFree T tab_el tab_at tab_en w I) SZ Lc Le) as (r1 & w1 & E1).
    destruct (wmap_any _ VElem _ _ _ E1) as (rv & Ev).
    assert (D1 : D w1).
    { apply (D_op (OpCopy croot e) w rv w1 HD); [split; [exact Lc|exact Le]|exact Logic.I|exact Ev]. }
    pose proof (grow_op T tab_el tab_en check_fn LATEST root_attrs (OpCopy croot e) w rv w1 Ev) as G1.
    destruct r1 as [ne|er]; [|rewrite (wbind_er _ _ _ _ _ E1); eauto].
    rewrite (wbind_ok _ _ _ _ _ E1).
    destruct (IH w1 D1) as (r & w' & E & D' & G').
    { destruct G1 as (A & _). lia. }
    { intros e0 H0. destruct G1 as (A & _). pose proof (He e0 (or_intror H0)). lia. }
    { exact (K _ _ E1). }
    exists r, w'. split; [exact E|]. split; [exact D'|eapply Grow_trans; eauto].
  - apply IH; auto. intros e0 H0. apply He. right. exact H0.
Qed.

(* ---------- the local file sets of the copies ---------- *)
Lemma dup_membership_ok fm : forall oids cids w,
  (forall o, In o oids -> w_nodes w o <> None) -> (forall c, In c cids -> w_nodes w c <> None) ->
  runs (dup_membership fm oids cids) w.
Proof.
  induction oids as [|o orest IH]; intros cids w Ho Hc; cbn [dup_membership]; [apply runs_ret|].
  destruct cids as [|c crest]; [apply runs_ret|].
  destruct (w_nodes w o) as [on|] eqn:Eo; [|exfalso; exact (Ho o (or_introl eq_refl) Eo)].
  eapply runs_bind; [unfold get_node; rewrite Eo; reflexivity|]. intros a [= <-].
  eapply runs_bind; [reflexivity|]. intros a [= <-].
  destruct (w_nodes w c) as [cn|] eqn:Ec; [|exfalso; exact (Hc c (or_introl eq_refl) Ec)].
  set (g := fun x : node => set_files x (translate_files w fm (n_files on))).
  assert (Em : modify_node c g w = Val (OK tt, wset w c (g cn))).
  { unfold modify_node, wbind, get_node. rewrite Ec. reflexivity. }
  eapply runs_bind; [exact Em|]. intros a _.
  assert (A : forall j, w_nodes w j <> None -> w_nodes (wset w c (g cn)) j <> None).
  { intros j Hj. destruct (N.eq_dec j c) as [->|NE]; [rewrite InvProofsPrim.nodes_wset_eq; discriminate|rewrite InvProofsPrim.nodes_wset_neq by exact NE; exact Hj]. }
  apply IH; [intros o0 H0; apply A, Ho; right; exact H0|intros c0 H0; apply A, Hc; right; exact H0].
Qed.

(* a node whose local file set alone changes, to existing file ids *)
Lemma D_set_files w i n fs : D w -> w_nodes w i = Some n -> (forall g, In g fs -> g < lenF w) -> D (wset w i (set_files n fs)).
Proof.
  intros ((I & (NF & FK)) & O) Hn Hfs. set (n' := set_files n fs). set (w' := wset w i n').
  pose proof I as (C & _ & _ & _ & V & _).
  assert (S : srel w w').
  { split; [reflexivity|]. intros j. unfold w'. destruct (N.eq_dec j i) as [->|NE].
    - rewrite InvProofsPrim.nodes_wset_eq, Hn. repeat split; auto.
    - rewrite InvProofsPrim.nodes_wset_neq by exact NE. destruct (w_nodes w j); [|exact Logic.I]. repeat split; auto. }
  split; [split; [|split]|].
  - apply (H12_srel T tab_el tab_at tab_en w w' S); [| |exact I].
    + apply (Core_same_tree w w'); [|exact C]. split; [reflexivity|]. split; [reflexivity|]. intros j. unfold skel, w'.
      destruct (N.eq_dec j i) as [->|NE]; [rewrite InvProofsPrim.nodes_wset_eq, Hn; reflexivity|rewrite InvProofsPrim.nodes_wset_neq by exact NE; reflexivity].
    + intros j x Hx. unfold w' in Hx. destruct (N.eq_dec j i) as [->|NE].
      * rewrite InvProofsPrim.nodes_wset_eq in Hx. injection Hx as <-. exact (V i n Hn).
      * rewrite InvProofsPrim.nodes_wset_neq in Hx by exact NE. exact (V j x Hx).
  - split; [|reflexivity]. intros j x Hx. unfold w' in Hx. cbn [w_files wset]. destruct (N.eq_dec j i) as [->|NE].
    + rewrite InvProofsPrim.nodes_wset_eq in Hx. injection Hx as <-. intros g Hg. cbn [n_files n' set_files] in Hg.
      pose proof (Hfs g Hg) as Lg. destruct (nth_opt_lt' (w_files w) (N.to_nat g)) as (y & Hy); [lia|]. exists y. exact Hy.
    + rewrite InvProofsPrim.nodes_wset_neq in Hx by exact NE. exact (proj1 NF j x Hx).
  - exact FK.
  - exact (FilesProofsOp2.owned_same w w' eq_refl eq_refl O).
Qed.

Lemma translate_files_ok w fm : fm_ok w fm -> forall fs g, In g (translate_files w fm fs) -> g < lenF w.
Proof.
  intros HM. induction fs as [|f rest IH]; intros g Hg; cbn [translate_files] in Hg; [destruct Hg|].
  destruct (nth_opt (w_files w) (N.to_nat f)) as [fl|]; [|exact (IH g Hg)].
  destruct (assoc_get (f_name fl) fm) as [nf|] eqn:E; [|exact (IH g Hg)].
  apply set_add_in in Hg as [->|Hg]; [exact (HM _ _ E)|exact (IH g Hg)].
Qed.

Lemma dup_membership_D fm : forall oids cids w, D w -> fm_ok w fm ->
  (forall o, In o oids -> w_nodes w o <> None) -> (forall c, In c cids -> w_nodes w c <> None) ->
  exists r w', dup_membership fm oids cids w = Val (r, w') /\ D w' /\ Grow w w'.
Proof.
  induction oids as [|o orest IH]; intros cids w HD HM Ho Hc; cbn [dup_membership].
  - exists (OK tt), w. split; [reflexivity|]. split; [exact HD|apply Grow_refl].
  - destruct cids as [|c crest]; [exists (OK tt), w; split; [reflexivity|]; split; [exact HD|apply Grow_refl]|].
    destruct (w_nodes w o) as [on|] eqn:Eo; [|exfalso; exact (Ho o (or_introl eq_refl) Eo)].
    rewrite (wbind_ok _ _ w on w) by (unfold get_node; rewrite Eo; reflexivity).
    rewrite (wbind_ok _ _ w w w) by reflexivity.
    destruct (w_nodes w c) as [cn|] eqn:Ec; [|exfalso; exact (Hc c (or_introl eq_refl) Ec)].
    set (g := fun x : node => set_files x (translate_files w fm (n_files on))).
    assert (Em : modify_node c g w = Val (OK tt, wset w c (g cn))).
    { unfold modify_node, wbind, get_node. rewrite Ec. reflexivity. }
    unfold wbind at 1. rewrite Em. set (w1 := wset w c (g cn)).
    assert (D1 : D w1) by (apply (D_set_files w c cn _ HD Ec); apply translate_files_ok; exact HM).
    assert (A : forall j, w_nodes w j <> None -> w_nodes w1 j <> None).
    { intros j Hj. unfold w1. destruct (N.eq_dec j c) as [->|NE]; [rewrite InvProofsPrim.nodes_wset_eq; discriminate|rewrite InvProofsPrim.nodes_wset_neq by exact NE; exact Hj]. }
    destruct (IH crest w1 D1 HM) as (r & w' & E & D' & G').
    { intros o0 H0. apply A, Ho. right. exact H0. }
    { intros c0 H0. apply A, Hc. right. exact H0. }
    exists r, w'. split; [exact E|]. split; [exact D'|]. eapply Grow_trans; [|exact G']. unfold Grow, w1. cbn. repeat split; lia.
Qed.

(* ---------- the root of the copy takes the attributes and the comment of the original root ---------- *)
Lemma D_set_attrs w i n a c : D w -> w_nodes w i = Some n -> attrV tab_at tab_en a ->
  D (wset w i (set_comment (set_attrs n a) c)).
Proof.
  intros ((I & (NF & FK)) & O) Hn Ha. set (n' := set_comment (set_attrs n a) c). set (w' := wset w i n').
  pose proof I as (C & _ & _ & _ & V & _).
  assert (S : srel w w').
  { split; [reflexivity|]. intros j. unfold w'. destruct (N.eq_dec j i) as [->|NE].
    - rewrite InvProofsPrim.nodes_wset_eq, Hn. repeat split; auto.
    - rewrite InvProofsPrim.nodes_wset_neq by exact NE. destruct (w_nodes w j); [|exact Logic.I]. repeat split; auto. }
  split; [split; [|split]|].
  - apply (H12_srel T tab_el tab_at tab_en w w' S); [| |exact I].
    + apply (Core_same_tree w w'); [|exact C]. split; [reflexivity|]. split; [reflexivity|]. intros j. unfold skel, w'.
      destruct (N.eq_dec j i) as [->|NE]; [rewrite InvProofsPrim.nodes_wset_eq, Hn; reflexivity|rewrite InvProofsPrim.nodes_wset_neq by exact NE; reflexivity].
    + intros j x Hx. unfold w' in Hx. destruct (N.eq_dec j i) as [->|NE].
      * rewrite InvProofsPrim.nodes_wset_eq in Hx. injection Hx as <-. split; [exact (proj1 (V i n Hn))|exact Ha].
      * rewrite InvProofsPrim.nodes_wset_neq in Hx by exact NE. exact (V j x Hx).
  - split; [|reflexivity]. intros j x Hx. unfold w' in Hx. cbn [w_files wset]. destruct (N.eq_dec j i) as [->|NE].
    + rewrite InvProofsPrim.nodes_wset_eq in Hx. injection Hx as <-. exact (proj1 NF i n Hn).
    + rewrite InvProofsPrim.nodes_wset_neq in Hx by exact NE. exact (proj1 NF j x Hx).
  - exact FK.
  - exact (FilesProofsOp2.owned_same w w' eq_refl eq_refl O).
Qed.

(* SizeOk whenever the call is about to copy a child of the root (as wf_ops asks it of every copy of a history) *)
Definition dup_sized (m : N) (w : world) : Prop :=
  forall x c w1 rn cx u w2 fm w3,
    get_model m w = Val (OK x, w) -> new_model T root_attrs w = Val (OK c, w1) -> get_node (m_root x) w1 = Val (OK rn, w1) ->
    get_model c w1 = Val (OK cx, w1) ->
    modify_node (m_root cx) (fun r => set_comment (set_attrs r (n_attrs rn)) (n_comment rn)) w1 = Val (OK u, w2) ->
    dup_files T c (m_files x) [] w2 = Val (OK fm, w3) ->
    sized_copies (m_root cx) (n_content rn) w3.

Theorem np_duplicate_bodyD w m : D w -> m < lenM w -> dup_sized m w ->
  exists r w', m_duplicate_body T LATEST root_attrs m w = Val (r, w') /\ D w'.
Proof.
  intros HD Lm HS. pose proof HD as ((I & F) & O). pose proof (H12_PanicFree T tab_el tab_at tab_en w I) as [C U CU].
  unfold m_duplicate_body.
  destruct (ENV get_model_ok w m C Lm) as (x & Ex & Hx & (Lrx & _)).
  rewrite (wbind_ok _ _ _ _ _ Ex).
  (* new_model *)
  destruct (ENV np_new_model w) as (r1 & w1 & E1).
  destruct (wmap_any _ VModel _ _ _ E1) as (rv & Ev).
  assert (D1 : D w1) by (apply (D_op OpNewModel w rv w1 HD); [exact Logic.I|exact Logic.I|exact Ev]).
  pose proof (grow_op T tab_el tab_en check_fn LATEST root_attrs OpNewModel w rv w1 Ev) as G1.
  assert (Hc : exists c, r1 = OK c /\ c < lenM w1).
  { unfold new_model in E1. destruct (et_new T (autosar_element T)) as [ty| |]; destruct (elem T (autosar_element T)) as [ed| |]; try discriminate.
    injection E1 as <- <-. eexists. split; [reflexivity|]. cbn [w_models]. rewrite app_length. cbn. lia. }
  destruct Hc as (c & -> & Lc1). rewrite (wbind_ok _ _ _ _ _ E1).
  pose proof D1 as ((I1 & F1) & O1). pose proof (H12_PanicFree T tab_el tab_at tab_en w1 I1) as [C1 U1 CU1].
  assert (Lrx1 : m_root x < w_next w1) by (destruct G1 as (A & _); lia).
  destruct (ENV get_node_ok w1 (m_root x) C1 Lrx1) as (rn & Ern & Hrn & NOrn). rewrite (wbind_ok _ _ _ _ _ Ern).
  destruct (ENV get_model_ok w1 c C1 Lc1) as (cx & Ecx & Hcx & (Lcr & _)). rewrite (wbind_ok _ _ _ _ _ Ecx).
  (* the root's attributes and comment *)
  destruct (ENV get_node_ok w1 (m_root cx) C1 Lcr) as (crn & _ & Hcrn & _).
  set (g := fun r : node => set_comment (set_attrs r (n_attrs rn)) (n_comment rn)).
  assert (Em : modify_node (m_root cx) g w1 = Val (OK tt, wset w1 (m_root cx) (g crn))).
  { unfold modify_node, wbind, get_node. rewrite Hcrn. reflexivity. }
  unfold wbind at 1. fold g. rewrite Em. set (w2 := wset w1 (m_root cx) (g crn)).
  assert (D2 : D w2).
  { apply (D_set_attrs w1 (m_root cx) crn (n_attrs rn) (n_comment rn) D1 Hcrn). destruct I1 as (_ & _ & _ & _ & V1 & _). exact (proj2 (V1 _ _ Hrn)). }
  (* the files *)
  destruct (dup_files_ok c (m_files x) [] w2 D2) as (r3 & w3 & E3 & D3 & G3 & M3); [exact Lc1| |intros k v [=]|].
  { intros f Hf. destruct (O m x f Hx Hf) as (fl & Hfl & _). unfold w2. cbn [w_files wset]. destruct G1 as (_ & _ & A).
    assert (N.to_nat f < List.length (w_files w))%nat; [|lia].
    clear - Hfl. revert Hfl. generalize (N.to_nat f). induction (w_files w) as [|a l IH]; intros [|k] H; cbn in *; try discriminate; try lia.
    apply IH in H. lia. }
  destruct r3 as [fm|e3]; [|rewrite (wbind_er _ _ _ _ _ E3); eauto]. rewrite (wbind_ok _ _ _ _ _ E3). specialize (M3 fm eq_refl).
  (* the copies *)
  assert (N2 : w_next w2 = w_next w1) by reflexivity.
  destruct (dup_children_ok (m_root cx) (n_content rn) w3 D3) as (r4 & w4 & E4 & D4 & G4).
  { destruct G3 as (A & _). lia. }
  { intros e He. destruct NOrn as (_ & _ & K & _). pose proof (K e He). destruct G3 as (A & _). lia. }
  { exact (HS x c w1 rn cx tt w2 fm w3 Ex E1 Ern Ecx Em E3). }
  destruct r4 as [u4|e4]; [|unfold wbind at 1; rewrite E4; eauto]. unfold wbind at 1. rewrite E4.
  (* the two walks and the membership loop *)
  pose proof D4 as ((I4 & _) & _). pose proof (H12_PanicFree T tab_el tab_at tab_en w4 I4) as [C4 U4 CU4].
  assert (L4x : m_root x < w_next w4) by (destruct G3 as (A & _), G4 as (B & _); lia).
  assert (L4c : m_root cx < w_next w4) by (destruct G3 as (A & _), G4 as (B & _); lia).
  change (exists r w', (do w5 <- wget; do oids <- dfs_ids (fuel_of w5) (m_root x); do cids <- dfs_ids (fuel_of w5) (m_root cx); dup_membership fm oids cids;; wret c)%W w4 = Val (r, w') /\ D w').
  rewrite (wbind_ok _ _ w4 w4 w4) by reflexivity.
  destruct (dfs_ids_runs T tab_el tab_en w4 C4 (fuel_of w4) (m_root x) L4x (hb_fuel T tab_el tab_en w4 _ C4 U4 CU4 L4x)) as (ro & Eo & Fo).
  destruct ro as [oids|eo]; [|rewrite (wbind_er _ _ _ _ _ Eo); eauto]. rewrite (wbind_ok _ _ _ _ _ Eo). specialize (Fo oids eq_refl).
  destruct (dfs_ids_runs T tab_el tab_en w4 C4 (fuel_of w4) (m_root cx) L4c (hb_fuel T tab_el tab_en w4 _ C4 U4 CU4 L4c)) as (rc & Ec & Fc).
  destruct rc as [cids|ec]; [|rewrite (wbind_er _ _ _ _ _ Ec); eauto]. rewrite (wbind_ok _ _ _ _ _ Ec). specialize (Fc cids eq_refl).
  destruct (dup_membership_D fm oids cids w4 D4 (fm_ok_grow _ _ _ G4 M3)) as (r5 & w5 & E5 & D5 & _).
  { intros j Hj. apply (cl_alloc _ _ _ _ C4). auto. }
  { intros j Hj. apply (cl_alloc _ _ _ _ C4). auto. }
  destruct r5 as [u5|e5]; [rewrite (wbind_ok _ _ _ _ _ E5); exists (OK c), w5; split; [reflexivity|exact D5]|rewrite (wbind_er _ _ _ _ _ E5); eauto].
Qed.

Theorem np_duplicate_body w m : D w -> m < lenM w -> dup_sized m w -> runs (m_duplicate_body T LATEST root_attrs m) w.
Proof. intros HD Lm HS. destruct (np_duplicate_bodyD w m HD Lm HS) as (r & w' & E & _). unfold runs. eauto. Qed.

Theorem np_duplicate w m : D w -> m < lenM w -> dup_sized m w -> runs (m_duplicate T tab_el tab_en check_fn LATEST root_attrs m) w.
Proof.
  intros HD Lm HS. destruct (np_duplicate_body w m HD Lm HS) as (r & w' & E).
  unfold runs, m_duplicate. rewrite E. destruct r; eauto.
Qed.

(* a SUCCESSFUL duplicate keeps D (a failing one drops the copy's model record and leaves its root with the parent link
   `PModel c`: agent-c13's class dup_failed) *)
Theorem D_duplicate_ok w m c w' : D w -> m < lenM w -> dup_sized m w ->
  m_duplicate T tab_el tab_en check_fn LATEST root_attrs m w = Val (OK c, w') -> D w'.
Proof.
  intros HD Lm HS H. destruct (np_duplicate_bodyD w m HD Lm HS) as (r & w1 & E & D1).
  unfold m_duplicate in H. rewrite E in H. destruct r; [injection H as _ <-; exact D1|discriminate H].
Qed.

End Dup.
