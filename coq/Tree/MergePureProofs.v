(* Tree/MergePureProofs.v — C09 at the pure level: merging the partial view of a master in file g into the merged model
   of the files F yields the merged model of g :: F.
     pview g t      the partial view of the master t in file g as a pure tree (= htree_of_etree of MergeSpec.project)
     Rep F inh t h  h is the merged model of the files F of the master t: the elements that are in some file of F,
                    each exactly once; below a BAG node (unnamed container with bag content: AR-PACKAGES, ELEMENTS,
                    CONTAINERS ...) in any order, below every other node in the order of the master; local membership
                    = the files of F that contain the element, empty when that equals the set of the parent (`inh`)
     Good t         the class of the theorem, see below
   Main result: [pmerge_rep]. *)
From Coq Require Import Sorting.Sorted Permutation.
From AV Require Import Base.Bytes Base.Outcome Hash.HashModel Tree.Heap Tree.Ops Tree.Load Tree.MergeSpec Tree.MergePure
  Tree.LoadProofsWalk Tree.MergePureProofsBase.
From AV Require Xml.Lexer Xml.Parser.
Open Scope string_scope.
Open Scope list_scope.
Open Scope N_scope.

Definition hattrs (attrs : list (N * Parser.cdata)) : list (N * cdata) := map (fun a => (fst a, to_hc (snd a))) attrs.

Definition mfiles (t : mtree) : list N := m_fileset t.
Definition present (F : list N) (t : mtree) : bool := negb (is_empty (inF F (mfiles t))).

(* the partial view of t in file g (meaningful when g is one of the files of t) *)
Fixpoint pview (g : N) (t : mtree) {struct t} : htree :=
  match t with
  | MNode name ty attrs content comment files =>
    HNode name ty (hattrs attrs)
      ((fix go (l : list (mtree + Parser.cdata)) : list (htree + cdata) :=
          match l with
          | [] => []
          | inl c :: r => if set_mem g (mfiles c) then inl (pview g c) :: go r else go r
          | inr d :: r => inr (to_hc d) :: go r
          end) content)
      comment []
  end.

Fixpoint pview_items (g : N) (l : list (mtree + Parser.cdata)) : list (htree + cdata) :=
  match l with
  | [] => []
  | inl c :: r => if set_mem g (mfiles c) then inl (pview g c) :: pview_items g r else pview_items g r
  | inr d :: r => inr (to_hc d) :: pview_items g r
  end.

Lemma pview_unfold g name ty attrs content comment files :
  pview g (MNode name ty attrs content comment files) = HNode name ty (hattrs attrs) (pview_items g content) comment [].
Proof.
  cbn [pview]. f_equal. induction content as [|[c|d] r IH]; cbn [pview_items]; [reflexivity| |]; rewrite IH; reflexivity.
Qed.

(* nesting depth *)
Fixpoint depth (t : mtree) {struct t} : nat :=
  match t with
  | MNode _ _ _ content _ _ =>
    S ((fix go (l : list (mtree + Parser.cdata)) : nat :=
          match l with
          | [] => O
          | inl c :: r => Nat.max (depth c) (go r)
          | inr _ :: r => go r
          end) content)
  end.

Fixpoint depth_items (l : list (mtree + Parser.cdata)) : nat :=
  match l with
  | [] => O
  | inl c :: r => Nat.max (depth c) (depth_items r)
  | inr _ :: r => depth_items r
  end.

Lemma depth_unfold name ty attrs content comment files :
  depth (MNode name ty attrs content comment files) = S (depth_items content).
Proof.
  reflexivity.
Qed.

Lemma depth_items_in c l : In (inl c) l -> (depth c <= depth_items l)%nat.
Proof.
  induction l as [|[c0|d] r IH]; cbn [In depth_items]; [intros []| |].
  - intros [[= ->]|H]; [lia|]. apply IH in H. lia.
  - intros [[=]|H]. auto.
Qed.

(* the depth of a pure tree *)
Fixpoint hdepth (h : htree) {struct h} : nat :=
  match h with
  | HNode _ _ _ content _ _ =>
    S ((fix go (l : list (htree + cdata)) : nat :=
          match l with [] => O | inl c :: r => Nat.max (hdepth c) (go r) | inr _ :: r => go r end) content)
  end.
Fixpoint hdepth_items (l : list (htree + cdata)) : nat :=
  match l with [] => O | inl c :: r => Nat.max (hdepth c) (hdepth_items r) | inr _ :: r => hdepth_items r end.
Lemma hdepth_unfold n t a c cm loc : hdepth (HNode n t a c cm loc) = S (hdepth_items c).
Proof. reflexivity. Qed.
Lemma hdepth_items_in c l : In (inl c) l -> (hdepth c <= hdepth_items l)%nat.
Proof.
  induction l as [|[c0|d] r IH]; cbn [In hdepth_items]; [intros []| |].
  - intros [[= ->]|H]; [lia|]. apply IH in H. lia.
  - intros [[=]|H]. auto.
Qed.

Fixpoint hitems_of_eitems (l : list (Parser.etree + Parser.cdata)) : list (htree + cdata) :=
  match l with
  | [] => []
  | inl c :: r => inl (htree_of_etree c) :: hitems_of_eitems r
  | inr d :: r => inr (to_hc d) :: hitems_of_eitems r
  end.

Lemma htree_of_etree_unfold name ty attrs content comment :
  htree_of_etree (Parser.ENode name ty attrs content comment) =
  HNode name ty (hattrs attrs) (hitems_of_eitems content) comment [].
Proof.
  reflexivity.
Qed.

Fixpoint project_items (g : N) (l : list (mtree + Parser.cdata)) : list (Parser.etree + Parser.cdata) :=
  match l with
  | [] => []
  | inl c :: r => match project g c with Some e => inl e :: project_items g r | None => project_items g r end
  | inr d :: r => inr d :: project_items g r
  end.

Lemma project_unfold g name ty attrs content comment files :
  project g (MNode name ty attrs content comment files) =
  if set_mem g files then Some (Parser.ENode name ty attrs (project_items g content) comment) else None.
Proof.
  cbn [project]. destruct (set_mem g files); [|reflexivity]. f_equal. f_equal.
  induction content as [|[c|d] r IH]; cbn [project_items]; [reflexivity| |]; rewrite IH; reflexivity.
Qed.

Lemma project_some g t : set_mem g (mfiles t) = true -> exists e, project g t = Some e.
Proof.
  destruct t as [name ty attrs content comment files]. rewrite project_unfold. unfold mfiles, m_fileset.
  intros H. rewrite H. eauto.
Qed.
Lemma project_none g t : set_mem g (mfiles t) = false -> project g t = None.
Proof.
  destruct t as [name ty attrs content comment files]. rewrite project_unfold. unfold mfiles, m_fileset.
  intros H. rewrite H. reflexivity.
Qed.

(* the view of MergeSpec.project, read as a pure tree, is pview *)
Lemma pview_project n : forall t, (depth t <= n)%nat -> forall g e, project g t = Some e -> htree_of_etree e = pview g t.
Proof.
  induction n as [|n IH]; intros [name ty attrs content comment files] Hd g e; rewrite depth_unfold in Hd; [lia|].
  rewrite project_unfold. destruct (set_mem g files); [|discriminate]. intros [= <-].
  rewrite htree_of_etree_unfold, pview_unfold. f_equal.
  assert (Hc : forall c, In (inl c) content -> (depth c <= n)%nat).
  { intros c Hin. apply depth_items_in in Hin. lia. }
  clear Hd. induction content as [|[c|d] r IHr]; cbn [project_items hitems_of_eitems pview_items]; [reflexivity| |].
  - destruct (set_mem g (mfiles c)) eqn:E.
    + destruct (project_some g c E) as (e & He). rewrite He. cbn [hitems_of_eitems]. f_equal.
      * f_equal. apply (IH c); [apply Hc; left; reflexivity|exact He].
      * apply IHr. intros c0 H0. apply Hc. right. exact H0.
    + rewrite (project_none g c E). apply IHr. intros c0 H0. apply Hc. right. exact H0.
  - f_equal. apply IHr. intros c0 H0. apply Hc. right. exact H0.
Qed.

Section Union.
Variable T : tables.
Variables LATEST defref v : N.
Variable fver : N -> option N.
Hypothesis fver_v : forall f, fver f = Some v.

Definition bag_ty (ty : N * N) : Prop := content_mode T ty = Val MBag /\ is_named T ty = Val false.

(* ---------- the merged model of the files F ---------- *)
(* the views of the present sub-elements, in the order of the master *)
Fixpoint RepItems (R : list N -> mtree -> htree -> Prop) (F S : list N) (l : list (mtree + Parser.cdata))
         (hl : list (htree + cdata)) {struct l} : Prop :=
  match l with
  | [] => hl = []
  | inr d :: r => exists hr, hl = inr (to_hc d) :: hr /\ RepItems R F S r hr
  | inl c :: r =>
    if present F c then exists h hr, hl = inl h :: hr /\ R S c h /\ RepItems R F S r hr
    else RepItems R F S r hl
  end.

Fixpoint Rep (F : list N) (inh : option (list N)) (t : mtree) (h : htree) {struct t} : Prop :=
  match t with
  | MNode name ty attrs content comment files =>
    let S := inF F files in
    S <> [] /\
    exists hc hc',
      h = HNode name ty (hattrs attrs) hc comment (norm inh S) /\
      (fix items (l : list (mtree + Parser.cdata)) (hl : list (htree + cdata)) {struct l} : Prop :=
         match l with
         | [] => hl = []
         | inr d :: r => exists hr, hl = inr (to_hc d) :: hr /\ items r hr
         | inl c :: r =>
           if present F c then exists h0 hr, hl = inl h0 :: hr /\ Rep F (Some S) c h0 /\ items r hr
           else items r hl
         end) content hc' /\
      Permutation hc hc' /\ (bag_ty ty \/ hc = hc')
  end.

Lemma Rep_unfold F inh name ty attrs content comment files h :
  Rep F inh (MNode name ty attrs content comment files) h <->
  (inF F files <> [] /\
   exists hc hc',
     h = HNode name ty (hattrs attrs) hc comment (norm inh (inF F files)) /\
     RepItems (fun S c h0 => Rep F (Some S) c h0) F (inF F files) content hc' /\
     Permutation hc hc' /\ (bag_ty ty \/ hc = hc')).
Proof.
  cbn [Rep].
  assert (E : forall l hl,
             (fix items (l : list (mtree + Parser.cdata)) (hl : list (htree + cdata)) {struct l} : Prop :=
                match l with
                | [] => hl = []
                | inr d :: r => exists hr, hl = inr (to_hc d) :: hr /\ items r hr
                | inl c :: r =>
                  if present F c then exists h0 hr, hl = inl h0 :: hr /\ Rep F (Some (inF F files)) c h0 /\ items r hr
                  else items r hl
                end) l hl <-> RepItems (fun S c h0 => Rep F (Some S) c h0) F (inF F files) l hl).
  { induction l as [|[c|d] r IH]; intros hl; cbn [RepItems]; [tauto| |].
    - destruct (present F c); [|apply IH].
      split; intros (h0 & hr & E1 & E2 & E3); exists h0, hr; repeat split; auto; apply IH; auto.
    - split; intros (hr & E1 & E2); exists hr; split; auto; apply IH; auto. }
  split; intros (H1 & hc & hc' & H2 & H3 & H4); (split; [exact H1|]); exists hc, hc'; repeat split; try tauto; apply E; auto.
Qed.

(* ---------- the class of the theorem ---------- *)
Definition kids (l : list (mtree + Parser.cdata)) : list mtree :=
  flat_map (fun it => match it with inl c => [c] | inr _ => [] end) l.

Lemma kids_in c l : In c (kids l) <-> In (inl c) l.
Proof.
  unfold kids. rewrite in_flat_map. split.
  - intros ([c0|d] & Hin & Hc); cbn in Hc; [destruct Hc as [<-|[]]; exact Hin|destruct Hc].
  - intros H. exists (inl c). split; [exact H|left; reflexivity].
Qed.

(* the key of a sub-element does not depend on the view *)
Definition KeyStable (ty : N * N) (c : mtree) (kc : core) : Prop :=
  (forall F inh h, Rep F inh c h -> forall i, hkey T defref ty i h = inj (pk_of i kc)) /\
  (forall g, In g (mfiles c) -> forall i, hkey T defref ty i (pview g c) = inj (pk_of i kc)).

Definition ing (g : N) (c : mtree) : bool := set_mem g (mfiles c).

(* a split point with sequence content: the sub-elements are of pairwise different kinds, every two kinds are ordered by
   a sequence group of the type, and the master lists them in that (schema) order *)
Definition SeqKids (ty : N * N) (ks : list mtree) : Prop :=
  content_mode T ty = Val MSequence /\
  exists idx : mtree -> list N,
    (forall c, In c ks -> exists sub, find_sub_element T ty (m_name c) v = Val (Some (sub, idx c))) /\
    (forall c x, In c ks -> In x ks -> c <> x ->
       exists g gd, find_common_group T ty (idx c) (idx x) = Val g /\ dt T g = Val gd /\ dt_mode gd = MSequence) /\
    (forall l1 c l2, ks = l1 ++ c :: l2 ->
       (forall x, In x l1 -> lex_cmp (idx c) (idx x) = Gt) /\ (forall x, In x l2 -> lex_cmp (idx c) (idx x) = Lt)).

Definition NodeOK (ty : N * N) (content : list (mtree + Parser.cdata)) (files : list N) : Prop :=
  (forall c, In c (kids content) -> incl (mfiles c) files) /\
  (exists sp, splittable_in T ty v = Val sp) /\
  NoDup (kids content) /\
  ((* a leaf: character data only *)
   kids content = [] \/
   (* sub-elements only: all of them in the files of the parent, or a bag (unnamed, any subset, any order), or a
      splittable sequence (any subset, schema order) *)
   (content = map inl (kids content) /\
    ((~ bag_ty ty /\ forall c, In c (kids content) -> mfiles c = files) \/
     (bag_ty ty /\ splittable_in T ty v = Val true /\
      forall c, In c (kids content) -> exists r, find_sub_element T ty (m_name c) v = Val (Some r)) \/
     (~ bag_ty ty /\ splittable_in T ty v = Val true /\ SeqKids ty (kids content))))) /\
  exists kcore : mtree -> core,
    (forall c, In c (kids content) -> KeyStable ty c (kcore c)) /\
    (forall c1 c2, In c1 (kids content) -> In c2 (kids content) -> cmatch (kcore c1) (kcore c2) = true -> c1 = c2) /\
    (forall c1 c2, In c1 (kids content) -> In c2 (kids content) ->
                   c_name (kcore c1) = c_name (kcore c2) -> c_ident (kcore c1) = c_ident (kcore c2)).

Fixpoint Good (t : mtree) {struct t} : Prop :=
  match t with
  | MNode name ty attrs content comment files =>
    sset files /\ files <> [] /\ NodeOK ty content files /\
    (fix all (l : list (mtree + Parser.cdata)) : Prop :=
       match l with [] => True | inl c :: r => Good c /\ all r | inr _ :: r => all r end) content
  end.

Lemma Good_unfold name ty attrs content comment files :
  Good (MNode name ty attrs content comment files) <->
  (sset files /\ files <> [] /\ NodeOK ty content files /\ forall c, In c (kids content) -> Good c).
Proof.
  cbn [Good].
  assert (E : forall l,
             (fix all (l : list (mtree + Parser.cdata)) : Prop :=
                match l with [] => True | inl c :: r => Good c /\ all r | inr _ :: r => all r end) l <->
             (forall c, In c (kids l) -> Good c)).
  { induction l as [|[c|d] r IH]; cbn [kids flat_map app].
    - split; [intros _ c []|auto].
    - rewrite IH. split.
      + intros [H1 H2] c0 [<-|H0]; auto.
      + intros H. split; [apply H; left; reflexivity|]. intros c0 H0. apply H. right. exact H0.
    - exact IH. }
  rewrite E. tauto.
Qed.

(* ---------- simple facts about Rep ---------- *)
Lemma Rep_shape F inh t h :
  Rep F inh t h ->
  h_name h = m_name t /\ h_ty h = m_ty t /\ h_local h = norm inh (inF F (mfiles t)) /\ inF F (mfiles t) <> [].
Proof.
  destruct t as [name ty attrs content comment files]. rewrite Rep_unfold.
  intros (H1 & hc & hc' & -> & _). cbn. auto.
Qed.

Lemma RepItems_mono (R R' : list N -> mtree -> htree -> Prop) F F' S S' l :
  (forall c, In c (kids l) -> present F' c = present F c) ->
  (forall c h, In c (kids l) -> present F c = true -> R S c h -> R' S' c h) ->
  forall hl, RepItems R F S l hl -> RepItems R' F' S' l hl.
Proof.
  induction l as [|[c|d] r IH]; intros Hp Hr hl; cbn [RepItems]; [auto| |].
  - assert (Hin : In c (kids (inl c :: r))) by (left; reflexivity).
    rewrite (Hp c Hin).
    assert (Hp' : forall c0, In c0 (kids r) -> present F' c0 = present F c0) by (intros c0 H0; apply Hp; right; exact H0).
    assert (Hr' : forall c0 h, In c0 (kids r) -> present F c0 = true -> R S c0 h -> R' S' c0 h)
      by (intros c0 h H0; apply Hr; right; exact H0).
    destruct (present F c) eqn:E.
    + intros (h0 & hr & -> & H1 & H2). exists h0, hr. repeat split; auto.
    + intros H. apply IH; auto.
  - intros (hr & -> & H). exists hr. split; [reflexivity|]. apply IH; auto.
Qed.

(* the inherited set only shows in the local membership of the element itself *)
Lemma Rep_inh F inh inh' t h :
  Rep F inh t h -> Rep F inh' t (h_set_local h (norm inh' (inF F (mfiles t)))).
Proof.
  destruct t as [name ty attrs content comment files]. rewrite !Rep_unfold.
  intros (H1 & hc & hc' & -> & H2 & H3 & H4). split; [exact H1|]. exists hc, hc'. cbn. auto.
Qed.

(* a file that does not contain the element changes nothing *)
Lemma Rep_notin n : forall t, (depth t <= n)%nat -> Good t -> forall F g inh h,
  ~ In g (mfiles t) -> Rep F inh t h -> Rep (g :: F) inh t h.
Proof.
  induction n as [|n IH]; intros [name ty attrs content comment files] Hd HG F g inh h Hg; rewrite depth_unfold in Hd; [lia|].
  apply Good_unfold in HG as (Hs & Hne & (Hsub & _) & Hkids). cbn [mfiles m_fileset] in Hg.
  rewrite !Rep_unfold. rewrite (inF_cons_notin g F files Hg).
  intros (H1 & hc & hc' & -> & H2 & H3 & H4). split; [exact H1|]. exists hc, hc'. repeat split; auto.
  assert (Hnot : forall c, In c (kids content) -> ~ In g (mfiles c)).
  { intros c Hc Hin. apply Hg. apply (Hsub c Hc). exact Hin. }
  eapply RepItems_mono; [| |exact H2].
  - intros c Hc. unfold present. rewrite (inF_cons_notin g F _ (Hnot c Hc)). reflexivity.
  - intros c h0 Hc _ Hr. apply (IH c); auto.
    apply kids_in in Hc. apply depth_items_in in Hc. lia.
Qed.

Lemma inF_nil_incl F a b : incl a b -> inF F b = [] -> inF F a = [].
Proof.
  intros Hi Hb. destruct (inF F a) as [|x l] eqn:E; [reflexivity|]. exfalso.
  assert (Hx : In x (inF F a)) by (rewrite E; left; reflexivity).
  apply inF_in in Hx as [Hx HF]. assert (In x (inF F b)) by (apply inF_in; auto). rewrite Hb in H. destruct H.
Qed.

Lemma inF_single g F files : sset files -> In g files -> inF F files = [] -> inF (g :: F) files = [g].
Proof.
  intros Hs Hg Hn. apply sset_ext.
  - apply sset_filter. exact Hs.
  - constructor; constructor.
  - intros x. rewrite inF_in. cbn [In]. split.
    + intros [Hx [<-|HF]]; [auto|]. exfalso. assert (In x (inF F files)) by (apply inF_in; auto). rewrite Hn in H. destruct H.
    + intros [<-|[]]. auto.
Qed.

Lemma pview_local g t : h_local (pview g t) = [].
Proof. destruct t. rewrite pview_unfold. reflexivity. Qed.

Lemma h_set_local_same h : h_set_local h (h_local h) = h.
Proof. destruct h. reflexivity. Qed.

(* an element that is only in the new file: its view is its merged model *)
Lemma Rep_pview n : forall t, (depth t <= n)%nat -> Good t -> forall F g inh,
  In g (mfiles t) -> inF F (mfiles t) = [] ->
  Rep (g :: F) inh t (h_set_local (pview g t) (norm inh [g])).
Proof.
  induction n as [|n IH]; intros [name ty attrs content comment files] Hd HG F g inh Hg Hn; rewrite depth_unfold in Hd; [lia|].
  apply Good_unfold in HG as (Hs & Hne & (Hsub & _) & Hkids). cbn [mfiles m_fileset] in Hg, Hn.
  rewrite Rep_unfold, (inF_single g F files Hs Hg Hn). split; [discriminate|].
  exists (pview_items g content), (pview_items g content). rewrite pview_unfold. cbn [h_set_local].
  split; [reflexivity|]. split; [|split; [apply Permutation_refl|right; reflexivity]].
  assert (Hc : forall c, In c (kids content) -> (depth c <= n)%nat /\ Good c /\ inF F (mfiles c) = []).
  { intros c Hin. split; [|split; [apply Hkids; exact Hin|]].
    - apply kids_in in Hin. apply depth_items_in in Hin. lia.
    - eapply inF_nil_incl; [apply Hsub; exact Hin|exact Hn]. }
  clear Hd Hsub Hkids. induction content as [|[c|d] r IHr]; cbn [pview_items RepItems]; [reflexivity| |].
  - destruct (Hc c) as (Hdc & HGc & Hnc); [left; reflexivity|].
    assert (Hr : forall c0, In c0 (kids r) -> (depth c0 <= n)%nat /\ Good c0 /\ inF F (mfiles c0) = [])
      by (intros c0 H0; apply Hc; right; exact H0).
    destruct (set_mem g (mfiles c)) eqn:E.
    + apply set_mem_in in E.
      assert (Hp : present (g :: F) c = true).
      { unfold present. apply negb_true_iff. apply is_empty_false. intros Hnil.
        assert (Hin : In g (inF (g :: F) (mfiles c))) by (apply inF_in; split; [exact E|left; reflexivity]).
        rewrite Hnil in Hin. destruct Hin. }
      rewrite Hp. exists (pview g c), (pview_items g r). split; [reflexivity|]. split; [|apply IHr; exact Hr].
      pose proof (IH c Hdc HGc F g (Some [g]) E Hnc) as Hrep.
      replace (norm (Some [g]) [g]) with (@nil N) in Hrep by (cbn; rewrite N.eqb_refl; reflexivity).
      assert (E2 : h_set_local (pview g c) [] = pview g c).
      { destruct c. rewrite pview_unfold. reflexivity. }
      rewrite E2 in Hrep. exact Hrep.
    + assert (Hp : present (g :: F) c = false).
      { unfold present. rewrite inF_cons_notin, Hnc; [reflexivity|]. intros Hin. apply set_mem_in in Hin. congruence. }
      rewrite Hp. apply IHr. exact Hr.
  - exists (pview_items g r). split; [reflexivity|]. apply IHr. intros c0 H0. apply Hc. exact H0.
Qed.

(* ---------- content lists of the two kinds of nodes ---------- *)
Lemma kids_map_inl ks : kids (map inl ks) = ks.
Proof. induction ks as [|c r IH]; cbn; [reflexivity|]. f_equal. exact IH. Qed.

Lemma RepItems_elems (R : list N -> mtree -> htree -> Prop) F S ks hl :
  RepItems R F S (map inl ks) hl <->
  exists hs, hl = map inl hs /\ Forall2 (fun h c => R S c h) hs (filter (present F) ks).
Proof.
  revert hl. induction ks as [|c r IH]; intros hl; cbn [map RepItems filter].
  - split; [intros ->; exists []; split; [reflexivity|constructor]|].
    intros (hs & -> & HF). inversion HF. reflexivity.
  - destruct (present F c).
    + split.
      * intros (h0 & hr & -> & H1 & H2). apply IH in H2 as (hs & -> & HF).
        exists (h0 :: hs). split; [reflexivity|]. constructor; auto.
      * intros (hs & -> & HF). inversion HF as [|h0 ? hs' ? H1 HF']; subst.
        exists h0, (map inl hs'). split; [reflexivity|]. split; [exact H1|]. apply IH. eauto.
    + apply IH.
Qed.

Lemma pview_items_elems g ks :
  pview_items g (map inl ks) = map inl (map (pview g) (filter (ing g) ks)).
Proof.
  induction ks as [|c r IH]; cbn [map pview_items filter]; [reflexivity|].
  unfold ing at 1. destruct (set_mem g (mfiles c)); cbn [map]; rewrite IH; reflexivity.
Qed.

Fixpoint data_items (l : list (mtree + Parser.cdata)) : list (htree + cdata) :=
  match l with [] => [] | inr d :: r => inr (to_hc d) :: data_items r | inl _ :: r => data_items r end.

Lemma RepItems_leaf (R : list N -> mtree -> htree -> Prop) F S l hl :
  kids l = [] -> (RepItems R F S l hl <-> hl = data_items l).
Proof.
  revert hl. induction l as [|[c|d] r IH]; intros hl Hk; cbn [RepItems data_items].
  - tauto.
  - cbn in Hk. discriminate.
  - cbn in Hk. split.
    + intros (hr & -> & H). f_equal. apply IH; auto.
    + intros ->. exists (data_items r). split; [reflexivity|]. apply IH; auto.
Qed.

Lemma pview_items_leaf g l : kids l = [] -> pview_items g l = data_items l.
Proof.
  induction l as [|[c|d] r IH]; intros Hk; cbn [pview_items data_items]; [reflexivity|cbn in Hk; discriminate|].
  f_equal. apply IH. exact Hk.
Qed.

Lemma hkeys_data ty l : forall i, kids l = [] -> hkeys T defref ty i (data_items l) = [].
Proof.
  induction l as [|[c|d] r IH]; intros i Hk; cbn [data_items hkeys]; [reflexivity|cbn in Hk; discriminate|].
  apply IH. exact Hk.
Qed.

Lemma hkeys_elems ty (kcore : mtree -> core) hs cs :
  Forall2 (fun h c => forall i, hkey T defref ty i h = inj (pk_of i (kcore c))) hs cs ->
  forall from, hkeys T defref ty from (map inl hs) = map inj (pks_from from (map kcore cs)).
Proof.
  induction 1 as [|h c hs cs Hk HF IH]; intros from; cbn [map hkeys pks_from]; [reflexivity|].
  rewrite Hk, IH. reflexivity.
Qed.

(* all files have version v *)
Lemma pfmv l : l <> [] -> p_files_min_version LATEST fver l = v.
Proof.
  intros Hne. unfold p_files_min_version.
  assert (E : flat_map (fun f => match fver f with Some v0 => [v0] | None => [] end) l = map (fun _ => v) l).
  { induction l as [|x r IH]; [reflexivity|]. cbn [flat_map map]. rewrite fver_v. cbn [app]. f_equal.
    destruct r; [reflexivity|]. apply IH. discriminate. }
  rewrite E. destruct l as [|x r]; [congruence|]. cbn [map].
  clear. induction r as [|y r IH]; cbn [map fold_left]; [reflexivity|]. rewrite N.min_id. exact IH.
Qed.

End Union.

(* the same when only the files of the list are known to have the version v *)
Lemma pfmv_on (LATEST v : N) (fver : N -> option N) l :
  l <> [] -> (forall f, In f l -> fver f = Some v) -> p_files_min_version LATEST fver l = v.
Proof.
  intros Hne Hv. unfold p_files_min_version.
  assert (E : flat_map (fun f => match fver f with Some v0 => [v0] | None => [] end) l = map (fun _ => v) l).
  { clear Hne. induction l as [|x r IH]; [reflexivity|]. cbn [flat_map map]. rewrite (Hv x (or_introl eq_refl)). cbn [app]. f_equal.
    apply IH. intros f Hf. apply Hv. right. exact Hf. }
  rewrite E. destruct l as [|x r]; [congruence|]. cbn [map].
  clear. induction r as [|y r IH]; cbn [map fold_left]; [reflexivity|]. rewrite N.min_id. exact IH.
Qed.

(* ------------------------------------------------------------------ partners of positional keys *)
Section Partners.
Variable kcore : mtree -> core.
Variable ks : list mtree.
Hypothesis Hinj : forall c1 c2, In c1 ks -> In c2 ks -> cmatch (kcore c1) (kcore c2) = true -> c1 = c2.
Hypothesis Hid : forall c1 c2, In c1 ks -> In c2 ks ->
                   c_name (kcore c1) = c_name (kcore c2) -> c_ident (kcore c1) = c_ident (kcore c2).

Lemma cmatch_refl k : cmatch k k = true.
Proof. unfold cmatch. apply pmatch_refl. Qed.

Lemma uniqc_map l : NoDup l -> incl l ks -> UniqC (map kcore l).
Proof.
  induction 1 as [|c l Hn Hd IH]; intros Hi; cbn [map]; constructor.
  - intros x Hx. apply in_map_iff in Hx as (c' & <- & Hc').
    destruct (cmatch (kcore c) (kcore c')) eqn:E; [|reflexivity]. exfalso.
    apply Hinj in E; [subst; contradiction|apply Hi; left; reflexivity|apply Hi; right; exact Hc'].
  - apply IH. intros z Hz. apply Hi. right. exact Hz.
Qed.

Variables ca cb : list mtree.
Hypothesis Ha : incl ca ks.
Hypothesis Hb : incl cb ks.
Hypothesis Na : NoDup ca.
Hypothesis Nb : NoDup cb.

Let pa := pks_from 0 (map kcore ca).
Let pb := pks_from 0 (map kcore cb).

Lemma in_pks_from l p : In p (pks_from 0 (map kcore l)) ->
  exists k c, nth_error l k = Some c /\ p = pk_of (N.of_nat k) (kcore c).
Proof.
  intros H. apply pks_from_in in H as (k & kc & Hk & ->). rewrite nth_error_map in Hk.
  destruct (nth_error l k) as [c|] eqn:E; [|discriminate]. injection Hk as <-. exists k, c. split; [exact E|].
  f_equal.
Qed.

Lemma core_of_pk_of i kc : core_of (pk_of i kc) = kc.
Proof. destruct kc. reflexivity. Qed.

Lemma keyed_pks : Keyed pa pb.
Proof.
  constructor.
  - intros x y Hx Hy Hn. apply in_app_or in Hx, Hy.
    assert (Gx : exists c, In c ks /\ core_of x = kcore c).
    { destruct Hx as [Hx|Hx]; apply in_pks_from in Hx as (k & c & Hk & ->); exists c.
      - split; [apply Ha; eapply nth_error_In; eauto|apply core_of_pk_of].
      - split; [apply Hb; eapply nth_error_In; eauto|apply core_of_pk_of]. }
    assert (Gy : exists c, In c ks /\ core_of y = kcore c).
    { destruct Hy as [Hy|Hy]; apply in_pks_from in Hy as (k & c & Hk & ->); exists c.
      - split; [apply Ha; eapply nth_error_In; eauto|apply core_of_pk_of].
      - split; [apply Hb; eapply nth_error_In; eauto|apply core_of_pk_of]. }
    destruct Gx as (cx & Hcx & Ex). destruct Gy as (cy & Hcy & Ey).
    change (pk_ident x) with (c_ident (core_of x)). change (pk_ident y) with (c_ident (core_of y)).
    rewrite Ex, Ey. apply Hid; auto.
    change (pk_name x) with (c_name (core_of x)) in Hn. change (pk_name y) with (c_name (core_of y)) in Hn.
    rewrite Ex, Ey in Hn. exact Hn.
  - apply uniq_pks. apply uniqc_map; auto.
  - apply uniq_pks. apply uniqc_map; auto.
  - unfold pa. rewrite pks_from_ids. apply n_range_nodup.
  - unfold pb. rewrite pks_from_ids. apply n_range_nodup.
Qed.

Lemma nth_error_nodup_eq {A} (l : list A) i j x : NoDup l -> nth_error l i = Some x -> nth_error l j = Some x -> i = j.
Proof.
  intros Hn. revert i j. induction Hn as [|y l Hnot Hn IH]; intros [|i] [|j]; cbn [nth_error]; try discriminate; auto.
  - intros [= ->] H. exfalso. apply Hnot. eapply nth_error_In; eauto.
  - intros H [= ->]. exfalso. apply Hnot. eapply nth_error_In; eauto.
Qed.

(* the partner of the key of c (from the a side) among the keys of cb *)
Lemma partner_b_some i j c :
  In c ks -> nth_error cb j = Some c ->
  partner_in pb (pk_of i (kcore c)) = Some (pk_of (N.of_nat j) (kcore c)).
Proof.
  intros Hc Hj. destruct (partner_in pb (pk_of i (kcore c))) as [x|] eqn:E.
  - apply partner_in_spec in E as [Hx Hm]. apply in_pks_from in Hx as (k & c' & Hk & ->).
    rewrite pmatch_core in Hm. apply Hinj in Hm; [|exact Hc|apply Hb; eapply nth_error_In; eauto]. subst c'.
    rewrite (nth_error_nodup_eq cb k j c Nb Hk Hj). reflexivity.
  - exfalso.
    assert (Hin : In (pk_of (N.of_nat j) (kcore c)) pb).
    { unfold pb. replace (N.of_nat j) with (0 + N.of_nat j) by lia. apply pks_from_nth. rewrite nth_error_map, Hj. reflexivity. }
    pose proof (partner_in_none _ _ _ E Hin) as E2. rewrite pmatch_core, cmatch_refl in E2. discriminate.
Qed.

Lemma partner_b_none i c : In c ks -> ~ In c cb -> partner_in pb (pk_of i (kcore c)) = None.
Proof.
  intros Hc Hn. destruct (partner_in pb (pk_of i (kcore c))) as [x|] eqn:E; [|reflexivity]. exfalso.
  apply partner_in_spec in E as [Hx Hm]. apply in_pks_from in Hx as (k & c' & Hk & ->).
  rewrite pmatch_core in Hm. apply Hinj in Hm; [|exact Hc|apply Hb; eapply nth_error_In; eauto]. subst c'.
  apply Hn. eapply nth_error_In; eauto.
Qed.

End Partners.
