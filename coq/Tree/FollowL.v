(* Tree/FollowL.v — C06 in LOADED worlds: the two ways a load weakens the hypotheses of the rename / move theorems
   (Inv06 = TreeFacts /\ Inv04 /\ Inv05), and the weaker forms under which Tree/FollowProofsRenameD.v proves C06_rename.

   (a) STALE ROOT.  The first load into a model replaces the model's root element: the element made by AutosarModel::new
       keeps its parent link `PModel m` (in the Rust: the object is dropped unless the user holds a handle; the model
       keeps the node).  Index.TreeFacts has the field tf_pmodel ("a node with parent PModel m IS the root of model m"),
       which is false from then on.  [TreeFactsL] is TreeFacts without that field; [unstale w] is the world in which
       every such node is detached instead (parent PNone): the two worlds have the same top-down readings (content
       lists, names, types, texts, models), and TreeFactsL w gives TreeFacts (unstale w).
   (b) DEAD REFERRER ENTRIES.  A merging load registers EVERY reference element of the incoming file in
       reference_origins, also those that are merged into an existing element and dropped when load_buffer returns
       (Tree/Load.v: such a node is turned into a dead node, membership [DEAD] = [65535], parent PNone, no
       sub-elements).  The WeakElement stays in the list; the Rust skips it (`upgrade()` fails), the model rewrites a
       node nobody can see.  [dead w r]: r is such a node.  [RefsD]: the referrer map of a model is complete for the live
       references (every reference element of the tree with text p is listed under p), every entry is a live reference
       with that text OR a dead node, and no id is listed under two keys.  Index.RefsExact (no dead entry at all) is
       the special case.
   DEFINITIONS only. *)
From AV Require Import Base.Bytes Base.Outcome Hash.HashModel Tree.Heap Tree.Ops Tree.Script Tree.Index Tree.Refs
  Tree.Follow Tree.Load.
Open Scope string_scope.
Open Scope list_scope.
Open Scope N_scope.

(* ---------- (a) the stale root *)
Record TreeFactsL (w : world) : Prop := {
  tl_up : forall p c, child_of w p c -> exists cn, w_nodes w c = Some cn /\ n_parent cn = PElem p;
  tl_nodup : forall p n, w_nodes w p = Some n -> NoDup (elem_ids (n_content n));
  tl_down : forall c cn p, w_nodes w c = Some cn -> n_parent cn = PElem p -> child_of w p c;
  tl_roots : forall m x, model_at w m = Some x -> exists n, w_nodes w (m_root x) = Some n /\ n_parent n = PModel m;
  tl_depth : forall i n, w_nodes w i = Some n -> exists h, pdepth w i h;
  tl_alloc : forall i n, w_nodes w i = Some n -> i < w_next w
}.

Definition is_root (w : world) (m : N) (i : id) : bool :=
  match model_at w m with Some x => m_root x =? i | None => false end.
Definition unstale_node (w : world) (i : id) (n : node) : node :=
  match n_parent n with
  | PModel m => if is_root w m i then n else set_parent n PNone
  | _ => n
  end.
Definition unstale (w : world) : world :=
  mkWorld (fun i => option_map (unstale_node w i) (w_nodes w i)) (w_next w) (w_files w) (w_models w).

(* ---------- (b) dead entries of the referrer map *)
Definition dead (w : world) (r : id) : Prop := exists n, w_nodes w r = Some n /\ is_dead n = true.

Section FollowL.
Variable T : tables.
Variable check_fn : N -> list N -> res bool.

Record RefsD (w : world) (m : N) (x : model) : Prop := {
  rd_keys : NoDupKeys (m_origins x);
  rd_complete : forall p r, RefSet T w m p r -> In r (origins_of x p);
  rd_entries : forall p r, In r (origins_of x p) -> RefSet T w m p r \/ dead w r;
  rd_onekey : forall k1 k2 r, In r (origins_of x k1) -> In r (origins_of x k2) -> k1 = k2
}.
Definition Inv05D (w : world) : Prop := forall m x, model_at w m = Some x -> RefsD w m x.

(* what the rename theorem needs of a (possibly loaded) world *)
Definition Inv06D (w : world) : Prop := TreeFactsL w /\ Inv04 T check_fn w /\ Inv05D w.

(* a dead entry in front of a live one: the situation the seed C06-rename-stops-at-dead-referrer exploited *)
Definition dead_before_live (w : world) (m : N) (p : list N) (d r : id) : Prop :=
  exists x l1 l2 l3, model_at w m = Some x /\ origins_of x p = l1 ++ d :: l2 ++ r :: l3 /\ dead w d /\ RefSet T w m p r.

End FollowL.
