(* Tree/IndexProofsRemove.v — C04/C05: what remove_internal does, in terms of the ORIGINAL world w:
   every node of the subtree below i is wiped (content [], parent PNone, files []), nothing else is written, and model
   m loses exactly the index keys  path ++ (segments from i down to j)  of the identifiable j of the subtree and the
   reference_origins entries (text j, j) of its reference elements. *)
From Coq Require Import Permutation.
From AV Require Import Base.Bytes Base.Outcome Hash.HashModel Tree.Heap Tree.Ops Tree.Script Tree.IndexProofsW
  Tree.Index Tree.IndexProofsBase Tree.IndexProofsAssoc Tree.IndexProofsFrame Tree.IndexProofsAttach
  Tree.IndexProofsTree Tree.RefsProofsBase.
Open Scope string_scope.
Open Scope list_scope.
Open Scope N_scope.

Definition wipe (n : node) : node := set_parent (set_files (set_content n []) []) PNone.

Definition apply_plan (x : model) (K : list (list N)) (R : list (list N * id)) : model :=
  set_origins (set_idents x (fold_left (fun l k => assoc_swap_remove k l) K (m_idents x)))
              (fold_left (fun l pr => remove_origin (fst pr) (snd pr) l) R (m_origins x)).

Lemma apply_plan_nil x : apply_plan x [] [] = x.
Proof. destruct x; reflexivity. Qed.
Lemma apply_plan_app x K1 R1 K2 R2 : apply_plan (apply_plan x K1 R1) K2 R2 = apply_plan x (K1 ++ K2) (R1 ++ R2).
Proof. unfold apply_plan. cbn. rewrite !fold_left_app. reflexivity. Qed.

Lemma list_set_twice {A} (l : list A) k a b : list_set (list_set l k a) k b = list_set l k b.
Proof. revert k. induction l as [|x l IH]; intros [|k]; cbn; auto. f_equal. auto. Qed.
Lemma list_set_same {A} (l : list A) k a : nth_opt l k = Some a -> list_set l k a = l.
Proof. revert k. induction l as [|x l IH]; intros [|k]; cbn; try discriminate; [intros [= ->]; reflexivity|]. intros H. f_equal. auto. Qed.

Section RI.
Variable T : tables.
Variables (w : world) (m : N).
Hypothesis HF : TreeFacts w.
Hypothesis HA : AllNamed T w.

Notation below := (reach T w).

(* the result of a (partial) run: described relative to the world wc it started in *)
Definition ri_result (sub : id -> Prop) (keyspec : list N -> Prop) (wc w' : world) (xc : model) : Prop :=
  w_next w' = w_next wc /\ w_files w' = w_files wc /\
  (forall j, ~ sub j -> w_nodes w' j = w_nodes wc j) /\
  (forall j nj, sub j -> w_nodes w j = Some nj -> w_nodes w' j = Some (wipe nj)) /\
  exists K R, w_models w' = list_set (w_models wc) (N.to_nat m) (apply_plan xc K R) /\
    (forall k, In k K <-> keyspec k) /\
    (forall p j, In (p, j) R <-> sub j /\ ref_text T w j = Some p).

Lemma ri_result_ext (sub sub' : id -> Prop) (ks ks' : list N -> Prop) wc w' xc :
  (forall j, sub j <-> sub' j) -> (forall k, ks k <-> ks' k) -> ri_result sub ks wc w' xc -> ri_result sub' ks' wc w' xc.
Proof.
  intros Hs Hk (N1 & F1 & Fr & Wi & K & R & M & KS & RS). split; [exact N1|]. split; [exact F1|]. split; [|split].
  - intros j Hj. apply Fr. intros H. apply Hj. apply Hs. exact H.
  - intros j nj Hj. apply Wi. apply Hs. exact Hj.
  - exists K, R. split; [exact M|]. split.
    + intros k. rewrite KS. apply Hk.
    + intros p j. rewrite RS, Hs. tauto.
Qed.

Definition keys_below (i : id) (path : list N) (k : list N) : Prop :=
  exists j q, dpath T w i j q /\ identifiable T w j = true /\ k = path ++ seg T w i ++ q.

(* readings of an intact node are the same in the current world *)
Lemma intact_short_child wc i n :
  (forall j, below i j -> w_nodes wc j = w_nodes w j) -> w_nodes w i = Some n ->
  short_child T wc n = short_child T w n.
Proof.
  intros Hint Hn. rewrite !short_child_hd. destruct (hd_error (n_content n)) as [[s|d]|] eqn:Eh; try reflexivity.
  rewrite Hint; [reflexivity|]. eapply reach_step; [apply reach_refl|]. exists n. split; [exact Hn|].
  destruct (n_content n); cbn in Eh; [discriminate|]. injection Eh as ->. left. reflexivity.
Qed.

Lemma model_after wc xc x' ws : model_at wc m = Some xc -> w_models ws = list_set (w_models wc) (N.to_nat m) x' -> model_at ws m = Some x'.
Proof. intros Hx Hm. unfold model_at in *. rewrite Hm. eapply list_set_nth_eq; eauto. Qed.

Lemma ri_step (f : nat)
  (IH : forall i path wc r w' xc,
      (forall j, below i j -> w_nodes wc j = w_nodes w j) -> model_at wc m = Some xc ->
      remove_internal T f i m path wc = Val (r, w') ->
      r = OK tt /\ ri_result (below i) (keys_below i path) wc w' xc) :
  forall i n path' (l : list citem),
  w_nodes w i = Some n -> (forall c, In (CElem c) l -> In (CElem c) (n_content n)) -> NoDup (elem_ids l) ->
  forall wc r w' xc,
  (forall c j, In (CElem c) l -> below c j -> w_nodes wc j = w_nodes w j) -> model_at wc m = Some xc ->
  (fix kids (l : list citem) : W unit :=
     match l with
     | [] => wret tt
     | CElem c :: rest => (remove_internal T f c m path';; kids rest)%W
     | CData _ :: rest => kids rest
     end) l wc = Val (r, w') ->
  r = OK tt /\
  ri_result (fun j => exists c, In (CElem c) l /\ below c j)
            (fun k => exists c j q, In (CElem c) l /\ dpath T w c j q /\ identifiable T w j = true /\ k = path' ++ seg T w c ++ q)
            wc w' xc.
Proof.
  intros i n path' l Hn. induction l as [|[c|d] rest IHl]; intros Hsub Hnd wc r w' xc Hint Hx H.
  - winv H. split; [reflexivity|]. split; [reflexivity|]. split; [reflexivity|].
    split; [intros; reflexivity|]. split; [intros j nj (c & [] & _)|].
    exists [], []. split; [rewrite apply_plan_nil; symmetry; apply list_set_same; exact Hx|].
    split; [intros k; split; [intros []|intros (c & _ & _ & [] & _)]|].
    intros p j. split; [intros []|intros ((c & [] & _) & _)].
  - cbn [elem_ids flat_map app] in Hnd. change (NoDup (c :: elem_ids rest)) in Hnd. inversion Hnd as [|? ? Hc Hnd']; subst.
    assert (Hci : child_of w i c) by (exists n; split; [exact Hn|apply Hsub; left; reflexivity]).
    wbind_w H u w1 E1.
    2:{ apply (IH c path' wc _ _ xc) in E1 as ([=] & _); auto. intros j Hj. eapply Hint; eauto. left. reflexivity. }
    apply (IH c path' wc _ _ xc) in E1 as (_ & (N1 & F1 & Fr1 & Wi1 & K1 & R1 & M1 & KS1 & RS1)); auto.
    2:{ intros j Hj. eapply Hint; eauto. left. reflexivity. }
    assert (Hdis : forall c2 j, In (CElem c2) rest -> below c2 j -> ~ below c j).
    { intros c2 j Hc2 (q2 & D2) (q1 & D1).
      assert (c = c2).
      { eapply (siblings_disjoint T w i c c2 j); eauto. exists n. split; [exact Hn|]. apply Hsub. right. exact Hc2. }
      subst c2. apply Hc. apply in_elem_ids. exact Hc2. }
    apply (IHl (fun c0 H0 => Hsub c0 (or_intror H0)) Hnd' w1 r w' (apply_plan xc K1 R1)) in H as (-> & (N2 & F2 & Fr2 & Wi2 & K2 & R2 & M2 & KS2 & RS2)).
    2:{ intros c2 j Hc2 Hj. rewrite Fr1; [eapply Hint; eauto; right; exact Hc2|]. eapply Hdis; eauto. }
    2:{ eapply model_after; eauto. }
    split; [reflexivity|]. split; [congruence|]. split; [congruence|]. split; [|split].
    + intros j Hj. rewrite Fr2, Fr1; [reflexivity| |].
      * intros Hb. apply Hj. exists c. split; [left; reflexivity|exact Hb].
      * intros (c2 & Hc2 & Hb). apply Hj. exists c2. split; [right; exact Hc2|exact Hb].
    + intros j nj (c2 & [[= <-]|Hc2] & Hb) Hj.
      * rewrite Fr2; [eapply Wi1; eauto|]. intros (c3 & Hc3 & Hb3). eapply Hdis; eauto.
      * eapply Wi2; eauto.
    + exists (K1 ++ K2), (R1 ++ R2). split; [rewrite M2, M1, list_set_twice, apply_plan_app; reflexivity|]. split.
      * intros k. rewrite in_app_iff, KS1, KS2. split.
        -- intros [(j & q & Hd & Hid & ->)|(c2 & j & q & Hc2 & Hd & Hid & ->)].
           ++ exists c, j, q. split; [left; reflexivity|auto].
           ++ exists c2, j, q. split; [right; exact Hc2|auto].
        -- intros (c2 & j & q & [[= <-]|Hc2] & Hd & Hid & ->).
           ++ left. exists j, q. auto.
           ++ right. exists c2, j, q. auto.
      * intros p j. rewrite in_app_iff, RS1, RS2. split.
        -- intros [(Hb & Ht)|((c2 & Hc2 & Hb) & Ht)]; (split; [|exact Ht]).
           ++ exists c. split; [left; reflexivity|exact Hb].
           ++ exists c2. split; [right; exact Hc2|exact Hb].
        -- intros ((c2 & [[= <-]|Hc2] & Hb) & Ht); [left; auto|right; split; [exists c2; auto|exact Ht]].
  - assert (HH : r = OK tt /\
      ri_result (fun j => exists c, In (CElem c) rest /\ below c j)
                (fun k => exists c j q, In (CElem c) rest /\ dpath T w c j q /\ identifiable T w j = true /\ k = path' ++ seg T w c ++ q)
                wc w' xc).
    { apply IHl; auto.
      + intros c Hc. apply Hsub. right. exact Hc.
      + intros c j Hc Hb. eapply Hint; eauto. right. exact Hc. }
    destruct HH as (-> & HH). split; [reflexivity|]. eapply ri_result_ext; [| |exact HH].
    + intros j. split; intros (c & Hc & Hb); exists c; (split; [|exact Hb]); [right; exact Hc|destruct Hc as [Hc|Hc]; [discriminate|exact Hc]].
    + intros k. split; intros (c & j & q & Hc & Hrest); exists c, j, q; (split; [|exact Hrest]);
        [right; exact Hc|destruct Hc as [Hc|Hc]; [discriminate|exact Hc]].
Qed.

Lemma below_cases i n j : w_nodes w i = Some n -> (below i j <-> j = i \/ exists c, In (CElem c) (n_content n) /\ below c j).
Proof.
  intros Hn. split.
  - intros (q & Hd). destruct (dpath_head T _ _ _ _ Hd) as [(-> & _)|(c & q' & (n2 & Hn2 & Hc) & Hd' & _)]; [left; reflexivity|].
    right. rewrite Hn in Hn2. injection Hn2 as <-. exists c. split; [exact Hc|exists q'; exact Hd'].
  - intros [->|(c & Hc & (q & Hd))]; [apply reach_refl|]. eexists. eapply dpath_cons; [|exact Hd]. exists n. auto.
Qed.

Theorem ri_main f : forall i path wc r w' xc,
  (forall j, below i j -> w_nodes wc j = w_nodes w j) -> model_at wc m = Some xc ->
  remove_internal T f i m path wc = Val (r, w') ->
  r = OK tt /\ ri_result (below i) (keys_below i path) wc w' xc.
Proof.
  induction f as [|f IH]; intros i path wc r w' xc Hint Hx H; cbn [remove_internal] in H; [discriminate|].
  wnode H n Hn. rewrite (Hint i (reach_refl T w i)) in Hn.
  wbind_ro H ident Eid. 2:{ apply is_identifiable_val in Eid as (_ & [=]). }
  apply is_identifiable_val in Eid as (_ & [= ->]).
  pose proof (intact_short_child wc i n Hint Hn) as Hsc.
  destruct (readings_ext T w wc n n eq_refl Hsc) as (Hin & Hid & Hsg).
  assert (Hidw : identifiable T w i = identifiable_n T w n) by (unfold identifiable; rewrite Hn; reflexivity).
  assert (Hsegw : seg T w i = seg_n T w n) by (apply seg_node; exact Hn).
  (* the index step *)
  set (K0 := if identifiable_n T w n then [path ++ seg T w i] else []).
  set (path' := path ++ seg T w i).
  wbind_w H pth w0 E0.
  2:{ exfalso. rewrite Hid in E0. destruct (identifiable_n T w n); [|winv E0].
      wbind_ro E0 nm Enm. 2:{ apply item_name_val in Enm as (_ & [=]). }
      destruct nm; [|winv E0]. wbind_w E0 u0 w00 E00; [winv E0|]. apply modify_model_inv in E00 as (? & _ & Hd & _). discriminate Hd. }
  assert (H0 : pth = path' /\ w_nodes w0 = w_nodes wc /\ w_next w0 = w_next wc /\ w_files w0 = w_files wc /\
               w_models w0 = list_set (w_models wc) (N.to_nat m) (apply_plan xc K0 [])).
  { rewrite Hid in E0. unfold K0, path'. destruct (identifiable_n T w n) eqn:Ei.
    - wbind_ro E0 nm Enm.
      apply item_name_val in Enm as (_ & [= ->]). rewrite Hin in E0.
      destruct (item_name_n T w n) as [x|] eqn:En; [|exfalso; eapply HA; eauto].
      wbind_w E0 u0 w00 E00.
      winv E0. apply modify_model_inv in E00 as (x1 & Hx1 & _ & ->). fold (model_at wc m) in Hx1. rewrite Hx in Hx1. injection Hx1 as <-.
      rewrite Hsegw. unfold seg_n. rewrite En. repeat (split; [reflexivity|]). reflexivity.
    - winv E0. rewrite Hsegw. unfold seg_n.
      assert (item_name_n T w n = None).
      { destruct (item_name_n T w n) eqn:En; [|reflexivity]. apply item_name_identifiable in En. congruence. }
      rewrite H0, app_nil_r. repeat (split; [reflexivity|]). rewrite apply_plan_nil. symmetry. apply list_set_same. exact Hx. }
  destruct H0 as (-> & Hn0 & Hnx0 & Hf0 & Hm0). clear E0.
  (* the reference step *)
  wval H isr Hisr.
  set (R0 := match ref_text T w i with Some r0 => [(r0, i)] | None => [] end).
  assert (Hrt : ref_text T w i = if isr then match cdata_of T n with Some (DString p) => Some p | _ => None end else None).
  { unfold ref_text. rewrite Hn, (isref_val _ _ _ Hisr). reflexivity. }
  wbind_w H u1 w1 E1.
  2:{ exfalso. destruct isr; [|winv E1]. wval E1 cd Hcd. destruct cd as [[| r0 | |]|]; try (winv E1).
      apply modify_model_inv in E1 as (? & _ & Hd & _). discriminate Hd. }
  assert (H1 : w_nodes w1 = w_nodes wc /\ w_next w1 = w_next wc /\ w_files w1 = w_files wc /\
               w_models w1 = list_set (w_models wc) (N.to_nat m) (apply_plan xc K0 R0)).
  { unfold R0. rewrite Hrt. destruct isr.
    - wval E1 cd Hcd. rewrite (cdata_of_val _ _ _ Hcd).
      destruct cd as [[| r0 | |]|]; try (winv E1; repeat (split; [assumption|]); exact Hm0).
      apply modify_model_inv in E1 as (x1 & Hx1 & _ & ->). cbn. repeat (split; [assumption|]).
      fold (model_at w0 m) in Hx1. rewrite (model_after wc xc _ w0 Hx Hm0) in Hx1. injection Hx1 as <-.
      rewrite Hm0, list_set_twice. f_equal.
    - winv E1. repeat (split; [assumption|]). exact Hm0. }
  destruct H1 as (Hn1 & Hnx1 & Hf1 & Hm1). clear E1.
  (* the sub-elements *)
  wbind_w H u2 w2 E2.
  2:{ exfalso. eapply (ri_step f IH i n path' (n_content n) Hn (fun c H => H) (tf_nodup _ HF _ _ Hn) w1 _ _ (apply_plan xc K0 R0)) in E2 as ([=] & _).
      - intros c j Hc Hb. rewrite Hn1. apply Hint. apply (below_cases i n j Hn). right. eauto.
      - eapply model_after; eauto. }
  eapply (ri_step f IH i n path' (n_content n) Hn (fun c H => H) (tf_nodup _ HF _ _ Hn) w1 _ _ (apply_plan xc K0 R0)) in E2
    as (_ & (N2 & F2 & Fr2 & Wi2 & K2 & R2 & M2 & KS2 & RS2)).
  2:{ intros c j Hc Hb. rewrite Hn1. apply Hint. apply (below_cases i n j Hn). right. eauto. }
  2:{ eapply model_after; eauto. }
  (* the node itself *)
  assert (Hnot : ~ (exists c, In (CElem c) (n_content n) /\ below c i)).
  { intros (c & Hc & (q & Hd)). eapply (not_below_self T w i c q); eauto. exists n. auto. }
  apply modify_node_inv in H as (ni & Hni & -> & ->). rewrite (Fr2 i Hnot), Hn1, (Hint i (reach_refl T w i)), Hn in Hni. injection Hni as <-.
  split; [reflexivity|]. split; [cbn; congruence|]. split; [cbn; congruence|]. split; [|split].
  - intros j Hj. cbn. assert (j <> i) by (intros ->; apply Hj; apply reach_refl). rewrite upd_neq by assumption.
    rewrite Fr2, Hn1; [reflexivity|]. intros (c & Hc & Hb). apply Hj. apply (below_cases i n j Hn). right. eauto.
  - intros j nj Hj Hnj. cbn. apply (below_cases i n j Hn) in Hj as [->|Hj].
    + rewrite upd_eq. rewrite Hn in Hnj. injection Hnj as <-. reflexivity.
    + assert (j <> i) by (intros ->; apply Hnot; exact Hj). rewrite upd_neq by assumption. eapply Wi2; eauto.
  - exists (K0 ++ K2), (R0 ++ R2). split; [cbn; rewrite M2, Hm1, list_set_twice, apply_plan_app; reflexivity|]. split.
    + intros k. rewrite in_app_iff, KS2. unfold keys_below. split.
      * intros [Hk|(c & j & q & Hc & Hd & Hidj & ->)].
        -- unfold K0 in Hk. destruct (identifiable_n T w n) eqn:Ei; [|destruct Hk]. destruct Hk as [<-|[]].
           exists i, []. split; [constructor|]. split; [rewrite Hidw; first [exact Ei|reflexivity]|]. rewrite app_nil_r. reflexivity.
        -- exists j, (seg T w c ++ q). split; [eapply dpath_cons; [exists n; auto|exact Hd]|]. split; [exact Hidj|].
           unfold path'. rewrite <- !app_assoc. reflexivity.
      * intros (j & q & Hd & Hidj & ->). destruct (dpath_head T _ _ _ _ Hd) as [(-> & ->)|(c & q' & (n2 & Hn2 & Hc) & Hd' & ->)].
        -- left. unfold K0. rewrite Hidw in Hidj. rewrite Hidj, app_nil_r. left. reflexivity.
        -- right. rewrite Hn in Hn2. injection Hn2 as <-. exists c, j, q'. split; [exact Hc|]. split; [exact Hd'|]. split; [exact Hidj|].
           unfold path'. rewrite <- !app_assoc. reflexivity.
    + intros p j. rewrite in_app_iff, RS2, (below_cases i n j Hn). split.
      * intros [Hr|((c & Hc & Hb) & Ht)].
        -- unfold R0 in Hr. destruct (ref_text T w i) as [r0|] eqn:Er; [|destruct Hr]. destruct Hr as [[= <- <-]|[]]. auto.
        -- split; [right; eauto|exact Ht].
      * intros ([->|Hb] & Ht); [left; unfold R0; rewrite Ht; left; reflexivity|right; auto].
Qed.

End RI.
