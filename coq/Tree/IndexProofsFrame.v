(* Tree/IndexProofsFrame.v — C04/C05 proofs, layer 1:
   - computations that keep a preorder on worlds (generic `pres R`);
   - "same view": two worlds whose nodes agree on (name, type, content) and whose models agree on
     (root, identifiables, reference_origins) have the same specification side and the same indexes;
     attribute, comment and file-membership operations only produce such worlds;
   - transfer lemmas for the top-down path relation between two worlds (forwards along a downward-closed set,
     backwards along an upward-closed set). *)
From AV Require Import Base.Bytes Base.Outcome Hash.HashModel Tree.Heap Tree.Ops Tree.Script Tree.IndexProofsW
  Tree.Index Tree.IndexProofsBase.
Open Scope string_scope.
Open Scope list_scope.
Open Scope N_scope.

(* ------------------------------------------------------------------ computations that keep a preorder *)
Section Pres.
Variable R : world -> world -> Prop.
Hypothesis R_refl : forall w, R w w.
Hypothesis R_trans : forall a b c, R a b -> R b c -> R a c.

Definition pres {A} (m : W A) : Prop := forall w r w', m w = Val (r, w') -> R w w'.

Lemma pres_ro {A} (m : W A) : ro m -> pres m.
Proof. intros H w r w' E. apply H in E. subst. apply R_refl. Qed.
Lemma pres_bind {A B} (m : W A) (k : A -> W B) : pres m -> (forall a, pres (k a)) -> pres (wbind m k).
Proof.
  intros Hm Hk w r w' H. apply wbind_inv in H as [(a & w1 & E & H)|(e & E & _)].
  - eapply R_trans; [eapply Hm; eauto|eapply Hk; eauto].
  - eapply Hm; eauto.
Qed.
Lemma pres_try {A} (m : W A) : pres m -> pres (wtry m).
Proof. intros Hm w r w' H. apply wtry_inv in H as (r0 & H & _). eapply Hm; eauto. Qed.
Lemma pres_catch {A} (m : W A) : pres m -> pres (wcatch m).
Proof. intros Hm w r w' H. apply wcatch_inv in H as (r0 & H & _). eapply Hm; eauto. Qed.
End Pres.

(* ------------------------------------------------------------------ same view *)
Definition tview (n : node) := (n_name n, n_type n, n_content n).
Definition mview (x : model) := (m_root x, m_idents x, m_origins x).

(* node part / model part *)
Definition NV (w w' : world) : Prop :=
  forall i, option_map tview (w_nodes w' i) = option_map tview (w_nodes w i).
Definition iview (x : model) := (m_root x, m_idents x).
Definition SV (w w' : world) : Prop :=
  NV w w' /\ map mview (w_models w') = map mview (w_models w).
(* index view: like SV, but the reference_origins maps may differ *)
Definition IV (w w' : world) : Prop :=
  NV w w' /\ map iview (w_models w') = map iview (w_models w).

Lemma SV_refl w : SV w w.
Proof. split; [intros i|]; reflexivity. Qed.
Lemma SV_trans a b c : SV a b -> SV b c -> SV a c.
Proof. intros [H1 H2] [H3 H4]. unfold NV in *. split; [intros i; rewrite H3; apply H1|congruence]. Qed.

Notation psv := (pres SV).
Lemma psv_ro {A} (m : W A) : ro m -> psv m.
Proof. apply pres_ro. apply SV_refl. Qed.
Lemma psv_bind {A B} (m : W A) (k : A -> W B) : psv m -> (forall a, psv (k a)) -> psv (wbind m k).
Proof. apply pres_bind. apply SV_trans. Qed.
Lemma psv_try {A} (m : W A) : psv m -> psv (wtry m).
Proof. apply pres_try. Qed.

Lemma nth_opt_map {A B} (f : A -> B) l k : nth_opt (map f l) k = option_map f (nth_opt l k).
Proof. revert k. induction l as [|x l IH]; intros [|k]; cbn; auto. Qed.

Lemma sv_set_node i n n' w :
  w_nodes w i = Some n -> tview n' = tview n ->
  SV w (mkWorld (upd (w_nodes w) i n') (w_next w) (w_files w) (w_models w)).
Proof.
  intros Hn Hv. split; [|reflexivity]. intros j. cbn. unfold upd. destruct (N.eqb_spec j i) as [->|_]; [|reflexivity].
  rewrite Hn. cbn. f_equal. exact Hv.
Qed.

Lemma psv_modify_node i f : (forall n, tview (f n) = tview n) -> psv (modify_node i f).
Proof.
  intros Hf w r w' H. apply modify_node_inv in H as (n & Hn & _ & ->). eapply sv_set_node; eauto.
Qed.

Lemma list_set_map_same {A B} (g : A -> B) l k x :
  (forall y, nth_opt l k = Some y -> g x = g y) -> map g (list_set l k x) = map g l.
Proof.
  revert k. induction l as [|y l IH]; intros k H; cbn; auto.
  destruct k; cbn.
  - rewrite (H y); auto.
  - f_equal. apply IH. intros z Hz. apply H. exact Hz.
Qed.

Lemma psv_modify_model m f : (forall x, mview (f x) = mview x) -> psv (modify_model m f).
Proof.
  intros Hf w r w' H. apply modify_model_inv in H as (x & Hx & _ & ->). split; [intros i; reflexivity|]. cbn.
  apply list_set_map_same. intros y Hy. rewrite Hx in Hy. injection Hy as <-. apply Hf.
Qed.

Create HintDb sv discriminated.
Ltac sv_step :=
  first
  [ solve [apply psv_ro; ro_tac]
  | solve [auto with sv]
  | apply psv_modify_node; intros ?;
    solve [reflexivity | match goal with |- context [if ?b then _ else _] => destruct b; reflexivity end]
  | apply psv_modify_model; intros ?; reflexivity
  | apply psv_bind; [|intros ?]
  | apply psv_try
  | match goal with
    | |- pres _ (match ?x with _ => _ end) => destruct x
    | |- pres _ (if ?b then _ else _) => destruct b
    | |- pres _ (let '(_, _) := ?x in _) => destruct x
    end ].
Ltac sv_tac := repeat sv_step.

Section SVops.
Variable T : tables.
Variable tab_el tab_en : nametab.
Variable check_fn : N -> list N -> res bool.
Variable LATEST : N.


(* set_node with a node that was read from the same place *)
Lemma psv_get_set i (k : node -> node) :
  (forall n, tview (k n) = tview n) -> psv (do n <- get_node i; set_node i (k n))%W.
Proof. intros H. apply (psv_modify_node i k H). Qed.

Lemma raw_set_attribute_sv h attr v version w r w' :
  raw_set_attribute T check_fn h attr v version w = Val (r, w') -> SV w w'.
Proof.
  unfold raw_set_attribute. intros H.
  wnode H n Hn. wval H sp Hsp.
  destruct sp as [[[[? ?] ?] ?]|]; [|winv H; apply SV_refl].
  match type of H with (if ?b then _ else _) _ = _ => destruct b end; [winv H; apply SV_refl|].
  wval H ok Hok. destruct ok; [|winv H; apply SV_refl].
  apply set_node_inv in H as (_ & ->). eapply sv_set_node; eauto.
Qed.

Lemma e_set_attribute_sv h attr v w r w' :
  e_set_attribute T check_fn LATEST h attr v w = Val (r, w') -> SV w w'.
Proof.
  unfold e_set_attribute. intros H.
  wbind_ro H ver Ever; [|apply SV_refl]. eapply raw_set_attribute_sv; eauto.
Qed.

Lemma e_remove_attribute_sv h attr w r w' :
  e_remove_attribute T h attr w = Val (r, w') -> SV w w'.
Proof.
  unfold e_remove_attribute. intros H. wstep H; [|winv E]. winv E.
  destruct (index_of _ _); [|winv H; apply SV_refl].
  wstep H; [|winv E]. winv E. destruct v as [[[[? ?] ?] ?]|]; [|winv H; apply SV_refl].
  destruct (_ =? 0); [|winv H; apply SV_refl].
  wstep H.
  - apply set_node_inv in E as (_ & ->). winv H. eapply sv_set_node; eauto.
  - apply set_node_inv in E as ([=] & _).
Qed.

Lemma e_set_comment_sv h c w r w' : e_set_comment h c w = Val (r, w') -> SV w w'.
Proof. apply (psv_modify_node h). reflexivity. Qed.

Lemma psv_add_to_file_restricted fuel : forall e f, psv (add_to_file_restricted T fuel e f).
Proof.
  induction fuel as [|fuel IH]; intros e f; cbn [add_to_file_restricted]; [intros w r w' H; discriminate|].
  sv_tac; try apply IH.
  induction (n_content a0) as [|[c|d] cl IHl]; sv_tac; try exact IHl.
Qed.
Hint Resolve psv_add_to_file_restricted : sv.

Lemma e_add_to_file_sv e f w r w' : e_add_to_file T e f w = Val (r, w') -> SV w w'.
Proof.
  revert w r w'. change (psv (e_add_to_file T e f)). unfold e_add_to_file.
  sv_tac.
Qed.

Lemma m_create_file_sv m name version w r w' : m_create_file T m name version w = Val (r, w') -> SV w w'.
Proof.
  unfold m_create_file. intros H.
  wstep H; [|apply SV_refl]. winv E. wstep H; [|winv E]. winv E.
  destruct (existsb _ _); [winv H; apply SV_refl|].
  wstep H. 2:{ unfold wput in E. injection E as ? ?. discriminate. }
  unfold wput in E. injection E as _ <-.
  assert (HA : SV w (mkWorld (w_nodes w) (w_next w) (w_files w ++ [mkFile m name version None]) (w_models w)))
    by (split; [intros i|]; reflexivity).
  wstep H.
  2:{ eapply SV_trans; [exact HA|]. eapply (psv_modify_model m); [|exact E]. reflexivity. }
  assert (HB : SV w w0).
  { eapply SV_trans; [exact HA|]. eapply (psv_modify_model m); [|exact E]. reflexivity. }
  wstep H; [|winv E0]. winv E0.
  wstep H.
  - winv H. eapply SV_trans; [exact HB|]. eapply psv_try; [apply psv_add_to_file_restricted|exact E0].
  - eapply SV_trans; [exact HB|]. eapply psv_try; [apply psv_add_to_file_restricted|exact E0].
Qed.

End SVops.

(* ------------------------------------------------------------------ what "same view" preserves *)
Section SVspec.
Variable T : tables.

Lemma SV_sym w w' : SV w w' -> SV w' w.
Proof. intros [H1 H2]. split; [intros i; symmetry; apply H1|symmetry; exact H2]. Qed.

Lemma cdata_of_tview n n' : tview n' = tview n -> cdata_of T n' = cdata_of T n.
Proof. unfold tview, cdata_of, character_data. intros [= _ Ht Hc]. rewrite Hc, Ht. reflexivity. Qed.

Lemma sv_node w w' i n : NV w w' -> w_nodes w i = Some n -> exists n', w_nodes w' i = Some n' /\ tview n' = tview n.
Proof.
  intros H Hn. specialize (H i). rewrite Hn in H. destruct (w_nodes w' i) as [n'|]; [|discriminate].
  exists n'. split; [reflexivity|]. cbn in H. congruence.
Qed.
Lemma sv_none w w' i : NV w w' -> w_nodes w i = None -> w_nodes w' i = None.
Proof. intros H Hn. specialize (H i). rewrite Hn in H. destruct (w_nodes w' i); [discriminate|reflexivity]. Qed.

Lemma short_child_sv w w' n n' :
  NV w w' -> tview n' = tview n -> option_map tview (short_child T w' n') = option_map tview (short_child T w n).
Proof.
  intros HS Hv. unfold short_child. assert (Hc : n_content n' = n_content n) by (unfold tview in Hv; congruence).
  rewrite Hc. destruct (n_content n) as [|[s|d] rest]; try reflexivity.
  destruct (w_nodes w s) as [sn|] eqn:Es.
  - destruct (sv_node _ _ _ _ HS Es) as (sn' & -> & Hv'). assert (n_name sn' = n_name sn) by (unfold tview in Hv'; congruence).
    rewrite H. destruct (n_name sn =? name_short_name T); cbn; congruence.
  - rewrite (sv_none _ _ _ HS Es). reflexivity.
Qed.

Lemma item_name_n_sv w w' n n' : NV w w' -> tview n' = tview n -> item_name_n T w' n' = item_name_n T w n.
Proof.
  intros HS Hv. unfold item_name_n. assert (Ht : n_type n' = n_type n) by (unfold tview in Hv; congruence). rewrite Ht.
  destruct (named T (n_type n)); [|reflexivity].
  pose proof (short_child_sv _ _ _ _ HS Hv) as H.
  destruct (short_child T w' n') as [s'|], (short_child T w n) as [s|]; cbn in H; try discriminate; [|reflexivity].
  assert (H' : tview s' = tview s) by congruence. rewrite (cdata_of_tview _ _ H'). reflexivity.
Qed.
Lemma identifiable_n_sv w w' n n' : NV w w' -> tview n' = tview n -> identifiable_n T w' n' = identifiable_n T w n.
Proof.
  intros HS Hv. unfold identifiable_n. assert (Ht : n_type n' = n_type n) by (unfold tview in Hv; congruence). rewrite Ht.
  pose proof (short_child_sv _ _ _ _ HS Hv) as H.
  destruct (short_child T w' n') as [s'|], (short_child T w n) as [s|]; cbn in H; try discriminate; reflexivity.
Qed.

Lemma seg_sv w w' i : NV w w' -> seg T w' i = seg T w i.
Proof.
  intros HS. unfold seg. destruct (w_nodes w i) as [n|] eqn:E.
  - destruct (sv_node _ _ _ _ HS E) as (n' & -> & Hv). unfold seg_n. rewrite (item_name_n_sv _ _ _ _ HS Hv). reflexivity.
  - rewrite (sv_none _ _ _ HS E). reflexivity.
Qed.
Lemma identifiable_sv w w' i : NV w w' -> identifiable T w' i = identifiable T w i.
Proof.
  intros HS. unfold identifiable. destruct (w_nodes w i) as [n|] eqn:E.
  - destruct (sv_node _ _ _ _ HS E) as (n' & -> & Hv). apply identifiable_n_sv; assumption.
  - rewrite (sv_none _ _ _ HS E). reflexivity.
Qed.
Lemma ref_text_sv w w' i : NV w w' -> ref_text T w' i = ref_text T w i.
Proof.
  intros HS. unfold ref_text. destruct (w_nodes w i) as [n|] eqn:E.
  - destruct (sv_node _ _ _ _ HS E) as (n' & -> & Hv). rewrite (cdata_of_tview _ _ Hv).
    assert (Ht : n_type n' = n_type n) by (unfold tview in Hv; congruence). rewrite Ht. reflexivity.
  - rewrite (sv_none _ _ _ HS E). reflexivity.
Qed.

Lemma child_of_sv w w' p c : NV w w' -> child_of w p c -> child_of w' p c.
Proof.
  intros HS (n & Hn & Hc). destruct (sv_node _ _ _ _ HS Hn) as (n' & Hn' & Hv). exists n'. split; [exact Hn'|].
  assert (n_content n' = n_content n) by (unfold tview in Hv; congruence). congruence.
Qed.

Lemma dpath_sv w w' a i q : NV w w' -> dpath T w a i q -> dpath T w' a i q.
Proof.
  intros HS H. induction H as [|p c q Hp IH Hc]; [constructor|].
  rewrite <- (seg_sv _ _ c HS). econstructor; [exact IH|]. eapply child_of_sv; eauto.
Qed.

Lemma SV_IV w w' : SV w w' -> IV w w'.
Proof.
  intros [H1 H2]. split; [exact H1|].
  assert (forall l l' : list model, map mview l' = map mview l -> map iview l' = map iview l).
  { induction l as [|x l IH]; intros [|x' l']; cbn; try discriminate; auto.
    intros [= Hr Hi Ho Hl]. unfold iview. rewrite Hr, Hi. f_equal. auto. }
  auto.
Qed.
Lemma IV_sym w w' : IV w w' -> IV w' w.
Proof. intros [H1 H2]. split; [intros i; symmetry; apply H1|symmetry; exact H2]. Qed.
Lemma IV_refl w : IV w w.
Proof. split; [intros i|]; reflexivity. Qed.
Lemma IV_trans a b c : IV a b -> IV b c -> IV a c.
Proof. intros [H1 H2] [H3 H4]. unfold NV in *. split; [intros i; rewrite H3; apply H1|congruence]. Qed.

Lemma model_at_iv w w' m x : IV w w' -> model_at w m = Some x -> exists x', model_at w' m = Some x' /\ iview x' = iview x.
Proof.
  intros [_ H] Hx. unfold model_at in *. apply (f_equal (fun l => nth_opt l (N.to_nat m))) in H.
  rewrite !nth_opt_map, Hx in H. destruct (nth_opt (w_models w') (N.to_nat m)) as [x'|]; [|discriminate].
  exists x'. split; [reflexivity|]. cbn in H. congruence.
Qed.
Lemma model_at_sv w w' m x : SV w w' -> model_at w m = Some x -> exists x', model_at w' m = Some x' /\ mview x' = mview x.
Proof.
  intros [_ H] Hx. unfold model_at in *. apply (f_equal (fun l => nth_opt l (N.to_nat m))) in H.
  rewrite !nth_opt_map, Hx in H. destruct (nth_opt (w_models w') (N.to_nat m)) as [x'|]; [|discriminate].
  exists x'. split; [reflexivity|]. cbn in H. congruence.
Qed.

Lemma mreach_iv w w' m i : IV w w' -> MReach T w m i -> MReach T w' m i.
Proof.
  intros HS (x & Hx & (q & Hd)). destruct (model_at_iv _ _ _ _ HS Hx) as (x' & Hx' & Hv).
  exists x'. split; [exact Hx'|]. assert (m_root x' = m_root x) by (unfold iview in Hv; congruence). rewrite H.
  exists q. eapply dpath_sv; [exact (proj1 HS)|exact Hd].
Qed.
Lemma specpath_iv w w' m i p : IV w w' -> SpecPath T w m i p -> SpecPath T w' m i p.
Proof.
  intros HS (x & Hx & (q & Hd & ->)). destruct (model_at_iv _ _ _ _ HS Hx) as (x' & Hx' & Hv).
  exists x'. split; [exact Hx'|]. assert (m_root x' = m_root x) by (unfold iview in Hv; congruence). rewrite H.
  exists q. split; [eapply dpath_sv; [exact (proj1 HS)|exact Hd]|]. rewrite (seg_sv _ _ _ (proj1 HS)). reflexivity.
Qed.
Lemma pathset_iv w w' m p i : IV w w' -> PathSet T w m p i -> PathSet T w' m p i.
Proof.
  intros HS (H1 & H2 & H3). split; [eapply mreach_iv; eauto|]. split; [rewrite (identifiable_sv _ _ _ (proj1 HS)); exact H2|].
  eapply specpath_iv; eauto.
Qed.
Lemma refset_sv w w' m p r : SV w w' -> RefSet T w m p r -> RefSet T w' m p r.
Proof.
  intros HS (H1 & H2). split; [eapply mreach_iv; [apply SV_IV; exact HS|exact H1]|].
  rewrite (ref_text_sv _ _ _ (proj1 HS)). exact H2.
Qed.

Theorem IndexExact_iv w w' m : IV w w' -> IndexExact T w m -> IndexExact T w' m.
Proof.
  intros HS H x' Hx' p i. destruct (model_at_iv _ _ _ _ (IV_sym _ _ HS) Hx') as (x & Hx & Hv).
  assert (Hi : m_idents x' = m_idents x) by (unfold iview in Hv; congruence). rewrite Hi, (H x Hx p i).
  split; apply pathset_iv; [exact HS|apply IV_sym; exact HS].
Qed.
Theorem IndexNoDup_iv w w' m : IV w w' -> IndexNoDup w m -> IndexNoDup w' m.
Proof.
  intros HS H x' Hx'. destruct (model_at_iv _ _ _ _ (IV_sym _ _ HS) Hx') as (x & Hx & Hv).
  assert (Hi : m_idents x' = m_idents x) by (unfold iview in Hv; congruence). rewrite Hi. apply H. exact Hx.
Qed.
Theorem RefsExact_sv w w' m : SV w w' -> RefsExact T w m -> RefsExact T w' m.
Proof.
  intros HS H x' Hx' p. destruct (model_at_sv _ _ _ _ (SV_sym _ _ HS) Hx') as (x & Hx & Hv).
  assert (Hi : m_origins x' = m_origins x) by (unfold mview in Hv; congruence).
  unfold origins_of. rewrite Hi. destruct (H x Hx p) as (H1 & H2). split; [exact H1|].
  intros r. unfold origins_of in H2. rewrite H2. split; apply refset_sv; [exact HS|apply SV_sym; exact HS].
Qed.
Theorem OriginsTidy_sv w w' m : SV w w' -> OriginsTidy w m -> OriginsTidy w' m.
Proof.
  intros HS H x' Hx'. destruct (model_at_sv _ _ _ _ (SV_sym _ _ HS) Hx') as (x & Hx & Hv).
  assert (Hi : m_origins x' = m_origins x) by (unfold mview in Hv; congruence). rewrite Hi. apply H. exact Hx.
Qed.

(* the side invariants only look at (name, type, content) of the nodes *)
Section SideNV.
Variable check_fn : N -> list N -> res bool.
Lemma nv_node_back w w' i n' : NV w w' -> w_nodes w' i = Some n' -> exists n, w_nodes w i = Some n /\ tview n' = tview n.
Proof.
  intros H Hn. specialize (H i). rewrite Hn in H. destruct (w_nodes w i) as [n|]; [|discriminate].
  exists n. split; [reflexivity|]. cbn in H. congruence.
Qed.
Theorem Inv04_iv w w' : IV w w' -> Inv04 T check_fn w -> Inv04 T check_fn w'.
Proof.
  intros HS [I1 I2 I3 IL I4 I5]. pose proof (proj1 HS) as HN. constructor.
  - intros i n' Hn' Hnm. destruct (nv_node_back _ _ _ _ HN Hn') as (n & Hn & Hv).
    assert (n_name n' = n_name n /\ n_type n' = n_type n) as (E1 & E2) by (unfold tview in Hv; split; congruence).
    rewrite E2. eapply I1; eauto. congruence.
  - intros i n' s Hn' Hnm Hcd. destruct (nv_node_back _ _ _ _ HN Hn') as (n & Hn & Hv).
    assert (n_name n' = n_name n) as E1 by (unfold tview in Hv; congruence).
    rewrite (cdata_of_tview _ _ Hv) in Hcd. eapply I2; eauto. congruence.
  - intros i n' Hn' Hid. destruct (nv_node_back _ _ _ _ HN Hn') as (n & Hn & Hv).
    rewrite (item_name_n_sv _ _ _ _ HN Hv). rewrite (identifiable_n_sv _ _ _ _ HN Hv) in Hid. eapply I3; eauto.
  - intros i n' Hn' Hm. destruct (nv_node_back _ _ _ _ HN Hn') as (n & Hn & Hv).
    assert (n_content n' = n_content n /\ n_type n' = n_type n) as (E1 & E2) by (unfold tview in Hv; split; congruence).
    rewrite E1. rewrite E2 in Hm. eapply IL; eauto.
  - intros m. eapply IndexExact_iv; eauto.
  - intros m. eapply IndexNoDup_iv; eauto.
Qed.
End SideNV.

(* ------------------------------------------------------------------ transfer of top-down paths between worlds *)
(* forwards: along a set P that is closed under the children of w *)
Lemma dpath_fwd (P : id -> Prop) w w' :
  (forall p c, P p -> child_of w p c -> child_of w' p c /\ P c /\ seg T w' c = seg T w c) ->
  forall a i q, P a -> dpath T w a i q -> dpath T w' a i q /\ P i.
Proof.
  intros H a i q Ha Hd. induction Hd as [|p c q Hp IH Hc]; [split; [constructor|exact Ha]|].
  destruct IH as (IH1 & IH2). destruct (H _ _ IH2 Hc) as (H1 & H2 & H3). split; [|exact H2].
  rewrite <- H3. econstructor; eauto.
Qed.

(* backwards: along a set P that is closed under the parents of w' *)
Lemma dpath_bwd (P : id -> Prop) w w' :
  (forall p c, child_of w' p c -> P c -> P p /\ child_of w p c /\ seg T w c = seg T w' c) ->
  forall a i q, dpath T w' a i q -> P i -> dpath T w a i q.
Proof.
  intros H a i q Hd. induction Hd as [|p c q Hp IH Hc]; intros Hi; [constructor|].
  destruct (H _ _ Hc Hi) as (H1 & H2 & H3). rewrite <- H3. econstructor; eauto.
Qed.

End SVspec.
