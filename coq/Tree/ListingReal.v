(* Tree/ListingReal.v — [F] on the regenerated real tables the listing's named-ness agrees with the creation calls' for EVERY
   datatype and every AUTOSAR version (Tree/Listing.v named_agree_b; four sharded evaluations Tree/ListingSweep*.v; above the
   table size the table function is undefined: SpecWFReal.real_dt_bound), and the resulting statement of the property text. *)
From Coq Require Import Arith Lia.
From AV Require Import Base.Bytes Base.Outcome Hash.HashModel Spec.SpecOps Spec.SpecReal Tree.Heap Tree.Ops Tree.Range Tree.ValidSubs
  Tree.SpecWF Tree.SpecWFReal Tree.Listing Tree.ListingSweep0 Tree.ListingSweep1 Tree.ListingSweep2 Tree.ListingSweep3
  Tree.RangeProofsListing Tree.RangeProofsReal.
Open Scope list_scope.
Open Scope N_scope.

Lemma in_shard4 k n i : i < n -> i mod 4 = k -> In i (shard4 k n).
Proof.
  intros L M. unfold shard4. apply filter_In. split.
  - rewrite <- (N2Nat.id i). apply in_map. apply in_seq. lia.
  - apply N.eqb_eq. exact M.
Qed.

Theorem named_agree_real : forall ty, named_agree_b RT ty = true.
Proof.
  intros ty. destruct (N.lt_ge_cases ty (n_datatypes RT)) as [L|G].
  - assert (M : ty mod 4 < 4) by (apply N.mod_lt; discriminate).
    assert (C : ty mod 4 = 0 \/ ty mod 4 = 1 \/ ty mod 4 = 2 \/ ty mod 4 = 3) by (remember (ty mod 4) as x; clear Heqx; lia).
    destruct C as [C|[C|[C|C]]].
    + pose proof listing_sweep_0 as S. rewrite forallb_forall in S. exact (S ty (in_shard4 0 _ ty L C)).
    + pose proof listing_sweep_1 as S. rewrite forallb_forall in S. exact (S ty (in_shard4 1 _ ty L C)).
    + pose proof listing_sweep_2 as S. rewrite forallb_forall in S. exact (S ty (in_shard4 2 _ ty L C)).
    + pose proof listing_sweep_3 as S. rewrite forallb_forall in S. exact (S ty (in_shard4 3 _ ty L C)).
  - unfold named_agree_b. assert (E : T_datatypes RT ty = None).
    { destruct (T_datatypes RT ty) as [d|] eqn:E; [|reflexivity]. apply real_dt_bound in E. lia. }
    unfold FUEL. cbn [list_sub]. unfold dt, unwrap. rewrite E. reflexivity.
Qed.

Theorem listing_exact_real :
  forall (h : id) (n : node) (v : N) (w : world) (r : list valid_info) (w' : world) (vi : valid_info),
  In v VERSIONS ->
  w_nodes w h = Some n -> w_nodes w (w_next w) = None -> min_version REAL_LATEST h w = Val (OK v, w) ->
  list_valid_sub_elements RT REAL_LATEST h w = Val (OK r, w') -> In vi r ->
  (exists et ix, find_sub_element RT (n_type n) (vi_name vi) v = Val (Some (et, ix)) /\
                 is_named_in_version RT et v = Val (vi_named vi)) /\
  (vi_named vi = false ->
     (vi_allowed vi = true <-> exists c w2, e_create_sub_element RT REAL_LATEST h (vi_name vi) w = Val (OK c, w2)) /\
     (forall lo hi w1, calc_element_insert_range RT n (vi_name vi) v w = Val (OK (lo, hi), w1) ->
        forall pos, (exists c w2, e_create_sub_element_at RT REAL_LATEST h (vi_name vi) pos w = Val (OK c, w2)) <-> lo <= pos <= hi)) /\
  (vi_named vi = true ->
     forall pos c w2, e_create_sub_element_at RT REAL_LATEST h (vi_name vi) pos w <> Val (OK c, w2)).
Proof.
  intros h n v w r w' vi Hv Hn Hf Hmv HL Hin. split.
  - exact (listing_named_exact RT REAL_LATEST h n v w r w' vi (named_agree_real _) Hv Hn Hmv HL Hin).
  - exact (listing_exact RT REAL_LATEST h n v w r w' vi (named_agree_real _) Hv Hn Hf Hmv HL Hin).
Qed.

(* the distinction is real: CAN-TP-ADDRESS (2866) below TP-ADDRESSS (datatype 516) has ONE type (766, 511) in all versions; that
   type has no SHORT-NAME in AUTOSAR 4.0.1 and has one from 4.0.2 on — a gate "identifiable in ANY version" (round-7 seed
   C07-create-sub-element-named-any-version) would refuse create_sub_element in a 4.0.1 file although the listing reports the
   name as allowed and not named *)
Lemma version_dependent_named_real :
  find_sub_element RT (0, 516) 2866 1 = Val (Some ((766, 511), [0])) /\
  find_sub_element RT (0, 516) 2866 2 = Val (Some ((766, 511), [0])) /\
  is_named_in_version RT (766, 511) 1 = Val false /\ is_named_in_version RT (766, 511) 2 = Val true /\
  is_named RT (766, 511) = Val true.
Proof. repeat split; vm_compute; reflexivity. Qed.
