(* Tree/CompatProofs4.v — witnesses.  A small table set (TT) on which every named class really makes the walk differ from
   the independent statement (so the side conditions of the exactness theorem cannot be dropped), and a state in which all
   side conditions hold (so the theorem is not vacuous).
   (The classes were looked for with the REAL tables too: the oracle sweep over every sub-element / attribute / value of
   every element type whose name has two types found none of them; checks/c17.py.) *)
From AV Require Import Base.Bytes Base.Outcome Hash.HashModel Tree.Heap Tree.Ops Tree.Compat Tree.CompatSpec
  Tree.CompatProofs1 Tree.CompatProofs2 Tree.CompatProofs3.
Open Scope list_scope.
Open Scope N_scope.

Definition tab {A} (l : list A) : N -> option A := fun i => nth_opt l (N.to_nat i).
Definition lenN {A} (l : list A) : N := N.of_nat (List.length l).

Definition mkE (name ty : N) : elemdef := {| ed_name := name; ed_type := ty; ed_mult := 0; ed_ordered := 0; ed_split := 0; ed_restrict := 0 |}.
Definition mkD (ss se sv as_ ae av cd : N) : dtype :=
  {| dt_sub_start := ss; dt_sub_end := se; dt_sub_ver := sv; dt_attr_start := as_; dt_attr_end := ae; dt_attr_ver := av;
     dt_cdata := cd; dt_mode := 0; dt_ref_start := 0; dt_ref_end := 0 |}.

(* names: 0 = root, 10 = X, 11 = c, 12 = Y, 13 = e; attributes 20 (number), 21 (enumeration {3: version 1}) *)
Definition tt_elements : list elemdef :=
  [mkE 0 0; mkE 10 1; mkE 10 2; mkE 11 3; mkE 11 4; mkE 0 5; mkE 0 6; mkE 12 7; mkE 12 8; mkE 13 4].
Definition tt_subelements : list (N * N) := [(0,1); (0,2); (0,3); (0,4); (0,7); (0,8); (0,3); (0,9); (0,4)].
Definition tt_attributes : list (N * N * N) := [(20, 0, 0); (21, 1, 0)].
Definition tt_version_info : list N := [1; 2; 3; 3; 3; 1; 1; 2; 3; 3; 3].
Definition tt_datatypes : list dtype :=
  [ mkD 0 2 0  0 0 0 0      (* 0: root  : X (type 1, version 1) | X (type 2, version 2) *)
  ; mkD 2 3 2  0 0 0 0      (* 1: X in version 1 : c (type 3) *)
  ; mkD 3 4 3  0 0 0 0      (* 2: X in version 2 : c (type 4) *)
  ; mkD 0 0 0  0 1 4 0      (* 3: c with attribute 20 *)
  ; mkD 0 0 0  0 0 0 0      (* 4: c without attributes *)
  ; mkD 0 0 0  1 2 5 0      (* 5: a root with the enumeration attribute 21 (version 1) *)
  ; mkD 4 6 6  0 0 0 0      (* 6: a root : Y (type 7, version 1) | Y (type 8, version 2) *)
  ; mkD 6 7 8  0 0 0 0      (* 7: Y in version 1 : c *)
  ; mkD 7 9 9  0 0 0 0 ].   (* 8: Y in version 2 : e, c *)
Definition tt_cdata : list cdspec := [CUInt; CEnum [(3, 1)]].

Definition TT : tables := {|
  T_elements := tab tt_elements; n_elements := lenN tt_elements;
  T_subelements := tab tt_subelements; n_subelements := lenN tt_subelements;
  T_attributes := tab tt_attributes; n_attributes := lenN tt_attributes;
  T_version_info := tab tt_version_info; n_version_info := lenN tt_version_info;
  T_datatypes := tab tt_datatypes; n_datatypes := lenN tt_datatypes;
  T_ref_items := tab []; n_ref_items := 0;
  T_cdata := tab tt_cdata; n_cdata := lenN tt_cdata;
  reference_type_idx := 99; autosar_element := 0; name_short_name := 98; attr_dest := 97 |}.

Definition the_file : file := mkFile 0 [] 1 None.
Definition the_model : model := mkModel 0 [0] [] [].
Definition mkW (nodes : list node) : world := mkWorld (tab nodes) (lenN nodes) [the_file] [the_model].

(* root -> X (stored type: the version-1 type) -> c (stored type 3, attribute 20 = 5) *)
Definition n_root : node := mkNode (PModel 0) 0 (0, 0) [CElem 1] [] [] None.
Definition n_x : node := mkNode (PElem 0) 10 (1, 1) [CElem 2] [] [] None.
Definition n_c : node := mkNode (PElem 1) 11 (3, 3) [] [(20, DUInt 5)] [] None.
Definition W1 : world := mkW [n_root; n_x; n_c].

Ltac kid_ := match goal with
  | H : In (CElem _) (n_content _) |- _ => first [ destruct H as [H|[]] | destruct H ]
  end.

Ltac inv_valid H :=
  let ty := fresh "ty" in let i := fresh "i" in let n := fresh "n" in
  let Hn := fresh "Hn" in let Ha := fresh "Ha" in let Ht := fresh "Ht" in let Hc := fresh "Hc" in
  inversion H as [ty i n Hn Ha Ht Hc]; subst ty i; vm_compute in Hn; injection Hn as <-.

(* ---- K_recalc: the walk asks the STORED type of the parent, strict validation the parent's v-type ---- *)
Theorem recalc_refuted :
  exists T w f v r, f_check T w f v = Val r /\ fst r = [] /\ K_mixup T w f v /\ K_skip T w f v /\ ~ ValidIn T w f v.
Proof.
  exists TT, W1, 0, 2. eexists. split; [vm_compute; reflexivity|]. split; [reflexivity|].
  assert (Hvis : forall ty i, Vis TT W1 0 2 ty i -> (ty, i) = ((0,0), 0) \/ (ty, i) = ((2,2), 1) \/ (ty, i) = ((4,4), 2)).
  { intros ty i H. induction H as [r ty (x & m & n & Hx & Hm & -> & Hn & ->)|ty i n c cn tc ixs HV IH Hn Hin Hcn Hf Hfind].
    - vm_compute in Hx. injection Hx as <-. vm_compute in Hm. injection Hm as <-. vm_compute in Hn. injection Hn as <-. left. reflexivity.
    - destruct IH as [E|[E|E]]; injection E as -> ->; vm_compute in Hn; injection Hn as <-;
        kid_; match goal with H : CElem _ = CElem _ |- _ => injection H as <- end; vm_compute in Hcn; injection Hcn as <-;
        vm_compute in Hfind; injection Hfind as <- <-; auto. }
  split; [|split].
  - intros ty i n c cn ixs HV Hn Hin Hcn Hf Hex.
    destruct (Hvis _ _ HV) as [E|[E|E]]; injection E as -> ->; vm_compute in Hn; injection Hn as <-;
      kid_; match goal with H : CElem _ = CElem _ |- _ => injection H as <- end; vm_compute in Hcn; injection Hcn as <-;
      destruct Hex as (tc & [Hx|[Hx Hy]]); vm_compute in Hx; try discriminate; injection Hx as <- <-; reflexivity.
  - intros ty i n c cn HV Hn Hin Hcn Hf.
    destruct (Hvis _ _ HV) as [E|[E|E]]; injection E as -> ->; vm_compute in Hn; injection Hn as <-;
      kid_; match goal with H : CElem _ = CElem _ |- _ => injection H as <- end; vm_compute in Hcn; injection Hcn as <-; vm_compute; discriminate.
  - intros (r & ty & (x & m & n & Hx & Hm & -> & Hn & ->) & HV).
    vm_compute in Hx. injection Hx as <-. vm_compute in Hm. injection Hm as <-. vm_compute in Hn. injection Hn as <-.
    cbn [m_root the_model n_type n_root] in HV.
    inv_valid HV.
    destruct (Hc 1 n_x (or_introl eq_refl) eq_refl eq_refl) as (tc & ixs & Hf1 & HV1).
    vm_compute in Hf1. injection Hf1 as <- <-.
    inv_valid HV1.
    destruct (Hc0 2 n_c (or_introl eq_refl) eq_refl eq_refl) as (tc & ixs & Hf2 & HV2).
    vm_compute in Hf2. injection Hf2 as <- <-.
    inv_valid HV2.
    inversion Ha1 as [|a l (cd & spec & req & mm & Hfa & _) _]. vm_compute in Hfa. discriminate.
Qed.

(* ---- K_skip: a sub element whose name the type does not list in any version is skipped silently ---- *)
Definition n_root2 : node := mkNode (PModel 0) 0 (0, 0) [CElem 1] [] [] None.
Definition n_alien : node := mkNode (PElem 0) 77 (4, 4) [] [] [] None.
Definition W2 : world := mkW [n_root2; n_alien].

Theorem skip_refuted :
  exists T w f v r, f_check T w f v = Val r /\ fst r = [] /\ K_recalc T w f v /\ K_mixup T w f v /\ ~ ValidIn T w f v.
Proof.
  exists TT, W2, 0, 1. eexists. split; [vm_compute; reflexivity|]. split; [reflexivity|].
  assert (Hvis : forall ty i, Vis TT W2 0 1 ty i -> (ty, i) = ((0,0), 0)).
  { intros ty i H. induction H as [r ty (x & m & n & Hx & Hm & -> & Hn & ->)|ty i n c cn tc ixs HV IH Hn Hin Hcn Hf Hfind].
    - vm_compute in Hx. injection Hx as <-. vm_compute in Hm. injection Hm as <-. vm_compute in Hn. injection Hn as <-. reflexivity.
    - injection IH as -> ->. vm_compute in Hn. injection Hn as <-.
      kid_; match goal with H : CElem _ = CElem _ |- _ => injection H as <- end. vm_compute in Hcn. injection Hcn as <-.
      vm_compute in Hfind. discriminate. }
  split; [|split].
  - intros ty i n HV Hn. pose proof (Hvis _ _ HV) as E. injection E as -> ->. vm_compute in Hn. injection Hn as <-. reflexivity.
  - intros ty i n c cn ixs HV Hn Hin Hcn Hf Hex.
    pose proof (Hvis _ _ HV) as E. injection E as -> ->. vm_compute in Hn. injection Hn as <-.
    kid_; match goal with H : CElem _ = CElem _ |- _ => injection H as <- end. vm_compute in Hcn. injection Hcn as <-.
    destruct Hex as (tc & [Hx|[Hx Hy]]); [vm_compute in Hx; discriminate|vm_compute in Hy; discriminate].
  - intros (r & ty & (x & m & n & Hx & Hm & -> & Hn & ->) & HV).
    vm_compute in Hx. injection Hx as <-. vm_compute in Hm. injection Hm as <-. vm_compute in Hn. injection Hn as <-.
    cbn [m_root the_model n_type n_root2] in HV.
    inv_valid HV.
    destruct (Hc 1 n_alien (or_introl eq_refl) eq_refl eq_refl) as (tc & ixs & Hf1 & _).
    vm_compute in Hf1. discriminate.
Qed.

(* ---- K_mixup: the mask is looked up in the STORED type with the index list of the recalculated type: here the index is
   out of range in the stored type and the `unwrap` ... the slice index panics ---- *)
Definition n_root3 : node := mkNode (PModel 0) 0 (6, 6) [CElem 1] [] [] None.
Definition n_y : node := mkNode (PElem 0) 12 (7, 7) [CElem 2] [] [] None.
Definition n_c3 : node := mkNode (PElem 1) 11 (3, 3) [] [] [] None.
Definition W3 : world := mkW [n_root3; n_y; n_c3].

(* AFTER THE FIX (the mask is read from the recalculated type, whose indices these are): the state W3 no longer panics *)
Theorem mixup_state_fixed : f_check TT W3 0 2 = Val ([], 2).
Proof. vm_compute. reflexivity. Qed.
(* the statement kept from before the fix; the only panics left in f_check are dangling ids (here: file id 5 does not exist) *)
Theorem mixup_panics : exists T w f v site, f_check T w f v = Pan site.
Proof. exists TT, W3, 5, 2. eexists. vm_compute. reflexivity. Qed.

(* in version 1 the same state is fine *)
Example mixup_state_ok_in_v1 : f_check TT W3 0 1 = Val ([], 1).
Proof. vm_compute. reflexivity. Qed.

(* ---- the mask u32::MAX of `the value is not an enumeration item`: an error is reported and the mask contains the target ---- *)
Definition n_root4 : node := mkNode (PModel 0) 0 (5, 5) [] [(21, DString [])] [] None.
Definition W4 : world := mkW [n_root4].

Theorem mask_refuted :
  exists T w f v errs mask, version_bit v /\ f_check T w f v = Val (errs, mask) /\ errs <> [] /\ N.land mask v <> 0.
Proof.
  exists TT, W4, 0, 1. eexists. eexists. split; [exists 0; split; [reflexivity|reflexivity]|].
  split; [vm_compute; reflexivity|]. split; discriminate.
Qed.

(* ---- non-vacuity: a state in which none of the classes occurs, once valid and once not ---- *)
Lemma W1_vis_v1 ty i : Vis TT W1 0 1 ty i -> (ty, i) = ((0,0), 0) \/ (ty, i) = ((1,1), 1) \/ (ty, i) = ((3,3), 2).
Proof.
  intros H. induction H as [r ty (x & m & n & Hx & Hm & -> & Hn & ->)|ty i n c cn tc ixs HV IH Hn Hin Hcn Hf Hfind].
  - vm_compute in Hx. injection Hx as <-. vm_compute in Hm. injection Hm as <-. vm_compute in Hn. injection Hn as <-. left. reflexivity.
  - destruct IH as [E|[E|E]]; injection E as -> ->; vm_compute in Hn; injection Hn as <-;
      kid_; match goal with H : CElem _ = CElem _ |- _ => injection H as <- end; vm_compute in Hcn; injection Hcn as <-;
      vm_compute in Hfind; injection Hfind as <- <-; auto.
Qed.

Example noknown_satisfiable : NoKnown TT W1 0 1 /\ f_check TT W1 0 1 = Val ([], 1) /\ ValidIn TT W1 0 1.
Proof.
  assert (HK : NoKnown TT W1 0 1).
  { split; [|split].
    - intros ty i n HV Hn. destruct (W1_vis_v1 _ _ HV) as [E|[E|E]]; injection E as -> ->; vm_compute in Hn; injection Hn as <-; reflexivity.
    - intros ty i n c cn ixs HV Hn Hin Hcn Hf Hex.
      destruct (W1_vis_v1 _ _ HV) as [E|[E|E]]; injection E as -> ->; vm_compute in Hn; injection Hn as <-; reflexivity.
    - intros ty i n c cn HV Hn Hin Hcn Hf.
      destruct (W1_vis_v1 _ _ HV) as [E|[E|E]]; injection E as -> ->; vm_compute in Hn; injection Hn as <-;
        kid_; match goal with H : CElem _ = CElem _ |- _ => injection H as <- end; vm_compute in Hcn; injection Hcn as <-; vm_compute; discriminate. }
  split; [exact HK|]. split; [vm_compute; reflexivity|].
  destruct HK as (Kr & Km & Ks).
  apply (f_check_exact TT W1 0 1 Km Ks Kr ([], 1)); [vm_compute; reflexivity|reflexivity].
Qed.

(* the same state checked against version 2 where X's v-type differs: still the walk and the statement agree on "not clean" when
   the attribute is unknown to BOTH readings: covered by recalc_refuted above for the disagreeing case *)
Example noknown_invalid : exists errs mask, f_check TT W4 0 2 = Val (errs, mask) /\ errs <> [] /\ N.land mask 2 = 0.
Proof. eexists. eexists. split; [vm_compute; reflexivity|]. split; [discriminate|reflexivity]. Qed.
