(* Tree/FilesProofsText.v — C10 proofs: the projection tree and the text of the OTHER files under remove_file.
   A generic simulation between two worlds (labels equal, content lists thinned, dropped sub-elements do not pass the
   filter, kept ones pass alike) gives equality of fproj and, when no written element loses its whole content, of
   ser_heap.  remove_file satisfies the simulation for every other file g. *)
From Coq Require Import PeanoNat Arith Lia.
From AV Require Import Base.Bytes Base.Outcome Hash.HashModel Tree.Heap Tree.Ops Tree.Script Tree.Serialize
  Tree.Inv Tree.InvProofsBase Tree.InvProofsCore Tree.InvProofsTree Tree.InvProofsPrim
  Tree.Files Tree.FilesProofsBase Tree.FilesProofsProj Tree.FilesProofsFrame Tree.FilesProofsAdd Tree.FilesProofsExact Tree.FilesProofsExact2.
From AV Require Xml.Parser Xml.Serializer.
Open Scope string_scope.
Open Scope list_scope.
Open Scope N_scope.

Lemma thin_nil_r l' : thin l' [] -> l' = [].
Proof. inversion 1; auto. Qed.

Lemma thin_items l' l : thin l' l -> forall it, In it l' -> In it l.
Proof.
  induction 1 as [|x l' l H IH|c l' l H IH]; intros it Hi; auto.
  - destruct Hi as [<-|Hi]; [left; auto|right; auto].
  - right. auto.
Qed.

Lemma thin_no_elems l' l : thin l' l -> elems l = [] -> l' = l.
Proof.
  induction 1 as [|it l' l H IH|c l' l H IH]; intros E; auto.
  - f_equal. apply IH. destruct it; cbn in E; [discriminate|exact E].
  - cbn in E. discriminate.
Qed.

Section Sim.
Variable T : tables.
Variable tab_el tab_at tab_en : nametab.
Variable float_fmt : N -> list N.
Variables (w w' : world) (ff : option N).
Variable K : id -> Prop.        (* the elements the simulation is about *)
Variable R : node -> Prop.      (* when the closure under passing sub-elements is needed *)

Let SH := ser_heap T tab_el tab_at tab_en float_fmt.

Definition node_sim (n n' : node) : Prop :=
  n_name n' = n_name n /\ n_type n' = n_type n /\ n_attrs n' = n_attrs n /\ n_comment n' = n_comment n /\
  thin (n_content n') (n_content n) /\ NoDup (kids n) /\
  (forall c, In c (kids n) -> ~ In c (kids n') -> exists cn, w_nodes w c = Some cn /\ passes ff cn = false) /\
  (forall c, In c (kids n') -> exists cn cn', w_nodes w c = Some cn /\ w_nodes w' c = Some cn' /\
        passes ff cn' = passes ff cn /\ (passes ff cn = true -> R n -> K c)).

Hypothesis HK : forall i, K i -> exists n n', w_nodes w i = Some n /\ w_nodes w' i = Some n' /\ node_sim n n'.

Lemma fproj_items_sim rec rec' : forall l' l, thin l' l -> NoDup (elems l) ->
  (forall c, In c (elems l) -> ~ In c (elems l') -> exists cn, w_nodes w c = Some cn /\ passes ff cn = false) ->
  (forall c, In c (elems l') -> exists cn cn', w_nodes w c = Some cn /\ w_nodes w' c = Some cn' /\
        passes ff cn' = passes ff cn /\ (passes ff cn = true -> forall t, rec c = Some t -> rec' c = Some t)) ->
  forall r, fproj_items w ff rec l = Some r -> fproj_items w' ff rec' l' = Some r.
Proof.
  induction 1 as [|it l' l H IH|c l' l H IH]; intros ND H1 H2 r Hr.
  - exact Hr.
  - destruct it as [c|d]; cbn [fproj_items elems flat_map app] in *.
    + apply NoDup_cons_iff in ND as (Hc & ND).
      destruct (H2 c (or_introl eq_refl)) as (cn & cn' & Hcn & Hcn' & Hp & Hrec).
      rewrite Hcn in Hr. rewrite Hcn', Hp.
      assert (forall r0, fproj_items w ff rec l = Some r0 -> fproj_items w' ff rec' l' = Some r0) as IH'.
      { apply IH; auto.
        - intros c0 Hc0 Hn0. apply H1; [right; auto|]. intros [<-|Hi]; [contradiction|contradiction].
        - intros c0 Hc0. apply H2. right. auto. }
      destruct (passes ff cn) eqn:Ep.
      * destruct (rec c) as [t|] eqn:Et; [|discriminate].
        destruct (fproj_items w ff rec l) as [rest|] eqn:Er; [|discriminate].
        rewrite (Hrec eq_refl t eq_refl), (IH' rest eq_refl). exact Hr.
      * auto.
    + destruct (fproj_items w ff rec l) as [rest|] eqn:Er; [|discriminate].
      rewrite (IH ND H1 H2 rest eq_refl). exact Hr.
  - cbn [fproj_items elems flat_map app] in *. apply NoDup_cons_iff in ND as (Hc & ND).
    assert (~ In c (elems l')) as Hnc by (intros Hi; apply Hc; eapply thin_incl; eauto).
    destruct (H1 c (or_introl eq_refl) Hnc) as (cn & Hcn & Hp). rewrite Hcn, Hp in Hr.
    apply IH; auto. intros c0 Hc0 Hn0. apply H1; auto. right. auto.
Qed.

Theorem fproj_sim : (forall n, R n) -> forall fuel i t, K i -> fproj fuel w ff i = Some t -> fproj fuel w' ff i = Some t.
Proof.
  intros HR. induction fuel as [|fl IH]; intros i t Hi H; cbn [fproj] in *; [discriminate|].
  destruct (HK i Hi) as (n & n' & Hn & Hn' & Nm & Ty & At & Cm & Th & ND & H1 & H2).
  rewrite Hn in H. rewrite Hn'.
  destruct (fproj_items w ff (fproj fl w ff) (n_content n)) as [content|] eqn:E; [|discriminate].
  rewrite (fproj_items_sim (fproj fl w ff) (fproj fl w' ff) _ _ Th ND H1) with (r := content); auto.
  - rewrite Nm, Ty, At, Cm. exact H.
  - intros c Hc. destruct (H2 c Hc) as (cn & cn' & Hcn & Hcn' & Hp & Hk). exists cn, cn'. repeat split; auto.
Qed.

(* ---------- the text ---------- *)
Lemma heap_loops_sim fl :
  (forall c, K c -> forall indent inline, SH fl w' ff c indent inline = SH fl w ff c indent inline) ->
  forall indent l' l, thin l' l -> NoDup (elems l) ->
  (forall c, In c (elems l) -> ~ In c (elems l') -> exists cn, w_nodes w c = Some cn /\ passes ff cn = false) ->
  (forall c, In c (elems l') -> exists cn cn', w_nodes w c = Some cn /\ w_nodes w' c = Some cn' /\
        passes ff cn' = passes ff cn /\ (passes ff cn = true -> K c)) ->
  heap_items T tab_el tab_at tab_en float_fmt fl w' ff indent l' = heap_items T tab_el tab_at tab_en float_fmt fl w ff indent l /\
  heap_subs T tab_el tab_at tab_en float_fmt fl w' ff indent l' = heap_subs T tab_el tab_at tab_en float_fmt fl w ff indent l.
Proof.
  intros Hrec indent. induction 1 as [|it l' l H IH|c l' l H IH]; intros ND H1 H2.
  - split; reflexivity.
  - destruct it as [c|d]; cbn [heap_items heap_subs elems flat_map app] in *.
    + apply NoDup_cons_iff in ND as (Hc & ND).
      destruct (H2 c (or_introl eq_refl)) as (cn & cn' & Hcn & Hcn' & Hp & Hk).
      rewrite Hcn, Hcn', Hp.
      destruct IH as (I1 & I2); auto.
      { intros c0 Hc0 Hn0. apply H1; [right; auto|]. intros [<-|Hi]; contradiction. }
      { intros c0 Hc0. apply H2. right. auto. }
      fold (heap_items T tab_el tab_at tab_en float_fmt fl w' ff indent) (heap_items T tab_el tab_at tab_en float_fmt fl w ff indent)
           (heap_subs T tab_el tab_at tab_en float_fmt fl w' ff indent) (heap_subs T tab_el tab_at tab_en float_fmt fl w ff indent).
      destruct (passes ff cn) eqn:Ep; [|split; auto].
      fold SH. rewrite !(Hrec c (Hk eq_refl)), I1, I2. split; reflexivity.
    + destruct (IH ND H1 H2) as (I1 & I2).
      fold (heap_items T tab_el tab_at tab_en float_fmt fl w' ff indent) (heap_items T tab_el tab_at tab_en float_fmt fl w ff indent)
           (heap_subs T tab_el tab_at tab_en float_fmt fl w' ff indent) (heap_subs T tab_el tab_at tab_en float_fmt fl w ff indent).
      rewrite I1, I2. split; reflexivity.
  - cbn [heap_items heap_subs elems flat_map app] in *. apply NoDup_cons_iff in ND as (Hc & ND).
    assert (~ In c (elems l')) as Hnc by (intros Hi; apply Hc; eapply thin_incl; eauto).
    destruct (H1 c (or_introl eq_refl) Hnc) as (cn & Hcn & Hp). rewrite Hcn, Hp.
    fold (heap_items T tab_el tab_at tab_en float_fmt fl w ff indent) (heap_subs T tab_el tab_at tab_en float_fmt fl w ff indent).
    apply IH; auto. intros c0 Hc0 Hn0. apply H1; auto. right. auto.
Qed.

Theorem ser_heap_sim :
  (forall n, recurses T n -> R n) -> CharsLeaf T w ->
  (forall i n n', K i -> w_nodes w i = Some n -> w_nodes w' i = Some n' -> n_content n <> [] -> n_content n' <> []) ->
  forall fuel i indent inline, K i -> SH fuel w' ff i indent inline = SH fuel w ff i indent inline.
Proof.
  intros HR CL HE. induction fuel as [|fl IH]; intros i indent inline Hi; [reflexivity|].
  unfold SH. rewrite !ser_heap_unfold.
  destruct (HK i Hi) as (n & n' & Hn & Hn' & Nm & Ty & At & Cm & Th & ND & H1 & H2).
  rewrite Hn, Hn', Nm, Cm, At, Ty.
  destruct (unwrap _ (to_str tab_el (n_name n))) as [nm| |]; cbn [bind]; auto.
  destruct (n_content n) as [|first rest] eqn:Ec.
  { apply thin_nil_r in Th. rewrite Th. reflexivity. }
  destruct (n_content n') as [|first' rest'] eqn:Ec'.
  { exfalso. apply (HE i n n' Hi Hn Hn'); [rewrite Ec; discriminate|exact Ec']. }
  destruct (ser_ats tab_at tab_en float_fmt (n_attrs n)) as [ats| |]; cbn [bind]; auto.
  destruct (content_mode T (n_type n)) as [mode| |] eqn:Em; cbn [bind]; auto.
  destruct (mode =? MCharacters) eqn:Ech.
  { pose proof (CL i n mode Hn Em Ech) as Hk0. unfold kids in Hk0. rewrite Ec in Hk0.
    pose proof (thin_no_elems _ _ Th Hk0) as E. injection E as -> ->. reflexivity. }
  assert (R n) as HRn by (apply HR; exists mode; auto).
  destruct (heap_loops_sim fl (fun c Hc ind inl => IH c ind inl Hc) indent _ _ Th) as (I1 & I2).
  { unfold kids in ND. rewrite Ec in ND. exact ND. }
  { unfold kids in H1. rewrite Ec, Ec' in H1. exact H1. }
  { intros c Hc. unfold kids in H2. rewrite Ec' in H2. destruct (H2 c Hc) as (cn & cn' & A & B & Cc & D).
    exists cn, cn'. repeat split; auto. }
  rewrite I1, I2. reflexivity.
Qed.

(* ---------- lengths: the text only gets shorter, strictly when a written element loses its whole content ---------- *)
Definition Flip (j : id) : Prop :=
  exists n n', w_nodes w j = Some n /\ w_nodes w' j = Some n' /\ n_content n <> [] /\ n_content n' = [].

Lemma proj_head i j : Proj T w ff i j ->
  j = i \/ exists n c cn, w_nodes w i = Some n /\ recurses T n /\ In c (kids n) /\ w_nodes w c = Some cn /\
                          passes ff cn = true /\ Proj T w ff c j.
Proof.
  induction 1 as [H|p pn c cn Hp IH Hpn Hrec Hc Hcn Hpass]; [left; reflexivity|]. right.
  destruct IH as [->|(n & c0 & cn0 & Hn & Hr0 & Hc0 & Hcn0 & Hp0 & Hpr)].
  - exists pn, c, cn. repeat split; auto. constructor. exists cn; auto.
  - exists n, c0, cn0. repeat split; auto. eapply Proj_kid; eauto.
Qed.

Definition LenOK (fl : nat) (c : id) : Prop :=
  forall indent inline s s', SH fl w' ff c indent inline = Val s' -> SH fl w ff c indent inline = Val s ->
    (List.length s' <= List.length s)%nat /\ ((exists j, Proj T w ff c j /\ Flip j) -> (List.length s' < List.length s)%nat).

Lemma heap_loops_len fl (IH : forall c, K c -> LenOK fl c) indent : forall l' l, thin l' l -> NoDup (elems l) ->
  (forall c, In c (elems l) -> ~ In c (elems l') -> exists cn, w_nodes w c = Some cn /\ passes ff cn = false) ->
  (forall c, In c (elems l') -> exists cn cn', w_nodes w c = Some cn /\ w_nodes w' c = Some cn' /\
        passes ff cn' = passes ff cn /\ (passes ff cn = true -> K c)) ->
  let strict := exists c cn j, In c (elems l') /\ w_nodes w c = Some cn /\ passes ff cn = true /\ Proj T w ff c j /\ Flip j in
  (forall b b', heap_items T tab_el tab_at tab_en float_fmt fl w' ff indent l' = Val b' ->
                heap_items T tab_el tab_at tab_en float_fmt fl w ff indent l = Val b ->
                (List.length b' <= List.length b)%nat /\ (strict -> (List.length b' < List.length b)%nat)) /\
  (forall b b', heap_subs T tab_el tab_at tab_en float_fmt fl w' ff indent l' = Val b' ->
                heap_subs T tab_el tab_at tab_en float_fmt fl w ff indent l = Val b ->
                (List.length b' <= List.length b)%nat /\ (strict -> (List.length b' < List.length b)%nat)).
Proof.
  induction 1 as [|it l' l H IHl|c l' l H IHl]; intros ND H1 H2 strict.
  - split; intros b b' [= <-] [= <-]; (split; [auto|]); intros (c & cn & j & [] & _).
  - destruct it as [c|d]; cbn [heap_items heap_subs elems flat_map app] in *.
    + apply NoDup_cons_iff in ND as (Hc & ND).
      destruct (H2 c (or_introl eq_refl)) as (cn & cn' & Hcn & Hcn' & Hp & Hk).
      destruct IHl as (I1 & I2); auto.
      { intros c0 Hc0 Hn0. apply H1; [right; auto|]. intros [<-|Hi]; contradiction. }
      { intros c0 Hc0. apply H2. right. auto. }
      fold (heap_items T tab_el tab_at tab_en float_fmt fl w' ff indent) (heap_items T tab_el tab_at tab_en float_fmt fl w ff indent)
           (heap_subs T tab_el tab_at tab_en float_fmt fl w' ff indent) (heap_subs T tab_el tab_at tab_en float_fmt fl w ff indent).
      rewrite Hcn, Hcn', Hp. destruct (passes ff cn) eqn:Ep.
      * fold SH.
        split; intros b b' Hb' Hb.
        -- destruct (SH fl w' ff c (S indent) true) as [a'| |] eqn:Ea'; cbn [bind] in Hb'; try discriminate.
           destruct (heap_items T tab_el tab_at tab_en float_fmt fl w' ff indent l') as [r'| |] eqn:Er'; cbn [bind] in Hb'; try discriminate.
           destruct (SH fl w ff c (S indent) true) as [a| |] eqn:Ea; cbn [bind] in Hb; try discriminate.
           destruct (heap_items T tab_el tab_at tab_en float_fmt fl w ff indent l) as [r0| |] eqn:Er; cbn [bind] in Hb; try discriminate.
           injection Hb' as <-. injection Hb as <-. rewrite !app_length.
           destruct (IH c (Hk eq_refl) _ _ _ _ Ea' Ea) as (A1 & A2). destruct (I1 _ _ eq_refl eq_refl) as (B1 & B2).
           split; [lia|]. intros (c0 & cn0 & j & [<-|Hc0] & Hcn0 & Hp0 & Hpr & Hf).
           ++ assert ((List.length a' < List.length a)%nat) by (apply A2; eauto). lia.
           ++ assert ((List.length r' < List.length r0)%nat) by (apply B2; exists c0, cn0, j; auto). lia.
        -- destruct (SH fl w' ff c (S indent) false) as [a'| |] eqn:Ea'; cbn [bind] in Hb'; try discriminate.
           destruct (heap_subs T tab_el tab_at tab_en float_fmt fl w' ff indent l') as [r'| |] eqn:Er'; cbn [bind] in Hb'; try discriminate.
           destruct (SH fl w ff c (S indent) false) as [a| |] eqn:Ea; cbn [bind] in Hb; try discriminate.
           destruct (heap_subs T tab_el tab_at tab_en float_fmt fl w ff indent l) as [r0| |] eqn:Er; cbn [bind] in Hb; try discriminate.
           injection Hb' as <-. injection Hb as <-. rewrite !app_length.
           destruct (IH c (Hk eq_refl) _ _ _ _ Ea' Ea) as (A1 & A2). destruct (I2 _ _ eq_refl eq_refl) as (B1 & B2).
           split; [lia|]. intros (c0 & cn0 & j & [<-|Hc0] & Hcn0 & Hp0 & Hpr & Hf).
           ++ assert ((List.length a' < List.length a)%nat) by (apply A2; eauto). lia.
           ++ assert ((List.length r' < List.length r0)%nat) by (apply B2; exists c0, cn0, j; auto). lia.
      * split; intros b b' Hb' Hb.
        -- destruct (I1 _ _ Hb' Hb) as (B1 & B2). split; auto.
           intros (c0 & cn0 & j & [<-|Hc0] & Hcn0 & Hp0 & Hpr & Hf); [congruence|]. apply B2. exists c0, cn0, j. auto.
        -- destruct (I2 _ _ Hb' Hb) as (B1 & B2). split; auto.
           intros (c0 & cn0 & j & [<-|Hc0] & Hcn0 & Hp0 & Hpr & Hf); [congruence|]. apply B2. exists c0, cn0, j. auto.
    + destruct (IHl ND H1 H2) as (I1 & I2).
      fold (heap_items T tab_el tab_at tab_en float_fmt fl w' ff indent) (heap_items T tab_el tab_at tab_en float_fmt fl w ff indent)
           (heap_subs T tab_el tab_at tab_en float_fmt fl w' ff indent) (heap_subs T tab_el tab_at tab_en float_fmt fl w ff indent).
      split; intros b b' Hb' Hb; [|apply I2; auto].
      destruct (ser_cd tab_en float_fmt d) as [a| |]; cbn [bind] in Hb', Hb; try discriminate.
      destruct (heap_items T tab_el tab_at tab_en float_fmt fl w' ff indent l') as [r'| |] eqn:Er'; cbn [bind] in Hb'; try discriminate.
      destruct (heap_items T tab_el tab_at tab_en float_fmt fl w ff indent l) as [r0| |] eqn:Er; cbn [bind] in Hb; try discriminate.
      injection Hb' as <-. injection Hb as <-. rewrite !app_length. destruct (I1 _ _ eq_refl eq_refl) as (B1 & B2).
      split; [lia|]. intros Hs. assert ((List.length r' < List.length r0)%nat) by (apply B2; exact Hs). lia.
  - cbn [heap_items heap_subs elems flat_map app] in *. apply NoDup_cons_iff in ND as (Hc & ND).
    assert (~ In c (elems l')) as Hnc by (intros Hi; apply Hc; eapply thin_incl; eauto).
    destruct (H1 c (or_introl eq_refl) Hnc) as (cn & Hcn & Hp). rewrite Hcn, Hp.
    fold (heap_items T tab_el tab_at tab_en float_fmt fl w ff indent) (heap_subs T tab_el tab_at tab_en float_fmt fl w ff indent).
    apply IHl; auto. intros c0 Hc0 Hn0. apply H1; auto. right. auto.
Qed.

Theorem ser_heap_len :
  (forall n, recurses T n -> R n) -> CharsLeaf T w ->
  forall fuel i, K i -> LenOK fuel i.
Proof.
  intros HR CL. induction fuel as [|fl IH]; intros i Hi indent inline s s' Hs' Hs; [discriminate|].
  unfold SH in Hs', Hs. rewrite ser_heap_unfold in Hs', Hs.
  destruct (HK i Hi) as (n & n' & Hn & Hn' & Nm & Ty & At & Cm & Th & ND & H1 & H2).
  rewrite Hn' in Hs'. rewrite Hn in Hs. rewrite Nm, Cm, At, Ty in Hs'.
  destruct (unwrap _ (to_str tab_el (n_name n))) as [nm| |]; cbn [bind] in Hs', Hs; try discriminate.
  set (pre := Serializer.comment_part (n_comment n) indent inline ++ (if inline then [] else Serializer.newline_indent indent)) in *.
  assert (forall j, Proj T w ff i j -> Flip j -> j = i \/
            exists c cn, In c (kids n) /\ recurses T n /\ w_nodes w c = Some cn /\ passes ff cn = true /\ Proj T w ff c j) as Head.
  { intros j Hp _. destruct (proj_head i j Hp) as [->|(n0 & c & cn & Hn0 & Hr0 & Hc & Hcn & Hpass & Hpr)]; auto.
    right. assert (n0 = n) by congruence. subst n0. exists c, cn. auto. }
  destruct (n_content n) as [|first rest] eqn:Ec.
  { apply thin_nil_r in Th. rewrite Th in Hs'. rewrite Hs in Hs'. injection Hs' as <-. split; auto.
    intros (j & Hp & Hf). exfalso. destruct (Head j Hp Hf) as [->|(c & cn & Hc & _)].
    - destruct Hf as (n0 & n0' & Hn0 & _ & Hne & _). assert (n0 = n) by congruence. subst n0. congruence.
    - unfold kids in Hc. rewrite Ec in Hc. destruct Hc. }
  destruct (ser_ats tab_at tab_en float_fmt (n_attrs n)) as [ats| |]; cbn [bind] in Hs', Hs; try discriminate.
  destruct (content_mode T (n_type n)) as [mode| |] eqn:Em; cbn [bind] in Hs.
  2:{ discriminate. } 2:{ discriminate. }
  destruct (n_content n') as [|first' rest'] eqn:Ec'.
  { (* i itself lost its whole content *)
    injection Hs' as <-.
    assert (Nat.lt (List.length (pre ++ [60] ++ nm ++ ats ++ [47; 62])) (List.length s)) as Hlt.
    { unfold Nat.lt. cbv zeta in Hs. clearbody pre. destruct (mode =? MCharacters).
      - destruct (match first with CData d => ser_cd tab_en float_fmt d | CElem _ => Val [] end) as [body| |]; cbn [bind] in Hs; try discriminate.
        injection Hs as <-. repeat (first [rewrite app_length | progress cbn [List.length app]]). lia.
      - destruct (mode =? MMixed).
        + destruct (heap_items T tab_el tab_at tab_en float_fmt fl w ff indent (first :: rest)) as [body| |]; cbn [bind] in Hs; try discriminate.
          injection Hs as <-. repeat (first [rewrite app_length | progress cbn [List.length app]]). lia.
        + destruct (heap_subs T tab_el tab_at tab_en float_fmt fl w ff indent (first :: rest)) as [body| |]; cbn [bind] in Hs; try discriminate.
          injection Hs as <-. repeat (first [rewrite app_length | progress cbn [List.length app]]). lia. }
    split; [apply Nat.lt_le_incl; exact Hlt|]. intros _. exact Hlt. }
  cbn [bind] in Hs'.
  destruct (mode =? MCharacters) eqn:Ech.
  { pose proof (CL i n mode Hn Em Ech) as Hk0. unfold kids in Hk0. rewrite Ec in Hk0.
    pose proof (thin_no_elems _ _ Th Hk0) as E. injection E as -> ->. rewrite Hs in Hs'. injection Hs' as <-. split; auto.
    intros (j & Hp & Hf). exfalso. destruct (Head j Hp Hf) as [->|(c & cn & Hc & _)].
    - destruct Hf as (n0 & n0' & Hn0 & Hn0' & _ & He). assert (n0' = n') by congruence. subst n0'. congruence.
    - unfold kids in Hc. rewrite Ec, Hk0 in Hc. destruct Hc. }
  assert (R n) as HRn by (apply HR; exists mode; auto).
  destruct (heap_loops_len fl IH indent _ _ Th) as (I1 & I2).
  { unfold kids in ND. rewrite Ec in ND. exact ND. }
  { unfold kids in H1. rewrite Ec, Ec' in H1. exact H1. }
  { intros c Hc. unfold kids in H2. rewrite Ec' in H2. destruct (H2 c Hc) as (cn & cn' & A & B & Cc & D).
    exists cn, cn'. repeat split; auto. }
  assert (forall j, Proj T w ff i j -> Flip j ->
            exists c cn j0, In c (elems (first' :: rest')) /\ w_nodes w c = Some cn /\ passes ff cn = true /\ Proj T w ff c j0 /\ Flip j0) as Strict.
  { intros j Hp Hf. destruct (Head j Hp Hf) as [->|(c & cn & Hc & _ & Hcn & Hpass & Hpr)].
    - exfalso. destruct Hf as (n0 & n0' & Hn0 & Hn0' & _ & He). assert (n0' = n') by congruence. subst n0'. congruence.
    - exists c, cn, j. repeat split; auto.
      destruct (in_dec N.eq_dec c (kids n')) as [Hci|Hni]; [unfold kids in Hci; rewrite Ec' in Hci; exact Hci|].
      exfalso. destruct (H1 c Hc Hni) as (cn0 & Hcn0 & Hp0). congruence. }
  destruct (mode =? MMixed).
  - destruct (heap_items T tab_el tab_at tab_en float_fmt fl w' ff indent (first' :: rest')) as [b'| |] eqn:Eb'; cbn [bind] in Hs'; try discriminate.
    destruct (heap_items T tab_el tab_at tab_en float_fmt fl w ff indent (first :: rest)) as [b| |] eqn:Eb; cbn [bind] in Hs; try discriminate.
    injection Hs' as <-. injection Hs as <-. destruct (I1 b b' eq_refl eq_refl) as (B1 & B2). clearbody pre. repeat (first [rewrite app_length | progress cbn [List.length app]]). split; [lia|].
    intros (j & Hp & Hf). assert ((List.length b' < List.length b)%nat) by (apply B2; eapply Strict; eauto). lia.
  - destruct (heap_subs T tab_el tab_at tab_en float_fmt fl w' ff indent (first' :: rest')) as [b'| |] eqn:Eb'; cbn [bind] in Hs'; try discriminate.
    destruct (heap_subs T tab_el tab_at tab_en float_fmt fl w ff indent (first :: rest)) as [b| |] eqn:Eb; cbn [bind] in Hs; try discriminate.
    injection Hs' as <-. injection Hs as <-. destruct (I2 b b' eq_refl eq_refl) as (B1 & B2). clearbody pre. repeat (first [rewrite app_length | progress cbn [List.length app]]). split; [lia|].
    intros (j & Hp & Hf). assert ((List.length b' < List.length b)%nat) by (apply B2; eapply Strict; eauto). lia.
Qed.

End Sim.

(* ====================================================================== remove_file and the other files *)
Lemma passes_attributed w i c cn g s : w_nodes w c = Some cn -> n_parent cn = PElem i -> Eff w i s -> In g s ->
  passes (Some g) cn = true -> Attributed w c g.
Proof.
  intros Hcn Hp He Hg Hpass. unfold passes in Hpass. destruct (n_files cn) as [|h l] eqn:Ef.
  - exists s. split; auto. eapply Eff_up; eauto.
  - cbn [is_empty orb] in Hpass. apply set_mem_in in Hpass. exists (n_files cn). split; [|rewrite Ef; exact Hpass].
    constructor; auto. rewrite Ef. discriminate.
Qed.

Section RemoveOther.
Variable T : tables.

Section Fixed.
Variables (m f : N) (w : world) (r : out unit) (w' : world) (x : model).
Hypothesis TI : TreeInv w.
Hypothesis FI : FilesInv T w.
Hypothesis HK : Known_root_last w (OpRemoveFile m f) = false.
Hypothesis HU : Unowned w (OpRemoveFile m f) = false.
Hypothesis HL : last_file w (OpRemoveFile m f) = false.
Hypothesis NS : NoShortLocal T w x.
Hypothesis Hrun : m_remove_file T m f w = Val (r, w').
Hypothesis Hmx : model_b w m = Some x.
Hypothesis Hin : In f (m_files x).
Variable g : N.
Hypothesis Hgf : g <> f.

Lemma remove_file_node_sim i : Reach w (m_root x) i -> Attributed w i g ->
  exists n n', w_nodes w i = Some n /\ w_nodes w' i = Some n' /\
    n_name n' = n_name n /\ n_type n' = n_type n /\ n_attrs n' = n_attrs n /\ n_comment n' = n_comment n /\
    thin (n_content n') (n_content n) /\ NoDup (kids n) /\
    (forall c, In c (kids n) -> ~ In c (kids n') -> exists cn, w_nodes w c = Some cn /\ passes (Some g) cn = false) /\
    (forall c, In c (kids n') -> exists cn cn', w_nodes w c = Some cn /\ w_nodes w' c = Some cn' /\
        passes (Some g) cn' = passes (Some g) cn /\
        (passes (Some g) cn = true -> Reach w (m_root x) c /\ Attributed w c g)).
Proof.
  intros Hri Hai. pose proof TI as (C & _).
  destruct (remove_file_exact_full T m f w r w' x TI FI HK HU HL NS Hrun Hmx Hin) as ((C' & _) & Rt & NR & Ex).
  assert (In x (w_models w)) as Hxin by (unfold model_b in Hmx; rewrite nth_opt_error in Hmx; eapply nth_error_In; eauto).
  assert (Reach w' (m_root x) i) as Hri' by (apply (Ex i Hri); exists g; auto).
  destruct (reach_alloc _ _ _ C Hri) as (n & Hn).
  destruct (NR i n Hri Hri' Hn) as (n' & Hn' & Nm & Pp & Ty & At & Cm & Fs & Th).
  destruct Hai as (s & Hs & Hgs).
  exists n, n'. split; auto. split; auto. split; auto. split; auto. split; auto. split; auto. split; auto.
  split; [apply (c_nodup _ C i n Hn)|].
  assert (forall c, In c (kids n) -> exists cn, w_nodes w c = Some cn /\ n_parent cn = PElem i /\ Reach w (m_root x) c) as Kid.
  { intros c Hc. assert (lists w i c) as Hl by (exists n; auto).
    destruct (c_up _ C _ _ Hl) as (cn & Hcn & Hcp). exists cn. split; auto. split; auto. eapply R_kid; eauto. }
  split.
  - intros c Hc Hnc. destruct (Kid c Hc) as (cn & Hcn & Hcp & Hrc). exists cn. split; auto.
    destruct (passes (Some g) cn) eqn:Ep; auto. exfalso.
    pose proof (passes_attributed w i c cn g s Hcn Hcp Hs Hgs Ep) as Hac.
    assert (Reach w' (m_root x) c) as Hrc' by (apply (Ex c Hrc); exists g; auto).
    destruct (NR c cn Hrc Hrc' Hcn) as (cn' & Hcn' & _ & Pc & _).
    destruct (reach_cases _ _ _ Hrc') as [E|(q & _ & Hq)].
    + subst c. destruct (root_node _ _ C Hxin) as (rn & k & Hrn & Hrp). congruence.
    + destruct (c_up _ C' _ _ Hq) as (cn'' & Hcn'' & Hcp'').
      assert (cn'' = cn') by congruence. subst cn''. assert (q = i) by congruence. subst q.
      destruct Hq as (pn' & Hpn' & Hcin). assert (pn' = n') by congruence. subst pn'. contradiction.
  - intros c Hc. assert (In c (kids n)) as Hck by (eapply thin_incl; eauto).
    destruct (Kid c Hck) as (cn & Hcn & Hcp & Hrc).
    assert (Reach w' (m_root x) c) as Hrc' by (eapply R_kid; eauto; exists n'; auto).
    destruct (NR c cn Hrc Hrc' Hcn) as (cn' & Hcn' & _ & _ & _ & _ & _ & Fc & _).
    exists cn, cn'. split; auto. split; auto. split.
    + unfold passes. rewrite Fc. destruct (n_files cn) as [|h l] eqn:Ef; [reflexivity|].
      destruct (proj1 (Ex c Hrc) Hrc') as (h0 & Hh0 & (s0 & Hs0 & Hh0s)).
      assert (s0 = n_files cn) as -> by (eapply Eff_local_inv; eauto; rewrite Ef; discriminate).
      rewrite Ef in Hh0s.
      assert (In h0 (set_remove f (h :: l))) as Hnz by (apply set_remove_in; auto).
      assert (is_empty (set_remove f (h :: l)) = false) as Hie by (destruct (set_remove f (h :: l)); [destruct Hnz|reflexivity]).
      rewrite Hie. cbn [is_empty orb].
      destruct (set_mem g (h :: l)) eqn:E1; destruct (set_mem g (set_remove f (h :: l))) eqn:E2; auto; exfalso.
      * apply set_mem_in in E1. assert (In g (set_remove f (h :: l))) as Hc2 by (apply set_remove_in; auto).
        apply set_mem_in in Hc2. congruence.
      * apply set_mem_in in E2. apply set_remove_in in E2 as (_ & E2). apply set_mem_in in E2. congruence.
    + intros Ep. split; auto. eapply passes_attributed; eauto.
Qed.

(* the projection tree of every other file is unchanged *)
Theorem remove_file_other_tree : Attributed w (m_root x) g ->
  forall fuel t, fproj fuel w (Some g) (m_root x) = Some t -> fproj fuel w' (Some g) (m_root x) = Some t.
Proof.
  intros Hroot fuel t H. pose proof TI as (C & _).
  assert (In x (w_models w)) as Hxin by (unfold model_b in Hmx; rewrite nth_opt_error in Hmx; eapply nth_error_In; eauto).
  apply (fproj_sim w w' (Some g) (fun i => Reach w (m_root x) i /\ Attributed w i g) (fun _ => True)); auto.
  - intros i (Hri & Hai). destruct (remove_file_node_sim i Hri Hai) as (n & n' & Hn & Hn' & A1 & A2 & A3 & A4 & A5 & A6 & A7 & A8).
    exists n, n'. split; auto. split; auto. repeat split; auto.
    intros c Hc. destruct (A8 c Hc) as (cn & cn' & B1 & B2 & B3 & B4). exists cn, cn'. repeat split; auto; apply B4; auto.
  - split; auto. constructor. destruct (root_node _ _ C Hxin) as (rn & k & Hrn & _). exists rn; auto.
Qed.

(* the simulation on the elements written for g *)
Lemma proj_node_sim : Attributed w (m_root x) g ->
  forall i, Proj T w (Some g) (m_root x) i ->
  exists n n', w_nodes w i = Some n /\ w_nodes w' i = Some n' /\
    node_sim w w' (Some g) (fun i => Proj T w (Some g) (m_root x) i) (recurses T) n n'.
Proof.
  intros Hroot i Hp. pose proof TI as (C & _).
  assert (In x (w_models w)) as Hxin by (unfold model_b in Hmx; rewrite nth_opt_error in Hmx; eapply nth_error_In; eauto).
  assert (Reach w (m_root x) i) as Hri by (eapply proj_reach; eauto).
  assert (Attributed w i g) as Hai by (eapply proj_attributed; eauto).
  destruct (remove_file_node_sim i Hri Hai) as (n & n' & Hn & Hn' & A1 & A2 & A3 & A4 & A5 & A6 & A7 & A8).
  exists n, n'. split; auto. split; auto. repeat split; auto.
  intros c Hc. destruct (A8 c Hc) as (cn & cn' & B1 & B2 & B3 & B4). exists cn, cn'. repeat split; auto.
  intros Ep Hrec. eapply Proj_kid; eauto. eapply thin_incl; eauto.
Qed.

(* ... and so is its text, as long as no written element of g loses its whole content *)
Theorem remove_file_other_text tab_el tab_at tab_en float_fmt : Attributed w (m_root x) g ->
  CharsLeaf T w -> KeepsSome T w f g (m_root x) ->
  forall fuel indent inline,
    ser_heap T tab_el tab_at tab_en float_fmt fuel w' (Some g) (m_root x) indent inline =
    ser_heap T tab_el tab_at tab_en float_fmt fuel w (Some g) (m_root x) indent inline.
Proof.
  intros Hroot CL KS fuel indent inline. pose proof TI as (C & _).
  assert (In x (w_models w)) as Hxin by (unfold model_b in Hmx; rewrite nth_opt_error in Hmx; eapply nth_error_In; eauto).
  destruct (remove_file_exact_full T m f w r w' x TI FI HK HU HL NS Hrun Hmx Hin) as ((C' & _) & Rt & NR & Ex).
  assert (forall i, Proj T w (Some g) (m_root x) i -> Reach w (m_root x) i /\ Attributed w i g) as PK.
  { intros i Hp. split; [eapply proj_reach; eauto | eapply proj_attributed; eauto]. }
  apply (ser_heap_sim T tab_el tab_at tab_en float_fmt w w' (Some g) (fun i => Proj T w (Some g) (m_root x) i) (recurses T)); auto.
  - intros i Hp. apply proj_node_sim; auto.
  - intros i n n' Hp Hn Hn' Hne Hc'. destruct (PK i Hp) as (Hri & Hai).
    destruct (KS i n Hp Hn Hne) as (it & Hit & Hkeep).
    assert (Reach w' (m_root x) i) as Hri' by (apply (Ex i Hri); exists g; auto).
    destruct (NR i n Hri Hri' Hn) as (n'' & Hn'' & _ & _ & _ & _ & _ & _ & Th). assert (n'' = n') by congruence. subst n''.
    destruct it as [c|d].
    + destruct Hkeep as (h & Hh & Hac).
      assert (lists w i c) as Hl by (exists n; split; auto; apply in_elems; exact Hit).
      destruct (c_up _ C _ _ Hl) as (cn & Hcn & Hcp).
      assert (Reach w (m_root x) c) as Hrc by (eapply R_kid; eauto).
      assert (Reach w' (m_root x) c) as Hrc' by (apply (Ex c Hrc); exists h; auto).
      destruct (NR c cn Hrc Hrc' Hcn) as (cn' & Hcn' & _ & Pc & _).
      destruct (reach_cases _ _ _ Hrc') as [E|(q & _ & Hq)].
      * subst c. destruct (root_node _ _ C Hxin) as (rn & k & Hrn & Hrp). congruence.
      * destruct (c_up _ C' _ _ Hq) as (cn'' & Hcn'' & Hcp'').
        assert (cn'' = cn') by congruence. subst cn''. assert (q = i) by congruence. subst q.
        destruct Hq as (pn' & Hpn' & Hcin). assert (pn' = n') by congruence. subst pn'.
        unfold kids in Hcin. rewrite Hc' in Hcin. destruct Hcin.
    + pose proof (thin_data _ _ d Th Hit) as Hd. rewrite Hc' in Hd. destruct Hd.
  - constructor. destruct (root_node _ _ C Hxin) as (rn & k & Hrn & _). exists rn; auto.
Qed.

(* ... and ONLY then: when a written element of g loses its whole content the text gets strictly shorter *)
Theorem remove_file_other_text_differs tab_el tab_at tab_en float_fmt : Attributed w (m_root x) g -> CharsLeaf T w ->
  (exists i n, Proj T w (Some g) (m_root x) i /\ w_nodes w i = Some n /\ LosesAll w f n) ->
  forall fuel indent inline s s',
    ser_heap T tab_el tab_at tab_en float_fmt fuel w' (Some g) (m_root x) indent inline = Val s' ->
    ser_heap T tab_el tab_at tab_en float_fmt fuel w (Some g) (m_root x) indent inline = Val s ->
    (List.length s' < List.length s)%nat /\ s' <> s.
Proof.
  intros Hroot CL (i & n & Hp & Hn & Hne & Hall) fuel indent inline s s' Hs' Hs. pose proof TI as (C & _).
  assert (In x (w_models w)) as Hxin by (unfold model_b in Hmx; rewrite nth_opt_error in Hmx; eapply nth_error_In; eauto).
  destruct (remove_file_exact_full T m f w r w' x TI FI HK HU HL NS Hrun Hmx Hin) as ((C' & _) & Rt & NR & Ex).
  assert (Proj T w (Some g) (m_root x) (m_root x)) as Hp0.
  { constructor. destruct (root_node _ _ C Hxin) as (rn & k & Hrn & _). exists rn; auto. }
  destruct (ser_heap_len T tab_el tab_at tab_en float_fmt w w' (Some g) (fun i => Proj T w (Some g) (m_root x) i) (recurses T)
              (fun i Hi => proj_node_sim Hroot i Hi) (fun n0 H0 => H0) CL fuel (m_root x) Hp0 indent inline s s' Hs' Hs) as (_ & Hlt).
  assert ((List.length s' < List.length s)%nat) as L.
  { apply Hlt. exists i. split; auto.
    assert (Reach w (m_root x) i) as Hri by (eapply proj_reach; eauto).
    assert (Attributed w i g) as Hai by (eapply proj_attributed; eauto).
    assert (Reach w' (m_root x) i) as Hri' by (apply (Ex i Hri); exists g; auto).
    destruct (NR i n Hri Hri' Hn) as (n' & Hn' & _ & _ & _ & _ & _ & _ & Th).
    exists n, n'. repeat split; auto.
    destruct (n_content n') as [|it rest] eqn:Ec'; auto. exfalso.
    assert (In it (n_content n)) as Hit by (eapply thin_items; eauto; left; reflexivity).
    destruct (Hall it Hit) as (c & -> & Hno). apply Hno.
    assert (lists w' i c) as Hl' by (exists n'; split; auto; unfold kids; rewrite Ec'; cbn; left; reflexivity).
    assert (Reach w' (m_root x) c) as Hrc' by (eapply R_kid; eauto).
    assert (Reach w (m_root x) c) as Hrc by (eapply R_kid; eauto; exists n; split; auto; apply in_elems; exact Hit).
    apply (Ex c Hrc). exact Hrc'. }
  split; auto. intros ->. lia.
Qed.

End Fixed.
End RemoveOther.
