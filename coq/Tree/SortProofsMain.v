(* Tree/SortProofsMain.v — the C14 statements assembled (Properties/C14.v only restates them):
   sort with ANY stable sort gives the same world (so the concrete insertion sort of Tree/Sort.v is no restriction),
   frame / totality at the level of Element::sort and AutosarModel::sort, the index maps and lookups are untouched,
   the comparator handed to sort_by is a total preorder on the siblings, Equal = identical except comments. *)
From Coq Require Import Permutation Lia.
From AV Require Import Base.Bytes Base.Outcome Base.Radix Hash.HashModel Tree.Heap Tree.Ops Tree.Script Tree.Sort Tree.SortTiny
  Tree.SortProofsOrder Tree.SortProofsCmp Tree.SortProofsHeap Tree.SortProofsV0.
Open Scope list_scope.
Open Scope N_scope.

Section Main.
Variable T : tables.
Variable tab_el tab_at tab_en : nametab.
Variable name_index name_definition_ref : N.

Notation cmp_p' := (cmp_p T tab_el tab_at tab_en name_index name_definition_ref policy_cur).
Notation cmp_tot := (cmp_total T tab_el tab_at tab_en name_index name_definition_ref).
Notation sort_f' := (sort_f T tab_el tab_at tab_en name_index name_definition_ref).
Notation e_sort_with' := (e_sort_with T tab_el tab_at tab_en name_index name_definition_ref).
Notation m_sort_with' := (m_sort_with T tab_el tab_at tab_en name_index name_definition_ref).
Notation all_pairs' := (all_pairs_val T tab_el tab_at tab_en name_index name_definition_ref).
Notation row' := (row_val T tab_el tab_at tab_en name_index name_definition_ref).

(* ------------------------------------------------------------------ the comparator of sort_by *)
Lemma row_val_inv w x ys : row' w x ys = Val tt -> forall y, In y ys -> exists c, cmp_p' w x y = Val c.
Proof.
  induction ys as [| y0 ys IH]; cbn [row_val]; intros H y iy; [destruct iy |].
  destruct (cmp_p' w x y0) as [c | |] eqn:E; cbn in H; try discriminate.
  destruct iy as [<- | iy]; eauto.
Qed.

Lemma all_pairs_val_inv w xs ys : all_pairs' w xs ys = Val tt ->
  forall x y, In x xs -> In y ys -> exists c, cmp_p' w x y = Val c.
Proof.
  induction xs as [| x0 xs IH]; cbn [all_pairs_val]; intros H x y ix iy; [destruct ix |].
  destruct (row' w x0 ys) as [[] | |] eqn:E; cbn in H; try discriminate.
  destruct ix as [<- | ix]; [eapply row_val_inv; eauto | eauto].
Qed.

(* (position in the specification, Element::cmp) is a total preorder on the keyed siblings whenever Element::cmp returns
   on every pair of them *)
Theorem key_cmp_total_preorder w (keyed : list (list N * id)) :
  (forall a b, In a (map snd keyed) -> In b (map snd keyed) -> exists c, cmp_p' w a b = Val c) ->
  TotalPreorderOn (key_cmp (cmp_tot w)) (fun k => In k keyed).
Proof.
  intros V.
  pose (ct := cmp_t T tab_el tab_at tab_en name_index name_definition_ref w (S (N.to_nat (w_next w)))).
  assert (G : TPO (key_cmp ct)).
  { unfold key_cmp.
    apply (TPO_then (fun x y : list N * id => lex_cmp (fst x) (fst y)) (fun x y => ct (snd x) (snd y))).
    - apply (TPO_map (fun x : list N * id => fst x)), TPO_lex.
    - apply (TPO_map (fun x : list N * id => snd x)), TPO_cmp_t. }
  assert (E : forall x y, In x keyed -> In y keyed -> key_cmp (cmp_tot w) x y = key_cmp ct x y).
  { intros x y ix iy. unfold key_cmp. f_equal. apply cmp_total_t. apply V; apply in_map; auto. }
  destruct G as [r s t]. split.
  - intros x ix. rewrite E; auto.
  - intros x y ix iy. rewrite !E; auto.
  - intros x y z ix iy iz. rewrite !E; auto. apply t.
Qed.

(* ------------------------------------------------------------------ any two stable sorts give the same world *)
Section TwoSorts.
Variable srt1 srt2 : forall A, (A -> A -> comparison) -> list A -> list A.
Hypothesis S1 : StableSort srt1.
Hypothesis S2 : StableSort srt2.

Lemma wbind_ext {A B} (m1 m2 : W A) (k1 k2 : A -> W B) w :
  m1 w = m2 w -> (forall a w1, m2 w = Val (OK a, w1) -> k1 a w1 = k2 a w1) -> wbind m1 k1 w = wbind m2 k2 w.
Proof. intros e h. unfold wbind. rewrite e. destruct (m2 w) as [[[a | e'] w1] | |]; auto. Qed.

Lemma keyed_loop_ext (rec1 rec2 : id -> W unit) ty l :
  (forall c w, rec1 c w = rec2 c w) -> forall w, keyed_loop T rec1 ty l w = keyed_loop T rec2 ty l w.
Proof.
  intros E. induction l as [| [c | d] l IH]; intros w; cbn [keyed_loop]; auto.
  apply wbind_ext; [apply E | intros u w1 _].
  apply wbind_ext; [reflexivity | intros cn w2 _].
  apply wbind_ext; [reflexivity | intros fs w3 _].
  destruct fs as [[et idx] |]; auto.
  apply wbind_ext; [apply IH | auto].
Qed.

Lemma iter_loop_ext (rec1 rec2 : id -> W unit) l :
  (forall c w, rec1 c w = rec2 c w) -> forall w, iter_loop rec1 l w = iter_loop rec2 l w.
Proof.
  intros E. induction l as [| [c | d] l IH]; intros w; cbn [iter_loop]; auto.
  apply wbind_ext; [apply E | intros; apply IH].
Qed.

Lemma sort_f_ext f : forall i w, sort_f' srt1 f i w = sort_f' srt2 f i w.
Proof.
  induction f as [| f IH]; intros i w; auto.
  cbn [sort_f].
  apply wbind_ext; [reflexivity | intros n w1 _].
  apply wbind_ext; [reflexivity | intros mode w2 _].
  destruct ((mode =? MCharacters) || (mode =? MMixed)); auto.
  apply wbind_ext; [reflexivity | intros ordered w3 _].
  destruct (negb ordered && (1 <? N.of_nat (List.length (n_content n)))); [| apply iter_loop_ext; exact IH].
  apply wbind_ext; [apply keyed_loop_ext; exact IH | intros keyed w4 _].
  apply wbind_ext; [reflexivity | intros wc w5 _].
  apply wbind_ext; [reflexivity | intros u w6 AP].
  unfold wl, wlift in AP.
  destruct (all_pairs' wc (map snd keyed) (map snd keyed)) as [[] | |] eqn:AP'; try discriminate.
  rewrite (stable_sorts_agree srt1 srt2 (key_cmp (cmp_tot wc)) keyed S1 S2); auto.
  apply key_cmp_total_preorder. intros a b ia ib. eapply all_pairs_val_inv; eauto.
Qed.

Theorem sort_any_stable_sort i w : e_sort_with' srt1 i w = e_sort_with' srt2 i w.
Proof. unfold e_sort_with, wbind, wget. apply sort_f_ext. Qed.
End TwoSorts.

(* ------------------------------------------------------------------ frame and totality of Element::sort / AutosarModel::sort *)
Section OneSort.
Variable srt : forall A, (A -> A -> comparison) -> list A -> list A.
Hypothesis SS : StableSort srt.

Lemma srt_perm A (c : A -> A -> comparison) l : Permutation l (srt A c l).
Proof. apply SS. Qed.

Theorem e_sort_frame i w r w' :
  e_sort_with' srt i w = Val (r, w') -> r = OK tt /\ world_rel T w w'.
Proof. unfold e_sort_with, wbind, wget. apply (sort_frame T tab_el tab_at tab_en name_index name_definition_ref srt srt_perm). Qed.

Theorem m_sort_frame m w r w' :
  m_sort_with' srt m w = Val (r, w') -> r = OK tt /\ world_rel T w w'.
Proof.
  unfold m_sort_with, wbind at 1, get_model. destruct (nth_opt (w_models w) (N.to_nat m)); [| discriminate].
  apply e_sort_frame.
Qed.

Theorem e_sort_total rk i w :
  SortReady T tab_el tab_at tab_en w rk -> rank_bounded w rk -> (exists n, w_nodes w i = Some n) ->
  exists w', e_sort_with' srt i w = Val (OK tt, w').
Proof.
  intros R B A. unfold e_sort_with, wbind, wget.
  apply (sort_total T tab_el tab_at tab_en name_index name_definition_ref srt srt_perm rk (fuel_of w) i w R B); auto.
  unfold fuel_of. pose proof (B i). lia.
Qed.
End OneSort.

(* what the lookups read is untouched *)
Theorem lookups_intact w w' : world_rel T w w' ->
  (forall m p r w1, get_element_by_path m p w = Val (r, w1) -> get_element_by_path m p w' = Val (r, w')) /\
  (forall m p r w1, q_refs_to m p w = Val (r, w1) -> q_refs_to m p w' = Val (r, w')).
Proof.
  intros (_ & _ & M & _). split; intros m p r w1; unfold get_element_by_path, q_refs_to, wbind, get_model; rewrite M;
    destruct (nth_opt (w_models w) (N.to_nat m)); try discriminate; unfold wret; intros [= <- _]; reflexivity.
Qed.

(* Element::cmp, as a total preorder and with Equal = same tree, in terms of elem_cmp *)
Theorem elem_cmp_pure a b w r w' : elem_cmp T tab_el tab_at tab_en name_index name_definition_ref a b w = Val (r, w') ->
  w' = w /\ exists c, r = OK c /\ cmp_p' w a b = Val c.
Proof. unfold elem_cmp, wpure. destruct (cmp_p' w a b); try discriminate. intros [= <- <-]. eauto. Qed.

End Main.

(* ------------------------------------------------------------------ the list-level statement in one piece *)
Theorem sort_unique_bundle : forall srt1 srt2 (A : Type) (c : A -> A -> comparison) (l l' : list A),
  StableSort srt1 -> StableSort srt2 -> TotalPreorderOn c (fun x => In x l) -> Permutation l l' ->
  srt1 A c l = srt2 A c l /\
  srt1 A c (srt1 A c l) = srt1 A c l /\
  Forall2 (fun x y => c x y = Eq) (srt1 A c l) (srt2 A c l') /\
  ((forall x y, In x l -> In y l -> c x y = Eq -> x = y) -> srt1 A c l = srt2 A c l').
Proof.
  intros srt1 srt2 A c l l' S1 S2 H P.
  exact (conj (stable_sorts_agree srt1 srt2 c l S1 S2 H)
        (conj (ss_idempotent srt1 S1 c l H)
        (conj (sort_order_independent srt1 srt2 c l l' S1 S2 H P)
              (sort_order_independent_strict srt1 srt2 c l l' S1 S2 H P)))).
Qed.

(* ------------------------------------------------------------------ non-vacuity: a ready heap *)
Import SortTiny.
Definition tiny_rank (i : id) : nat := match i with 0 => 2%nat | 1 | 3 | 5 => 1%nat | _ => 0%nat end.

Lemma tiny_ready : SortReady tiny tiny_el tiny_at tiny_en (packages "a2" "a10" "a1b") tiny_rank /\
                   rank_bounded (packages "a2" "a10" "a1b") tiny_rank.
Proof.
  split.
  - intros i n Wi.
    assert (C : i = 0 \/ i = 1 \/ i = 2 \/ i = 3 \/ i = 4 \/ i = 5 \/ i = 6).
    { assert (L := Wi). unfold packages, world_of in L. cbn [w_nodes] in L. apply nth_opt_Some in L. cbn in L. lia. }
    destruct C as [-> | [-> | [-> | [-> | [-> | [-> | ->]]]]]]; injection Wi as <-;
      (split;
       [ intros c ic; cbn in ic;
         repeat (destruct ic as [ic | ic];
                 [first [discriminate ic
                        | injection ic as <-; eexists; split; [reflexivity |]; split; [cbn; lia |];
                          eexists; eexists; vm_compute; reflexivity] |]); destruct ic
       | eexists; vm_compute; reflexivity | eexists; vm_compute; reflexivity | eexists; vm_compute; reflexivity
       | vm_compute; discriminate
       | intros d id; cbn in id; repeat (destruct id as [id | id]; [try discriminate id; injection id as <-; exact I |]); destruct id
       | intros a ia; destruct ia ]).
  - intros i. assert (H : (tiny_rank i <= 2)%nat); [| cbn; lia].
    unfold tiny_rank. destruct i as [| p]; [lia |].
    destruct p as [p | p |]; try lia; destruct p as [p | p |]; try lia; destruct p; lia.
Qed.
