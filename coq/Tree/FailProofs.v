(* Tree/FailProofs.v — C11: the theorem over the whole operation alphabet of Script.v.
     C11_fail_exact          a failing call outside the Known11 classes that is not a copy leaves the world IDENTICAL
     C11_fail_no_effect      a failing call outside the Known11 classes leaves every allocated node, the files and the
                             models identical; only fresh (unreachable) ids may have been allocated (copy)
     C11_known_characterised what a failing call inside a Known11 class looks like
     garbage_unreachable     ids allocated by a failed call cannot be reached from any root or any old node *)
From Coq Require Import Lia.
From AV Require Import Base.Bytes Base.Outcome Hash.HashModel Tree.Heap Tree.Ops Tree.Script
  Tree.FailProofsBase Tree.FailProofsOps Tree.Fail Tree.Observe Tree.FailProofsLate Tree.FailProofsCopy
  Tree.FailProofsMove.
Open Scope string_scope.
Open Scope list_scope.
Open Scope N_scope.

Lemma pref_eqb_eq a b : pref_eqb a b = true <-> a = b.
Proof.
  destruct a, b; cbn; split; intros H; try discriminate; try reflexivity.
  - apply N.eqb_eq in H. congruence.
  - injection H as ->. apply N.eqb_refl.
  - apply N.eqb_eq in H. congruence.
  - injection H as ->. apply N.eqb_refl.
Qed.
Lemma opref_eqb_eq a b : opref_eqb a b = true <-> a = b.
Proof.
  destruct a as [a|], b as [b|]; cbn; split; intros H; try discriminate; try reflexivity.
  - apply pref_eqb_eq in H. congruence.
  - injection H as ->. apply pref_eqb_eq. reflexivity.
Qed.

Section C11.
Variable T : tables.
Variable tab_el tab_en : nametab.
Variable check_fn : N -> list N -> res bool.
Variable LATEST : N.
Variable root_attrs : list (N * cdata).

Notation run := (run_op T tab_el tab_en check_fn LATEST root_attrs).
Notation known := (Known11 T tab_el tab_en check_fn LATEST root_attrs).

Lemma welem_er (m : W id) w e w' : welem m w = Val (ER e, w') -> m w = Val (ER e, w').
Proof.
  unfold welem. intros H. apply wbind_inv in H as [(a & w1 & H1 & H2) | (e' & H1 & [= ->])]; [discriminate H2|exact H1].
Qed.
Lemma wunit_er (m : W unit) w e w' : wunit m w = Val (ER e, w') -> m w = Val (ER e, w').
Proof.
  unfold wunit. intros H. apply wbind_inv in H as [(a & w1 & H1 & H2) | (e' & H1 & [= ->])]; [discriminate H2|exact H1].
Qed.
Lemma wval_er {A} (m : W A) (f : A -> value) w e w' :
  (do b <- m; wret (f b))%W w = Val (ER e, w') -> m w = Val (ER e, w').
Proof.
  intros H. apply wbind_inv in H as [(a & w1 & H1 & H2) | (e' & H1 & [= ->])]; [discriminate H2|exact H1].
Qed.

(* a failing move: unchanged, or in one of the two move classes *)
Lemma move_known o mv w e w' :
  (o = OpMove (match o with OpMove h _ => h | _ => 0 end) mv \/
   o = OpMoveAt (match o with OpMoveAt h _ _ => h | _ => 0 end) mv (match o with OpMoveAt _ _ p => p | _ => 0 end)) ->
  run o w = Val (ER e, w') ->
  late_err e /\ parent_link w' mv <> parent_link w mv -> known w o = true.
Proof.
  intros Ho H (He & Hp).
  assert (Hneq : negb (opref_eqb (parent_link w' mv) (parent_link w mv)) = true).
  { destruct (opref_eqb _ _) eqn:Eq; [apply opref_eqb_eq in Eq; contradiction|reflexivity]. }
  unfold Known11, K11_move_noname, K11_move_refwrite, move_late, run11.
  destruct Ho as [Ho|Ho]; rewrite Ho in *; rewrite H; destruct He as [-> | ->]; rewrite Hneq; reflexivity.
Qed.

Theorem C11_fail_cases :
  tables_ok11 T -> forall w o e w',
  Inv11 w -> known w o = false -> run o w = Val (ER e, w') ->
  if is_copy o then obs_eq_upto_garbage w w' else w' = w.
Proof.
  intros HT w o e w' (Hns & Hab) HK H. pose proof H as H0.
  destruct o; cbn [run_op] in H; cbn [is_copy].
  - apply welem_er in H. eapply nf_e_create_sub_element; eauto.
  - apply welem_er in H. eapply nf_e_create_sub_element_at; eauto.
  - apply welem_er in H. eapply nfP_e_create_named; eauto.
  - apply welem_er in H. eapply nfP_e_create_named_at; eauto.
  - apply welem_er in H. eapply gnf_e_create_copied; eauto.
  - apply welem_er in H. eapply gnf_e_create_copied_at; eauto.
  - apply welem_er in H. apply e_move_here_fail in H as [->|Hl]; [reflexivity|].
    rewrite (move_known (OpMove h mv) mv w e w') in HK; [discriminate HK|left; reflexivity|exact H0|exact Hl].
  - apply welem_er in H. apply e_move_here_at_fail in H as [->|Hl]; [reflexivity|].
    rewrite (move_known (OpMoveAt h mv pos) mv w e w') in HK; [discriminate HK|right; reflexivity|exact H0|exact Hl].
  - apply wunit_er in H. eapply nf_e_remove_sub_element; eauto.
  - apply wunit_er in H. eapply nf_e_remove_sub_element_kind; eauto.
  - apply wunit_er in H. eapply nf_e_set_item_name; eauto.
  - apply wunit_er in H. eapply e_set_character_data_nf; eauto.
  - apply wunit_er in H. eapply nf_e_remove_character_data; eauto.
  - apply wunit_er in H. eapply nf_e_insert_character_content_item; eauto.
  - apply wunit_er in H. eapply nf_e_remove_character_content_item; eauto.
  - apply wunit_er in H. apply e_set_reference_target_fail in H as [->| ->]; [reflexivity|].
    unfold Known11, K11_setref, run11 in HK. rewrite H0 in HK.
    rewrite !Bool.orb_true_r in HK. discriminate HK.
  - apply wunit_er in H. eapply nf_e_set_attribute; eauto.
  - apply wval_er in H. exfalso. eapply nofail_e_remove_attribute; eauto.
  - apply wunit_er in H. exfalso. eapply nofail_e_set_comment; eauto.
  - apply welem_er in H. eapply nf_e_get_or_create_sub_element; eauto.
  - apply welem_er in H. eapply nfP_e_get_or_create_named; eauto.
  - apply wval_er in H. exfalso. eapply nofail_new_model; eauto.
  - apply wval_er in H. eapply nf_m_create_file; eauto.
  - apply wunit_er in H. exfalso. eapply nofail_m_remove_file; eauto.
  - apply wunit_er in H. eapply e_add_to_file_nf; eauto.
  - apply wunit_er in H. eapply nf_e_remove_from_file; eauto.
Qed.

(* the two readings of the case theorem *)
Theorem C11_fail_no_effect :
  tables_ok11 T -> forall w o e w',
  Inv11 w -> known w o = false -> run o w = Val (ER e, w') -> obs_eq_upto_garbage w w'.
Proof.
  intros HT w o e w' HI HK H. pose proof (C11_fail_cases HT w o e w' HI HK H) as HC.
  destruct (is_copy o); [exact HC|]. subst w'. repeat split; auto. apply N.le_refl.
Qed.

Theorem C11_fail_exact :
  tables_ok11 T -> forall w o e w',
  Inv11 w -> known w o = false -> is_copy o = false -> run o w = Val (ER e, w') -> w' = w /\ obs_eq w w'.
Proof.
  intros HT w o e w' HI HK Hc H. pose proof (C11_fail_cases HT w o e w' HI HK H) as HC.
  rewrite Hc in HC. subst w'. split; reflexivity.
Qed.

(* what a failing call in a Known11 class is: a move that failed with one of two errors after the moved element
   was re-parented, or a set_reference_target whose final text write was rejected *)
Theorem C11_known_characterised w o :
  known w o = true ->
  exists e w', run o w = Val (ER e, w') /\
    ((exists h mv, (o = OpMove h mv \/ exists pos, o = OpMoveAt h mv pos) /\
                   (e = ElementNotIdentifiable \/ e = IncorrectContentType) /\
                   parent_link w' mv <> parent_link w mv)
     \/ (exists h t, o = OpSetRefTarget h t /\ e = IncorrectContentType)).
Proof.
  unfold Known11, K11_move_noname, K11_move_refwrite, K11_setref, move_late, run11. intros HK.
  destruct o; cbn [orb] in HK; try discriminate HK.
  - destruct (run (OpMove h mv) w) as [[[v|e] w']|s|] eqn:E; try discriminate HK.
    exists e, w'. split; [reflexivity|]. left. exists h, mv. split; [left; reflexivity|].
    destruct (opref_eqb (parent_link w' mv) (parent_link w mv)) eqn:Eq;
      [destruct e; discriminate HK|].
    split; [destruct e; try discriminate HK; auto|].
    intros Hp. apply opref_eqb_eq in Hp. congruence.
  - destruct (run (OpMoveAt h mv pos) w) as [[[v|e] w']|s|] eqn:E; try discriminate HK.
    exists e, w'. split; [reflexivity|]. left. exists h, mv. split; [right; eexists; reflexivity|].
    destruct (opref_eqb (parent_link w' mv) (parent_link w mv)) eqn:Eq;
      [destruct e; discriminate HK|].
    split; [destruct e; try discriminate HK; auto|].
    intros Hp. apply opref_eqb_eq in Hp. congruence.
  - destruct (run (OpSetRefTarget h target) w) as [[[v|e] w']|s|] eqn:E; try discriminate HK.
    exists e, w'. split; [reflexivity|]. right. exists h, target. split; [reflexivity|].
    destruct e; try discriminate HK. reflexivity.
Qed.

End C11.

(* ---------- what obs_eq_upto_garbage means for a client ---------- *)
Lemma ids_below_in n i : In i (ids_below n) <-> i < n.
Proof.
  unfold ids_below. rewrite in_map_iff. split.
  - intros (k & <- & Hk). apply in_seq in Hk. lia.
  - intros H. exists (N.to_nat i). split; [apply N2Nat.id|]. apply in_seq. lia.
Qed.

(* every handle that existed still shows the same node record, files and models are the same *)
Lemma garbage_old_observation w w' :
  obs_eq_upto_garbage w w' ->
  map (w_nodes w') (ids_below (w_next w)) = o_nodes (observe w) /\
  o_files (observe w') = o_files (observe w) /\ o_models (observe w') = o_models (observe w).
Proof.
  intros (H1 & H2 & H3 & H4). cbn. repeat split; auto.
  apply map_ext_in. intros i Hi. apply H2. apply ids_below_in. exact Hi.
Qed.

(* the ids allocated by the failed call cannot be reached from any old node, in particular not from a model root *)
Lemma garbage_unreachable w w' :
  ClosedHeap w -> obs_eq_upto_garbage w w' ->
  forall a x, a < w_next w -> reach_from w' a x -> x < w_next w.
Proof.
  intros (Hc & _ & _) (H1 & H2 & _ & _) a x Ha Hr. induction Hr as [|p n c Hr IH Hp Hin]; [exact Ha|].
  rewrite H2 in Hp by exact IH. eapply Hc; eauto.
Qed.
Corollary garbage_unreachable_from_roots w w' :
  ClosedHeap w -> obs_eq_upto_garbage w w' ->
  forall m x, In m (w_models w') -> reach_from w' (m_root m) x -> x < w_next w.
Proof.
  intros HC HG m x Hm Hr. eapply garbage_unreachable; eauto.
  destruct HC as (_ & Hroots & _). destruct HG as (_ & _ & _ & HM). rewrite HM in Hm. apply Hroots. exact Hm.
Qed.
