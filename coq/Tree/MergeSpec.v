(* Tree/MergeSpec.v — specification side of property C09 (merging files), independent of the merge algorithm:
     * a MASTER is an element tree in which every element carries the set of files that contain it ([mtree]);
     * [project f] is the partial view of the master in file f, [split] the list of the views;
     * [Splittable] says that an assignment is ancestor closed and differs from the parent's set only below parents
       whose type the meta-model marks as splittable (in the version the merge works with), never for the key
       children SHORT-NAME / DEFINITION-REF;
     * [htree] / [abs] read a subtree of the heap back as a pure tree with the LOCAL file membership of every element,
       [hperm] is equality of such trees up to the order of siblings, [expected] is what the merged model must be:
       the master restricted to the loaded files with normalised membership (empty = inherited from the parent).
   Also: a tiny hand-made table set and helpers to run the post-parse stage of the model on pure trees (Examples).
   SPEC / MODEL ONLY: definitions + Examples. *)
From Coq Require Import Permutation.
From AV Require Import Base.Bytes Base.Outcome Hash.HashModel Tree.Heap Tree.Ops Tree.Script Tree.Load.
From AV Require Xml.Lexer Xml.Parser.
Open Scope string_scope.
Open Scope list_scope.
Open Scope N_scope.

(* ------------------------------------------------------------------ masters and their partial views *)
Inductive mtree :=
| MNode (name : N) (ty : N * N) (attrs : list (N * Parser.cdata)) (content : list (mtree + Parser.cdata))
        (comment : option (list N)) (files : list N).

Definition m_name (t : mtree) := match t with MNode n _ _ _ _ _ => n end.
Definition m_ty (t : mtree) := match t with MNode _ ty _ _ _ _ => ty end.
Definition m_content (t : mtree) := match t with MNode _ _ _ c _ _ => c end.
Definition m_fileset (t : mtree) := match t with MNode _ _ _ _ _ f => f end.
Definition m_kids (t : mtree) : list mtree :=
  flat_map (fun it => match it with inl c => [c] | inr _ => [] end) (m_content t).

(* the partial view of the master in file f *)
Fixpoint project (f : N) (t : mtree) {struct t} : option Parser.etree :=
  match t with
  | MNode name ty attrs content comment files =>
    if set_mem f files then
      Some (Parser.ENode name ty attrs
              ((fix go (l : list (mtree + Parser.cdata)) : list (Parser.etree + Parser.cdata) :=
                  match l with
                  | [] => []
                  | inl c :: r => match project f c with Some e => inl e :: go r | None => go r end
                  | inr d :: r => inr d :: go r
                  end) content)
              comment)
    else None
  end.

Definition split (master : mtree) (fs : list N) : list (option Parser.etree) := map (fun f => project f master) fs.

(* the restriction of the master to a set of files: elements that are in none of them disappear *)
Fixpoint restrict (fs : list N) (t : mtree) {struct t} : option mtree :=
  match t with
  | MNode name ty attrs content comment files =>
    let files' := filter (fun f => set_mem f fs) files in
    if is_empty files' then None else
      Some (MNode name ty attrs
              ((fix go (l : list (mtree + Parser.cdata)) : list (mtree + Parser.cdata) :=
                  match l with
                  | [] => []
                  | inl c :: r => match restrict fs c with Some e => inl e :: go r | None => go r end
                  | inr d :: r => inr d :: go r
                  end) content)
              comment files')
  end.

Definition subset (a b : list N) : bool := forallb (fun x => set_mem x b) a.
Definition set_eqb (a b : list N) : bool := subset a b && subset b a.

Section Spec.
Variable T : tables.
Variable name_definition_ref : N.

Definition key_child (c : mtree) : bool := (m_name c =? name_short_name T) || (m_name c =? name_definition_ref).

(* ancestor closed; children of a parent that is not splittable (in `version`) and key children are in exactly the
   files of the parent; no element is in no file *)
Inductive Splittable (version : N) : mtree -> Prop :=
| Spl name ty attrs content comment files sp :
    files <> [] ->
    splittable_in T ty version = Val sp ->
    (forall c, In (inl c) content ->
       Splittable version c /\ subset (m_fileset c) files = true /\
       (sp = false \/ key_child c = true -> set_eqb (m_fileset c) files = true)) ->
    Splittable version (MNode name ty attrs content comment files).

End Spec.

(* ------------------------------------------------------------------ reading the heap back *)
Inductive htree :=
| HNode (name : N) (ty : N * N) (attrs : list (N * cdata)) (content : list (htree + cdata))
        (comment : option (list N)) (local : list N).

Definition h_local (t : htree) := match t with HNode _ _ _ _ _ l => l end.

Fixpoint abs (fuel : nat) (w : world) (i : id) {struct fuel} : option htree :=
  match fuel with
  | O => None
  | S f =>
    match w_nodes w i with
    | None => None
    | Some n =>
      match (fix go (l : list citem) : option (list (htree + cdata)) :=
               match l with
               | [] => Some []
               | CElem c :: r => match abs f w c, go r with Some h, Some hs => Some (inl h :: hs) | _, _ => None end
               | CData d :: r => match go r with Some hs => Some (inr d :: hs) | None => None end
               end) (n_content n) with
      | Some cs => Some (HNode (n_name n) (n_type n) (n_attrs n) cs (n_comment n) (n_files n))
      | None => None
      end
    end
  end.

Definition abs_model (w : world) (m : N) : option htree :=
  match nth_opt (w_models w) (N.to_nat m) with
  | Some x => abs (S (N.to_nat (w_next w))) w (m_root x)
  | None => None
  end.

(* equality up to the order of siblings *)
Inductive hperm : htree -> htree -> Prop :=
| HPerm name ty attrs c1 c2 c2' comment local :
    Permutation c2 c2' -> Forall2 hperm_item c1 c2' ->
    hperm (HNode name ty attrs c1 comment local) (HNode name ty attrs c2 comment local)
with hperm_item : htree + cdata -> htree + cdata -> Prop :=
| HPElem a b : hperm a b -> hperm_item (inl a) (inl b)
| HPData d : hperm_item (inr d) (inr d).

(* what the merged model must be after the files `fs` of a master were loaded: the master restricted to fs, where an
   element's local membership is empty when it equals the effective set of its parent, and explicit otherwise.
   `inherited` = effective set of the parent (None for the root, whose set is always explicit). *)
Fixpoint expected (inherited : option (list N)) (t : mtree) {struct t} : htree :=
  match t with
  | MNode name ty attrs content comment files =>
    HNode name ty (map (fun a => (fst a, to_hc (snd a))) attrs)
      ((fix go (l : list (mtree + Parser.cdata)) : list (htree + cdata) :=
          match l with
          | [] => []
          | inl c :: r => inl (expected (Some files) c) :: go r
          | inr d :: r => inr (to_hc d) :: go r
          end) content)
      comment
      (match inherited with
       | Some p => if set_eqb p files then [] else files
       | None => files
       end)
  end.

(* ------------------------------------------------------------------ running the post-parse stage on pure trees *)
(* parser.identifiables / parser.references of a tree, as (path, position) newest first: what Xml/Parser.v computes *)
Section Idents.
Variable T : tables.

Definition e_first_string (e : Parser.etree) : option (list N) :=
  match Parser.e_content e with inr (Parser.DString s) :: _ => Some s | _ => None end.

Definition e_item_name (e : Parser.etree) : option (list N) :=
  match Parser.e_content e with
  | inl s :: _ => if Parser.e_name s =? name_short_name T then e_first_string s else None
  | _ => None
  end.

(* pre-order; `path` = Autosar path of the enclosing named elements, `pos` = reversed child-index path *)
Fixpoint idents_of (path : list N) (pos : list nat) (e : Parser.etree) {struct e} : list (list N * list nat) :=
  match e with
  | Parser.ENode name ty attrs content comment =>
    let path' := match e_item_name e with Some nm => path ++ [47] ++ nm | None => path end in
    (match e_item_name e with Some _ => [(path', rev pos)] | None => [] end) ++
    (fix go (k : nat) (l : list (Parser.etree + Parser.cdata)) : list (list N * list nat) :=
       match l with
       | [] => []
       | inl c :: r => idents_of path' (k :: pos) c ++ go (S k) r
       | inr _ :: r => go (S k) r
       end) O content
  end.

Fixpoint refs_of (pos : list nat) (e : Parser.etree) {struct e} : list (list N * list nat) :=
  match e with
  | Parser.ENode name ty attrs content comment =>
    (match is_ref T ty, content with
     | Val true, [inr (Parser.DString s)] => [(s, rev pos)]
     | _, _ => []
     end) ++
    (fix go (k : nat) (l : list (Parser.etree + Parser.cdata)) : list (list N * list nat) :=
       match l with
       | [] => []
       | inl c :: r => refs_of (k :: pos) c ++ go (S k) r
       | inr _ :: r => go (S k) r
       end) O content
  end.

Definition pstate_of (version : N) (e : Parser.etree) : Parser.pstate :=
  {| Parser.p_lex := Lexer.lexer_new []; Parser.p_line := 1; Parser.p_version := version; Parser.p_cur := 0;
     Parser.p_compat := 4294967295; Parser.p_warnings := []; Parser.p_standalone := None;
     Parser.p_idents := rev (idents_of [] [] e); Parser.p_refs := rev (refs_of [] e) |}.

End Idents.

(* ====================================================================== a tiny table set *)
Module TinyM.
(* element names = element definitions = data types:
     0 AUTOSAR (splittable)  1 AR-PACKAGES (splittable, bag)  2 AR-PACKAGE (named)  3 SHORT-NAME  4 ELEMENTS (splittable, bag)
     5 SYSTEM (named, NOT splittable)  6 SPROPS (named)  7 UNIT (named)
   versions: bit 1 and bit 2 (LATEST = 2); no attributes, no references, no DEFINITION-REF (name 99) *)
Definition nAUTOSAR := 0. Definition nPKGS := 1. Definition nPKG := 2. Definition nSHORT := 3.
Definition nELEMENTS := 4. Definition nSYSTEM := 5. Definition nSPROPS := 6. Definition nUNIT := 7.

Definition mkE (name ty mult split : N) : elemdef :=
  {| ed_name := name; ed_type := ty; ed_mult := mult; ed_ordered := 0; ed_split := split; ed_restrict := 0 |}.
Definition mkD (s e : N) (cd mode : N) : dtype :=
  {| dt_sub_start := s; dt_sub_end := e; dt_sub_ver := s; dt_attr_start := 0; dt_attr_end := 0; dt_attr_ver := 100;
     dt_cdata := cd; dt_mode := mode; dt_ref_start := 0; dt_ref_end := 0 |}.

Definition tiny : tables := {|
  T_elements := fun i => match i with
    | 0 => Some (mkE 0 0 1 3) | 1 => Some (mkE 1 1 0 3) | 2 => Some (mkE 2 2 2 0) | 3 => Some (mkE 3 3 1 0)
    | 4 => Some (mkE 4 4 0 3) | 5 => Some (mkE 5 5 2 0) | 6 => Some (mkE 6 6 2 0) | 7 => Some (mkE 7 7 2 0) | _ => None end;
  n_elements := 8;
  T_subelements := fun i => match i with
    | 0 => Some (0, 1)                                        (* AUTOSAR: AR-PACKAGES *)
    | 1 => Some (0, 2)                                        (* AR-PACKAGES: AR-PACKAGE* *)
    | 2 => Some (0, 3) | 3 => Some (0, 4) | 4 => Some (0, 1)  (* AR-PACKAGE: SHORT-NAME ELEMENTS AR-PACKAGES *)
    | 5 => Some (0, 5) | 6 => Some (0, 7)                     (* ELEMENTS (bag): SYSTEM* UNIT* *)
    | 7 => Some (0, 3) | 8 => Some (0, 6)                     (* SYSTEM: SHORT-NAME SPROPS* *)
    | 9 => Some (0, 3)                                        (* SPROPS: SHORT-NAME *)
    | 10 => Some (0, 3)                                       (* UNIT: SHORT-NAME *)
    | _ => None end;
  n_subelements := 11;
  T_attributes := fun _ => None;
  n_attributes := 0;
  T_version_info := fun _ => Some 3;
  n_version_info := 200;
  T_datatypes := fun i => match i with
    | 0 => Some (mkD 0 1 0 MSequence)
    | 1 => Some (mkD 1 2 0 MBag)
    | 2 => Some (mkD 2 5 0 MSequence)
    | 3 => Some (mkD 5 5 1 MCharacters)
    | 4 => Some (mkD 5 7 0 MBag)
    | 5 => Some (mkD 7 9 0 MSequence)
    | 6 => Some (mkD 9 10 0 MSequence)
    | 7 => Some (mkD 10 11 0 MSequence)
    | _ => None end;
  n_datatypes := 8;
  T_ref_items := fun _ => None;
  n_ref_items := 0;
  T_cdata := fun i => match i with 0 => Some (CPattern 0 (Some 8)) | _ => None end;
  n_cdata := 1;
  reference_type_idx := 99; autosar_element := 0; name_short_name := 3; attr_dest := 0
|}.

Definition LATEST := 2.
Definition DEFREF := 99.

(* builders of parsed trees *)
Definition sn (s : string) : Parser.etree := Parser.ENode nSHORT (3, 3) [] [inr (Parser.DString (BS s))] None.
Definition named (name : N) (s : string) (kids : list Parser.etree) : Parser.etree :=
  Parser.ENode name (name, name) [] (inl (sn s) :: map inl kids) None.
Definition plain (name : N) (kids : list Parser.etree) : Parser.etree :=
  Parser.ENode name (name, name) [] (map inl kids) None.

(* the same for masters: files = the set of files of the element (SHORT-NAME follows its element) *)
Definition msn (s : string) (fs : list N) : mtree := MNode nSHORT (3, 3) [] [inr (Parser.DString (BS s))] None fs.
Definition mnamed (name : N) (s : string) (fs : list N) (kids : list mtree) : mtree :=
  MNode name (name, name) [] (inl (msn s fs) :: map inl kids) None fs.
Definition mplain (name : N) (fs : list N) (kids : list mtree) : mtree :=
  MNode name (name, name) [] (map inl kids) None fs.

Definition new_world : world :=
  match new_model tiny [] (mkWorld (fun _ => None) 0 [] []) with Val (_, w) => w | _ => mkWorld (fun _ => None) 0 [] [] end.

(* load_buffer_internal after a successful parse of a file whose tree is e (version 2) *)
Definition load_tree (filename : string) (e : Parser.etree) : W N :=
  load_parsed tiny LATEST DEFREF 0 (BS filename) e (pstate_of tiny 2 e).

Fixpoint load_all (l : list (string * Parser.etree)) (w : world) : res (list (out N) * world) :=
  match l with
  | [] => Val ([], w)
  | (nm, e) :: r =>
    match load_tree nm e w with
    | Val (o, w') => match load_all r w' with Val (os, w'') => Val (o :: os, w'') | Pan s => Pan s | Fuel => Fuel end
    | Pan s => Pan s
    | Fuel => Fuel
    end
  end.

(* ---------- a master with two packages, split over the files 0 and 1 ----------
     /p       {0,1}   ELEMENTS {0,1}: SYSTEM s {0,1} (SPROPS x {0,1}), UNIT u {0}, UNIT v {1}
     /q       {1}     *)
Definition master : mtree :=
  mplain nAUTOSAR [0; 1]
    [mplain nPKGS [0; 1]
       [mnamed nPKG "p" [0; 1]
          [mplain nELEMENTS [0; 1]
             [mnamed nSYSTEM "s" [0; 1] [mnamed nSPROPS "x" [0; 1] []];
              mnamed nUNIT "u" [0] [];
              mnamed nUNIT "v" [1] []]];
        mnamed nPKG "q" [1] []]].

Definition file0 : Parser.etree := match project 0 master with Some e => e | None => plain 0 [] end.
Definition file1 : Parser.etree := match project 1 master with Some e => e | None => plain 0 [] end.

Example file0_is :
  file0 = plain nAUTOSAR [plain nPKGS [named nPKG "p" [plain nELEMENTS [named nSYSTEM "s" [named nSPROPS "x" []]; named nUNIT "u" []]]]].
Proof. vm_compute. reflexivity. Qed.

Example idents_file1 :
  map (fun x => fst x) (idents_of tiny [] [] file1) = [BS "/p"; BS "/p/s"; BS "/p/s/x"; BS "/p/v"; BS "/q"].
Proof. vm_compute. reflexivity. Qed.

End TinyM.
