(* Tree/FollowProofsLoadKeepRefs.v — C06, the load clause: an ACCEPTED load (first file or merge) EXTENDS the referrer
   lists.  Every element registered under a text before the load is still registered under it afterwards, every reference element the parser recorded for the new file is appended to the list of its text, nothing else
   is added, the keys stay distinct, and no other model changes.  (The merge itself never touches the model records:
   agent-c09's merge_file_data_effects; the path-index fill only writes the index.)
     fill_identifiables_origins   the index fill keeps the referrer map
     load_parsed_origins          load_parsed
     load_buffer_origins          AutosarModel::load_buffer, with the parser's record read as MergeSpec.refs_of (StOf) *)
From Coq Require Import Lia.
From AV Require Import Base.Bytes Base.Outcome Hash.HashModel Spec.SpecOps Tree.Heap Tree.Ops Tree.Script Tree.Load Tree.MergeSpec
  Tree.IndexProofsW Tree.Index Tree.IndexProofsAssoc Tree.IndexProofsReg Tree.LoadProofs Tree.LoadEffects Tree.LoadRefineTop
  Tree.LoadRefineIndex Tree.FollowProofsLoadFills.
From AV Require Xml.Lexer Xml.Parser Xml.TablesOk Xml.LoadRecordsRegular Xml.LoadRecordsTree.
Open Scope string_scope.
Open Scope list_scope.
Open Scope N_scope.

(* worlds that agree on every model record except the index of model m *)
Definition same_origins (m : N) (w w' : world) : Prop :=
  (forall m2, m2 <> m -> nth_opt (w_models w') (N.to_nat m2) = nth_opt (w_models w) (N.to_nat m2)) /\
  (forall x, nth_opt (w_models w) (N.to_nat m) = Some x ->
     exists x', nth_opt (w_models w') (N.to_nat m) = Some x' /\ m_origins x' = m_origins x).

Lemma same_origins_refl m w : same_origins m w w.
Proof. split; [reflexivity|eauto]. Qed.
Lemma same_origins_trans m a b c : same_origins m a b -> same_origins m b c -> same_origins m a c.
Proof.
  intros (A1 & A2) (B1 & B2). split.
  - intros m2 H. rewrite (B1 m2 H). apply A1. exact H.
  - intros x Hx. destruct (A2 x Hx) as (x1 & Hx1 & E1). destruct (B2 x1 Hx1) as (x2 & Hx2 & E2). exists x2. split; [exact Hx2|congruence].
Qed.
Lemma same_origins_models m w w' : w_models w' = w_models w -> same_origins m w w'.
Proof. intros E. split; [intros; rewrite E; reflexivity|intros x Hx; exists x; rewrite E; auto]. Qed.

Lemma same_origins_modify m f w r w' :
  (forall x, m_origins (f x) = m_origins x) -> modify_model m f w = Val (r, w') -> same_origins m w w'.
Proof.
  intros Hf H. apply modify_model_inv in H as (x0 & Hx0 & _ & ->). split.
  - intros m2 Hne. cbn [w_models]. apply IndexProofsW.list_set_nth_neq. intros E. apply Hne. apply N2Nat.inj. exact E.
  - intros x Hx. assert (x = x0) by congruence. subst x0. exists (f x). split; [cbn [w_models]; eapply IndexProofsW.list_set_nth_eq; eauto|apply Hf].
Qed.

Section KeepRefs.
Variable T : tables.
Variables LATEST defref : N.

Lemma fill_identifiables_origins m t : forall l w r w', fill_identifiables m t l w = Val (r, w') -> same_origins m w w'.
Proof.
  induction l as [|[key pos] l IH]; intros w r w' H; cbn [fill_identifiables] in H.
  - apply wret_inv in H as (_ & ->). apply same_origins_refl.
  - destruct (it_at t pos) as [value|]; [|discriminate].
    apply wbind_inv in H as [(w0 & w1 & H1 & H) | (e' & H1 & _)]; [|apply wget_inv in H1 as ([=] & _)].
    apply wget_inv in H1 as (_ & ->).
    apply wbind_inv in H as [(x & w2 & H2 & H) | (e' & H2 & _)]; [|apply get_model_inv in H2 as (? & _ & [=] & _)].
    apply get_model_inv in H2 as (x' & _ & _ & ->).
    destruct (ident_live w0 x key); [apply IH in H; exact H|].
    apply wbind_inv in H as [(u & w3 & H3 & H) | (e' & H3 & _)].
    + unfold add_identifiable in H3. eapply same_origins_trans; [eapply same_origins_modify; [|exact H3]; intros y; reflexivity|]. eapply IH; eauto.
    + unfold add_identifiable in H3. apply modify_model_inv in H3 as (? & _ & [=] & _).
Qed.

Lemma stage_origins m x root_element fid w w' :
  stage_of T LATEST defref m x root_element fid w = Val (OK tt, w') -> same_origins m w w'.
Proof.
  unfold stage_of. intros H. destruct (is_empty (m_files x)).
  - apply wbind_inv in H as [(v1 & ws1 & Hs1 & H) | (e' & Hs1 & [=])].
    apply modify_node_inv in Hs1 as (rn & _ & _ & ->).
    apply wbind_inv in H as [(v2 & ws2 & Hs2 & H) | (e' & Hs2 & [=])].
    apply modify_node_inv in Hs2 as (rn2 & _ & _ & ->).
    eapply same_origins_trans; [|eapply same_origins_modify; [|exact H]; intros y; reflexivity].
    apply same_origins_models. reflexivity.
  - apply wbind_inv in H as [(mr & w1 & H1 & H) | (e' & H1 & [=])].
    apply wcatch_inv in H1 as (r0 & H1 & E). injection E as ->.
    pose proof (merge_file_data_effects T LATEST defref m root_element fid _ _ _ H1) as (_ & _ & Em & _).
    destruct r0 as [u|e].
    + apply wret_inv in H as (_ & ->). apply same_origins_models. exact Em.
    + apply wbind_inv in H as [(x1 & w2 & H2 & H) | (e' & H2 & [=])].
      apply wbind_inv in H as [(u & w3 & H3 & H) | (e' & H3 & [=])].
      apply wfail_inv in H as ([=] & _).
Qed.

Lemma load_parsed_origins m filename root st w x f w' :
  nth_opt (w_models w) (N.to_nat m) = Some x -> NoDupKeys (m_origins x) ->
  load_parsed T LATEST defref m filename root st w = Val (OK f, w') ->
  exists t x',
    nth_opt (w_models w') (N.to_nat m) = Some x' /\ NoDupKeys (m_origins x') /\
    (forall p e, In e (origins_of x' p) <->
                 In e (origins_of x p) \/ exists pos, In (p, pos) (rev (Parser.p_refs st)) /\ it_at t pos = Some e) /\
    (forall m2, m2 <> m -> nth_opt (w_models w') (N.to_nat m2) = nth_opt (w_models w) (N.to_nat m2)).
Proof.
  intros Hx Hnd H.
  destruct (load_parsed_prefix T LATEST defref m filename root st w (OK f) w' x H Hx)
    as [E|(t & w1 & tb & (_ & _ & _ & A14) & _ & _ & _ & _ & _ & _ & _ & Ht)]; [discriminate E|].
  set (w1f := mkWorld _ _ _ _) in Ht.
  assert (S0 : same_origins m w w1f) by (apply same_origins_models; exact A14).
  unfold load_tail in Ht.
  apply wbind_inv in Ht as [(r0 & w6 & H7 & Ht) | (e' & H7 & [=])].
  apply wcatch_inv in H7 as (r1 & H7 & E7). injection E7 as ->.
  apply wbind_inv in Ht as [(x3 & w7 & H8 & Ht) | (e' & H8 & [=])].
  apply get_model_inv in H8 as (x3' & Hx3 & E8 & E8'). injection E8 as E8. subst x3 w7.
  apply wbind_inv in Ht as [(w8 & w9 & H9 & Ht) | (e' & H9 & [=])].
  apply wget_inv in H9 as (E9 & E9'). injection E9 as E9. subst w8 w9.
  apply wbind_inv in Ht as [(keep & w10 & H10 & Ht) | (e' & H10 & [=])].
  assert (w10 = w6) by (exact (ro_dfs_ids _ _ _ _ _ H10)). subst w10.
  apply wbind_inv in Ht as [(uk & w11 & H11 & Ht) | (e' & H11 & [=])].
  destruct r1 as [u0|e0].
  2:{ apply wbind_inv in Ht as [(u2 & w12 & H12 & Ht) | (e' & H12 & [=])]. apply wfail_inv in Ht as ([=] & _). }
  apply wret_inv in Ht as (_ & ->).
  apply kill_unreachable_keep in H11 as (_ & _ & _ & Km & _).
  apply wbind_inv in H7 as [(u1 & wS & Hs & H7) | (e' & Hs & [=])]. destruct u1.
  apply wbind_inv in H7 as [(u2 & wa & Ha & H7) | (e' & Ha & [=])].
  apply wbind_inv in H7 as [(u3 & wb & Hb & H7) | (e' & Hb & [=])]. destruct u3.
  pose proof (stage_origins _ _ _ _ _ _ Hs) as S1.
  pose proof (fill_identifiables_origins _ _ _ _ _ _ Ha) as S2.
  pose proof (same_origins_trans _ _ _ _ S0 (same_origins_trans _ _ _ _ S1 S2)) as (Sa1 & Sa2).
  destruct (Sa2 x Hx) as (xa & Hxa & Eoa).
  destruct (fill_references_sem m t (rev (Parser.p_refs st)) wa wb xa Hxa) as (O' & -> & HndO & HgetO); [rewrite Eoa; exact Hnd|exact Hb|].
  pose proof (wm_model m wa xa (set_origins xa O') Hxa) as Hxb.
  apply modify_model_inv in H7 as (xb & Hxb' & _ & ->). assert (xb = set_origins xa O') by congruence. subst xb.
  cbn [w_models wm] in *. rewrite list_set_twice in *.
  exists t. eexists. rewrite Km. split; [eapply IndexProofsW.list_set_nth_eq; exact Hxa|]. split; [exact HndO|]. split.
  - intros p e. change (origins_of (set_mfiles (set_origins xa O') _) p) with (olist O' p). rewrite HgetO, Eoa. reflexivity.
  - intros m2 Hne. rewrite IndexProofsW.list_set_nth_neq by (intros E; apply Hne; apply N2Nat.inj; exact E). apply Sa1. exact Hne.
Qed.

End KeepRefs.

Section KeepRefsTop.
Variable T : tables.
Variable tab_el tab_at tab_en : nametab.
Variable check_fn : N -> list N -> res bool.
Variable float_parse : list N -> option N.
Variable LATEST name_definition_ref : N.

Theorem load_buffer_origins m buffer filename strict w x f ws w' :
  TablesOk.tables_ok T = true -> LoadRecordsRegular.ref_charsb T = true ->
  nth_opt (w_models w) (N.to_nat m) = Some x -> NoDupKeys (m_origins x) ->
  m_load_buffer T tab_el tab_at tab_en check_fn float_parse LATEST name_definition_ref m buffer filename strict w = Val (OK (f, ws), w') ->
  exists root st t x',
    Parser.load strict T tab_el tab_at tab_en check_fn float_parse buffer = Val (Parser.Ret root st) /\
    nth_opt (w_models w') (N.to_nat m) = Some x' /\ NoDupKeys (m_origins x') /\
    (* every referrer registered before is still registered under its text *)
    (forall p e, In e (origins_of x p) -> In e (origins_of x' p)) /\
    (* exactly the reference elements of the new file are added, each under its text *)
    (forall p e, In e (origins_of x' p) <->
                 In e (origins_of x p) \/ exists pos, In (p, pos) (refs_of T [] root) /\ it_at t pos = Some e) /\
    (* no other model changes *)
    (forall m2, m2 <> m -> nth_opt (w_models w') (N.to_nat m2) = nth_opt (w_models w) (N.to_nat m2)).
Proof.
  intros HOK RC Hx Hnd H. unfold m_load_buffer in H.
  apply wbind_inv in H as [(x0 & w0 & H0 & H) | (e' & H0 & [=])].
  apply get_model_inv in H0 as (x0' & Hx0 & E0 & E0'). injection E0 as E0. subst x0 w0.
  apply wbind_inv in H as [(w1 & w2 & H1 & H) | (e' & H1 & [=])].
  apply wget_inv in H1 as (E1 & E1'). injection E1 as E1. subst w1 w2.
  destruct (existsb _ _); [apply wfail_inv in H as ([=] & _)|].
  destruct (Parser.load strict T tab_el tab_at tab_en check_fn float_parse buffer) as [[root st|pe st]| |] eqn:EP; try discriminate H.
  apply wbind_inv in H as [(f0 & w3 & H2 & H) | (e' & H2 & [=])].
  apply wret_inv in H as (E & Ew). subst w3. injection E as <- _.
  destruct (load_parsed_origins T LATEST name_definition_ref m filename root st w x f w' Hx Hnd H2) as (t & x' & Hx' & Hnd' & Hget & Hoth).
  rewrite (LoadRecordsTree.load_refs_of T tab_el tab_at tab_en check_fn float_parse strict buffer root st HOK RC EP), rev_involutive in Hget.
  exists root, st, t, x'. split; [reflexivity|]. split; [exact Hx'|]. split; [exact Hnd'|].
  split; [intros p e Hin; apply Hget; left; exact Hin|]. split; [exact Hget|exact Hoth].
Qed.

End KeepRefsTop.
