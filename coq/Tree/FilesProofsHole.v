(* Tree/FilesProofsHole.v — C10 proofs, layer 5: the invariant with one hole.
   While add_to_file walks up the tree, exactly one element (the last one whose set was extended) may exceed its
   parent's effective set, and only by the file f that is being added.  Materializing a child's inherited set and
   extending the next element's set both preserve this weaker invariant; when the walk stops the hole is closed. *)
From Coq Require Import PeanoNat Arith Lia.
From AV Require Import Base.Bytes Base.Outcome Hash.HashModel Tree.Heap Tree.Ops Tree.Script Tree.Serialize
  Tree.Inv Tree.InvProofsBase Tree.InvProofsCore Tree.InvProofsTree Tree.Files Tree.FilesProofsBase Tree.FilesProofsProj
  Tree.FilesProofsFrame Tree.FilesProofsSet.
Open Scope string_scope.
Open Scope list_scope.
Open Scope N_scope.

Section Hole.
Variable T : tables.

Record HoleInv (w : world) (x : model) (f : N) (hole : option id) : Prop := mkHole {
  hi_sub : forall i n, Reach w (m_root x) i -> w_nodes w i = Some n -> incl (n_files n) (m_files x);
  hi_par : forall i n p, Reach w (m_root x) i -> w_nodes w i = Some n -> n_files n <> [] -> n_parent n = PElem p ->
           hole <> Some i -> exists s, Eff w p s /\ incl (n_files n) s;
  hi_hole : forall h n p, hole = Some h -> w_nodes w h = Some n -> n_parent n = PElem p ->
            exists s, Eff w p s /\ forall g, In g (n_files n) -> g = f \/ In g s;
  hi_split : forall i n p pn, Reach w (m_root x) i -> w_nodes w i = Some n -> n_files n <> [] ->
             n_parent n = PElem p -> w_nodes w p = Some pn -> split_ok T pn;
  hi_eff : m_files x <> [] -> forall i, Reach w (m_root x) i -> exists s, Eff w i s
}.

Lemma hole_of_inv w x f : FilesInvM T w x -> HoleInv w x f None.
Proof.
  intros [A B C D]. constructor; auto.
  - intros i n p Hr Hn Hne Hp _. eapply B; eauto.
  - intros h n p H. discriminate.
Qed.

(* the hole is closed once the element's set is within its parent's effective set (or it has no element parent) *)
Lemma hole_close w x f h :
  HoleInv w x f (Some h) ->
  (forall n p, w_nodes w h = Some n -> n_parent n = PElem p -> exists s, Eff w p s /\ incl (n_files n) s) ->
  FilesInvM T w x.
Proof.
  intros [A B H C D] Hc. constructor; auto.
  intros i n p Hr Hn Hne Hp. destruct (N.eq_dec i h) as [->|Hd]; [eapply Hc; eauto|].
  eapply B; eauto. congruence.
Qed.

Lemma eff_incl_model w x i s : Core w -> In x (w_models w) ->
  (forall i n, Reach w (m_root x) i -> w_nodes w i = Some n -> incl (n_files n) (m_files x)) ->
  Reach w (m_root x) i -> Eff w i s -> incl s (m_files x).
Proof.
  intros C Hx A Hr He. destruct (Eff_owner _ _ _ He) as (a & n & Ha & Hn & <- & _).
  apply (A a n); auto. eapply reach_ancs; eauto.
Qed.

(* ---------- materialize ---------- *)
Lemma hole_materialize w x f hole c cn q qn s :
  Core w -> In x (w_models w) -> HoleInv w x f hole -> Reach w (m_root x) c -> w_nodes w c = Some cn ->
  n_files cn = [] -> n_parent cn = PElem q -> w_nodes w q = Some qn -> split_ok T qn -> Eff w c s ->
  HoleInv (fset w c s) x f hole.
Proof.
  intros C Hx [A B H S D] Hrc Hc He Hq Hqn Hsp Hs.
  assert (Eff w q s) as Hqs.
  { destruct (Eff_up_inv _ _ _ _ Hs Hc He) as (p & Hp & Ht). assert (p = q) by congruence. subst. exact Ht. }
  pose proof (mat_fwd w c s cn Hc He Hs) as FW.
  constructor.
  - intros i n' Hr Hn'. apply fset_reach in Hr. apply fset_node in Hn' as (n & Hn & _ & _ & _ & [(-> & Hf)|(Hne & Hf)]).
    + rewrite Hf. eapply eff_incl_model; eauto.
    + rewrite Hf. eapply A; eauto.
  - intros i n' p Hr Hn' Hne Hp Hh. apply fset_reach in Hr.
    apply fset_node in Hn' as (n & Hn & Pp & _ & _ & [(-> & Hf)|(Hd & Hf)]).
    + assert (n = cn) by congruence. subst n. assert (p = q) by congruence. subst p.
      exists s. split; [apply FW; auto|]. rewrite Hf. apply incl_refl.
    + destruct (B i n p Hr Hn) as (s0 & Hs0 & Hi); try congruence. exists s0. split; [apply FW; auto|]. rewrite Hf. exact Hi.
  - intros h n' p -> Hn' Hp. apply fset_node in Hn' as (n & Hn & Pp & _ & _ & [(-> & Hf)|(Hd & Hf)]).
    + assert (n = cn) by congruence. subst n. assert (p = q) by congruence. subst p.
      exists s. split; [apply FW; auto|]. rewrite Hf. auto.
    + destruct (H h n p eq_refl Hn) as (s0 & Hs0 & Hi); try congruence. exists s0. split; [apply FW; auto|]. rewrite Hf. exact Hi.
  - intros i n' p pn' Hr Hn' Hne Hp Hpn'. apply fset_reach in Hr.
    apply fset_node in Hpn' as (pn & Hpn & _ & Ty & _ & _).
    apply fset_node in Hn' as (n & Hn & Pp & _ & _ & [(-> & Hf)|(Hd & Hf)]).
    + assert (n = cn) by congruence. subst n. assert (p = q) by congruence. subst p.
      assert (pn = qn) by congruence. subst pn. eapply split_ok_type; eauto.
    + eapply split_ok_type; eauto. eapply (S i n p pn); eauto; congruence.
  - intros Hne i Hr. apply fset_reach in Hr. destruct (D Hne i Hr) as (s0 & Hs0). exists s0. apply FW. exact Hs0.
Qed.

(* ---------- extend ---------- *)
Lemma hole_extend w x f hole cur n s :
  Core w -> In x (w_models w) -> In f (m_files x) -> HoleInv w x f hole -> Reach w (m_root x) cur ->
  w_nodes w cur = Some n -> Eff w cur s ->
  (n_files n <> [] \/ forall p pn, n_parent n = PElem p -> w_nodes w p = Some pn -> split_ok T pn) ->
  (forall h hn p, hole = Some h -> w_nodes w h = Some hn -> n_parent hn = PElem p -> Inh w cur p) ->
  hole <> Some cur ->
  HoleInv (fset w cur (set_add f s)) x f (Some cur).
Proof.
  intros C Hx Hf [A B H S D] Hrc Hn Hs Hloc Hinh Hnh.
  pose proof (ext_mono w cur s f Hs) as MONO. pose proof (ext_inh w cur s f Hs) as INH.
  constructor.
  - intros i n' Hr Hn'. apply fset_reach in Hr. apply fset_node in Hn' as (n0 & Hn0 & _ & _ & _ & [(-> & Hf')|(Hne & Hf')]).
    + rewrite Hf'. intros g Hg. apply set_add_in in Hg as [->|Hg]; auto. eapply eff_incl_model; eauto.
    + rewrite Hf'. eapply A; eauto.
  - intros i n' p Hr Hn' Hne Hp Hh. apply fset_reach in Hr.
    apply fset_node in Hn' as (n0 & Hn0 & Pp & _ & _ & [(-> & Hf')|(Hd & Hf')]); [congruence|].
    assert (hole = Some i \/ hole <> Some i) as [E|E]
      by (destruct hole as [h0|]; [destruct (N.eq_dec h0 i); [left|right]; congruence | right; congruence]).
    + destruct (H i n0 p E Hn0) as (s0 & Hs0 & Hi); try congruence.
      pose proof (Hinh i n0 p E Hn0 ltac:(congruence)) as Hip.
      assert (s0 = s) as -> by (eapply Eff_fun; eauto; eapply inh_eff; eauto).
      exists (set_add f s). split; [apply INH; auto|]. rewrite Hf'. intros g Hg. apply set_add_in.
      destruct (Hi g Hg); auto.
    + destruct (B i n0 p Hr Hn0) as (s0 & Hs0 & Hi); try congruence.
      destruct (MONO _ _ Hs0) as (t' & Ht' & I1 & _). exists t'. split; auto. rewrite Hf'. eapply incl_tran; eauto.
  - intros h n' p [= <-] Hn' Hp. apply fset_node in Hn' as (n0 & Hn0 & Pp & _ & _ & [(_ & Hf')|(Hd & _)]); [|congruence].
    assert (n0 = n) by congruence. subst n0.
    assert (exists s0, Eff w p s0 /\ incl s s0) as (s0 & Hs0 & Hi).
    { destruct (n_files n) as [|g0 fs] eqn:Hfe.
      - destruct (Eff_up_inv _ _ _ _ Hs Hn Hfe) as (p0 & Hp0 & Ht). assert (p0 = p) by congruence. subst.
        exists s. split; auto. apply incl_refl.
      - assert (s = n_files n) as -> by (eapply Eff_local_inv; eauto; congruence).
        eapply B; eauto; congruence. }
    destruct (MONO _ _ Hs0) as (t' & Ht' & I1 & _). exists t'. split; auto.
    rewrite Hf'. intros g Hg. apply set_add_in in Hg as [->|Hg]; auto.
  - intros i n' p pn' Hr Hn' Hne Hp Hpn'. apply fset_reach in Hr.
    apply fset_node in Hpn' as (pn & Hpn & _ & Ty & _ & _).
    apply fset_node in Hn' as (n0 & Hn0 & Pp & _ & _ & [(-> & Hf')|(Hd & Hf')]).
    + assert (n0 = n) by congruence. subst n0. eapply split_ok_type; eauto.
      destruct Hloc as [Hl|Hl]; [eapply (S cur n p pn); eauto; congruence | eapply Hl; eauto; congruence].
    + eapply split_ok_type; eauto. eapply (S i n0 p pn); eauto; congruence.
  - intros Hne i Hr. apply fset_reach in Hr. destruct (D Hne i Hr) as (s0 & Hs0).
    destruct (MONO _ _ Hs0) as (t' & Ht' & _). eauto.
Qed.

End Hole.
