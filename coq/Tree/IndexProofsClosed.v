(* Tree/IndexProofsClosed.v — C04/C05, final assembly with the refined pending list Pending45m
   (moves inside one model whose moved element is identifiable are covered):
     C45_inv            one operation keeps Inv04 /\ Inv05
     C45_history        ... along every history (given TreeFacts at every step)
     C04_C05_history    closed form: every history from the empty world whose steps avoid the finding classes of
                        C03/C04/C05 and the remaining pending constructors (clean45m, decidable along the history)
     C04_C05_history_rt the same for the generated tables. *)
From AV Require Import Base.Bytes Base.Outcome Hash.HashModel Tree.Heap Tree.Ops Tree.Script Tree.Inv Tree.InvProofs.
From AV Require Import Tree.Index Tree.IndexProofsBase Tree.IndexProofs Tree.Refs Tree.RefsProofsOps Tree.RefsProofsSetName
  Tree.IndexProofsBridge Tree.IndexProofsMoveOp Tree.IndexProofsCopy Tree.IndexProofsTablesReal Spec.SpecReal Tree.CheckFn.
Open Scope string_scope.
Open Scope list_scope.
Open Scope N_scope.

Section Closed.
Variable T : tables.
Variable tab_el tab_en : nametab.
Variable check_fn : N -> list N -> res bool.
Variable LATEST : N.
Variable root_attrs : list (N * cdata).
Hypothesis TK : TablesOK T check_fn.

Notation Inv04 := (Inv04 T check_fn).
Notation run := (run_op T tab_el tab_en check_fn LATEST root_attrs).
Notation run_ops := (Inv.run_ops T tab_el tab_en check_fn LATEST root_attrs).
Notation Known03 := (Inv.Known T tab_el tab_en check_fn LATEST root_attrs).
Notation Known05 := (Known05 T tab_el tab_en check_fn LATEST root_attrs).

Theorem C45_inv w o r w' :
  TreeFacts w -> Inv04 w -> Inv05 T w ->
  Known04 T LATEST w o = false -> Known05 w o = false -> Pending45m T w o = false ->
  run o w = Val (r, w') -> Inv04 w' /\ Inv05 T w'.
Proof.
  intros HF HI4 HI5 HK4 HK5 HP H.
  assert (Hother : Pending45 w o = false -> Inv04 w' /\ Inv05 T w').
  { intros HP0. eapply (C45_inv_partial T tab_el tab_en check_fn LATEST root_attrs TK); eauto. }
  destruct o; try (apply Hother; exact HP); cbn [Pending45m] in HP; apply negb_false_iff in HP; cbn [run_op] in H.
  - apply welem_inv in H as (r0 & H). unfold simple_move in HP. apply andb_true_iff in HP as (_ & HP).
    destruct (C45_move T tab_el tab_en check_fn LATEST TK root_attrs h mv w r0 w' (conj HF (conj HI4 HI5)) HK4 HK5 HP H) as (_ & H1 & H2). auto.
  - apply welem_inv in H as (r0 & H). unfold simple_move in HP. apply andb_true_iff in HP as (_ & HP).
    destruct (C45_move_at T tab_el tab_en check_fn LATEST TK root_attrs h mv pos w r0 w' (conj HF (conj HI4 HI5)) HK4 HK5 HP H) as (_ & H1 & H2). auto.
Qed.

Fixpoint steps_ok5m (l : list op) (w : world) : Prop :=
  match l with
  | [] => True
  | o :: rest =>
    TreeFacts w /\ Known04 T LATEST w o = false /\ Known05 w o = false /\ Pending45m T w o = false /\
    match run o w with Val (_, w') => steps_ok5m rest w' | _ => True end
  end.

Theorem C45_history l : forall w w',
  Inv04 w -> Inv05 T w -> steps_ok5m l w ->
  run_hist T tab_el tab_en check_fn LATEST root_attrs l w = Val w' -> Inv04 w' /\ Inv05 T w'.
Proof.
  induction l as [|o rest IH]; intros w w' HI4 HI5 Hok H; cbn in *.
  - injection H as <-. auto.
  - destruct Hok as (HF & HK4 & HK5 & HP & Hrest). destruct (run o w) as [[r w1]| |] eqn:E; try discriminate.
    destruct (C45_inv w o r w1 HF HI4 HI5 HK4 HK5 HP E) as (H1 & H2).
    eapply IH; eauto.
Qed.

(* no step of the history is in a finding class of C03/C04/C05 or uses a constructor that is still pending *)
Fixpoint clean45m (l : list op) (w : world) : bool :=
  match l with
  | [] => true
  | o :: rest =>
    negb (Known03 w o) && negb (Known04 T LATEST w o) && negb (Known05 w o)
    && negb (Pending45m T w o)
    && match run o w with Val (_, w') => clean45m rest w' | _ => true end
  end.

Lemma clean45m_steps l : forall w, TreeInv w -> clean45m l w = true -> steps_ok5m l w.
Proof.
  induction l as [|o l IH]; intros w HT Hc; cbn in *; [exact I|].
  repeat (apply andb_true_iff in Hc as (Hc & ?)).
  repeat match goal with H : negb _ = true |- _ => apply negb_true_iff in H end.
  split; [apply treeinv_treefacts; exact HT|]. repeat (split; [assumption|]).
  destruct (run o w) as [[r w1]| |] eqn:E; try exact I. apply IH; [|assumption].
  eapply TreeInv_step; eauto.
Qed.

Theorem C04_C05_history l w' :
  clean45m l empty_world = true -> run_ops l empty_world = Val w' ->
  TreeFacts w' /\ Inv04 w' /\ Inv05 T w'.
Proof.
  intros Hc H.
  assert (HT : TreeInv w').
  { eapply TreeInv_histories; [apply empty_treeinv| |exact H].
    clear H. revert Hc. generalize empty_world. induction l as [|o l IH]; intros w Hc; cbn in *; [reflexivity|].
    repeat (apply andb_true_iff in Hc as (Hc & ?)). apply andb_true_iff. split; [assumption|].
    unfold Inv.run. destruct (run o w) as [[r w1]| |]; auto. }
  split; [apply treeinv_treefacts; exact HT|].
  eapply (C45_history l empty_world w').
  - apply Inv04_empty.
  - apply Inv05_empty.
  - apply clean45m_steps; [apply empty_treeinv|exact Hc].
  - rewrite run_hist_run_ops. exact H.
Qed.

(* ---------- second refinement (Pending45x): copies and every move inside one model *)
Theorem C45_inv_x w o r w' :
  TreeFacts w -> Inv04 w -> Inv05 T w ->
  Known04 T LATEST w o = false -> Known05 w o = false -> Pending45x w o = false ->
  run o w = Val (r, w') -> Inv04 w' /\ Inv05 T w'.
Proof.
  intros HF HI4 HI5 HK4 HK5 HP H.
  assert (Hother : Pending45 w o = false -> Inv04 w' /\ Inv05 T w').
  { intros HP0. eapply (C45_inv_partial T tab_el tab_en check_fn LATEST root_attrs TK); eauto. }
  destruct o; try (apply Hother; reflexivity); cbn [run_op] in H.
  - apply welem_inv in H as (r0 & H). eapply (C45_copy T tab_el tab_en check_fn LATEST TK root_attrs); eauto.
  - apply welem_inv in H as (r0 & H). eapply (C45_copy_at T tab_el tab_en check_fn LATEST TK root_attrs); eauto.
  - apply welem_inv in H as (r0 & H). cbn [Pending45x] in HP. apply negb_false_iff in HP.
    destruct (C45_move T tab_el tab_en check_fn LATEST TK root_attrs h mv w r0 w' (conj HF (conj HI4 HI5)) HK4 HK5 HP H) as (_ & H1 & H2). auto.
  - apply welem_inv in H as (r0 & H). cbn [Pending45x] in HP. apply negb_false_iff in HP.
    destruct (C45_move_at T tab_el tab_en check_fn LATEST TK root_attrs h mv pos w r0 w' (conj HF (conj HI4 HI5)) HK4 HK5 HP H) as (_ & H1 & H2). auto.
Qed.

Fixpoint steps_ok5x (l : list op) (w : world) : Prop :=
  match l with
  | [] => True
  | o :: rest =>
    TreeFacts w /\ Known04 T LATEST w o = false /\ Known05 w o = false /\ Pending45x w o = false /\
    match run o w with Val (_, w') => steps_ok5x rest w' | _ => True end
  end.

Theorem C45_history_x l : forall w w',
  Inv04 w -> Inv05 T w -> steps_ok5x l w ->
  run_hist T tab_el tab_en check_fn LATEST root_attrs l w = Val w' -> Inv04 w' /\ Inv05 T w'.
Proof.
  induction l as [|o rest IH]; intros w w' HI4 HI5 Hok H; cbn in *.
  - injection H as <-. auto.
  - destruct Hok as (HF & HK4 & HK5 & HP & Hrest). destruct (run o w) as [[r w1]| |] eqn:E; try discriminate.
    destruct (C45_inv_x w o r w1 HF HI4 HI5 HK4 HK5 HP E) as (H1 & H2).
    eapply IH; eauto.
Qed.

Fixpoint clean45x (l : list op) (w : world) : bool :=
  match l with
  | [] => true
  | o :: rest =>
    negb (Known03 w o) && negb (Known04 T LATEST w o) && negb (Known05 w o)
    && negb (Pending45x w o)
    && match run o w with Val (_, w') => clean45x rest w' | _ => true end
  end.

Lemma clean45x_steps l : forall w, TreeInv w -> clean45x l w = true -> steps_ok5x l w.
Proof.
  induction l as [|o l IH]; intros w HT Hc; cbn in *; [exact I|].
  repeat (apply andb_true_iff in Hc as (Hc & ?)).
  repeat match goal with H : negb _ = true |- _ => apply negb_true_iff in H end.
  split; [apply treeinv_treefacts; exact HT|]. repeat (split; [assumption|]).
  destruct (run o w) as [[r w1]| |] eqn:E; try exact I. apply IH; [|assumption].
  eapply TreeInv_step; eauto.
Qed.

Theorem C04_C05_history_x l w' :
  clean45x l empty_world = true -> run_ops l empty_world = Val w' ->
  TreeFacts w' /\ Inv04 w' /\ Inv05 T w'.
Proof.
  intros Hc H.
  assert (HT : TreeInv w').
  { eapply TreeInv_histories; [apply empty_treeinv| |exact H].
    clear H. revert Hc. generalize empty_world. induction l as [|o l IH]; intros w Hc; cbn in *; [reflexivity|].
    repeat (apply andb_true_iff in Hc as (Hc & ?)). apply andb_true_iff. split; [assumption|].
    unfold Inv.run. destruct (run o w) as [[r w1]| |]; auto. }
  split; [apply treeinv_treefacts; exact HT|].
  eapply (C45_history_x l empty_world w').
  - apply Inv04_empty.
  - apply Inv05_empty.
  - apply clean45x_steps; [apply empty_treeinv|exact Hc].
  - rewrite run_hist_run_ops. exact H.
Qed.

End Closed.

(* [F] the generated tables, any name tables, any DFA tables of the table-driven validators *)
Theorem C04_C05_history_rt (dfas : N -> option (list (list N) * list N)) (tab_el tab_en : nametab) (LATEST : N)
        (root_attrs : list (N * cdata)) l w' :
  clean45m RT tab_el tab_en (check_fn_model dfas) LATEST root_attrs l empty_world = true ->
  Inv.run_ops RT tab_el tab_en (check_fn_model dfas) LATEST root_attrs l empty_world = Val w' ->
  TreeFacts w' /\ Inv04 RT (check_fn_model dfas) w' /\ Inv05 RT w'.
Proof. apply C04_C05_history. apply real_tables_ok. Qed.

Theorem C04_C05_history_x_rt (dfas : N -> option (list (list N) * list N)) (tab_el tab_en : nametab) (LATEST : N)
        (root_attrs : list (N * cdata)) l w' :
  clean45x RT tab_el tab_en (check_fn_model dfas) LATEST root_attrs l empty_world = true ->
  Inv.run_ops RT tab_el tab_en (check_fn_model dfas) LATEST root_attrs l empty_world = Val w' ->
  TreeFacts w' /\ Inv04 RT (check_fn_model dfas) w' /\ Inv05 RT w'.
Proof. apply C04_C05_history_x. apply real_tables_ok. Qed.
