(* Tree/CopyProofsTiny.v — C13: a tiny hand-made table set on which the known defect classes of the copy operations
   are evaluated (vm_compute): witnesses for the `_refuted` theorems and non-vacuity examples for the positive ones.
   DEFINITIONS + Examples.

   element names:   0 AUTOSAR  1 PKGS  2 PKG  3 SHORT-NAME  4 ELEMENTS  5 HOLDER  6 A-PROPS  7 B-PROPS  8 FRAG
                    9 X-ONLY  10 Y-ONLY  11 MODE  12 NEW-THING
   element defs:    def k has name k and type k for k <= 11, except def 10 (Y-ONLY, type 9);
                    def 12 = FRAG (name 8) with type 12: the SAME element name has another type below B-PROPS
                    def 13 = NEW-THING (name 12) with type 5, a sub-element of ELEMENTS only in version bit 2
   versions:        bit 1 (old) and bit 2 (LATEST)
   MODE:            enum text, item 0 valid in both versions, item 1 only in version bit 2 *)
From AV Require Import Base.Bytes Base.Outcome Hash.HashModel Tree.Heap Tree.Ops Tree.Script Tree.Copy
  Tree.CopyProofsDefs.
Open Scope string_scope.
Open Scope list_scope.
Open Scope N_scope.

Module Tiny13.
Definition nPKGS := 1. Definition nPKG := 2. Definition nSHORT := 3. Definition nELEMENTS := 4. Definition nHOLDER := 5.
Definition nAPROPS := 6. Definition nBPROPS := 7. Definition nFRAG := 8. Definition nXONLY := 9. Definition nYONLY := 10.
Definition nMODE := 11. Definition nNEW := 12.

Definition mkE (name ty mult split : N) : elemdef :=
  {| ed_name := name; ed_type := ty; ed_mult := mult; ed_ordered := 0; ed_split := split; ed_restrict := 0 |}.
Definition mkD (s e : N) (cd mode : N) : dtype :=
  {| dt_sub_start := s; dt_sub_end := e; dt_sub_ver := s; dt_attr_start := 0; dt_attr_end := 0; dt_attr_ver := 100;
     dt_cdata := cd; dt_mode := mode; dt_ref_start := 0; dt_ref_end := 0 |}.

Definition tiny : tables := {|
  T_elements := fun i => match i with
    | 0 => Some (mkE 0 0 1 0) | 1 => Some (mkE 1 1 0 3) | 2 => Some (mkE 2 2 2 0) | 3 => Some (mkE 3 3 1 0)
    | 4 => Some (mkE 4 4 0 3) | 5 => Some (mkE 5 5 2 0) | 6 => Some (mkE 6 6 0 0) | 7 => Some (mkE 7 7 0 0)
    | 8 => Some (mkE 8 8 0 0) | 9 => Some (mkE 9 9 2 0) | 10 => Some (mkE 10 9 2 0) | 11 => Some (mkE 11 11 0 0)
    | 12 => Some (mkE 8 12 0 0) | 13 => Some (mkE 12 5 2 0) | _ => None end;
  n_elements := 14;
  T_subelements := fun i => match i with
    | 0 => Some (0, 1)                                                       (* AUTOSAR: PKGS *)
    | 1 => Some (0, 2)                                                       (* PKGS: PKG* *)
    | 2 => Some (0, 3) | 3 => Some (0, 4)                                    (* PKG: SHORT-NAME ELEMENTS *)
    | 4 => Some (0, 5) | 5 => Some (0, 13)                                   (* ELEMENTS (bag): HOLDER* NEW-THING* (v2) *)
    | 6 => Some (0, 3) | 7 => Some (0, 6) | 8 => Some (0, 7) | 9 => Some (0, 11)   (* HOLDER: SHORT-NAME A-PROPS B-PROPS MODE *)
    | 10 => Some (0, 8)                                                      (* A-PROPS: FRAG (def 8) *)
    | 11 => Some (0, 12)                                                     (* B-PROPS: FRAG (def 12) *)
    | 12 => Some (0, 9)                                                      (* FRAG below A-PROPS: X-ONLY* *)
    | 13 => Some (0, 10)                                                     (* FRAG below B-PROPS: Y-ONLY* *)
    | _ => None end;
  n_subelements := 14;
  T_attributes := fun _ => None;
  n_attributes := 0;
  T_version_info := fun i => if i =? 5 then Some 2 else Some 3;
  n_version_info := 200;
  T_datatypes := fun i => match i with
    | 0 => Some (mkD 0 1 0 MSequence)
    | 1 => Some (mkD 1 2 0 MSequence)
    | 2 => Some (mkD 2 4 0 MSequence)
    | 3 => Some (mkD 4 4 1 MCharacters)        (* SHORT-NAME: cdata 0 *)
    | 4 => Some (mkD 4 6 0 MBag)
    | 5 => Some (mkD 6 10 0 MSequence)
    | 6 => Some (mkD 10 11 0 MSequence)
    | 7 => Some (mkD 11 12 0 MSequence)
    | 8 => Some (mkD 12 13 0 MSequence)
    | 9 => Some (mkD 13 13 2 MCharacters)      (* X-ONLY / Y-ONLY: cdata 1 (string) *)
    | 11 => Some (mkD 13 13 3 MCharacters)     (* MODE: cdata 2 (enum) *)
    | 12 => Some (mkD 13 14 0 MSequence)
    | _ => None end;
  n_datatypes := 13;
  T_ref_items := fun _ => None;
  n_ref_items := 0;
  T_cdata := fun i => match i with
    | 0 => Some (CPattern 0 (Some 8))
    | 1 => Some (CString false None)
    | 2 => Some (CEnum [(0, 3); (1, 2)])
    | _ => None end;
  n_cdata := 3;
  reference_type_idx := 99; autosar_element := 0; name_short_name := 3; attr_dest := 0
|}.

Definition check_fn (fn : N) (s : list N) : res bool :=
  match fn with
  | 0 => Val (negb (is_empty s) && negb (existsb (N.eqb 47) s))
  | _ => Pan "tiny check_fn"
  end.
Definition el : nametab := {| nt_strtab := [BS "~"]; nt_disp := [(0, 0)]; nt_mdisp := 1; nt_mtab := 1 |}.
Definition LATEST := 2.
Definition run := run_op tiny el el check_fn LATEST [].
Definition dup := m_duplicate tiny el el check_fn LATEST [].
Definition empty_world : world := mkWorld (fun _ => None) 0 [] [].

Fixpoint run_script (ops : list op) (w : world) : res world :=
  match ops with
  | [] => Val w
  | o :: r => match run o w with Val (_, w') => run_script r w' | Pan s => Pan s | Fuel => Fuel end
  end.
Inductive obs := OOk (v : value) | OErr (e : err) | OPan | OFuel.
Fixpoint trace_script (ops : list op) (w : world) : list obs :=
  match ops with
  | [] => []
  | o :: r => match run o w with
              | Val (OK v, w') => OOk v :: trace_script r w'
              | Val (ER e, w') => OErr e :: trace_script r w'
              | Pan _ => [OPan] | Fuel => [OFuel] end
  end.
Definition with_script {A} (s : list op) (f : world -> A) (d : A) : A :=
  match run_script s empty_world with Val w => f w | _ => d end.

Definition node_type (w : world) (i : id) : option (N * N) := option_map n_type (w_nodes w i).
Definition node_content (w : world) (i : id) : list citem := match w_nodes w i with Some n => n_content n | None => [] end.

(* one model (root 0), one file of version `ver`, PKGS 1, PKG "p" 2 (SHORT-NAME 3), ELEMENTS 4,
   HOLDER "h" 5 (SHORT-NAME 6), A-PROPS 7, B-PROPS 8 *)
Definition setup (ver : N) : list op :=
  [OpNewModel; OpCreateFile 0 (BS "f") ver; OpCreateSub 0 nPKGS; OpCreateNamed 1 nPKG (BS "p"); OpCreateSub 2 nELEMENTS;
   OpCreateNamed 4 nHOLDER (BS "h"); OpCreateSub 5 nAPROPS; OpCreateSub 5 nBPROPS].

(* ---------- (a) the copy keeps the type of the source element ---------- *)
(* FRAG 9 below A-PROPS with X-ONLY 10; copied into B-PROPS: the copy is node 11 with child 12 *)
Definition script_type : list op :=
  setup 2 ++ [OpCreateSub 7 nFRAG; OpCreateSub 9 nXONLY; OpCopy 8 9].

Example script_type_runs :
  trace_script script_type empty_world =
  [OOk (VModel 0); OOk (VFile 0); OOk (VElem 1); OOk (VElem 2); OOk (VElem 4); OOk (VElem 5); OOk (VElem 7); OOk (VElem 8);
   OOk (VElem 9); OOk (VElem 10); OOk (VElem 11)].
Proof. vm_compute. reflexivity. Qed.

(* the copy has type (8,8) although FRAG below B-PROPS has type (12,12), and it keeps X-ONLY, which is not a
   sub-element of FRAG below B-PROPS *)
Example script_type_result :
  with_script script_type (fun w => (node_type w 11, node_content w 11)) (None, []) = (Some (8, 8), [CElem 12]) /\
  find_sub_element tiny (7, 7) nFRAG 2 = Val (Some ((12, 12), [0])) /\
  find_sub_element tiny (12, 12) nXONLY 2 = Val None.
Proof. vm_compute. repeat split. Qed.

(* ---------- (f) enum text that does not exist in the target version is copied ---------- *)
(* model 0 (version 2): HOLDER 5 with MODE 9 = item 1; model 1 (root 10, version 1) with PKGS 11, PKG "q" 12 (13),
   ELEMENTS 14; copy of HOLDER 5 into ELEMENTS 14 *)
Definition script_enum : list op :=
  setup 2 ++ [OpCreateSub 5 nMODE; OpSetCData 9 (DEnum 1);
              OpNewModel; OpCreateFile 1 (BS "g") 1; OpCreateSub 10 nPKGS; OpCreateNamed 11 nPKG (BS "q");
              OpCreateSub 12 nELEMENTS; OpCopy 14 5].

Example script_enum_runs :
  trace_script script_enum empty_world =
  [OOk (VModel 0); OOk (VFile 0); OOk (VElem 1); OOk (VElem 2); OOk (VElem 4); OOk (VElem 5); OOk (VElem 7); OOk (VElem 8);
   OOk (VElem 9); OOk VUnit; OOk (VModel 1); OOk (VFile 1); OOk (VElem 11); OOk (VElem 12); OOk (VElem 14); OOk (VElem 15)].
Proof. vm_compute. reflexivity. Qed.

(* the copy (15: SHORT-NAME 16, A-PROPS 17, B-PROPS 18, MODE 19) carries the text item 1 in a file of version 1,
   where check_value rejects it *)
Example script_enum_result :
  with_script script_enum (fun w => node_content w 19) [] = [CData (DEnum 1)] /\
  check_value check_fn (DEnum 1) (CEnum [(0, 3); (1, 2)]) 1 = Val false.
Proof. vm_compute. repeat split. Qed.

(* ---------- (d) duplicate filters by the smallest file version ---------- *)
(* a model with files of version 2 and 1 and a NEW-THING (only valid in version 2) *)
Definition script_dup : list op :=
  setup 2 ++ [OpCreateNamed 4 nNEW (BS "n"); OpCreateFile 0 (BS "g") 1].

Definition count_nodes (w : world) (m : N) : nat :=
  match nth_opt (w_models w) (N.to_nat m) with
  | Some x => List.length (walk (S (N.to_nat (w_next w))) w (m_root x))
  | None => O
  end.

Example script_dup_result :
  with_script script_dup (fun w => match dup 0 w with
                                   | Val (OK m', w') => Some (m', count_nodes w' 0, count_nodes w' m')
                                   | _ => None end) None
  = Some (1, 11%nat, 9%nat).
Proof. vm_compute. reflexivity. Qed.

(* ---------- positive examples (non-vacuity) ---------- *)
(* a same-version copy of HOLDER "h" next to itself: the copy is renamed h_1 *)
Definition script_same : list op := setup 2 ++ [OpCopy 4 5].
Example script_same_result :
  with_script script_same (fun w => (node_content w 4, node_content w 10)) ([], []) =
  ([CElem 5; CElem 9], [CData (DString (BS "h_1"))]).
Proof. vm_compute. reflexivity. Qed.

(* duplicate of a single-version model has as many nodes as the original *)
Example script_dup_ok :
  with_script (setup 2) (fun w => match dup 0 w with
                                  | Val (OK m', w') => Some (m', count_nodes w' 0, count_nodes w' m')
                                  | _ => None end) None
  = Some (1, 9%nat, 9%nat).
Proof. vm_compute. reflexivity. Qed.

(* ---------- the refutation witnesses, as statements about a world reached by a script from the empty world ---------- *)
Definition unval {A} (d : A) (r : res A) : A := match r with Val a => a | _ => d end.
Definition dummy_node : node := mkNode PNone 0 (0, 0) [] [] [] None.
Definition node_at (w : world) (i : id) : node := match w_nodes w i with Some n => n | None => dummy_node end.
Definition after {A} (r : res (out A * world)) : world := match r with Val (_, w') => w' | _ => empty_world end.

(* (a) without the hypothesis TypeAgrees the type of a successful copy is NOT the type the tables give the element name
       below the destination, and the copy contains a sub-element that is not permitted there *)
Definition ops_a : list op := setup 2 ++ [OpCreateSub 7 nFRAG; OpCreateSub 9 nXONLY].
Definition w_a : world := unval empty_world (run_script ops_a empty_world).
Definition w_a' : world := after (run (OpCopy 8 9) w_a).

Lemma copy_type_refuted :
  exists ops w h other c w' nh nc x idx kid kn,
    run_script ops empty_world = Val w /\
    run (OpCopy h other) w = Val (OK (VElem c), w') /\
    w_nodes w h = Some nh /\ w_nodes w' c = Some nc /\
    find_sub_element tiny (n_type nh) (n_name nc) LATEST = Val (Some (x, idx)) /\ x <> n_type nc /\
    In (CElem kid) (n_content nc) /\ w_nodes w' kid = Some kn /\
    find_sub_element tiny x (n_name kn) LATEST = Val None.
Proof.
  exists ops_a, w_a, 8, 9, 11, w_a', (node_at w_a 8), (node_at w_a' 11), (12, 12), [0], 12, (node_at w_a' 12).
  split; [vm_compute; reflexivity|].
  split; [vm_compute; reflexivity|].
  split; [vm_compute; reflexivity|].
  split; [vm_compute; reflexivity|].
  split; [vm_compute; reflexivity|].
  split; [vm_compute; discriminate|].
  split; [vm_compute; left; reflexivity|].
  split; vm_compute; reflexivity.
Qed.

(* (f) an enum value in element text that the target version does not have is copied: the copy holds a value that
       check_value rejects in the version of its file *)
Definition w_f : world := unval empty_world (run_script (removelast script_enum) empty_world).
Definition w_f' : world := after (run (OpCopy 14 5) w_f).

Lemma copy_enum_text_refuted :
  exists ops w h other c w' kid kn v spec d,
    run_script ops empty_world = Val w /\
    run (OpCopy h other) w = Val (OK (VElem c), w') /\
    min_version LATEST c w' = Val (OK v, w') /\
    In (CElem kid) (n_content (node_at w' c)) /\ w_nodes w' kid = Some kn /\
    chardata_spec tiny (n_type kn) = Val (Some spec) /\ n_content kn = [CData d] /\
    check_value check_fn d spec v = Val false.
Proof.
  exists (removelast script_enum), w_f, 14, 5, 15, w_f', 19, (node_at w_f' 19), 1, (CEnum [(0, 3); (1, 2)]), (DEnum 1).
  split; [vm_compute; reflexivity|].
  split; [vm_compute; reflexivity|].
  split; [vm_compute; reflexivity|].
  split; [vm_compute; auto 10|].
  split; [vm_compute; reflexivity|].
  split; [vm_compute; reflexivity|].
  split; vm_compute; reflexivity.
Qed.

(* (d) duplicate() of a model with files of different versions is not a faithful copy: an element of the original
       (NEW-THING, valid in the newer file's version only) is missing in the duplicate *)
Definition w_d : world := unval empty_world (run_script script_dup empty_world).

Lemma duplicate_refuted :
  exists ops w m m' w',
    run_script ops empty_world = Val w /\
    dup m w = Val (OK m', w') /\
    (count_nodes w' m' < count_nodes w' m)%nat.
Proof.
  exists script_dup, w_d, 0, 1, (after (dup 0 w_d)).
  split; [vm_compute; reflexivity|].
  split; [vm_compute; reflexivity|].
  vm_compute. repeat constructor.
Qed.

End Tiny13.
