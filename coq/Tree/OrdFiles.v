(* Tree/OrdFiles.v — C07, histories: when every file of the world has ONE version v, Element::min_version answers v.
   Needed: no element carries the id of a file that does not exist (file ids are only ever taken from the file list, and the
   file list only grows).  A third instance of the frame calculus (after Tree/CompatFrame.v and Tree/OrdFrame.v), this time for
   the local file sets:
     NFw FL w : the file list of w is FL, and every id in a local file set n_files names a file of FL
     fp FL m  : m keeps NFw FL (whatever it returns)
   create_file is the only operation that changes the file list (it appends). *)
From Coq Require Import PeanoNat Arith Lia.
From AV Require Import Base.Bytes Base.Outcome Hash.HashModel Spec.SpecOps Tree.Heap Tree.Ops Tree.Script Tree.Inv
  Tree.InvProofsBase Tree.InvProofsCore Tree.InvProofsPrim Tree.InvProofsCreate Tree.InvProofsRefs Tree.InvProofsRemove
  Tree.FilesProofsBase.
Open Scope string_scope.
Open Scope list_scope.
Open Scope N_scope.

Section Base.
Variable FL : list file.

Definition Pf (f : N) : Prop := exists x, nth_opt FL (N.to_nat f) = Some x.
Definition fgood (n : node) : Prop := forall f, In f (n_files n) -> Pf f.
Definition NFw (w : world) : Prop := (forall i n, w_nodes w i = Some n -> fgood n) /\ w_files w = FL.

Definition fp {A} (m : W A) : Prop := forall w r w', NFw w -> m w = Val (r, w') -> NFw w'.

Lemma fp_ro {A} (m : W A) : ro m -> fp m.
Proof. intros R w r w' F H. apply R in H. subst. exact F. Qed.
Lemma fp_bind {A B} (m : W A) (k : A -> W B) : fp m -> (forall a, fp (k a)) -> fp (wbind m k).
Proof.
  intros Hm Hk w r w' F H. apply wbind_inv in H as [(a & w1 & H1 & H2) | (e & H1 & _)].
  - eapply Hk; [eapply Hm; eauto|eauto].
  - eapply Hm; eauto.
Qed.
Lemma fp_try {A} (m : W A) : fp m -> fp (wtry m).
Proof. intros Hm w r w' F H. apply wtry_inv in H as (r0 & H & _). eapply Hm; eauto. Qed.
Lemma fp_catch {A} (m : W A) : fp m -> fp (wcatch m).
Proof. intros Hm w r w' F H. apply wcatch_inv in H as (r0 & H & _). eapply Hm; eauto. Qed.

Lemma fp_bind_get {B} i (k : node -> W B) : (forall n, fgood n -> fp (k n)) -> fp (wbind (get_node i) k).
Proof.
  intros Hk w r w' F H. apply wbind_inv in H as [(n & w1 & H1 & H2) | (e & H1 & _)].
  - apply get_node_inv in H1 as (n' & Hn & [= <-] & ->). exact (Hk n (proj1 F _ _ Hn) _ _ _ F H2).
  - apply get_node_inv in H1 as (n' & _ & [=] & _).
Qed.

Lemma NFw_wset w i x : NFw w -> fgood x -> NFw (wset w i x).
Proof.
  intros (F & E) Hx. split; [|exact E]. intros j y Hy. destruct (N.eq_dec j i) as [->|NE].
  - rewrite nodes_wset_eq in Hy. injection Hy as <-. exact Hx.
  - rewrite nodes_wset_neq in Hy by exact NE. exact (F _ _ Hy).
Qed.

Lemma fp_set_node i x : fgood x -> fp (set_node i x).
Proof. intros Hx w r w' F H. apply set_node_wset in H as (_ & ->). apply NFw_wset; auto. Qed.
Lemma fp_modify_node i f : (forall n, fgood n -> fgood (f n)) -> fp (modify_node i f).
Proof.
  intros Hf w r w' F H. apply modify_node_wset in H as (n & Hn & _ & ->). apply NFw_wset; [exact F|].
  apply Hf. exact (proj1 F _ _ Hn).
Qed.
Lemma fp_alloc nd : fgood nd -> fp (alloc nd).
Proof.
  intros Hx w r w' (F & E) H. apply alloc_walloc in H as (_ & ->). split; [|exact E].
  intros j y Hy. destruct (N.eq_dec j (w_next w)) as [->|NE].
  - rewrite nodes_walloc_new in Hy. injection Hy as <-. exact Hx.
  - rewrite nodes_walloc_old in Hy by exact NE. exact (F _ _ Hy).
Qed.
Lemma fp_set_model m x : fp (set_model m x).
Proof. intros w r w' F H. apply set_model_inv in H as (_ & ->). exact F. Qed.
Lemma fp_modify_model m f : fp (modify_model m f).
Proof. intros w r w' F H. apply modify_model_inv in H as (x & _ & _ & ->). exact F. Qed.

(* what file_membership and file_model return *)
Lemma fm_walk_good fuel : forall self cur w loc fs w', NFw w -> fm_walk fuel self cur w = Val (OK (loc, fs), w') ->
  forall f, In f fs -> Pf f.
Proof.
  induction fuel as [|fl IH]; intros self cur w loc fs w' F H; [discriminate|].
  cbn [fm_walk] in H. wstepn H n En. winv En.
  destruct (negb (is_empty (n_files n0))).
  - winv H. exact (proj1 F _ _ Hn).
  - wstepn H p Ep. destruct p as [pi|]; [|winv H]. eapply IH; eauto.
Qed.
Lemma fp_bind_fm {B} e (k : bool * list N -> W B) :
  (forall loc cur, (forall f, In f cur -> Pf f) -> fp (k (loc, cur))) -> fp (wbind (file_membership e) k).
Proof.
  intros Hk w r w' F H. apply wbind_inv in H as [([loc cur] & w1 & H1 & H2) | (e0 & H1 & ->)].
  - pose proof (ro_file_membership e _ _ _ H1) as ->. eapply Hk; [|exact F|exact H2].
    unfold file_membership in H1. wstepn H1 wc Ew. winv Ew. eapply fm_walk_good; eauto.
  - pose proof (ro_file_membership e _ _ _ H1) as ->. exact F.
Qed.
Lemma fp_bind_try_fm {B} e (k : option (bool * list N) -> W B) :
  (forall x, match x with Some (_, cur) => forall f, In f cur -> Pf f | None => True end -> fp (k x)) ->
  fp (wbind (wtry (file_membership e)) k).
Proof.
  intros Hk w r w' F H. apply wbind_inv in H as [(x & w1 & H1 & H2) | (e0 & H1 & _)].
  - apply wtry_inv in H1 as (r0 & H1 & Hx). pose proof (ro_file_membership e _ _ _ H1) as ->.
    injection Hx as ->. eapply Hk; [|exact F|exact H2]. destruct r0 as [[loc cur]|er]; [|exact I].
    unfold file_membership in H1. wstepn H1 wc Ew. winv Ew. eapply fm_walk_good; eauto.
  - apply wtry_inv in H1 as (r0 & _ & [=]).
Qed.
Lemma fp_bind_file_model {B} f (k : N -> W B) : (Pf f -> forall fm, fp (k fm)) -> fp (wbind (file_model f) k).
Proof.
  intros Hk w r w' F H. apply wbind_inv in H as [(fm & w1 & H1 & H2) | (e0 & H1 & ->)].
  - unfold file_model in H1. apply wbind_inv in H1 as [(x & w2 & Ex & H1) | (e1 & Ex & _)].
    + apply get_file_inv in Ex as (x0 & Hx & _ & ->). apply wret_inv in H1 as (_ & ->).
      eapply Hk; [|exact F|exact H2]. exists x0. rewrite <- (proj2 F). exact Hx.
    + apply get_file_inv in Ex as (x0 & _ & [=] & _).
  - unfold file_model in H1. apply wbind_inv in H1 as [(x & w2 & Ex & H1) | (e1 & Ex & _)].
    + apply wret_inv in H1 as ([=] & _).
    + apply get_file_inv in Ex as (x0 & _ & [=] & _).
Qed.

End Base.

(* ---- side conditions ---- *)
Ltac fg_tac :=
  let f := fresh "f" in let H := fresh "Hf" in
  cbv beta;
  repeat match goal with |- fgood _ (if ?b then _ else _) => destruct b | |- fgood _ (match ?x with _ => _ end) => destruct x end;
  intros f H; cbn [n_files set_content set_parent set_attrs set_files set_comment new_node] in H;
  repeat first
    [ solve [ destruct H ]
    | match goal with K : fgood _ ?n |- _ => solve [ exact (K f H) ] end
    | match goal with K : forall f, In f ?l -> Pf _ f |- _ => solve [ exact (K f H) ] end
    | match type of H with
      | In _ (set_remove _ _) => apply set_remove_in in H; destruct H as [_ H]
      | In _ (set_add _ _) => apply set_add_in in H; destruct H as [H|H]; [subst f|]
      | In _ (if ?b then _ else _) => destruct b
      | In _ (n_files (if ?b then _ else _)) => destruct b; cbn [n_files set_files] in H
      end
    | assumption ].

Ltac fp_loop :=
  match goal with
  | |- fp ?FL (?F ?l) =>
    is_fix F;
    let l' := fresh "l" in
    generalize l; intro l'; induction l' as [|? ? ?]; lazy beta iota fix zeta
  end.

Create HintDb fpdb discriminated.

Ltac fp_step :=
  first
  [ progress (lazy beta iota zeta)
  | apply fp_ro; solve [ro_tac]
  | assumption
  | solve [auto with fpdb]
  | apply fp_modify_node; intros ? ?; solve [fg_tac]
  | apply fp_set_node; solve [fg_tac]
  | apply fp_alloc; solve [fg_tac]
  | apply fp_modify_model | apply fp_set_model
  | apply fp_bind_fm; intros ? ? ?
  | apply fp_bind_try_fm; intros [[? ?]|] ?
  | apply fp_bind_file_model; intros ? ?
  | apply fp_try | apply fp_catch
  | apply fp_bind_get; intros ? ?
  | apply fp_bind; [ | intros ? ]
  | match goal with
    | |- fp _ (match ?x with _ => _ end) => destruct x eqn:?
    | |- fp _ (if ?b then _ else _) => destruct b
    | |- fp _ (let '(_, _) := ?x in _) => destruct x
    end ].
Ltac fp_go := repeat first [ fp_step | fp_loop ].
