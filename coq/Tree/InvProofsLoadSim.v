(* Tree/InvProofsLoadSim.v — C03 over a REJECTED load: the rollback (Element::remove_from_file at the root of the model)
   never looks at the dropped incoming elements.
   D = the merged incoming elements (they still list what was imported from them), G = the nodes reachable from the
   root.  If G is closed under parent and sub-elements (GC) and avoids D, a computation that starts from handles in G
   runs identically on the world in which the content lists of D are emptied (agr w1 w2: w2 = mask D w1, pointwise):
   sim2.  Proved for everything e_remove_from_file calls. *)
From Coq Require Import PeanoNat Arith Lia.
From AV Require Import Base.Bytes Base.Outcome Hash.HashModel Tree.Heap Tree.Ops Tree.Script Tree.Inv
  Tree.InvProofsBase Tree.InvProofsCore Tree.InvProofsTree Tree.InvProofsPrim Tree.InvProofsRemove Tree.InvProofsFiles
  Tree.InvProofsNav Tree.Load Tree.InvLoad Tree.InvProofsLoadBase.
Open Scope string_scope.
Open Scope list_scope.
Open Scope N_scope.

Section Sim.
Variable D : list id.
Variable G : id -> Prop.
Hypothesis HGD : forall i, G i -> ~ In i D.

Definition agr (w1 w2 : world) : Prop :=
  w_next w2 = w_next w1 /\ w_files w2 = w_files w1 /\ w_models w2 = w_models w1 /\
  forall i, w_nodes w2 i = if inb i D then option_map strip (w_nodes w1 i) else w_nodes w1 i.

Definition Gn (n : node) : Prop := (forall p, n_parent n = PElem p -> G p) /\ (forall c, In c (kids n) -> G c).
Definition GC (w : world) : Prop := forall i n, G i -> w_nodes w i = Some n -> Gn n.

Lemma agr_mask w : agr w (mask D w).
Proof. split; [reflexivity|]. split; [reflexivity|]. split; [reflexivity|]. intros i. reflexivity. Qed.
Lemma agr_node w1 w2 i : agr w1 w2 -> G i -> w_nodes w2 i = w_nodes w1 i.
Proof. intros (_ & _ & _ & H) Hi. rewrite H. apply HGD in Hi. apply inb_notin in Hi. rewrite Hi. reflexivity. Qed.

(* m2 on the masked world does what m1 does on the real one; P holds of an OK result *)
Definition sim2 {A} (P : A -> Prop) (m1 m2 : W A) : Prop :=
  forall w1 w2 r w1', agr w1 w2 -> GC w1 -> m1 w1 = Val (r, w1') ->
    exists w2', m2 w2 = Val (r, w2') /\ agr w1' w2' /\ GC w1' /\ (forall a, r = OK a -> P a).
Notation sim P m := (sim2 P m m).
Definition any {A} : A -> Prop := fun _ => True.

Lemma sim_weaken {A} (P Q : A -> Prop) (m1 m2 : W A) : (forall a, P a -> Q a) -> sim2 P m1 m2 -> sim2 Q m1 m2.
Proof. intros HPQ H w1 w2 r w1' A1 G1 E. destruct (H _ _ _ _ A1 G1 E) as (w2' & B & Cc & Dd & Ee). eauto 10. Qed.

Lemma sim_ret {A} (P : A -> Prop) (a : A) : P a -> sim P (wret a).
Proof. intros HP w1 w2 r w1' A1 G1 E. apply wret_inv in E as (-> & ->). exists w2. split; [reflexivity|]. split; [exact A1|]. split; [exact G1|]. intros a0 [= <-]. exact HP. Qed.
Lemma sim_fail {A} (P : A -> Prop) e : sim P (@wfail A e).
Proof. intros w1 w2 r w1' A1 G1 E. apply wfail_inv in E as (-> & ->). exists w2. split; [reflexivity|]. split; [exact A1|]. split; [exact G1|]. intros a0 [=]. Qed.
Lemma sim_panic {A} (P : A -> Prop) s : sim P (@wpanic A s).
Proof. intros w1 w2 r w1' A1 G1 E. discriminate E. Qed.
Lemma sim_fuel {A} (P : A -> Prop) : sim P (@wfuel A).
Proof. intros w1 w2 r w1' A1 G1 E. discriminate E. Qed.
Lemma sim_lift {A} (x : res A) : sim any (wlift x).
Proof.
  intros w1 w2 r w1' A1 G1 E. apply wlift_inv in E as (a & -> & -> & ->). exists w2.
  split; [reflexivity|]. split; [exact A1|]. split; [exact G1|]. intros; exact I.
Qed.
Lemma sim_wl {A} (x : res A) : sim any (wl x).
Proof. apply sim_lift. Qed.

Lemma sim_bind {A B} (P : A -> Prop) (Q : B -> Prop) (m1 m2 : W A) (k1 k2 : A -> W B) :
  sim2 P m1 m2 -> (forall a, P a -> sim2 Q (k1 a) (k2 a)) -> sim2 Q (wbind m1 k1) (wbind m2 k2).
Proof.
  intros Hm Hk w1 w2 r w1' A1 G1 E. apply wbind_inv in E as [(a & wa & E1 & E2) | (e & E1 & ->)].
  - destruct (Hm _ _ _ _ A1 G1 E1) as (wb & B1 & A2 & G2 & Pa).
    destruct (Hk a (Pa a eq_refl) _ _ _ _ A2 G2 E2) as (wc & B2 & A3 & G3 & Qb).
    exists wc. split; [unfold wbind; rewrite B1; exact B2|auto].
  - destruct (Hm _ _ _ _ A1 G1 E1) as (wb & B1 & A2 & G2 & Pa).
    exists wb. split; [unfold wbind; rewrite B1; reflexivity|]. split; auto. split; auto. intros a [=].
Qed.
Lemma sim_try {A} (P : A -> Prop) (m1 m2 : W A) : sim2 P m1 m2 -> sim2 any (wtry m1) (wtry m2).
Proof.
  intros Hm w1 w2 r w1' A1 G1 E. apply wtry_inv in E as (r0 & E & ->).
  destruct (Hm _ _ _ _ A1 G1 E) as (wb & B1 & A2 & G2 & _).
  exists wb. split; [unfold wtry; rewrite B1; destruct r0; reflexivity|]. split; [exact A2|]. split; [exact G2|]. intros; exact I.
Qed.

Lemma sim_tryP {A} (P : A -> Prop) (m1 m2 : W A) :
  sim2 P m1 m2 -> sim2 (fun o => forall a, o = Some a -> P a) (wtry m1) (wtry m2).
Proof.
  intros Hm w1 w2 r w1' A1 G1 E. apply wtry_inv in E as (r0 & E & ->).
  destruct (Hm _ _ _ _ A1 G1 E) as (wb & B1 & A2 & G2 & HP).
  exists wb. split; [unfold wtry; rewrite B1; destruct r0; reflexivity|]. split; [exact A2|]. split; [exact G2|].
  intros o Ho a0 Ha0. destruct r0 as [a1|e1]; [|injection Ho as <-; discriminate Ha0].
  injection Ho as <-. injection Ha0 as <-. apply HP. reflexivity.
Qed.

Lemma sim_get_node {B} (Q : B -> Prop) i (k1 k2 : node -> W B) :
  G i -> (forall n, Gn n -> sim2 Q (k1 n) (k2 n)) -> sim2 Q (wbind (get_node i) k1) (wbind (get_node i) k2).
Proof.
  intros Hi Hk w1 w2 r w1' A1 G1 E. apply wbind_inv in E as [(n & wa & E1 & E2) | (e & E1 & _)].
  2:{ apply get_node_inv in E1 as (? & _ & [=] & _). }
  apply get_node_inv in E1 as (n' & Hn & [= ->] & ->).
  destruct (Hk n' (G1 _ _ Hi Hn) _ _ _ _ A1 G1 E2) as (wc & B2 & A3 & G3 & Qb).
  exists wc. split; [|auto]. unfold wbind, get_node. rewrite (agr_node _ _ _ A1 Hi), Hn. exact B2.
Qed.
Lemma sim_get_model m : sim any (get_model m).
Proof.
  intros w1 w2 r w1' (A1 & A2 & A3 & A4) G1 E. apply get_model_inv in E as (x & Hx & -> & ->).
  exists w2. split; [unfold get_model; rewrite A3, Hx; reflexivity|]. split; [split; auto|]. split; [exact G1|]. intros; exact I.
Qed.
Lemma sim_get_file f : sim any (get_file f).
Proof.
  intros w1 w2 r w1' (A1 & A2 & A3 & A4) G1 E. apply get_file_inv in E as (x & Hx & -> & ->).
  exists w2. split; [unfold get_file; rewrite A2, Hx; reflexivity|]. split; [split; auto|]. split; [exact G1|]. intros; exact I.
Qed.
Lemma sim_wget {B} (Q : B -> Prop) (k1 k2 : world -> W B) :
  (forall wa wb, w_next wb = w_next wa -> sim2 Q (k1 wa) (k2 wb)) -> sim2 Q (wbind wget k1) (wbind wget k2).
Proof.
  intros Hk w1 w2 r w1' A1 G1 E. apply wbind_inv in E as [(a & wa & E1 & E2) | (e & E1 & _)].
  2:{ apply wget_inv in E1 as ([=] & _). }
  apply wget_inv in E1 as ([= ->] & ->). pose proof A1 as (An & _).
  destruct (Hk w1 w2 An _ _ _ _ A1 G1 E2) as (wc & B2 & A3 & G3 & Qb). exists wc. split; auto.
Qed.

Lemma agr_wset w1 w2 i n' : agr w1 w2 -> G i -> agr (wset w1 i n') (wset w2 i n').
Proof.
  intros (A1 & A2 & A3 & A4) Hi. split; [exact A1|]. split; [exact A2|]. split; [exact A3|]. intros j. cbn [w_nodes wset].
  pose proof (HGD _ Hi) as HiD. destruct (N.eq_dec j i) as [->|Hne].
  - rewrite !upd_eq. apply inb_notin in HiD. rewrite HiD. reflexivity.
  - rewrite !upd_neq by auto. apply A4.
Qed.
Lemma GC_wset w i n' : GC w -> Gn n' -> GC (wset w i n').
Proof.
  intros G1 Hn j nj Hj Hnj. destruct (N.eq_dec j i) as [->|Hne].
  - rewrite nodes_wset_eq in Hnj. injection Hnj as <-. exact Hn.
  - rewrite nodes_wset_neq in Hnj by auto. eapply G1; eauto.
Qed.
Lemma sim_set_node i n' : G i -> Gn n' -> sim any (set_node i n').
Proof.
  intros Hi Hn w1 w2 r w1' A1 G1 E. apply set_node_wset in E as (-> & ->).
  exists (wset w2 i n'). split; [reflexivity|]. split; [apply agr_wset; auto|]. split; [apply GC_wset; auto|]. intros; exact I.
Qed.
Lemma sim_modify_node i f : G i -> (forall n, Gn n -> Gn (f n)) -> sim any (modify_node i f).
Proof.
  intros Hi Hf. unfold modify_node. apply sim_get_node; auto. intros n Hn. apply sim_set_node; auto.
Qed.
Lemma sim_modify_model m f : sim any (modify_model m f).
Proof.
  intros w1 w2 r w1' A1 G1 E. pose proof A1 as (B1 & B2 & B3 & B4).
  apply modify_model_inv in E as (x & Hx & -> & ->).
  assert (Hx2 : nth_opt (w_models w2) (N.to_nat m) = Some x) by (rewrite B3; exact Hx).
  exists (wmodels w2 (list_set (w_models w2) (N.to_nat m) (f x))). split.
  - unfold modify_model, wbind, get_model, set_model. rewrite Hx2. reflexivity.
  - split; [split; [exact B1|split; [exact B2|split; [cbn; rewrite B3; reflexivity|exact B4]]]|]. split; [exact G1|intros; exact I].
Qed.

Lemma Gn_parent n p : Gn n -> n_parent n = PElem p -> G p. Proof. intros (H & _). auto. Qed.
Lemma Gn_kid n c : Gn n -> In c (kids n) -> G c. Proof. intros (_ & H). auto. Qed.
Lemma Gn_first n s l : Gn n -> n_content n = CElem s :: l -> G s.
Proof. intros Hn E. eapply Gn_kid; eauto. unfold kids. rewrite E. left. reflexivity. Qed.

(* ------------------------------------------------------------------ the functions e_remove_from_file calls *)
Variable T : tables.
Notation simA m := (sim2 any m m).

Lemma sim_bindA {A B} (Q : B -> Prop) (m1 m2 : W A) (k1 k2 : A -> W B) :
  sim2 any m1 m2 -> (forall a, sim2 Q (k1 a) (k2 a)) -> sim2 Q (wbind m1 k1) (wbind m2 k2).
Proof. intros Hm Hk. eapply sim_bind; [exact Hm|intros a _; apply Hk]. Qed.
Lemma sim_any {A} (P : A -> Prop) (m1 m2 : W A) : sim2 P m1 m2 -> sim2 any m1 m2.
Proof. apply sim_weaken. intros; exact I. Qed.
Lemma sim_retA {A} (a : A) : simA (wret a). Proof. apply sim_ret. exact I. Qed.

Definition GOpt (o : option id) : Prop := forall p, o = Some p -> G p.

Lemma sim_parent_of n : Gn n -> sim GOpt (parent_of n).
Proof.
  intros Hn. unfold parent_of. destruct (n_parent n) as [|m|p] eqn:E.
  - apply sim_fail.
  - apply sim_ret. intros p [=].
  - apply sim_ret. intros q [= <-]. eapply Gn_parent; eauto.
Qed.

Lemma sim_parent_splittable n : Gn n -> simA (parent_splittable T n).
Proof.
  intros Hn. unfold parent_splittable. eapply sim_bind; [apply sim_parent_of; exact Hn|].
  intros [pi|] Hp; [|apply sim_retA]. apply sim_get_node; [apply Hp; reflexivity|]. intros pn _.
  apply sim_bindA; [apply sim_wl|intros s0; apply sim_retA].
Qed.

Lemma sim_file_model f : simA (file_model f).
Proof. unfold file_model. apply sim_bindA; [apply sim_get_file|intros x; apply sim_retA]. Qed.

Lemma sim_model_walk : forall fuel i, G i -> simA (model_walk fuel i).
Proof.
  induction fuel as [|f IH]; intros i Hi; cbn [model_walk]; [apply sim_fuel|].
  apply sim_get_node; auto. intros n Hn. destruct (n_parent n) as [|m|p] eqn:E.
  - apply sim_fail.
  - apply sim_retA.
  - apply IH. eapply Gn_parent; eauto.
Qed.
Lemma sim_model_of i : G i -> simA (model_of i).
Proof.
  intros Hi. unfold model_of. apply sim_wget. intros wa wb Hn. unfold fuel_of. rewrite Hn. apply sim_model_walk. exact Hi.
Qed.

Lemma sim_fm_walk self : forall fuel cur, G cur -> simA (fm_walk fuel self cur).
Proof.
  induction fuel as [|f IH]; intros cur Hc; cbn [fm_walk]; [apply sim_fuel|].
  apply sim_get_node; auto. intros n Hn. destruct (negb (is_empty (n_files n))); [apply sim_retA|].
  eapply sim_bind; [apply sim_parent_of; exact Hn|]. intros [pi|] Hp; [|apply sim_fail].
  apply IH. apply Hp. reflexivity.
Qed.
Lemma sim_file_membership i : G i -> simA (file_membership i).
Proof.
  intros Hi. unfold file_membership. apply sim_wget. intros wa wb Hn. unfold fuel_of. rewrite Hn. apply sim_fm_walk. exact Hi.
Qed.

Lemma sim_item_name n : Gn n -> simA (item_name T n).
Proof.
  intros Hn. unfold item_name. apply sim_bindA; [apply sim_wl|intros named].
  destruct (negb named); [apply sim_retA|].
  destruct (n_content n) as [|[s|d] l] eqn:E; try apply sim_retA.
  apply sim_get_node; [eapply Gn_first; eauto|]. intros sn _.
  destruct (n_name sn =? SHORT T); [|apply sim_retA].
  apply sim_bindA; [apply sim_wl|intros cd; apply sim_retA].
Qed.
Lemma sim_is_identifiable n : Gn n -> simA (is_identifiable T n).
Proof.
  intros Hn. unfold is_identifiable. apply sim_bindA; [apply sim_wl|intros named].
  destruct (negb named); [apply sim_retA|].
  destruct (n_content n) as [|[s|d] l] eqn:E; try apply sim_retA.
  apply sim_get_node; [eapply Gn_first; eauto|]. intros sn _. apply sim_retA.
Qed.

Lemma sim_up_names : forall fuel p acc, (forall i, p = PElem i -> G i) -> simA (up_names T fuel p acc).
Proof.
  induction fuel as [|f IH]; intros p acc Hp; cbn [up_names]; [apply sim_fuel|].
  destruct p as [|m|i]; [apply sim_fail|apply sim_retA|].
  apply sim_get_node; [apply Hp; reflexivity|]. intros n Hn.
  apply sim_bindA; [apply sim_item_name; exact Hn|intros nm].
  apply IH. intros j Hj. eapply Gn_parent; eauto.
Qed.
Lemma sim_path_unchecked n : Gn n -> simA (path_unchecked T n).
Proof.
  intros Hn. unfold path_unchecked. apply sim_bindA; [apply sim_item_name; exact Hn|intros own].
  apply sim_wget. intros wa wb Hx. unfold fuel_of. rewrite Hx.
  apply sim_bindA; [apply sim_up_names; intros j Hj; eapply Gn_parent; eauto|intros names; apply sim_retA].
Qed.

Lemma sim_kloop step : forall l, (forall c, In c (elems l) -> simA (step c)) -> simA (kloop step l).
Proof.
  induction l as [|[c|d] l IH]; intros Hs; cbn [kloop].
  - apply sim_retA.
  - apply sim_bindA; [apply Hs; rewrite elems_cons_elem; left; reflexivity|intros _].
    apply IH. intros c0 Hc0. apply Hs. rewrite elems_cons_elem. right. exact Hc0.
  - apply IH. intros c0 Hc0. apply Hs. rewrite elems_cons_data. exact Hc0.
Qed.

Lemma Gn_cleared x : Gn (set_parent (set_files (set_content x []) []) PNone).
Proof. split; [intros p [=]|intros c []]. Qed.

Lemma sim_remove_internal : forall fuel i m path, G i -> simA (remove_internal T fuel i m path).
Proof.
  induction fuel as [|f IH]; intros i m path Hi; [apply sim_fuel|].
  rewrite remove_internal_unfold.
  apply sim_get_node; auto. intros n Hn.
  apply sim_bindA; [apply sim_is_identifiable; exact Hn|intros ident].
  apply sim_bindA.
  { destruct ident; [|apply sim_retA]. apply sim_bindA; [apply sim_item_name; exact Hn|intros nm].
    destruct nm as [x|]; [|apply sim_retA].
    apply sim_bindA; [unfold remove_identifiable; apply sim_modify_model|intros _; apply sim_retA]. }
  intros path'.
  apply sim_bindA; [apply sim_wl|intros isr].
  apply sim_bindA.
  { destruct isr; [|apply sim_retA]. apply sim_bindA; [apply sim_wl|intros cd].
    destruct cd as [[e0|s0|u0|f0]|]; try apply sim_retA. unfold remove_reference_origin. apply sim_modify_model. }
  intros _.
  apply sim_bindA.
  { apply sim_kloop. intros c Hc. apply IH. eapply Gn_kid; eauto. }
  intros _. apply sim_modify_node; auto. intros x _. apply Gn_cleared.
Qed.

Lemma Gn_remove_at x pos : Gn x -> Gn (set_content x (remove_at (n_content x) pos)).
Proof.
  intros (Hp & Hk). split; [exact Hp|]. intros c Hc. apply Hk. unfold kids in *. cbn in Hc.
  eapply elems_remove_incl; eauto.
Qed.

Lemma sim_raw_remove self sub m : G self -> G sub -> simA (raw_remove_sub_element T self sub m).
Proof.
  intros Hs Hb. unfold raw_remove_sub_element.
  apply sim_get_node; auto. intros n Hn.
  apply sim_bindA; [apply sim_path_unchecked; exact Hn|intros path].
  destruct (index_of (citem_is sub) (n_content n)) as [pos|]; [|apply sim_fail].
  apply sim_bindA; [apply sim_wl|intros named].
  apply sim_get_node; auto. intros sn _.
  destruct (named && (n_name sn =? SHORT T)); [apply sim_fail|].
  apply sim_wget. intros wa wb Hx. unfold fuel_of. rewrite Hx.
  apply sim_bindA; [apply sim_remove_internal; exact Hb|intros _].
  apply sim_modify_node; auto. intros x Hx0. apply Gn_remove_at. exact Hx0.
Qed.

Lemma sim_e_remove_sub h sub : G h -> G sub -> simA (e_remove_sub_element T h sub).
Proof.
  intros Hh Hb. unfold e_remove_sub_element. destruct (h =? sub); [apply sim_fail|].
  apply sim_bindA; [apply sim_model_of; exact Hh|intros m]. apply sim_raw_remove; auto.
Qed.

Definition GList (l : list id) : Prop := forall x, In x l -> G x.

Lemma sim_dfs_kids f (IH : forall i, G i -> sim GList (dfs_ids f i)) :
  forall l, (forall c, In c (elems l) -> G c) -> sim GList (dfs_kids f l).
Proof.
  induction l as [|[c|d] l IHl]; intros Hl; cbn [dfs_kids].
  - apply sim_ret. intros x [].
  - eapply sim_bind; [apply IH; apply Hl; rewrite elems_cons_elem; left; reflexivity|]. intros a Ha.
    eapply sim_bind; [apply IHl; intros c0 Hc0; apply Hl; rewrite elems_cons_elem; right; exact Hc0|]. intros b Hb.
    apply sim_ret. intros x Hx. apply in_app_or in Hx as [Hx|Hx]; auto.
  - apply IHl. intros c0 Hc0. apply Hl. rewrite elems_cons_data. exact Hc0.
Qed.
Lemma sim_dfs_ids : forall fuel i, G i -> sim GList (dfs_ids fuel i).
Proof.
  induction fuel as [|f IH]; intros i Hi; [apply sim_fuel|]. rewrite dfs_ids_S.
  apply sim_get_node; auto. intros n Hn.
  eapply sim_bind; [apply sim_dfs_kids; [exact IH|intros c Hc; eapply Gn_kid; eauto]|]. intros rest Hr.
  apply sim_ret. intros x [<-|Hx]; auto.
Qed.

Lemma Gn_set_files x fs : Gn x -> Gn (set_files x fs).
Proof. intros H. exact H. Qed.

Lemma sim_scan f : forall ids, GList ids -> sim GList (scan_loop f ids).
Proof.
  induction ids as [|s rest IH]; intros Hl; cbn [scan_loop].
  - apply sim_ret. intros x [].
  - apply sim_get_node; [apply Hl; left; reflexivity|]. intros sn Hsn.
    assert (Hrest : GList rest) by (intros x Hx; apply Hl; right; exact Hx).
    destruct (negb (is_empty (n_files sn))); [|apply IH; exact Hrest].
    apply sim_bindA; [apply sim_set_node; [apply Hl; left; reflexivity|exact Hsn]|intros _].
    eapply sim_bind; [apply IH; exact Hrest|]. intros r0 Hr0.
    apply sim_ret. destruct (is_empty (set_remove f (n_files sn))); [|exact Hr0].
    intros x [<-|Hx]; [apply Hl; left; reflexivity|auto].
Qed.

Theorem sim_e_remove_from_file e f : G e -> simA (e_remove_from_file T e f).
Proof.
  intros He. unfold e_remove_from_file.
  apply sim_get_node; auto. intros n Hn.
  apply sim_bindA; [apply sim_parent_splittable; exact Hn|intros ps].
  destruct (negb ps); [apply sim_fail|].
  apply sim_bindA; [apply sim_file_model|intros fm].
  apply sim_bindA; [apply sim_model_of; exact He|intros m].
  destruct (negb (fm =? m)); [apply sim_fail|].
  apply sim_bindA; [apply sim_file_membership; exact He|intros [loc cur]].
  apply sim_bindA.
  { destruct (is_empty (set_remove f cur)); [|apply sim_retA].
    eapply sim_bind; [apply sim_parent_of; exact Hn|]. intros [pi|] Hp; [|apply sim_retA].
    apply sim_bindA; [eapply sim_try; apply sim_e_remove_sub; [apply Hp; reflexivity|exact He]|intros _; apply sim_retA]. }
  intros _.
  apply sim_bindA; [apply sim_modify_node; [exact He|intros x Hx; exact Hx]|intros _].
  apply sim_wget. intros wa wb Hx. unfold fuel_of. rewrite Hx.
  eapply sim_bind; [apply sim_dfs_ids; exact He|]. intros ids Hids.
  eapply sim_bind; [apply (sim_scan f ids Hids)|]. intros to_delete Hdel.
  induction to_delete as [|d rest IHd]; [apply sim_retA|].
  assert (Hd : G d) by (apply Hdel; left; reflexivity).
  apply sim_get_node; [exact Hd|]. intros dn Hdn.
  eapply sim_bind; [eapply sim_tryP; apply sim_parent_of; exact Hdn|]. intros p Hp.
  apply sim_bindA; [|intros _; apply IHd; intros x Hx0; apply Hdel; right; exact Hx0].
  destruct p as [[pi|]|]; try apply sim_retA.
  apply sim_bindA; [eapply sim_try; apply sim_e_remove_sub; [apply (Hp (Some pi) eq_refl pi eq_refl)|exact Hd]|intros _; apply sim_retA].
Qed.


End Sim.
