(* Tree/NoPanicProofsSerFile.v — C12: ArxmlFile::serialize (Tree/Serialize.v, f_serialize) never panics or runs out of fuel
   in a world with H2 = H12 /\ FI (Tree/NoPanicProofsFiles.v), for every file record (also of a removed file), and keeps H2:
   the file record's model exists, the root's file membership walk returns, the version has a file name (`filename()`), the
   update of xsi:schemaLocation returns (whatever it says) and keeps H12, and the walk over the tree returns as for
   Element::serialize (Tree/NoPanicProofsSer.v), now with the `for_file` filter. *)
From Coq Require Import Lia PeanoNat.
From AV Require Import Base.Bytes Base.Outcome Hash.HashModel Spec.SpecOps Spec.Versions Xml.TablesOk Tree.Heap Tree.Ops Tree.Script Tree.Inv.
From AV Require Import Tree.InvProofsBase Tree.OrdFiles Tree.OrdFilesOps Tree.OrdHist Tree.Serialize.
From AV Require Import Tree.NoPanic Tree.NoPanicProofsBase Tree.NoPanicProofsOps1 Tree.NoPanicProofsDepth Tree.NoPanicFloat Tree.NoPanicProofsHist
  Tree.NoPanicProofsSer Tree.NoPanicProofsOp2Inv Tree.NoPanicProofsFiles.
Open Scope string_scope.
Open Scope list_scope.
Open Scope N_scope.

Lemma nth_opt_lt' {A} (l : list A) k : (k < List.length l)%nat -> exists x, nth_opt l k = Some x.
Proof. revert k. induction l as [|a l IH]; intros [|k] H; cbn in *; try lia; eauto. apply IH. lia. Qed.
Lemma nth_opt_In {A} (l : list A) k x : nth_opt l k = Some x -> In x l.
Proof. revert k. induction l as [|a l IH]; intros [|k] H; cbn in *; try discriminate; [injection H as <-; auto|right; eauto]. Qed.

Section SerFile.
Variable T : tables.
Variable tab_el tab_at tab_en : nametab.
Variable check_fn : N -> list N -> res bool.
Variable LATEST : N.
Variable root_attrs : list (N * cdata).
Variable float_fmt : N -> list N.
Variable attr_schema_location : N.
Hypothesis OK12 : tables_ok12 T = true.
Hypothesis CHECK : forall fn s, exists b, check_fn fn s = Val b.
Hypothesis EnumsOK : forall k items it, T_cdata T k = Some (CEnum items) -> In it items -> to_str tab_en (fst it) <> None.
Hypothesis AttrsOK : forall k name cdid req, T_attributes T k = Some (name, cdid, req) -> to_str tab_at name <> None.

Notation ENV f := (f T tab_el tab_en check_fn LATEST root_attrs OK12 CHECK) (only parsing).
Notation H12 := (H12 T tab_el tab_at tab_en).
Notation f_ser := (f_serialize T tab_el tab_at tab_en check_fn float_fmt attr_schema_location).

Definition H2 (w : world) : Prop := H12 w /\ FI w.

Lemma H2_empty : H2 empty_world.
Proof. split; [apply H12_empty|apply FI_empty]. Qed.

(* the xsi:schemaLocation update keeps H2 *)
Lemma H2_raw_set_attribute h attr v ver w r w' : raw_set_attribute T check_fn h attr v ver w = Val (r, w') -> H2 w -> H2 w'.
Proof.
  intros H (I & (NF & FK)). split; [exact (H12_raw_set_attribute T tab_el tab_at tab_en check_fn EnumsOK AttrsOK h attr v ver w r w' H I)|].
  destruct (raw_set_attribute_srel T check_fn h attr v ver w r w' H) as ((M & _) & _ & F).
  pose proof (fp_raw_set_attribute T check_fn (w_files w) h attr v ver w r w' NF H) as NF'.
  split; [unfold NFE; rewrite F; exact NF'|]. intros k fl Hk. rewrite F in Hk. destruct (FK _ _ Hk) as (A & B). split; [rewrite M; exact A|exact B].
Qed.

Theorem H2_f_serialize f w r w' : f_ser f w = Val (r, w') -> H2 w -> H2 w'.
Proof.
  unfold f_serialize. intros H I.
  apply wbind_inv in H as [(fl & w1 & E & H)|(e & E & _)]; apply get_file_inv in E as (fl' & _ & _ & ->); [|exact I].
  apply wbind_inv in H as [(m & w1 & E & H)|(e & E & _)]; apply get_model_inv in E as (m' & _ & _ & ->); [|exact I].
  apply wbind_inv in H as [((a & files) & w1 & E & H)|(e & E & _)]; [apply ro_file_membership in E; subst w1|apply ro_file_membership in E; subst w'; exact I].
  destruct (negb (set_mem f files)); [apply wfail_inv in H as (_ & ->); exact I|].
  apply wbind_inv in H as [(fname & w1 & E & H)|(e & E & _)]; apply wlift_inv in E as (x & _ & _ & ->); [|exact I].
  apply wbind_inv in H as [(u & w1 & E & H)|(e & E & _)]; apply wtry_inv in E as (r0 & E & _);
    pose proof (H2_raw_set_attribute _ _ _ _ _ _ _ E I) as I1; [|exact I1].
  destruct (ser_heap _ _ _ _ _ _ _ _ _ _ _); try discriminate H. injection H as _ <-. exact I1.
Qed.

Theorem np_f_serialize w f : H2 w -> f < N.of_nat (List.length (w_files w)) -> runs (f_ser f) w.
Proof.
  intros (I & (NF & FK)) Lf. pose proof (H12_PanicFree T tab_el tab_at tab_en w I) as [C U CU].
  destruct (nth_opt_lt' (w_files w) (N.to_nat f)) as (fl & Hfl); [lia|].
  destruct (FK _ _ Hfl) as (Lm & Vv).
  destruct (nth_opt_lt' (w_models w) (N.to_nat (f_model fl))) as (m & Hm); [lia|].
  assert (Lr : m_root m < w_next w) by (exact (proj1 (cl_model _ _ _ _ C m (nth_opt_In _ _ _ Hm)))).
  unfold f_serialize.
  eapply runs_bind; [unfold get_file; rewrite Hfl; reflexivity|]. intros a [= <-].
  eapply runs_bind; [unfold get_model; rewrite Hm; reflexivity|]. intros a [= <-].
  eapply rd_bind_runs; [apply (ENV file_membership_ok w (m_root m) C U Lr)|]. intros (loc & files) _.
  destruct (negb (set_mem f files)); [apply runs_fail|].
  destruct (ver_ok_filename _ Vv) as (fname & Ef). rewrite Ef. cbn [unwrap].
  eapply runs_bind; [reflexivity|]. intros a [= <-].
  destruct (ENV np_raw_set_attribute w (m_root m) attr_schema_location
              (DString (BS "http://autosar.org/schema/r4.0 " ++ fname)) (f_version fl) C Lr) as (r0 & w1 & E).
  eapply runs_bind; [exact (wtry_val _ _ _ _ E)|]. intros a _.
  (* the world after the attribute update *)
  pose proof (H12_raw_set_attribute T tab_el tab_at tab_en check_fn EnumsOK AttrsOK _ _ _ _ _ _ _ E I) as I1.
  pose proof (H12_PanicFree T tab_el tab_at tab_en w1 I1) as [C1 U1 CU1].
  destruct (raw_set_attribute_srel T check_fn _ _ _ _ _ _ _ E) as (_ & Nx & _).
  assert (Lr1 : m_root m < w_next w1) by (rewrite Nx; exact Lr).
  assert (A1 : exists n, w_nodes w1 (m_root m) = Some n).
  { destruct (w_nodes w1 (m_root m)) as [n|] eqn:En; [eauto|]. exfalso. apply (cl_alloc _ _ _ _ C1 (m_root m)) in Lr1. exact (Lr1 En). }
  destruct (ser_heap_ok T tab_el tab_at tab_en float_fmt w1 (Some f) (H12_SerOK T tab_el tab_at tab_en OK12 w1 I1) (fuel_of w1) (m_root m) 0%nat false
              (hb_fuel T tab_el tab_en w1 (m_root m) C1 U1 CU1 Lr1) A1) as (s & Es).
  unfold runs. rewrite Es. eauto.
Qed.

End SerFile.
