(* Tree/IndexProofsTinyLoad.v — non-vacuity for loaded worlds (tiny tables, the loader model load_parsed with the
   specification-side parser state, file_a of agent-c06's Tree/FollowWitnessLoad.v):
   AutosarModel::new(); load (first file); get_element_by_path; set_item_name.  The path index and the referrer map of the loaded
   world are exact (boolean checkers index_ok / refs_ok of Tree/Index.v), the lookup finds the element, the rename re-keys the
   index and rewrites the reference, and both maps are exact again. *)
From AV Require Import Base.Bytes Base.Outcome Hash.HashModel Tree.Heap Tree.Ops Tree.Script Tree.Index Tree.Refs Tree.Load Tree.MergeSpec
  Tree.FollowWitnessLoad.
Import Tiny.
Open Scope list_scope.
Open Scope N_scope.

Example load_demo_summary :
  exists w1 w2,
    load_parsed tiny LATEST 99 0 (BS "a") file_a (pstate_of tiny 2 file_a) new_world = Val (OK 0, w1) /\
    Index.Tiny.idents_of w1 0 = [(BS "/p1", 3); (BS "/p1/S", 6); (BS "/p10", 8); (BS "/p10/R", 11)] /\
    Index.Tiny.origins_list w1 0 = [(BS "/p1/S", [13])] /\
    index_ok tiny w1 = true /\ refs_ok tiny w1 = true /\
    get_element_by_path 0 (BS "/p1/S") w1 = Val (OK (Some 6), w1) /\
    e_set_item_name tiny tiny_check_fn LATEST 3 (BS "q") w1 = Val (OK tt, w2) /\
    Index.Tiny.idents_of w2 0 = [(BS "/p10/R", 11); (BS "/q", 3); (BS "/p10", 8); (BS "/q/S", 6)] /\
    Index.Tiny.origins_list w2 0 = [(BS "/q/S", [13])] /\ ref_text tiny w2 13 = Some (BS "/q/S") /\
    index_ok tiny w2 = true /\ refs_ok tiny w2 = true.
Proof.
  destruct (load_parsed tiny LATEST 99 0 (BS "a") file_a (pstate_of tiny 2 file_a) new_world) as [[[f|e] w1]| |] eqn:E1;
    try (vm_compute in E1; discriminate E1).
  vm_compute in E1. injection E1 as <- <-.
  eexists. eexists. split; [reflexivity|]. split; [vm_compute; reflexivity|]. split; [vm_compute; reflexivity|].
  split; [vm_compute; reflexivity|]. split; [vm_compute; reflexivity|]. split; [vm_compute; reflexivity|].
  split; [vm_compute; reflexivity|]. vm_compute. repeat split; reflexivity.
Qed.
