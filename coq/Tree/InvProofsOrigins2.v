(* Tree/InvProofsOrigins2.v — C03: the reference-origin index, part 2: re-keying loops, deep_copy, and the computations
   that ADD an element (always guarded by is_reference()). *)
From Coq Require Import PeanoNat Arith.
From AV Require Import Base.Bytes Base.Outcome Hash.HashModel Tree.Heap Tree.Ops Tree.Script Tree.Inv
  Tree.InvProofsBase Tree.InvProofsCore Tree.InvProofsTree Tree.InvProofsPrim Tree.InvProofsCreate
  Tree.InvProofsData Tree.InvProofsRefs Tree.InvProofsRemove Tree.InvProofsFiles Tree.InvProofsMove
  Tree.InvProofsCopy Tree.InvProofsRename Tree.InvProofsOrigins.
Open Scope string_scope.
Open Scope list_scope.
Open Scope N_scope.

#[export] Hint Resolve osp_add_identifiable osp_remove_identifiable osp_fix_identifiables osp_remove_reference_origin
  osp_content_insert osp_raw_set_cdata osp_raw_set_attribute osp_detach_from osp_move_position osp_make_unique
  osp_create_inner osp_raw_create_sub osp_raw_create_sub_at osp_create_named_inner osp_raw_create_named
  osp_raw_create_named_at osp_remove_internal osp_raw_remove osp_e_remove osp_add_to_file_restricted
  osp_set_file_membership osp_e_remove_from_file : osp.

Section OS2.
Variable T : tables.
Variable tab_el tab_en : nametab.
Variable check_fn : N -> list N -> res bool.
Variable LATEST : N.

Lemma osp_each_loop {A} (body : A -> W unit) l : (forall a, osp (body a)) -> osp (each_loop body l).
Proof. intros Hb. induction l as [|a l IH]; cbn [each_loop]; os_tac. Qed.
Lemma osp_upd_refs_loop refstr version rl : osp (upd_refs_loop T check_fn refstr version rl).
Proof. induction rl as [|re rr IH]; cbn [upd_refs_loop]; os_tac. Qed.
Lemma osp_ow_loop p rl : osp (ow_loop p rl).
Proof. induction rl as [|re rr IH]; cbn [ow_loop]; os_tac. Qed.
Lemma osp_fixid_body m sp dp op : osp (fixid_body m sp dp op).
Proof. unfold fixid_body. os_tac. Qed.
Lemma osp_rm_id_loop m_src l : osp (rm_id_loop m_src l).
Proof. induction l as [|[p e] l IH]; cbn [rm_id_loop]; os_tac. Qed.
Lemma osp_rm_ref_loop m_src l : osp (rm_ref_loop m_src l).
Proof. induction l as [|[p e] l IH]; cbn [rm_ref_loop]; os_tac. Qed.
Lemma osp_add_id_loop m sp dp l : osp (add_id_loop m sp dp l).
Proof. induction l as [|[p e] l IH]; cbn [add_id_loop]; os_tac. Qed.

(* re-keying a referrer list: remove the old key, rewrite the texts, merge the list under the new key *)
Lemma osub_rekey (loop : W unit) m x key newkey refs w r w' :
  osp loop -> nth_opt (w_models w) (N.to_nat m) = Some x -> assoc_get key (m_origins x) = Some refs ->
  (set_model m (set_origins x (assoc_remove key (m_origins x)));;
   loop;;
   modify_model m (fun y => set_origins y (match assoc_get newkey (m_origins y) with
                                            | Some l0 => assoc_insert newkey (l0 ++ refs) (m_origins y)
                                            | None => m_origins y ++ [(newkey, refs)] end)))%W w = Val (r, w') ->
  osub w w'.
Proof.
  intros Hloop Hx Hg H.
  assert (Hrefs : forall re, In re refs -> in_origins w re).
  { intros re Hre. apply assoc_get_in in Hg as (k' & Hk'). eapply in_origins_get; eauto. }
  wstepn H u Es. apply set_model_inv in Es as (_ & ->).
  set (w1 := wmodels w _) in *.
  assert (S1 : osub w w1).
  { intros re (z & k & l & Hz & Hk & Hre). cbn in Hz. apply in_list_set in Hz as [->|Hz].
    - cbn in Hk. apply assoc_remove_in in Hk. eapply in_origins_get; eauto.
    - exists z, k, l. auto. }
  wstepn H u2 El. 2:{ eapply osub_trans; [exact S1 | eapply Hloop; eauto]. }
  assert (S2 : osub w w0) by (eapply osub_trans; [exact S1 | eapply Hloop; eauto]).
  apply modify_model_inv in H as (y & Hy & _ & ->).
  intros re (z & k & l & Hz & Hk & Hre). cbn in Hz. apply in_list_set in Hz as [->|Hz].
  - cbn in Hk. destruct (assoc_get newkey (m_origins y)) as [l0|] eqn:Hg0.
    + apply assoc_insert_in in Hk as [Hk| ->].
      * apply S2. eapply in_origins_get; eauto.
      * apply in_app_or in Hre as [Hre|Hre]; auto.
        apply S2. apply assoc_get_in in Hg0 as (k' & Hk'). eapply in_origins_get; eauto.
    + apply in_app_or in Hk as [Hk|[[= <- <-]|[]]]; auto. apply S2. eapply in_origins_get; eauto.
  - apply S2. exists z, k, l. auto.
Qed.

Lemma osp_move_ref_body m sp dp version orig_ref : osp (move_ref_body T check_fn m sp dp version orig_ref).
Proof.
  intros w r w' H. unfold move_ref_body in H.
  destruct (strip_prefix sp orig_ref) as [suffix|]; [|winv H; apply osub_refl].
  wstepn H x Ex; winv Ex.
  destruct (assoc_get orig_ref (m_origins x0)) as [refs|] eqn:Hg; [|winv H; apply osub_refl].
  eapply (osub_rekey (upd_refs_loop T check_fn (dp ++ suffix) version refs)); eauto. apply osp_upd_refs_loop.
Qed.

Lemma osp_rename_ref_body m op np refpath : osp (rename_ref_body m op np refpath).
Proof.
  intros w r w' H. unfold rename_ref_body in H.
  destruct (strip_prefix op refpath) as [partial|]; [|winv H; apply osub_refl].
  destruct (is_empty partial || starts_with_slash partial); [|winv H; apply osub_refl].
  wstepn H x Ex; winv Ex.
  destruct (assoc_get refpath (m_origins x0)) as [refs|] eqn:Hg; [|winv H; apply osub_refl].
  eapply (osub_rekey (ow_loop (np ++ partial) refs)); eauto. apply osp_ow_loop.
Qed.

(* deep_copy does not touch the model records *)
Lemma osp_items f ty version c : (forall src ver, osp (deep_copy T f src ver)) -> forall l, osp (items_loop T f ty version c l).
Proof. intros IHf. induction l as [|[s|d] l IH]; cbn [items_loop]; os_tac. Qed.
Lemma osp_deep_copy f : forall src ver, osp (deep_copy T f src ver).
Proof.
  induction f as [|f IHf]; intros src ver; [intros w r w' H; discriminate|].
  change (deep_copy T (S f) src ver) with
    (do n <- get_node src;
     do c <- alloc (mkNode PNone (n_name n) (n_type n) [] [] [] (n_comment n));
     do attrs <- copy_attrs T (n_type n) ver (n_attrs n) [];
     modify_node c (fun x => set_attrs x attrs);;
     items_loop T f (n_type n) ver c (n_content n);;
     wret c)%W.
  os_tac. apply osp_items. exact IHf.
Qed.

End OS2.
