(* Tree/IndexProofsCopyB.v — C04/C05: the result conditions of a copy that follow from the invariants of the source world.
   dc_garbage   every node allocated by deep_copy is a node of the returned tree or a leaf without content that carries the
                name and type of a source node (the left-over of a sub-element whose attributes are not permitted)
   so the side invariants of ALL nodes allocated by create_copied_sub_element hold without looking at the result: the nodes of
   the tree are filtered copies (agent-c13's FiltR: same name and type, the character data of the source, sub-elements copied or
   dropped), the new SHORT-NAME text is '/'-free when the source's is, and a copied element that is identifiable has a name when
   the source world has no late SHORT-NAME.  What remains of copy_clean: nobody twice in the walk, no two identifiable elements
   of the copy with the same path, no identifiable element inside a copy that is not identifiable (copy_clean_b). *)
From Coq Require Import Lia PeanoNat.
From AV Require Import Base.Bytes Base.Outcome Hash.HashModel Tree.Heap Tree.Ops Tree.Script Tree.IndexProofsW
  Tree.Index Tree.IndexProofsBase Tree.IndexProofsAssoc Tree.IndexProofsFrame Tree.IndexProofsAttach
  Tree.IndexProofsTree Tree.IndexProofsCreate Tree.IndexProofsNamed Tree.Refs Tree.RefsAll Tree.RefsProofsBase Tree.RefsProofs
  Tree.Follow Tree.FollowProofsPath Tree.FollowProofsTree Tree.IndexProofsReg Tree.IndexProofsMoveOp
  Tree.CopyProofsDefs Tree.CopyProofsDeep Tree.CopyProofsCreate Tree.CopyProofsFK Tree.CopyProofsTop Tree.Observe Tree.FailProofsCopy
  Tree.IndexProofsRemove Tree.IndexProofsRemoveOp Tree.IndexProofsFilesOps Tree.IndexProofsCopy Tree.IndexProofsCopyA.
Open Scope string_scope.
Open Scope list_scope.
Open Scope N_scope.

Lemma Sub_mono w w' a x :
  (forall p n, w_nodes w p = Some n -> exists n', w_nodes w' p = Some n' /\ forall c, In (CElem c) (n_content n) -> In (CElem c) (n_content n')) ->
  Sub w a x -> Sub w' a x.
Proof.
  intros Hm H. induction H as [|p n c _ IH Hp Hc]; [constructor|]. destruct (Hm p n Hp) as (n' & Hp' & Hs).
  eapply Sub_step; [exact IH|exact Hp'|apply Hs; exact Hc].
Qed.
Lemma Sub_trans w a b c : Sub w a b -> Sub w b c -> Sub w a c.
Proof. intros H1 H2. induction H2 as [|p n x _ IH Hp Hx]; [exact H1|]. eapply Sub_step; eauto. Qed.

Section CopyB.
Variable T : tables.

(* a left-over leaf: no content, name and type of a node of the source world *)
Definition Leaf0 (w0 : world) (nj : node) : Prop :=
  n_content nj = [] /\ exists s ns, w_nodes w0 s = Some ns /\ n_name nj = n_name ns /\ n_type nj = n_type ns.

Section Garbage.
Variable w0 : world.
Hypothesis C0 : Closed w0.
Notation lo0 := (w_next w0).

Definition Bnd (w : world) : Prop := forall i n, w_nodes w i = Some n -> i < w_next w.
Definition Cls (w : world) (c : id) : Prop :=
  forall j nj, c <= j -> w_nodes w j = Some nj -> Sub w c j \/ Leaf0 w0 nj.

Definition GL (dc : id -> N -> W id) : Prop := forall src v w r w1,
  lo0 <= w_next w -> Bnd w -> (forall i, i < lo0 -> w_nodes w i = w_nodes w0 i) -> src < lo0 ->
  dc src v w = Val (r, w1) ->
  Bnd w1 /\ (forall i, i < w_next w -> w_nodes w1 i = w_nodes w i) /\ w_next w <= w_next w1 /\
  (forall c, r = OK c -> w_next w <= c /\ exists nc, w_nodes w1 c = Some nc) /\
  (forall j nj, w_next w <= j -> w_nodes w1 j = Some nj -> (exists c, r = OK c /\ Sub w1 c j) \/ Leaf0 w0 nj).

Lemma Bnd_wset w i n x : Bnd w -> w_nodes w i = Some n -> Bnd (mkWorld (upd (w_nodes w) i x) (w_next w) (w_files w) (w_models w)).
Proof.
  intros HB Hi j y Hy. cbn [w_nodes w_next] in *. destruct (N.eq_dec j i) as [->|Hne]; [eapply HB; eauto|].
  rewrite upd_neq in Hy by exact Hne. eapply HB; eauto.
Qed.
Lemma mono_wset w i n x :
  w_nodes w i = Some n -> (forall c, In (CElem c) (n_content n) -> In (CElem c) (n_content x)) ->
  forall p np, w_nodes w p = Some np ->
    exists n', w_nodes (mkWorld (upd (w_nodes w) i x) (w_next w) (w_files w) (w_models w)) p = Some n' /\
               forall c, In (CElem c) (n_content np) -> In (CElem c) (n_content n').
Proof.
  intros Hi Hs p np Hp. cbn [w_nodes]. destruct (N.eq_dec p i) as [->|Hne].
  - rewrite upd_eq. rewrite Hi in Hp. injection Hp as <-. eauto.
  - rewrite upd_neq by exact Hne. eauto.
Qed.

Lemma dc_items_garbage dc (Hdc : GL dc) c ty v : forall l w r w',
  lo0 <= c -> c < w_next w -> Bnd w -> (forall i, i < lo0 -> w_nodes w i = w_nodes w0 i) ->
  (exists nc, w_nodes w c = Some nc) -> (forall s, In (CElem s) l -> s < lo0) -> Cls w c ->
  dc_items T dc c ty v l w = Val (r, w') ->
  r = OK tt /\ Bnd w' /\ (forall i, i < c -> w_nodes w' i = w_nodes w i) /\ w_next w <= w_next w' /\ Cls w' c /\
  exists nc', w_nodes w' c = Some nc'.
Proof.
  induction l as [|[s|d] rest IH]; intros w r w' Hc0 Hcw HB H0 Hnc Hsrc HCl H.
  - rewrite dc_items_nil in H. apply wret_inv in H as (-> & ->). split; [reflexivity|]. split; [exact HB|]. split; [auto|]. split; [lia|]. split; [exact HCl|exact Hnc].
  - rewrite dc_items_elem in H.
    assert (Hs : s < lo0) by (apply Hsrc; left; reflexivity).
    assert (Hsrc' : forall s', In (CElem s') rest -> s' < lo0) by (intros s' Hin; apply Hsrc; right; exact Hin).
    apply wbind_inv in H as [(sn & wa & E & H) | (e & E & _)]; [|apply get_node_inv in E as (? & _ & [=] & _)].
    apply get_node_inv in E as (sn' & _ & _ & ->).
    apply wbind_inv in H as [(fs & wb & E & H) | (e & E & _)]; [|apply wl_inv in E as (? & _ & [=] & _)].
    apply wl_inv in E as (fs' & _ & _ & ->).
    destruct fs as [x|]; [|exact (IH _ _ _ Hc0 Hcw HB H0 Hnc Hsrc' HCl H)].
    apply wbind_inv in H as [(ro & w1 & E & H) | (e & E & _)]; [|apply wtry_inv in E as (? & _ & [=])].
    apply wtry_inv in E as (r0 & E & Ero).
    assert (Hlow : lo0 <= w_next w) by lia.
    destruct (Hdc _ _ _ _ _ Hlow HB H0 Hs E) as (HB1 & F1 & N1 & R1 & G1).
    assert (H01 : forall i, i < lo0 -> w_nodes w1 i = w_nodes w0 i) by (intros i Hi; rewrite F1 by lia; apply H0; exact Hi).
    destruct Hnc as (nc & Hnc).
    assert (Hnc1 : w_nodes w1 c = Some nc) by (rewrite F1 by exact Hcw; exact Hnc).
    assert (Hm01 : forall p n, w_nodes w p = Some n -> exists n', w_nodes w1 p = Some n' /\ forall y, In (CElem y) (n_content n) -> In (CElem y) (n_content n')).
    { intros p n Hp. rewrite F1 by (eapply HB; eauto). eauto. }
    destruct r0 as [cs|e0].
    + (* the sub-element is copied *)
      injection Ero as ->. destruct (R1 cs eq_refl) as (Hcs_ge & ncs0 & Hncs0).
      apply wbind_inv in H as [(u & w2 & E2 & H) | (e & E2 & _)]; [|apply modify_node_inv in E2 as (? & _ & [=] & _)].
      apply modify_node_inv in E2 as (ncs & Hncs & _ & ->).
      apply wbind_inv in H as [(u3 & w3 & E3 & H) | (e & E3 & _)]; [|apply modify_node_inv in E3 as (? & _ & [=] & _)].
      apply modify_node_inv in E3 as (nc2 & Hnc2 & _ & ->).
      assert (Hccs : c <> cs) by lia.
      cbn [w_nodes] in Hnc2. rewrite upd_neq in Hnc2 by exact Hccs. rewrite Hnc1 in Hnc2. injection Hnc2 as <-.
      set (w2 := mkWorld (upd (w_nodes w1) cs (set_parent ncs (PElem c))) (w_next w1) (w_files w1) (w_models w1)) in *.
      set (xc := set_content nc (n_content nc ++ [CElem cs])) in *.
      set (w3 := mkWorld (upd (w_nodes w2) c xc) (w_next w2) (w_files w2) (w_models w2)) in *.
      assert (HB3 : Bnd w3).
      { eapply Bnd_wset with (n := nc); [eapply Bnd_wset; eauto|]. unfold w2. cbn [w_nodes]. rewrite upd_neq by exact Hccs. exact Hnc1. }
      assert (Hm13 : forall p n, w_nodes w1 p = Some n -> exists n', w_nodes w3 p = Some n' /\ forall y, In (CElem y) (n_content n) -> In (CElem y) (n_content n')).
      { intros p n Hp. unfold w3, w2. cbn [w_nodes]. destruct (N.eq_dec p c) as [->|H1].
        - rewrite upd_eq. rewrite Hnc1 in Hp. injection Hp as <-. eexists. split; [reflexivity|]. intros y Hy. unfold xc. cbn. apply in_or_app. left. exact Hy.
        - rewrite upd_neq by exact H1. destruct (N.eq_dec p cs) as [->|H2].
          + rewrite upd_eq. rewrite Hncs in Hp. injection Hp as <-. eexists. split; [reflexivity|]. cbn. auto.
          + rewrite upd_neq by exact H2. eauto. }
      assert (Hc3 : w_nodes w3 c = Some xc) by (unfold w3; cbn [w_nodes]; apply upd_eq).
      assert (Hsub_cs : Sub w3 c cs).
      { eapply Sub_step; [apply Sub_refl|exact Hc3|]. unfold xc. cbn. apply in_or_app. right. left. reflexivity. }
      assert (HCl3 : Cls w3 c).
      { intros j nj Hj Hnj. destruct (N.eq_dec j c) as [->|Hjc]; [left; apply Sub_refl|].
        destruct (N.eq_dec j cs) as [->|Hjcs]; [left; exact Hsub_cs|].
        assert (Hnj1 : w_nodes w1 j = Some nj) by (unfold w3, w2 in Hnj; cbn [w_nodes] in Hnj; rewrite !upd_neq in Hnj by assumption; exact Hnj).
        destruct (N.lt_ge_cases j (w_next w)) as [Hlt|Hge].
        - rewrite F1 in Hnj1 by exact Hlt. destruct (HCl j nj Hj Hnj1) as [HS|HL]; [|right; exact HL].
          left. apply (Sub_mono w1 w3 c j Hm13). apply (Sub_mono w w1 c j Hm01). exact HS.
        - destruct (G1 j nj Hge Hnj1) as [(c1 & [= <-] & HS)|HL]; [|right; exact HL].
          left. eapply Sub_trans; [exact Hsub_cs|]. apply (Sub_mono w1 w3 cs j Hm13). exact HS. }
      assert (H03 : forall i, i < lo0 -> w_nodes w3 i = w_nodes w0 i).
      { intros i Hi. unfold w3, w2. cbn [w_nodes]. rewrite !upd_neq by lia. apply H01. exact Hi. }
      destruct (IH w3 r w' Hc0 ltac:(unfold w3, w2; cbn [w_next]; lia) HB3 H03 (ex_intro _ xc Hc3) Hsrc' HCl3 H)
        as (Hr & HB' & Fr & Nx & HCl' & Hnc').
      split; [exact Hr|]. split; [exact HB'|]. split.
      { intros i Hi. rewrite Fr by exact Hi. unfold w3, w2. cbn [w_nodes]. rewrite !upd_neq by lia. apply F1. lia. }
      split; [unfold w3, w2 in Nx; cbn [w_next] in Nx; lia|]. split; assumption.
    + (* the sub-element is not permitted: what it allocated are leaves *)
      injection Ero as ->.
      assert (HCl1 : Cls w1 c).
      { intros j nj Hj Hnj. destruct (N.lt_ge_cases j (w_next w)) as [Hlt|Hge].
        - rewrite F1 in Hnj by exact Hlt. destruct (HCl j nj Hj Hnj) as [HS|HL]; [|right; exact HL].
          left. apply (Sub_mono w w1 c j Hm01). exact HS.
        - destruct (G1 j nj Hge Hnj) as [(c1 & [=] & _)|HL]. right. exact HL. }
      destruct (IH w1 r w' Hc0 ltac:(lia) HB1 H01 (ex_intro _ nc Hnc1) Hsrc' HCl1 H) as (Hr & HB' & Fr & Nx & HCl' & Hnc').
      split; [exact Hr|]. split; [exact HB'|]. split; [intros i Hi; rewrite Fr by exact Hi; apply F1; lia|]. split; [lia|]. split; assumption.
  - rewrite dc_items_data in H.
    assert (Hsrc' : forall s', In (CElem s') rest -> s' < lo0) by (intros s' Hin; apply Hsrc; right; exact Hin).
    apply wbind_inv in H as [(u3 & w3 & E3 & H) | (e & E3 & _)]; [|apply modify_node_inv in E3 as (? & _ & [=] & _)].
    apply modify_node_inv in E3 as (nc & Hnc2 & _ & ->).
    set (xc := set_content nc (n_content nc ++ [CData d])) in *.
    set (w3 := mkWorld (upd (w_nodes w) c xc) (w_next w) (w_files w) (w_models w)) in *.
    assert (HB3 : Bnd w3) by (eapply Bnd_wset; eauto).
    assert (Hm03 : forall p n, w_nodes w p = Some n -> exists n', w_nodes w3 p = Some n' /\ forall y, In (CElem y) (n_content n) -> In (CElem y) (n_content n')).
    { apply (mono_wset w c nc xc Hnc2). intros y Hy. unfold xc. cbn. apply in_or_app. left. exact Hy. }
    assert (Hc3 : w_nodes w3 c = Some xc) by (unfold w3; cbn [w_nodes]; apply upd_eq).
    assert (HCl3 : Cls w3 c).
    { intros j nj Hj Hnj. destruct (N.eq_dec j c) as [->|Hjc]; [left; apply Sub_refl|].
      unfold w3 in Hnj. cbn [w_nodes] in Hnj. rewrite upd_neq in Hnj by exact Hjc.
      destruct (HCl j nj Hj Hnj) as [HS|HL]; [left; apply (Sub_mono w w3 c j Hm03); exact HS|right; exact HL]. }
    assert (H03 : forall i, i < lo0 -> w_nodes w3 i = w_nodes w0 i).
    { intros i Hi. unfold w3. cbn [w_nodes]. rewrite upd_neq by lia. apply H0. exact Hi. }
    destruct (IH w3 r w' Hc0 Hcw HB3 H03 (ex_intro _ xc Hc3) Hsrc' HCl3 H) as (Hr & HB' & Fr & Nx & HCl' & Hnc').
    split; [exact Hr|]. split; [exact HB'|]. split.
    { intros i Hi. rewrite Fr by exact Hi. unfold w3. cbn [w_nodes]. apply upd_neq. lia. }
    split; [exact Nx|]. split; assumption.
Qed.

Lemma dc_garbage : forall fuel, GL (deep_copy T fuel).
Proof.
  induction fuel as [|f IHf]; intros src v w r w1 Hlo HB H0 Hsrc H; [discriminate H|].
  rewrite deep_copy_S in H.
  apply wbind_inv in H as [(n & wa & E & H) | (e & E & _)]; [|apply get_node_inv in E as (? & _ & [=] & _)].
  apply get_node_inv in E as (n' & Hn & [= <-] & ->).
  assert (Hn0 : w_nodes w0 src = Some n) by (rewrite <- H0 by exact Hsrc; exact Hn).
  apply wbind_inv in H as [(c & wA & E & H) | (e & E & _)]; [|apply alloc_inv in E as ([=] & _)].
  apply alloc_inv in E as ([= ->] & ->).
  set (x0 := mkNode PNone (n_name n) (n_type n) [] [] [] (n_comment n)) in *.
  set (wA := mkWorld (upd (w_nodes w) (w_next w) x0) (w_next w + 1) (w_files w) (w_models w)) in *.
  assert (HBA : Bnd wA).
  { intros j y Hy. unfold wA in *. cbn [w_nodes w_next] in *. destruct (N.eq_dec j (w_next w)) as [->|Hne]; [lia|].
    rewrite upd_neq in Hy by exact Hne. pose proof (HB _ _ Hy). lia. }
  assert (HL0 : Leaf0 w0 x0) by (split; [reflexivity|exists src, n; auto]).
  assert (Hnew_only : forall j nj, w_next w <= j -> w_nodes wA j = Some nj -> j = w_next w).
  { intros j nj Hj Hnj. pose proof (HBA _ _ Hnj) as Hlt. unfold wA in Hlt. cbn [w_next] in Hlt. lia. }
  apply wbind_inv in H as [(attrs & w2 & E & H) | (e & E & Hr)].
  2:{ (* the attributes are not permitted: one leaf *)
      apply ro_copy_attrs in E. subst w1. split; [exact HBA|]. split.
      { intros i Hi. unfold wA. cbn [w_nodes]. apply upd_neq. lia. }
      split; [unfold wA; cbn [w_next]; lia|]. split; [intros c0 Hc0; subst r; discriminate Hc0|].
      intros j nj Hj Hnj. right. rewrite (Hnew_only j nj Hj Hnj) in Hnj. unfold wA in Hnj. cbn [w_nodes] in Hnj. rewrite upd_eq in Hnj.
      injection Hnj as <-. exact HL0. }
  apply ro_copy_attrs in E. subst w2.
  apply wbind_inv in H as [(u & wB & E & H) | (e & E & _)]; [|apply modify_node_inv in E as (? & _ & [=] & _)].
  apply modify_node_inv in E as (y & Hy & _ & ->).
  unfold wA in Hy. cbn [w_nodes] in Hy. rewrite upd_eq in Hy. injection Hy as <-.
  set (xa := set_attrs x0 attrs) in *.
  set (wB := mkWorld (upd (w_nodes wA) (w_next w) xa) (w_next wA) (w_files wA) (w_models wA)) in *.
  assert (HBB : Bnd wB) by (eapply Bnd_wset with (n := x0); [exact HBA|unfold wA; cbn [w_nodes]; apply upd_eq]).
  assert (HcB : w_nodes wB (w_next w) = Some xa) by (unfold wB; cbn [w_nodes]; apply upd_eq).
  assert (H0B : forall i, i < lo0 -> w_nodes wB i = w_nodes w0 i).
  { intros i Hi. unfold wB, wA. cbn [w_nodes]. rewrite !upd_neq by lia. apply H0. exact Hi. }
  assert (HClB : Cls wB (w_next w)).
  { intros j nj Hj Hnj. left. assert (j = w_next w); [|subst; apply Sub_refl].
    pose proof (HBB _ _ Hnj) as Hlt. unfold wB, wA in Hlt. cbn [w_next] in Hlt. lia. }
  assert (Hkids : forall s, In (CElem s) (n_content n) -> s < lo0).
  { intros s Hs. destruct (proj2 C0 src n s Hn0 Hs) as (sn & Hsn). exact (proj1 C0 _ _ Hsn). }
  assert (HcltB : w_next w < w_next wB) by (unfold wB, wA; cbn [w_next]; lia).
  apply wbind_inv in H as [(u2 & w3 & E & H) | (e & E & _)].
  2:{ destruct (dc_items_garbage _ IHf (w_next w) (n_type n) v _ _ _ _ Hlo HcltB HBB H0B
                  (ex_intro _ xa HcB) Hkids HClB E) as ([=] & _). }
  destruct (dc_items_garbage _ IHf (w_next w) (n_type n) v _ _ _ _ Hlo HcltB HBB H0B
              (ex_intro _ xa HcB) Hkids HClB E) as (_ & HB3 & F3 & N3 & HCl3 & Hnc3).
  apply wret_inv in H as (-> & ->).
  split; [exact HB3|]. split.
  { intros i Hi. rewrite F3 by exact Hi. unfold wB, wA. cbn [w_nodes]. rewrite !upd_neq by lia. reflexivity. }
  split; [unfold wB, wA in N3; cbn [w_next] in N3; lia|]. split.
  { intros c0 [= <-]. split; [lia|exact Hnc3]. }
  intros j nj Hj Hnj. destruct (HCl3 j nj Hj Hnj) as [HS|HL]; [left; eauto|right; exact HL].
Qed.

End Garbage.

(* ---------- the nodes of the returned tree are filtered copies *)
Lemma FiltRItems_in lo v w w1 c ty l l' : FiltRItems T lo v w w1 c ty l l' ->
  forall y, In (CElem y) l' -> exists s, In (CElem s) l /\ FiltR T lo v w w1 (PElem c) s y.
Proof.
  induction 1 as [c ty|c ty d r r' _ IH|c ty s cs sn x r r' Hs Hf Hlt HF _ IH|c ty s sn r r' _ _ _ IH|c ty s sn x r r' _ _ _ _ IH]; intros y Hy.
  - destruct Hy.
  - destruct Hy as [E|Hy]; [discriminate E|]. destruct (IH y Hy) as (s0 & Hin & HFs). exists s0. split; [right; exact Hin|exact HFs].
  - destruct Hy as [[= <-]|Hy]; [exists s; split; [left; reflexivity|exact HF]|].
    destruct (IH y Hy) as (s0 & Hin & HFs). exists s0. split; [right; exact Hin|exact HFs].
  - destruct (IH y Hy) as (s0 & Hin & HFs). exists s0. split; [right; exact Hin|exact HFs].
  - destruct (IH y Hy) as (s0 & Hin & HFs). exists s0. split; [right; exact Hin|exact HFs].
Qed.
Lemma FiltRItems_chars lo v w w1 c ty l l' : FiltRItems T lo v w w1 c ty l l' -> chars_content l -> l' = l.
Proof.
  intros H [->|(d & ->)].
  - inversion H. reflexivity.
  - inversion H as [|? ? ? ? ? H2| | |]; subst. inversion H2. reflexivity.
Qed.
(* the first item of the copy, when it is an element, copies the first element of the source that was not dropped *)
Lemma FiltRItems_head lo v w w1 c ty l l' : FiltRItems T lo v w w1 c ty l l' ->
  forall y r', l' = CElem y :: r' ->
  exists pre s post, l = pre ++ CElem s :: post /\ (forall it, In it pre -> exists e, it = CElem e) /\ FiltR T lo v w w1 (PElem c) s y.
Proof.
  induction 1 as [c ty|c ty d r r' _ IH|c ty s cs sn x r r' Hs Hf Hlt HF _ IH|c ty s sn r r' _ _ _ IH|c ty s sn x r r' _ _ _ _ IH]; intros y r0 E.
  - discriminate E.
  - discriminate E.
  - injection E as <- <-. exists [], s, r. split; [reflexivity|]. split; [intros it []|exact HF].
  - destruct (IH y r0 E) as (pre & s0 & post & -> & Hp & HFs). exists (CElem s :: pre), s0, post. split; [reflexivity|]. split; [|exact HFs].
    intros it [<-|Hin]; [eauto|auto].
  - destruct (IH y r0 E) as (pre & s0 & post & -> & Hp & HFs). exists (CElem s :: pre), s0, post. split; [reflexivity|]. split; [|exact HFs].
    intros it [<-|Hin]; [eauto|auto].
Qed.
Lemma FiltR_sub lo v w w1 p s c : FiltR T lo v w w1 p s c -> forall j, Sub w1 c j -> exists p' s', FiltR T lo v w w1 p' s' j.
Proof.
  intros HF j HS. induction HS as [|p0 n0 y _ IH Hp0 Hy]; [eauto|].
  destruct IH as (p' & s' & HF'). destruct (FiltR_inv T _ _ _ _ _ _ _ HF') as (ns & nc & _ & Hc & _ & _ & _ & HIt).
  rewrite Hp0 in Hc. injection Hc as <-. destruct (FiltRItems_in _ _ _ _ _ _ _ _ HIt y Hy) as (s0 & _ & HFs). eauto.
Qed.

Variable check_fn : N -> list N -> res bool.
Hypothesis TK : TablesOK T check_fn.
Notation Inv04 := (Inv04 T check_fn).
Notation SHORTN := (name_short_name T).

(* what a filtered copy of a node of a world with the invariants looks like *)
Lemma FiltR_node_facts lo v w w1 p s j : Inv04 w -> FiltR T lo v w w1 p s j ->
  exists ns nj, w_nodes w s = Some ns /\ w_nodes w1 j = Some nj /\ n_name nj = n_name ns /\ n_type nj = n_type ns /\
    FiltRItems T lo v w w1 j (n_type ns) (n_content ns) (n_content nj) /\
    (content_mode T (n_type ns) = Val MCharacters -> n_content nj = n_content ns /\ cdata_of T nj = cdata_of T ns).
Proof.
  intros HI HF. destruct (FiltR_inv T _ _ _ _ _ _ _ HF) as (ns & nj & Hs & Hj & _ & Hnm & Hty & HIt).
  exists ns, nj. repeat (split; [assumption|]). intros Hm.
  pose proof (FiltRItems_chars _ _ _ _ _ _ _ _ HIt (i4_leaf _ _ _ HI _ _ Hs Hm)) as Hc. split; [exact Hc|].
  apply cdata_of_ext; assumption.
Qed.

Lemma nolate_head w i n pre s post sn : NoLate T w -> w_nodes w i = Some n -> named T (n_type n) = true ->
  n_content n = pre ++ CElem s :: post -> w_nodes w s = Some sn -> n_name sn = SHORTN -> pre = [].
Proof.
  intros HNL Hi Hnm Hc Hs Hname. destruct pre as [|e0 pre']; [reflexivity|]. exfalso.
  apply (HNL i n (List.length pre') s sn Hi Hnm); [|exact Hs|exact Hname].
  rewrite Hc. cbn [app nth_error]. rewrite nth_error_app2 by lia. rewrite Nat.sub_diag. reflexivity.
Qed.

Lemma copy_inner_inv_b self other pos m v w c w' n :
  TreeFacts w -> Inv04 w -> Inv05 T w -> NoLate T w -> MReach T w m self -> model_of self w = Val (OK m, w) -> w_nodes w self = Some n ->
  create_copied_sub_element_inner T self other pos m v w = Val (OK c, w') ->
  copy_clean_b T w w' self c = true ->
  content_mode T (n_type n) <> Val MCharacters ->
  (N.to_nat pos = O -> identifiable_n T w n = false /\ (named T (n_type n) = true -> nm_of w other <> SHORTN)) ->
  Inv04 w' /\ Inv05 T w'.
Proof.
  intros HF HI HI5 HNL HRself Hmodself Hn H Hclean Hmode Hfront.
  pose proof (tf_closed w HF) as Cw.
  assert (HFK : FreshKids (w_next w) w').
  { destruct (CopyProofsFK.ccsei_FK T (w_next w) _ _ _ _ _ _ _ _ H) as (_ & _ & HK); [apply N.le_refl| |exact HK].
    intros p np y Hp Hnp _. pose proof (tf_alloc _ HF _ _ Hnp). lia. }
  destruct (copy_inner_shape T check_fn self other pos m v w c w' HF HI HRself H)
    as (n0 & w1 & cn0 & x & path & L & R & ren & Hn0 & Hpath & Hx & Cw1 & HE & HFR & Hcn0 & Hnx & Hfl & Hpos & Hself' & Hc' & Hother & Hren & Hfree &
        Hmodels & w3 & Hw3 & Hent & Hrennm & (fdc & Edc)).
  assert (n0 = n) by congruence. subst n0.
  pose proof HI as [I1 I2 I3 IL I4 I5].
  assert (Hlo_c : w_next w <= c) by (destruct (FiltR_inv T _ _ _ _ _ _ _ HFR) as (? & ? & _ & _ & Hl & _); exact Hl).
  assert (Hself_lt : self < w_next w) by (eapply tf_alloc; eauto).
  (* the decidable remainder *)
  unfold copy_clean_b in Hclean. rewrite Hn in Hclean.
  destruct (path_unchecked T n w) as [[[path0|e0] wq]| |] eqn:Epu; try discriminate Hclean.
  destruct (path_unchecked_spec T w m self n HF Hn HRself) as (_ & Hps).
  destruct (Hps _ _ Epu) as (_ & p1 & [= <-] & Hsp1). destruct (specpath_fun T _ _ _ _ _ _ HF Hsp1 Hpath) as (_ & ->).
  set (w3c := mkWorld (fun j => if j =? self then Some n else w_nodes w' j) (w_next w') (w_files w') (w_models w')) in *.
  assert (Hent_c : reg_entries T (fuel_of w') w3c path c = Some (L, R)).
  { rewrite <- Hent. apply reg_entries_nodes. intros j. cbn. rewrite Hw3. reflexivity. }
  rewrite Hent_c in Hclean. apply andb_true_iff in Hclean as (Hclean & HLc). apply andb_true_iff in Hclean as (Hidnd & HLnd).
  apply nodupb_sound in HLnd. apply nodupN_sound in Hidnd.
  assert (HRnd : NoDup (map snd R)).
  { pose proof (reg_R_walk T _ _ _ _ _ _ Hent_c) as HRw. rewrite (walk_ext (w_next w) w' w3c HFK) in HRw.
    - rewrite HRw. apply nodup_filter. exact Hidnd.
    - intros j Hj. cbn. destruct (j =? self) eqn:Ej; [apply N.eqb_eq in Ej; lia|reflexivity].
    - exact Hlo_c. }
  assert (Hren_lo : forall s sn nm, ren = Some (s, sn, nm) -> w_next w <= s).
  { intros s sn nm Er. destruct (Hren s sn nm Er) as ((rest & Hc0) & _). eapply (FiltR_kid_lo T _ _ _ _ _ _ _ cn0 s HFR Hcn0). rewrite Hc0. left. reflexivity. }
  (* every node allocated by the call: in the copied tree, or a leaf *)
  assert (Hother_lt : other < w_next w).
  { destruct (FiltR_inv T _ _ _ _ _ _ _ HFR) as (ns & ? & Hs & _). eapply tf_alloc; eauto. }
  assert (HBw : Bnd w) by (intros i ni Hi; eapply tf_alloc; eauto).
  destruct (dc_garbage w Cw fdc other v w (OK c) w1 (N.le_refl _) HBw (fun i _ => eq_refl) Hother_lt Edc) as (_ & _ & _ & _ & Gcls).
  assert (Hcls : forall j nj1, w_next w <= j -> w_nodes w1 j = Some nj1 ->
            (exists s ns, w_nodes w s = Some ns /\ n_name nj1 = n_name ns /\ n_type nj1 = n_type ns) /\
            (n_content nj1 = [] \/ exists p' s', FiltR T (w_next w) v w w1 p' s' j)).
  { intros j nj1 Hj Hj1. destruct (Gcls j nj1 Hj Hj1) as [(c0 & [= <-] & HS)|(Hc0 & HNT)]; [|auto].
    destruct (FiltR_sub _ _ _ _ _ _ _ HFR j HS) as (p' & s' & HF'). split; [|right; eauto].
    destruct (FiltR_inv T _ _ _ _ _ _ _ HF') as (ns & nj & Hs & Hjj & _ & Hnm & Hty & _). rewrite Hj1 in Hjj. injection Hjj as <-. eauto. }
  (* a node allocated by the call, in the final world *)
  assert (Hnode' : forall j nj', w_nodes w j = None -> w_nodes w' j = Some nj' ->
            w_next w <= j /\ exists nj1, w_nodes w1 j = Some nj1 /\ n_name nj' = n_name nj1 /\ n_type nj' = n_type nj1 /\
              (n_content nj' = n_content nj1 \/ exists nm, ren = Some (j, nj1, nm) /\ n_content nj' = [CData (DString nm)])).
  { intros j nj' Hwj Hj'. assert (Hjs : j <> self) by (intros ->; congruence).
    destruct (N.eq_dec j c) as [->|Hjc].
    - rewrite Hc' in Hj'. injection Hj' as <-. split; [exact Hlo_c|]. exists cn0. cbn. auto.
    - rewrite (Hother j Hjs Hjc) in Hj'. destruct (renamed_cases w1 ren j) as [(E & _)|(s & sn & nm & Er & -> & E)].
      + rewrite E in Hj'. split.
        * destruct (N.lt_ge_cases j (w_next w)) as [Hlt|Hge]; [exfalso|exact Hge].
          destruct HE as (_ & Hk & _). rewrite Hk in Hj' by exact Hlt. congruence.
        * exists nj'. auto.
      + rewrite E in Hj'. injection Hj' as <-. destruct (Hren s sn nm Er) as (_ & Hs1 & _). split; [eapply Hren_lo; eauto|].
        exists sn. cbn. split; [exact Hs1|]. split; [reflexivity|]. split; [reflexivity|]. right. exists nm. auto. }
  assert (Hshort_mode : forall i ni, w_nodes w i = Some ni -> n_name ni = SHORTN -> content_mode T (n_type ni) = Val MCharacters).
  { intros i ni Hi Hs. destruct (I1 i ni Hi Hs) as (Hm & _). exact Hm. }
  (* the character data of a SHORT-NAME node of the copy, before the renaming *)
  assert (Hshort_cd : forall j nj1, w_next w <= j -> w_nodes w1 j = Some nj1 -> n_name nj1 = SHORTN ->
            forall d, cdata_of T nj1 = Some d -> exists i ni, w_nodes w i = Some ni /\ n_name ni = SHORTN /\ cdata_of T ni = Some d).
  { intros j nj1 Hj Hj1 Hs d Hd. destruct (Hcls j nj1 Hj Hj1) as (_ & [Hc0|(p' & s' & HF')]).
    - rewrite (leaf_no_cdata T nj1 Hc0) in Hd. discriminate Hd.
    - destruct (FiltR_node_facts _ _ _ _ _ _ _ HI HF') as (ns & nj & Hs0 & Hjj & Hnm & Hty & _ & Hch). rewrite Hj1 in Hjj. injection Hjj as <-.
      assert (Hns : n_name ns = SHORTN) by congruence. destruct (Hch (Hshort_mode _ _ Hs0 Hns)) as (_ & Ecd).
      exists s', ns. split; [exact Hs0|]. split; [exact Hns|congruence]. }
  assert (Hnewside : forall j nj', ~ old w j -> w_nodes w' j = Some nj' ->
            (n_name nj' = SHORTN -> short_type T check_fn (n_type nj')) /\
            (forall t, n_name nj' = SHORTN -> cdata_of T nj' = Some (DString t) -> ~ In 47 t) /\
            (identifiable_n T w' nj' = true -> item_name_n T w' nj' <> None) /\
            (content_mode T (n_type nj') = Val MCharacters -> chars_content (n_content nj'))).
  { intros j nj' Hno Hj. assert (Hwj : w_nodes w j = None) by (destruct (w_nodes w j) eqn:E; [exfalso; apply Hno; eexists; eauto|reflexivity]).
    destruct (Hnode' j nj' Hwj Hj) as (Hlo & nj1 & Hj1 & Enm & Ety & Hcont).
    destruct (Hcls j nj1 Hlo Hj1) as ((s0 & ns0 & Hs0 & Hnm0 & Hty0) & Hkind).
    split; [intros E; rewrite Ety, Hty0; eapply (I1 s0 ns0 Hs0); rewrite <- Hnm0, <- Enm; exact E|]. split; [|split].
    - (* the text of a SHORT-NAME node *)
      intros t E Hcd. assert (Es1 : n_name nj1 = SHORTN) by congruence.
      destruct Hcont as [Hc|(nm & Er & Hc)].
      + rewrite (cdata_of_ext T nj1 nj' Ety Hc) in Hcd. destruct (Hshort_cd j nj1 Hlo Hj1 Es1 _ Hcd) as (i & ni & Hi & Hni & Hcdi). eapply I2; eauto.
      + destruct (Hrennm _ _ _ Er) as (orig & Ho & Hsl).
        assert (Ht : DString t = DString nm).
        { pose proof (cdata_of_replace T nj1 (DString orig) (DString nm) Ho) as Hr.
          rewrite <- (cdata_of_ext T (set_content nj1 [CData (DString nm)]) nj') in Hr; [congruence|cbn; congruence|cbn; congruence]. }
        injection Ht as ->. apply Hsl. destruct (Hshort_cd j nj1 Hlo Hj1 Es1 _ Ho) as (i & ni & Hi & Hni & Hcdi). eapply I2; eauto.
    - (* an identifiable element of the copy has a name *)
      intros Hid. pose proof Hid as Hid0. unfold identifiable_n in Hid0. apply andb_true_iff in Hid0 as (Hnamed & Hsc).
      rewrite short_child_hd in Hsc. destruct (hd_error (n_content nj')) as [[y|d]|] eqn:Eh; try discriminate Hsc.
      destruct (w_nodes w' y) as [yn'|] eqn:Hy'; [|discriminate Hsc]. destruct (n_name yn' =? SHORTN) eqn:Eyn; [|discriminate Hsc]. apply N.eqb_eq in Eyn.
      destruct Hcont as [Hc|(nm & Er & Hc)]; [|rewrite Hc in Eh; discriminate Eh].
      rewrite Hc in Eh. destruct Hkind as [Hc0|(p' & s' & HF')]; [rewrite Hc0 in Eh; discriminate Eh|].
      destruct (FiltR_node_facts _ _ _ _ _ _ _ HI HF') as (ns & nj & Hs & Hjj & Hnm & Hty & HIt & _). rewrite Hj1 in Hjj. injection Hjj as <-.
      destruct (n_content nj1) as [|it r'] eqn:Ec1; [discriminate Eh|]. cbn in Eh. injection Eh as ->.
      destruct (FiltRItems_head _ _ _ _ _ _ _ _ HIt y r' eq_refl) as (pre & sy & post & Ecs & Hpre & HFy).
      destruct (FiltR_node_facts _ _ _ _ _ _ _ HI HFy) as (nsy & ny1 & Hsy & Hy1 & Hnmy & Htyy & _ & Hchy).
      assert (Hlo_y : w_next w <= y) by (destruct (FiltR_inv T _ _ _ _ _ _ _ HFy) as (? & ? & _ & _ & Hl & _); exact Hl).
      assert (Hwy : w_nodes w y = None).
      { destruct (w_nodes w y) as [a|] eqn:E; [|reflexivity]. pose proof (tf_alloc _ HF _ _ E). lia. }
      destruct (Hnode' y yn' Hwy Hy') as (_ & ny1' & Hy1' & Enmy & Etyy & Hconty). rewrite Hy1 in Hy1'. injection Hy1' as <-.
      assert (Hnsy : n_name nsy = SHORTN) by congruence.
      assert (Hns_named : named T (n_type ns) = true) by congruence.
      assert (pre = []) by (eapply (nolate_head w s' ns pre sy post nsy); eauto). subst pre. cbn [app] in Ecs.
      assert (Hsc_s : short_child T w ns = Some nsy).
      { unfold short_child. rewrite Ecs, Hsy, Hnsy, N.eqb_refl. reflexivity. }
      assert (Hid_s : identifiable_n T w ns = true) by (unfold identifiable_n; rewrite Hns_named, Hsc_s; reflexivity).
      pose proof (I3 s' ns Hs Hid_s) as Hname_s. unfold item_name_n in Hname_s. rewrite Hns_named, Hsc_s in Hname_s.
      destruct (cdata_of T nsy) as [[| nm0 | |]|] eqn:Ecd; try (exfalso; apply Hname_s; reflexivity).
      destruct (Hchy (Hshort_mode _ _ Hsy Hnsy)) as (_ & Ecdy).
      assert (Hcd' : exists nm1, cdata_of T yn' = Some (DString nm1)).
      { destruct Hconty as [Hcy|(nm & Er & Hcy)].
        - exists nm0. rewrite (cdata_of_ext T ny1 yn' Etyy Hcy). exact Ecdy.
        - exists nm. pose proof (cdata_of_replace T ny1 (DString nm0) (DString nm) Ecdy) as Hr.
          rewrite <- (cdata_of_ext T (set_content ny1 [CData (DString nm)]) yn') in Hr; [exact Hr|cbn; congruence|cbn; congruence]. }
      destruct Hcd' as (nm1 & Hcd'). unfold item_name_n. rewrite Hnamed.
      assert (Hsc' : short_child T w' nj' = Some yn').
      { rewrite short_child_hd, Hc. cbn [hd_error]. rewrite Hy', Eyn, N.eqb_refl. reflexivity. }
      rewrite Hsc', Hcd'. discriminate.
    - (* character content *)
      intros Hm. destruct Hcont as [Hc|(nm & Er & Hc)]; [|rewrite Hc; right; eexists; reflexivity].
      rewrite Hc. destruct Hkind as [Hc0|(p' & s' & HF')]; [rewrite Hc0; left; reflexivity|].
      destruct (FiltR_node_facts _ _ _ _ _ _ _ HI HF') as (ns & nj & Hs & Hjj & Hnm & Hty & _ & Hch). rewrite Hj1 in Hjj. injection Hjj as <-.
      assert (Hms : content_mode T (n_type ns) = Val MCharacters) by congruence.
      destruct (Hch Hms) as (Ecs & _). rewrite Ecs. eapply IL; eauto. }
  assert (HLc' : identifiable T w' c = true \/ (forall p j, In (p, j) L -> assoc_get p (m_idents x) = None)).
  { apply orb_true_iff in HLc as [Hl|Hl]; [left; exact Hl|right].
    rewrite Hmodself, Hx in Hl. rewrite forallb_forall in Hl.
    intros p j Hin. specialize (Hl (p, j) Hin). cbn [fst] in Hl. destruct (assoc_get p (m_idents x)); [discriminate Hl|reflexivity]. }
  assert (Hcn0_name : n_name cn0 = nm_of w other).
  { destruct (FiltR_inv T _ _ _ _ _ _ _ HFR) as (ns & nc & Hs & Hc & _ & Hnm & _). rewrite Hcn0 in Hc. injection Hc as <-.
    unfold nm_of. rewrite Hs. exact Hnm. }
  assert (HposN : (N.to_nat pos <= List.length (n_content n))%nat) by exact Hpos.
  split.
  - eapply (copy_inv04 T check_fn w w' w1 w3 self c n cn0 (N.to_nat pos) m x path L R ren v other); eauto.
    + intros Hp. destruct (Hfront Hp) as (H1 & H2). split; [exact H1|]. intros Hnm. rewrite Hcn0_name. exact (H2 Hnm).
  - eapply (copy_inv05 T check_fn TK w w' w1 w3 self c n cn0 (N.to_nat pos) m x path L R ren v other); eauto.
    + intros Hp. destruct (Hfront Hp) as (H1 & H2). split; [exact H1|]. intros Hnm. rewrite Hcn0_name. exact (H2 Hnm).
Qed.

(* ---------- the public calls *)
Variable tab_el tab_en : nametab.
Variable LATEST : N.
Variable root_attrs : list (N * cdata).
Notation Known04a := (Known04a T LATEST).
Notation Known05a := (Known05a T tab_el tab_en check_fn LATEST root_attrs).

Ltac wk H := lazymatch type of H with
  | wbind ?m ?k ?w = Val (OK ?r, ?w') =>
    let a := fresh "a" in let w1 := fresh "w" in let E := fresh "E" in let e := fresh "e" in let Q := fresh "Q" in
    apply wbind_inv in H as [(a & w1 & E & H) | (e & E & Q)]; [ try ro_subst E | discriminate Q ]
  end.

Theorem C45_copy_b h other w r w' :
  TreeFacts w -> Inv04 w -> Inv05 T w ->
  Known04a w (OpCopy h other) = false -> Known05a w (OpCopy h other) = false ->
  e_create_copied_sub_element T LATEST h other w = Val (r, w') -> Inv04 w' /\ Inv05 T w'.
Proof.
  intros HF HI HI5 HK4 HK5 H. pose proof (tf_closed w HF) as Cw.
  destruct (copy_source_unchanged T LATEST h other None w r w' Cw H) as (Cw' & _).
  cbn [RefsAll.Known04a] in HK4. apply orb_false_iff in HK4 as (Hfront & Hlate).
  pose proof (late_short_false T w HF Hlate) as HNL.
  cbn [RefsAll.Known05a run_op] in HK5. unfold welem, wbind in HK5. rewrite H in HK5.
  destruct r as [c|e].
  2:{ apply negb_false_iff, N.eqb_eq in HK5. eapply (copy_failed_same T check_fn); eauto. exact (gnf_e_create_copied T LATEST h other w e w' H). }
  cbn in HK5. apply negb_false_iff in HK5.
  unfold e_create_copied_sub_element in H. destruct (h =? other); [discriminate H|].
  wk H. wk H. unfold raw_create_copied_sub_element in H.
  wk H. match goal with E : get_node h w = _ |- _ => apply get_node_inv in E as (n & Hn & Q & _); injection Q as -> end.
  wk H. match goal with E : get_node other w = _ |- _ => apply get_node_inv in E as (o & Ho & Q & _); injection Q as -> end.
  wk H. match goal with E : calc_element_insert_range T n _ _ w = Val (OK ?rr, _) |- _ => destruct rr as (rs, re); rename E into Ecalc end.
  match goal with E : model_of h w = Val (OK ?mm, w) |- _ => rename E into Emod; rename mm into m end.
  match goal with E : min_version LATEST h w = Val (OK ?vv, w) |- _ => rename E into Emin; rename vv into v end.
  eapply (copy_inner_inv_b h other re m v w c w' n); eauto.
  - apply model_of_mreach; assumption.
  - eapply calc_range_mode; eauto.
  - intros Hre. unfold nm_of in *. rewrite Ho in *. eapply front_false_end; eauto.
Qed.

Theorem C45_copy_at_b h other pos w r w' :
  TreeFacts w -> Inv04 w -> Inv05 T w ->
  Known04a w (OpCopyAt h other pos) = false -> Known05a w (OpCopyAt h other pos) = false ->
  e_create_copied_sub_element_at T LATEST h other pos w = Val (r, w') -> Inv04 w' /\ Inv05 T w'.
Proof.
  intros HF HI HI5 HK4 HK5 H. pose proof (tf_closed w HF) as Cw.
  destruct (copy_source_unchanged T LATEST h other (Some pos) w r w' Cw H) as (Cw' & _).
  cbn [RefsAll.Known04a] in HK4. apply orb_false_iff in HK4 as (Hfront & Hlate).
  pose proof (late_short_false T w HF Hlate) as HNL.
  cbn [RefsAll.Known05a run_op] in HK5. unfold welem, wbind in HK5. rewrite H in HK5.
  destruct r as [c|e].
  2:{ apply negb_false_iff, N.eqb_eq in HK5. eapply (copy_failed_same T check_fn); eauto. exact (gnf_e_create_copied_at T LATEST h other pos w e w' H). }
  cbn in HK5. apply negb_false_iff in HK5.
  unfold e_create_copied_sub_element_at in H. destruct (h =? other); [discriminate H|].
  wk H. wk H. unfold raw_create_copied_sub_element_at in H.
  wk H. match goal with E : get_node h w = _ |- _ => apply get_node_inv in E as (n & Hn & Q & _); injection Q as -> end.
  wk H. match goal with E : get_node other w = _ |- _ => apply get_node_inv in E as (o & Ho & Q & _); injection Q as -> end.
  wk H. match goal with E : calc_element_insert_range T n _ _ w = Val (OK ?rr, _) |- _ => destruct rr as (rs, re); rename E into Ecalc end.
  destruct ((rs <=? pos) && (pos <=? re)); [|discriminate H].
  match goal with E : model_of h w = Val (OK ?mm, w) |- _ => rename E into Emod; rename mm into m end.
  match goal with E : min_version LATEST h w = Val (OK ?vv, w) |- _ => rename E into Emin; rename vv into v end.
  eapply (copy_inner_inv_b h other pos m v w c w' n); eauto.
  - apply model_of_mreach; assumption.
  - eapply calc_range_mode; eauto.
  - intros Hre. unfold nm_of in *. rewrite Ho in *. eapply front_false_at; eauto.
Qed.

End CopyB.
