(* Tree/CopyProofsTop.v — C13 proofs, layer 3: the two public copy calls (Element::create_copied_sub_element[_at]),
   statements in the vocabulary of Tree/CopyProofsDefs.v.  For every table set. *)
From AV Require Import Base.Bytes Base.Outcome Hash.HashModel Tree.Heap Tree.Ops Tree.Script
  Tree.CopyProofsW Tree.CopyProofsDefs Tree.CopyProofsDeep Tree.CopyProofsCreate.
From Coq Require Import Lia.
Open Scope string_scope.
Open Scope list_scope.
Open Scope N_scope.

Section Top.
Variable T : tables.
Variable LATEST : N.

(* Element::create_copied_sub_element (pos = None) / create_copied_sub_element_at (pos = Some p) *)
Definition copy_call (h other : id) (pos : option N) : W id :=
  match pos with
  | None => e_create_copied_sub_element T LATEST h other
  | Some p => e_create_copied_sub_element_at T LATEST h other p
  end.

Lemma copy_call_inner h other pos w r w' :
  copy_call h other pos w = Val (r, w') -> ReducesToInner T LATEST h other w r w'.
Proof. destruct pos; cbn [copy_call]; [apply e_copy_at_inner | apply e_copy_inner]. Qed.

Lemma set_content_same n : set_content n (n_content n) = n.
Proof. destruct n; reflexivity. Qed.

(* FRAME: whatever the result, a copy call touches nothing that was allocated before except the content list of the
   destination element h, no file, and of the models only the two index maps of one model *)
Theorem copy_source_unchanged h other pos w r w' :
  Closed w -> copy_call h other pos w = Val (r, w') ->
  Closed w' /\
  (exists m, CopyFrame h m w w') /\
  (forall nh, w_nodes w h = Some nh -> exists content', w_nodes w' h = Some (set_content nh content')).
Proof.
  intros Cw H. apply copy_call_inner in H as [(-> & _) | (m & v & p & _ & _ & _ & H)].
  - split; auto. split.
    + exists 0. apply CopyFrame_of_Ext, Ext_refl.
    + intros nh Hh. exists (n_content nh). rewrite set_content_same. exact Hh.
  - destruct (ccsei_spec T _ _ _ _ _ _ _ _ Cw H) as (Cw' & Fr & ns & Hns & Hr).
    split; auto. split; [eauto|].
    intros nh Hh. rewrite Hns in Hh. injection Hh as <-.
    destruct r as [c|e].
    + destruct Hr as (Hr & _). eauto.
    + exists (n_content ns). rewrite set_content_same. exact Hr.
Qed.

(* a successful copy: the copy is fresh, it is the source filtered for the destination's version (as deep_copy left
   it in the intermediate world w1), and the final world differs from w1 on the fresh nodes only by the parent link
   of the copy and, if it had to be renamed, the text of its own SHORT-NAME *)
Theorem copy_filtered h other pos w c w' :
  Closed w -> copy_call h other pos w = Val (OK c, w') ->
  exists v w1,
    min_version LATEST h w = Val (OK v, w) /\
    Filt T v w w1 other c /\ FreshTree (w_next w) w1 c /\ Ext w w1 /\ CopyRel T w1 w' h c.
Proof.
  intros Cw H. apply copy_call_inner in H as [(_ & e & [=]) | (m & v & p & _ & _ & Hv & H)].
  destruct (ccsei_spec T _ _ _ _ _ _ _ _ Cw H) as (_ & _ & ns & _ & _ & w1 & Hd & HR & _).
  exists v, w1. split; auto.
  destruct (deep_copy_fresh T _ _ _ _ _ _ Cw Hd) as (HF & Ex & _).
  split; [eapply deep_copy_filtered; eauto|]. auto.
Qed.

Lemma val_ok_inj {A} (a b : A) (w : world) : Val (OK a, w) = Val (OK b, w) -> a = b.
Proof. intros [=]. assumption. Qed.

(* same version: if every attribute and sub-element of the source is permitted in the destination's version, the copy
   is equal to the source up to node ids (and up to the renaming recorded in CopyRel) *)
Theorem copy_same_version h other pos w c w' v :
  Closed w -> copy_call h other pos w = Val (OK c, w') ->
  min_version LATEST h w = Val (OK v, w) -> AllValidIn T v w other ->
  exists w1, Iso w w1 other c /\ FreshTree (w_next w) w1 c /\ Ext w w1 /\ CopyRel T w1 w' h c.
Proof.
  intros Cw H Hv HA.
  destruct (copy_filtered _ _ _ _ _ _ Cw H) as (v' & w1 & Hv' & HF & HFr & Ex & HR).
  rewrite Hv in Hv'. apply val_ok_inj in Hv'. subst v'.
  exists w1. split; auto. eapply (proj1 (Filt_AllValid_Iso T v w w1)); eauto.
Qed.

(* the element type of the copy is the type of the SOURCE element.  It is the type the specification gives the
   element name below the destination only under the hypothesis [TypeAgrees]; without it: C13_copy_type_refuted *)
Definition TypeAgrees (w : world) (h other : id) (v : N) : Prop :=
  forall nh ns, w_nodes w h = Some nh -> w_nodes w other = Some ns ->
  exists idx, find_sub_element T (n_type nh) (n_name ns) v = Val (Some (n_type ns, idx)).

Theorem copy_typed h other pos w c w' v :
  Closed w -> copy_call h other pos w = Val (OK c, w') ->
  min_version LATEST h w = Val (OK v, w) -> TypeAgrees w h other v ->
  forall nh, w_nodes w h = Some nh ->
  exists nc idx, w_nodes w' c = Some nc /\ find_sub_element T (n_type nh) (n_name nc) v = Val (Some (n_type nc, idx)).
Proof.
  intros Cw H Hv HT nh Hh.
  destruct (copy_filtered _ _ _ _ _ _ Cw H) as (v' & w1 & Hv' & HF & _ & _ & HR).
  rewrite Hv in Hv'. apply val_ok_inj in Hv'. subst v'.
  inversion HF as [? ? ns nc1 Hs Hc1 Hnm Hty _ _ _]; subst.
  destruct HR as (nc1' & Hc1' & Hc' & _). rewrite Hc1 in Hc1'. injection Hc1' as <-.
  destruct (HT nh ns Hh Hs) as (idx & Hfs).
  exists (set_parent nc1 (PElem h)), idx. split; auto. cbn. rewrite Hnm, Hty. exact Hfs.
Qed.

End Top.
