(* Tree/Iter.v — model of autosar-data/src/iterators.rs over the heap of Tree/Heap.v:
     ElementsIterator              (Element::sub_elements)
     ElementsDfsIterator           (Element::elements_dfs[_with_max_depth], AutosarModel::elements_dfs[..])
     ArxmlFileElementsDfsIterator  (ArxmlFile::elements_dfs[_with_max_depth])
   as explicit state machines: a state record, `*_new`, `*_next` (and `dfs_next_sibling`).  The world is an argument of
   every `next`, so the content lists may change between two calls exactly as in the Rust (the iterators hold no
   lock between calls).  Loops run on fuel (`Fuel` = the model ran out, never a behaviour of the code).
   `*_drain fuel s w` = call next on the FIXED world w until it answers None, collecting the results.
   MODEL ONLY: definitions and Examples, no proofs. *)
From AV Require Import Base.Bytes Base.Outcome Hash.HashModel Tree.Heap Tree.Ops Tree.Script Tree.Inv.
Open Scope string_scope.
Open Scope list_scope.
Open Scope N_scope.

Definition USIZE_MAX : N := 18446744073709551615.

(* ------------------------------------------------------------------ ElementsIterator *)
Record ei_state := mkEI { ei_elem : id; ei_index : N; ei_last : option id }.
Definition ei_new (e : id) : ei_state := mkEI e 0 None.

(* the `while self.index < element.content.len()` loop; result: (returned element, index, last_output) *)
Fixpoint ei_loop (fuel : nat) (content : list citem) (index : N) (last : option id)
  : res (option id * N * option id) :=
  match fuel with
  | O => Fuel
  | S f =>
    if index <? N.of_nat (List.length content) then
      match nth_opt content (N.to_nat index) with
      | Some (CElem sub) =>
        match last with
        | Some prev =>
          if prev =? sub then ei_loop f content (index + 1) last       (* still the element returned last time *)
          else Val (Some sub, index, Some sub)                          (* index does not point to it (any more) *)
        | None => Val (Some sub, index, Some sub)                       (* first entry *)
        end
      | Some (CData _) => ei_loop f content (index + 1) last            (* skip character content *)
      | None => Pan "iterators.rs ElementsIterator: content[index]"     (* not reached: index < len *)
      end
    else Val (None, USIZE_MAX, last)                                    (* fused *)
  end.

Definition ei_next (s : ei_state) (w : world) : res (option id * ei_state) :=
  match w_nodes w (ei_elem s) with
  | None => Pan "dangling node id"
  | Some n =>
    (let* '(o, i, l) := ei_loop (S (List.length (n_content n))) (n_content n) (ei_index s) (ei_last s) in
     Val (o, mkEI (ei_elem s) i l))%res
  end.

Fixpoint ei_drain (fuel : nat) (s : ei_state) (w : world) : res (list id) :=
  match fuel with
  | O => Fuel
  | S f =>
    (let* '(o, s') := ei_next s w in
     match o with
     | Some e => let* r := ei_drain f s' w in Val (e :: r)
     | None => Val []
     end)%res
  end.

(* ------------------------------------------------------------------ ElementsDfsIterator *)
(* the two Vecs are kept with the LAST element first (top of stack = head) *)
Record dfs_state := mkDfs { d_elems : list id; d_pos : list N; d_max : N }.
Definition dfs_new (e : id) (max_depth : N) : dfs_state := mkDfs [e] [] max_depth.

Inductive dfs_res := DYield (depth : nat) (e : id) (s : dfs_state) | DCont (s : dfs_state) | DDone.

(* one iteration of `while !self.elements.is_empty()` *)
Definition dfs_step (s : dfs_state) (w : world) : res dfs_res :=
  match d_elems s with
  | [] => Val DDone
  | element :: erest =>
    let depth := List.length erest in
    if Nat.eqb (List.length (d_pos s)) depth then
      Val (DYield depth element (mkDfs (d_elems s) (0 :: d_pos s) (d_max s)))
    else if Nat.eqb (List.length (d_pos s)) (S depth) then
      match d_pos s with
      | p :: prest =>
        match w_nodes w element with
        | None => Pan "dangling node id"
        | Some n =>
          if ((d_max s =? 0) || (N.of_nat depth <? d_max s)) && (p <? N.of_nat (List.length (n_content n))) then
            (* get_sub_element_at(position[depth]); position[depth] += 1 *)
            let elems' := match nth_opt (n_content n) (N.to_nat p) with
                          | Some (CElem e) => e :: d_elems s
                          | _ => d_elems s
                          end in
            Val (DCont (mkDfs elems' (p + 1 :: prest) (d_max s)))
          else Val (DCont (mkDfs erest prest (d_max s)))               (* back up one level *)
        end
      | [] => Pan "iterators.rs ElementsDfsIterator: position[depth]"
      end
    else
      (* position.len() is neither depth nor depth+1: not reachable from new() by next / next_sibling *)
      Pan "iterators.rs ElementsDfsIterator: ill-formed state"
  end.

Fixpoint dfs_next (fuel : nat) (s : dfs_state) (w : world) : res (option (nat * id) * dfs_state) :=
  match fuel with
  | O => Fuel
  | S f =>
    match dfs_step s w with
    | Val (DYield d e s') => Val (Some (d, e), s')
    | Val (DCont s') => dfs_next f s' w
    | Val DDone => Val (None, s)
    | Pan site => Pan site
    | Fuel => Fuel
    end
  end.

(* next_sibling: elements.pop(); position.pop(); next() *)
Definition dfs_pop (s : dfs_state) : dfs_state := mkDfs (List.tl (d_elems s)) (List.tl (d_pos s)) (d_max s).
Definition dfs_next_sibling (fuel : nat) (s : dfs_state) (w : world) := dfs_next fuel (dfs_pop s) w.

Fixpoint dfs_drain (fuel : nat) (s : dfs_state) (w : world) : res (list (nat * id)) :=
  match fuel with
  | O => Fuel
  | S f =>
    (let* '(o, s') := dfs_next f s w in
     match o with
     | Some y => let* r := dfs_drain f s' w in Val (y :: r)
     | None => Val []
     end)%res
  end.

(* Element::elements_dfs_with_max_depth / AutosarModel::elements_dfs_with_max_depth, drained *)
Definition elements_dfs (fuel : nat) (e : id) (max_depth : N) (w : world) : res (list (nat * id)) :=
  dfs_drain fuel (dfs_new e max_depth) w.
Definition model_elements_dfs (fuel : nat) (m : N) (max_depth : N) (w : world) : res (list (nat * id)) :=
  match nth_opt (w_models w) (N.to_nat m) with
  | Some x => elements_dfs fuel (m_root x) max_depth w
  | None => Pan "dangling model id"
  end.

(* the depth limit of PreD for a max_depth argument: 0 = unlimited *)
Definition lim_of (max_depth : N) : option nat := if max_depth =? 0 then None else Some (N.to_nat max_depth).

(* ------------------------------------------------------------------ ArxmlFileElementsDfsIterator *)
Record fi_state := mkFI { fi_file : N; fi_dfs : option dfs_state }.

(* new(): file.model().ok().map(|m| m.elements_dfs_with_max_depth(max_depth)) *)
Definition fi_new (f : N) (max_depth : N) (w : world) : fi_state :=
  match nth_opt (w_files w) (N.to_nat f) with
  | Some fl =>
    match nth_opt (w_models w) (N.to_nat (f_model fl)) with
    | Some x => mkFI f (Some (dfs_new (m_root x) max_depth))
    | None => mkFI f None
    end
  | None => mkFI f None
  end.

(* `while let Some((depth, elem)) = next_element { .. next_element = iter.next_sibling() }` *)
Fixpoint fi_loop (fuel : nat) (f : N) (cur : option (nat * id)) (it : dfs_state) (w : world)
  : res (option (nat * id) * dfs_state) :=
  match fuel with
  | O => Fuel
  | S fl =>
    match cur with
    | None => Val (None, it)
    | Some (d, e) =>
      match w_nodes w e with
      | None => Pan "dangling node id"
      | Some n =>
        if in_file f n then Val (Some (d, e), it)
        else (let* '(nx, it') := dfs_next_sibling fl it w in fi_loop fl f nx it' w)%res   (* skip the subtree *)
      end
    end
  end.

Definition fi_next (fuel : nat) (s : fi_state) (w : world) : res (option (nat * id) * fi_state) :=
  match fi_dfs s with
  | None => Val (None, s)
  | Some it =>
    (let* '(first, it1) := dfs_next fuel it w in
     let* '(o, it2) := fi_loop fuel (fi_file s) first it1 w in
     Val (o, mkFI (fi_file s) (Some it2)))%res
  end.

Fixpoint fi_drain (fuel : nat) (s : fi_state) (w : world) : res (list (nat * id)) :=
  match fuel with
  | O => Fuel
  | S f =>
    (let* '(o, s') := fi_next f s w in
     match o with
     | Some y => let* r := fi_drain f s' w in Val (y :: r)
     | None => Val []
     end)%res
  end.

(* ArxmlFile::elements_dfs_with_max_depth, drained *)
Definition file_elements_dfs (fuel : nat) (f : N) (max_depth : N) (w : world) : res (list (nat * id)) :=
  fi_drain fuel (fi_new f max_depth w) w.

(* ------------------------------------------------------------------ a small world to run the machines on *)
Module IterExample.
  Definition nd (p : pref) (c : list citem) (fs : list N) : node := mkNode p 0 (0, 0) c [] fs None.
  (* 0 -> [1; text; 2], 1 -> [3], 2 -> [] (only in file 7), 3 -> [] *)
  Definition nodes (i : id) : option node :=
    match i with
    | 0 => Some (nd (PModel 0) [CElem 1; CData (DUInt 5); CElem 2] [])
    | 1 => Some (nd (PElem 0) [CElem 3] [])
    | 2 => Some (nd (PElem 0) [] [7])
    | 3 => Some (nd (PElem 1) [] [])
    | _ => None
    end.
  Definition w : world := mkWorld nodes 4 [mkFile 0 [] 0 None] [mkModel 0 [0] [] []].

  Example sub_elements_0 : ei_drain 10 (ei_new 0) w = Val [1; 2].
  Proof. vm_compute. reflexivity. Qed.
  Example dfs_all : elements_dfs 50 0 0 w = Val [(0%nat, 0); (1%nat, 1); (2%nat, 3); (1%nat, 2)].
  Proof. vm_compute. reflexivity. Qed.
  Example dfs_depth1 : elements_dfs 50 0 1 w = Val [(0%nat, 0); (1%nat, 1); (1%nat, 2)].
  Proof. vm_compute. reflexivity. Qed.
  (* file 0: element 2 belongs to file 7 only and is pruned *)
  Example file_dfs : file_elements_dfs 50 0 0 w = Val [(0%nat, 0); (1%nat, 1); (2%nat, 3)].
  Proof. vm_compute. reflexivity. Qed.
  (* next_sibling after the first result skips the whole tree *)
  Example sibling : (let* '(_, s1) := dfs_next 10 (dfs_new 0 0) w in
                     let* '(o, _) := dfs_next_sibling 10 s1 w in Val o)%res = Val None.
  Proof. vm_compute. reflexivity. Qed.
End IterExample.
