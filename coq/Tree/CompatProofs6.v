(* Tree/CompatProofs6.v — the bridge from the compatibility check to strict loading through the C01 theorems:
   if the v-typed per-file projection satisfies the decidable side condition rootrestb (everything a canonical root needs
   except the version-mask tests) and the content is ValidIn v, the projection is a canonical root for v
   (Xml/RoundTripCanonb.rootcanonb), hence (C01_file_roundtrip) its serialization loads STRICTLY as version v, without
   warnings, back to the same tree.  With the exactness theorems: a clean check / a successful set_version implies that. *)
From AV Require Import Base.Bytes Base.Outcome Hash.HashModel Spec.SpecOps Spec.Versions Tree.Heap Tree.Ops Tree.Compat Tree.CompatSpec
  Tree.CompatProofs1 Tree.CompatProofs2 Tree.CompatProofs3 Tree.CompatTyped Tree.CompatProofs5 Tree.Serialize Tree.CompatBridge.
From AV Require Import Xml.Parser Xml.Serializer Xml.StrictValidDef Xml.RoundTripElem Xml.RoundTripCanon Xml.RoundTripCanonb Xml.RoundTripFile.
From Coq Require Import Lia.
Open Scope string_scope.
Open Scope list_scope.
Open Scope N_scope.

Section Up.
Variable T : tables.
Variable tab_el tab_at tab_en : nametab.
Variable check_fn : N -> list N -> res bool.
Variable float_fmt : N -> list N.
Variable float_parse : list N -> option N.
Variable w : world.
Variable f v : N.

Notation VALOK := (valokb tab_en check_fn float_fmt float_parse).
Notation CANONB := (canonb T tab_el tab_at tab_en check_fn float_fmt float_parse v).
Notation RESTB := (restb T tab_el tab_at tab_en check_fn float_fmt float_parse v).

(* ---- values: the all-versions test plus the check's verdict give the test for v ---- *)
Lemma valokb_up spec d : VALOK U32MAX spec (to_pc d) = true -> value_valid v d spec -> VALOK v spec (to_pc d) = true.
Proof.
  unfold value_valid, value_compat. destruct spec as [items|fn maxlen|pres maxlen| |]; destruct d as [e|s|n|b]; cbn [to_pc valokb];
    try (intros H _; exact H); try discriminate.
  destruct (to_str tab_en e) as [str|]; [|discriminate].
  destruct (find (fun it => fst it =? e) items) as [[i mask]|]; cbn [fst]; [|intros H; rewrite andb_false_r in H; discriminate].
  rewrite !andb_true_iff. intros [[A B] _] Hm. repeat split; [exact A|exact B|].
  rewrite N.land_comm. exact Hm.
Qed.

Lemma attrokb_up ty (a : N * Heap.cdata) :
  attrokb T tab_at tab_en check_fn float_fmt float_parse U32MAX ty (fst a, to_pc (snd a)) = true ->
  CompatSpec.attr_valid T v ty a ->
  attrokb T tab_at tab_en check_fn float_fmt float_parse v ty (fst a, to_pc (snd a)) = true.
Proof.
  unfold attrokb. cbn [fst snd]. intros H (cd & spec & req & m & Hf & Hc & Hv).
  destruct (to_str tab_at (fst a)) as [nm|]; [|discriminate].
  apply andb_true_iff in H as [H1 H2]. rewrite H1. cbn [andb].
  rewrite Hf in *. rewrite !andb_true_iff in H2. destruct H2 as [[_ B] C].
  rewrite !andb_true_iff. repeat split; [|exact (valokb_up _ _ B Hv)|exact C].
  unfold compatible in Hc. rewrite N.land_comm. exact Hc.
Qed.

Lemma attrsokb_up ty (attrs : list (N * Heap.cdata)) :
  attrsokb T tab_at tab_en check_fn float_fmt float_parse U32MAX ty (pc_attrs attrs) = true ->
  Forall (CompatSpec.attr_valid T v ty) attrs ->
  attrsokb T tab_at tab_en check_fn float_fmt float_parse v ty (pc_attrs attrs) = true.
Proof.
  unfold attrsokb. rewrite !andb_true_iff. intros [A B] HF. split; [|exact B].
  unfold pc_attrs in *. rewrite forallb_forall in *. intros x Hx. apply in_map_iff in Hx as (a & <- & Ha).
  apply attrokb_up.
  - apply A. apply in_map_iff. exists a. split; [reflexivity|exact Ha].
  - rewrite Forall_forall in HF. exact (HF a Ha).
Qed.

Lemma textokb_up ty d :
  textokb T tab_en check_fn float_fmt float_parse U32MAX ty (to_pc d) = true -> text_valid T v ty (CData d) ->
  textokb T tab_en check_fn float_fmt float_parse v ty (to_pc d) = true.
Proof.
  unfold textokb. cbn [text_valid]. intros H Hv.
  destruct (chardata_spec T ty) as [[cs|]| |]; try discriminate. destruct (is_ref T ty) as [isr| |]; try discriminate.
  apply andb_true_iff in H as [A B]. rewrite B, andb_true_r. exact (valokb_up _ _ A (Hv cs eq_refl)).
Qed.

(* ---- unfolding ---- *)
Lemma restb_node name ty attrs content cm :
  RESTB (ENode name ty attrs content cm) =
  comments_okb cm && elem_nameb tab_el name && attrsokb T tab_at tab_en check_fn float_fmt float_parse U32MAX ty attrs &&
  match content_mode T ty with
  | Val mode => shapeb mode content && namedb T v ty content &&
                childrenb_r T tab_en check_fn float_fmt float_parse v RESTB ty mode [] [] content
  | _ => false
  end.
Proof. reflexivity. Qed.

Lemma childrenb_r_unfold cb ty mode prev pre l :
  childrenb_r T tab_en check_fn float_fmt float_parse v cb ty mode prev pre l =
  match l with
  | [] => true
  | inl c :: rest =>
    match find_sub_element T ty (e_name c) v with
    | Val (Some (cty, idx)) =>
      etype_eqb cty (e_type c) && conflictb T ty prev idx && multb T ty idx (e_name c) pre && cb c &&
      childrenb_r T tab_en check_fn float_fmt float_parse v cb ty mode idx (pre ++ [inl c]) rest
    | _ => false
    end
  | inr x :: rest =>
    textokb T tab_en check_fn float_fmt float_parse U32MAX ty x && (negb (mode =? MCharacters) || is_nil pre) &&
    childrenb_r T tab_en check_fn float_fmt float_parse v cb ty mode prev (pre ++ [inr x]) rest
  end.
Proof. destruct l; reflexivity. Qed.

Lemma vproj_name_type fuel ty i t : vproj T w f v fuel ty i = Some t -> exists n, w_nodes w i = Some n /\ e_name t = n_name n /\ e_type t = ty.
Proof.
  destruct fuel as [|fl]; [discriminate|]. cbn [vproj]. destruct (w_nodes w i) as [n|]; [|discriminate].
  destruct (vproj_items T w f v (vproj T w f v fl) ty (n_content n)); [|discriminate]. intros [= <-]. eauto.
Qed.

(* ---- the children loop ---- *)
Lemma children_up (rec : N * N -> id -> option etree) ty mode :
  (forall tc c t, rec tc c = Some t -> (exists n, w_nodes w c = Some n /\ e_name t = n_name n /\ e_type t = tc)) ->
  (forall tc c t, rec tc c = Some t -> Valid T w f v tc c -> RESTB t = true -> CANONB t = true) ->
  forall l content prev pre,
    vproj_items T w f v rec ty l = Some content ->
    child_valid T w f v ty l -> Forall (text_valid T v ty) l ->
    childrenb_r T tab_en check_fn float_fmt float_parse v RESTB ty mode prev pre content = true ->
    childrenb_gen T tab_en check_fn float_fmt float_parse v CANONB ty mode prev pre content = true.
Proof.
  intros Hnt Hrec. induction l as [|it rest IH]; intros content prev pre HP HC HT HR.
  - injection HP as <-. reflexivity.
  - assert (HC' : child_valid T w f v ty rest) by (intros c cn Hc; apply HC; right; exact Hc).
    assert (HT' : Forall (text_valid T v ty) rest) by (inversion HT; assumption).
    destruct it as [c|d]; cbn [vproj_items] in HP.
    + destruct (w_nodes w c) as [cn|] eqn:Ecn; [|discriminate].
      destruct (in_file f cn) eqn:Ef; [|exact (IH _ _ _ HP HC' HT' HR)].
      destruct (find_sub_element T ty (n_name cn) v) as [[[tc ixs]|]| |] eqn:Efind; try discriminate.
      destruct (rec tc c) as [t|] eqn:Er; [|discriminate].
      destruct (vproj_items T w f v rec ty rest) as [rest'|] eqn:Ei; [|discriminate].
      injection HP as <-.
      destruct (Hnt _ _ _ Er) as (n' & Hn' & Hname & Htype). rewrite Ecn in Hn'. injection Hn' as <-.
      rewrite childrenb_r_unfold in HR. rewrite childrenb_unfold. rewrite Hname in *. rewrite Efind in *.
      rewrite !andb_true_iff in HR. destruct HR as [[[[A B] C] D] E].
      rewrite !andb_true_iff. repeat split; [exact A|exact B|exact C| |exact (IH _ _ _ eq_refl HC' HT' E)].
      destruct (HC c cn (or_introl eq_refl) Ecn Ef) as (tc' & ixs' & Hf' & HV). rewrite Efind in Hf'. injection Hf' as <- <-.
      exact (Hrec _ _ _ Er HV D).
    + destruct (vproj_items T w f v rec ty rest) as [rest'|] eqn:Ei; [|discriminate]. cbn [option_map] in HP. injection HP as <-.
      rewrite childrenb_r_unfold in HR. rewrite childrenb_unfold.
      rewrite !andb_true_iff in HR. destruct HR as [[A B] C].
      rewrite !andb_true_iff. repeat split; [|exact B|exact (IH _ _ _ eq_refl HC' HT' C)].
      apply textokb_up; [exact A|]. inversion HT; assumption.
Qed.

Lemma valid_inv ty i n : Valid T w f v ty i -> w_nodes w i = Some n ->
  Forall (CompatSpec.attr_valid T v ty) (n_attrs n) /\ Forall (text_valid T v ty) (n_content n) /\ child_valid T w f v ty (n_content n).
Proof.
  intros HV Hn. inversion HV as [ty' i' n' Hn' Ha Ht Hc]; subst. rewrite Hn in Hn'. injection Hn' as <-. repeat split; assumption.
Qed.

Theorem canon_up fuel : forall ty i t, vproj T w f v fuel ty i = Some t -> Valid T w f v ty i -> RESTB t = true -> CANONB t = true.
Proof.
  induction fuel as [|fl IH]; intros ty i t HP HV HR; [discriminate|].
  cbn [vproj] in HP. destruct (w_nodes w i) as [n|] eqn:En; [|discriminate].
  destruct (vproj_items T w f v (vproj T w f v fl) ty (n_content n)) as [content|] eqn:Ei; [|discriminate]. injection HP as <-.
  destruct (valid_inv _ _ _ HV En) as (Ha & Ht & Hc).
  rewrite restb_node in HR. rewrite canonb_node.
  rewrite !andb_true_iff in HR. destruct HR as [[[A B] C] D].
  rewrite !andb_true_iff. repeat split; [exact A|exact B|exact (attrsokb_up _ _ C Ha)|].
  destruct (content_mode T ty) as [mode| |]; try discriminate.
  rewrite !andb_true_iff in D. destruct D as [[D1 D2] D3].
  rewrite !andb_true_iff. repeat split; [exact D1|exact D2|].
  exact (children_up (vproj T w f v fl) ty mode (fun tc c t H => vproj_name_type fl tc c t H) (fun tc c t H => IH tc c t H)
           _ _ _ _ Ei Hc Ht D3).
Qed.

Theorem root_up ty r name ty0 attrs content cm attrs' :
  vproj T w f v (fuel_of w) ty r = Some (ENode name ty0 attrs content cm) -> Valid T w f v ty r ->
  rootrestb T tab_el tab_at tab_en check_fn float_fmt float_parse v (ENode name ty0 attrs' content cm) = true ->
  rootcanonb T tab_el tab_at tab_en check_fn float_fmt float_parse v (ENode name ty0 attrs' content cm) = true.
Proof.
  intros HP HV HR. unfold fuel_of in HP. cbn [vproj] in HP.
  destruct (w_nodes w r) as [n|] eqn:En; [|discriminate].
  destruct (vproj_items T w f v (vproj T w f v (N.to_nat (w_next w))) ty (n_content n)) as [content0|] eqn:Ei; [|discriminate].
  injection HP as <- <- <- <- <-.
  destruct (valid_inv _ _ _ HV En) as (_ & Ht & Hc).
  unfold rootrestb in HR. unfold rootcanonb.
  destruct (elem T (autosar_element T)) as [e| |]; try discriminate.
  destruct (version_of_ident "Autosar_4_0_1") as [v401|]; try discriminate.
  rewrite !andb_true_iff in HR. destruct HR as [[[[[[A B] C] D] E] F] G].
  rewrite !andb_true_iff. repeat split; try assumption.
  destruct (content_mode T ty) as [mode| |]; try discriminate.
  rewrite !andb_true_iff in G. destruct G as [[G1 G2] G3].
  rewrite !andb_true_iff. repeat split; [exact G1|exact G2|].
  exact (children_up (vproj T w f v (N.to_nat (w_next w))) ty mode (fun tc c t H => vproj_name_type _ tc c t H)
           (fun tc c t H => canon_up _ tc c t H) _ _ _ _ Ei Hc Ht G3).
Qed.

(* ---- the other direction: a canonical projection is valid in v ---- *)
Lemma valokb_down spec d : VALOK v spec (to_pc d) = true -> value_valid v d spec.
Proof.
  unfold value_valid, value_compat. destruct spec as [items|fn maxlen|pres maxlen| |]; try reflexivity.
  destruct d as [e|s|n|b]; cbn [to_pc valokb]; try discriminate.
  destruct (to_str tab_en e) as [str|]; [|discriminate].
  destruct (find (fun it => fst it =? e) items) as [[i mask]|]; cbn [fst]; [|intros H; rewrite andb_false_r in H; discriminate].
  rewrite !andb_true_iff. intros [_ Hm]. rewrite N.land_comm. exact Hm.
Qed.

Lemma attrsokb_down ty (attrs : list (N * Heap.cdata)) :
  attrsokb T tab_at tab_en check_fn float_fmt float_parse v ty (pc_attrs attrs) = true -> Forall (CompatSpec.attr_valid T v ty) attrs.
Proof.
  unfold attrsokb. rewrite andb_true_iff. intros [A _]. rewrite forallb_forall in A. apply Forall_forall. intros a Ha.
  assert (Hin : In (fst a, to_pc (snd a)) (pc_attrs attrs)) by (apply in_map_iff; exists a; split; [reflexivity|exact Ha]).
  specialize (A _ Hin). unfold attrokb in A. cbn [fst snd] in A.
  destruct (to_str tab_at (fst a)) as [nm|]; [|discriminate]. apply andb_true_iff in A as [_ A].
  destruct (find_attribute_spec T ty (fst a)) as [[[[[cd spec] req] m]|]| |] eqn:Ef; try discriminate.
  rewrite !andb_true_iff in A. destruct A as [[A1 A2] _].
  exists cd, spec, req, m. split; [exact Ef|]. split; [|exact (valokb_down _ _ A2)].
  unfold compatible. rewrite N.land_comm. exact A1.
Qed.

Lemma textokb_down ty d : textokb T tab_en check_fn float_fmt float_parse v ty (to_pc d) = true -> text_valid T v ty (CData d).
Proof.
  unfold textokb. cbn [text_valid]. intros H spec Hs. rewrite Hs in H.
  destruct (is_ref T ty) as [isr| |]; try discriminate. apply andb_true_iff in H as [A _]. exact (valokb_down _ _ A).
Qed.

Lemma children_down (rec : N * N -> id -> option etree) ty mode :
  (forall tc c t, rec tc c = Some t -> (exists n, w_nodes w c = Some n /\ e_name t = n_name n /\ e_type t = tc)) ->
  (forall tc c t, rec tc c = Some t -> CANONB t = true -> Valid T w f v tc c) ->
  forall l content prev pre,
    vproj_items T w f v rec ty l = Some content ->
    childrenb_gen T tab_en check_fn float_fmt float_parse v CANONB ty mode prev pre content = true ->
    child_valid T w f v ty l /\ Forall (text_valid T v ty) l.
Proof.
  intros Hnt Hrec. induction l as [|it rest IH]; intros content prev pre HP HR.
  - split; [intros c cn []|constructor].
  - destruct it as [c|d]; cbn [vproj_items] in HP.
    + destruct (w_nodes w c) as [cn|] eqn:Ecn; [|discriminate].
      destruct (in_file f cn) eqn:Ef.
      * destruct (find_sub_element T ty (n_name cn) v) as [[[tc ixs]|]| |] eqn:Efind; try discriminate.
        destruct (rec tc c) as [t|] eqn:Er; [|discriminate].
        destruct (vproj_items T w f v rec ty rest) as [rest'|] eqn:Ei; [|discriminate].
        injection HP as <-.
        destruct (Hnt _ _ _ Er) as (n' & Hn' & Hname & Htype). rewrite Ecn in Hn'. injection Hn' as <-.
        rewrite childrenb_unfold in HR. rewrite Hname, Efind in HR.
        rewrite !andb_true_iff in HR. destruct HR as [[[[A B] C] D] E].
        destruct (IH _ _ _ eq_refl E) as [HC HT]. split; [|constructor; [exact I|exact HT]].
        intros c' cn' [Hc|Hc] Hn2 Hf2; [|exact (HC c' cn' Hc Hn2 Hf2)].
        injection Hc as <-. rewrite Ecn in Hn2. injection Hn2 as <-.
        exists tc, ixs. split; [exact Efind|exact (Hrec _ _ _ Er D)].
      * destruct (IH _ _ _ HP HR) as [HC HT]. split; [|constructor; [exact I|exact HT]].
        intros c' cn' [Hc|Hc] Hn2 Hf2; [|exact (HC c' cn' Hc Hn2 Hf2)].
        injection Hc as <-. rewrite Ecn in Hn2. injection Hn2 as <-. rewrite Ef in Hf2. discriminate.
    + destruct (vproj_items T w f v rec ty rest) as [rest'|] eqn:Ei; [|discriminate]. cbn [option_map] in HP. injection HP as <-.
      rewrite childrenb_unfold in HR. rewrite !andb_true_iff in HR. destruct HR as [[A B] C].
      destruct (IH _ _ _ eq_refl C) as [HC HT]. split.
      * intros c' cn' [Hc|Hc]; [discriminate|exact (HC c' cn' Hc)].
      * constructor; [exact (textokb_down _ _ A)|exact HT].
Qed.

Theorem canon_down fuel : forall ty i t, vproj T w f v fuel ty i = Some t -> CANONB t = true -> Valid T w f v ty i.
Proof.
  induction fuel as [|fl IH]; intros ty i t HP HR; [discriminate|].
  cbn [vproj] in HP. destruct (w_nodes w i) as [n|] eqn:En; [|discriminate].
  destruct (vproj_items T w f v (vproj T w f v fl) ty (n_content n)) as [content|] eqn:Ei; [|discriminate]. injection HP as <-.
  rewrite canonb_node in HR. rewrite !andb_true_iff in HR. destruct HR as [[[A B] C] D].
  destruct (content_mode T ty) as [mode| |]; try discriminate.
  rewrite !andb_true_iff in D. destruct D as [[D1 D2] D3].
  destruct (children_down (vproj T w f v fl) ty mode (fun tc c t H => vproj_name_type fl tc c t H) (fun tc c t H => IH tc c t H)
              _ _ _ _ Ei D3) as [HC HT].
  econstructor; [exact En|exact (attrsokb_down _ _ C)|exact HT|exact HC].
Qed.

(* for the root the header attributes are judged with the 4.0.1 placeholder by strict loading; ValidIn judges them with v *)
Theorem root_down ty r t :
  vproj T w f v (fuel_of w) ty r = Some t ->
  rootcanonb T tab_el tab_at tab_en check_fn float_fmt float_parse v t = true ->
  (forall n, w_nodes w r = Some n -> Forall (CompatSpec.attr_valid T v ty) (n_attrs n)) ->
  Valid T w f v ty r.
Proof.
  intros HP HR Hattrs. unfold fuel_of in HP. cbn [vproj] in HP.
  destruct (w_nodes w r) as [n|] eqn:En; [|discriminate].
  destruct (vproj_items T w f v (vproj T w f v (N.to_nat (w_next w))) ty (n_content n)) as [content|] eqn:Ei; [|discriminate]. injection HP as <-.
  unfold rootcanonb in HR.
  destruct (elem T (autosar_element T)) as [e| |]; try discriminate.
  destruct (version_of_ident "Autosar_4_0_1") as [v401|]; try discriminate.
  rewrite !andb_true_iff in HR. destruct HR as [_ G].
  destruct (content_mode T ty) as [mode| |]; try discriminate.
  rewrite !andb_true_iff in G. destruct G as [[G1 G2] G3].
  destruct (children_down (vproj T w f v (N.to_nat (w_next w))) ty mode (fun tc c t H => vproj_name_type _ tc c t H)
              (fun tc c t H => canon_down _ tc c t H) _ _ _ _ Ei G3) as [HC HT].
  econstructor; [exact En|exact (Hattrs n eq_refl)|exact HT|exact HC].
Qed.

(* ---- strict loading of the projection ---- *)
Definition loads_strictly (t : etree) : Prop :=
  exists body, ser_elem T tab_el tab_at tab_en float_fmt t 0 false = Val body /\
    forall sa, exists st, load true T tab_el tab_at tab_en check_fn float_parse (xml_header sa ++ body) = Val (Ret t st) /\
                          p_warnings st = [] /\ p_version st = v /\ p_standalone st = sa.

Theorem canonical_loads t : rootcanonb T tab_el tab_at tab_en check_fn float_fmt float_parse v t = true -> loads_strictly t.
Proof.
  intros HC. pose proof (rootcanonb_sound T tab_el tab_at tab_en check_fn float_fmt float_parse v t HC true) as RC.
  destruct (root_ser_total true T tab_el tab_at tab_en check_fn float_fmt float_parse v t RC) as [body Hb].
  exists body. split; [exact Hb|]. intros sa.
  exact (file_roundtrip true T tab_el tab_at tab_en check_fn float_fmt float_parse v t sa body RC Hb).
Qed.

(* ArxmlFile::serialize first rewrites the root's xsi:schemaLocation for the file version (only the root's attribute list changes) *)
Lemma set_version_shape name ty attrs content cm t' :
  Serializer.set_version T tab_at check_fn v (ENode name ty attrs content cm) = Val t' -> exists attrs', t' = ENode name ty attrs' content cm.
Proof.
  unfold Serializer.set_version. destruct (from_bytes tab_at (BS "xsi:schemaLocation")) as [a| |]; try discriminate.
  destruct (schema_location_value v) as [value| |]; cbn [bind]; try discriminate.
  destruct (find_attribute_spec T ty a) as [[[[[cd ctype] req] m]|]| |]; cbn [bind]; try discriminate.
  - destruct (check_value_string check_fn ctype value) as [[|]| |]; cbn [bind]; try discriminate; intros [= <-]; eauto.
  - intros [= <-]. eauto.
Qed.

(* the tree ArxmlFile::serialize writes for file f when its version is v: the v-typed projection with the relabelled root *)
Definition relabelled_tree (t' : etree) : Prop :=
  exists t, file_tree T w f v t /\ Serializer.set_version T tab_at check_fn v t = Val t'.

Lemma relabelled_text t' body sa : relabelled_tree t' -> ser_elem T tab_el tab_at tab_en float_fmt t' 0 false = Val body ->
  exists t, file_tree T w f v t /\ serialize_file T tab_el tab_at tab_en check_fn float_fmt v sa t = Val (xml_header sa ++ body).
Proof.
  intros (t & Ht & Hs) Hb. exists t. split; [exact Ht|]. unfold serialize_file. rewrite Hs. cbn [bind]. rewrite Hb. reflexivity.
Qed.

Theorem valid_loads t' :
  relabelled_tree t' -> ValidIn T w f v ->
  rootrestb T tab_el tab_at tab_en check_fn float_fmt float_parse v t' = true -> loads_strictly t'.
Proof.
  intros (t & (r & ty & Hroot & HP) & Hs) (r' & ty' & Hroot' & HV) HR.
  assert (r' = r /\ ty' = ty) as [-> ->].
  { destruct Hroot as (x & m & n & Hx & Hm & Er & Hn & Et), Hroot' as (x' & m' & n' & Hx' & Hm' & Er' & Hn' & Et').
    assert (x' = x) by congruence. subst x'. assert (m' = m) by congruence. subst m'. subst r r'.
    assert (n' = n) by congruence. subst n'. subst. auto. }
  apply canonical_loads. destruct t as [name ty0 attrs content cm].
  destruct (set_version_shape _ _ _ _ _ _ Hs) as (attrs' & ->).
  exact (root_up ty r name ty0 attrs content cm attrs' HP HV HR).
Qed.

(* a clean check: what ArxmlFile::serialize writes after the relabelling loads strictly as v *)
Theorem clean_loads errs mask t' :
  NoKnown T w f v -> f_check T w f v = Val (errs, mask) -> errs = [] ->
  relabelled_tree t' -> rootrestb T tab_el tab_at tab_en check_fn float_fmt float_parse v t' = true -> loads_strictly t'.
Proof.
  intros (Kr & Km & Ks) Hc He Ht HR.
  apply (valid_loads t' Ht); [|exact HR].
  apply (f_check_exact T w f v Km Ks Kr (errs, mask) Hc). exact He.
Qed.

End Up.

(* the projection does not read file versions *)
Lemma vproj_with_version T w g u f v fuel : forall ty i, vproj T (with_version w g u) f v fuel ty i = vproj T w f v fuel ty i.
Proof.
  unfold with_version. destruct (nth_opt (w_files w) (N.to_nat g)) as [x|]; [|reflexivity].
  set (w' := mkWorld _ _ _ _).
  induction fuel as [|fl IH]; intros ty i; [reflexivity|].
  cbn [vproj]. change (w_nodes w' i) with (w_nodes w i). destruct (w_nodes w i) as [n|]; [|reflexivity].
  assert (Hi : forall l, vproj_items T w' f v (vproj T w' f v fl) ty l = vproj_items T w f v (vproj T w f v fl) ty l).
  { induction l as [|it rest IHl]; [reflexivity|]. destruct it as [c|d]; cbn [vproj_items].
    - change (w_nodes w' c) with (w_nodes w c). destruct (w_nodes w c) as [cn|]; [|reflexivity].
      destruct (in_file f cn); [|exact IHl].
      destruct (find_sub_element T ty (n_name cn) v) as [[[tc ixs]|]| |]; try reflexivity; try (rewrite IH, IHl; reflexivity).
    - rewrite IHl. reflexivity. }
  rewrite Hi. reflexivity.
Qed.
