(* Tree/CopyProofsDupSplit.v — C13: the per-file text of a duplicate for SPLIT (multi-file) models.
   dup_files builds a file map from the names of the original's files to new file ids; every entry points to a file
   of the copy with that name (FmSpec), every file of the original has an entry.  With file names unique within the
   model and every local file set below the root drawn from the model's files, the map treats every local file set
   alike (MapsAlike), so Part II (CopyProofsDupText.v) applies. *)
From AV Require Import Base.Bytes Base.Outcome Hash.HashModel Spec.SpecOps Tree.Heap Tree.Ops Tree.Script Tree.Copy
  Tree.Serialize Tree.Inv Tree.InvProofsCore Tree.InvProofsNav Tree.InvProofsOp2
  Tree.CopyProofsW Tree.CopyProofsDefs Tree.CopyProofsDeep Tree.CopyProofsCreate Tree.CopyProofsTop Tree.CopyProofsBridge
  Tree.CopyProofsDup Tree.CopyProofsFK Tree.CopyProofsText Tree.CopyProofsDupText Tree.CopyProofsDupAll
  Tree.CompatFrame Tree.CompatHist7.
From Coq Require Import Lia PeanoNat.
Open Scope string_scope.
Open Scope list_scope.
Open Scope N_scope.

(* ------------------------------------------------------------------ computations that do not touch the file records *)
Definition fkeep {A} (c : W A) : Prop := forall w r w', c w = Val (r, w') -> w_files w' = w_files w.

Lemma fkeep_ro {A} (c : W A) : ro c -> fkeep c.
Proof. intros R w r w' E. apply R in E. subst. reflexivity. Qed.
Lemma fkeep_bind {A C} (c : W A) (k : A -> W C) : fkeep c -> (forall a, fkeep (k a)) -> fkeep (wbind c k).
Proof.
  intros Hc Hk w r w' E. apply wbind_inv in E as [(a & w1 & E1 & E2) | (e & E1 & _)].
  - rewrite (Hk a _ _ _ E2). eapply Hc; eauto.
  - eapply Hc; eauto.
Qed.
Lemma fkeep_try {A} (c : W A) : fkeep c -> fkeep (wtry c).
Proof. intros Hc w r w' E. apply wtry_inv in E as (r0 & E & _). eapply Hc; eauto. Qed.
Lemma fkeep_modify_node i f : fkeep (modify_node i f).
Proof. intros w r w' E. apply modify_node_wset in E as (n & _ & _ & ->). reflexivity. Qed.
Lemma fkeep_modify_model m f : fkeep (modify_model m f).
Proof. intros w r w' E. apply modify_model_inv in E as (x & _ & _ & ->). reflexivity. Qed.

Ltac fkeep_loop :=
  match goal with
  | |- fkeep (?F ?l) =>
    is_fix F; let l' := fresh "l" in generalize l; intro l'; induction l' as [|? ? ?]; lazy beta iota fix zeta
  end.
Ltac fkeep_step :=
  lazymatch goal with
  | |- forall _, _ => intros ?
  | |- fkeep (wbind _ _) => apply fkeep_bind; [ | intros ? ]
  | |- fkeep (wtry _) => apply fkeep_try
  | |- fkeep (modify_node _ _) => apply fkeep_modify_node
  | |- fkeep (modify_model _ _) => apply fkeep_modify_model
  | |- fkeep (match ?x with _ => _ end) => destruct x
  | |- fkeep (if ?b then _ else _) => destruct b
  | |- fkeep (let '(_, _) := ?x in _) => destruct x
  | |- fkeep ?c => first [ assumption | apply fkeep_ro; solve [ro_tac] | fkeep_loop ]
  end.
Ltac fkeep_tac := repeat fkeep_step.

Section Split.
Variable T : tables.

Lemma fkeep_atfr fuel : forall e f, fkeep (add_to_file_restricted T fuel e f).
Proof. induction fuel as [|fl IH]; intros e f; cbn [add_to_file_restricted]; fkeep_tac. apply IH. Qed.

(* AutosarModel::create_file, exactly: the new id is the number of files, the records that existed stay, the new record
   is (model, name, version, no standalone flag) *)
Lemma create_file_exact m name ver w fid w' :
  m_create_file T m name ver w = Val (OK fid, w') ->
  fid = N.of_nat (List.length (w_files w)) /\ w_files w' = w_files w ++ [mkFile m name ver None].
Proof.
  unfold m_create_file. intros H.
  apply wbind_inv in H as [(x & w1 & E & H) | (e & E & [=])]. apply get_model_inv in E as (x' & _ & [= <-] & ->).
  apply wbind_inv in H as [(wg & w1 & E & H) | (e & E & [=])]. apply wget_inv in E as ([= ->] & ->).
  destruct (existsb _ (m_files x)); [apply wfail_inv in H as ([=] & _)|].
  apply wbind_inv in H as [(u & w1 & E & H) | (e & E & [=])]. unfold wput in E. injection E as _ <-.
  apply wbind_inv in H as [(u1 & w1 & E & H) | (e & E & [=])]. apply fkeep_modify_model in E.
  apply wbind_inv in H as [(wg & w2 & E2 & H) | (e & E2 & [=])]. apply wget_inv in E2 as ([= ->] & ->).
  apply wbind_inv in H as [(u2 & w3 & E3 & H) | (e & E3 & [=])]. apply wret_inv in H as ([= <-] & ->).
  apply (fkeep_try _ (fkeep_atfr _ _ _)) in E3. split; [reflexivity|]. rewrite E3, E. reflexivity.
Qed.

Lemma assoc_get_insert {A} k (v : A) l k' :
  assoc_get k' (assoc_insert k v l) = if bytes_eqb k k' then Some v else assoc_get k' l.
Proof.
  induction l as [|[k0 a0] l IH]; cbn [assoc_insert assoc_get]; [reflexivity|].
  destruct (bytes_eqb k0 k) eqn:E0; cbn [assoc_get].
  - apply bytes_eqb_spec in E0. subst k0. destruct (bytes_eqb k k'); reflexivity.
  - rewrite IH. destruct (bytes_eqb k0 k') eqn:E1; [|reflexivity].
    destruct (bytes_eqb k k') eqn:E2; [|reflexivity].
    apply bytes_eqb_spec in E1, E2. subst. rewrite bytes_eqb_refl in E0. discriminate E0.
Qed.

(* every entry of the file map names a file of model c with that name *)
Definition FmSpec (c : N) (w : world) (fm : list (list N * N)) : Prop :=
  forall name ng, assoc_get name fm = Some ng ->
    exists rec, nth_opt (w_files w) (N.to_nat ng) = Some rec /\ f_name rec = name /\ f_model rec = c.
(* file records persist up to the standalone flag *)
Definition Persist (w w' : world) : Prop :=
  forall k rec, nth_opt (w_files w) k = Some rec ->
    exists rec', nth_opt (w_files w') k = Some rec' /\ f_name rec' = f_name rec /\ f_model rec' = f_model rec /\
                 f_version rec' = f_version rec.
Lemma Persist_refl w : Persist w w.
Proof. intros k rec H. exists rec. auto. Qed.
Lemma Persist_trans a b c : Persist a b -> Persist b c -> Persist a c.
Proof.
  intros H1 H2 k rec H. destruct (H1 k rec H) as (r1 & A & B1 & B2 & B3). destruct (H2 k r1 A) as (r2 & C & D1 & D2 & D3).
  exists r2. split; [exact C|]. split; [congruence|]. split; congruence.
Qed.

Lemma dup_files_map c : forall files fm0 w fm w',
  dup_files T c files fm0 w = Val (OK fm, w') -> FmSpec c w fm0 ->
  FmSpec c w' fm /\ Persist w w' /\
  (forall name, assoc_get name fm0 <> None -> assoc_get name fm <> None) /\
  (forall f fl, In f files -> nth_opt (w_files w) (N.to_nat f) = Some fl -> assoc_get (f_name fl) fm <> None).
Proof.
  induction files as [|f files IH]; intros fm0 w fm w' H HS; cbn [dup_files] in H.
  - apply wret_inv in H as ([= <-] & ->). split; [exact HS|]. split; [apply Persist_refl|]. split; [auto|intros ? ? []].
  - apply wbind_inv in H as [(fl & w1 & E & H) | (e & E & [=])]. apply get_file_inv in E as (fl' & Hfl & [= <-] & ->).
    apply wbind_inv in H as [(nf & w1 & E & H) | (e & E & [=])].
    destruct (create_file_exact _ _ _ _ _ _ E) as (-> & Hf1). clear E.
    apply wbind_inv in H as [(nfl & w2 & E & H) | (e & E & [=])]. apply get_file_inv in E as (nfl' & Hnfl & [= <-] & ->).
    rewrite Hf1, Nnat.Nat2N.id, nth_opt_app_new in Hnfl. injection Hnfl as <-.
    apply wbind_inv in H as [(u & w2 & E & H) | (e & E & [=])]. unfold set_file in E. injection E as _ <-.
    set (nf := N.of_nat (List.length (w_files w))) in *.
    set (rec2 := set_standalone (mkFile c (f_name fl) (f_version fl) None) (f_standalone fl)) in *.
    set (w2 := mkWorld (w_nodes w1) (w_next w1) (list_set (w_files w1) (N.to_nat nf) rec2) (w_models w1)) in *.
    assert (Hnew : nth_opt (w_files w2) (N.to_nat nf) = Some rec2).
    { unfold w2; cbn [w_files]. rewrite nth_opt_nth_error. apply (list_set_nth_eq _ _ _ (mkFile c (f_name fl) (f_version fl) None)).
      rewrite <- nth_opt_nth_error, Hf1. unfold nf. rewrite Nnat.Nat2N.id. apply nth_opt_app_new. }
    assert (HP : Persist w w2).
    { intros k rec Hk. exists rec. split; [|auto]. unfold w2; cbn [w_files].
      assert (k <> N.to_nat nf). { apply nth_opt_Some in Hk. unfold nf. rewrite Nnat.Nat2N.id. lia. }
      rewrite nth_opt_nth_error, list_set_nth_neq, <- nth_opt_nth_error by exact H0. rewrite Hf1. apply nth_opt_app_old. exact Hk. }
    assert (HS2 : FmSpec c w2 (assoc_insert (f_name fl) nf fm0)).
    { intros name ng Hg. rewrite assoc_get_insert in Hg. destruct (bytes_eqb (f_name fl) name) eqn:Eb.
      - injection Hg as <-. apply bytes_eqb_spec in Eb. exists rec2. split; [exact Hnew|]. split; [exact Eb|reflexivity].
      - destruct (HS name ng Hg) as (rec & Hr & Hn & Hm). destruct (HP _ _ Hr) as (rec' & Hr' & N1 & N2 & _).
        exists rec'. split; [exact Hr'|]. split; congruence. }
    destruct (IH _ _ _ _ H HS2) as (A & B & C & D).
    split; [exact A|]. split; [eapply Persist_trans; eauto|]. split.
    + intros name Hn. apply C. rewrite assoc_get_insert. destruct (bytes_eqb (f_name fl) name); [discriminate|exact Hn].
    + intros g gl [<-|Hg] Hgl.
      * rewrite Hfl in Hgl. injection Hgl as <-. apply C. rewrite assoc_get_insert, bytes_eqb_refl. discriminate.
      * destruct (HP _ _ Hgl) as (gl' & Hgl' & N1 & _). rewrite <- N1. exact (D g gl' Hg Hgl').
Qed.


Variable tab_el tab_at tab_en : nametab.
Variable check_fn : N -> list N -> res bool.
Variable float_fmt : N -> list N.
Variable LATEST : N.
Variable root_attrs : list (N * cdata).

Theorem duplicate_text_split m w c w' x rn e ed :
  Core w ->
  m_duplicate_body T LATEST root_attrs m w = Val (OK c, w') ->
  nth_opt (w_models w) (N.to_nat m) = Some x -> w_nodes w (m_root x) = Some rn ->
  et_new T (autosar_element T) = Val (n_type rn) -> elem T (autosar_element T) = Val ed -> ed_name ed = n_name rn ->
  n_content rn = [CElem e] ->
  (forall en, w_nodes w e = Some en -> is_named T (n_type en) = Val false) ->
  (forall v, (v = LATEST \/ exists f fl, nth_opt (w_files w') (N.to_nat f) = Some fl /\ f_version fl = v) -> AllValidIn T v w e) ->
  (* the files of the model exist and have pairwise different names *)
  (forall g, In g (m_files x) -> exists gl, nth_opt (w_files w) (N.to_nat g) = Some gl) ->
  (forall g1 g2 l1 l2, In g1 (m_files x) -> In g2 (m_files x) ->
     nth_opt (w_files w) (N.to_nat g1) = Some l1 -> nth_opt (w_files w) (N.to_nat g2) = Some l2 ->
     f_name l1 = f_name l2 -> g1 = g2) ->
  (* every local file set below the root is drawn from the files of the model *)
  (forall p pn o on, Sub w (m_root x) p -> w_nodes w p = Some pn -> In (CElem o) (n_content pn) -> w_nodes w o = Some on ->
     forall g, In g (n_files on) -> In g (m_files x)) ->
  forall f fl, In f (m_files x) -> nth_opt (w_files w) (N.to_nat f) = Some fl ->
  exists nf nfl, nth_opt (w_files w') (N.to_nat nf) = Some nfl /\ f_name nfl = f_name fl /\ f_model nfl = c /\
    forall fuel indent inline,
      ser_heap T tab_el tab_at tab_en float_fmt fuel w' (Some f) (m_root x) indent inline =
      ser_heap T tab_el tab_at tab_en float_fmt fuel w' (Some nf) (w_next w) indent inline.
Proof.
  intros CoreW H Hx Hrn Het Hel Hname Hcont Hunn HAV Hrec Huniq Hlocal f fl Hf Hfl.
  pose proof (Core_Closed w CoreW) as Cw.
  assert (CoreW' : Core w') by (eapply (CoreP_duplicate_body T check_fn LATEST root_attrs m); eauto).
  unfold m_duplicate_body in H.
  set (n0 := w_next w) in *. set (nm := List.length (w_models w)). set (nf0 := List.length (w_files w)).
  apply wbind_inv in H as [(x' & w1 & E & H) | (e0 & E & [=])].
  apply get_model_inv in E as (x'' & Hx' & [= <-] & ->). rewrite Hx in Hx'. injection Hx' as <-.
  assert (Hrootlt : m_root x < n0) by (eapply (proj1 Cw); eauto).
  apply wbind_inv in H as [(c0 & w1 & E & H) | (e0 & E & [=])].
  unfold new_model in E. rewrite Het, Hel in E. injection E as <- <-.
  set (cm := N.of_nat nm) in *.
  set (rnode := mkNode (PModel cm) (ed_name ed) (n_type rn) [] root_attrs [] None) in *.
  set (w1 := mkWorld _ _ _ _) in *.
  apply wbind_inv in H as [(rn1 & w2 & E & H) | (e0 & E & [=])].
  apply get_node_inv in E as (rn1' & Hrn1 & [= <-] & ->).
  assert (rn1 = rn). { unfold w1 in Hrn1; cbn in Hrn1. rewrite upd_neq in Hrn1 by (fold n0; lia). congruence. }
  subst rn1. clear Hrn1.
  apply wbind_inv in H as [(cx & w2 & E & H) | (e0 & E & [=])].
  apply get_model_inv in E as (cx' & Hcx & [= <-] & ->).
  assert (cx = mkModel n0 [] [] []).
  { unfold w1 in Hcx; cbn [w_models] in Hcx. unfold cm in Hcx. rewrite Nnat.Nat2N.id in Hcx.
    unfold nm in Hcx. rewrite nth_opt_app_new in Hcx. injection Hcx as <-. reflexivity. }
  subst cx. cbn [m_root] in H.
  apply wbind_inv in H as [(u & w2 & E & H) | (e0 & E & [=])].
  apply modify_node_wset in E as (rn0 & Hrn0 & _ & ->).
  assert (rn0 = rnode).
  { unfold w1 in Hrn0; cbn [w_nodes] in Hrn0. unfold n0 in Hrn0. rewrite upd_eq in Hrn0. injection Hrn0 as <-. reflexivity. }
  subst rn0.
  set (rnode2 := set_comment (set_attrs rnode (n_attrs rn)) (n_comment rn)) in *.
  set (w2 := wset w1 n0 rnode2) in *.
  assert (Cw1 : Closed w1).
  { apply (Closed_nodes (walloc w rnode)); [|reflexivity|reflexivity]. apply Closed_alloc; [exact Cw | intros y []]. }
  assert (Cw2 : Closed w2).
  { apply (Closed_upd w1 n0 rnode rnode2 Cw1); [unfold w1; cbn; apply upd_eq | intros y []]. }
  assert (FK2 : FreshKids n0 w2).
  { intros p k y Hp Hk Hin. unfold w2, wset, w1 in Hk; cbn [w_nodes] in Hk.
    destruct (N.eq_dec p n0) as [->|Hne].
    - rewrite upd_eq in Hk. injection Hk as <-. destruct Hin.
    - rewrite upd_neq in Hk by exact Hne. unfold n0 in Hne. rewrite upd_neq in Hk by exact Hne.
      apply (proj1 Cw) in Hk. unfold n0 in Hp. lia. }
  assert (HI2 : DInv n0 nm nf0 w2).
  { repeat split; try apply Cw2; auto.
    - unfold w2, wset, w1; cbn. lia.
    - unfold w2, wset, w1; cbn. rewrite app_length. cbn. lia. }
  assert (HS2 : DSame n0 nm nf0 w w2).
  { split; [|split].
    - intros i Hi. unfold w2, wset, w1; cbn. rewrite !upd_neq by lia. reflexivity.
    - reflexivity.
    - unfold w2, wset, w1; cbn. apply firstn_app_le. unfold nm. lia. }
  assert (HR2 : RootOf (n_attrs rn) (n_comment rn) n0 nm n0 cm w2).
  { split; [lia|]. split; [unfold cm; rewrite Nnat.Nat2N.id; lia|].
    exists rnode2, (mkModel n0 [] [] []). unfold w2, wset; cbn [w_nodes w_models]. rewrite upd_eq.
    repeat split; auto. }
  assert (HE2 : RootEmpty n0 w2).
  { exists rnode2. unfold w2, wset; cbn [w_nodes]. rewrite upd_eq. auto. }
  (* files *)
  apply wbind_inv in H as [(filemap & w3 & E & H) | (e0 & E & [=])].
  destruct (dup_files_spec T _ _ _ _ _ _ _ _ _ _ _ _ HI2 HR2 HE2 E) as (HI3 & HS3 & HR3 & HE3).
  assert (Fr23 : Fr w2 w3) by (eapply (frp_dup_files T w2 cm (m_files x) []); [apply Fr_refl|exact E]).
  destruct (dup_files_map cm (m_files x) [] w2 filemap w3 E) as (FM & PS23 & _ & FMall); [intros name ng [=]|].
  assert (Hfiles2 : w_files w2 = w_files w) by reflexivity.
  clear E.
  (* the croot record in w3 *)
  destruct HR3 as (_ & _ & n3 & x3 & Hn3 & Hpar3 & Hx3 & Hroot3 & Hattr3 & Hcomm3).
  assert (HR3 : RootOf (n_attrs rn) (n_comment rn) n0 nm n0 cm w3).
  { split; [lia|]. split; [unfold cm; rewrite Nnat.Nat2N.id; lia|]. exists n3, x3. repeat split; auto. }
  destruct HE3 as (n3' & Hn3' & Hcont3). rewrite Hn3 in Hn3'. injection Hn3' as <-.
  destruct (proj2 Fr23 n0 n3 Hn3) as (n2 & Hn2 & (Hnm3 & Hty3 & _)).
  assert (n2 = rnode2) by (unfold w2, wset in Hn2; cbn [w_nodes] in Hn2; rewrite upd_eq in Hn2; congruence). subst n2.
  cbn in Hnm3, Hty3.
  (* the copy of the root's sub-element *)
  rewrite Hcont in H. cbn [dup_children] in H.
  apply wbind_inv in H as [(u4 & w4x & E & H) | (e0 & E & [=])].
  apply wbind_inv in E as [(cc & w4 & E & E') | (e0 & E & [=])]. apply wret_inv in E' as (_ & ->).
  change (e_create_copied_sub_element T LATEST n0 e w3) with (copy_call T LATEST n0 e None w3) in E.
  destruct HI3 as (I31 & I32 & I33 & FK3 & Cw3).
  assert (HI3 : DInv n0 nm nf0 w3) by (repeat split; auto; apply Cw3).
  destruct (copy_into_root T LATEST _ _ _ _ _ _ _ _ _ _ _ HI3 HR3 E) as (HI4 & HS4 & HR4).
  assert (HS03 : DSame n0 nm nf0 w w3) by (eapply DSame_trans; eauto).
  assert (HS04 : DSame n0 nm nf0 w w4) by (eapply DSame_trans; eauto).
  assert (Hen : exists en, w_nodes w e = Some en).
  { apply (proj2 Cw (m_root x) rn e Hrn). rewrite Hcont. left. reflexivity. }
  destruct Hen as (en & Hen).
  assert (Hesub : forall y, Sub w e y -> y < n0).
  { intros y Hy. destruct (Frame.Sub_allocated w e y en Cw Hen Hy) as (yn & Hyn). exact (proj1 Cw y yn Hyn). }
  (* the last phase *)
  apply wbind_inv in H as [(wg & w5 & E5 & H) | (e0 & E5 & [=])]. apply wget_inv in E5 as ([= ->] & ->).
  apply wbind_inv in H as [(oids & w5 & Eo & H) | (e0 & E5 & [=])].
  assert (w5 = w4) by (eapply ro_dfs_ids; eauto). subst w5.
  apply wbind_inv in H as [(cids & w5 & Ec & H) | (e0 & E5 & [=])].
  assert (w5 = w4) by (eapply ro_dfs_ids; eauto). subst w5.
  apply wbind_inv in H as [(u6 & w6 & Em & H) | (e0 & E5 & [=])]. apply wret_inv in H as (Ec0 & ->). injection Ec0 as Ec0. destruct u6.
  destruct (dup_membership_skel filemap oids cids w4 _ w6 Em) as (Knext & Kmod & Kfiles & Kskel).
  destruct (copy_source_unchanged T LATEST _ _ _ _ _ _ Cw3 E) as (Cw4 & (mm & (_ & _ & Ffiles & _)) & _).
  (* the copy is made in a version that some file of the result has *)
  destruct (copy_filtered T LATEST _ _ _ _ _ _ Cw3 E) as (v & w1x & Hv & _).
  assert (HAV3 : AllValidIn T v w3 e).
  { apply (proj1 (AllValidIn_ext T v w w3)).
    - apply HAV. destruct (min_version_in LATEST _ _ _ Hv) as [->|(g & gl & Hg & Hgv)]; [left; reflexivity|right].
      exists g, gl. split; [|exact Hgv]. rewrite Kfiles, Ffiles. exact Hg.
    - intros y Hy. apply (proj1 HS03). apply Hesub. exact Hy. }
  destruct (copy_same_version T LATEST _ _ _ _ _ _ _ Cw3 E Hv HAV3) as (w1' & HIso1 & HFT & Ex1 & HCR).
  (* no renaming: the copied element is not of a named type *)
  assert (Hen3 : w_nodes w3 e = Some en) by (rewrite (proj1 HS03) by (apply Hesub; constructor); exact Hen).
  assert (Hsame1 : forall i, i <> n0 -> i <> cc -> w_nodes w4 i = w_nodes w1' i).
  { apply (no_rename_unnamed T w1' w4 n0 cc HCR). intros nc1 Hnc1.
    inversion HIso1 as [s0 c0 ns nc Hs Hc _ Ety _ _ _]; subst s0 c0.
    rewrite Hen3 in Hs. injection Hs as <-. rewrite Hc in Hnc1. injection Hnc1 as <-. rewrite Ety. apply Hunn. exact Hen. }
  assert (Hn0lt : n0 < w_next w3) by exact (proj1 Cw3 n0 n3 Hn3).
  assert (HIso34 : Iso w3 w4 e cc).
  { destruct HCR as (nc1 & Hc1 & Hc4 & _).
    assert (K : forall i n1, w_next w3 <= i -> w_nodes w1' i = Some n1 ->
       exists n', w_nodes w4 i = Some n' /\ n_name n' = n_name n1 /\ n_type n' = n_type n1 /\
                  n_comment n' = n_comment n1 /\ n_attrs n' = n_attrs n1 /\ n_content n' = n_content n1).
    { intros i n1 Hi Hn1. destruct (N.eq_dec i cc) as [->|Hne].
      - rewrite Hc1 in Hn1. injection Hn1 as <-. exists (set_parent nc1 (PElem n0)). split; [exact Hc4|]. cbn. auto 6.
      - exists n1. rewrite Hsame1; [auto 6|lia|exact Hne]. }
    exact (proj1 (Iso_keep (w_next w3) w3 w1' w4 K) e cc HIso1 HFT). }
  assert (HIso44 : Iso w4 w4 e cc).
  { apply (proj1 (Iso_source_ext w3 w4 w4)); [exact HIso34|]. intros y Hy. apply (proj1 HS4).
    assert (Hy' : Sub w e y).
    { clear - Hy HS03 Hesub. induction Hy as [|p n k Hp IH Hn Hk]; [constructor|].
      rewrite (proj1 HS03) in Hn by (apply Hesub; exact IH). econstructor; eauto. }
    apply Hesub. exact Hy'. }
  (* the two roots in w4 *)
  assert (Hroot4 : w_nodes w4 (m_root x) = Some rn) by (rewrite (proj1 HS04) by exact Hrootlt; exact Hrn).
  assert (Hcroot4 : w_nodes w4 n0 = Some (set_content n3 [CElem cc])).
  { apply copy_call_inner in E as [(_ & e1 & [=]) | (m1 & v1 & p1 & _ & _ & _ & E)].
    destruct (ccsei_spec T _ _ _ _ _ _ _ _ Cw3 E) as (_ & _ & ns & Hns & Hns4 & _).
    rewrite Hn3 in Hns. injection Hns as <-. rewrite Hns4, Hcont3. destruct (N.to_nat p1); reflexivity. }
  assert (HIsoR : Iso w4 w4 (m_root x) n0).
  { econstructor; [exact Hroot4|exact Hcroot4| | | | |].
    - cbn. congruence.
    - cbn. congruence.
    - cbn. exact Hcomm3.
    - cbn. exact Hattr3.
    - cbn [n_content set_content]. rewrite Hcont. constructor; [exact HIso44|constructor]. }
  (* no element of the copy twice; the two trees are disjoint *)
  assert (Core4 : Core w4).
  { apply (Core_same_tree w6 w4); [|exact CoreW']. split; [symmetry; exact Knext|]. split; [unfold roots; rewrite Kmod; reflexivity|].
    intros i. symmetry. apply Kskel. }
  assert (ND : NoDup cids).
  { destruct (dfs_ids_preorder w4 n0 Core4) as (l & Hl & _ & HND & _); [eexists; exact Hcroot4|].
    rewrite Hl in Ec. injection Ec as <-. exact HND. }
  assert (Hold : forall o, Sub w4 (m_root x) o -> o < n0 /\ Sub w (m_root x) o).
  { apply Sub_old; [exact Cw|exact (proj1 HS04)|exact Hrootlt]. }
  assert (Hnew : forall y, Sub w4 n0 y -> n0 <= y).
  { intros y Hy. eapply FreshKids_Sub; [apply HI4|apply N.le_refl|exact Hy]. }
  (* the file of the copy that the map gives the name of f *)
  assert (Hfiles6 : w_files w6 = w_files w3) by (rewrite Kfiles, Ffiles; reflexivity).
  destruct (assoc_get (f_name fl) filemap) as [nf|] eqn:Enf; [|exfalso; apply (FMall f fl Hf); [rewrite Hfiles2; exact Hfl|exact Enf]].
  destruct (FM _ _ Enf) as (nfl & Hnfl & Hnfn & Hnfm).
  exists nf, nfl. split; [rewrite Hfiles6; exact Hnfl|]. split; [exact Hnfn|]. split; [rewrite Ec0; exact Hnfm|].
  intros fuel indent inline. apply iso_text.
  eapply (membership_phase filemap (fuel_of w4) (m_root x) n0 oids cids w4 w6); eauto.
  - intros o k Ho Hk. pose proof (proj1 (Hold o (dfs_ids_Sub _ _ _ _ _ Eo _ eq_refl _ Ho))).
    pose proof (Hnew k (dfs_ids_Sub _ _ _ _ _ Ec _ eq_refl _ Hk)). lia.
  - intros o on (p & pn & Hp & Hpn & Hin) Hon.
    destruct (Hold p (dfs_ids_Sub _ _ _ _ _ Eo _ eq_refl _ Hp)) as (Hplt & HpS).
    rewrite (proj1 HS04) in Hpn by exact Hplt.
    destruct (proj2 Cw p pn o Hpn Hin) as (on' & Hon'). pose proof (proj1 Cw o on' Hon') as Holt.
    rewrite (proj1 HS04) in Hon by exact Holt. rewrite Hon' in Hon. injection Hon as <-.
    apply translate_ok. intros g Hg. pose proof (Hlocal p pn o on' HpS Hpn Hin Hon' g Hg) as Hgm.
    destruct (Hrec g Hgm) as (gl & Hgl).
    assert (Hgl2 : nth_opt (w_files w2) (N.to_nat g) = Some gl) by (rewrite Hfiles2; exact Hgl).
    destruct (PS23 _ _ Hgl2) as (gl' & Hgl' & Hgn & _).
    destruct (assoc_get (f_name gl) filemap) as [ng|] eqn:Eng; [|exfalso; exact (FMall g gl Hgm Hgl2 Eng)].
    exists gl', ng. split; [rewrite Ffiles; exact Hgl'|]. split; [rewrite Hgn; exact Eng|]. split.
    + intros ->. destruct (FM _ _ Eng) as (r1 & Hr1 & Hn1 & _). rewrite Hnfl in Hr1. injection Hr1 as <-.
      apply (Huniq g f gl fl Hgm Hf Hgl Hfl). congruence.
    + intros ->. rewrite Hfl in Hgl. injection Hgl as <-. congruence.
Qed.

(* the same for the public call *)
Theorem duplicate_text_split_top m w c w' x rn e ed :
  Core w ->
  m_duplicate T tab_el tab_en check_fn LATEST root_attrs m w = Val (OK c, w') ->
  nth_opt (w_models w) (N.to_nat m) = Some x -> w_nodes w (m_root x) = Some rn ->
  et_new T (autosar_element T) = Val (n_type rn) -> elem T (autosar_element T) = Val ed -> ed_name ed = n_name rn ->
  n_content rn = [CElem e] ->
  (forall en, w_nodes w e = Some en -> is_named T (n_type en) = Val false) ->
  (forall v, (v = LATEST \/ exists f fl, nth_opt (w_files w') (N.to_nat f) = Some fl /\ f_version fl = v) -> AllValidIn T v w e) ->
  (forall g, In g (m_files x) -> exists gl, nth_opt (w_files w) (N.to_nat g) = Some gl) ->
  (forall g1 g2 l1 l2, In g1 (m_files x) -> In g2 (m_files x) ->
     nth_opt (w_files w) (N.to_nat g1) = Some l1 -> nth_opt (w_files w) (N.to_nat g2) = Some l2 ->
     f_name l1 = f_name l2 -> g1 = g2) ->
  (forall p pn o on, Sub w (m_root x) p -> w_nodes w p = Some pn -> In (CElem o) (n_content pn) -> w_nodes w o = Some on ->
     forall g, In g (n_files on) -> In g (m_files x)) ->
  forall f fl, In f (m_files x) -> nth_opt (w_files w) (N.to_nat f) = Some fl ->
  exists nf nfl, nth_opt (w_files w') (N.to_nat nf) = Some nfl /\ f_name nfl = f_name fl /\ f_model nfl = c /\
    forall fuel indent inline,
      ser_heap T tab_el tab_at tab_en float_fmt fuel w' (Some f) (m_root x) indent inline =
      ser_heap T tab_el tab_at tab_en float_fmt fuel w' (Some nf) (w_next w) indent inline.
Proof.
  intros C H. unfold m_duplicate in H.
  destruct (m_duplicate_body T LATEST root_attrs m w) as [[[c0|e0] w1]| |] eqn:Eb; try discriminate H.
  injection H as <- <-. eapply duplicate_text_split; eauto.
Qed.

End Split.
