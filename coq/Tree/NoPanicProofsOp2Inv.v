(* Tree/NoPanicProofsOp2Inv.v — C12: the history invariant H12 (Tree/NoPanicProofsHist.v) under the state changes of the
   large alphabet's covered operations:
     srel w w'          same models; node by node the same parent, name, type, the same sub-elements (as a set), no new data
                        items — keeps CharsLeaf, OriginsRef, RE, RX, PMB;
     world_rel T w w'   (Element::sort / AutosarModel::sort, agent-c14's sort_frame): srel, Core by agent-c03's Core_ptree, RV;
     attribute change   (the xsi:schemaLocation update of ArxmlFile::serialize): srel, Core by same_tree, RV / RX by the vp / xp
                        lemmas of agent-c14 / agent-c04;
     set_version        nodes and models untouched. *)
From Coq Require Import Lia PeanoNat Permutation.
From AV Require Import Base.Bytes Base.Outcome Hash.HashModel Spec.SpecOps Xml.TablesOk Tree.Heap Tree.Ops Tree.Script Tree.Inv.
From AV Require Import Tree.InvProofsBase Tree.InvProofsCore Tree.InvProofsPrim Tree.InvProofs Tree.InvProofsChars Tree.InvProofsData
  Tree.InvProofsRefs Tree.InvProofsOrigins3 Tree.InvProofsOp2 Tree.SortProofsHeap Tree.SortProofsReadyE Tree.SortProofsReadyV
  Tree.Index Tree.IndexProofsNodeInv Tree.Compat Tree.IndexProofsOp2.
From AV Require Import Tree.NoPanic Tree.NoPanicProofsBase Tree.NoPanicProofsHist.
Open Scope string_scope.
Open Scope list_scope.
Open Scope N_scope.

Definition nsrel (n n' : node) : Prop :=
  n_parent n' = n_parent n /\ n_name n' = n_name n /\ n_type n' = n_type n /\
  (forall c, In (CElem c) (n_content n') <-> In (CElem c) (n_content n)) /\
  (forall d, In (CData d) (n_content n') -> In (CData d) (n_content n)).

Definition srel (w w' : world) : Prop :=
  w_models w' = w_models w /\
  forall j, match w_nodes w j, w_nodes w' j with
            | Some n, Some n' => nsrel n n'
            | None, None => True
            | _, _ => False
            end.

Lemma srel_back w w' j n' : srel w w' -> w_nodes w' j = Some n' -> exists n, w_nodes w j = Some n /\ nsrel n n'.
Proof. intros (_ & S) H. specialize (S j). rewrite H in S. destruct (w_nodes w j) as [n|]; [eauto|destruct S]. Qed.
Lemma srel_fwd w w' j n : srel w w' -> w_nodes w j = Some n -> exists n', w_nodes w' j = Some n' /\ nsrel n n'.
Proof. intros (_ & S) H. specialize (S j). rewrite H in S. destruct (w_nodes w' j) as [n'|]; [eauto|destruct S]. Qed.

Lemma kids_nil_iff n : kids n = [] <-> forall c, ~ In (CElem c) (n_content n).
Proof.
  unfold kids, elems. split.
  - intros E c Hc. assert (In c (flat_map (fun it => match it with CElem c0 => [c0] | CData _ => [] end) (n_content n))).
    { apply in_flat_map. exists (CElem c). split; [exact Hc|left; reflexivity]. }
    rewrite E in H. destruct H.
  - intros H. destruct (flat_map _ (n_content n)) as [|c l] eqn:E; [reflexivity|]. exfalso.
    assert (In c (c :: l)) as Hc by (left; reflexivity). rewrite <- E in Hc. apply in_flat_map in Hc as ([c0|d] & Hi & Hc).
    + destruct Hc as [<-|[]]. exact (H c0 Hi).
    + destruct Hc.
Qed.

Section Inv.
Variable T : tables.
Variable tab_el tab_at tab_en : nametab.

Lemma srel_charsleaf w w' : srel w w' -> InvProofsChars.CharsLeaf T w -> InvProofsChars.CharsLeaf T w'.
Proof.
  intros S L i n' Hn' Hc. destruct (srel_back _ _ _ _ S Hn') as (n & Hn & (_ & _ & Ty & Ce & _)).
  unfold InvProofsChars.is_chars in Hc. rewrite Ty in Hc. pose proof (L i n Hn Hc) as K.
  apply kids_nil_iff. intros c Hcc. apply Ce in Hcc. exact (proj1 (kids_nil_iff n) K c Hcc).
Qed.

Lemma srel_originsref w w' : srel w w' -> InvProofsOrigins3.OriginsRef T w -> InvProofsOrigins3.OriginsRef T w'.
Proof.
  intros S O re (x & k & l & Hx & Hk & Hr). rewrite (proj1 S) in Hx.
  destruct (O re (ex_intro _ x (ex_intro _ k (ex_intro _ l (conj Hx (conj Hk Hr)))))) as (n & Hn & Hrf).
  destruct (srel_fwd _ _ _ _ S Hn) as (n' & Hn' & (_ & _ & Ty & _)). exists n'. split; [exact Hn'|]. rewrite Ty. exact Hrf.
Qed.

Lemma srel_re w w' : srel w w' -> RE T tab_el w -> RE T tab_el w'.
Proof.
  intros S (E1 & E2). split.
  - intros i n' Hn'. destruct (srel_back _ _ _ _ S Hn') as (n & Hn & (_ & Nm & Ty & _)). unfold nodeE. rewrite Nm, Ty. exact (E1 i n Hn).
  - intros i n' c cn' Hn' Hc Hcn'. destruct (srel_back _ _ _ _ S Hn') as (n & Hn & (_ & _ & Ty & Ce & _)).
    destruct (srel_back _ _ _ _ S Hcn') as (cn & Hcn & (_ & Nm & _)). rewrite Ty, Nm. apply (E2 i n c cn Hn); [apply Ce; exact Hc|exact Hcn].
Qed.

Lemma srel_rx w w' : srel w w' -> RX T w -> RX T w'.
Proof.
  intros S X i n' Hn'. destruct (srel_back _ _ _ _ S Hn') as (n & Hn & (Pa & _ & Ty & _ & Cd)). destruct (X i n Hn) as (X1 & X2).
  split; [intros d Hd; rewrite Ty; apply X1; apply Cd; exact Hd|]. intros m Hm. rewrite Ty. apply (X2 m). rewrite <- Pa. exact Hm.
Qed.

Lemma srel_pmb w w' : srel w w' -> PMB w -> PMB w'.
Proof.
  intros S B i n' m Hn' Hp. destruct (srel_back _ _ _ _ S Hn') as (n & Hn & (Pa & _)). rewrite (proj1 S). apply (B i n m Hn). rewrite <- Pa. exact Hp.
Qed.

(* the part of H12 that srel keeps; Core and RV are supplied by the caller *)
Lemma H12_srel w w' : srel w w' -> Core w' -> RV tab_at tab_en w' -> H12 T tab_el tab_at tab_en w -> H12 T tab_el tab_at tab_en w'.
Proof.
  intros S C' V' (_ & L & O & E & _ & X & B).
  split; [exact C'|]. split; [exact (srel_charsleaf _ _ S L)|]. split; [exact (srel_originsref _ _ S O)|].
  split; [exact (srel_re _ _ S E)|]. split; [exact V'|]. split; [exact (srel_rx _ _ S X)|exact (srel_pmb _ _ S B)].
Qed.

(* ---------- sort ---------- *)
Lemma in_celems c l : In (CElem c) (map CElem (celems l)) <-> In (CElem c) l.
Proof.
  rewrite in_map_iff. split.
  - intros (c0 & [= ->] & H). rewrite celems_elems in H. unfold elems in H. apply in_flat_map in H as ([c1|d] & Hi & Hc); [|destruct Hc].
    destruct Hc as [<-|[]]. exact Hi.
  - intros H. exists c. split; [reflexivity|]. rewrite celems_elems. unfold elems. apply in_flat_map. exists (CElem c). split; [exact H|left; reflexivity].
Qed.

Lemma world_rel_srel w w' : world_rel T w w' -> srel w w'.
Proof.
  intros (_ & _ & M & Hn). split; [exact M|]. intros j. specialize (Hn j).
  destruct (w_nodes w j) as [n|], (w_nodes w' j) as [n'|]; auto.
  destruct Hn as ((Pa & Nm & Ty & _) & [Ec|(_ & P)]).
  - split; [exact Pa|]. split; [exact Nm|]. split; [exact Ty|]. rewrite Ec. split; [tauto|auto].
  - split; [exact Pa|]. split; [exact Nm|]. split; [exact Ty|]. split.
    + intros c. split; intros H; [apply in_celems; exact (Permutation_in _ (Permutation_sym P) H)|apply (Permutation_in _ P); apply in_celems; exact H].
    + intros d Hd. exfalso. apply (Permutation_in _ (Permutation_sym P)) in Hd. apply in_map_iff in Hd as (c & [=] & _).
Qed.

Lemma world_rel_rv w w' : world_rel T w w' -> RV tab_at tab_en w -> RV tab_at tab_en w'.
Proof.
  intros WR V i n' Hn'. pose proof WR as (_ & _ & _ & Hn). specialize (Hn i). rewrite Hn' in Hn.
  destruct (w_nodes w i) as [n|] eqn:E; [|destruct Hn]. destruct (V i n E) as (Vc & Va).
  destruct Hn as ((_ & _ & _ & At & _) & Hc). split; [|rewrite At; exact Va].
  destruct (world_rel_srel _ _ WR) as (_ & S). specialize (S i). rewrite E, Hn' in S. destruct S as (_ & _ & _ & _ & Cd).
  intros d Hd. exact (Vc d (Cd d Hd)).
Qed.

Lemma H12_world_rel w w' : world_rel T w w' -> H12 T tab_el tab_at tab_en w -> H12 T tab_el tab_at tab_en w'.
Proof.
  intros WR I. pose proof I as (C & _ & _ & _ & V & _).
  apply (H12_srel w w' (world_rel_srel _ _ WR)); [|exact (world_rel_rv _ _ WR V)|exact I].
  exact (Core_ptree _ _ (world_rel_ptree T _ _ WR) C).
Qed.

(* ---------- nodes and models untouched ---------- *)
Lemma H12_same w w' : w_nodes w' = w_nodes w -> w_models w' = w_models w -> w_next w' = w_next w ->
  H12 T tab_el tab_at tab_en w -> H12 T tab_el tab_at tab_en w'.
Proof.
  intros En Em Ex I. pose proof I as (C & _ & _ & _ & V & _).
  assert (S : srel w w').
  { split; [exact Em|]. intros j. rewrite En. destruct (w_nodes w j); [|exact Logic.I]. repeat split; auto. }
  apply (H12_srel w w' S); [| |exact I].
  - apply (Core_same_tree w w'); [|exact C]. split; [exact Ex|]. split; [unfold roots; rewrite Em; reflexivity|].
    intros i. unfold skel. rewrite En. reflexivity.
  - intros i n Hn. rewrite En in Hn. exact (V i n Hn).
Qed.

(* ---------- an attribute change (raw_set_attribute) ---------- *)
Section Attr.
Variable check_fn : N -> list N -> res bool.
Hypothesis EnumsOK : forall k items it, T_cdata T k = Some (CEnum items) -> In it items -> to_str tab_en (fst it) <> None.
Hypothesis AttrsOK : forall k name cdid req, T_attributes T k = Some (name, cdid, req) -> to_str tab_at name <> None.

Lemma raw_set_attribute_srel h attr v ver w r w' : raw_set_attribute T check_fn h attr v ver w = Val (r, w') ->
  srel w w' /\ w_next w' = w_next w /\ w_files w' = w_files w.
Proof.
  assert (R : srel w w /\ w_next w = w_next w /\ w_files w = w_files w).
  { split; [|auto]. split; [reflexivity|]. intros j. destruct (w_nodes w j); [|exact Logic.I]. repeat split; auto. }
  unfold raw_set_attribute. intros H.
  apply wbind_inv in H as [(n & w1 & E & H)|(e & E & _)]; apply get_node_inv in E as (n' & Hn & En & ->); [|discriminate En].
  injection En as <-.
  apply wbind_inv in H as [(sp & w1 & E & H)|(e & E & _)]; apply wl_inv in E as (sp' & _ & Es & ->); [|discriminate Es].
  injection Es as <-. destruct sp as [[[[a spec] b] mask]|]; [|apply wfail_inv in H as (_ & ->); exact R].
  destruct (N.land ver mask =? 0); [apply wfail_inv in H as (_ & ->); exact R|].
  apply wbind_inv in H as [(ok & w1 & E & H)|(e & E & _)]; apply wl_inv in E as (ok' & _ & Eo & ->); [|discriminate Eo].
  injection Eo as <-. destruct ok; [|apply wfail_inv in H as (_ & ->); exact R].
  apply set_node_wset in H as (_ & ->). split; [|split; reflexivity]. split; [reflexivity|]. intros j.
  destruct (N.eq_dec j h) as [->|NE].
  - rewrite nodes_wset_eq, Hn. repeat split; auto.
  - rewrite nodes_wset_neq by exact NE. destruct (w_nodes w j); [|exact Logic.I]. repeat split; auto.
Qed.

Lemma H12_raw_set_attribute h attr v ver w r w' : raw_set_attribute T check_fn h attr v ver w = Val (r, w') ->
  H12 T tab_el tab_at tab_en w -> H12 T tab_el tab_at tab_en w'.
Proof.
  intros H I. pose proof I as (C & _ & _ & _ & V & X & _).
  destruct (raw_set_attribute_srel _ _ _ _ _ _ _ H) as (S & _ & _).
  apply (H12_srel w w' S); [| |exact I].
  - exact (Core_same_tree _ _ (stp_raw_set_attribute T check_fn h attr v ver w r w' H) C).
  - eapply vp_raw_set_attribute; eauto.
Qed.
End Attr.

End Inv.
