(* Tree/CompatProofs7.v — the bridge, closed statements: after a successful set_version the projection of the file loads strictly
   as the new version; a canonical projection makes the check clean; and an example on the REAL tables (a world rebuilt from a
   strictly loaded document): all hypotheses of the bridge are satisfiable, for the file's own version and for a downgrade. *)
From AV Require Import Base.Bytes Base.Outcome Hash.HashModel Spec.SpecOps Spec.SpecReal Spec.Versions Tree.Heap Tree.Ops Tree.Compat Tree.CompatSpec
  Tree.CompatProofs1 Tree.CompatProofs2 Tree.CompatProofs3 Tree.CompatTyped Tree.CompatProofs5 Tree.CompatReal Tree.Serialize Tree.CompatBridge Tree.CompatProofs6.
From AV Require Import Hash.HashRealElement Hash.HashRealAttr Hash.HashRealEnum.
From AV Require Import Xml.Parser Xml.Serializer Xml.StrictValidDef Xml.RoundTripElem Xml.RoundTripCanon Xml.RoundTripCanonb Xml.RoundTripFile
  Xml.ParserExamples Xml.RoundTripExamples.
Open Scope string_scope.
Open Scope list_scope.
Open Scope N_scope.

Lemma root_of_with_version w g u f r ty : root_of (with_version w g u) f r ty -> root_of w f r ty.
Proof.
  unfold with_version. destruct (nth_opt (w_files w) (N.to_nat g)) as [x|] eqn:Ex; [|exact (fun H => H)].
  intros (x' & m & n & Hx & Hm & Hr & Hn & Ht). cbn [w_files w_models w_nodes] in *.
  assert (Hf : exists x0, nth_opt (w_files w) (N.to_nat f) = Some x0 /\ f_model x0 = f_model x').
  { clear Hm Hr Hn Ht. revert Hx Ex. generalize (N.to_nat g) (N.to_nat f) (w_files w). intros a b l. revert a b.
    induction l as [|y l IH]; intros a b Hx Ex; [destruct a; discriminate|].
    destruct a, b; cbn in *.
    - injection Ex as ->. injection Hx as <-. eexists. split; [reflexivity|reflexivity].
    - eexists. split; [exact Hx|reflexivity].
    - eexists. split; [exact Hx|reflexivity].
    - exact (IH _ _ Hx Ex). }
  destruct Hf as (x0 & Hx0 & Hmod). exists x0, m, n. rewrite Hmod. repeat split; assumption.
Qed.

Section Closed.
Variable T : tables.
Variable tab_el tab_at tab_en : nametab.
Variable check_fn : N -> list N -> res bool.
Variable float_fmt : N -> list N.
Variable float_parse : list N -> option N.

Lemma file_tree_with_version w f v t : file_tree T (with_version w f v) f v t -> file_tree T w f v t.
Proof.
  intros (r & ty & Hroot & HP). exists r, ty. split; [exact (root_of_with_version _ _ _ _ _ _ Hroot)|].
  rewrite vproj_with_version in HP.
  replace (fuel_of w) with (fuel_of (with_version w f v)); [exact HP|].
  unfold with_version, fuel_of. destruct (nth_opt (w_files w) (N.to_nat f)); reflexivity.
Qed.

(* after a successful set_version: what ArxmlFile::serialize writes for the file loads strictly as the new version *)
Theorem set_version_loads w f v w' t' :
  f_set_version T f v w = Val (OK tt, w') -> NoKnown T w f v ->
  relabelled_tree T tab_at check_fn w' f v t' -> rootrestb T tab_el tab_at tab_en check_fn float_fmt float_parse v t' = true ->
  loads_strictly T tab_el tab_at tab_en check_fn float_fmt float_parse v t'.
Proof.
  intros H HK Ht HR.
  destruct (f_check T w f v) as [[errs mask]| |] eqn:Ec.
  - rewrite (set_version_spec T w f v errs mask Ec) in H.
    destruct errs as [|e rest]; cbn [is_empty] in H; [|discriminate]. injection H as <-.
    apply (clean_loads T tab_el tab_at tab_en check_fn float_fmt float_parse w f v [] mask t' HK Ec eq_refl); [|exact HR].
    destruct Ht as (t & Hft & Hs). exists t. split; [exact (file_tree_with_version _ _ _ _ Hft)|exact Hs].
  - unfold f_set_version, wbind, f_check_version_compatibility in H. rewrite Ec in H. discriminate.
  - unfold f_set_version, wbind, f_check_version_compatibility in H. rewrite Ec in H. discriminate.
Qed.

(* completeness on the tree: a projection that is a canonical root for v (and whose root attributes are allowed in v) has a clean check *)
Theorem canonical_clean w f v t errs mask :
  NoKnown T w f v -> f_check T w f v = Val (errs, mask) ->
  file_tree T w f v t -> rootcanonb T tab_el tab_at tab_en check_fn float_fmt float_parse v t = true ->
  (forall r ty n, root_of w f r ty -> w_nodes w r = Some n -> Forall (CompatSpec.attr_valid T v ty) (n_attrs n)) ->
  errs = [].
Proof.
  intros (Kr & Km & Ks) Hc (r & ty & Hroot & HP) HR Hattrs.
  apply (f_check_exact T w f v Km Ks Kr (errs, mask) Hc).
  exists r, ty. split; [exact Hroot|].
  exact (root_down T tab_el tab_at tab_en check_fn float_fmt float_parse w f v ty r t HP HR (fun n Hn => Hattrs r ty n Hroot Hn)).
Qed.

End Closed.

(* on the real tables, typed worlds: no K hypothesis *)
Section ClosedReal.
Variable tab_el tab_at tab_en : nametab.
Variable check_fn : N -> list N -> res bool.
Variable float_fmt : N -> list N.
Variable float_parse : list N -> option N.

Theorem clean_loads_real w f v errs mask t' :
  Typed RT w -> RootOk w f -> f_check RT w f v = Val (errs, mask) -> errs = [] ->
  relabelled_tree RT tab_at check_fn w f v t' -> rootrestb RT tab_el tab_at tab_en check_fn float_fmt float_parse v t' = true ->
  loads_strictly RT tab_el tab_at tab_en check_fn float_fmt float_parse v t'.
Proof.
  intros HT HR. exact (clean_loads RT tab_el tab_at tab_en check_fn float_fmt float_parse w f v errs mask t' (NoKnown_real w f v HT HR)).
Qed.

Theorem set_version_loads_real w f v w' t' :
  Typed RT w -> RootOk w f -> f_set_version RT f v w = Val (OK tt, w') ->
  relabelled_tree RT tab_at check_fn w' f v t' -> rootrestb RT tab_el tab_at tab_en check_fn float_fmt float_parse v t' = true ->
  loads_strictly RT tab_el tab_at tab_en check_fn float_fmt float_parse v t'.
Proof.
  intros HT HR H. exact (set_version_loads RT tab_el tab_at tab_en check_fn float_fmt float_parse w f v w' t' H (NoKnown_real w f v HT HR)).
Qed.
End ClosedReal.

(* ------------------------------------------------------------------ example on the real tables *)
Definition of_pc (d : Parser.cdata) : Heap.cdata :=
  match d with Parser.DEnum e => Heap.DEnum e | Parser.DString s => Heap.DString s | Parser.DUInt n => Heap.DUInt n | Parser.DFloat b => Heap.DFloat b end.

(* the heap of a tree: preorder ids starting at `me` *)
Fixpoint build (t : etree) (parent : pref) (me : id) {struct t} : list (id * node) * id :=
  match t with
  | ENode name ty attrs content cm =>
    let '(items, nodes, nxt) :=
      (fix go (l : list (etree + Parser.cdata)) (nxt : id) {struct l} : list citem * list (id * node) * id :=
         match l with
         | [] => ([], [], nxt)
         | inr d :: r => let '(its, ns, n2) := go r nxt in (CData (of_pc d) :: its, ns, n2)
         | inl c :: r =>
           let '(ns1, n1) := build c (PElem me) nxt in
           let '(its, ns, n2) := go r n1 in (CElem nxt :: its, ns1 ++ ns, n2)
         end) content (me + 1) in
    ((me, mkNode parent name ty items (map (fun a => (fst a, of_pc (snd a))) attrs) [] cm) :: nodes, nxt)
  end.

Definition lookup (l : list (id * node)) (i : id) : option node :=
  match find (fun p => fst p =? i) l with Some p => Some (snd p) | None => None end.

Definition world_of (t : etree) (ver : N) : world :=
  let '(nodes, nxt) := build t (PModel 0) 0 in
  mkWorld (lookup nodes) nxt [mkFile 0 [] ver None] [mkModel 0 [0] [] []].

Definition t_rich : etree := Eval vm_compute in match LOAD true doc_rich with Val (Ret t _) => t | _ => dummy_tree end.
Definition v_rich : N := Eval vm_compute in match LOAD true doc_rich with Val (Ret _ st) => p_version st | _ => 0 end.
Definition W_rich : world := Eval vm_compute in world_of t_rich v_rich.

Notation RESTR := (rootrestb RT tab_element tab_attr tab_enum accept_all no_float_fmt no_float).
Notation RCANON := (rootcanonb RT tab_element tab_attr tab_enum accept_all no_float_fmt no_float).
Definition relabel (ver : N) (t : etree) : etree :=
  match Serializer.set_version RT tab_attr accept_all ver t with Val t' => t' | _ => dummy_tree end.
Definition proj_rich (ver : N) : etree :=
  match vproj RT W_rich 0 ver (fuel_of W_rich) (e_type t_rich) 0 with Some t => t | None => dummy_tree end.

(* own version: the projection of the rebuilt world is the loaded tree, relabelling is the identity, the side condition holds, the
   check is clean, the tree is a canonical root *)
Example bridge_real_example :
  file_tree RT W_rich 0 v_rich t_rich /\ Serializer.set_version RT tab_attr accept_all v_rich t_rich = Val t_rich /\
  RESTR v_rich t_rich = true /\ (exists m, f_check RT W_rich 0 v_rich = Val ([], m)) /\ RCANON v_rich t_rich = true.
Proof.
  split; [|split; [|split; [|split]]].
  - exists 0, (e_type t_rich). split.
    + eexists. eexists. eexists. split; [reflexivity|]. split; [reflexivity|]. split; [reflexivity|]. split; [vm_compute; reflexivity|reflexivity].
    + vm_compute. reflexivity.
  - vm_compute. reflexivity.
  - vm_compute. reflexivity.
  - eexists. vm_compute. reflexivity.
  - vm_compute. reflexivity.
Qed.

(* a downgrade to 4.2.2 (bit 128): the check is clean, the relabelled v-typed projection satisfies the side condition and is in
   fact a canonical root for 4.2.2: it loads strictly as 4.2.2 *)
Definition t_down : etree := Eval vm_compute in relabel 128 (proj_rich 128).
Example bridge_real_downgrade :
  relabelled_tree RT tab_attr accept_all W_rich 0 128 t_down /\ RESTR 128 t_down = true /\
  (exists m, f_check RT W_rich 0 128 = Val ([], m)) /\
  loads_strictly RT tab_element tab_attr tab_enum accept_all no_float_fmt no_float 128 t_down.
Proof.
  split; [|split; [|split]].
  - exists (proj_rich 128). split.
    + exists 0, (e_type t_rich). split.
      * eexists. eexists. eexists. split; [reflexivity|]. split; [reflexivity|]. split; [reflexivity|]. split; [vm_compute; reflexivity|reflexivity].
      * vm_compute. reflexivity.
    + vm_compute. reflexivity.
  - vm_compute. reflexivity.
  - eexists. vm_compute. reflexivity.
  - apply canonical_loads. vm_compute. reflexivity.
Qed.
