(* Tree/RangeProofsReal.v — C07 on the regenerated real tables RT: the range theorems without hypothesis (SpecWF RT is
   proved in Tree/SpecWFReal.v), non-vacuity examples, and the witnesses of what is NOT true:
     * the loader accepts child lists that are not in specification order (it does not check sequence order, and sees a
       Choice conflict only between neighbours);
     * a cross-version copy keeps the ElementType of its source although the name resolves to another type in the version
       of the target file (known finding C07-copy-keeps-source-type);
     * inside one version a move (or copy) below a parent that lists the name with another type keeps the type too, and the
       loader does not accept the result (known finding C07 move-keeps-source-type). *)
From AV Require Import Base.Bytes Base.Outcome Hash.HashModel Spec.SpecOps Spec.SpecReal Tree.Heap Tree.Ops Tree.Script Tree.Inv Tree.Range
  Tree.SpecWF Tree.SpecWFReal Tree.Project.
Open Scope list_scope.
Open Scope N_scope.

Definition REAL_LATEST : N := 1048576.        (* AutosarVersion::LATEST as u32 (Autosar_00053) *)
Definition real_root : etype := (0, 250).      (* ElementType::ROOT = the AUTOSAR element *)

Lemma real_root_is_root : et_new RT (autosar_element RT) = Val real_root.
Proof. vm_compute. reflexivity. Qed.

(* AUTOSAR: [ADMIN-DATA (2055); AR-PACKAGES (5413)] is in order, the reverse is not; the loader complains about neither *)
Lemma real_ordered_example : Ordered RT real_root REAL_LATEST [Some 2055; Some 5413].
Proof. vm_compute. reflexivity. Qed.

Lemma loader_accepts_unordered :
  exists ty v items, LoaderAccepts RT ty v items /\ ~ Ordered RT ty v items.
Proof.
  exists real_root, REAL_LATEST, [Some 5413; Some 2055]. split.
  - vm_compute. reflexivity.
  - unfold Ordered. vm_compute. discriminate.
Qed.

(* ---- cross-version copy keeps the source type ----
   two models, each with one file: model 0 / file 0 in AUTOSAR 4.0.1 (bit 1), model 1 / file 1 in 4.0.2 (bit 2); both roots are
   ABSOLUTE-TOLERANCE elements (element definition 9, datatype 0) whose sub-element ABSOLUTE (name 4511) has datatype 5077 in
   4.0.1 and datatype 2229 from 4.0.2 on *)
Definition xroot (m f : N) : node := mkNode (PModel m) 0 (9, 0) [] [] [f] None.
Definition xw0 : world :=
  mkWorld (fun i => if i =? 0 then Some (xroot 0 0) else if i =? 1 then Some (xroot 1 1) else None) 2
          [mkFile 0 [] 1 None; mkFile 1 [] 2 None] [mkModel 0 [0] [] []; mkModel 1 [1] [] []].
Definition xw1 : world := match e_create_sub_element RT REAL_LATEST 0 4511 xw0 with Val (OK _, w) => w | _ => xw0 end.
Definition xw2 : world := match e_create_copied_sub_element RT REAL_LATEST 1 2 xw1 with Val (OK _, w) => w | _ => xw1 end.

Lemma copy_keeps_source_type :
  exists (w : world) (h other c : id) (w' : world) (n nc : node) (v : N) (et : etype) (ix : list N),
    e_create_copied_sub_element RT REAL_LATEST h other w = Val (OK c, w') /\
    w_nodes w' h = Some n /\ w_nodes w' c = Some nc /\ In (CElem c) (n_content n) /\
    min_version REAL_LATEST h w' = Val (OK v, w') /\
    find_sub_element RT (n_type n) (n_name nc) v = Val (Some (et, ix)) /\
    n_type nc <> et.
Proof.
  exists xw1, 1, 2, 3, xw2.
  eexists. eexists. exists 2, (7, 2229), [1].
  split; [vm_compute; reflexivity|].
  split; [vm_compute; reflexivity|].
  split; [vm_compute; reflexivity|].
  split; [left; reflexivity|].
  split; [vm_compute; reflexivity|].
  split; [vm_compute; reflexivity|].
  vm_compute. discriminate.
Qed.

(* ---- move keeps the source type, inside ONE version and ONE model (known finding C07 move-keeps-source-type; first seen by
   agent-c17, findings/C17-attach-keeps-stored-type.json) ----
   History (the validator of item names accepts everything; the three names n1 n2 n3 are valid identifiers anyway):
   AR-PACKAGES / AR-PACKAGE n1 / ELEMENTS / FLEXRAY-TP-CONFIG n2 (1495) / TP-ECUS (88) / FLEXRAY-TP-ECU (862), and beside it
   CAN-TP-CONFIG n3 (298).  move_element_here(CAN-TP-CONFIG, TP-ECUS) succeeds: CAN-TP-CONFIG lists the NAME TP-ECUS — with
   datatype 519, whose only sub-element is CAN-TP-ECU.  The moved element keeps type (8232, 2216); the loader reads it with
   (8231, 519) and meets FLEXRAY-TP-ECU, which that type does not list: IncorrectBeginElement.  In terms of Tree/Project.v:
   no LoaderWalk of depth 2 from the destination.  The side condition attach_ok of move_attach_walk excludes exactly this. *)
Definition ok_check : N -> list N -> res bool := fun _ _ => Val true.
Definition attach_ops : list op :=
  [OpNewModel; OpCreateFile 0 [102; 48] REAL_LATEST; OpCreateSub 0 5413; OpCreateNamed 1 5250 [110; 49]; OpCreateSub 2 3929;
   OpCreateNamed 4 1495 [110; 50]; OpCreateSub 5 88; OpCreateSub 7 862; OpCreateNamed 4 298 [110; 51]].

Lemma move_keeps_source_type :
  forall (tab_el tab_en : nametab) (check_fn : N -> list N -> res bool) (root_attrs : list (N * cdata)),
  exists (w : world) (h mv : id) (w' : world) (n nc ncc : node) (cc : id) (v : N) (et : etype) (ix : list N),
    run_ops RT tab_el tab_en ok_check REAL_LATEST root_attrs attach_ops (mkWorld (fun _ => None) 0 [] []) = Val w /\
    e_move_element_here RT tab_en check_fn REAL_LATEST h mv w = Val (OK mv, w') /\
    w_nodes w' h = Some n /\ w_nodes w' mv = Some nc /\ In (CElem mv) (n_content n) /\
    min_version REAL_LATEST h w' = Val (OK v, w') /\
    find_sub_element RT (n_type n) (n_name nc) v = Val (Some (et, ix)) /\
    snd (n_type nc) <> snd et /\
    In (CElem cc) (n_content nc) /\ w_nodes w' cc = Some ncc /\
    find_sub_element RT (n_type nc) (n_name ncc) v <> Val None /\
    find_sub_element RT et (n_name ncc) v = Val None /\
    ~ LoaderWalk RT 2 w' v h (n_type n).
Proof.
  intros tab_el tab_en check_fn root_attrs.
  eexists. exists 9, 7. eexists. eexists. eexists. eexists. exists 8, REAL_LATEST, (8231, 519), [13].
  split; [vm_compute; reflexivity|].
  split; [vm_compute; reflexivity|].
  split; [vm_compute; reflexivity|].
  split; [vm_compute; reflexivity|].
  split; [right; left; reflexivity|].
  split; [vm_compute; reflexivity|].
  split; [vm_compute; reflexivity|].
  split; [vm_compute; discriminate|].
  split; [left; reflexivity|].
  split; [vm_compute; reflexivity|].
  split; [vm_compute; discriminate|].
  split; [vm_compute; reflexivity|].
  intros (n & items & Hn & _ & _ & Hk). vm_compute in Hn. injection Hn as <-.
  destruct (Hk 7 _ (or_intror (or_introl eq_refl)) eq_refl) as (et & ix & HF & (n7 & items7 & Hn7 & _ & _ & Hk7)).
  vm_compute in HF. injection HF as <- <-. vm_compute in Hn7. injection Hn7 as <-.
  destruct (Hk7 8 _ (or_introl eq_refl) eq_refl) as (et8 & ix8 & HF8 & _). vm_compute in HF8. discriminate.
Qed.

(* ---- a copy across versions keeps a NESTED element without SHORT-NAME whose type is identifiable only in the target version
   (known finding C07 copy-unnamed-into-named-version; found by the cross-version content sweep of checks/c07.py) ----
   Model 0 / file f0 in AUTOSAR_00045 (bit 4096): AR-PACKAGE n1 / ELEMENTS / MACHINE n3 / MODULE-INSTANTIATIONS /
   LOG-AND-TRACE-INSTANTIATION n5 / NETWORK-CONFIGURATIONS (5040) / ETHERNET-NETWORK-CONFIGURATION (4338): the last one has no
   SHORT-NAME entry in 00045, create_sub_element makes it.  Model 1 / file f1 in AUTOSAR_00046 (bit 8192) with the same chain down to
   LOG-AND-TRACE-INSTANTIATION.  create_copied_sub_element(LOG-AND-TRACE-INSTANTIATION of model 1, NETWORK-CONFIGURATIONS of model 0)
   succeeds; below the copy hangs an ETHERNET-NETWORK-CONFIGURATION whose type IS identifiable in 00046 and whose content is empty.
   The check added by fix a8ba45e looks at the top element of the copy only; creating the same element through
   create_sub_element in the target file is refused (ItemNameRequired). *)
Definition unnamed_ops : list op :=
  [OpNewModel; OpCreateFile 0 [102; 48] 4096; OpCreateSub 0 5413; OpCreateNamed 1 5250 [110; 49]; OpCreateSub 2 3929;
   OpCreateNamed 4 3392 [110; 51]; OpCreateSub 5 2108; OpCreateNamed 7 4996 [110; 53]; OpCreateSub 8 5040; OpCreateSub 10 4338;
   OpNewModel; OpCreateFile 1 [102; 49] 8192; OpCreateSub 12 5413; OpCreateNamed 13 5250 [110; 49]; OpCreateSub 14 3929;
   OpCreateNamed 16 3392 [110; 51]; OpCreateSub 17 2108; OpCreateNamed 19 4996 [110; 53]].

Lemma copy_keeps_unnamed_nested :
  forall (tab_el tab_en : nametab) (root_attrs : list (N * cdata)),
  exists (w : world) (h other c : id) (w' : world) (nc nk : node) (k : id) (v : N) (w2 : world),
    run_ops RT tab_el tab_en ok_check REAL_LATEST root_attrs unnamed_ops (mkWorld (fun _ => None) 0 [] []) = Val w /\
    e_create_copied_sub_element RT REAL_LATEST h other w = Val (OK c, w') /\
    min_version REAL_LATEST h w' = Val (OK v, w') /\
    w_nodes w' c = Some nc /\ In (CElem k) (n_content nc) /\ w_nodes w' k = Some nk /\
    is_named_in_version RT (n_type nk) v = Val true /\ n_content nk = [] /\
    find_sub_element RT (n_type nc) (n_name nk) v = Val (Some (n_type nk, [0])) /\
    e_create_sub_element RT REAL_LATEST c (n_name nk) w' = Val (ER ItemNameRequired, w2).
Proof.
  intros tab_el tab_en root_attrs.
  eexists. exists 20, 10, 22. eexists. eexists. eexists. exists 23, 8192. eexists.
  split; [vm_compute; reflexivity|].
  split; [vm_compute; reflexivity|].
  split; [vm_compute; reflexivity|].
  split; [vm_compute; reflexivity|].
  split; [left; reflexivity|].
  split; [vm_compute; reflexivity|].
  split; [vm_compute; reflexivity|].
  split; [reflexivity|].
  split; [vm_compute; reflexivity|].
  vm_compute. reflexivity.
Qed.

(* ---- a new sub-element in FRONT of the SHORT-NAME (known finding C07 insert-before-short-name = C04's K04-front) ----
   AUTOSAR 4.0.1 file; AR-PACKAGE n1 / ELEMENTS / ECUC-MODULE-DEF n3 / CONTAINERS / ECUC-PARAM-CONF-CONTAINER-DEF n5 / PARAMETERS /
   ECUC-ADD-INFO-PARAM-DEF n7 / DERIVATION / ECUC-QUERYS / ECUC-QUERY-EXPRESSION n10 (node 15, SHORT-NAME node 16).
   ECUC-QUERY-EXPRESSION is identifiable in 4.0.1 and its content is MIXED: calc_element_insert_range answers (0, len) for
   every name, the SHORT-NAME is not protected.  create_sub_element_at(.., CONFIG-ELEMENT-DEF-GLOBAL-REF, 0) succeeds; the
   child list [CONFIG-ELEMENT-DEF-GLOBAL-REF; SHORT-NAME] IS in specification order (Mixed: any order), but item_name, which
   reads the first content item, now answers None while the path index still holds /n1/n3/n5/n7/n10, and (since loader fix
   f86b268) the saved file re-loads with RequiredSubelementMissing.  So for the one mixed+named type "SHORT-NAME first" is
   NOT part of specification order; Tree/ProjectCanon.v NodeCanonAt asks for it separately (checked by world_checkb). *)
Definition front_ops : list op :=
  [OpNewModel; OpCreateFile 0 [102; 48] 1; OpCreateSub 0 5413; OpCreateNamed 1 5250 [110; 49]; OpCreateSub 2 3929;
   OpCreateNamed 4 17 [110; 51]; OpCreateSub 5 1667; OpCreateNamed 7 3416 [110; 53]; OpCreateSub 8 2577;
   OpCreateNamed 10 6194 [110; 55]; OpCreateSub 11 1410; OpCreateSub 13 5008; OpCreateNamed 14 3661 [110; 49; 48]].

Lemma insert_before_short_name :
  forall (tab_el tab_en : nametab) (root_attrs : list (N * cdata)),
  exists (w : world) (h s c : id) (nh : node) (w' : world) (n ns : node),
    run_ops RT tab_el tab_en ok_check REAL_LATEST root_attrs front_ops (mkWorld (fun _ => None) 0 [] []) = Val w /\
    w_nodes w h = Some nh /\ n_content nh = [CElem s] /\
    is_named_in_version RT (n_type nh) 1 = Val true /\ content_mode RT (n_type nh) = Val MMixed /\
    item_name RT nh w = Val (OK (Some [110; 49; 48]), w) /\
    calc_element_insert_range RT nh 959 1 w = Val (OK (0, 1), w) /\
    e_create_sub_element_at RT REAL_LATEST h 959 0 w = Val (OK c, w') /\
    w_nodes w' h = Some n /\ n_content n = [CElem c; CElem s] /\
    w_nodes w' s = Some ns /\ n_name ns = name_short_name RT /\
    Ordered RT (n_type n) 1 [Some 959; Some (name_short_name RT)] /\
    item_name RT n w' = Val (OK None, w') /\
    get_element_by_path 0 [47; 110; 49; 47; 110; 51; 47; 110; 53; 47; 110; 55; 47; 110; 49; 48] w' = Val (OK (Some h), w').
Proof.
  intros tab_el tab_en root_attrs.
  eexists. exists 15, 16, 17. eexists. eexists. eexists. eexists.
  split; [vm_compute; reflexivity|].
  split; [vm_compute; reflexivity|].
  split; [reflexivity|].
  split; [vm_compute; reflexivity|].
  split; [vm_compute; reflexivity|].
  split; [vm_compute; reflexivity|].
  split; [vm_compute; reflexivity|].
  split; [vm_compute; reflexivity|].
  split; [vm_compute; reflexivity|].
  split; [reflexivity|].
  split; [vm_compute; reflexivity|].
  split; [vm_compute; reflexivity|].
  split; [vm_compute; reflexivity|].
  split; [vm_compute; reflexivity|].
  vm_compute. reflexivity.
Qed.

(* [F] the identifiable datatypes whose content is NOT a Sequence (for a Sequence "SHORT-NAME first" is part of specification
   order: Tree/RangeProofsShortFirst.v): exactly two — 1298 (Choice; once its SHORT-NAME exists no alternative can be created)
   and 1923 (Mixed: ECUC-QUERY-EXPRESSION of AUTOSAR 4.0.1, the type of insert_before_short_name) *)
Definition named_nonseq (T : tables) : list (N * N) :=
  flat_map (fun ty => match short_name_version_mask T ty, T_datatypes T ty with
                      | Val (Some _), Some d => if dt_mode d =? MSequence then [] else [(ty, dt_mode d)]
                      | _, _ => []
                      end) (idxs (n_datatypes T)).

Lemma named_nonseq_real : named_nonseq RT = [(1298, MChoice); (1923, MMixed)].
Proof. vm_compute. reflexivity. Qed.

(* ---- make_unique_item_name exceeds the length limit of SHORT-NAME (known finding C07 unique-name-exceeds-max-length) ----
   Packages a and b, each with ELEMENTS and a SYSTEM (754) whose name is 'N' followed by 126 'a' (127 characters; the limit
   of the SHORT-NAME pattern is 128).  move_element_here(ELEMENTS of a, SYSTEM of b) succeeds for every validator; the name is
   taken, so the moved element is renamed to <name>_1: 129 characters, written into the SHORT-NAME unchecked — the same
   value is refused by check_value (what set_item_name / create_named_sub_element apply), whatever the pattern validator says. *)
Definition long_name : list N := 78 :: repeat 97 126.
Definition long_ops : list op :=
  [OpNewModel; OpCreateFile 0 [102; 48] REAL_LATEST; OpCreateSub 0 5413; OpCreateNamed 1 5250 [97]; OpCreateNamed 1 5250 [98];
   OpCreateSub 2 3929; OpCreateSub 4 3929; OpCreateNamed 6 754 long_name; OpCreateNamed 7 754 long_name].

Lemma unique_name_too_long :
  forall (tab_el tab_en : nametab) (check_fn : N -> list N -> res bool) (root_attrs : list (N * cdata)),
  exists (w : world) (h mv : id) (w' : world) (nmv ns : node) (s : id) (nm : list N) (fn : N),
    run_ops RT tab_el tab_en ok_check REAL_LATEST root_attrs long_ops (mkWorld (fun _ => None) 0 [] []) = Val w /\
    e_move_element_here RT tab_en check_fn REAL_LATEST h mv w = Val (OK mv, w') /\
    w_nodes w' mv = Some nmv /\ item_name RT nmv w' = Val (OK (Some nm), w') /\
    nm = long_name ++ [95; 49] /\ List.length nm = 129%nat /\
    n_content nmv = [CElem s] /\ w_nodes w' s = Some ns /\
    chardata_spec RT (n_type ns) = Val (Some (CPattern fn (Some 128))) /\
    check_value check_fn (DString nm) (CPattern fn (Some 128)) REAL_LATEST = Val false.
Proof.
  intros tab_el tab_en check_fn root_attrs.
  eexists. exists 6, 10. eexists. eexists. eexists. exists 11. eexists. eexists.
  split; [vm_compute; reflexivity|].
  split; [vm_compute; reflexivity|].
  split; [vm_compute; reflexivity|].
  split; [vm_compute; reflexivity|].
  split; [vm_compute; reflexivity|].
  split; [reflexivity|].
  split; [reflexivity|].
  split; [vm_compute; reflexivity|].
  split; [vm_compute; reflexivity|].
  reflexivity.
Qed.

(* ---- "every node of every reachable world is Ordered for its CURRENT min_version" is false ----
   Ordered is relative to a version (find_sub_element is); min_version of an element changes when a file of another version
   joins the model.  History: new model; file f0 in the latest version; create FILE-INFO-COMMENT (name 1043, not in 4.0.1) in
   the root; create a second file f1 in AUTOSAR 4.0.1.  The root now belongs to both files, its version is 4.0.1, and its
   child does not exist in that version (finding class mixed-version-files).  The per-operation invariants
   (the C07_order_inv theorems) speak about the version in force when the operation runs. *)
Definition hist_ops : list op :=
  [OpNewModel; OpCreateFile 0 [102; 48] REAL_LATEST; OpCreateSub 0 1043; OpCreateFile 0 [102; 49] 1].

Lemma order_history_refuted :
  forall (tab_el tab_en : nametab) (check_fn : N -> list N -> res bool) (root_attrs : list (N * cdata)),
  exists (w : world) (h : id) (n : node) (v : N) (items : list (option N)),
    run_ops RT tab_el tab_en check_fn REAL_LATEST root_attrs hist_ops (mkWorld (fun _ => None) 0 [] []) = Val w /\
    w_nodes w h = Some n /\ min_version REAL_LATEST h w = Val (OK v, w) /\
    items_of w (n_content n) = Some items /\ ~ Ordered RT (n_type n) v items.
Proof.
  intros tab_el tab_en check_fn root_attrs.
  eexists. exists 0. eexists. exists 1, [Some 1043].
  split; [vm_compute; reflexivity|].
  split; [vm_compute; reflexivity|].
  split; [vm_compute; reflexivity|].
  split; [vm_compute; reflexivity|].
  unfold Ordered. vm_compute. discriminate.
Qed.

(* the same child list was in order when it was built (version = latest) *)
Lemma order_history_was_ordered : Ordered RT real_root REAL_LATEST [Some 1043].
Proof. vm_compute. reflexivity. Qed.

(* non-vacuity of the hypothesis of the reload bridge: the model with an empty root element is node-wise OK, and projects *)
Definition w_root_only : world :=
  mkWorld (fun i => if i =? 0 then Some (mkNode (PModel 0) 4057 real_root [] [] [0] None) else None) 1
          [mkFile 0 [] REAL_LATEST None] [mkModel 0 [0] [] []].

Lemma worldok_nonvacuous check_fn : WorldOK RT check_fn REAL_LATEST w_root_only (Some 0) /\
  exists t, proj 2 w_root_only (Some 0) 0 = Some t.
Proof.
  split; [|eexists; vm_compute; reflexivity].
  intros i n Hi. unfold w_root_only in Hi. cbn [w_nodes] in Hi. destruct (i =? 0); [|discriminate]. injection Hi as <-.
  unfold node_ok. cbn [n_attrs n_content n_type map].
  split; [constructor|]. split; [intros d []|]. split; [exists []; split; [reflexivity|vm_compute; reflexivity]|].
  split; [intros c cn []|]. intros H. vm_compute in H. discriminate.
Qed.
