(* Tree/CompatFrame.v — a frame relation for the typing invariant TypedT (Tree/CompatProofs8.v) and its compositional calculus.
     Fr w0 w : every node of w is a node of w0 at the same id with the same name and element type, and lists no sub-element
               that the node of w0 did not list.  Reflexive, transitive; TypedT is inherited along it.
     frp w0 m: running m from any world w with Fr w0 w ends in a world w' with Fr w0 w' (whatever m returns).
   Rules for ro / bind / try / get_node (records how the node read relates to w0) / set_node / modify_node / model and file
   records; a tactic fr_tac that decomposes a computation with them. *)
From Coq Require Import PeanoNat Arith Lia.
From AV Require Import Base.Bytes Base.Outcome Hash.HashModel Spec.SpecOps Tree.Heap Tree.Ops Tree.Script Tree.Inv
  Tree.InvProofsBase Tree.InvProofsCore Tree.InvProofsPrim Tree.InvProofsRefs Tree.InvProofsRemove
  Tree.Compat Tree.CompatSpec Tree.CompatTyped Tree.CompatProofs8.
Open Scope string_scope.
Open Scope list_scope.
Open Scope N_scope.

Definition nrel (n0 n : node) : Prop :=
  n_name n = n_name n0 /\ n_type n = n_type n0 /\ (forall c, In (CElem c) (n_content n) -> In (CElem c) (n_content n0)).

Lemma nrel_refl n : nrel n n.
Proof. repeat split; auto. Qed.
Lemma nrel_trans a b c : nrel a b -> nrel b c -> nrel a c.
Proof. intros (N1 & T1 & C1) (N2 & T2 & C2). split; [congruence|]. split; [congruence|]. auto. Qed.

Definition Fr (w0 w : world) : Prop :=
  w_next w0 <= w_next w /\
  forall j x, w_nodes w j = Some x -> exists x0, w_nodes w0 j = Some x0 /\ nrel x0 x.

Lemma Fr_refl w : Fr w w.
Proof. split; [lia|]. intros j x H. exists x. split; [exact H|apply nrel_refl]. Qed.
Lemma Fr_trans a b c : Fr a b -> Fr b c -> Fr a c.
Proof.
  intros (N1 & H1) (N2 & H2). split; [lia|]. intros j x Hx.
  destruct (H2 _ _ Hx) as (y & Hy & R2). destruct (H1 _ _ Hy) as (z & Hz & R1).
  exists z. split; [exact Hz|eapply nrel_trans; eauto].
Qed.

Lemma Fr_typed T w0 w : Fr w0 w -> TypedT T w0 -> TypedT T w.
Proof.
  intros (_ & F) HT i n c cn Hn Hin Hc.
  destruct (F _ _ Hn) as (n0 & Hn0 & (_ & Tn & Cn)). destruct (F _ _ Hc) as (cn0 & Hc0 & (Nc & Tc & _)).
  destruct (HT i n0 c cn0 Hn0 (Cn _ Hin) Hc0) as (u & et & ixs & Hu & Hf & Hs).
  exists u, et, ixs. rewrite Tn, Nc, Tc. auto.
Qed.

Lemma Fr_nodes_eq w0 w w' : (forall x, w_nodes w' x = w_nodes w x) -> w_next w' = w_next w -> Fr w0 w -> Fr w0 w'.
Proof. intros E En (Nx & F). split; [lia|]. intros j x Hx. rewrite E in Hx. exact (F _ _ Hx). Qed.

Lemma Fr_wset w0 w i x : Fr w0 w -> (exists n0, w_nodes w0 i = Some n0 /\ nrel n0 x) -> Fr w0 (wset w i x).
Proof.
  intros (Nx & F) Hx. split; [exact Nx|]. intros j y Hy. destruct (N.eq_dec j i) as [->|Hne].
  - rewrite nodes_wset_eq in Hy. injection Hy as <-. exact Hx.
  - rewrite nodes_wset_neq in Hy by exact Hne. exact (F _ _ Hy).
Qed.

(* ------------------------------------------------------------------ computations *)
Definition frp {A} (w0 : world) (m : W A) : Prop := forall w r w', Fr w0 w -> m w = Val (r, w') -> Fr w0 w'.

Lemma frp_ro {A} w0 (m : W A) : ro m -> frp w0 m.
Proof. intros R w r w' F H. apply R in H. subst. exact F. Qed.
Lemma frp_nfp {A} w0 (m : W A) : nfp m -> frp w0 m.
Proof. intros Hn w r w' F H. destruct (Hn _ _ _ H) as (E & En & _). exact (Fr_nodes_eq _ _ _ E En F). Qed.
Lemma frp_bind {A B} w0 (m : W A) (k : A -> W B) : frp w0 m -> (forall a, frp w0 (k a)) -> frp w0 (wbind m k).
Proof.
  intros Hm Hk w r w' F H. apply wbind_inv in H as [(a & w1 & H1 & H2) | (e & H1 & _)].
  - eapply Hk; [eapply Hm; eauto|eauto].
  - eapply Hm; eauto.
Qed.
Lemma frp_try {A} w0 (m : W A) : frp w0 m -> frp w0 (wtry m).
Proof. intros Hm w r w' F H. apply wtry_inv in H as (r0 & H & _). eapply Hm; eauto. Qed.
Lemma frp_catch {A} w0 (m : W A) : frp w0 m -> frp w0 (wcatch m).
Proof. intros Hm w r w' F H. apply wcatch_inv in H as (r0 & H & _). eapply Hm; eauto. Qed.

(* reading a node records how it relates to the base world *)
Definition known (w0 : world) (i : id) (n : node) : Prop := exists n0, w_nodes w0 i = Some n0 /\ nrel n0 n.

Lemma frp_bind_get {B} w0 i (k : node -> W B) :
  (forall n, known w0 i n -> frp w0 (k n)) -> frp w0 (wbind (get_node i) k).
Proof.
  intros Hk w r w' F H. apply wbind_inv in H as [(n & w1 & H1 & H2) | (e & H1 & _)].
  - apply get_node_inv in H1 as (n' & Hn & [= <-] & ->). exact (Hk n (proj2 F _ _ Hn) _ _ _ F H2).
  - apply get_node_inv in H1 as (n' & _ & [=] & _).
Qed.

Lemma frp_set_node w0 i x : known w0 i x -> frp w0 (set_node i x).
Proof. intros Hx w r w' F H. apply set_node_wset in H as (_ & ->). exact (Fr_wset _ _ _ _ F Hx). Qed.

Lemma frp_modify_node w0 i f : (forall n, nrel n (f n)) -> frp w0 (modify_node i f).
Proof.
  intros Hf w r w' F H. apply modify_node_wset in H as (n & Hn & _ & ->).
  apply Fr_wset; [exact F|]. destruct (proj2 F _ _ Hn) as (n0 & Hn0 & R). exists n0. split; [exact Hn0|].
  eapply nrel_trans; [exact R|apply Hf].
Qed.

Lemma frp_set_model w0 m x : frp w0 (set_model m x).
Proof. intros w r w' F H. apply set_model_inv in H as (_ & ->). exact F. Qed.
Lemma frp_modify_model w0 m f : frp w0 (modify_model m f).
Proof. intros w r w' F H. apply modify_model_inv in H as (x & _ & _ & ->). exact F. Qed.
Lemma frp_set_file w0 f x : frp w0 (set_file f x).
Proof. intros w r w'. unfold set_file. intros F [= <- <-]. exact F. Qed.

Lemma known_upd w0 i n x : known w0 i n -> nrel n x -> known w0 i x.
Proof. intros (n0 & H0 & R) Rx. exists n0. split; [exact H0|eapply nrel_trans; eauto]. Qed.

(* ---- list facts used to discharge nrel side conditions ---- *)
Lemma in_remove_at {A} (x : A) l k : In x (remove_at l k) -> In x l.
Proof.
  revert k. induction l as [|y l IH]; intros k H; [destruct k; exact H|].
  destruct k; cbn [remove_at] in H; [right; exact H|]. destruct H as [H|H]; [left; exact H|right; exact (IH _ H)].
Qed.
Lemma in_elem_insert_data c l k d : In (CElem c) (insert_at l k (CData d)) -> In (CElem c) l.
Proof. intros H. apply in_insert_at in H as [H|H]; [discriminate|exact H]. Qed.
Lemma in_elem_cons_data c d l : In (CElem c) (CData d :: l) -> In (CElem c) l.
Proof. intros [H|H]; [discriminate|exact H]. Qed.

Ltac in_tac :=
  let c := fresh "c" in let H := fresh "Hin" in
  intros c H; cbn [n_content set_content set_parent set_attrs set_files set_comment] in *;
  repeat first
    [ exact H
    | match type of H with
      | In _ [] => destruct H
      | In _ (remove_at _ _) => apply in_remove_at in H
      | In (CElem _) (insert_at _ _ (CData _)) => apply in_elem_insert_data in H
      | In (CElem _) (CData _ :: _) => apply in_elem_cons_data in H
      | In _ (_ ++ _) => apply in_app_or in H; destruct H as [H|H]
      | In _ (match ?l with _ => _ end) => destruct l
      end
    | right; exact H
    | match goal with E : n_content ?n = _ |- In _ (n_content ?n) => rewrite E end
    | match goal with E : ?l = _ |- In _ ?l => rewrite E end ].

Ltac nrel_tac :=
  cbv beta;
  repeat match goal with |- nrel _ (if ?b then _ else _) => destruct b | |- nrel _ (match ?x with _ => _ end) => destruct x end;
  (split; [reflexivity|split; [reflexivity|in_tac]]).

Ltac known_tac :=
  match goal with
  | K : known ?w0 ?i ?n |- known ?w0 ?i _ => apply (known_upd w0 i n _ K); nrel_tac
  end.

Create HintDb frp discriminated.

Ltac fr_step :=
  first
  [ apply frp_ro; solve [ro_tac]
  | assumption
  | solve [auto with frp]
  | apply frp_nfp; solve [auto with nfp]
  | apply frp_modify_node; intros ?; solve [nrel_tac]
  | apply frp_set_node; solve [known_tac]
  | apply frp_modify_model | apply frp_set_model | apply frp_set_file
  | apply frp_try | apply frp_catch
  | apply frp_bind_get; intros ? ?
  | apply frp_bind; [ | intros ? ]
  | match goal with
    | |- frp _ (match ?x with _ => _ end) => destruct x eqn:?
    | |- frp _ (if ?b then _ else _) => destruct b
    | |- frp _ (let '(_, _) := ?x in _) => destruct x
    end ].
Ltac fr_tac := repeat fr_step.

Lemma frp_each_loop {A} w0 (body : A -> W unit) l : (forall a, frp w0 (body a)) -> frp w0 (each_loop body l).
Proof. intros Hb. induction l as [|a l IH]; cbn [each_loop]; [apply frp_ro; ro_tac|]. apply frp_bind; [apply Hb|intros _; exact IH]. Qed.
Lemma frp_kloop w0 (step : id -> W unit) l : (forall c, frp w0 (step c)) -> frp w0 (kloop step l).
Proof.
  intros Hs. induction l as [|[c|d] l IH]; cbn [kloop]; [apply frp_ro; ro_tac| |exact IH].
  apply frp_bind; [apply Hs|intros _; exact IH].
Qed.
