(* Tree/NoPanicProofsOp3HistReal.v — C12: the op2 history theorem with duplicate as a step, on the regenerated tables. *)
From AV Require Import Base.Bytes Base.Outcome Hash.HashModel Spec.SpecOps Spec.SpecReal Xml.TablesOk
  Tree.Heap Tree.Ops Tree.Script Tree.Script2 Tree.Inv Tree.SortProofsHeap Tree.SortProofsReadyV Tree.SortProofsReal
  Tree.CompatHist1 Tree.CompatHistReal.
From AV Require Import Hash.HashRealElement Hash.HashRealAttr Hash.HashRealEnum.
From AV Require Import Tree.NoPanic Tree.NoPanicProofsBase Tree.NoPanicProofsCopy2 Tree.NoPanicFloat Tree.NoPanicProofsHist Tree.NoPanicReal
  Tree.NoPanicProofsHistReal Tree.NoPanicProofsOp2 Tree.NoPanicProofsOp2Hist Tree.NoPanicProofsDup Tree.NoPanicProofsDupHist Tree.NoPanicProofsOp3Hist.
Open Scope list_scope.
Open Scope N_scope.

Section Real.
Variable check_fn : N -> list N -> res bool.
Variable float_parse : list N -> option N.
Variable fmt : N -> list N.
Variable LATEST name_index name_definition_ref attr_schema_location : N.
Variable root_attrs : list (N * cdata).
Hypothesis CHECK : forall fn s, exists b, check_fn fn s = Val b.
Hypothesis RootOK : forall a, In a root_attrs -> to_str tab_attr (fst a) <> None /\ cdata_named tab_enum (snd a).

Notation run_ops2F' := (run_ops2F RT tab_element tab_attr tab_enum check_fn float_parse fmt LATEST name_index name_definition_ref
                                  attr_schema_location root_attrs).
Notation wf_ops3' := (wf_ops3 RT tab_element tab_attr tab_enum check_fn float_parse fmt LATEST name_index name_definition_ref
                              attr_schema_location root_attrs).
Notation run2F := (run_op2F RT tab_element tab_attr tab_enum check_fn float_parse fmt LATEST name_index name_definition_ref
                            attr_schema_location root_attrs).
Notation Dr := (D RT tab_element tab_attr tab_enum).

Lemma hist3_real l w : Dr w -> wf_ops3' l w -> exists w', run_ops2F' l w = Val w' /\ Dr w'.
Proof.
  exact (no_panic3_hist RT tab_element tab_attr tab_enum check_fn float_parse fmt LATEST name_index name_definition_ref
           attr_schema_location root_attrs tables_ok12_real CHECK en_ok_real short_ok_real NamesOK_real EnumsOK_real AttrsOK_real
           RootOK (tkr_real check_fn) root_plain_real MaskOK_real l w).
Qed.

Theorem no_panic3_histories_real l : wf_ops3' l empty_world -> exists w', run_ops2F' l empty_world = Val w'.
Proof. intros WF. destruct (hist3_real l empty_world (D_empty _ _ _ _) WF) as (w' & E & _). eauto. Qed.

Theorem no_panic3_after_history_real l w o :
  run_ops2F' l empty_world = Val w -> wf_ops3' l empty_world -> covered_step3 o = true ->
  op3_wfh RT tab_element tab_enum check_fn LATEST root_attrs w o ->
  (forall s, run2F o w <> Pan s) /\ run2F o w <> Fuel.
Proof.
  intros E WF COV WFo. destruct (hist3_real l empty_world (D_empty _ _ _ _) WF) as (w' & E' & I).
  rewrite E in E'. injection E' as <-.
  destruct (step3 RT tab_element tab_attr tab_enum check_fn float_parse fmt LATEST name_index name_definition_ref
              attr_schema_location root_attrs tables_ok12_real CHECK en_ok_real short_ok_real NamesOK_real EnumsOK_real AttrsOK_real
              RootOK (tkr_real check_fn) root_plain_real MaskOK_real o w COV WFo I) as (x & w1 & R & _).
  rewrite R. split; [intros s|]; discriminate.
Qed.

End Real.
