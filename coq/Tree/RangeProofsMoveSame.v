(* Tree/RangeProofsMoveSame.v — C07: move_element_here_at inside the same parent, without the side hypotheses of
   order_inv_move part 1 ("both belong to the same model and version"): the model of a child IS the model of its parent
   (model_of walks the parent links), and the call itself fails with VersionMismatch when the two versions differ. *)
From Coq Require Import Arith Lia.
From AV Require Import Base.Bytes Base.Outcome Hash.HashModel Spec.SpecOps Tree.Heap Tree.Ops Tree.Range Tree.SpecWF
  Tree.RangeProofsMovePos Tree.RangeProofsInv.
Open Scope list_scope.
Open Scope N_scope.

Lemma model_walk_more : forall f i m w, model_walk f i w = Val (OK m, w) -> model_walk (S f) i w = Val (OK m, w).
Proof.
  induction f as [|f IH]; intros i m w H; [discriminate|].
  cbn [model_walk] in H. change (model_walk (S (S f)) i w) with
    ((do n <- get_node i; match n_parent n with PElem p => model_walk (S f) p | PModel m0 => wret m0 | PNone => wfail ItemDeleted end)%W w).
  unfold wbind, get_node in *. destruct (w_nodes w i) as [n|]; [|exact H].
  destruct (n_parent n); try exact H. apply IH. exact H.
Qed.

Lemma same_parent_model h mv mn ms m w :
  w_nodes w mv = Some mn -> n_parent mn = PElem h ->
  model_of mv w = Val (OK ms, w) -> model_of h w = Val (OK m, w) -> ms = m.
Proof.
  intros Hmn Hp Hms Hm. unfold model_of, wbind, wget in Hms, Hm.
  destruct (fuel_of w) as [|f]; [discriminate|].
  cbn [model_walk] in Hms. unfold wbind, get_node in Hms. rewrite Hmn, Hp in Hms.
  apply model_walk_more in Hms. rewrite Hm in Hms. congruence.
Qed.

Lemma pref_eq_dec (a b : pref) : {a = b} + {a <> b}.
Proof. decide equality; apply N.eq_dec. Qed.

Section Same.
Variable T : tables.
Hypothesis WF : SpecWF T.
Variable tab_en : nametab.
Variable check_fn : N -> list N -> res bool.
Variable LATEST : N.

Theorem move_at_same_parent_order_inv_full h mv pos n mn ms m vs v w c w' items :
  w_nodes w h = Some n -> w_nodes w mv = Some mn -> n_parent mn = PElem h ->
  model_of mv w = Val (OK ms, w) -> model_of h w = Val (OK m, w) ->
  min_version LATEST mv w = Val (OK vs, w) -> min_version LATEST h w = Val (OK v, w) ->
  items_of w (n_content n) = Some items -> Ordered T (n_type n) v items ->
  e_move_element_here_at T tab_en check_fn LATEST h mv pos w = Val (OK c, w') ->
  exists n' items', w_nodes w' h = Some n' /\ n_type n' = n_type n /\
    items_of w' (n_content n') = Some items' /\ Ordered T (n_type n) v items'.
Proof.
  intros Hn Hmn Hpar Hms Hm Hvs Hv HI HO H.
  pose proof (same_parent_model h mv mn ms m w Hmn Hpar Hms Hm) as ->.
  destruct (N.eq_dec vs v) as [->|NE].
  - eapply (move_at_same_parent_order_inv T WF tab_en check_fn LATEST); eauto.
  - exfalso. unfold e_move_element_here_at in H. destruct (h =? mv); [discriminate|].
    unfold wbind at 1 in H. rewrite Hms in H. unfold wbind at 1 in H. rewrite Hm in H.
    unfold wbind at 1 in H. rewrite Hvs in H. unfold wbind at 1 in H. rewrite Hv in H.
    assert (E : (v =? vs) = false) by (apply N.eqb_neq; congruence). rewrite E in H. discriminate.
Qed.

(* move_element_here (no position) of an element that already is a child of the destination does nothing *)
Lemma move_here_same_parent_noop h mv n mn ms m vs v w c w' :
  w_nodes w h = Some n -> w_nodes w mv = Some mn -> n_parent mn = PElem h ->
  model_of mv w = Val (OK ms, w) -> model_of h w = Val (OK m, w) ->
  min_version LATEST mv w = Val (OK vs, w) -> min_version LATEST h w = Val (OK v, w) ->
  e_move_element_here T tab_en check_fn LATEST h mv w = Val (OK c, w') -> w' = w.
Proof.
  intros Hn Hmn Hpar Hms Hm Hvs Hv H.
  pose proof (same_parent_model h mv mn ms m w Hmn Hpar Hms Hm) as ->.
  unfold e_move_element_here in H. destruct (h =? mv); [discriminate|].
  unfold wbind at 1 in H. rewrite Hms in H. unfold wbind at 1 in H. rewrite Hm in H.
  unfold wbind at 1 in H. rewrite Hvs in H. unfold wbind at 1 in H. rewrite Hv in H.
  destruct (negb (v =? vs)); [discriminate|].
  unfold wbind at 1 in H. unfold get_node at 1 in H. rewrite Hn in H.
  unfold wbind at 1 in H. unfold get_node at 1 in H. rewrite Hmn in H.
  unfold wbind at 1 in H.
  destruct (calc_element_insert_range T n (n_name mn) v w) as [[[[lo hi]|er] w1]| |] eqn:EC; try discriminate.
  pose proof (RangeProofsOps.calc_ro T _ _ _ _ _ _ EC) as ->.
  rewrite N.eqb_refl in H.
  unfold wbind at 1 in H. unfold parent_of in H. rewrite Hpar in H. unfold wret at 1 in H. cbn beta iota in H.
  rewrite N.eqb_refl in H. unfold wret in H. congruence.
Qed.

(* the destination stays in specification order under EVERY successful move_element_here[_at] *)
Theorem order_inv_move_all h mv n mn ms m vs v w c w' items :
  w_nodes w h = Some n -> w_nodes w mv = Some mn ->
  model_of mv w = Val (OK ms, w) -> model_of h w = Val (OK m, w) ->
  min_version LATEST mv w = Val (OK vs, w) -> min_version LATEST h w = Val (OK v, w) ->
  items_of w (n_content n) = Some items -> Ordered T (n_type n) v items ->
  (exists pos, e_move_element_here_at T tab_en check_fn LATEST h mv pos w = Val (OK c, w')) \/
  e_move_element_here T tab_en check_fn LATEST h mv w = Val (OK c, w') ->
  exists n' items', w_nodes w' h = Some n' /\ n_type n' = n_type n /\
    items_of w' (n_content n') = Some items' /\ Ordered T (n_type n) v items'.
Proof.
  intros Hn Hmn Hms Hm Hvs Hv HI HO H.
  destruct (pref_eq_dec (n_parent mn) (PElem h)) as [Hp|Hp].
  - destruct H as [(pos & H)|H].
    + eapply move_at_same_parent_order_inv_full; eauto.
    + pose proof (move_here_same_parent_noop h mv n mn ms m vs v w c w' Hn Hmn Hp Hms Hm Hvs Hv H) as ->.
      exists n, items. auto.
  - destruct (order_inv_move T tab_en check_fn LATEST WF h mv n mn ms m vs v w c w' items Hn Hmn Hms Hm Hvs Hv HI HO) as (_ & HM).
    exact (proj1 (HM Hp H)).
Qed.

End Same.
