(* Tree/IndexProofsOp2.v — C04/C05 over the extended alphabet op2 of Tree/Script2.v, as far as it is cheap:
     Op1 o                                    the 26 constructors (Tree/IndexProofsAll.v)
     OpSetVersion / OpCheckCompat             only the file record changes / nothing changes
     OpSerializeFile / OpSerializeElem        serialize writes the xsi:schemaLocation attribute of the root (attributes are not
                                              read by the two invariants) / nothing changes
   so these keep Inv04 /\ Inv05 (frame SV of Tree/IndexProofsFrame.v: same (name, type, content) of every node, same root /
   index / referrer map of every model) and the node invariant RX.
   PENDING (Pending45_2): OpSort / OpSortModel (content lists are permuted: agent-c14's C14_lookups_intact gives the two maps and
   C14_item_names_intact the names; the specification side of Inv04 over the permuted lists is not derived here),
   OpDuplicate (agent-c13's C13_duplicate / C13_registered_ids / _refs) and OpLoad (agent-c09's Tree/LoadRefineIndex.v). *)
From Coq Require Import Lia.
From AV Require Import Base.Bytes Base.Outcome Hash.HashModel Spec.SpecOps Tree.Heap Tree.Ops Tree.Script Tree.Script2 Tree.Compat Tree.Serialize
  Tree.IndexProofsW Tree.Index Tree.IndexProofsBase Tree.IndexProofsFrame Tree.IndexProofs Tree.Refs Tree.RefsProofs Tree.RefsAll
  Tree.IndexProofsNodeInv Tree.IndexProofsAll Tree.RefsProofsSetName Tree.Sort Tree.SortProofsOrder Tree.SortProofsHeap Tree.SortProofsNames Tree.IndexProofsSort Tree.Inv Tree.IndexProofsBridge Tree.IndexProofsDup Tree.IndexProofsFilesOps.
Open Scope string_scope.
Open Scope list_scope.
Open Scope N_scope.

Section Op2.
Variable T : tables.
Variable tab_el tab_at tab_en : nametab.
Variable check_fn : N -> list N -> res bool.
Variable float_parse : list N -> option N.
Variable float_fmt : N -> list N.
Variable LATEST name_index name_definition_ref attr_schema_location : N.
Variable root_attrs : list (N * cdata).
Hypothesis TK : TablesOK T check_fn.
Hypothesis RootTy : forall ty, et_new T (autosar_element T) = Val ty -> plainty T ty.

Notation Inv04 := (Inv04 T check_fn).
Notation run2 := (run_op2 T tab_el tab_at tab_en check_fn float_parse float_fmt LATEST name_index name_definition_ref
                          attr_schema_location root_attrs).
Notation Known04a := (Known04a T LATEST).
Notation Known05a := (Known05a T tab_el tab_en check_fn LATEST root_attrs).
Notation RX := (RX T).

Definition Pending45_2 (o : op2) : bool :=
  match o with
  | OpSort _ | OpSortModel _ | OpDuplicate _ | OpLoad _ _ _ _ => true
  | _ => false
  end.
Definition Known45_2 (w : world) (o : op2) : bool :=
  match o with Op1 o1 => Known04a w o1 || Known05a w o1 | _ => false end.

(* ---------- the frames *)
Lemma ro_check f v : ro (f_check_version_compatibility T f v).
Proof. intros w r w' H. unfold f_check_version_compatibility in H. destruct (f_check T w f v); inversion H; reflexivity. Qed.

Lemma set_version_frame f v w r w' : f_set_version T f v w = Val (r, w') ->
  w_nodes w' = w_nodes w /\ w_models w' = w_models w.
Proof.
  unfold f_set_version. intros H. apply wbind_inv in H as [((errs & mask) & w1 & E & H)|(e & E & _)].
  - apply ro_check in E. subst w1. destruct (is_empty errs).
    + apply wbind_inv in H as [(x & w1 & E & H)|(e & E & _)].
      * unfold get_file in E. destruct (nth_opt (w_files w) (N.to_nat f)); [|discriminate E]. injection E as _ <-.
        unfold set_file in H. injection H as _ <-. split; reflexivity.
      * unfold get_file in E. destruct (nth_opt (w_files w) (N.to_nat f)); discriminate E.
    + apply wfail_inv in H as (_ & ->). split; reflexivity.
  - apply ro_check in E. subst. split; reflexivity.
Qed.

Lemma SV_same w w' : w_nodes w' = w_nodes w -> w_models w' = w_models w -> SV w w'.
Proof. intros H1 H2. split; [intros i; rewrite H1; reflexivity|rewrite H2; reflexivity]. Qed.
Lemma RX_same w w' : w_nodes w' = w_nodes w -> RX w -> RX w'.
Proof. intros H1 F i n Hn. rewrite H1 in Hn. exact (F _ _ Hn). Qed.

Lemma ser_tail_ro (g : world -> res (list N)) (k : list N -> list N) :
  ro (fun w => match g w with Val s => Val (OK (k s), w) | Pan s => Pan s | Fuel => Fuel end).
Proof. intros w r w' H. destruct (g w); inversion H; reflexivity. Qed.

Lemma psv_f_serialize f : psv (f_serialize T tab_el tab_at tab_en check_fn float_fmt attr_schema_location f).
Proof.
  unfold f_serialize. apply psv_bind; [apply psv_ro; ro_tac|intros fl]. apply psv_bind; [apply psv_ro; ro_tac|intros m].
  apply psv_bind; [apply psv_ro; ro_tac|intros (a & files)].
  destruct (negb (set_mem f files)); [apply psv_ro; ro_tac|].
  apply psv_bind; [apply psv_ro; ro_tac|intros fname].
  apply psv_bind; [apply psv_try; intros w r w' H; exact (raw_set_attribute_sv T check_fn _ _ _ _ _ _ _ H)|intros _].
  apply psv_ro. apply ser_tail_ro.
Qed.
Lemma xp_f_serialize f : xp T (f_serialize T tab_el tab_at tab_en check_fn float_fmt attr_schema_location f).
Proof.
  unfold f_serialize. apply xp_bind; [apply xp_ro; ro_tac|intros fl]. apply xp_bind; [apply xp_ro; ro_tac|intros m].
  apply xp_bind; [apply xp_ro; ro_tac|intros (a & files)].
  destruct (negb (set_mem f files)); [apply xp_ro; ro_tac|].
  apply xp_bind; [apply xp_ro; ro_tac|intros fname].
  apply xp_bind; [apply xp_try; apply xp_raw_set_attribute|intros _].
  apply xp_ro. apply ser_tail_ro.
Qed.
Lemma ro_e_ser h : ro (e_serialize T tab_el tab_at tab_en float_fmt h).
Proof. intros w r w' H. unfold e_serialize in H. destruct (ser_heap _ _ _ _ _ _ _ _ _ _ _); inversion H; reflexivity. Qed.

Lemma wmap2_inv {A B} (m : W A) (f : A -> B) w r w' :
  (do a <- m; wret (f a))%W w = Val (r, w') -> exists r0, m w = Val (r0, w').
Proof.
  intros H. apply wbind_inv in H as [(a & w1 & E & H)|(e & E & _)]; [|eauto].
  apply wret_inv in H as (_ & ->). eauto.
Qed.

(* ---------- one step *)
Theorem C45_inv2_partial w o r w' :
  TreeFacts w -> Inv04 w -> Inv05 T w -> RX w ->
  Known45_2 w o = false -> Pending45_2 o = false ->
  run2 o w = Val (r, w') -> Inv04 w' /\ Inv05 T w' /\ RX w'.
Proof.
  intros HF H4 H5 HX HK HP H. destruct o; try discriminate HP; cbn [run_op2] in H.
  - apply wmap2_inv in H as (r0 & H). cbn [Known45_2] in HK. apply Bool.orb_false_iff in HK as (K4 & K5).
    destruct (C45_inv_all T tab_el tab_en check_fn LATEST root_attrs TK w o r0 w' HF H4 H5 HX K4 K5 H) as (A & B).
    split; [exact A|]. split; [exact B|]. eapply (RX_step T tab_el tab_en check_fn LATEST root_attrs TK RootTy); eauto.
  - apply wmap2_inv in H as (r0 & H). destruct (set_version_frame _ _ _ _ _ H) as (E1 & E2).
    pose proof (SV_same w w' E1 E2) as HS. split; [eapply (Inv04_sv T check_fn); eauto|]. split; [eapply Inv05_sv; eauto|eapply RX_same; eauto].
  - assert (w' = w); [|subst; auto].
    apply wbind_inv in H as [((errs & mask) & w1 & E & H)|(e & E & _)]; [|exact (ro_check _ _ _ _ _ E)].
    apply ro_check in E. subst w1. apply wret_inv in H as (_ & ->). reflexivity.
  - apply wmap2_inv in H as (r0 & H). pose proof (psv_f_serialize f _ _ _ H) as HS.
    split; [eapply (Inv04_sv T check_fn); eauto|]. split; [eapply Inv05_sv; eauto|eapply xp_f_serialize; eauto].
  - apply wmap2_inv in H as (r0 & H). apply ro_e_ser in H. subst. auto.
Qed.

(* ---------- sort: agent-c14's `kept` + the transfer of Tree/IndexProofsSort.v *)
Hypothesis MO : MaskOk T.

Lemma RX_kept w w' : kept T w w' -> RX w -> RX w'.
Proof.
  intros ((_ & _ & _ & nodes) & _) F j n' Hj. specialize (nodes j). rewrite Hj in nodes.
  destruct (w_nodes w j) as [n|] eqn:Hn; [|destruct nodes]. destruct (F _ _ Hn) as (A & B).
  destruct nodes as ((Ep & _ & Ety & _) & Hc). split.
  - rewrite Ety. destruct Hc as [->|(_ & P)]; [exact A|]. intros d Hd.
    eapply Permutation.Permutation_in in Hd; [|apply Permutation.Permutation_sym; exact P]. apply in_map_iff in Hd as (x & E & _). discriminate E.
  - rewrite Ep, Ety. exact B.
Qed.

Lemma e_sort_kept h w r w' : NameFirst T w ->
  e_sort T tab_el tab_at tab_en name_index name_definition_ref h w = Val (r, w') -> kept T w w'.
Proof.
  intros NF H. unfold e_sort, e_sort_with, wbind, wget in H.
  exact (proj2 (sort_kept T tab_el tab_at tab_en name_index name_definition_ref isort_poly StableSort_isort MO _ _ _ _ _ NF H)).
Qed.
Lemma m_sort_kept m w r w' : NameFirst T w ->
  m_sort T tab_el tab_at tab_en name_index name_definition_ref m w = Val (r, w') -> kept T w w'.
Proof.
  intros NF H. unfold m_sort, m_sort_with in H. apply wbind_inv in H as [(x & w1 & E & H)|(e & E & _)].
  - unfold get_model in E. destruct (nth_opt (w_models w) (N.to_nat m)); [|discriminate E]. injection E as _ <-.
    eapply (e_sort_kept (m_root x)); eauto.
  - unfold get_model in E. destruct (nth_opt (w_models w) (N.to_nat m)); discriminate E.
Qed.

Theorem C45_sort_step w w' :
  TreeFacts w -> Inv04 w -> Inv05 T w -> RX w -> NameFirst T w -> kept T w w' ->
  TreeFacts w' /\ Inv04 w' /\ Inv05 T w' /\ RX w'.
Proof.
  intros HF H4 H5 HX NF HK. destruct (sort_j5 T check_fn w w' (conj HF (conj H4 H5)) HK NF) as (A & B & C).
  split; [exact A|]. split; [exact B|]. split; [exact C|]. eapply RX_kept; eauto.
Qed.

Fixpoint run_hist2 (l : list op2) (w : world) : res world :=
  match l with
  | [] => Val w
  | o :: rest => match run2 o w with Val (_, w') => run_hist2 rest w' | Pan s => Pan s | Fuel => Fuel end
  end.
Fixpoint steps_ok2 (l : list op2) (w : world) : Prop :=
  match l with
  | [] => True
  | o :: rest =>
    TreeFacts w /\ Known45_2 w o = false /\ Pending45_2 o = false /\
    match run2 o w with Val (_, w') => steps_ok2 rest w' | _ => True end
  end.

Theorem C45_history2_partial l : forall w w',
  Inv04 w -> Inv05 T w -> RX w -> steps_ok2 l w -> run_hist2 l w = Val w' -> Inv04 w' /\ Inv05 T w' /\ RX w'.
Proof.
  induction l as [|o rest IH]; intros w w' H4 H5 HX Hok H; cbn in *.
  - injection H as <-. auto.
  - destruct Hok as (HF & HK & HP & Hrest). destruct (run2 o w) as [[r w1]| |] eqn:E; try discriminate.
    destruct (C45_inv2_partial w o r w1 HF H4 H5 HX HK HP E) as (A & B & C). eapply IH; eauto.
Qed.

(* ---------- the whole alphabet except load_buffer *)
Definition Pending45_3 (o : op2) : bool := match o with OpLoad _ _ _ _ => true | _ => false end.
(* side conditions: the finding classes of the 26 constructors; for the sorts no late SHORT-NAME element (Index.late_short, the
   class used for remove_file and the copies; it implies agent-c14's NameFirst); the classes of the copy steps of a duplicate,
   decided along the run *)
Definition Side45_2 (w : world) (o : op2) : Prop :=
  match o with
  | Op1 o1 => Known04a w o1 = false /\ Known05a w o1 = false
  | OpSort _ | OpSortModel _ => late_short T w = false
  | OpDuplicate m => dup_clean T tab_el tab_en check_fn LATEST root_attrs w m = true
  | _ => True
  end.

Theorem C45_inv2 w o r w' :
  TreeInv w -> Inv04 w -> Inv05 T w -> RX w -> Side45_2 w o -> Pending45_3 o = false ->
  run2 o w = Val (r, w') -> Inv04 w' /\ Inv05 T w' /\ RX w'.
Proof.
  intros HT H4 H5 HX HS HP H. pose proof (treeinv_treefacts w HT) as HF.
  destruct o; try discriminate HP; cbn [Side45_2] in HS.
  - destruct HS as (K4 & K5). eapply (C45_inv2_partial w (Op1 o)); eauto. cbn [Known45_2]. rewrite K4, K5. reflexivity.
  - cbn [run_op2] in H. apply wmap2_inv in H as (r0 & H). pose proof (nolate_namefirst T w (late_short_false T w HF HS)) as NF.
    destruct (C45_sort_step w w' HF H4 H5 HX NF (e_sort_kept h w r0 w' NF H)) as (_ & A & B & C). auto.
  - cbn [run_op2] in H. apply wmap2_inv in H as (r0 & H). pose proof (nolate_namefirst T w (late_short_false T w HF HS)) as NF.
    destruct (C45_sort_step w w' HF H4 H5 HX NF (m_sort_kept m w r0 w' NF H)) as (_ & A & B & C). auto.
  - cbn [run_op2] in H. apply wmap2_inv in H as (r0 & H).
    destruct (C45_duplicate T tab_el tab_en check_fn LATEST root_attrs TK RootTy m w r0 w' (conj HT (conj H4 (conj H5 HX))) HS H) as (A & B & C & _). auto.
  - eapply (C45_inv2_partial w (OpSetVersion f v)); eauto.
  - eapply (C45_inv2_partial w (OpCheckCompat f v)); eauto.
  - eapply (C45_inv2_partial w (OpSerializeFile f)); eauto.
  - eapply (C45_inv2_partial w (OpSerializeElem h)); eauto.
Qed.

Fixpoint steps_ok2a (l : list op2) (w : world) : Prop :=
  match l with
  | [] => True
  | o :: rest =>
    TreeInv w /\ Side45_2 w o /\ Pending45_3 o = false /\
    match run2 o w with Val (_, w') => steps_ok2a rest w' | _ => True end
  end.

Theorem C45_history2 l : forall w w',
  Inv04 w -> Inv05 T w -> RX w -> steps_ok2a l w -> run_hist2 l w = Val w' -> Inv04 w' /\ Inv05 T w' /\ RX w'.
Proof.
  induction l as [|o rest IH]; intros w w' H4 H5 HX Hok H; cbn in *.
  - injection H as <-. auto.
  - destruct Hok as (HT & HS & HP & Hrest). destruct (run2 o w) as [[r w1]| |] eqn:E; try discriminate.
    destruct (C45_inv2 w o r w1 HT H4 H5 HX HS HP E) as (A & B & C). eapply IH; eauto.
Qed.

End Op2.
