(* Tree/CompatProofs3.v — the returned version mask, set_version, and the link to strict loading.
   (1) mask_struct : every reported error carries a mask that excludes the target (or is the `not an enum item` mask
       u32::MAX), the overall mask is below every reported mask, and a clean walk leaves the target's bit set;
   (2) set_version : succeeds iff the check is clean, changes f_version of that file only, the check itself never reads a
       file version (so its verdicts are the same before and after);
   (3) Section RoundTrip : with the C01 round trip as an explicit hypothesis, clean <-> the relabelled text loads strictly. *)
From AV Require Import Base.Bytes Base.Outcome Hash.HashModel Tree.Heap Tree.Ops Tree.Compat Tree.CompatSpec
  Tree.CompatProofs1 Tree.CompatProofs2 Tree.Serialize.
From AV Require Xml.Parser.
From Coq Require Import Lia.
Open Scope list_scope.
Open Scope N_scope.

Section Mask.
Variable T : tables.
Variable v : N.

Definition has_bit (m : N) : Prop := forall b, b < 32 -> v = 2 ^ b -> N.testbit m b = true.
Definition err_ok (e : compat_err) : Prop := N.land (emask e) v = 0 \/ emask e = U32MAX.

Definition mask_ok (r : cres) : Prop :=
  (forall e, In e (fst r) -> err_ok e /\ msub (snd r) (emask e)) /\ (fst r = [] -> has_bit (snd r)).

Lemma mask_ok_nil : mask_ok ([], U32MAX).
Proof. split; [intros e []|]. intros _ b Hb _. apply u32max_bits. exact Hb. Qed.

Lemma mask_ok_clean m : has_bit m -> mask_ok ([], m).
Proof. intros H. split; [intros e []|intros _; exact H]. Qed.

Lemma mask_ok_single e : err_ok e -> mask_ok ([e], emask e).
Proof.
  intros H. split; [|discriminate]. intros e' [<-|[]]. split; [exact H|apply msub_refl].
Qed.

Lemma mask_ok_app e1 m1 e2 m2 : mask_ok (e1, m1) -> mask_ok (e2, m2) -> mask_ok (e1 ++ e2, N.land m1 m2).
Proof.
  intros [A1 B1] [A2 B2]. cbn [fst snd] in *. split; cbn [fst snd].
  - intros e He. apply in_app_or in He as [He|He].
    + destruct (A1 e He) as [Ho Hs]. split; [exact Ho|apply msub_land_l; exact Hs].
    + destruct (A2 e He) as [Ho Hs]. split; [exact Ho|apply msub_land_r; exact Hs].
  - intros Hnil. apply app_eq_nil in Hnil as [H1 H2]. intros b Hb Hv.
    rewrite N.land_spec, (B1 H1 b Hb Hv), (B2 H2 b Hb Hv). reflexivity.
Qed.

Lemma compatible_bit m : compatible v m = true -> has_bit m.
Proof.
  unfold compatible. intros H b Hb ->. apply negb_true_iff, N.eqb_neq in H. apply land_pow2_testbit. exact H.
Qed.
Lemma incompatible_zero m : compatible v m = false -> N.land m v = 0.
Proof. unfold compatible. intros H. apply negb_false_iff, N.eqb_eq in H. exact H. Qed.

Lemma value_compat_mask d spec ok vm :
  value_compat d spec v = (ok, vm) -> if ok then has_bit vm else (N.land vm v = 0 \/ vm = U32MAX).
Proof.
  unfold value_compat. destruct spec as [items| | | |].
  - destruct d as [e| | |].
    + destruct (find (fun it => fst it =? e) items) as [[i mask]|].
      * intros [= <- <-]. destruct (negb (N.land mask v =? 0)) eqn:E.
        -- apply compatible_bit. exact E.
        -- left. apply negb_false_iff, N.eqb_eq in E. exact E.
      * intros [= <- <-]. left. reflexivity.
    + intros [= <- <-]. right. reflexivity.
    + intros [= <- <-]. right. reflexivity.
    + intros [= <- <-]. right. reflexivity.
  - intros [= <- <-]. intros b Hb _. apply u32max_bits. exact Hb.
  - intros [= <- <-]. intros b Hb _. apply u32max_bits. exact Hb.
  - intros [= <- <-]. intros b Hb _. apply u32max_bits. exact Hb.
  - intros [= <- <-]. intros b Hb _. apply u32max_bits. exact Hb.
Qed.

Lemma attr_step_mask self oldty newty a r : attr_step T self oldty newty v a = Val r -> mask_ok r.
Proof.
  destruct a as [an d]. unfold attr_step.
  destruct (find_attribute_spec T newty an) as [[[[[cd spec] req] vmask]|]| |]; cbn [bind]; try discriminate.
  - destruct (compatible v vmask) eqn:Ec; cbn [negb].
    + destruct (value_compat d spec v) as [ok vm] eqn:Ev. intros [= <-].
      pose proof (value_compat_mask _ _ _ _ Ev) as Hv.
      change (if ok then [] else [CEAttrValue self an vm]) with ([] ++ (if ok then [] else [CEAttrValue self an vm])).
      apply mask_ok_app; [apply mask_ok_clean, compatible_bit; exact Ec|].
      destruct ok; [apply mask_ok_clean; exact Hv|].
      exact (mask_ok_single (CEAttrValue self an vm) Hv).
    + intros [= <-]. apply (mask_ok_single (CEAttr self an vmask)). left. apply incompatible_zero. exact Ec.
  - destruct (find_attribute_spec T oldty an) as [so| |]; cbn [bind]; try discriminate.
    intros [= <-]. apply (mask_ok_single (CEAttr self an _)). left. apply land_ldiff_zero.
Qed.

Lemma attr_loop_mask self oldty newty attrs : forall r, attr_loop T self oldty newty v attrs = Val r -> mask_ok r.
Proof.
  induction attrs as [|a rest IH]; intros r H.
  - injection H as <-. apply mask_ok_nil.
  - cbn [attr_loop] in H.
    destruct (attr_step T self oldty newty v a) as [[e1 m1]| |] eqn:E1; cbn [bind] in H; try discriminate.
    destruct (attr_loop T self oldty newty v rest) as [[e2 m2]| |] eqn:E2; cbn [bind] in H; try discriminate.
    injection H as <-. apply mask_ok_app; [exact (attr_step_mask _ _ _ _ _ E1)|exact (IH _ eq_refl)].
Qed.

Lemma text_loop_mask self spec items : mask_ok (text_loop self spec v items).
Proof.
  induction items as [|it rest IH]; [apply mask_ok_nil|].
  destruct it as [c|d]; cbn [text_loop]; [exact IH|].
  destruct (value_compat d spec v) as [ok vm] eqn:Ev.
  destruct (text_loop self spec v rest) as [e2 m2].
  pose proof (value_compat_mask _ _ _ _ Ev) as Hv.
  apply mask_ok_app; [|exact IH].
  destruct ok; [apply mask_ok_clean; exact Hv|exact (mask_ok_single (CEElem self vm) Hv)].
Qed.

Lemma sub_loop_mask (rec : id -> res cres) w oldty newty f :
  (forall c r, rec c = Val r -> mask_ok r) ->
  forall items r, sub_loop T rec w oldty newty f v items = Val r -> mask_ok r.
Proof.
  intros Hrec. induction items as [|it rest IH]; intros r H.
  - injection H as <-. apply mask_ok_nil.
  - destruct it as [c|d]; cbn [sub_loop] in H; [|exact (IH _ H)].
    destruct (node_at w c) as [cn| |]; cbn [bind] in H; try discriminate.
    destruct (is_empty (n_files cn) || set_mem f (n_files cn)); [|exact (IH _ H)].
    destruct (find_sub_element T newty (n_name cn) v) as [r1| |]; cbn [bind] in H; try discriminate.
    destruct (find_sub_element T newty (n_name cn) U32MAX) as [r2| |]; cbn [bind] in H; try discriminate.
    destruct (match r1 with Some x => Some x | None => r2 end) as [[tc ixs]|]; [|exact (IH _ H)].
    destruct (get_sub_element_version_mask T newty ixs) as [o| |]; cbn [bind] in H; try discriminate.
    destruct o as [vm|]; cbn [unwrap bind] in H; try discriminate.
    destruct (compatible v vm) eqn:Ec; cbn [negb] in H.
    + destruct (rec c) as [[e1 m1]| |] eqn:Er; cbn [bind] in H; try discriminate.
      destruct (sub_loop T rec w oldty newty f v rest) as [[e2 m2]| |] eqn:E2; cbn [bind] in H; try discriminate.
      injection H as <-.
      apply mask_ok_app; [|exact (IH _ eq_refl)].
      change e1 with ([] ++ e1). apply mask_ok_app; [apply mask_ok_clean, compatible_bit; exact Ec|exact (Hrec _ _ Er)].
    + destruct (sub_loop T rec w oldty newty f v rest) as [[e2 m2]| |] eqn:E2; cbn [bind] in H; try discriminate.
      injection H as <-.
      change (CEElem c vm :: e2) with ([CEElem c vm] ++ e2).
      apply mask_ok_app; [|exact (IH _ eq_refl)].
      apply (mask_ok_single (CEElem c vm)). left. apply incompatible_zero. exact Ec.
Qed.

Lemma e_check_mask fuel : forall w i f r, e_check T fuel w i f v = Val r -> mask_ok r.
Proof.
  induction fuel as [|fuel IH]; intros w i f r H; [discriminate|].
  cbn [e_check] in H.
  destruct (node_at w i) as [n| |]; cbn [bind] in H; try discriminate.
  destruct (recalc_element_type T w n v) as [newty| |]; cbn [bind] in H; try discriminate.
  destruct (attr_loop T i (n_type n) newty v (n_attrs n)) as [[ea ma]| |] eqn:Ea; cbn [bind] in H; try discriminate.
  destruct (chardata_spec T newty) as [cs| |]; cbn [bind] in H; try discriminate.
  destruct (match cs with Some spec => text_loop i spec v (n_content n) | None => ([], U32MAX) end) as [et mt] eqn:Et.
  destruct (sub_loop T (fun c => e_check T fuel w c f v) w (n_type n) newty f v (n_content n)) as [[es ms]| |] eqn:Es;
    cbn [bind] in H; try discriminate.
  injection H as <-.
  rewrite app_assoc. apply mask_ok_app; [apply mask_ok_app|].
  - exact (attr_loop_mask _ _ _ _ _ Ea).
  - destruct cs as [spec|]; [rewrite <- Et; apply text_loop_mask|injection Et as <- <-; apply mask_ok_nil].
  - exact (sub_loop_mask _ _ _ _ _ (fun c r Hr => IH _ _ _ _ Hr) _ _ Es).
Qed.

Theorem f_check_mask w f errs mask :
  f_check T w f v = Val (errs, mask) -> version_bit v ->
  (errs = [] -> N.land mask v <> 0) /\
  ((forall e, In e errs -> emask e <> U32MAX) -> N.land mask v <> 0 -> errs = []).
Proof.
  unfold f_check.
  destruct (nth_opt (w_files w) (N.to_nat f)) as [x|]; cbn [unwrap bind]; try discriminate.
  destruct (nth_opt (w_models w) (N.to_nat (f_model x))) as [m|]; cbn [unwrap bind]; try discriminate.
  intros H (b & Hb & Hv). destruct (e_check_mask _ _ _ _ _ H) as [A B]. cbn [fst snd] in A, B.
  split.
  - intros He. rewrite Hv. apply land_pow2_testbit. exact (B He b Hb Hv).
  - intros Hno Hm. destruct errs as [|e rest]; [reflexivity|]. exfalso.
    destruct (A e (or_introl eq_refl)) as [[Hz|Hmax] Hs].
    + apply Hm. exact (msub_zero _ _ _ Hs Hz).
    + exact (Hno e (or_introl eq_refl) Hmax).
Qed.

End Mask.

(* ------------------------------------------------------------------ set_version *)
Definition with_version (w : world) (f v : N) : world :=
  match nth_opt (w_files w) (N.to_nat f) with
  | Some x => mkWorld (w_nodes w) (w_next w) (list_set (w_files w) (N.to_nat f) (mkFile (f_model x) (f_name x) v (f_standalone x))) (w_models w)
  | None => w
  end.

Lemma nth_opt_list_set_same {A} (l : list A) k x y : nth_opt l k = Some y -> nth_opt (list_set l k x) k = Some x.
Proof.
  revert k. induction l as [|a l IH]; intros k H; [destruct k; discriminate|].
  destruct k; cbn in *; [reflexivity|exact (IH _ H)].
Qed.

Section SetVersion.
Variable T : tables.

Theorem set_version_spec w f v errs mask :
  f_check T w f v = Val (errs, mask) ->
  f_set_version T f v w =
    if is_empty errs then Val (OK tt, with_version w f v) else Val (ER VersionIncompatibleData, w).
Proof.
  intros H. unfold f_set_version, wbind, f_check_version_compatibility. rewrite H.
  destruct errs as [|e rest]; cbn [is_empty]; [|reflexivity].
  unfold f_check in H. unfold get_file, with_version.
  destruct (nth_opt (w_files w) (N.to_nat f)) as [x|]; cbn [unwrap bind] in H; [reflexivity|discriminate].
Qed.

(* the walk never reads a file's version: changing versions changes no verdict *)
Lemma e_check_with_version fuel : forall w g u i f v, e_check T fuel (with_version w g u) i f v = e_check T fuel w i f v.
Proof.
  intros w g u. unfold with_version. destruct (nth_opt (w_files w) (N.to_nat g)) as [x|]; [|reflexivity].
  set (w' := mkWorld _ _ _ _).
  assert (Hnode : forall i, node_at w' i = node_at w i) by reflexivity.
  assert (Hrecalc : forall n v, recalc_element_type T w' n v = recalc_element_type T w n v) by reflexivity.
  induction fuel as [|fuel IH]; intros i f v; [reflexivity|].
  cbn [e_check]. rewrite Hnode. destruct (node_at w i) as [n| |]; cbn [bind]; try reflexivity.
  rewrite Hrecalc. destruct (recalc_element_type T w n v) as [newty| |]; cbn [bind]; try reflexivity.
  destruct (attr_loop T i (n_type n) newty v (n_attrs n)) as [[ea ma]| |]; cbn [bind]; try reflexivity.
  destruct (chardata_spec T newty) as [cs| |]; cbn [bind]; try reflexivity.
  assert (Hsub : forall items, sub_loop T (fun c => e_check T fuel w' c f v) w' (n_type n) newty f v items =
                               sub_loop T (fun c => e_check T fuel w c f v) w (n_type n) newty f v items).
  { induction items as [|it rest IHi]; [reflexivity|].
    destruct it as [c|d]; cbn [sub_loop]; [|exact IHi].
    rewrite Hnode. destruct (node_at w c) as [cn| |]; cbn [bind]; try reflexivity.
    rewrite IHi, IH. reflexivity. }
  rewrite Hsub. reflexivity.
Qed.

Theorem f_check_with_version w g u f v : f_check T (with_version w g u) f v = f_check T w f v.
Proof.
  unfold f_check.
  assert (Hm : w_models (with_version w g u) = w_models w).
  { unfold with_version. destruct (nth_opt (w_files w) (N.to_nat g)); reflexivity. }
  assert (Hn : fuel_of (with_version w g u) = fuel_of w).
  { unfold with_version, fuel_of. destruct (nth_opt (w_files w) (N.to_nat g)); reflexivity. }
  assert (Hf : option_map f_model (nth_opt (w_files (with_version w g u)) (N.to_nat f)) = option_map f_model (nth_opt (w_files w) (N.to_nat f))).
  { unfold with_version. destruct (nth_opt (w_files w) (N.to_nat g)) as [x|] eqn:Ex; [|reflexivity]. cbn [w_files].
    clear Hm Hn. revert Ex. generalize (N.to_nat g) (N.to_nat f) (w_files w). intros a b l. revert a b.
    induction l as [|y l IH]; intros a b Ex; [destruct a; discriminate|].
    destruct a, b; cbn in *; try reflexivity.
    - injection Ex as ->. reflexivity.
    - exact (IH _ _ Ex). }
  rewrite Hm, Hn.
  destruct (nth_opt (w_files (with_version w g u)) (N.to_nat f)) as [x'|], (nth_opt (w_files w) (N.to_nat f)) as [x|];
    cbn [option_map] in Hf; try discriminate; cbn [unwrap bind]; [|reflexivity].
  injection Hf as ->.
  destruct (nth_opt (w_models w) (N.to_nat (f_model x))) as [m|]; cbn [unwrap bind]; [|reflexivity].
  apply e_check_with_version.
Qed.

End SetVersion.

(* ------------------------------------------------------------------ the link to strict loading (C01 as hypothesis) *)
Section RoundTrip.
Variable T : tables.
Variable tab_el tab_at tab_en : nametab.
Variable check_fn : N -> list N -> res bool.
Variable float_parse : list N -> option N.
Variable float_fmt : N -> list N.
Variable attr_schema_location : N.

(* the text ArxmlFile::serialize produces for file f in world w *)
Definition file_text (w : world) (f : N) (text : list N) : Prop :=
  exists w', f_serialize T tab_el tab_at tab_en check_fn float_fmt attr_schema_location f w = Val (OK text, w').
(* load_buffer(text, strict = true) into a fresh model succeeds and the file has version v *)
Definition strict_accepts (text : list N) (v : N) : Prop :=
  exists tree st, Parser.load true T tab_el tab_at tab_en check_fn float_parse text = Val (Parser.Ret tree st) /\ Parser.p_version st = v.

(* what strict loading demands beyond version dependent content (required SHORT-NAME, value patterns of the v-types,
   multiplicities, required attributes ...): an abstract side condition of the round trip *)
Variable StrictRest : world -> N -> N -> Prop.

(* C01/C08 (owned by the xml proofs): the serialization of a file whose version is v loads strictly as v exactly when its
   content is valid in v *)
Hypothesis RoundTrip : forall w f v text,
  file_text (with_version w f v) f text -> StrictRest w f v -> (strict_accepts text v <-> ValidIn T w f v).

Theorem check_exact_load w f v errs mask text :
  f_check T w f v = Val (errs, mask) -> NoKnown T w f v -> StrictRest w f v ->
  file_text (with_version w f v) f text ->
  (errs = [] <-> strict_accepts text v).
Proof.
  intros H (Kr & Km & Ks) HR Ht.
  rewrite (RoundTrip w f v text Ht HR).
  exact (f_check_exact T w f v Km Ks Kr _ H).
Qed.

Theorem set_version_reload w f v w' text :
  f_set_version T f v w = Val (OK tt, w') -> NoKnown T w f v -> StrictRest w f v ->
  file_text w' f text -> strict_accepts text v.
Proof.
  intros H HK HR Ht.
  destruct (f_check T w f v) as [[errs mask]| |] eqn:Ec.
  - rewrite (set_version_spec T w f v errs mask Ec) in H.
    destruct errs as [|e rest]; cbn [is_empty] in H; [|discriminate].
    injection H as <-.
    apply (check_exact_load w f v [] mask text Ec HK HR Ht). reflexivity.
  - unfold f_set_version, wbind, f_check_version_compatibility in H. rewrite Ec in H. discriminate.
  - unfold f_set_version, wbind, f_check_version_compatibility in H. rewrite Ec in H. discriminate.
Qed.

End RoundTrip.
