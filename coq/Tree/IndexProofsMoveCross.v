(* Tree/IndexProofsMoveCross.v — C04/C05: the tree side of a move between two models (move_element_full).
   The element mv (identifiable or a container) leaves its parent sp in model ms and is put below self (model m, m <> ms) at
   position pos.  Inside the moved subtree: the SHORT-NAME of mv may get a new text nm (make_unique_item_name against the
   destination index), the references whose text is an old path of the subtree get their new text (rtx), mv gets the new
   parent.  The maps of ms lose the keys K and the referrer pairs R (apply_plan), the maps of m get the new keys and referrers.
   Proof as for the local move: w1 = attach (erase w); the erased world wr (subtree gone, maps of ms already cleaned) satisfies
   TreeFacts / Inv04 / Inv05 by Section Rem of IndexProofsRemoveOp.v, the subtree is attached below self by
   IndexProofsAttach.v. *)
From Coq Require Import Lia PeanoNat.
From AV Require Import Base.Bytes Base.Outcome Hash.HashModel Tree.Heap Tree.Ops Tree.Script Tree.IndexProofsW
  Tree.Index Tree.IndexProofsBase Tree.IndexProofsAssoc Tree.IndexProofsFrame Tree.IndexProofsAttach
  Tree.IndexProofsTree Tree.IndexProofsNamed Tree.Refs Tree.RefsProofsBase Tree.RefsProofs Tree.IndexProofsRemove
  Tree.IndexProofsRemoveOp Tree.Follow Tree.FollowProofsPath Tree.FollowProofsLoop Tree.IndexProofsMoveTree Tree.RefsAll.
Open Scope string_scope.
Open Scope list_scope.
Open Scope N_scope.

Section RelocX.
Variable T : tables.
Variable check_fn : N -> list N -> res bool.
Hypothesis TK : TablesOK T check_fn.
Notation Inv04 := (Inv04 T check_fn).
Notation SHORTN := (name_short_name T).

Variables (w w1 : world) (mv sp self s : id) (mn pn n : node) (kpos pos : nat)
          (ms m : N) (xs xm : model) (spp dpre nm : list N) (idf : bool)
          (K : list (list N)) (R : list (list N * id))
          (IDM : list (list N * id)) (ORM : list (list N * list id)) (ids : list id) (rtx : id -> option (list N)).
Hypothesis HF : TreeFacts w.
Hypothesis HI : Inv04 w.
Hypothesis HI5 : Inv05 T w.
Hypothesis Hmn : w_nodes w mv = Some mn.
Hypothesis Hpar : n_parent mn = PElem sp.
Hypothesis Hpn : w_nodes w sp = Some pn.
Hypothesis Hidx : index_of (citem_is mv) (n_content pn) = Some kpos.
Hypothesis Hn : w_nodes w self = Some n.
Hypothesis Hself_mv : self <> mv.
Hypothesis Hself_out : ~ reach T w mv self.
Hypothesis Hself_sp : self <> sp.
Hypothesis Hpos : (pos <= List.length (n_content n))%nat.
Hypothesis Hids_D : forall j, In j ids <-> reach T w mv j.
Hypothesis Hmm : m <> ms.
Hypothesis Hidf : identifiable T w mv = idf.
Hypothesis Hs : idf = true -> exists rest0 sn, n_content mn = CElem s :: rest0 /\ w_nodes w s = Some sn /\ n_name sn = SHORTN.
Hypothesis Hnm : ~ In 47 nm.
Hypothesis Hrtx : forall j t nj, rtx j = Some t -> w_nodes w j = Some nj -> isref T (n_type nj) = true.

Definition ren (j : id) (nj : node) : node := if idf && (j =? s) then set_content nj [CData (DString nm)] else nj.
Definition ret (j : id) (nj : node) : node := match rtx j with Some t => rewrite_head t nj | None => nj end.
Definition rep (j : id) (nj : node) : node := if j =? mv then set_parent nj (PElem self) else nj.
Definition tr (j : id) (nj : node) : node := rep j (ret j (ren j nj)).

Let pn1 := set_content pn (remove_at (n_content pn) kpos).
Let n1 := set_content n (insert_at (n_content n) pos (CElem mv)).
Hypothesis Hnodes : forall j, w_nodes w1 j =
  if j =? sp then Some pn1 else if j =? self then Some n1 else
  if mem_id j ids then option_map (tr j) (w_nodes w j) else w_nodes w j.
Hypothesis Hnext : w_next w1 = w_next w.
Hypothesis Hspp : SpecPath T w ms sp spp.
Hypothesis Hdpre : SpecPath T w m self dpre.
Hypothesis Hxs : model_at w ms = Some xs.
Hypothesis Hxm : model_at w m = Some xm.
Let src := spp ++ seg T w mv.
Let dest := dpre ++ (if idf then 47 :: nm else []).
Let xs1 := apply_plan xs K R.
Let xm1 := set_origins (set_idents xm IDM) ORM.
Hypothesis Hmodels : w_models w1 = list_set (list_set (w_models w) (N.to_nat ms) xs1) (N.to_nat m) xm1.
Hypothesis HK : forall k, In k K <-> exists j q, dpath T w mv j q /\ identifiable T w j = true /\ k = spp ++ seg T w mv ++ q.
Hypothesis HR : (forall p j, In (p, j) R -> reach T w mv j) /\ (forall p j, reach T w mv j -> ref_text T w j = Some p -> In (p, j) R).
Hypothesis Hfront_src : named T (n_type pn) = true -> kpos = O ->
  forall c2 rest c2n, n_content pn = CElem mv :: CElem c2 :: rest -> w_nodes w c2 = Some c2n -> n_name c2n <> SHORTN.
Hypothesis Hfront_dst : pos = O -> identifiable T w self = false.
Hypothesis Hmv_not_short : n_name mn <> SHORTN.
Hypothesis Hself_mode : content_mode T (n_type n) <> Val MCharacters.

Notation D := (reach T w mv).
Definition newref (r : id) : option (list N) := match rtx r with Some t => Some t | None => ref_text T w r end.

Hypothesis Hidm_nd : NoDupKeys IDM.
Hypothesis Hidm : forall k e, assoc_get k IDM = Some e <->
     (D e /\ exists q, assoc_get (src ++ q) (m_idents xs) = Some e /\ k = dest ++ q)
     \/ (~ D e /\ assoc_get k (m_idents xm) = Some e).
Hypothesis Horm : forall p r, In r (origins_of xm1 p) <-> In r (origins_of xm p) \/ (D r /\ newref r = Some p).
Hypothesis Horm_nd : forall p, NoDup (origins_of xm1 p).
Hypothesis Horm_tidy : Tidy ORM.

(* ---------- the nodes *)
Lemma x_child_sp : child_of w sp mv.
Proof. exists pn. split; [exact Hpn|eapply index_of_citem; eauto]. Qed.
Lemma x_sp_notD : ~ D sp.
Proof. intros (q & Hd). eapply (not_below_self T w sp mv q); eauto. apply x_child_sp. Qed.
Lemma x_mv_sp : mv <> sp.
Proof. intros E. apply x_sp_notD. rewrite <- E. apply reach_refl. Qed.
Lemma x_mv_unique_parent p : child_of w p mv -> p = sp.
Proof. intros Hc. destruct (tf_up _ HF _ _ Hc) as (a & Ha & Hap). rewrite Hmn in Ha. injection Ha as <-. congruence. Qed.

Lemma x_w1_sp : w_nodes w1 sp = Some pn1.
Proof. rewrite Hnodes, N.eqb_refl. reflexivity. Qed.
Lemma x_w1_self : w_nodes w1 self = Some n1.
Proof. rewrite Hnodes. apply N.eqb_neq in Hself_sp as H3. rewrite H3, N.eqb_refl. reflexivity. Qed.
Lemma x_w1_D j : D j -> w_nodes w1 j = option_map (tr j) (w_nodes w j).
Proof.
  intros Hd. rewrite Hnodes.
  assert (H1 : j <> sp) by (intros ->; exact (x_sp_notD Hd)). assert (H2 : j <> self) by (intros ->; exact (Hself_out Hd)).
  apply N.eqb_neq in H1, H2. rewrite H1, H2. apply Hids_D, mem_id_in in Hd. rewrite Hd. reflexivity.
Qed.
Lemma x_w1_out j : ~ D j -> j <> sp -> j <> self -> w_nodes w1 j = w_nodes w j.
Proof.
  intros Hd H1 H2. rewrite Hnodes. apply N.eqb_neq in H1, H2. rewrite H1, H2.
  destruct (mem_id j ids) eqn:E; [|reflexivity]. apply mem_id_in, Hids_D in E. contradiction.
Qed.
Lemma x_D_alloc j : D j -> exists nj, w_nodes w j = Some nj.
Proof.
  intros (q & Hd). destruct (dpath_alloc T _ _ _ _ Hd) as [->|(p & Hc)]; [eauto|].
  destruct (tf_up _ HF _ _ Hc) as (cn & Hcn & _). eauto.
Qed.

(* ---------- the transformation of a node of the subtree *)
Lemma tr_type j nj : n_type (tr j nj) = n_type nj.
Proof. unfold tr, rep, ret, ren. destruct (j =? mv), (rtx j), (idf && (j =? s)); reflexivity. Qed.
Lemma tr_name j nj : n_name (tr j nj) = n_name nj.
Proof. unfold tr, rep, ret, ren. destruct (j =? mv), (rtx j), (idf && (j =? s)); reflexivity. Qed.
Lemma tr_parent j nj : j <> mv -> n_parent (tr j nj) = n_parent nj.
Proof. intros H. apply N.eqb_neq in H. unfold tr, rep, ret, ren. rewrite H. destruct (rtx j), (idf && (j =? s)); reflexivity. Qed.
Lemma tr_parent_mv nj : n_parent (tr mv nj) = PElem self.
Proof. unfold tr, rep. rewrite N.eqb_refl. reflexivity. Qed.

Lemma ref_is_chars nj : isref T (n_type nj) = true -> content_mode T (n_type nj) = Val MCharacters.
Proof.
  unfold isref. destruct (is_ref T (n_type nj)) as [[|]| |] eqn:E; try discriminate. intros _. exact (tk_ref _ _ TK _ E).
Qed.
Lemma short_not_ref j nj : w_nodes w j = Some nj -> n_name nj = SHORTN -> isref T (n_type nj) = false.
Proof. intros Hj Hs0. destruct (i4_short _ _ _ HI _ _ Hj Hs0) as (_ & Hr & _). unfold isref. rewrite Hr. reflexivity. Qed.
Lemma short_rtx j nj : w_nodes w j = Some nj -> n_name nj = SHORTN -> rtx j = None.
Proof.
  intros Hj Hs0. destruct (rtx j) as [t|] eqn:E; [|reflexivity].
  pose proof (Hrtx _ _ _ E Hj) as H1. rewrite (short_not_ref _ _ Hj Hs0) in H1. discriminate.
Qed.

(* the cases of tr *)
Lemma tr_cases j nj : w_nodes w j = Some nj ->
  (idf && (j =? s) = false /\ rtx j = None /\ n_content (tr j nj) = n_content nj)
  \/ (content_mode T (n_type nj) = Val MCharacters /\ chars_content (n_content nj) /\
      exists t, n_content (tr j nj) = [CData (DString t)] /\
                ((idf = true /\ j = s /\ t = nm /\ n_name nj = SHORTN /\ rtx j = None) \/
                 (rtx j = Some t /\ isref T (n_type nj) = true))).
Proof.
  intros Hj. destruct (idf && (j =? s)) eqn:E1.
  - right. apply andb_prop in E1 as (Ei & Ejs). apply N.eqb_eq in Ejs. subst j.
    destruct (Hs Ei) as (rest0 & sn & _ & Hsn & Hname). rewrite Hj in Hsn. injection Hsn as <-.
    destruct (i4_short _ _ _ HI _ _ Hj Hname) as (Hmode & _).
    split; [exact Hmode|]. split; [exact (i4_leaf _ _ _ HI _ _ Hj Hmode)|]. exists nm.
    pose proof (short_rtx _ _ Hj Hname) as Hr. split.
    + unfold tr, rep, ret, ren. rewrite Hr, Ei, N.eqb_refl. cbn [andb]. destruct (s =? mv); reflexivity.
    + left. auto.
  - destruct (rtx j) as [t|] eqn:E2.
    + right. pose proof (Hrtx _ _ _ E2 Hj) as Hr. pose proof (ref_is_chars _ Hr) as Hmode.
      pose proof (i4_leaf _ _ _ HI _ _ Hj Hmode) as Hl.
      split; [exact Hmode|]. split; [exact Hl|]. exists t. split; [|right; auto].
      unfold tr, rep, ret, ren. rewrite E1, E2. unfold rewrite_head.
      destruct Hl as [Hl|(d & Hl)]; rewrite Hl; destruct (j =? mv); reflexivity.
    + left. split; [reflexivity|]. split; [reflexivity|]. unfold tr, rep, ret, ren. rewrite E1, E2. destruct (j =? mv); reflexivity.
Qed.

Lemma tr_elems j nj : w_nodes w j = Some nj -> elem_ids (n_content (tr j nj)) = elem_ids (n_content nj).
Proof.
  intros Hj. destruct (tr_cases j nj Hj) as [(_ & _ & ->)|(_ & Hl & t & -> & _)]; [reflexivity|].
  rewrite (chars_content_elems _ Hl). reflexivity.
Qed.
Lemma tr_leaf j nj : w_nodes w j = Some nj -> content_mode T (n_type nj) = Val MCharacters -> chars_content (n_content (tr j nj)).
Proof.
  intros Hj Hm. destruct (tr_cases j nj Hj) as [(_ & _ & ->)|(_ & _ & t & -> & _)]; [exact (i4_leaf _ _ _ HI _ _ Hj Hm)|].
  right. eexists. reflexivity.
Qed.

Lemma x_D_node j nj : D j -> w_nodes w j = Some nj -> w_nodes w1 j = Some (tr j nj).
Proof. intros Hd Hj. rewrite (x_w1_D j Hd), Hj. reflexivity. Qed.

Lemma x_D_child p c : D p -> (child_of w1 p c <-> child_of w p c).
Proof.
  intros Hp. destruct (x_D_alloc p Hp) as (np & Hnp). pose proof (x_D_node p np Hp Hnp) as Hnp'.
  pose proof (tr_elems p np Hnp) as He.
  unfold child_of. rewrite Hnp, Hnp'. split; intros (x & [= <-] & Hin); eexists; (split; [reflexivity|]);
    apply in_elem_ids; apply in_elem_ids in Hin; congruence.
Qed.

(* the SHORT-NAME child of an element of the subtree other than mv is the same record in both worlds *)
Lemma x_short_kid j nj y yn : D j -> j <> mv -> w_nodes w j = Some nj -> hd_error (n_content nj) = Some (CElem y) ->
  w_nodes w y = Some yn -> n_name yn = SHORTN -> tr y yn = yn.
Proof.
  intros Hd Hjm Hj Hh Hy Hname.
  assert (Hc : child_of w j y).
  { exists nj. split; [exact Hj|]. destruct (n_content nj); cbn in Hh; [discriminate|]. injection Hh as ->. left. reflexivity. }
  assert (Hym : y <> mv) by (intros ->; apply x_sp_notD; rewrite <- (x_mv_unique_parent j Hc); exact Hd).
  apply N.eqb_neq in Hym. unfold tr, rep, ret, ren. rewrite Hym, (short_rtx _ _ Hy Hname).
  destruct (idf && (y =? s)) eqn:E; [|reflexivity]. apply andb_prop in E as (Ei & Eys).
  exfalso. apply N.eqb_eq in Eys. subst y. destruct (Hs Ei) as (rest0 & sn & Hcm & _).
  assert (Hc2 : child_of w mv s) by (exists mn; rewrite Hcm; split; [exact Hmn|left; reflexivity]).
  destruct (tf_up _ HF _ _ Hc) as (a & Ha & Hap). destruct (tf_up _ HF _ _ Hc2) as (b & Hb & Hbp). congruence.
Qed.

Lemma x_short_child_D j nj : D j -> j <> mv -> w_nodes w j = Some nj -> short_child T w1 (tr j nj) = short_child T w nj.
Proof.
  intros Hd Hjm Hj. rewrite !short_child_hd.
  destruct (tr_cases j nj Hj) as [(_ & _ & ->)|(_ & Hl & t & -> & _)].
  - destruct (hd_error (n_content nj)) as [[y|d]|] eqn:Eh; try reflexivity.
    assert (Hc : child_of w j y).
    { exists nj. split; [exact Hj|]. destruct (n_content nj); cbn in Eh; [discriminate|]. injection Eh as ->. left. reflexivity. }
    assert (Hyd : D y) by (eapply reach_step; eauto).
    destruct (x_D_alloc y Hyd) as (yn & Hy). rewrite (x_D_node y yn Hyd Hy), Hy, tr_name.
    destruct (n_name yn =? SHORTN) eqn:En; [|reflexivity]. apply N.eqb_eq in En.
    rewrite (x_short_kid j nj y yn Hd Hjm Hj Eh Hy En). reflexivity.
  - destruct Hl as [->|(d & ->)]; reflexivity.
Qed.

Lemma x_identifiable_n j nj : D j -> w_nodes w j = Some nj -> identifiable_n T w1 (tr j nj) = identifiable_n T w nj.
Proof.
  intros Hd Hj. unfold identifiable_n. rewrite tr_type. f_equal. rewrite !short_child_hd.
  destruct (tr_cases j nj Hj) as [(_ & _ & ->)|(_ & Hl & t & -> & _)].
  - destruct (hd_error (n_content nj)) as [[y|d]|] eqn:Eh; try reflexivity.
    assert (Hc : child_of w j y).
    { exists nj. split; [exact Hj|]. destruct (n_content nj); cbn in Eh; [discriminate|]. injection Eh as ->. left. reflexivity. }
    assert (Hyd : D y) by (eapply reach_step; eauto).
    destruct (x_D_alloc y Hyd) as (yn & Hy). rewrite (x_D_node y yn Hyd Hy), Hy, tr_name.
    destruct (n_name yn =? SHORTN); reflexivity.
  - destruct Hl as [->|(d & ->)]; reflexivity.
Qed.
Lemma x_identifiable_D j : D j -> identifiable T w1 j = identifiable T w j.
Proof.
  intros Hd. destruct (x_D_alloc j Hd) as (nj & Hj). unfold identifiable. rewrite (x_D_node j nj Hd Hj), Hj.
  apply x_identifiable_n; assumption.
Qed.
Lemma x_seg_D j : D j -> j <> mv -> seg T w1 j = seg T w j.
Proof.
  intros Hd Hjm. destruct (x_D_alloc j Hd) as (nj & Hj). unfold seg. rewrite (x_D_node j nj Hd Hj), Hj.
  destruct (readings_ext T w w1 nj (tr j nj) (tr_type j nj) (x_short_child_D j nj Hd Hjm Hj)) as (_ & _ & H3). exact H3.
Qed.

Lemma x_cdata_s sn : idf = true -> w_nodes w s = Some sn -> n_name sn = SHORTN -> cdata_of T (tr s sn) = Some (DString nm).
Proof.
  intros Ei Hsn Hname. destruct (tr_cases s sn Hsn) as [(E & _)|(Hmode & _ & t & Hc & [(_ & _ & -> & _)|(E & _)])].
  - rewrite Ei, N.eqb_refl in E. discriminate.
  - unfold cdata_of, character_data. rewrite Hc, tr_type, Hmode. reflexivity.
  - rewrite (short_rtx _ _ Hsn Hname) in E. discriminate.
Qed.

Lemma x_seg_mv : seg T w1 mv = (if idf then 47 :: nm else []).
Proof.
  unfold seg. rewrite (x_D_node mv mn (reach_refl T w mv) Hmn). unfold seg_n.
  destruct (Bool.bool_dec idf true) as [Ei|Ei].
  - rewrite Ei. destruct (Hs Ei) as (rest0 & sn & Hcm & Hsn & Hname).
    assert (Hnamed : named T (n_type mn) = true).
    { pose proof Hidf as Hi. rewrite Ei in Hi. unfold identifiable in Hi. rewrite Hmn in Hi. unfold identifiable_n in Hi.
      apply andb_prop in Hi as (H & _). exact H. }
    assert (Hds : D s) by (eapply reach_step; [apply reach_refl|]; exists mn; rewrite Hcm; split; [exact Hmn|left; reflexivity]).
    assert (Hc1 : n_content (tr mv mn) = n_content mn).
    { destruct (tr_cases mv mn Hmn) as [(_ & _ & E)|(_ & Hl & _)]; [exact E|].
      rewrite Hcm in Hl. destruct Hl as [Hl|(d & Hl)]; discriminate. }
    unfold item_name_n. rewrite tr_type, Hnamed. unfold short_child. rewrite Hc1, Hcm, (x_D_node s sn Hds Hsn), tr_name, Hname, N.eqb_refl.
    rewrite (x_cdata_s sn Ei Hsn Hname). reflexivity.
  - apply Bool.not_true_is_false in Ei. rewrite Ei. destruct (item_name_n T w1 (tr mv mn)) as [a|] eqn:Ea; [|reflexivity].
    apply item_name_identifiable in Ea. rewrite (x_identifiable_n mv mn (reach_refl T w mv) Hmn) in Ea.
    pose proof Hidf as Hi. unfold identifiable in Hi. rewrite Hmn in Hi. congruence.
Qed.

(* paths from mv downwards are the same in both worlds *)
Lemma x_dpath_D j q : dpath T w1 mv j q <-> dpath T w mv j q.
Proof.
  split.
  - intros Hd. assert (H : dpath T w mv j q /\ D j); [|tauto].
    induction Hd as [|p c q Hp IH Hc]; [split; [constructor|apply reach_refl]|].
    destruct IH as (IH1 & IH2). apply (x_D_child p c IH2) in Hc.
    assert (Hcd : D c) by (eapply reach_step; eauto).
    assert (Hcm : c <> mv) by (intros ->; apply x_sp_notD; rewrite <- (x_mv_unique_parent p Hc); exact IH2).
    rewrite (x_seg_D c Hcd Hcm). split; [econstructor; eauto|exact Hcd].
  - intros Hd. assert (H : dpath T w1 mv j q /\ D j); [|tauto].
    induction Hd as [|p c q Hp IH Hc]; [split; [constructor|apply reach_refl]|].
    destruct IH as (IH1 & IH2).
    assert (Hcd : D c) by (eapply reach_step; eauto).
    assert (Hcm : c <> mv) by (intros ->; apply x_sp_notD; rewrite <- (x_mv_unique_parent p Hc); exact IH2).
    rewrite <- (x_seg_D c Hcd Hcm). split; [econstructor; [exact IH1|apply (x_D_child p c IH2); exact Hc]|exact Hcd].
Qed.
Lemma x_reach_D j : reach T w1 mv j <-> D j.
Proof. split; intros (q & Hd); exists q; apply x_dpath_D; exact Hd. Qed.

Lemma x_ref_text_D r : D r -> ref_text T w1 r = newref r.
Proof.
  intros Hd. destruct (x_D_alloc r Hd) as (nr & Hr). unfold newref, ref_text. rewrite (x_D_node r nr Hd Hr), Hr, tr_type.
  destruct (tr_cases r nr Hr) as [(_ & E2 & Hc)|(Hmode & _ & t & Hc & [(_ & _ & _ & Hname & E2)|(E2 & Hisr)])].
  - rewrite E2, (cdata_of_ext T nr (tr r nr) (tr_type r nr) Hc). reflexivity.
  - rewrite E2, (short_not_ref _ _ Hr Hname). reflexivity.
  - rewrite E2, Hisr. unfold cdata_of, character_data. rewrite Hc, tr_type, Hmode. reflexivity.
Qed.

(* ---------- the virtual world without the subtree: the maps of the source model are already cleaned *)
Definition wx : world :=
  mkWorld (fun j => if mem_id j ids then None else if j =? sp then Some pn1 else w_nodes w j) (w_next w) (w_files w)
          (list_set (w_models w) (N.to_nat ms) xs1).

Lemma wx_in j : D j -> w_nodes wx j = None.
Proof. intros Hd. cbn. apply Hids_D, mem_id_in in Hd. rewrite Hd. reflexivity. Qed.
Lemma wx_notin j : ~ D j -> w_nodes wx j = if j =? sp then Some pn1 else w_nodes w j.
Proof. intros Hd. cbn. destruct (mem_id j ids) eqn:E; [|reflexivity]. apply mem_id_in, Hids_D in E. contradiction. Qed.
Lemma wx_sp : w_nodes wx sp = Some (set_content pn (remove_at (n_content pn) kpos)).
Proof. rewrite (wx_notin sp x_sp_notD), N.eqb_refl. reflexivity. Qed.
Lemma wx_out j : j <> sp -> ~ D j -> w_nodes wx j = w_nodes w j.
Proof. intros H1 H2. rewrite (wx_notin j H2). apply N.eqb_neq in H1. rewrite H1. reflexivity. Qed.
Lemma wx_gone j nj : D j -> w_nodes w j = Some nj -> w_nodes wx j = Some (wipe nj) \/ w_nodes wx j = None.
Proof. intros Hd _. right. apply wx_in. exact Hd. Qed.
Lemma wx_models : w_models wx = list_set (w_models w) (N.to_nat ms) (apply_plan xs K R).
Proof. reflexivity. Qed.
Lemma wx_short : named T (n_type pn) = true -> forall a, w_nodes w mv = Some a -> n_name a <> SHORTN.
Proof. intros _ a Ha. rewrite Hmn in Ha. injection Ha as <-. exact Hmv_not_short. Qed.
Lemma wx_next : w_next wx = w_next w.
Proof. reflexivity. Qed.
Lemma x_reach_sp : MReach T w ms sp.
Proof. eapply specpath_mreach; eauto. Qed.

Lemma wx_tf : TreeFacts wx.
Proof.
  eapply removed_treefacts with (w := w) (h := sp) (sub := mv) (n := pn) (pos := kpos) (m := ms) (x := xs) (K := K) (R := R);
    eauto using wx_sp, wx_out, wx_gone, wx_models, wx_short, wx_next, x_reach_sp.
Qed.
Lemma wx_i4 : Inv04 wx.
Proof.
  eapply removed_inv04 with (w := w) (h := sp) (sub := mv) (n := pn) (pos := kpos) (m := ms) (x := xs) (K := K) (R := R) (pp := spp);
    eauto using wx_sp, wx_out, wx_gone, wx_models, wx_short, x_reach_sp.
Qed.
Lemma wx_i5 : Inv05 T wx.
Proof.
  eapply removed_inv05 with (w := w) (h := sp) (sub := mv) (n := pn) (pos := kpos) (m := ms) (x := xs) (K := K) (R := R);
    eauto using wx_sp, wx_out, wx_gone, wx_models, wx_short, x_reach_sp.
Qed.
Lemma wx_pathset m2 p j : PathSet T wx m2 p j <-> PathSet T w m2 p j /\ ~ D j.
Proof.
  eapply rem_pathset with (h := sp) (n := pn) (pos := kpos) (m := ms) (x := xs) (K := K) (R := R);
    eauto using wx_sp, wx_out, wx_gone, wx_models, wx_short.
Qed.
Lemma wx_specpath m2 j p : ~ D j -> (SpecPath T wx m2 j p <-> SpecPath T w m2 j p).
Proof.
  eapply rem_specpath with (h := sp) (n := pn) (pos := kpos) (m := ms) (x := xs) (K := K) (R := R);
    eauto using wx_sp, wx_out, wx_gone, wx_models, wx_short.
Qed.
Lemma wx_identifiable j : ~ D j -> identifiable T wx j = identifiable T w j.
Proof. eapply rem_identifiable with (h := sp) (n := pn) (pos := kpos); eauto using wx_sp, wx_out, wx_gone, wx_short. Qed.
Lemma x_D_model m2 j : D j -> MReach T w m2 j -> m2 = ms.
Proof. eapply D_model with (h := sp) (n := pn) (pos := kpos); eauto using x_reach_sp. Qed.

Lemma wx_model_m : model_at wx m = Some xm.
Proof. unfold model_at. cbn [wx w_models]. rewrite list_set_nth_neq by lia. exact Hxm. Qed.
Lemma w1_model_m : model_at w1 m = Some xm1.
Proof. eapply (model_at_set_same wx m xm1 w1); [exact Hmodels|exact wx_model_m]. Qed.
Lemma w1_model_other m2 : m2 <> m -> model_at w1 m2 = model_at wx m2.
Proof. intros Hne. exact (model_at_set_other wx m xm1 w1 m2 Hmodels Hne). Qed.

Lemma wx_old_iff j : old wx j <-> (exists nj, w_nodes w j = Some nj) /\ ~ D j.
Proof.
  unfold old. split.
  - intros (nj & Hj). destruct (below_dec T w mv HF j) as [Hd|Hd]; [rewrite (wx_in j Hd) in Hj; discriminate|].
    split; [|exact Hd]. destruct (N.eq_dec j sp) as [->|Hne]; [eauto|]. rewrite (wx_out j Hne Hd) in Hj. eauto.
  - intros ((nj & Hj) & Hd). destruct (N.eq_dec j sp) as [->|Hne]; [rewrite wx_sp; eauto|]. rewrite (wx_out j Hne Hd). eauto.
Qed.
Lemma wx_new_alloc j nj' : ~ old wx j -> w_nodes w1 j = Some nj' -> D j.
Proof.
  intros Hno Hj. destruct (below_dec T w mv HF j) as [Hd|Hd]; [exact Hd|]. exfalso. apply Hno. apply wx_old_iff. split; [|exact Hd].
  destruct (N.eq_dec j sp) as [->|H3]; [eauto|]. destruct (N.eq_dec j self) as [->|H4]; [eauto|].
  rewrite x_w1_out in Hj; eauto.
Qed.
Lemma x_new_D i : ~ old wx i -> (exists ni, w_nodes w i = Some ni) -> D i.
Proof.
  intros Hno Hal. destruct (below_dec T w mv HF i) as [Hd|Hd]; [exact Hd|]. exfalso. apply Hno. apply wx_old_iff. auto.
Qed.
Lemma wx_self : w_nodes wx self = Some n.
Proof. rewrite (wx_out self Hself_sp Hself_out). exact Hn. Qed.
Lemma AX_old j nj : w_nodes wx j = Some nj -> j <> self -> w_nodes w1 j = Some nj.
Proof.
  intros Hj Hne. destruct (below_dec T w mv HF j) as [Hd|Hd]; [rewrite (wx_in j Hd) in Hj; discriminate|].
  destruct (N.eq_dec j sp) as [->|H3]; [rewrite wx_sp in Hj; rewrite x_w1_sp; exact Hj|].
  rewrite (wx_out j H3 Hd) in Hj. rewrite x_w1_out; auto.
Qed.
Lemma AX_newkids p y : child_of w1 p y -> w_nodes wx p = None -> w_nodes wx y = None.
Proof.
  intros Hc Hp. destruct (below_dec T w mv HF p) as [Hd|Hd].
  - apply wx_in. eapply reach_step; [exact Hd|]. apply (x_D_child p y Hd). exact Hc.
  - exfalso. destruct Hc as (np' & Hp' & _).
    destruct (N.eq_dec p sp) as [->|H3]; [rewrite wx_sp in Hp; discriminate|]. rewrite (wx_out p H3 Hd) in Hp.
    destruct (N.eq_dec p self) as [->|H4]; [congruence|].
    rewrite x_w1_out in Hp'; [congruence|exact Hd|exact H3|exact H4].
Qed.
Lemma AX_nshort : n_name n <> SHORTN.
Proof. intros E. destruct (i4_short _ _ _ HI _ _ Hn E) as (Hm & _). contradiction. Qed.
Lemma AX_front : pos = O -> identifiable_n T wx n = false /\
  (named T (n_type n) = true -> forall cn, w_nodes w1 mv = Some cn -> n_name cn <> SHORTN).
Proof.
  intros Hp. split.
  - pose proof (wx_identifiable self Hself_out) as H. unfold identifiable in H. rewrite wx_self, Hn in H. rewrite H.
    pose proof (Hfront_dst Hp) as H0. unfold identifiable in H0. rewrite Hn in H0. exact H0.
  - intros _ cn Hcn. rewrite (x_D_node mv mn (reach_refl T w mv) Hmn) in Hcn. injection Hcn as <-. rewrite tr_name. exact Hmv_not_short.
Qed.
Lemma AX_roots m2 : option_map m_root (model_at w1 m2) = option_map m_root (model_at wx m2).
Proof.
  destruct (N.eq_dec m2 m) as [->|Hne].
  - rewrite w1_model_m, wx_model_m. reflexivity.
  - rewrite (w1_model_other m2 Hne). reflexivity.
Qed.
Lemma wx_dpre : SpecPath T wx m self dpre.
Proof. apply wx_specpath; assumption. Qed.

(* ---------- the three invariants *)
Theorem relocx_treefacts : TreeFacts w1.
Proof.
  eapply attach_treefacts with (w := wx) (self := self) (c := mv) (n := n) (k := pos).
  - exact wx_tf.
  - exact wx_self.
  - exact AX_old.
  - exact x_w1_self.
  - apply wx_in. apply reach_refl.
  - exact AX_newkids.
  - exact Hpos.
  - exact AX_nshort.
  - exact AX_front.
  - exact AX_roots.
  - rewrite Hnext. cbn. lia.
  - exists (tr mv mn). split; [exact (x_D_node mv mn (reach_refl T w mv) Hmn)|apply tr_parent_mv].
  - intros j nj' Hno Hj. pose proof (wx_new_alloc j nj' Hno Hj) as Hd. destruct (x_D_alloc j Hd) as (nj & Hnj).
    rewrite (x_D_node j nj Hd Hnj) in Hj. injection Hj as <-.
    split; [rewrite (tr_elems j nj Hnj); eapply tf_nodup; eauto|]. split; [rewrite Hnext; eapply tf_alloc; eauto|].
    split; [apply x_reach_D; exact Hd|].
    intros y Hy. assert (Hc : child_of w j y) by (apply (x_D_child j y Hd); exists (tr j nj); split; [exact (x_D_node j nj Hd Hnj)|exact Hy]).
    destruct (tf_up _ HF _ _ Hc) as (yn & Hyn & Hyp). assert (Hyd : D y) by (eapply reach_step; eauto).
    exists (tr y yn). split; [exact (x_D_node y yn Hyd Hyn)|]. rewrite tr_parent; [exact Hyp|].
    intros ->. apply x_sp_notD. rewrite <- (x_mv_unique_parent j Hc). exact Hd.
Qed.

Lemma x_src : SpecPath T w ms mv src.
Proof.
  destruct Hspp as (y & Hy & (q0 & Hd0 & E)). exists y. split; [exact Hy|]. exists (q0 ++ seg T w mv).
  split; [econstructor; [exact Hd0|apply x_child_sp]|]. unfold src. rewrite E, app_assoc. reflexivity.
Qed.
Lemma x_D_path j p : D j -> SpecPath T w ms j p -> exists q, dpath T w mv j q /\ p = src ++ q.
Proof.
  intros (q & Hd) Hp. exists q. split; [exact Hd|].
  destruct x_src as (y & Hy & (q0 & Hd0 & E)).
  assert (Hp2 : SpecPath T w ms j (src ++ q)).
  { exists y. split; [exact Hy|]. exists (q0 ++ q). split; [eapply dpath_trans; eauto|]. rewrite E, app_assoc. reflexivity. }
  destruct (specpath_fun T _ _ _ _ _ _ HF Hp Hp2) as (_ & ->). reflexivity.
Qed.
Lemma x_D_specpath j q : dpath T w mv j q -> SpecPath T w ms j (src ++ q).
Proof.
  intros Hd. destruct x_src as (y & Hy & (q0 & Hd0 & E)). exists y. split; [exact Hy|]. exists (q0 ++ q).
  split; [eapply dpath_trans; eauto|]. rewrite E, app_assoc. reflexivity.
Qed.

Theorem relocx_inv04 : Inv04 w1.
Proof.
  pose proof wx_i4 as [S1 S2 S3 S4 S5 S6]. pose proof HI as [I1 I2 I3 IL I4 I5].
  eapply attach_inv04 with (w := wx) (self := self) (c := mv) (n := n) (k := pos) (mm := m) (ps := dpre).
  - exact wx_tf.
  - exact wx_self.
  - exact AX_old.
  - exact x_w1_self.
  - apply wx_in. apply reach_refl.
  - exact AX_newkids.
  - exact Hpos.
  - exact AX_nshort.
  - exact AX_front.
  - exact AX_roots.
  - exact wx_dpre.
  - exact S1.
  - exact S2.
  - exact S3.
  - exact S4.
  - exact Hself_mode.
  - (* side invariants of the nodes of the subtree *)
    intros j nj' Hno Hj. pose proof (wx_new_alloc j nj' Hno Hj) as Hd. destruct (x_D_alloc j Hd) as (nj & Hnj).
    rewrite (x_D_node j nj Hd Hnj) in Hj. injection Hj as <-.
    split; [intros E; rewrite tr_type; rewrite tr_name in E; eapply I1; eauto|]. split; [|split].
    + intros t E Hcd. rewrite tr_name in E.
      destruct (tr_cases j nj Hnj) as [(_ & _ & Hc)|(Hmode & _ & t' & Hc & [(Ei & -> & -> & _)|(_ & Hisr)])].
      * eapply (I2 j nj); eauto. rewrite <- Hcd. symmetry. apply cdata_of_ext; [apply tr_type|exact Hc].
      * rewrite (x_cdata_s nj Ei Hnj E) in Hcd. injection Hcd as <-. exact Hnm.
      * rewrite (short_not_ref _ _ Hnj E) in Hisr. discriminate.
    + intros Hid. destruct (N.eq_dec j mv) as [->|Hjm].
      * rewrite Hmn in Hnj. injection Hnj as <-. pose proof x_seg_mv as Hsg. unfold seg in Hsg.
        rewrite (x_D_node mv mn (reach_refl T w mv) Hmn) in Hsg. unfold seg_n in Hsg.
        destruct (item_name_n T w1 (tr mv mn)); [discriminate|]. exfalso.
        rewrite (x_identifiable_n mv mn (reach_refl T w mv) Hmn) in Hid. pose proof Hidf as Hi. unfold identifiable in Hi. rewrite Hmn in Hi.
        rewrite Hid in Hi. rewrite <- Hi in Hsg. discriminate.
      * destruct (readings_ext T w w1 nj (tr j nj) (tr_type j nj) (x_short_child_D j nj Hd Hjm Hnj)) as (H1 & H2 & _).
        rewrite H1. apply (I3 j nj Hnj). rewrite <- H2. exact Hid.
    + intros Hm. rewrite tr_type in Hm. exact (tr_leaf j nj Hnj Hm).
  - (* the entries of the old elements *)
    intros m2 x2' Hx2' p i Hio. pose proof Hio as Hio'. apply wx_old_iff in Hio' as (_ & Hnd).
    destruct (N.eq_dec m2 m) as [->|Hne].
    + rewrite w1_model_m in Hx2'. injection Hx2' as <-. cbn [xm1 set_origins set_idents m_idents]. rewrite Hidm.
      rewrite <- (S5 m xm wx_model_m p i). split.
      * intros [(Hd & _)|(_ & Hk)]; [contradiction|exact Hk].
      * intros Hk. right. auto.
    + rewrite (w1_model_other m2 Hne) in Hx2'. exact (S5 m2 x2' Hx2' p i).
  - (* the entries of the elements of the subtree *)
    intros m2 x2' Hx2' p i Hno. destruct (N.eq_dec m2 m) as [->|Hne].
    + rewrite w1_model_m in Hx2'. injection Hx2' as <-. cbn [xm1 set_origins set_idents m_idents]. rewrite Hidm.
      rewrite x_seg_mv. fold dest. split.
      * intros [(Hd & q & Hk & ->)|(Hnd & Hk)].
        -- apply (I4 ms xs Hxs) in Hk as (P1 & P2 & P3). destruct (x_D_path i _ Hd P3) as (q' & Hdq & E).
           apply app_inv_head in E. subst q'. split; [reflexivity|]. exists q. split; [apply x_dpath_D; exact Hdq|]. split.
           ++ rewrite (x_identifiable_D i Hd). exact P2.
           ++ unfold dest. rewrite <- app_assoc. reflexivity.
        -- exfalso. apply Hnd. apply x_new_D; [exact Hno|]. apply (I4 m xm Hxm) in Hk as (P1 & _). eapply mreach_alloc; eauto.
      * intros (_ & q & Hdq & Hid & ->). apply x_dpath_D in Hdq. assert (Hd : D i) by (exists q; exact Hdq). left. split; [exact Hd|].
        exists q. split; [|unfold dest; rewrite <- app_assoc; reflexivity]. apply (I4 ms xs Hxs). pose proof (x_D_specpath i q Hdq) as Hsp.
        split; [eapply specpath_mreach; eauto|]. split; [|exact Hsp]. rewrite <- (x_identifiable_D i Hd). exact Hid.
    + rewrite (w1_model_other m2 Hne) in Hx2'. rewrite (S5 m2 x2' Hx2' p i). split.
      * intros (P1 & _). exfalso. apply Hno. eapply mreach_alloc; [exact wx_tf|exact P1].
      * intros (E & _). contradiction.
  - intros m2 x2' Hx2'. destruct (N.eq_dec m2 m) as [->|Hne].
    + rewrite w1_model_m in Hx2'. injection Hx2' as <-. exact Hidm_nd.
    + rewrite (w1_model_other m2 Hne) in Hx2'. apply (S6 m2 x2' Hx2').
Qed.

Lemma x_self_noref : isref T (n_type n) = false.
Proof.
  unfold isref. destruct (is_ref T (n_type n)) as [[|]| |] eqn:E; try reflexivity.
  exfalso. apply Hself_mode. apply (tk_ref _ _ TK _ E).
Qed.

Theorem relocx_inv05 : Inv05 T w1.
Proof.
  pose proof wx_i5 as [IE IT].
  eapply attach_inv05 with (w := wx) (self := self) (c := mv) (n := n) (k := pos) (mm := m) (ps := dpre).
  - exact wx_tf.
  - exact wx_self.
  - exact AX_old.
  - exact x_w1_self.
  - apply wx_in. apply reach_refl.
  - exact AX_newkids.
  - exact Hpos.
  - exact AX_nshort.
  - exact AX_front.
  - exact AX_roots.
  - exact wx_dpre.
  - exact x_self_noref.
  - intros m2 x2' Hx2' p r Hro. pose proof Hro as Hro'. apply wx_old_iff in Hro' as (_ & Hnd).
    destruct (N.eq_dec m2 m) as [->|Hne].
    + rewrite w1_model_m in Hx2'. injection Hx2' as <-. rewrite Horm.
      destruct (IE m xm wx_model_m p) as (_ & H). rewrite <- H. split; [intros [Hk|(Hd & _)]; [exact Hk|contradiction]|auto].
    + rewrite (w1_model_other m2 Hne) in Hx2'. destruct (IE m2 x2' Hx2' p) as (_ & H). exact (H r).
  - intros m2 x2' Hx2' p r Hno. destruct (N.eq_dec m2 m) as [->|Hne].
    + rewrite w1_model_m in Hx2'. injection Hx2' as <-. rewrite Horm. split.
      * intros [Hk|(Hd & Ht)].
        -- exfalso. destruct (IE m xm wx_model_m p) as (_ & H). apply H in Hk as (Hm & _). apply Hno. eapply mreach_alloc; [exact wx_tf|exact Hm].
        -- split; [reflexivity|]. split; [apply x_reach_D; exact Hd|]. rewrite (x_ref_text_D r Hd). exact Ht.
      * intros (_ & Hr & Ht). apply x_reach_D in Hr. right. split; [exact Hr|]. rewrite <- (x_ref_text_D r Hr). exact Ht.
    + rewrite (w1_model_other m2 Hne) in Hx2'. destruct (IE m2 x2' Hx2' p) as (_ & H). rewrite (H r). split.
      * intros (Hm & _). exfalso. apply Hno. eapply mreach_alloc; [exact wx_tf|exact Hm].
      * intros (E & _). contradiction.
  - intros m2 x2' p Hx2'. destruct (N.eq_dec m2 m) as [->|Hne].
    + rewrite w1_model_m in Hx2'. injection Hx2' as <-. apply Horm_nd.
    + rewrite (w1_model_other m2 Hne) in Hx2'. apply (IE m2 x2' Hx2' p).
  - intros m2 x2' Hx2'. destruct (N.eq_dec m2 m) as [->|Hne].
    + rewrite w1_model_m in Hx2'. injection Hx2' as <-. exact Horm_tidy.
    + rewrite (w1_model_other m2 Hne) in Hx2'. apply (IT m2 x2' Hx2').
Qed.

Theorem relocx_j5 : TreeFacts w1 /\ Inv04 w1 /\ Inv05 T w1.
Proof. exact (conj relocx_treefacts (conj relocx_inv04 relocx_inv05)). Qed.

End RelocX.
