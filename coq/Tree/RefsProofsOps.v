(* Tree/RefsProofsOps.v — C05, assembly.
   [P] C05_inv_partial      every operation outside Known04/Known05 (findings) and Pending05 keeps Inv05 (given Inv04)
   [P] C05_history_partial  ... along every history (Inv04 /\ Inv05 together)
   [P] C45_inv_partial      Inv04 /\ Inv05 together, incl. set_item_name
   Pending05 (constructor list): OpCopy OpCopyAt OpMove OpMoveAt OpSetItemName, OpRemoveFile of the last file of a model;
   Pending45 (for the combination): OpCopy OpCopyAt OpMove OpMoveAt, OpRemoveFile of the last file of a model. *)
From Coq Require Import PeanoNat Arith.
From AV Require Import Base.Bytes Base.Outcome Hash.HashModel Tree.Heap Tree.Ops Tree.Script Tree.IndexProofsW
  Tree.Index Tree.IndexProofsBase Tree.IndexProofsAssoc Tree.IndexProofsFrame Tree.IndexProofsAttach
  Tree.IndexProofsCreate Tree.IndexProofsNamed Tree.IndexProofsEdit Tree.IndexProofsModel Tree.IndexProofsRemoveOp Tree.IndexProofsFilesOps Tree.IndexProofs
  Tree.Refs Tree.RefsProofsBase Tree.RefsProofs Tree.RefsProofsReport Tree.RefsProofsCreate Tree.RefsProofsEdit
  Tree.RefsProofsSetName.
Open Scope string_scope.
Open Scope list_scope.
Open Scope N_scope.

Section C05.
Variable T : tables.
Variable tab_el tab_en : nametab.
Variable check_fn : N -> list N -> res bool.
Variable LATEST : N.
Variable root_attrs : list (N * cdata).
Hypothesis TK : TablesOK T check_fn.

Notation Inv04 := (Inv04 T check_fn).
Notation run := (run_op T tab_el tab_en check_fn LATEST root_attrs).
Notation Known05 := (Known05 T tab_el tab_en check_fn LATEST root_attrs).

Theorem C05_new_model w r w' :
  TreeFacts w -> Inv05 T w -> new_model T root_attrs w = Val (r, w') -> Inv05 T w'.
Proof.
  intros HF [IE IT] H. unfold new_model in H.
  destruct (et_new T (autosar_element T)) as [ty| |] eqn:Ety; try discriminate.
  2:{ destruct (elem T (autosar_element T)); discriminate. }
  destruct (elem T (autosar_element T)) as [ed| |] eqn:Eed; try discriminate.
  injection H as <- <-.
  set (rid := w_next w). set (nr := mkNode (PModel (N.of_nat (List.length (w_models w)))) (ed_name ed) ty [] root_attrs [] None).
  assert (Hr : w_nodes w rid = None).
  { destruct (w_nodes w rid) as [x|] eqn:E; [|reflexivity]. pose proof (tf_alloc _ HF _ _ E). unfold rid in *. lia. }
  constructor.
  - intros m x Hx p. unfold model_at in Hx. cbn [w_models] in Hx.
    destruct (Nat.lt_ge_cases (N.to_nat m) (List.length (w_models w))) as [Hlt|Hge].
    + rewrite nth_opt_app_l in Hx by exact Hlt. destruct (IE m x Hx p) as (H1 & H2). split; [exact H1|].
      intros i. rewrite H2. symmetry.
      apply (fresh_refset T w rid nr (rid + 1) _ HF Hr eq_refl m x p i); [|exact Hx].
      unfold model_at. cbn [w_models]. rewrite nth_opt_app_l by exact Hlt. exact Hx.
    + rewrite nth_opt_app_r in Hx by exact Hge. destruct (N.to_nat m - List.length (w_models w))%nat as [|k] eqn:Ek; cbn in Hx.
      2:{ destruct k; discriminate. }
      injection Hx as <-. unfold origins_of. cbn. split; [constructor|]. intros i. split; [intros []|].
      intros ((x1 & Hx1 & (q & Hd)) & Ht). exfalso.
      unfold model_at in Hx1. cbn [w_models] in Hx1. rewrite nth_opt_app_r, Ek in Hx1 by exact Hge. cbn in Hx1. injection Hx1 as <-.
      cbn [m_root] in Hd. apply (fresh_dpath_self T w rid nr (rid + 1) _ eq_refl) in Hd. subst i.
      rewrite (fresh_ref_text_self T w rid nr (rid + 1) _ eq_refl) in Ht. discriminate.
  - intros m x Hx. unfold model_at in Hx. cbn [w_models] in Hx.
    destruct (Nat.lt_ge_cases (N.to_nat m) (List.length (w_models w))) as [Hlt|Hge].
    + rewrite nth_opt_app_l in Hx by exact Hlt. apply (IT m x Hx).
    + rewrite nth_opt_app_r in Hx by exact Hge. destruct (N.to_nat m - List.length (w_models w))%nat as [|k] eqn:Ek; cbn in Hx.
      2:{ destruct k; discriminate. }
      injection Hx as <-. split; [constructor|]. intros p l [].
Qed.

Theorem C05_inv_partial w o r w' :
  TreeFacts w -> Inv04 w -> Inv05 T w ->
  Known04 T LATEST w o = false -> Known05 w o = false -> Pending05 w o = false ->
  run o w = Val (r, w') -> Inv05 T w'.
Proof.
  intros HF HI4 HI5 HK4 HK5 HP H. destruct o; cbn [run_op] in H; try discriminate HP.
  - apply welem_inv in H as (r0 & H). eapply inv05_leaf_shape; eauto.
    apply (e_create_sub_shape T check_fn LATEST TK (OpCreateSub h name) w r0 w' HF HI4 HK4 H).
  - apply welem_inv in H as (r0 & H). eapply inv05_leaf_shape; eauto.
    apply (e_create_sub_shape T check_fn LATEST TK (OpCreateSubAt h name pos) w r0 w' HF HI4 HK4 H).
  - apply welem_inv in H as (r0 & H).
    destruct (e_create_named_shape T check_fn LATEST TK (OpCreateNamed h name item) w r0 w' HF HI4 HK4 H) as (m & Hs).
    eapply inv05_named_shape; eauto.
  - apply welem_inv in H as (r0 & H).
    destruct (e_create_named_shape T check_fn LATEST TK (OpCreateNamedAt h name item pos) w r0 w' HF HI4 HK4 H) as (m & Hs).
    eapply inv05_named_shape; eauto.
  - apply wunit_inv in H as (r0 & H). eapply C05_remove; eauto.
  - apply wunit_inv in H as (r0 & H). eapply C05_remove_kind; eauto.
  - apply wunit_inv in H as (r0 & H). eapply C05_set_cdata; eauto.
  - apply wunit_inv in H as (r0 & H). eapply C05_remove_cdata; eauto.
  - apply wunit_inv in H as (r0 & H). eapply C05_insert_citem; eauto.
  - apply wunit_inv in H as (r0 & H). eapply C05_remove_citem; eauto.
  - apply wunit_inv in H as (r0 & H). eapply C05_set_reference_target; eauto.
  - apply wunit_inv in H as (r0 & H). eapply Inv05_sv; [eapply e_set_attribute_sv; eauto|exact HI5].
  - apply wval_inv in H as (r0 & H). eapply Inv05_sv; [eapply e_remove_attribute_sv; eauto|exact HI5].
  - apply wunit_inv in H as (r0 & H). eapply Inv05_sv; [eapply e_set_comment_sv; eauto|exact HI5].
  - apply welem_inv in H as (r0 & H). eapply inv05_leaf_shape; eauto.
    apply (e_create_sub_shape T check_fn LATEST TK (OpGetOrCreate h name) w r0 w' HF HI4 HK4 H).
  - apply welem_inv in H as (r0 & H).
    destruct (e_create_named_shape T check_fn LATEST TK (OpGetOrCreateNamed h name item) w r0 w' HF HI4 HK4 H) as (m & Hs).
    eapply inv05_named_shape; eauto.
  - apply wval_inv in H as (r0 & H). eapply C05_new_model; eauto.
  - apply wval_inv in H as (r0 & H). eapply Inv05_sv; [eapply m_create_file_sv; eauto|exact HI5].
  - apply wunit_inv in H as (r0 & H).
    destruct (C45_remove_file T check_fn TK LATEST true _ _ _ _ _ HF HI4 (fun _ => HI5) HK4 H) as (_ & _ & H5). apply H5. reflexivity.
  - apply wunit_inv in H as (r0 & H). eapply Inv05_sv; [eapply e_add_to_file_sv; eauto|exact HI5].
  - apply wunit_inv in H as (r0 & H).
    destruct (C45_remove_from_file T check_fn TK LATEST true _ _ _ _ _ HF HI4 (fun _ => HI5) HK4 H) as (_ & _ & H5). apply H5. reflexivity.
Qed.

(* ---------- C04 and C05 together: one step (set_item_name needs both invariants) *)
Theorem C45_inv_partial w o r w' :
  TreeFacts w -> Inv04 w -> Inv05 T w ->
  Known04 T LATEST w o = false -> Known05 w o = false -> Pending45 w o = false ->
  run o w = Val (r, w') -> Inv04 w' /\ Inv05 T w'.
Proof.
  intros HF HI4 HI5 HK4 HK5 HP H.
  destruct (Pending04 w o) eqn:E4.
  - (* the only constructor pending for C04 alone but not for the combination *)
    destruct o; try discriminate E4; try discriminate HP; try (cbn in E4, HP; congruence).
    cbn [run_op] in H. apply wunit_inv in H as (r0 & H).
    destruct (C45_set_item_name T check_fn LATEST TK _ _ _ _ _ HF HI4 HI5 H) as (_ & H1 & H2). auto.
  - assert (E5 : Pending05 w o = false) by (destruct o; try reflexivity; try discriminate; exact E4).
    split; [eapply C04_inv_partial; eauto|eapply C05_inv_partial; eauto].
Qed.

(* ---------- all histories *)
Fixpoint steps_ok5 (l : list op) (w : world) : Prop :=
  match l with
  | [] => True
  | o :: rest =>
    TreeFacts w /\ Known04 T LATEST w o = false /\ Known05 w o = false /\ Pending45 w o = false /\
    match run o w with Val (_, w') => steps_ok5 rest w' | _ => True end
  end.

Theorem C05_history_partial l : forall w w',
  Inv04 w -> Inv05 T w -> steps_ok5 l w ->
  run_hist T tab_el tab_en check_fn LATEST root_attrs l w = Val w' -> Inv04 w' /\ Inv05 T w'.
Proof.
  induction l as [|o rest IH]; intros w w' HI4 HI5 Hok H; cbn in *.
  - injection H as <-. auto.
  - destruct Hok as (HF & HK4 & HK5 & HP & Hrest). destruct (run o w) as [[r w1]| |] eqn:E; try discriminate.
    destruct (C45_inv_partial w o r w1 HF HI4 HI5 HK4 HK5 HP E) as (H1 & H2).
    eapply IH; eauto.
Qed.

Lemma Inv05_empty : Inv05 T (mkWorld (fun _ => None) 0 [] []).
Proof. constructor; intros m x Hx; unfold model_at in Hx; cbn in Hx; discriminate. Qed.

End C05.
