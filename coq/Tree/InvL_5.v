(* GENERATED from InvProofsDetFiles5.v by tools/c03_gen_invL.py: the same proof for DFL over TreeInvL, see Tree/InvL_Base.v *)
(* Tree/InvProofsDetFiles5.v — C03: DFL is preserved, part 5: copies, file operations, rename; the theorem. *)
From Coq Require Import PeanoNat Arith.
From AV Require Import Base.Bytes Base.Outcome Hash.HashModel Tree.Heap Tree.Ops Tree.Script Tree.Inv
  Tree.InvProofsBase Tree.InvProofsCore Tree.InvProofsTree Tree.InvProofsPrim Tree.InvEBase Tree.InvE_Create Tree.InvE_Remove Tree.InvE_Files Tree.InvE_Move Tree.InvE_Copy Tree.InvE_Main Tree.Load Tree.InvL_Base Tree.InvProofsCreate
  Tree.InvProofsData Tree.InvProofsRefs Tree.InvProofsRemove Tree.InvProofsFiles Tree.InvProofsMove
  Tree.InvProofsCopy Tree.InvProofsRename Tree.InvProofsFrame Tree.StaleProofs Tree.InvProofs
  Tree.InvProofsDetFiles Tree.InvProofsDetFiles2 Tree.InvProofsDetFiles3 Tree.InvL_3 Tree.InvProofsDetFiles4 Tree.InvL_4.
Open Scope string_scope.
Open Scope list_scope.
Open Scope N_scope.

Notation pframe := (frame pfNR pfNN).
Notation pfp := (frp pfNR pfNN).

(* ------------------------------------------------------------------ nodes allocated by deep_copy carry no file set *)
Definition NoFilesFromL (lo : N) (w : world) : Prop := forall x n, lo <= x -> w_nodes w x = Some n -> n_files n = [].
Definition NFpL {A} (lo : N) (m : W A) : Prop := forall w r w', NoFilesFromL lo w -> m w = Val (r, w') -> NoFilesFromL lo w'.

Lemma NFp_roL {A} lo (m : W A) : ro m -> NFpL lo m.
Proof. intros H w r w' P E. apply H in E. subst. auto. Qed.
Lemma NFp_bindL {A B} lo (m : W A) (k : A -> W B) : NFpL lo m -> (forall a, NFpL lo (k a)) -> NFpL lo (wbind m k).
Proof.
  intros Hm Hk w r w' P H. apply wbind_inv in H as [(a & w1 & H1 & H2) | (e & H1 & _)].
  - eapply Hk; [eapply Hm|]; eauto.
  - eapply Hm; eauto.
Qed.
Lemma NFp_tryL {A} lo (m : W A) : NFpL lo m -> NFpL lo (wtry m).
Proof. intros Hm w r w' P H. apply wtry_inv in H as (r0 & H & _). eapply Hm; eauto. Qed.
Lemma NFp_allocL lo n : n_files n = [] -> NFpL lo (alloc n).
Proof.
  intros Hf w r w' P H. apply alloc_walloc in H as (_ & ->). intros x nx Hx Hnx.
  destruct (N.eq_dec x (w_next w)) as [->|Hne].
  - rewrite nodes_walloc_new in Hnx. congruence.
  - rewrite nodes_walloc_old in Hnx by auto. eauto.
Qed.
Lemma NFp_modify_nodeL lo i f : (forall n, n_files (f n) = n_files n) -> NFpL lo (modify_node i f).
Proof.
  intros Hf w r w' P H. apply modify_node_wset in H as (n & Hn & _ & ->). intros x nx Hx Hnx.
  destruct (N.eq_dec x i) as [->|Hne].
  - rewrite nodes_wset_eq in Hnx. injection Hnx as <-. rewrite Hf. eauto.
  - rewrite nodes_wset_neq in Hnx by auto. eauto.
Qed.

Section DF5.
Variable T : tables.
Variable tab_el tab_en : nametab.
Variable check_fn : N -> list N -> res bool.
Variable LATEST : N.
Variable root_attrs : list (N * cdata).

Lemma NFp_itemsL lo f ty version c :
  (forall src ver, NFpL lo (deep_copy T f src ver)) -> forall l, NFpL lo (items_loop T f ty version c l).
Proof.
  intros IHf. induction l as [|[s|d] l IH]; cbn [items_loop].
  - apply NFp_roL. ro_tac.
  - apply NFp_bindL; [apply NFp_roL; ro_tac|]. intros sn.
    apply NFp_bindL; [apply NFp_roL; ro_tac|]. intros [x|]; [|exact IH].
    apply NFp_bindL; [apply NFp_tryL, IHf|]. intros [cs|]; [|exact IH].
    apply NFp_bindL; [apply NFp_modify_nodeL; intros; reflexivity|]. intros _.
    apply NFp_bindL; [apply NFp_modify_nodeL; intros; reflexivity|]. intros _. exact IH.
  - apply NFp_bindL; [apply NFp_modify_nodeL; intros; reflexivity|]. intros _. exact IH.
Qed.

Lemma NFp_deep_copyL lo f : forall src ver, NFpL lo (deep_copy T f src ver).
Proof.
  induction f as [|f IHf]; intros src ver; [intros w r w' _ H; discriminate|].
  change (deep_copy T (S f) src ver) with
    (do n <- get_node src;
     do c <- alloc (mkNode PNone (n_name n) (n_type n) [] [] [] (n_comment n));
     do attrs <- copy_attrs T (n_type n) ver (n_attrs n) [];
     modify_node c (fun x => set_attrs x attrs);;
     items_loop T f (n_type n) ver c (n_content n);;
     wret c)%W.
  apply NFp_bindL; [apply NFp_roL; ro_tac|]. intros n.
  apply NFp_bindL; [apply NFp_allocL; reflexivity|]. intros c.
  apply NFp_bindL; [apply NFp_roL; ro_tac|]. intros attrs.
  apply NFp_bindL; [apply NFp_modify_nodeL; intros; reflexivity|]. intros _.
  apply NFp_bindL; [apply NFp_itemsL; exact IHf|]. intros _. apply NFp_roL. ro_tac.
Qed.

(* deep_copy keeps the parent/files frame of the start world *)
Lemma deep_copy_pframeL f src ver w r w' : Core w -> deep_copy T f src ver w = Val (r, w') -> pframe w w'.
Proof.
  intros C H. pose proof H as H0. apply deep_copy_spec in H0 as (_ & _ & (X1 & X2 & X3) & _); try exact C; try exact check_fn; try exact LATEST.
  assert (P : NoFilesFromL (w_next w) w).
  { intros x n Hx Hn. assert (Ha : allocated w x) by (eexists; eauto). apply C in Ha. lia. }
  pose proof (NFp_deep_copyL (w_next w) f src ver _ _ _ P H) as P'.
  split.
  - intros i Hi. assert (Ha : allocated w i) by (destruct (w_nodes w i) as [n0|] eqn:E; [exists n0; auto | congruence]).
    apply C in Ha. rewrite X3; auto.
  - intros i n' Hn'. destruct (N.lt_ge_cases i (w_next w)) as [Hlt|Hge].
    + left. rewrite X3 in Hn' by auto. exists n'. split; auto. apply pfNR_refl.
    + right. split; [|eapply P'; eauto].
      destruct (w_nodes w i) eqn:E; auto. assert (Ha : allocated w i) by (eexists; eauto). apply C in Ha. lia.
Qed.

(* ---------- create_copied_sub_element ---------- *)
Lemma copied_inner_dfL self other pos m version w r w' :
  Core w -> DFL w -> create_copied_sub_element_inner T self other pos m version w = Val (r, w') -> DFL w'.
Proof.
  intros C D H. unfold create_copied_sub_element_inner in H.
  wrun_ro H ltac:(exact D).
  wstepn H c Ed.
  2:{ exact (DFL_pframe _ _ C (deep_copy_pframeL _ _ _ _ _ _ C Ed) D). }
  pose proof (deep_copy_pframeL _ _ _ _ _ _ C Ed) as F1.
  pose proof Ed as Ed0. apply deep_copy_spec in Ed0 as (C1 & _ & (X1 & X2 & X3) & -> & Hcn & nc & Hnc & Hpc);
    try exact C; try exact check_fn; try exact LATEST.
  match type of Ed with _ = Val (_, ?wx) => rename wx into w1 end.
  assert (D1 : DFL w1) by (exact (DFL_pframe _ _ C F1 D)).
  wrun_ro H ltac:(exact D1).
  wstepn H u Em. apply modify_node_wset in Em as (nc' & Hnc' & _ & ->). assert (nc' = nc) as -> by congruence.
  set (c := w_next w) in *. set (w2 := wset w1 c _) in *.
  match goal with Hs : w_nodes w self = Some ?n0 |- _ => rename n0 into ns; rename Hs into Hself end.
  assert (Hself1 : w_nodes w1 self = Some ns) by (rewrite X3; auto; apply C; eexists; eauto).
  assert (Hlt : self < c) by (apply C; eexists; eauto).
  assert (Hi : skel w1 c = Some (PNone, kids nc)) by (rewrite (skel_some _ _ _ Hnc), Hpc; auto).
  assert (Hi' : skel w2 c = Some (PElem self, kids nc)) by (unfold w2; rewrite skel_wset_eq; reflexivity).
  assert (Hun1 : forall p, ~ lists w1 p c) by (eapply pnone_unlisted; eauto).
  assert (C2 : Core w2).
  { eapply (core_reparent w1 w2 c); eauto using upd1_wset; [congruence | eexists; eauto |].
    intros Ha. pose proof (old_ancestors w w1 c self C X3 Ha Hlt). unfold c in *. lia. }
  assert (D2 : DFL w2) by (unfold w2; apply DF_reparent_topL; auto).
  clearbody w2.
  apply (DFL_pframe _ _ C2); [|exact D2].
  match type of H with ?mm ?wa = _ => refine ((_ : pfp mm) wa _ _ H) end. pf_tac.
Qed.

Lemma e_copied_dfL h other w r w' :
  Core w -> DFL w -> e_create_copied_sub_element T LATEST h other w = Val (r, w') -> DFL w'.
Proof.
  intros C D H. unfold e_create_copied_sub_element, raw_create_copied_sub_element in H.
  wrun_ro H ltac:(exact D). eapply copied_inner_dfL; eauto.
Qed.
Lemma e_copied_at_dfL h other pos w r w' :
  Core w -> DFL w -> e_create_copied_sub_element_at T LATEST h other pos w = Val (r, w') -> DFL w'.
Proof.
  intros C D H. unfold e_create_copied_sub_element_at, raw_create_copied_sub_element_at in H.
  wrun_ro H ltac:(exact D). eapply copied_inner_dfL; eauto.
Qed.

(* ---------- file sets are only assigned to elements that hang below a model root ---------- *)
Lemma top_same_treeL w w' : same_tree w w' -> forall x t, Top w x t -> Top w' x t.
Proof.
  intros (_ & _ & Hs) x t Ht. induction Ht as [x n Hn Hnp | x n p t Hn Hp Ht IH].
  - pose proof (skel_some _ _ _ Hn) as E. rewrite <- Hs in E. apply skel_inv in E as (n' & Hn' & Hp' & _).
    rewrite <- Hp'. eapply T_here; eauto. rewrite Hp'. auto.
  - pose proof (skel_some _ _ _ Hn) as E. rewrite <- Hs in E. apply skel_inv in E as (n' & Hn' & Hp' & _).
    eapply T_up; eauto. congruence.
Qed.

Lemma DF_set_filesL w x n n' m0 :
  w_nodes w x = Some n -> n_parent n' = n_parent n -> kids n' = kids n -> Top w x (PModel m0) -> DFL w ->
  DFL (wset w x n').
Proof.
  intros Hn Hp Hk Ht D y ny Hd Hny.
  pose proof (st_wset w x n n' Hn Hp Hk) as ST.
  pose proof (top_same_treeL _ _ (same_tree_sym _ _ ST) _ _ Hd) as Hd0.
  destruct (N.eq_dec y x) as [->|Hyx].
  - pose proof (top_fun _ _ _ Hd0 _ Ht). discriminate.
  - rewrite nodes_wset_neq in Hny by auto. eapply D; eauto.
Qed.

(* same tree as the start world, and DFL *)
Definition SDL (w0 wk : world) : Prop := same_tree w0 wk /\ DFL wk.

Lemma SD_modifyL w0 wk x f r wk' m0 :
  SDL w0 wk -> Top w0 x (PModel m0) -> (forall n, n_parent (f n) = n_parent n /\ kids (f n) = kids n) ->
  modify_node x f wk = Val (r, wk') -> SDL w0 wk'.
Proof.
  intros (ST & D) Ht Hf H. apply modify_node_wset in H as (n & Hn & _ & ->). destruct (Hf n) as (Hp & Hk). split.
  - eapply same_tree_trans; [exact ST|]. eapply st_wset; eauto.
  - eapply DF_set_filesL; eauto. eapply top_same_treeL; eauto.
Qed.

Definition files_kids_loopL (cur : list N) : list citem -> W unit :=
  fix kids (l : list citem) : W unit :=
    match l with
    | [] => wret tt
    | CElem c :: rest =>
      (modify_node c (fun x => if is_empty (n_files x) then set_files x cur else x);; kids rest)%W
    | CData _ :: rest => kids rest
    end.

Lemma atfr_kidsL w0 e n0 m0 cur : Core w0 -> w_nodes w0 e = Some n0 -> Top w0 e (PModel m0) ->
  forall l, (forall c, In c (elems l) -> In c (kids n0)) ->
  forall wk r w', SDL w0 wk -> files_kids_loopL cur l wk = Val (r, w') -> SDL w0 w' /\ r = OK tt.
Proof.
  intros C Hn0 Ht. induction l as [|[c|d] l IHl]; intros Hin wk r w' S H; cbn [files_kids_loopL] in H.
  - winv H. auto.
  - wstepn H u1 Em.
    assert (Htc : Top w0 c (PModel m0)).
    { assert (Hl : lists w0 e c) by (exists n0; split; auto; apply Hin; rewrite elems_cons_elem; left; auto).
      apply C in Hl. destruct Hl as (nc & Hnc & Hpc). eapply T_up; eauto. }
    eapply IHl; [intros c' Hc'; apply Hin; rewrite elems_cons_elem; right; auto | | exact H].
    eapply (SD_modifyL w0 wk c (fun x => if is_empty (n_files x) then set_files x cur else x)); [exact S | exact Htc | | exact Em].
    intros nx. destruct (is_empty (n_files nx)); split; reflexivity.
  - eapply IHl; eauto.
Qed.

Lemma atfr_dfL fuel : forall e f w0 wk r w' m0,
  Core w0 -> SDL w0 wk -> Top w0 e (PModel m0) ->
  add_to_file_restricted T fuel e f wk = Val (r, w') -> SDL w0 w'.
Proof.
  induction fuel as [|fl IH]; intros e f w0 wk r w' m0 C S Ht H; cbn [add_to_file_restricted] in H; [discriminate|].
  wstepn H fm Ef. destruct (match fm with Some x => x | None => (true, []) end) as [local cur].
  destruct (set_mem f cur); [winv H; auto|].
  wstepn H nq En; winv En. wstepn H sq Es; winv Es.
  match goal with Hq : w_nodes wk e = Some ?nx |- _ => rename nx into n; rename Hq into Hn end.
  match goal with Hq : splittable T (n_type n) = Val ?vx |- _ => rename vx into v end.
  assert (Hn0 : exists n0, w_nodes w0 e = Some n0 /\ n_parent n0 = n_parent n /\ kids n0 = kids n).
  { destruct S as ((_ & _ & Hs) & _). pose proof (skel_some _ _ _ Hn) as E. rewrite Hs in E.
    apply skel_inv in E as (n0 & ? & ? & ?). eauto. }
  destruct Hn0 as (n0 & Hn0 & Hp0 & Hk0).
  assert (KL : forall wa ra wb,
             (if negb (v =? 0) then files_kids_loopL cur (n_content n) else wret tt) wa = Val (ra, wb) ->
             SDL w0 wa -> SDL w0 wb /\ ra = OK tt).
  { intros wa ra wb Ek Sa. destruct (negb (v =? 0)); [|winv Ek; auto].
    eapply (atfr_kidsL w0 e n0 m0 cur C Hn0 Ht (n_content n)); eauto. intros c Hc. rewrite Hk0. exact Hc. }
  wstepn H u Ek.
  2:{ destruct (KL _ _ _ Ek S) as (_ & [=]). }
  destruct (KL _ _ _ Ek S) as (S1 & _).
  wstepn H ps Ep.
  wstepn H u2 Em.
  2:{ exfalso. destruct (ps || local); [prim_noerr Em | winv Em]. }
  match type of Em with _ = Val (_, ?wx) => rename wx into wm end.
  assert (S2 : SDL w0 wm).
  { destruct (ps || local); [|winv Em; auto].
    eapply (SD_modifyL w0 _ e (fun x => set_files x (set_add f cur))); [exact S1 | exact Ht | | exact Em].
    intros nx. split; reflexivity. }
  wstepn H p Epp. unfold parent_of in Epp. destruct (n_parent n) as [|mm|pi] eqn:Hpn; winv Epp.
  - winv H. auto.
  - assert (Htpi : Top w0 pi (PModel m0)).
    { remember (PModel m0) as t eqn:Et. destruct Ht as [x nx Hnx Hnp | x nx p t Hnx Hpx Ht].
      - assert (nx = n0) as -> by congruence. exfalso. eapply Hnp. rewrite Hp0. eauto.
      - assert (nx = n0) as -> by congruence. subst t. assert (p = pi) as -> by congruence. auto. }
    exact (IH pi f w0 wm r w' m0 C S2 Htpi H).
  - exact S2.
  - exact S1.
Qed.

End DF5.
