(* Tree/NoPanicProofsOp3Hist.v — C12 (panic / loop half): histories over the large alphabet op2 WITH AutosarModel::duplicate as a step.
   D = H2 /\ FilesOwned (Tree/NoPanicProofsDup.v) is kept by, and makes total, every operation of covered_step3 = all of op2
   but OpLoad.  For OpDuplicate m the client side (op3_wfh) is: the model exists, SizeOk at each of its copies (dup_sized), and
   the call SUCCEEDS — a failing duplicate returns as well (C12_duplicate_total) but drops the copy's model record and leaves
   its root with the parent link `PModel c` (agent-c13's class dup_failed), after which the invariant would have to speak
   about nodes no handle can reach.  PENDING as a step: OpLoad. *)
From Coq Require Import Lia PeanoNat.
From AV Require Import Base.Bytes Base.Outcome Hash.HashModel Spec.SpecOps Xml.TablesOk Tree.Heap Tree.Ops Tree.Script Tree.Script2 Tree.Copy Tree.Inv.
From AV Require Import Tree.InvProofsBase Tree.InvProofs Tree.SortProofsReadyV Tree.IndexProofsNodeInv Tree.CompatHist1 Tree.Files.
From AV Require Import Tree.NoPanic Tree.NoPanicProofsBase Tree.NoPanicProofsCopy2 Tree.NoPanicFloat Tree.NoPanicProofsHist
  Tree.NoPanicProofsOp2 Tree.NoPanicProofsFiles Tree.NoPanicProofsSerFile Tree.NoPanicProofsOp2Hist Tree.NoPanicProofsDup Tree.NoPanicProofsDupHist.
Open Scope string_scope.
Open Scope list_scope.
Open Scope N_scope.

Definition covered_step3 (o : op2) : bool := match o with OpLoad _ _ _ _ => false | _ => true end.
Lemma coverage_step3 o : covered_step3 o = match o with OpLoad _ _ _ _ => false | _ => true end.
Proof. reflexivity. Qed.

Section Hist3.
Variable T : tables.
Variable tab_el tab_at tab_en : nametab.
Variable check_fn : N -> list N -> res bool.
Variable float_parse : list N -> option N.
Variable fmt : N -> list N.
Variable LATEST name_index name_definition_ref attr_schema_location : N.
Variable root_attrs : list (N * cdata).

(* the client side of one call inside a history *)
Definition op3_wfh (w : world) (o : op2) : Prop :=
  match o with
  | OpDuplicate m =>
    m < N.of_nat (List.length (w_models w)) /\ dup_sized T LATEST root_attrs m w /\
    forall e w', m_duplicate T tab_el tab_en check_fn LATEST root_attrs m w <> Val (ER e, w')
  | OpLoad _ _ _ _ => False
  | _ => op2_wfh tab_el tab_en w o
  end.

Hypothesis OK12 : tables_ok12 T = true.
Hypothesis CHECK : forall fn s, exists b, check_fn fn s = Val b.
Hypothesis EN_OK : nametab_ok tab_en = true.
Hypothesis SHORT_OK : name_ok tab_el (name_short_name T).
Hypothesis NamesOK : forall i e, i < n_elements T -> T_elements T i = Some e -> to_str tab_el (ed_name e) <> None.
Hypothesis EnumsOK : forall k items it, T_cdata T k = Some (CEnum items) -> In it items -> to_str tab_en (fst it) <> None.
Hypothesis AttrsOK : forall k name cdid req, T_attributes T k = Some (name, cdid, req) -> to_str tab_at name <> None.
Hypothesis RootOK : attrV tab_at tab_en root_attrs.
Hypothesis TKr : forall ty cs v ver, is_ref T ty = Val true -> chardata_spec T ty = Val (Some cs) ->
  check_value check_fn v cs ver = Val true -> exists s, v = DString s.
Hypothesis RootTy : forall ty, et_new T (autosar_element T) = Val ty -> plainty T ty.
Hypothesis HM : MaskOK T.

Notation D := (D T tab_el tab_at tab_en).
Notation run2F := (run_op2F T tab_el tab_at tab_en check_fn float_parse fmt LATEST name_index name_definition_ref
                            attr_schema_location root_attrs).
Notation run_ops2F' := (run_ops2F T tab_el tab_at tab_en check_fn float_parse fmt LATEST name_index name_definition_ref
                                  attr_schema_location root_attrs).

Fixpoint wf_ops3 (l : list op2) (w : world) : Prop :=
  match l with
  | [] => True
  | o :: r => covered_step3 o = true /\ op3_wfh w o /\ forall x w', run2F o w = Val (x, w') -> wf_ops3 r w'
  end.

Theorem step3 o w : covered_step3 o = true -> op3_wfh w o -> D w ->
  exists x w', run2F o w = Val (x, w') /\ D w'.
Proof.
  intros COV WF HD.
  assert (Gen : covered_step2 o = true -> op2_wfh tab_el tab_en w o -> exists x w', run2F o w = Val (x, w') /\ D w').
  { intros COV2 WF2. destruct HD as (I & O). pose proof I as ((C & _) & _).
    destruct (no_panic_step2 T tab_el tab_at tab_en check_fn float_parse fmt LATEST name_index name_definition_ref attr_schema_location
                root_attrs OK12 CHECK EN_OK SHORT_OK EnumsOK AttrsOK HM o w COV2 WF2 I) as (x & w1 & E).
    exists x, w1. split; [exact E|]. split.
    - exact (H2_step2 T tab_el tab_at tab_en check_fn float_parse fmt LATEST name_index name_definition_ref attr_schema_location
               root_attrs OK12 NamesOK EnumsOK AttrsOK RootOK TKr RootTy o w x w1 COV2 WF2 I E).
    - exact (owned_step2 T tab_el tab_at tab_en check_fn float_parse fmt LATEST name_index name_definition_ref attr_schema_location
               root_attrs o w x w1 COV2 C O E). }
  destruct o; try discriminate COV; try (apply Gen; [reflexivity|exact WF]).
  cbn [op3_wfh] in WF. destruct WF as (Lm & HS & OKc). cbn [run_op2F run_op2].
  destruct (np_duplicate T tab_el tab_at tab_en check_fn LATEST root_attrs OK12 CHECK NamesOK EnumsOK AttrsOK RootOK TKr RootTy w m HD Lm HS) as (r & w1 & E).
  destruct r as [c|e]; [|exfalso; exact (OKc e w1 E)].
  exists (OK (V1 (VModel c))), w1. split; [unfold wbind; rewrite E; reflexivity|].
  exact (D_duplicate_ok T tab_el tab_at tab_en check_fn LATEST root_attrs OK12 CHECK NamesOK EnumsOK AttrsOK RootOK TKr RootTy w m c w1 HD Lm HS E).
Qed.

Theorem no_panic3_hist l : forall w, D w -> wf_ops3 l w -> exists w', run_ops2F' l w = Val w' /\ D w'.
Proof.
  induction l as [|o l IH]; intros w HD WF; cbn [run_ops2F wf_ops3] in *; [eauto|].
  destruct WF as (COV & WF & K). destruct (step3 o w COV WF HD) as (x & w1 & E & D1). rewrite E. exact (IH w1 D1 (K _ _ E)).
Qed.

End Hist3.
