(* Tree/NoPanicProofsOps4.v — C12, layer 4: file membership: add_to_file (the upward walk add_to_file_restricted) and
   AutosarModel::create_file. *)
From Coq Require Import Lia.
From AV Require Import Base.Bytes Base.Outcome Hash.HashModel Spec.SpecOps Xml.TablesOk Tree.Heap Tree.Ops Tree.Script Tree.Inv.
From AV Require Import Tree.NoPanic Tree.NoPanicProofsBase Tree.NoPanicProofsOps1 Tree.NoPanicProofsClosed Tree.NoPanicProofsOps2.
From AV Require Import Tree.NoPanicProofsOps3.
Open Scope string_scope.
Open Scope list_scope.
Open Scope N_scope.

Section Ops4.
Variable T : tables.
Variable tab_el tab_en : nametab.
Variable check_fn : N -> list N -> res bool.
Variable LATEST : N.
Variable root_attrs : list (N * cdata).
Hypothesis OK12 : tables_ok12 T = true.
Hypothesis CHECK : forall fn s, exists b, check_fn fn s = Val b.
Collection Env := T tab_el tab_en check_fn LATEST root_attrs OK12 CHECK.
Set Default Proof Using "Env".

Notation ENV f := (f T tab_el tab_en check_fn LATEST root_attrs OK12 CHECK) (only parsing).
Notation TOK := (ok12_tables T OK12) (only parsing).
Notation node_ok := (node_ok T tab_el tab_en).
Notation Closed := (Closed T tab_el tab_en).
Notation PanicFree := (PanicFree T tab_el tab_en).
Notation good := (good T tab_el tab_en).

Definition keepP (w : world) : unit -> world -> Prop := fun _ w' => sameP w w' /\ w_next w' = w_next w.

(* a node update that only touches the file membership *)
Lemma good_modify_files w c (f : node -> node) : Closed w -> c < w_next w ->
  (forall x, f x = x \/ exists fs, f x = set_files x fs) ->
  runsQ (modify_node c f) w (good w (keepP w)).
Proof.
  intros C L F. destruct (ENV get_node_ok w c C L) as (n & EG & EN & NO).
  unfold modify_node.
  eapply (ENV good_rd); [exact C|exists (OK n); split; [exact EG|]; intros a [= <-]; exact (eq_refl n)|]. intros a <-.
  eapply (ENV good_weaken); [eapply (ENV good_set_node w c (f n) n C EN)|intros u w1 (S1 & N1 & _); split; assumption].
  - destruct (F n) as [->|(fs & ->)]; exact NO.
  - destruct (F n) as [->|(fs & ->)]; reflexivity.
Qed.

Lemma keepP_trans w w1 w2 : keepP w tt w1 -> keepP w1 tt w2 -> keepP w tt w2.
Proof. intros (S1 & N1) (S2 & N2). split; [eapply sameP_trans; eauto|congruence]. Qed.

Lemma parent_splittable_ok w n : Closed w -> node_ok w n -> rd (parent_splittable T n) w (fun _ => True).
Proof.
  intros C (_ & _ & _ & _ & PO). unfold parent_splittable, parent_of. destruct (n_parent n) as [|pm|pi].
  - eapply (rd_bind _ _ _ (fun _ => False)); [apply rd_fail|]. intros a [].
  - eapply (rd_bind _ _ _ (fun a => a = None)); [apply rd_ret; reflexivity|]. intros a ->. apply rd_ret. exact I.
  - eapply (rd_bind _ _ _ (fun a => a = Some pi)); [apply rd_ret; reflexivity|]. intros a ->.
    eapply rd_bind; [apply (ENV rd_get_node w pi (fun x => node_ok w x) C PO); auto|]. intros pn (ETP & _).
    destruct (splittable_ok T _ ETP) as (sp & ES).
    eapply rd_bind; [apply (rd_wl _ sp w (fun _ => True) ES); exact I|]. intros; apply rd_ret; exact I.
Qed.

(* Element::add_to_file_restricted: the walk to the root *)
Lemma good_add_to_file_restricted f : forall h w e fuel, Closed w -> UpWF w -> Depth w e h -> (h < fuel)%nat ->
  runsQ (add_to_file_restricted T fuel e f) w (good w (keepP w)).
Proof.
  induction h as [|h IH]; intros w e fuel C U D HF; (destruct fuel as [|fl]; [lia|]); cbn [add_to_file_restricted].
  all: assert (L : e < w_next w) by (apply (cl_alloc _ _ _ _ C); destruct (InvProofsCore.depth_alloc _ _ _ D) as (n0 & E0); congruence).
  all: eapply (ENV good_rd); [exact C|apply rd_try; apply (ENV file_membership_ok w e C U L)|]; intros fm _.
  all: destruct (match fm with Some x => x | None => (true, []) end) as [local cur].
  all: destruct (set_mem f cur); [apply (ENV good_ret); [exact C|split; [apply sameP_refl|reflexivity]]|].
  all: destruct (ENV get_node_ok w e C L) as (n & EG & EN & NO).
  all: eapply (ENV good_rd); [exact C|exists (OK n); split; [exact EG|]; intros a [= <-]; exact (eq_refl n)|]; intros a <-.
  all: pose proof NO as (ET & _ & KIDS & _ & PO).
  all: destruct (splittable_ok T _ ET) as (sp & ES).
  all: eapply (ENV good_rd); [exact C|apply (rd_wl _ sp w (fun a => a = sp) ES); reflexivity|]; intros a ->.
  all: assert (KLOOP : forall l w0, Closed w0 -> (forall c, In (CElem c) l -> c < w_next w0) ->
         runsQ ((fix kids (l : list citem) : W unit :=
                   match l with
                   | [] => wret tt
                   | CElem c :: rest =>
                     wbind (modify_node c (fun x => if is_empty (n_files x) then set_files x cur else x)) (fun _ => kids rest)
                   | CData _ :: rest => kids rest
                   end) l) w0 (good w0 (keepP w0))).
  1,3: induction l as [|[c|d] rest IHl]; intros w0 C0 K0.
  1,4: apply (ENV good_ret); [exact C0|split; [apply sameP_refl|reflexivity]].
  1,3: eapply (ENV good_bind);
         [apply (good_modify_files w0 c _ C0 (K0 c (or_introl eq_refl)));
            intros x; destruct (is_empty (n_files x)); [right; eexists; reflexivity|left; reflexivity]|];
       intros [] w1 C1 X1 K1;
       eapply (ENV good_weaken);
         [apply IHl; [exact C1|intros c0 H0; destruct K1 as (_ & N1); rewrite N1; apply K0; right; exact H0]|];
       intros u w2 K2 w00 _; eapply keepP_trans; eauto.
  1,2: apply IHl; [exact C0|intros c0 H0; apply K0; right; exact H0].
  (* after the sub-element loop *)
  all: eapply (ENV good_bind _ _ w (keepP w));
         [destruct (negb (sp =? 0)); [apply KLOOP; [exact C|exact KIDS]|apply (ENV good_ret); [exact C|split; [apply sameP_refl|reflexivity]]]|].
  all: intros [] w1 C1 X1 (S1 & N1); cbv zeta.
  all: assert (U1 : UpWF w1) by (eapply UpWF_sameP; eauto).
  all: assert (NO1 : node_ok w1 n) by (eapply node_ok_ext; eauto).
  all: eapply (ENV good_rd); [exact C1|apply (parent_splittable_ok w1 n C1 NO1)|]; intros ps _.
  all: eapply (ENV good_bind _ _ w1 (keepP w1));
         [destruct (ps || local);
            [apply (good_modify_files w1 e _ C1 ltac:(lia)); intros x; right; eexists; reflexivity
            |apply (ENV good_ret); [exact C1|split; [apply sameP_refl|reflexivity]]]|].
  all: intros [] w2 C2 X2 (S2 & N2).
  all: unfold parent_of; destruct (n_parent n) as [|pm|pi] eqn:EP.
  1,4: eapply (ENV good_rd _ _ w2 (fun _ => False)); [exact C2|apply rd_fail|]; intros a [].
  1,3: eapply (ENV good_rd _ _ w2 (fun a => a = None)); [exact C2|apply rd_ret; reflexivity|]; intros a ->;
       apply (ENV good_ret); [exact C2|]; intros w0 _; split; [exact (sameP_trans _ _ _ S1 S2)|congruence].
  - (* depth 0 has no element parent *)
    exfalso. pose proof (depth_top w e n O EN) as _. inversion D as [x n0 Hn Ht|]; subst.
    rewrite EN in Hn. injection Hn as <-. eapply Ht. exact EP.
  - eapply (ENV good_rd _ _ w2 (fun a => a = Some pi)); [exact C2|apply rd_ret; reflexivity|]; intros a ->.
    destruct (depth_parent w e n pi (S h) EN EP D) as (h' & [= <-] & DP).
    assert (DP2 : Depth w2 pi h) by (apply (Depth_sameP w w2 (sameP_trans _ _ _ S1 S2) _ _ DP)).
    assert (U2 : UpWF w2) by (eapply UpWF_sameP; eauto).
    eapply (ENV good_weaken); [apply (IH w2 pi fl C2 U2 DP2); lia|].
    intros u w3 (S3 & N3) w0 _. split; [exact (sameP_trans _ _ _ (sameP_trans _ _ _ S1 S2) S3)|congruence].
Qed.

(* ---------- Element::add_to_file ---------- *)
Lemma gq_add_to_file w e f : PanicFree w -> e < w_next w -> f < N.of_nat (List.length (w_files w)) ->
  runsQ (e_add_to_file T e f) w (good w (fun _ _ => True)).
Proof.
  intros [C U _] L Lf. unfold e_add_to_file.
  destruct (ENV get_node_ok w e C L) as (n & EG & EN & NO).
  eapply (ENV good_rd); [exact C|exists (OK n); split; [exact EG|]; intros a [= <-]; exact (eq_refl n)|]. intros a <-.
  eapply (ENV good_rd); [exact C|apply (parent_splittable_ok w n C NO)|]. intros ps _.
  destruct (negb ps); [apply (ENV good_fail); exact C|].
  destruct (ENV get_file_ok w f Lf) as (x & EF).
  eapply (ENV good_rd _ _ w (fun _ => True)); [exact C| |].
  { unfold file_model. eapply rd_bind; [exists (OK x); split; [exact EF|]; intros a [= <-]; exact I|]. intros; apply rd_ret; exact I. }
  intros fm _.
  eapply (ENV good_rd); [exact C|apply (ENV model_of_ok w e C U L)|]. intros m _.
  destruct (negb (fm =? m)); [apply (ENV good_fail); exact C|].
  eapply (ENV good_rd); [exact C|apply (ENV file_membership_ok w e C U L)|]. intros [lo cur] _.
  destruct (set_mem f cur); [apply (ENV good_ret); [exact C|exact I]|].
  eapply (ENV good_bind); [apply (good_modify_files w e _ C L); intros x0; right; eexists; reflexivity|].
  intros [] w1 C1 X1 (S1 & N1).
  unfold parent_of. pose proof NO as (_ & _ & _ & _ & PO). destruct (n_parent n) as [|pm|pi] eqn:EP.
  - eapply (ENV good_rd _ _ w1 (fun _ => False)); [exact C1|apply rd_fail|]. intros a [].
  - eapply (ENV good_rd _ _ w1 (fun a => a = None)); [exact C1|apply rd_ret; reflexivity|]. intros a ->.
    apply (ENV good_ret); [exact C1|intros; exact I].
  - eapply (ENV good_rd _ _ w1 (fun a => a = Some pi)); [exact C1|apply rd_ret; reflexivity|]. intros a ->.
    eapply (ENV good_rd _ _ w1 (fun a => a = w1)); [exact C1|exists (OK w1); split; [reflexivity|]; intros a [= <-]; reflexivity|]. intros a ->.
    assert (U1 : UpWF w1) by (eapply UpWF_sameP; eauto).
    destruct (U1 pi ltac:(lia)) as (hp & DP).
    eapply (ENV good_weaken); [apply (good_add_to_file_restricted f hp w1 pi (fuel_of w1) C1 U1 DP)|intros; exact I].
    pose proof (depth_lt_fuel T tab_el tab_en w1 pi hp C1 DP). lia.
Qed.

Lemma np_add_to_file w e f : PanicFree w -> e < w_next w -> f < N.of_nat (List.length (w_files w)) ->
  runs (e_add_to_file T e f) w.
Proof. intros. eapply (ENV good_runs). apply gq_add_to_file; assumption. Qed.

(* ---------- AutosarModel::create_file ---------- *)
Lemma np_create_file w m name version : PanicFree w -> m < N.of_nat (List.length (w_models w)) ->
  runs (m_create_file T m name version) w.
Proof.
  intros [C U _] Lm. unfold m_create_file.
  destruct (ENV get_model_ok w m C Lm) as (x & EGM & ENM & MO).
  eapply runs_bind; [exact EGM|]. intros a [= <-].
  eapply runs_bind; [apply wget_val|]. intros a [= <-].
  destruct (existsb _ (m_files x)); [apply runs_fail|]. cbv zeta.
  set (w1 := mkWorld (w_nodes w) (w_next w) (w_files w ++ [mkFile m name version None]) (w_models w)).
  eapply runs_bind; [reflexivity|]. intros a [= <-]. fold w1.
  assert (C1 : Closed w1).
  { constructor.
    - intros i. apply (cl_alloc _ _ _ _ C).
    - intros i n E. apply (cl_node _ _ _ _ C _ _ E).
    - intros y IN. apply (cl_model _ _ _ _ C _ IN). }
  assert (U1 : UpWF w1) by (apply (UpWF_sameP w w1); [intros i; reflexivity|reflexivity|exact U]).
  destruct (ENV good_modify_model w1 m (fun y => set_mfiles y (m_files y ++ [N.of_nat (List.length (w_files w))])) C1 Lm) as (r2 & w2 & E2 & C2 & X2 & H2).
  { intros y (A & D). split; [exact A|exact D]. }
  eapply runs_bind; [exact E2|]. intros [] ->. destruct H2 as (S2 & N2 & _).
  eapply runs_bind; [apply wget_val|]. intros a [= <-].
  assert (U2 : UpWF w2) by (eapply UpWF_sameP; eauto).
  assert (LR : m_root x < w_next w2). { destruct MO as (A & _). rewrite N2. exact A. }
  destruct (U2 _ LR) as (hr & DR).
  eapply runs_then; [|intros; apply runs_ret].
  apply runs_try. eapply (ENV good_runs).
  apply (good_add_to_file_restricted _ hr w2 (m_root x) (fuel_of w2) C2 U2 DR).
  pose proof (depth_lt_fuel T tab_el tab_en w2 _ hr C2 DR). lia.
Qed.

End Ops4.
