(* Tree/FollowProofsRenameD.v — C06 proofs: Element::set_item_name in LOADED worlds (Tree/FollowL.v):
   the stale root of a first load (TreeFactsL instead of TreeFacts) and dead entries in the referrer lists (Inv05D
   instead of Inv05).  The run is the same (rename_run of Tree/FollowProofsRename.v); what changes is what is known
   about the world:
     rename_main_d          the state after a renaming run, under Inv06D and for a LIVE renamed element
     C06_rename_d           the three clauses of C06_rename; clauses (2) and (3) speak of nodes that are not dead (the
                            model rewrites the text of a dead node, which nobody can observe)
     C06_rename_prefix_d    every LIVE reference of the model whose text is of old form is rewritten, wherever it stands
                            in its referrer list
     C06_rename_skips_dead  ... in particular behind a dead entry
   The theorems with the strong hypotheses are instances (Inv06 -> Inv06D). *)
From Coq Require Import Lia.
From AV Require Import Base.Bytes Base.Outcome Hash.HashModel Tree.Heap Tree.Ops Tree.Script Tree.Index Tree.Refs
  Tree.IndexProofsW Tree.IndexProofsBase Tree.IndexProofsAssoc Tree.Follow Tree.FollowProofsPath Tree.FollowProofsLoop
  Tree.FollowProofsRename Tree.Load Tree.FollowL Tree.FollowProofsL.
Open Scope string_scope.
Open Scope list_scope.
Open Scope N_scope.

Section RenameD.
Variable T : tables.
Variable tab_el tab_en : nametab.
Variable check_fn : N -> list N -> res bool.
Variable LATEST : N.

Notation Inv06D := (Inv06D T check_fn).

Lemma Inv05_D w : Inv05 T w -> Inv05D T w.
Proof.
  intros H5 m x Hx. destruct (i5_tidy _ _ H5 m x Hx) as (Hk & _). constructor.
  - exact Hk.
  - intros p r HR. destruct (i5_exact _ _ H5 m x Hx p) as (_ & X). apply X. exact HR.
  - intros p r Hin. left. destruct (i5_exact _ _ H5 m x Hx p) as (_ & X). apply X. exact Hin.
  - intros k1 k2 r H1 H2. destruct (i5_exact _ _ H5 m x Hx k1) as (_ & X1). destruct (i5_exact _ _ H5 m x Hx k2) as (_ & X2).
    apply X1 in H1 as (_ & H1). apply X2 in H2 as (_ & H2). congruence.
Qed.

Lemma Inv06_D w : Inv06 T check_fn w -> Inv06D w.
Proof. intros (A & B & C). split; [apply TreeFacts_L; exact A|]. split; [exact B|apply Inv05_D; exact C]. Qed.

Lemma origins_of_get x k l : assoc_get k (m_origins x) = Some l -> origins_of x k = l.
Proof. intros H. unfold origins_of. rewrite H. reflexivity. Qed.

(* Tree/FollowProofsPath.v rekey_fresh / old_form_below without the (unused) TreeFacts hypothesis *)
Lemma rekey_freshL w m xm old new :
  NamesSlashFree T w -> IndexExact T w m -> model_at w m = Some xm ->
  new <> [] -> assoc_get new (m_idents xm) = None ->
  forall k k', In k (keys (m_idents xm)) -> rekey old new k = Some k' -> ~ In k' (keys (m_idents xm)).
Proof.
  intros HS HI Hxm Hne Hnone k k' _ Hr Hin.
  apply rekey_some in Hr as (suf & -> & Hb & ->).
  destruct (assoc_get (new ++ suf) (m_idents xm)) as [z|] eqn:Ez.
  2:{ apply assoc_get_none in Ez. contradiction. }
  apply (HI xm Hxm) in Ez as (Hz1 & Hz2 & Hz3).
  destruct (prefix_is_path T w m z _ new suf HS Hz3 eq_refl Hb Hne) as (y & Hy1 & Hy2 & Hy3).
  assert (Hk : assoc_get new (m_idents xm) = Some y).
  { apply (HI xm Hxm). split; [eapply specpath_mreach; eauto|]. split; assumption. }
  congruence.
Qed.

Lemma old_form_belowL w m xm h old p x :
  NamesSlashFree T w -> IndexExact T w m -> model_at w m = Some xm ->
  old <> [] -> assoc_get old (m_idents xm) = Some h -> old_form old p -> assoc_get p (m_idents xm) = Some x ->
  reach T w h x.
Proof.
  intros HS HI Hxm Hne Hh (suf & -> & Hb) Hx.
  apply (HI xm Hxm) in Hx as (Hx1 & Hx2 & Hx3).
  destruct (prefix_is_path T w m x _ old suf HS Hx3 eq_refl Hb Hne) as (y & Hy1 & Hy2 & Hy3).
  assert (Hk : assoc_get old (m_idents xm) = Some y).
  { apply (HI xm Hxm). split; [eapply specpath_mreach; eauto|]. split; assumption. }
  assert (y = h) by congruence. subst y. exact Hy3.
Qed.

(* MAIN LEMMA: the state after a renaming run *)
Lemma rename_main_d h nn w w' m0 :
  Inv06D w -> MReach T w m0 h -> rename_run T check_fn h nn w w' ->
  exists m old new xm x',
    m = m0 /\ model_of h w = Val (OK m, w) /\
    SpecPath T w m h old /\ old <> [] /\ model_at w m = Some xm /\ assoc_get old (m_idents xm) = Some h /\
    model_at w' m = Some x' /\
    (forall k2 e, assoc_get k2 (m_idents x') = Some e <->
       (exists k, rekey old new k = Some k2 /\ assoc_get k (m_idents xm) = Some e)
       \/ (rekey old new k2 = None /\ assoc_get k2 (m_idents xm) = Some e)) /\
    (forall r p p', ref_text T w r = Some p -> MReach T w m r -> rekey old new p = Some p' ->
       ref_text T w' r = Some p') /\
    (forall r p, ref_text T w r = Some p -> ~ dead w r -> (~ MReach T w m r \/ rekey old new p = None) ->
       ref_text T w' r = Some p).
Proof.
  intros (HL & H4 & H5) HRh0 R.
  destruct R as [m version n cur old base s sn w1 w2 x2 each inner
                 Hmodel Hnode Hname Hdiff Hne Hpath Hstrip Hfree (rest & Hhead) Hsnode Hshort Hwrite Hrekey Hx Hloop
                 Hin Hic Hen Hec].
  set (new := base ++ nn) in *.
  assert (Em : m0 = m) by exact (model_of_liveL T w h m m0 HL Hmodel HRh0). subst m0. rename HRh0 into HRh.
  destruct (path_of_specL T w m h n HL Hnode HRh _ _ Hpath) as (_ & Hid).
  destruct (identifiable T w h) eqn:Eid; [|discriminate Hid].
  destruct Hid as (old0 & [= <-] & Hsp).
  apply (item_name_val T) in Hname as (_ & [= Hcur]). symmetry in Hcur.
  assert (Hold : old = base ++ cur) by (apply strip_suffix_some; exact Hstrip).
  assert (Hone : old <> []) by exact (specpath_nonempty T w m h old n cur Hsp Hnode Hcur).
  pose proof (slashfree_names T w (i4_slash _ _ _ H4)) as HNS.
  assert (Hcsf : ~ In 47 cur) by exact (HNS h n cur Hnode Hcur).
  unfold get_element_by_path in Hfree.
  apply wbind_inv in Hfree as [(a & wq & E & Hfree)|(e & _ & [=])].
  apply get_model_inv in E as (xm & Hxm & Q & ->). injection Q as <-.
  apply wret_inv in Hfree as ([= Hnone] & _).
  assert (Hkh : assoc_get old (m_idents a) = Some h).
  { apply (i4_exact _ _ _ H4 m a Hxm). split; [exact HRh|]. split; [exact Eid|exact Hsp]. }
  destruct (raw_set_cd_ok T check_fn _ _ _ _ _ Hwrite) as (sn0 & cs & Hsn0 & Hcs & Hcv & ->).
  assert (sn0 = sn) by congruence. subst sn0.
  destruct (i4_short _ _ _ H4 s sn Hsnode Hshort) as (Hsmode & Hsref & Hsval).
  destruct (Hsval cs (DString nn) version Hcs Hcv) as (nn0 & [= <-] & Hnsf).
  unfold fix_identifiables in Hrekey. apply modify_model_inv in Hrekey as (xm1 & Hxm1 & _ & ->).
  cbn [w_models] in Hxm1. assert (xm1 = a) by (unfold model_at in *; congruence). subst xm1.
  unfold model_at in Hx. cbn [w_models] in Hx. rewrite (list_set_nth_eq _ _ _ _ Hxm) in Hx. injection Hx as <-.
  destruct (rekey_all old new (m_idents a) (i4_nodup _ _ _ H4 m a Hxm)) as (_ & Hget).
  { eapply (rekey_freshL w m a old new); eauto.
    - exact (i4_exact _ _ _ H4 m).
    - unfold new. intros E. apply app_eq_nil in E as (_ & E). contradiction. }
  cbn [set_idents m_origins] in Hloop.
  pose proof (H5 m a Hxm) as HD.
  match type of Hloop with each _ ?w2 = _ =>
    destruct (outer_sem m old new each inner Hin Hic Hen Hec (map fst (m_origins a)) w2 w'
                (set_idents a (fold_left (rekey_step old new) (map fst (m_idents a)) (m_idents a)))) as (HF & HN) end.
  { exact (rd_keys _ _ _ _ HD). }
  { intros k k' Hr. rewrite Hold in *. eapply rekey_not_again; eauto. }
  { unfold model_at. cbn [w_models]. eapply list_set_nth_eq. exact Hxm. }
  { cbn [set_idents m_origins]. intros k1 k2 k1' k2' l1 l2 r I1 I2 Hne12 R1 R2 L1 L2 M1 M2.
    apply Hne12. apply (rd_onekey _ _ _ _ HD k1 k2 r); [rewrite (origins_of_get _ _ _ L1)|rewrite (origins_of_get _ _ _ L2)]; assumption. }
  { exact Hloop. }
  cbn [set_idents m_origins] in HN.
  destruct HF as (_ & _ & _ & HFm & _).
  match type of HFm with forall x, model_at ?w2 m = Some x -> _ =>
    destruct (HFm (set_idents a (fold_left (rekey_step old new) (map fst (m_idents a)) (m_idents a))))
      as (x' & Hx' & _ & _ & Hid') end.
  { unfold model_at. cbn [w_models]. eapply list_set_nth_eq. exact Hxm. }
  cbn [set_idents m_idents] in Hid'.
  assert (Hsnr : forall r p, ref_text T w r = Some p -> r <> s).
  { intros r p Hr ->. unfold ref_text in Hr. rewrite Hsnode in Hr. unfold isref in Hr. rewrite Hsref in Hr. discriminate. }
  exists m, old, new, a, x'. split; [reflexivity|]. split; [exact Hmodel|]. split; [exact Hsp|]. split; [exact Hone|].
  split; [exact Hxm|]. split; [exact Hkh|].
  split; [exact Hx'|]. split; [intros k2 e; rewrite Hid'; apply Hget|]. split.
  - intros r p p' Hr HRr Hrk.
    assert (Hin_r : In r (origins_of a p)) by (apply (rd_complete _ _ _ _ HD); split; assumption).
    pose proof Hin_r as Hin_r0.
    unfold origins_of in Hin_r. destruct (assoc_get p (m_origins a)) as [l|] eqn:El; [|destruct Hin_r].
    assert (Hns := Hsnr r p Hr).
    destruct (HN r) as [(k & k' & l0 & G1 & G2 & G3 & G4 & G5)|(G1 & _)].
    + assert (k = p).
      { apply (rd_onekey _ _ _ _ HD k p r); [rewrite (origins_of_get _ _ _ G3); exact G4|exact Hin_r0]. }
      subst k. assert (k' = p') by congruence. subst k'.
      cbn [w_nodes] in G5. rewrite upd_neq in G5 by exact Hns.
      unfold ref_text in Hr. destruct (w_nodes w r) as [nr|] eqn:Enr; [|discriminate].
      eapply (ref_text_rewritten T w w' r nr p p'); eauto.
      unfold ref_text. rewrite Enr. exact Hr.
    + exfalso. eapply (G1 p p' l); eauto. eapply assoc_get_some_key. exact El.
  - intros r p Hr Hnd Hcase. assert (Hns := Hsnr r p Hr).
    destruct (HN r) as [(k & k' & l0 & G1 & G2 & G3 & G4 & G5)|(_ & G2)].
    + exfalso.
      destruct (rd_entries _ _ _ _ HD k r) as [(Yr & Yk)|Hd]; [rewrite (origins_of_get _ _ _ G3); exact G4| |exact (Hnd Hd)].
      assert (k = p) by congruence. subst k.
      destruct Hcase as [Hc|Hc]; [contradiction|congruence].
    + rewrite <- Hr. apply ref_text_node. rewrite G2. cbn [w_nodes]. apply upd_neq. exact Hns.
Qed.

(* ---------- the statements ---------- *)
Theorem C06_rename_d h nn w w' m :
  Inv06D w -> live_ref T w m h ->
  e_set_item_name T check_fn LATEST h nn w = Val (OK tt, w') ->
  (forall r x, live_ref T w m r -> designates T w m r x -> below T w h x -> designates T w' m r x) /\
  (forall r p, ~ dead w r -> ref_text T w r = Some p -> resolves T w m r ->
               ~ (exists x, designates T w m r x /\ below T w h x) -> ref_text T w' r = Some p) /\
  (forall r p old, ~ dead w r -> SpecPath T w m h old -> ref_text T w r = Some p ->
                   ~ (live_ref T w m r /\ old_form old p) -> ref_text T w' r = Some p).
Proof.
  intros HI Hlive H. destruct (rename_exec _ _ _ _ _ _ _ H) as [->|R].
  { split; [|split]; auto. }
  destruct (rename_main_d h nn w w' m HI Hlive R) as (m0 & old & new & xm & x' & -> & Hm0 & Hsp & Hone & Hxm & Hkh & Hx' & Hid & Ht1 & Ht2).
  destruct HI as (HL & H4 & H5).
  pose proof (slashfree_names T w (i4_slash _ _ _ H4)) as HNS.
  split; [|split].
  - intros r x Hl (xm0 & p & Hxm0 & Hr & Hp) Hb. assert (xm0 = xm) by congruence. subst xm0.
    pose proof (proj1 (i4_exact _ _ _ H4 m xm Hxm p x) Hp) as (_ & _ & Hspx).
    destruct (below_old_formL T w m h x old p HL Hsp Hb Hspx) as (suf & -> & Hbd).
    assert (Hrk : rekey old new (old ++ suf) = Some (new ++ suf)) by (apply rekey_some; exists suf; auto).
    exists x', (new ++ suf). split; [exact Hx'|]. split; [eapply Ht1; eauto|].
    apply Hid. left. exists (old ++ suf). auto.
  - intros r p Hnd Hr (x & (xm0 & p0 & Hxm0 & Hr0 & Hp)) Hnot.
    assert (xm0 = xm) by congruence. subst xm0. assert (p0 = p) by congruence. subst p0.
    apply (Ht2 r p Hr Hnd). right.
    destruct (rekey old new p) as [p'|] eqn:Erk; [|reflexivity]. exfalso. apply Hnot. exists x. split.
    + exists xm, p. auto.
    + eapply (old_form_belowL w m xm h old p x); eauto.
      * exact (i4_exact _ _ _ H4 m).
      * apply (old_form_rekey old new). eauto.
  - intros r p old0 Hnd Hsp0 Hr Hnot.
    destruct (specpath_funL T w m m h _ _ HL Hsp Hsp0) as (_ & <-).
    apply (Ht2 r p Hr Hnd).
    destruct (rekey old new p) as [p'|] eqn:Erk; [|right; reflexivity].
    left. intros Hl. apply Hnot. split; [exact Hl|]. apply (old_form_rekey old new). eauto.
Qed.

(* every LIVE reference of the model whose text is of old form is rewritten - whatever else its referrer list holds *)
Theorem C06_rename_prefix_d h nn w w' m old :
  Inv06D w -> live_ref T w m h ->
  e_set_item_name T check_fn LATEST h nn w = Val (OK tt, w') -> SpecPath T w m h old ->
  w' = w \/
  exists new, forall r suf, live_ref T w m r -> ref_text T w r = Some (old ++ suf) ->
    (is_empty suf || starts_with_slash suf) = true -> ref_text T w' r = Some (new ++ suf).
Proof.
  intros HI Hlive H Hsp0. destruct (rename_exec _ _ _ _ _ _ _ H) as [->|R]; [left; reflexivity|right].
  destruct (rename_main_d h nn w w' m HI Hlive R) as (m0 & old1 & new & xm & x' & -> & Hm0 & Hsp & Hone & Hxm & Hkh & Hx' & Hid & Ht1 & Ht2).
  destruct HI as (HL & _).
  destruct (specpath_funL T w m m h _ _ HL Hsp Hsp0) as (_ & ->).
  exists new. intros r suf Hl Hr Hb. eapply Ht1; eauto. apply rekey_some. exists suf. auto.
Qed.

(* DEAD ENTRIES ARE SKIPPED: a live referrer r that stands BEHIND a dead entry d in the referrer list of a path of old
   form is rewritten like any other (the seed C06-rename-stops-at-dead-referrer left r with its old text) *)
Theorem C06_rename_skips_dead h nn w w' m old :
  Inv06D w -> live_ref T w m h ->
  e_set_item_name T check_fn LATEST h nn w = Val (OK tt, w') -> SpecPath T w m h old ->
  w' = w \/
  exists new, forall suf d r, dead_before_live T w m (old ++ suf) d r ->
    (is_empty suf || starts_with_slash suf) = true -> ref_text T w' r = Some (new ++ suf).
Proof.
  intros HI Hlive H Hsp. destruct (C06_rename_prefix_d h nn w w' m old HI Hlive H Hsp) as [->|(new & Hn)]; [left; reflexivity|right].
  exists new. intros suf d r (x & l1 & l2 & l3 & Hx & _ & _ & (HR & Ht)) Hb. exact (Hn r suf HR Ht Hb).
Qed.

(* with the full tree facts (no stale root: the model was not filled by a FIRST load) the renamed element is live *)
Lemma live_of_model w h m : TreeFacts w -> model_of h w = Val (OK m, w) -> live_ref T w m h.
Proof.
  intros HT Hm. apply (model_of_val T) in Hm as (_ & [(m0 & s0 & [= <-] & Hu)|([=] & _)]).
  eapply specpath_mreach. eapply upath_specpath; eauto.
Qed.

Theorem C06_rename_skips_dead_tf h nn w w' m old :
  TreeFacts w -> Inv04 T check_fn w -> Inv05D T w ->
  e_set_item_name T check_fn LATEST h nn w = Val (OK tt, w') -> model_of h w = Val (OK m, w) -> SpecPath T w m h old ->
  w' = w \/
  exists new,
    (forall r suf, live_ref T w m r -> ref_text T w r = Some (old ++ suf) ->
       (is_empty suf || starts_with_slash suf) = true -> ref_text T w' r = Some (new ++ suf)) /\
    (forall suf d r, dead_before_live T w m (old ++ suf) d r ->
       (is_empty suf || starts_with_slash suf) = true -> ref_text T w' r = Some (new ++ suf)).
Proof.
  intros HT H4 H5 H Hm Hsp.
  assert (HI : Inv06D w) by (split; [apply TreeFacts_L; exact HT|split; assumption]).
  pose proof (live_of_model w h m HT Hm) as Hlive.
  destruct (C06_rename_prefix_d h nn w w' m old HI Hlive H Hsp) as [->|(new & Hn)]; [left; reflexivity|right].
  exists new. split; [exact Hn|].
  intros suf d r (x & l1 & l2 & l3 & Hx & _ & _ & (HR & Ht)) Hb. exact (Hn r suf HR Ht Hb).
Qed.

End RenameD.
