(* Tree/MergeGoodExamples.v — C09: non-vacuity of the extended class Good on a second tiny table set:
     * a split point with SEQUENCE content (ROOT: VALUES, B, C in schema order; B only in file 1, C only in file 0:
       loading file 0 then file 1 must insert B between VALUES and C);
     * sub-elements keyed by their DEFINITION-REF inside a bag (VALUES: PARAM with DEFINITION-REF "x" in file 0,
       PARAM with DEFINITION-REF "y" in file 1).
   [master_good]: the master is in the class; [merge_01], [merge_10]: the heap model merges the two views to the
   master in both load orders (by computation). *)
From Coq Require Import Sorting.Sorted Permutation.
From AV Require Import Base.Bytes Base.Outcome Hash.HashModel Tree.Heap Tree.Ops Tree.Script Tree.Load Tree.MergeSpec
  Tree.MergePure Tree.LoadProofsWalk Tree.MergePureProofsBase Tree.MergePureProofs Tree.MergePureProofsMain
  Tree.MergePureProofsKeys.
From AV Require Xml.Lexer Xml.Parser.
Open Scope string_scope.
Open Scope list_scope.
Open Scope N_scope.

Module TinyS.
(* element names = element definitions = data types:
     0 ROOT (splittable, sequence: VALUES B C)   1 VALUES (splittable, bag of PARAM)   2 B   3 C
     4 PARAM (sequence: DEFINITION-REF VALUE)    5 DEFINITION-REF (text)               6 VALUE (text) *)
Definition nROOT := 0. Definition nVALUES := 1. Definition nB := 2. Definition nC := 3.
Definition nPARAM := 4. Definition nDEFREF := 5. Definition nVALUE := 6.

Definition mkE (name ty mult split : N) : elemdef :=
  {| ed_name := name; ed_type := ty; ed_mult := mult; ed_ordered := 0; ed_split := split; ed_restrict := 0 |}.
Definition mkD (s e : N) (cd mode : N) : dtype :=
  {| dt_sub_start := s; dt_sub_end := e; dt_sub_ver := s; dt_attr_start := 0; dt_attr_end := 0; dt_attr_ver := 100;
     dt_cdata := cd; dt_mode := mode; dt_ref_start := 0; dt_ref_end := 0 |}.

Definition tinyS : tables := {|
  T_elements := fun i => match i with
    | 0 => Some (mkE 0 0 1 3) | 1 => Some (mkE 1 1 1 3) | 2 => Some (mkE 2 2 1 0) | 3 => Some (mkE 3 3 1 0)
    | 4 => Some (mkE 4 4 2 0) | 5 => Some (mkE 5 5 1 0) | 6 => Some (mkE 6 6 1 0) | _ => None end;
  n_elements := 7;
  T_subelements := fun i => match i with
    | 0 => Some (0, 1) | 1 => Some (0, 2) | 2 => Some (0, 3)    (* ROOT: VALUES B C *)
    | 3 => Some (0, 4)                                          (* VALUES (bag): PARAM* *)
    | 4 => Some (0, 5) | 5 => Some (0, 6)                       (* PARAM: DEFINITION-REF VALUE *)
    | _ => None end;
  n_subelements := 6;
  T_attributes := fun _ => None;
  n_attributes := 0;
  T_version_info := fun _ => Some 3;
  n_version_info := 200;
  T_datatypes := fun i => match i with
    | 0 => Some (mkD 0 3 0 MSequence)
    | 1 => Some (mkD 3 4 0 MBag)
    | 2 => Some (mkD 6 6 0 MSequence)
    | 3 => Some (mkD 6 6 0 MSequence)
    | 4 => Some (mkD 4 6 0 MSequence)
    | 5 => Some (mkD 6 6 1 MCharacters)
    | 6 => Some (mkD 6 6 1 MCharacters)
    | _ => None end;
  n_datatypes := 7;
  T_ref_items := fun _ => None;
  n_ref_items := 0;
  T_cdata := fun i => match i with 0 => Some (CPattern 0 (Some 8)) | _ => None end;
  n_cdata := 1;
  reference_type_idx := 99; autosar_element := 0; name_short_name := 50; attr_dest := 0
|}.

Definition LATEST := 2.
Definition DEFREF := nDEFREF.

Definition mtext (name : N) (s : string) (fs : list N) : mtree :=
  MNode name (name, name) [] [inr (Parser.DString (BS s))] None fs.
Definition mplain (name : N) (fs : list N) (kids : list mtree) : mtree :=
  MNode name (name, name) [] (map inl kids) None fs.
Definition mparam (dr val : string) (fs : list N) : mtree :=
  mplain nPARAM fs [mtext nDEFREF dr fs; mtext nVALUE val fs].

Definition param_x := mparam "x" "1" [0].
Definition param_y := mparam "y" "2" [1].
Definition values := mplain nVALUES [0; 1] [param_x; param_y].
Definition elem_b := mplain nB [1] [].
Definition elem_c := mplain nC [0] [].
Definition master : mtree := mplain nROOT [0; 1] [values; elem_b; elem_c].

Definition new_world : world :=
  match new_model tinyS [] (mkWorld (fun _ => None) 0 [] []) with Val (_, w) => w | _ => mkWorld (fun _ => None) 0 [] [] end.
Definition load_tree (filename : string) (e : Parser.etree) : W N :=
  load_parsed tinyS LATEST DEFREF 0 (BS filename) e (pstate_of tinyS 2 e).
Fixpoint load_all (l : list (string * Parser.etree)) (w : world) : res (list (out N) * world) :=
  match l with
  | [] => Val ([], w)
  | (nm, e) :: r =>
    match load_tree nm e w with
    | Val (o, w') => match load_all r w' with Val (os, w'') => Val (o :: os, w'') | Pan s => Pan s | Fuel => Fuel end
    | Pan s => Pan s
    | Fuel => Fuel
    end
  end.
Definition results (l : list (string * Parser.etree)) : option (list (out N)) :=
  match load_all l new_world with Val (os, _) => Some os | _ => None end.
Definition final (l : list (string * Parser.etree)) : option htree :=
  match load_all l new_world with Val (_, w) => abs_model w 0 | _ => None end.

Definition eplain (name : N) (kids : list Parser.etree) : Parser.etree := Parser.ENode name (name, name) [] (map inl kids) None.
Definition file0 : Parser.etree := match project 0 master with Some e => e | None => eplain 0 [] end.
Definition file1 : Parser.etree := match project 1 master with Some e => e | None => eplain 0 [] end.

(* the views: file 0 has VALUES{x} and C, file 1 has VALUES{y} and B *)
Example file0_names : match file0 with Parser.ENode _ _ _ c _ => map (fun it => match it with inl (Parser.ENode n _ _ _ _) => n | inr _ => 99 end) c end = [nVALUES; nC].
Proof. vm_compute. reflexivity. Qed.
Example file1_names : match file1 with Parser.ENode _ _ _ c _ => map (fun it => match it with inl (Parser.ENode n _ _ _ _) => n | inr _ => 99 end) c end = [nVALUES; nB].
Proof. vm_compute. reflexivity. Qed.

(* both load orders succeed *)
Example merge_01_results : results [("f0", file0); ("f1", file1)] = Some [OK 0; OK 1].
Proof. vm_compute. reflexivity. Qed.
(* order 0,1: B is inserted between VALUES and C, y is appended to the bag: the merged model IS the master *)
Example merge_01 : final [("f0", file0); ("f1", file1)] = Some (expected None master).
Proof. vm_compute. reflexivity. Qed.

(* order 1,0 (the file loaded first is file 0): the master with the file ids swapped; C is inserted after B *)
Definition master_10 : mtree :=
  mplain nROOT [0; 1] [mplain nVALUES [0; 1] [mparam "y" "2" [0]; mparam "x" "1" [1]]; mplain nB [0] []; mplain nC [1] []].
Example merge_10 : final [("f1", file1); ("f0", file0)] = Some (expected None master_10).
Proof. vm_compute. reflexivity. Qed.


(* ---------- the master is in the class Good ---------- *)
Local Notation G := (Good tinyS DEFREF 2).
Ltac sset_tac := unfold sset; repeat (constructor; try (cbv; reflexivity)).
Lemma s01 : sset [0; 1]. Proof. sset_tac. Qed.
Lemma s0 : sset [0]. Proof. sset_tac. Qed.
Lemma s1 : sset [1]. Proof. sset_tac. Qed.

Lemma good_text name s fs :
  sset fs -> fs <> [] -> (exists sp, splittable_in tinyS (name, name) 2 = Val sp) -> G (mtext name s fs).
Proof.
  intros Hs Hne Hsp. apply Good_unfold. split; [exact Hs|]. split; [exact Hne|]. split; [|intros c []].
  split; [intros c []|]. split; [exact Hsp|]. split; [constructor|]. split; [left; reflexivity|].
  exists (fun _ => mkCore 0 false None None []). split; [intros c []|]. split; [intros c1 c2 []|intros c1 c2 []].
Qed.

Lemma good_empty name fs :
  sset fs -> fs <> [] -> (exists sp, splittable_in tinyS (name, name) 2 = Val sp) -> G (mplain name fs []).
Proof.
  intros Hs Hne Hsp. apply Good_unfold. split; [exact Hs|]. split; [exact Hne|]. split; [|intros c []].
  split; [intros c []|]. split; [exact Hsp|]. split; [constructor|]. split; [left; reflexivity|].
  exists (fun _ => mkCore 0 false None None []). split; [intros c []|]. split; [intros c1 c2 []|intros c1 c2 []].
Qed.

(* a PARAM: DEFINITION-REF and VALUE, both in the files of the PARAM *)
Definition param_core (c : mtree) : core := mkCore (m_name c) false None None [m_name c - 5].
Lemma good_param dr val fs : sset fs -> fs <> [] -> G (mparam dr val fs).
Proof.
  intros Hs Hne. unfold mparam, mplain. cbn [map]. apply Good_unfold.
  split; [exact Hs|]. split; [exact Hne|]. split.
  - split; [intros c [<-|[<-|[]]]; apply incl_refl|]. split; [exists false; reflexivity|].
    split; [constructor; [intros [H|[]]; discriminate|constructor; [intros []|constructor]]|].
    split.
    + right. split; [reflexivity|]. left. split; [intros [H _]; discriminate|]. intros c [<-|[<-|[]]]; reflexivity.
    + exists param_core. split; [|split].
      * intros c [<-|[<-|[]]]; unfold param_core, mtext; cbn [m_name].
        -- apply keystable_unnamed with (sub := (5, 5)); [reflexivity|reflexivity|intros c []].
        -- apply keystable_unnamed with (sub := (6, 6)); [reflexivity|reflexivity|intros c []].
      * intros c1 c2 [<-|[<-|[]]] [<-|[<-|[]]]; vm_compute; intros H; try reflexivity; discriminate.
      * intros c1 c2 [<-|[<-|[]]] [<-|[<-|[]]]; vm_compute; intros H; try reflexivity; discriminate.
  - intros c [<-|[<-|[]]]; apply good_text; auto; exists false; reflexivity.
Qed.

(* the key of a PARAM below VALUES: its DEFINITION-REF *)
Lemma param_key dr val fs :
  fs <> [] -> KeyStable tinyS DEFREF (1, 1) (mparam dr val fs) (mkCore nPARAM false None (Some (BS dr)) [0]).
Proof.
  intros Hne. unfold mparam, mplain. cbn [map].
  apply (keystable_defref tinyS DEFREF (1, 1) nPARAM (4, 4) [] _ None fs [0] (4, 4) (5, 5) (BS dr) [] None);
    [reflexivity|reflexivity|reflexivity|exact Hne|left; reflexivity|].
  intros c [<-|[<-|[]]] H; [reflexivity|discriminate H].
Qed.

Definition values_core (c : mtree) : core :=
  mkCore nPARAM false None
    (match m_content c with inl d :: _ => match m_content d with [inr (Parser.DString s)] => Some s | _ => None end | _ => None end) [0].

Lemma good_values : G values.
Proof.
  unfold values, mplain. cbn [map]. apply Good_unfold.
  split; [apply s01|]. split; [discriminate|]. split.
  - split.
    { intros c [<-|[<-|[]]]; cbn; intros x Hx; cbn in *; intuition. }
    split; [exists true; reflexivity|].
    split; [constructor; [intros [H|[]]; discriminate|constructor; [intros []|constructor]]|].
    split.
    + right. split; [reflexivity|]. right. left. split; [split; reflexivity|]. split; [reflexivity|].
      intros c [<-|[<-|[]]]; eexists; reflexivity.
    + exists values_core. split; [|split].
      * intros c [<-|[<-|[]]]; [apply (param_key "x" "1" [0])|apply (param_key "y" "2" [1])]; discriminate.
      * intros c1 c2 [<-|[<-|[]]] [<-|[<-|[]]]; vm_compute; intros H; try reflexivity; discriminate.
      * intros c1 c2 _ _ _. reflexivity.
  - intros c [<-|[<-|[]]]; apply good_param; try discriminate; [apply s0|apply s1].
Qed.

(* the root: a splittable sequence *)
Definition root_core (c : mtree) : core := mkCore (m_name c) false None None [m_name c - 1].
Definition root_idx (c : mtree) : list N := [m_name c - 1].

Theorem master_good : G master.
Proof.
  unfold master, mplain. cbn [map]. apply Good_unfold.
  split; [apply s01|]. split; [discriminate|]. split.
  - split.
    { intros c [<-|[<-|[<-|[]]]]; cbn; intros x Hx; cbn in *; intuition. }
    split; [exists true; reflexivity|].
    split.
    { constructor; [intros [H|[H|[]]]; discriminate|]. constructor; [intros [H|[]]; discriminate|].
      constructor; [intros []|constructor]. }
    split.
    + right. split; [reflexivity|]. right. right. split; [intros [H _]; discriminate|]. split; [reflexivity|].
      split; [reflexivity|]. exists root_idx. split; [|split].
      * intros c [<-|[<-|[<-|[]]]]; eexists; reflexivity.
      * intros c x [<-|[<-|[<-|[]]]] [<-|[<-|[<-|[]]]] Hne; try (exfalso; apply Hne; reflexivity);
          exists 0, (mkD 0 3 0 MSequence); repeat split; reflexivity.
      * intros l1 c l2 E.
        destruct l1 as [|a1 [|a2 [|a3 l1]]]; cbn [app] in E.
        -- injection E as <- <-. split; [intros x []|]. intros x [<-|[<-|[]]]; reflexivity.
        -- injection E as <- <- <-. split; [intros x [<-|[]]; reflexivity|]. intros x [<-|[]]; reflexivity.
        -- injection E as <- <- <- <-. split; [intros x [<-|[<-|[]]]; reflexivity|intros x []].
        -- exfalso. injection E as _ _ _ E. destruct l1; discriminate.
    + exists root_core. split; [|split].
      * intros c [<-|[<-|[<-|[]]]]; unfold root_core, values, elem_b, elem_c, mplain; cbn [m_name map].
        -- apply keystable_unnamed with (sub := (1, 1)); [reflexivity|reflexivity|]. intros c [<-|[<-|[]]]; discriminate.
        -- apply keystable_unnamed with (sub := (2, 2)); [reflexivity|reflexivity|intros c []].
        -- apply keystable_unnamed with (sub := (3, 3)); [reflexivity|reflexivity|intros c []].
      * intros c1 c2 [<-|[<-|[<-|[]]]] [<-|[<-|[<-|[]]]]; vm_compute; intros H; try reflexivity; discriminate.
      * intros c1 c2 [<-|[<-|[<-|[]]]] [<-|[<-|[<-|[]]]]; vm_compute; intros H; try reflexivity; discriminate.
  - intros c [<-|[<-|[<-|[]]]]; [apply good_values|apply good_empty|apply good_empty]; try discriminate;
      try apply s0; try apply s1; exists false; reflexivity.
Qed.

End TinyS.

(* ====================================================================== a choice group inside a sequence *)
Module TinyC.
(* 0 ROOT (splittable, sequence: A, (B | D), C)   1 A   2 B   3 C   4 D     datatype 7 = the choice group (B | D)
   The master uses the alternative B: file 0 has A and C, file 1 has A and B. *)
Definition nROOT := 0. Definition nA := 1. Definition nB := 2. Definition nC := 3. Definition nD := 4.

Definition tinyC : tables := {|
  T_elements := fun i => match i with
    | 0 => Some (TinyS.mkE 0 0 1 3) | 1 => Some (TinyS.mkE 1 1 1 0) | 2 => Some (TinyS.mkE 2 2 1 0)
    | 3 => Some (TinyS.mkE 3 3 1 0) | 4 => Some (TinyS.mkE 4 4 1 0) | _ => None end;
  n_elements := 5;
  T_subelements := fun i => match i with
    | 0 => Some (0, 1) | 1 => Some (1, 7) | 2 => Some (0, 3)    (* ROOT: A (group 7) C *)
    | 3 => Some (0, 2) | 4 => Some (0, 4)                       (* group 7 (choice): B | D *)
    | _ => None end;
  n_subelements := 5;
  T_attributes := fun _ => None;
  n_attributes := 0;
  T_version_info := fun _ => Some 3;
  n_version_info := 200;
  T_datatypes := fun i => match i with
    | 0 => Some (TinyS.mkD 0 3 0 MSequence)
    | 1 | 2 | 3 | 4 => Some (TinyS.mkD 5 5 0 MSequence)
    | 7 => Some (TinyS.mkD 3 5 0 MChoice)
    | _ => None end;
  n_datatypes := 8;
  T_ref_items := fun _ => None;
  n_ref_items := 0;
  T_cdata := fun _ => None;
  n_cdata := 0;
  reference_type_idx := 99; autosar_element := 0; name_short_name := 50; attr_dest := 0
|}.
Definition LATEST := 2.
Definition DEFREF := 98.

Definition mplain (name : N) (fs : list N) (kids : list mtree) : mtree := MNode name (name, name) [] (map inl kids) None fs.
Definition master : mtree := mplain nROOT [0; 1] [mplain nA [0; 1] []; mplain nB [1] []; mplain nC [0] []].

Definition new_world : world :=
  match new_model tinyC [] (mkWorld (fun _ => None) 0 [] []) with Val (_, w) => w | _ => mkWorld (fun _ => None) 0 [] [] end.
Definition load_tree (filename : string) (e : Parser.etree) : W N :=
  load_parsed tinyC LATEST DEFREF 0 (BS filename) e (pstate_of tinyC 2 e).
Fixpoint load_all (l : list (string * Parser.etree)) (w : world) : res (list (out N) * world) :=
  match l with
  | [] => Val ([], w)
  | (nm, e) :: r =>
    match load_tree nm e w with
    | Val (o, w') => match load_all r w' with Val (os, w'') => Val (o :: os, w'') | Pan s => Pan s | Fuel => Fuel end
    | Pan s => Pan s
    | Fuel => Fuel
    end
  end.
Definition final (l : list (string * Parser.etree)) : option htree :=
  match load_all l new_world with Val (_, w) => abs_model w 0 | _ => None end.
Definition file0 : Parser.etree := match project 0 master with Some e => e | None => TinyS.eplain 0 [] end.
Definition file1 : Parser.etree := match project 1 master with Some e => e | None => TinyS.eplain 0 [] end.

(* the index of B goes through the group: [1; 0] *)
Example idx_B : find_sub_element tinyC (0, 0) nB 2 = Val (Some ((2, 2), [1; 0])).
Proof. vm_compute. reflexivity. Qed.

Example merge_01 : final [("f0", file0); ("f1", file1)] = Some (expected None master).
Proof. vm_compute. reflexivity. Qed.
Definition master_10 : mtree := mplain nROOT [0; 1] [mplain nA [0; 1] []; mplain nB [0] []; mplain nC [1] []].
Example merge_10 : final [("f1", file1); ("f0", file0)] = Some (expected None master_10).
Proof. vm_compute. reflexivity. Qed.

Local Notation G := (Good tinyC DEFREF 2).
Lemma good_empty name fs :
  sset fs -> fs <> [] -> (exists sp, splittable_in tinyC (name, name) 2 = Val sp) -> G (mplain name fs []).
Proof.
  intros Hs Hne Hsp. apply Good_unfold. split; [exact Hs|]. split; [exact Hne|]. split; [|intros c []].
  split; [intros c []|]. split; [exact Hsp|]. split; [constructor|]. split; [left; reflexivity|].
  exists (fun _ => mkCore 0 false None None []). split; [intros c []|]. split; [intros c1 c2 []|intros c1 c2 []].
Qed.

Definition root_idx (c : mtree) : list N := match m_name c with 1 => [0] | 2 => [1; 0] | 3 => [2] | _ => [] end.
Definition root_core (c : mtree) : core := mkCore (m_name c) false None None (root_idx c).

Theorem master_good : G master.
Proof.
  unfold master, mplain. cbn [map]. apply Good_unfold.
  split; [apply TinyS.s01|]. split; [discriminate|]. split.
  - split.
    { intros c [<-|[<-|[<-|[]]]]; cbn; intros x Hx; cbn in *; intuition. }
    split; [exists true; reflexivity|].
    split.
    { constructor; [intros [H|[H|[]]]; discriminate|]. constructor; [intros [H|[]]; discriminate|].
      constructor; [intros []|constructor]. }
    split.
    + right. split; [reflexivity|]. right. right. split; [intros [H _]; discriminate|]. split; [reflexivity|].
      split; [reflexivity|]. exists root_idx. split; [|split].
      * intros c [<-|[<-|[<-|[]]]]; eexists; reflexivity.
      * intros c x [<-|[<-|[<-|[]]]] [<-|[<-|[<-|[]]]] Hne; try (exfalso; apply Hne; reflexivity);
          exists 0, (TinyS.mkD 0 3 0 MSequence); repeat split; reflexivity.
      * intros l1 c l2 E.
        destruct l1 as [|a1 [|a2 [|a3 l1]]]; cbn [app] in E.
        -- injection E as <- <-. split; [intros x []|]. intros x [<-|[<-|[]]]; reflexivity.
        -- injection E as <- <- <-. split; [intros x [<-|[]]; reflexivity|]. intros x [<-|[]]; reflexivity.
        -- injection E as <- <- <- <-. split; [intros x [<-|[<-|[]]]; reflexivity|intros x []].
        -- exfalso. injection E as _ _ _ E. destruct l1; discriminate.
    + exists root_core. split; [|split].
      * intros c [<-|[<-|[<-|[]]]]; unfold root_core, root_idx, mplain; cbn [m_name map].
        -- apply keystable_unnamed with (sub := (1, 1)); [reflexivity|reflexivity|intros c []].
        -- apply keystable_unnamed with (sub := (2, 2)); [reflexivity|reflexivity|intros c []].
        -- apply keystable_unnamed with (sub := (3, 3)); [reflexivity|reflexivity|intros c []].
      * intros c1 c2 [<-|[<-|[<-|[]]]] [<-|[<-|[<-|[]]]]; vm_compute; intros H; try reflexivity; discriminate.
      * intros c1 c2 [<-|[<-|[<-|[]]]] [<-|[<-|[<-|[]]]]; vm_compute; intros H; try reflexivity; discriminate.
  - intros c [<-|[<-|[<-|[]]]]; apply good_empty; try discriminate; try apply TinyS.s01; try apply TinyS.s0; try apply TinyS.s1;
      exists false; reflexivity.
Qed.

End TinyC.
