(* Tree/CopyProofsDefs.v — specification vocabulary of property C13 (deep copy and duplication).
   DEFINITIONS ONLY (plus Examples); the proofs are in Tree/CopyProofs*.v and Tree/Frame.v.

   Everything here is stated without reference to the code of deep_copy: it describes, declaratively, what a
   faithful (version-filtered) copy of a subtree is.
     Closed w           allocation discipline of a world: nodes live below w_next, content lists name nodes
     Ext w w'           w' extends w: everything allocated in w is untouched, files / models untouched
     kept_attrs         the attributes of an element that are permitted in a version (None: the element itself is
                        not permitted there: an attribute without specification, or a REQUIRED attribute that is
                        not permitted)
     Filt v w s w' c    the subtree c of w' is the subtree s of w filtered for version v: same name / type /
                        comment, permitted attributes, character data kept, a sub-element kept iff its name is
                        permitted under its parent in v and the sub-element itself is permitted
     Iso w s w' c       the two subtrees are equal up to node ids (name, type, attributes, comment, content)
     AllValidIn v w s   every attribute and every sub-element of the subtree is permitted in v
     IsoRen             Iso up to the text of the own SHORT-NAME (first sub-element) of the copy *)
From AV Require Import Base.Bytes Base.Outcome Hash.HashModel Tree.Heap Tree.Ops.
Open Scope string_scope.
Open Scope list_scope.
Open Scope N_scope.

Definition Closed (w : world) : Prop :=
  (forall i n, w_nodes w i = Some n -> i < w_next w) /\
  (forall p n c, w_nodes w p = Some n -> In (CElem c) (n_content n) -> exists cn, w_nodes w c = Some cn).

Definition Ext (w w' : world) : Prop :=
  w_next w <= w_next w' /\
  (forall i, i < w_next w -> w_nodes w' i = w_nodes w i) /\
  w_files w' = w_files w /\ w_models w' = w_models w.

(* orig, orig_1, orig_2, ... : the names make_unique_item_name may choose *)
Definition suffixed (orig : list N) (k : N) : list N := orig ++ [95] ++ to_dec k.
Definition NameOf (orig name : list N) : Prop := name = orig \/ exists k, 1 <= k /\ name = suffixed orig k.


(* every node of the copy is fresh *)
Inductive FreshTree (lo : N) (w : world) : id -> Prop :=
| FT_node c nc : w_nodes w c = Some nc -> lo <= c ->
    (forall x, In (CElem x) (n_content nc) -> FreshTree lo w x) -> FreshTree lo w c.


(* the model list changes at most in the two index maps of model m *)
Definition IdxOnly (m : N) (ms ms' : list model) : Prop :=
  ms' = ms \/
  exists x i o, nth_opt ms (N.to_nat m) = Some x /\
                ms' = list_set ms (N.to_nat m) (mkModel (m_root x) (m_files x) i o).


Definition FreeName (w : world) (m : N) (path : list N) : Prop :=
  exists x, nth_opt (w_models w) (N.to_nat m) = Some x /\ assoc_get path (m_idents x) = None.


(* every node of a fresh region (id >= lo) lists only sub-elements of that region *)
Definition FreshKids (lo : N) (w : world) : Prop :=
  forall p n c, lo <= p -> w_nodes w p = Some n -> In (CElem c) (n_content n) -> lo <= c.

(* descendants through content lists: what can be navigated to from a *)
Inductive Sub (w : world) (a : id) : id -> Prop :=
| Sub_refl : Sub w a a
| Sub_step p n c : Sub w a p -> w_nodes w p = Some n -> In (CElem c) (n_content n) -> Sub w a c.

Section Defs.
Variable T : tables.

(* ---------- attributes permitted in a version ---------- *)
Definition attr_keep (ty : N * N) (v : N) (a : N * cdata) : res (option bool) :=
  (let* sp := find_attribute_spec T ty (fst a) in
   Val (match sp with
        | None => None
        | Some (_, spec, required, mask) =>
          if negb (N.land v mask =? 0) && fst (value_compat (snd a) spec v) then Some true
          else if negb (required =? 0) then None else Some false
        end))%res.

Fixpoint kept_attrs (ty : N * N) (v : N) (attrs : list (N * cdata)) : res (option (list (N * cdata))) :=
  match attrs with
  | [] => Val (Some [])
  | a :: rest =>
    (let* k := attr_keep ty v a in
     match k with
     | None => Val None
     | Some b => let* r := kept_attrs ty v rest in
                 Val (option_map (fun l => if b then a :: l else l) r)
     end)%res
  end.

(* ---------- the filtered copy ---------- *)
Inductive Filt (v : N) (w w' : world) : id -> id -> Prop :=
| Filt_node s c ns nc :
    w_nodes w s = Some ns -> w_nodes w' c = Some nc ->
    n_name nc = n_name ns -> n_type nc = n_type ns -> n_comment nc = n_comment ns ->
    kept_attrs (n_type ns) v (n_attrs ns) = Val (Some (n_attrs nc)) ->
    FiltItems v w w' (n_type ns) (n_content ns) (n_content nc) ->
    Filt v w w' s c
with FiltItems (v : N) (w w' : world) : N * N -> list citem -> list citem -> Prop :=
| FI_nil ty : FiltItems v w w' ty [] []
| FI_data ty d r r' : FiltItems v w w' ty r r' -> FiltItems v w w' ty (CData d :: r) (CData d :: r')
| FI_keep ty s c sn x r r' :
    w_nodes w s = Some sn -> find_sub_element T ty (n_name sn) v = Val (Some x) ->
    Filt v w w' s c -> FiltItems v w w' ty r r' ->
    FiltItems v w w' ty (CElem s :: r) (CElem c :: r')
| FI_drop_name ty s sn r r' :              (* the name is not a sub-element of the parent in this version *)
    w_nodes w s = Some sn -> find_sub_element T ty (n_name sn) v = Val None ->
    FiltItems v w w' ty r r' -> FiltItems v w w' ty (CElem s :: r) r'
| FI_drop_attrs ty s sn x r r' :           (* the sub-element itself is not permitted (see kept_attrs) *)
    w_nodes w s = Some sn -> find_sub_element T ty (n_name sn) v = Val (Some x) ->
    kept_attrs (n_type sn) v (n_attrs sn) = Val None ->
    FiltItems v w w' ty r r' -> FiltItems v w w' ty (CElem s :: r) r'.

Scheme Filt_mind := Minimality for Filt Sort Prop
  with FiltItems_mind := Minimality for FiltItems Sort Prop.
Combined Scheme Filt_mutind from Filt_mind, FiltItems_mind.

(* ---------- equality up to node ids ---------- *)
Inductive Iso (w w' : world) : id -> id -> Prop :=
| Iso_node s c ns nc :
    w_nodes w s = Some ns -> w_nodes w' c = Some nc ->
    n_name nc = n_name ns -> n_type nc = n_type ns -> n_comment nc = n_comment ns -> n_attrs nc = n_attrs ns ->
    IsoItems w w' (n_content ns) (n_content nc) ->
    Iso w w' s c
with IsoItems (w w' : world) : list citem -> list citem -> Prop :=
| II_nil : IsoItems w w' [] []
| II_data d r r' : IsoItems w w' r r' -> IsoItems w w' (CData d :: r) (CData d :: r')
| II_elem s c r r' : Iso w w' s c -> IsoItems w w' r r' -> IsoItems w w' (CElem s :: r) (CElem c :: r').

Scheme Iso_mind := Minimality for Iso Sort Prop
  with IsoItems_mind := Minimality for IsoItems Sort Prop.
Combined Scheme Iso_mutind from Iso_mind, IsoItems_mind.

(* ---------- every part of the subtree is permitted in version v ---------- *)
Inductive AllValidIn (v : N) (w : world) : id -> Prop :=
| AV_node s ns :
    w_nodes w s = Some ns ->
    kept_attrs (n_type ns) v (n_attrs ns) = Val (Some (n_attrs ns)) ->
    AllValidItems v w (n_type ns) (n_content ns) ->
    AllValidIn v w s
with AllValidItems (v : N) (w : world) : N * N -> list citem -> Prop :=
| AVI_nil ty : AllValidItems v w ty []
| AVI_data ty d r : AllValidItems v w ty r -> AllValidItems v w ty (CData d :: r)
| AVI_elem ty s sn x r :
    w_nodes w s = Some sn -> find_sub_element T ty (n_name sn) v = Val (Some x) ->
    AllValidIn v w s -> AllValidItems v w ty r -> AllValidItems v w ty (CElem s :: r).

Scheme AllValidIn_mind := Minimality for AllValidIn Sort Prop
  with AllValidItems_mind := Minimality for AllValidItems Sort Prop.
Combined Scheme AllValid_mutind from AllValidIn_mind, AllValidItems_mind.

(* what a copy into `self` (an element of model m) may touch: nothing allocated before except `self`, no file, and of
   the models only the two index maps of m *)
Definition CopyFrame (self : id) (m : N) (w w' : world) : Prop :=
  w_next w <= w_next w' /\ (forall i, i < w_next w -> i <> self -> w_nodes w' i = w_nodes w i) /\
  w_files w' = w_files w /\ IdxOnly m (w_models w) (w_models w').

(* the fresh part: the final world w' against the world w1 right after deep_copy.  The copy c got its parent link;
   if it had to be renamed, the text of its SHORT-NAME (its first sub-element s) is `name`; nothing else differs *)
Definition CopyRel (w1 w' : world) (self c : id) : Prop :=
  exists nc1, w_nodes w1 c = Some nc1 /\ w_nodes w' c = Some (set_parent nc1 (PElem self)) /\
  ((forall i, i <> self -> i <> c -> w_nodes w' i = w_nodes w1 i) \/
   exists s rest sn name orig,
     n_content nc1 = CElem s :: rest /\ w_nodes w1 s = Some sn /\ c < s /\
     w_nodes w' s = Some (set_content sn [CData (DString name)]) /\
     (exists k, 1 <= k /\ name = suffixed orig k) /\
     item_name T (set_parent nc1 (PElem self))
       (mkWorld (upd (w_nodes w1) c (set_parent nc1 (PElem self))) (w_next w1) (w_files w1) (w_models w1))
     = Val (OK (Some orig), mkWorld (upd (w_nodes w1) c (set_parent nc1 (PElem self))) (w_next w1) (w_files w1) (w_models w1)) /\
     (forall i, i <> self -> i <> c -> i <> s -> w_nodes w' i = w_nodes w1 i)).



(* ---------- registration in the reverse-reference index ---------- *)
(* i is a reference element whose text is the string p (the test of the registration walk) *)
Definition RefText (w : world) (i : id) (p : list N) : Prop :=
  exists n, w_nodes w i = Some n /\ is_ref T (n_type n) = Val true /\
            character_data T n = Val (Some (DString p)).

(* ---------- registration in the path index, in terms of the model's own queries ---------- *)
(* Element::is_identifiable answers true *)
Definition IsIdent (w : world) (i : id) : Prop :=
  exists n, w_nodes w i = Some n /\ is_identifiable T n w = Val (OK true, w).
(* the path segment an element contributes: "/" + item name when it is identifiable and has one, else nothing *)
Definition SegOf (w : world) (i : id) (s : list N) : Prop :=
  exists n b, w_nodes w i = Some n /\ is_identifiable T n w = Val (OK b, w) /\
    ((b = false /\ s = []) \/
     (b = true /\ exists o, item_name T n w = Val (OK o, w) /\ s = match o with Some x => [47] ++ x | None => [] end)).
(* j is reached from i through content lists; q = the segments of i, ..., j *)
Inductive RPath (w : world) : id -> id -> list N -> Prop :=
| RP_here i s : SegOf w i s -> RPath w i i s
| RP_down i n c j s q : SegOf w i s -> w_nodes w i = Some n -> In (CElem c) (n_content n) -> RPath w c j q ->
    RPath w i j (s ++ q).
(* no two identifiable elements below i have the same relative path (in particular: no identifiable element without
   item name below an identifiable one — known finding C13-copy-nameless-shortname) *)
Definition UniqueRel (w : world) (i : id) : Prop :=
  forall j1 j2 q, RPath w i j1 q -> RPath w i j2 q -> IsIdent w j1 -> IsIdent w j2 -> j1 = j2.

End Defs.

(* get_element_by_path(k) = j in model m *)
Definition HasId (w : world) (m : N) (k : list N) (j : id) : Prop :=
  exists x, nth_opt (w_models w) (N.to_nat m) = Some x /\ assoc_get k (m_idents x) = Some j.

(* i is listed among the referrers of path p in model m (get_references_to) *)
Definition HasOrigin (w : world) (m : N) (p : list N) (i : id) : Prop :=
  exists x l, nth_opt (w_models w) (N.to_nat m) = Some x /\ assoc_get p (m_origins x) = Some l /\ In i l.

(* ---------- Iso up to the text of the own SHORT-NAME ----------
   the copy c equals the source s except that, when [renamed], its first sub-element (the SHORT-NAME) has the
   single text item [name] instead of the source's text *)
Definition IsoRen (w w' : world) (s c : id) (name : list N) : Prop :=
  exists ns nc s0 c0 sn0 cn0 rs rc,
    w_nodes w s = Some ns /\ w_nodes w' c = Some nc /\
    n_name nc = n_name ns /\ n_type nc = n_type ns /\ n_comment nc = n_comment ns /\ n_attrs nc = n_attrs ns /\
    n_content ns = CElem s0 :: rs /\ n_content nc = CElem c0 :: rc /\ IsoItems w w' rs rc /\
    w_nodes w s0 = Some sn0 /\ w_nodes w' c0 = Some cn0 /\
    n_name cn0 = n_name sn0 /\ n_type cn0 = n_type sn0 /\ n_comment cn0 = n_comment sn0 /\ n_attrs cn0 = n_attrs sn0 /\
    n_content cn0 = [CData (DString name)].

Example suffixed_ex : suffixed (BS "Sig") 12 = BS "Sig_12".
Proof. reflexivity. Qed.
