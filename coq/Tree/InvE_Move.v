(* GENERATED from Tree/InvProofsMove.v by tools/c03_gen_invE.py: the same proof over NoOrphanP (no RootsOnly), see Tree/InvEBase.v *)
(* Tree/InvProofsMove.v — C03 proofs: move_element_position / _local / _full and move_element_here(_at). *)
From Coq Require Import PeanoNat Arith.
From AV Require Import Base.Bytes Base.Outcome Hash.HashModel Tree.Heap Tree.Ops Tree.Script Tree.Inv
  Tree.InvProofsBase Tree.InvProofsCore Tree.InvProofsTree Tree.InvProofsPrim Tree.InvEBase Tree.InvProofsCreate Tree.InvE_Create
  Tree.InvProofsData Tree.InvProofsRefs Tree.InvProofsRemove Tree.InvE_Remove.
Open Scope string_scope.
Open Scope list_scope.
Open Scope N_scope.

(* ancestor_is decides "other is a proper ancestor" along the parent links *)
Lemma ancestor_is_falseE f : forall w x n other,
  w_nodes w x = Some n -> ancestor_is f (n_parent n) other w = Val (OK false, w) -> x <> other -> ~ AncS w other x.
Proof.
  induction f as [|f IH]; intros w x n other Hn H Hne Ha; cbn [ancestor_is] in H; [discriminate|].
  destruct Ha as [|x p Hp Ha]; [congruence|].
  destruct Hp as (n' & Hn' & Hp). assert (n' = n) as -> by congruence. rewrite Hp in H.
  destruct (p =? other) eqn:E; [winv H|]. apply N.eqb_neq in E.
  wstepn H np Ep; winv Ep.
  match goal with Hq : w_nodes w p = Some ?nq |- _ => exact (IH w p nq other Hq H E Ha) end.
Qed.

(* ------------------------------------------------------------------ same tree and heads only get cleaner *)
Definition hmE (w0 w : world) : Prop := forall i, node_head_elem w0 i = false -> node_head_elem w i = false.
Definition sthE (w0 w : world) : Prop := same_tree w0 w /\ hmE w0 w.
Lemma sth_reflE w : sthE w w. Proof. split; [apply same_tree_refl | intros i Hi; exact Hi]. Qed.
Lemma sth_transE a b c : sthE a b -> sthE b c -> sthE a c.
Proof. intros (S1 & H1) (S2 & H2). split; [eapply same_tree_trans; eauto | intros i Hi; auto]. Qed.
Lemma bn_sthE a b : bn a b -> sthE a b.
Proof. intros (S1 & H1 & _). split; auto. Qed.

Definition sthpE {A} (w0 : world) (m : W A) : Prop := forall w r w', sthE w0 w -> m w = Val (r, w') -> sthE w0 w'.
Lemma sthp_of_stepE {A} w0 (m : W A) : (forall w r w', m w = Val (r, w') -> sthE w w') -> sthpE w0 m.
Proof. intros H w r w' B E. eapply sth_transE; eauto. Qed.
Lemma sthp_bindE {A B} w0 (m : W A) (k : A -> W B) : sthpE w0 m -> (forall a, sthpE w0 (k a)) -> sthpE w0 (wbind m k).
Proof.
  intros Hm Hk w r w' Bn H. apply wbind_inv in H as [(a & w1 & H1 & H2) | (e & H1 & _)].
  - eapply Hk; [eapply Hm; eauto | eauto].
  - eapply Hm; eauto.
Qed.
Lemma sthp_nfpE {A} w0 (m : W A) : nfpE m -> sthpE w0 m.
Proof.
  intros Hn. apply sthp_of_stepE. intros w r w' E. destruct (Hn _ _ _ E) as (Hx & Hnx & Hr). split.
  - repeat split; auto. intros i. unfold skel. rewrite Hx. reflexivity.
  - intros i Hi. unfold node_head_elem in *. rewrite Hx. exact Hi.
Qed.
Lemma sthp_roE {A} w0 (m : W A) : ro m -> sthpE w0 m.
Proof. intros H. apply sthp_nfpE, nfp_roE, H. Qed.

Section Move.
Variable T : tables.
Variable tab_el tab_en : nametab.
Variable check_fn : N -> list N -> res bool.
Variable LATEST : N.

Lemma parent_of_someE n w p : parent_of n w = Val (OK (Some p), w) -> n_parent n = PElem p.
Proof. unfold parent_of. destruct (n_parent n); intros H; winv H; congruence. Qed.

Lemma detach_invE p c w r w' :
  detach_from p c w = Val (r, w') ->
  (exists e, r = ER e /\ w' = w) \/
  (exists pn k, w_nodes w p = Some pn /\ index_of (citem_is c) (n_content pn) = Some k /\ r = OK tt /\
                w' = wset w p (set_content pn (remove_at (n_content pn) k))).
Proof.
  unfold detach_from. intros H. wstepn H pn Ep; winv Ep.
  destruct (index_of (citem_is c) (n_content n)) as [k|] eqn:Hk.
  - apply set_node_wset in H as (-> & ->). right. eauto 10.
  - winv H. left. eauto.
Qed.

(* heads and the index under the two structural steps of a move *)
Lemma hb_detachE w p pn k c :
  w_nodes w p = Some pn -> nth_opt (n_content pn) k = Some (CElem c) ->
  hb w (wset w p (set_content pn (remove_at (n_content pn) k))).
Proof.
  intros Hp Hk. split; [|intros re Hr; exact Hr].
  intros i Hi. unfold node_head_elem in *. destruct (N.eq_dec i p) as [->|Hip].
  - rewrite nodes_wset_eq. rewrite Hp in Hi. unfold head_elem in *. cbn.
    destruct (n_content pn) as [|[x|d] t]; auto; try discriminate.
    destruct k; cbn in Hk; [discriminate|]. reflexivity.
  - rewrite nodes_wset_neq by auto. exact Hi.
Qed.
Lemma hb_set_parentE w i n pp : w_nodes w i = Some n -> hb w (wset w i (set_parent n pp)).
Proof.
  intros Hn. split; [|intros re Hr; exact Hr].
  intros j Hj. unfold node_head_elem in *. destruct (N.eq_dec j i) as [->|Hji].
  - rewrite nodes_wset_eq. rewrite Hn in Hj. exact Hj.
  - rewrite nodes_wset_neq by auto. exact Hj.
Qed.

Definition fixid_bodyE (m : N) (src_prefix dest_path : list N) (op : list N) : W unit :=
  match strip_prefix src_prefix op with
  | Some suffix => fix_identifiables m op (dest_path ++ suffix)
  | None => wret tt
  end.
Lemma stp_each_fixidE m sp dp l : stp (each_loop (fixid_bodyE m sp dp) l).
Proof. induction l as [|a l IH]; cbn [each_loop]; [stp_tac|]. unfold fixid_bodyE at 1. stp_tac. Qed.
Lemma bnp_each_fixidE w0 m sp dp l : bnp w0 (each_loop (fixid_bodyE m sp dp) l).
Proof.
  apply bnp_each_loop. intros a. unfold fixid_bodyE. destruct (strip_prefix sp a);
    [apply bnp_fix_identifiables | apply bnp_ro; ro_tac].
Qed.

Definition MidE (w2 wk : world) : Prop := shr w2 wk /\ (OriginsClean w2 -> bn w2 wk).
Lemma mid_reflE w2 : Core w2 -> MidE w2 w2.
Proof. intros C. split; [apply shr_refl; auto | intros; apply bn_refl]. Qed.
Lemma mid_stepE {A} (comp : W A) w2 wk r wk' :
  Core w2 -> shrp comp -> (OriginsClean w2 -> bnp w2 comp) -> MidE w2 wk -> comp wk = Val (r, wk') -> MidE w2 wk'.
Proof.
  intros C Hs Hb (Sk & Bk) E. split.
  - eapply shr_trans; [exact Sk|]. eapply Hs; eauto. eapply Core_shr; eauto.
  - intros Hc. eapply (Hb Hc); eauto.
Qed.

Lemma move_local_specE self mv pos m version w r w' :
  move_element_local T check_fn self mv pos m version w = Val (r, w') -> Core w -> self <> mv ->
  Core w' /\
  (NoOrphanP w -> OriginsClean w -> NoOrphanP w' \/ (exists e, r = ER e /\ parent_in w' mv = PElem self)).
Proof.
  intros H C Hsm. unfold move_element_local in H.
  assert (F : Core w /\ (NoOrphanP w -> OriginsClean w ->
                         NoOrphanP w \/ (exists e, r = ER e /\ parent_in w mv = PElem self))) by auto.
  wrun_ro H ltac:(exact F).
  match goal with
  | E0 : parent_of ?mn0 w = Val (OK (Some ?sp0), w), Es : path_unchecked T ?mn0 w = Val (OK ?spx, w),
    Ed : path_unchecked T ?n0 w = Val (OK ?dpx, w), Hm : w_nodes w mv = Some ?mn0, Hs : w_nodes w self = Some ?n0,
    Ea : ancestor_is _ (n_parent ?n0) mv w = _, En : named_paths T _ w = Val (OK ?orig, w) |- _ =>
    rename mn0 into mn; rename sp0 into sp; rename spx into src_prefix; rename dpx into dest_prefix;
    rename n0 into ns; rename orig into original;
    apply parent_of_someE in E0; rename E0 into Hpm; rename Hm into Hmv; rename Hs into Hself; rename Ea into Hanc
  end.
  assert (Hpar0 : par w mv sp) by (exists mn; auto).
  assert (Hna : ~ AncS w mv self) by (eapply ancestor_is_falseE; eauto).
  assert (Hmsp : mv <> sp).
  { intros <-. eapply (ancs_par_irrefl w mv mv); eauto; [apply C; eexists; eauto | constructor]. }
  (* detach *)
  wstepn H u Ed. 2:{ apply detach_invE in Ed as [(e' & _ & ->)|(pn & k & _ & _ & [=] & _)]. exact F. }
  apply detach_invE in Ed as [(e' & [=] & _)|(pn & k & Hpn & Hk & _ & ->)].
  set (w1 := wset w sp _) in *.
  pose proof (index_of_citem _ _ _ Hk) as Hnth.
  assert (Hks : forall x, In x (elems (remove_at (n_content pn) k)) <-> In x (kids pn) /\ x <> mv).
  { intros x. apply elems_remove_elem; auto. eapply c_nodup; eauto. }
  assert (Hi1 : skel w sp = Some (n_parent pn, kids pn)) by (apply skel_some; auto).
  assert (Hi1' : skel w1 sp = Some (n_parent pn, elems (remove_at (n_content pn) k))).
  { unfold w1. rewrite skel_wset_eq. reflexivity. }
  assert (S1 : shr w w1).
  { eapply shr_upd1; eauto using upd1_wset.
    - intros x Hx. apply Hks in Hx. tauto.
    - apply elems_remove_nodup. eapply c_nodup; eauto. }
  assert (C1 : Core w1) by (eapply Core_shr; eauto).
  assert (Hun1 : forall p, ~ lists w1 p mv).
  { intros p Hl. pose proof (c_up _ C1 _ _ Hl) as Hp. apply (shr_par _ _ _ _ S1) in Hp.
    rewrite (par_fun _ _ _ _ Hp Hpar0) in Hl. apply lists_skel in Hl as (qa & qb & Eq & Hin).
    rewrite Hi1' in Eq. injection Eq as <- <-. apply Hks in Hin. tauto. }
  assert (O1 : NoOrphanP w -> OrphSubE w1 (fun x => x = mv)).
  { intros O. apply NoOrphanP_OrphSubE in O.
    eapply OrphSubE_weaken; [|eapply orphsubE_drop; eauto using upd1_wset].
    intros x [[]|(Hin & Hnin)]. destruct (N.eq_dec x mv); auto. exfalso. apply Hnin. apply Hks. auto. }
  assert (B1 : hb w w1) by (eapply hb_detachE; eauto).
  (* re-parent *)
  wstepn H u2 Em. apply modify_node_wset in Em as (mn1 & Hmn1 & _ & ->).
  assert (mn1 = mn) as -> by (unfold w1 in Hmn1; rewrite nodes_wset_neq in Hmn1 by auto; congruence).
  set (w2 := wset w1 mv _) in *.
  assert (Hi2 : skel w1 mv = Some (PElem sp, kids mn)) by (rewrite (skel_some _ _ _ Hmn1), Hpm; auto).
  assert (Hi2' : skel w2 mv = Some (PElem self, kids mn)) by (unfold w2; rewrite skel_wset_eq; reflexivity).
  assert (C2 : Core w2).
  { eapply (core_reparent w1 w2 mv); eauto using upd1_wset.
    - congruence.
    - apply (shr_alloc _ _ _ S1). eexists; eauto.
    - rewrite (shr_ancs _ _ _ _ S1). auto. }
  assert (O2 : NoOrphanP w -> OrphSubE w2 (fun x => x = mv)).
  { intros O. eapply OrphSubE_weaken; [|eapply orphsubE_reparent; eauto using upd1_wset]. cbn. tauto. }
  assert (Hpar2 : par w2 mv self) by (apply par_skel; eauto).
  assert (Hun2 : forall p, ~ lists w2 p mv).
  { intros p Hl. apply (Hun1 p). apply lists_skel in Hl as (qa & qb & Eq & Hin). apply lists_skel.
    destruct (N.eq_dec p mv) as [->|Hp].
    - rewrite Hi2' in Eq. injection Eq as <- <-. eauto.
    - unfold w2 in Eq. rewrite skel_wset_neq in Eq by auto. eauto. }
  assert (B2 : hb w w2) by (eapply hb_trans; [exact B1 | eapply hb_set_parentE; eauto]).
  assert (Cl2 : OriginsClean w -> OriginsClean w2) by (intros Hc; eapply hb_clean; eauto).
  clearbody w2 w1.
  assert (EXIT : forall wk e, MidE w2 wk ->
            Core wk /\ (NoOrphanP w -> OriginsClean w ->
                        NoOrphanP wk \/ (exists e0, @ER id e = ER e0 /\ parent_in wk mv = PElem self))).
  { intros wk e (Sk & _). split; [eapply Core_shr; eauto|]. intros _ _. right. exists e. split; auto.
    apply (shr_par _ _ _ _ Sk) in Hpar2. destruct Hpar2 as (nk & Hnk & Hpk). unfold parent_in. rewrite Hnk. auto. }
  pose proof (mid_reflE _ C2) as M2.
  wstepn H mn2 Eg; winv Eg.
  wstepn H ident Ei. 2:{ unfold is_identifiable in Ei. absurd_err Ei. }
  wstepn H dest_path Edp.
  2:{ apply EXIT. eapply (mid_stepE _ w2 w2); eauto.
      - destruct ident; [|apply shrp_stp; stp_tac]. apply shrp_stp. apply stp_bind; [apply stp_make_unique|intros; stp_tac].
      - intros Hc. destruct ident; [|apply bnp_ro; ro_tac].
        apply bnp_bind; [apply bnp_make_unique|intros; apply bnp_ro; ro_tac]. }
  assert (M3 : MidE w2 w0).
  { eapply (mid_stepE _ w2 w2); eauto.
    - destruct ident; [|apply shrp_stp; stp_tac]. apply shrp_stp. apply stp_bind; [apply stp_make_unique|intros; stp_tac].
    - intros Hc. destruct ident; [|apply bnp_ro; ro_tac].
      apply bnp_bind; [apply bnp_make_unique|intros; apply bnp_ro; ro_tac]. }
  wstepn H u3 Ea.
  2:{ apply EXIT. eapply (mid_stepE _ w2 w0); eauto.
      - destruct ident; [apply shrp_stp; stp_tac|]. apply shrp_stp. apply (stp_each_fixidE m src_prefix dest_path).
      - intros Hc. destruct ident; [apply bnp_fix_identifiables|]. apply (bnp_each_fixidE w2 m src_prefix dest_path). }
  assert (M4 : MidE w2 w3).
  { eapply (mid_stepE _ w2 w0); eauto.
    - destruct ident; [apply shrp_stp; stp_tac|]. apply shrp_stp. apply (stp_each_fixidE m src_prefix dest_path).
    - intros Hc. destruct ident; [apply bnp_fix_identifiables|]. apply (bnp_each_fixidE w2 m src_prefix dest_path). }
  wstepn H u4 Eb.
  2:{ apply EXIT. eapply (mid_stepE _ w2 w3); eauto.
      - apply (shrp_each_loop (move_ref_body T check_fn m src_prefix dest_path version)).
        intros a. apply shrp_move_ref_body.
      - intros Hc. apply (bnp_each_loop w2 (move_ref_body T check_fn m src_prefix dest_path version)).
        intros a. apply bnp_move_ref_body; auto. }
  assert (M5 : MidE w2 w4).
  { eapply (mid_stepE _ w2 w3); eauto.
    - apply (shrp_each_loop (move_ref_body T check_fn m src_prefix dest_path version)).
      intros a. apply shrp_move_ref_body.
    - intros Hc. apply (bnp_each_loop w2 (move_ref_body T check_fn m src_prefix dest_path version)).
      intros a. apply bnp_move_ref_body; auto. }
  destruct M5 as (S5 & B5).
  assert (C5 : Core w4) by (eapply Core_shr; eauto).
  assert (Hpar5 : par w4 mv self) by (apply (shr_par _ _ _ _ S5); auto).
  assert (Hun5 : ~ lists w4 self mv) by (intros Hl; eapply Hun2; eapply shr_lists; eauto).
  wstepn H u5 Ec.
  - winv H. destruct (insert_child_coreE _ _ _ _ _ _ C5 Hpar5 Hun5 Ec) as (C' & _ & HO). split; auto.
    intros O Hc. left. apply NoOrphanP_OrphSubE.
    eapply OrphSubE_weaken; [|apply HO; eapply OrphSubE_same_tree; [apply (proj1 (B5 (Cl2 Hc)))|apply O2; auto]].
    cbn. intros x (-> & Hx). congruence.
  - destruct (insert_child_coreE _ _ _ _ _ _ C5 Hpar5 Hun5 Ec) as (_ & [=] & _).
Qed.
(* ---------- move_element_position ---------- *)
Lemma Pres_move_positionE self mv pos e : PresE (move_element_position self mv pos e).
Proof.
  intros w r w' H C. unfold move_element_position in H.
  assert (F : Core w /\ (NoOrphanP w -> NoOrphanP w)) by auto.
  wrun_ro H ltac:(exact F).
  wstepn H u Es. apply set_node_wset in Es as (_ & ->). winv H.
  match goal with Hi : index_of (citem_is mv) (n_content ?n0) = Some ?k0 |- _ =>
    rename n0 into ns; rename k0 into k; rename Hi into Hk end.
  pose proof (index_of_citem _ _ _ Hk) as Hnth. pose proof (c_nodup _ C _ _ Hn) as Hnd.
  set (n' := set_content ns _).
  assert (Hks : forall x, In x (kids n') <-> In x (kids ns)).
  { intros x. unfold n', kids. cbn. rewrite elems_insert_in. rewrite (elems_remove_elem _ _ _ Hnth Hnd).
    split; [intros [->|(? & _)]; auto; eapply index_of_citem_in; eauto|].
    intros Hx. destruct (N.eq_dec x mv); auto. }
  assert (Hnd' : NoDup (kids n')).
  { unfold n', kids. cbn. apply elems_insert_nodup; [apply elems_remove_nodup; auto|].
    rewrite (elems_remove_elem _ _ _ Hnth Hnd). tauto. }
  assert (Hi : skel w self = Some (n_parent ns, kids ns)) by (apply skel_some; auto).
  assert (Hi' : skel (wset w self n') self = Some (n_parent ns, kids n')) by (rewrite skel_wset_eq; reflexivity).
  split.
  - eapply core_upd_kids; eauto using upd1_wset. intros c Hc. left. apply Hks. auto.
  - intros O. apply NoOrphanP_OrphSubE. apply NoOrphanP_OrphSubE in O.
    eapply OrphSubE_weaken; [|eapply orphsubE_drop; eauto using upd1_wset].
    cbn. intros x [[]|(Hin & Hnin)]. apply Hnin. apply Hks. auto.
Qed.

(* facts about the references collected below the moved element *)
Lemma ref_texts_headsE ids : forall w l, ref_texts T tab_en ids w = Val (OK l, w) ->
  forall s re, In (s, re) l -> node_head_elem w re = false.
Proof.
  induction ids as [|i ids IH]; intros w l H s re Hin; cbn [ref_texts] in H.
  - winv H. destruct Hin.
  - wrun H idtac; try (eapply IH; eauto; fail).
    destruct Hin as [[= <- <-]|Hin]; [|eapply IH; eauto].
    apply character_data_some in Hv0. unfold node_head_elem, head_elem. rewrite Hn, Hv0. reflexivity.
Qed.

(* ---------- the loops of move_element_full ---------- *)
Definition rm_id_loopE (m_src : N) : list (list N * id) -> W unit :=
  fix each (l : list (list N * id)) : W unit :=
    match l with [] => wret tt | (p, _) :: r => (remove_identifiable m_src p;; each r)%W end.
Definition rm_ref_loopE (m_src : N) : list (list N * id) -> W unit :=
  fix each (l : list (list N * id)) : W unit :=
    match l with [] => wret tt | (p, e) :: r => (remove_reference_origin m_src p e;; each r)%W end.
Definition add_id_loopE (m : N) (src_prefix dest_path : list N) : list (list N * id) -> W unit :=
  fix each (l : list (list N * id)) : W unit :=
    match l with
    | [] => wret tt
    | (op, e) :: r =>
      ((match strip_prefix src_prefix op with
        | Some suffix => add_identifiable m (dest_path ++ suffix) e
        | None => wret tt
        end);; each r)%W
    end.
Definition add_ref_loopE (m : N) (src_prefix dest_path : list N) (version : N) (original : list (list N * id))
  : list (list N * id) -> W unit :=
  fix each (l : list (list N * id)) : W unit :=
    match l with
    | [] => wret tt
    | (old_ref, re) :: r =>
      ((if existsb (fun p => bytes_eqb (fst p) old_ref) original then
          match strip_prefix src_prefix old_ref with
          | Some suffix =>
            let refstr := dest_path ++ suffix in
            raw_set_character_data T check_fn re (DString refstr) version;;
            add_reference_origin m refstr re
          | None => add_reference_origin m old_ref re
          end
        else add_reference_origin m old_ref re);; each r)%W
    end.

Lemma nfp_rm_id_loopE m_src l : nfpE (rm_id_loopE m_src l).
Proof.
  induction l as [|[p e] l IH]; cbn [rm_id_loopE]; [nfp_tacE|].
  apply nfp_bindE; [unfold remove_identifiable; nfp_tacE | intros; exact IH].
Qed.
Lemma nfp_rm_ref_loopE m_src l : nfpE (rm_ref_loopE m_src l).
Proof.
  induction l as [|[p e] l IH]; cbn [rm_ref_loopE]; [nfp_tacE|].
  apply nfp_bindE; [unfold remove_reference_origin; nfp_tacE | intros; exact IH].
Qed.
Lemma noerr_rm_id_loopE m_src l : noerr (rm_id_loopE m_src l).
Proof.
  induction l as [|[p e0] l IH]; cbn [rm_id_loopE]; [noerr_tac|].
  apply noerr_bind; [unfold remove_identifiable; noerr_tac | intros; exact IH].
Qed.
Lemma noerr_rm_ref_loopE m_src l : noerr (rm_ref_loopE m_src l).
Proof.
  induction l as [|[p e0] l IH]; cbn [rm_ref_loopE]; [noerr_tac|].
  apply noerr_bind; [unfold remove_reference_origin; noerr_tac | intros; exact IH].
Qed.
Lemma nfp_add_id_loopE m sp dp l : nfpE (add_id_loopE m sp dp l).
Proof.
  induction l as [|[p e] l IH]; cbn [add_id_loopE]; [nfp_tacE|].
  apply nfp_bindE; [unfold add_identifiable; nfp_tacE | intros; exact IH].
Qed.
Lemma nfp_add_reference_originE m r e : nfpE (add_reference_origin m r e).
Proof. unfold add_reference_origin. nfp_tacE. Qed.

Lemma shrp_add_ref_loopE m sp dp version original l : shrp (add_ref_loopE m sp dp version original l).
Proof.
  induction l as [|[p e] l IH]; cbn [add_ref_loopE]; [apply shrp_stp; stp_tac|].
  apply shrp_bind; [|intros; exact IH].
  destruct (existsb _ original); [|apply shrp_stp; stp_tac].
  destruct (strip_prefix sp p); [|apply shrp_stp; stp_tac].
  apply shrp_bind; [apply shrp_raw_set_cdata | intros; apply shrp_stp; stp_tac].
Qed.

Lemma sthp_raw_set_cdataE w0 re v version :
  node_head_elem w0 re = false -> sthpE w0 (raw_set_character_data T check_fn re v version).
Proof.
  intros Hh w r w' B H. eapply sth_transE; [exact B|].
  assert (Hh' : node_head_elem w re = false) by (apply (proj2 B); auto).
  apply raw_set_cdata_invE in H as [->|(n & Hn & _ & ->)]; [apply sth_reflE|]. apply bn_sthE.
  destruct (n_content n) as [|x t] eqn:Hc'.
  - replace [CData v] with (CData v :: match n_content n with [] => [] | _ :: t => t end) by (rewrite Hc'; auto).
    eapply bn_overwrite; eauto.
  - replace (CData v :: t) with (CData v :: match n_content n with [] => [] | _ :: t => t end) by (rewrite Hc'; auto).
    eapply bn_overwrite; eauto.
Qed.

Lemma sthp_add_ref_loopE w0 m sp dp version original l :
  (forall s re, In (s, re) l -> node_head_elem w0 re = false) -> sthpE w0 (add_ref_loopE m sp dp version original l).
Proof.
  induction l as [|[p e] l IH]; intros Hh; cbn [add_ref_loopE]; [apply sthp_roE; ro_tac|].
  apply sthp_bindE; [|intros; apply IH; intros s re Hin; eapply Hh; right; eauto].
  destruct (existsb _ original); [|apply sthp_nfpE, nfp_add_reference_originE].
  destruct (strip_prefix sp p); [|apply sthp_nfpE, nfp_add_reference_originE].
  apply sthp_bindE; [apply sthp_raw_set_cdataE; eapply Hh; left; eauto | intros; apply sthp_nfpE, nfp_add_reference_originE].
Qed.

Lemma sthp_make_uniqueE w0 i m pp : sthpE w0 (make_unique_item_name T i m pp).
Proof.
  apply sthp_of_stepE. intros w r w' H. apply bn_sthE. apply (bnp_make_unique T w i m pp w r w' (bn_refl w) H).
Qed.

Definition MidFE (w2 wk : world) : Prop := shr w2 wk /\ sthE w2 wk.
Lemma midf_stepE {A} (comp : W A) w2 wk r wk' :
  Core w2 -> shrp comp -> sthpE w2 comp -> MidFE w2 wk -> comp wk = Val (r, wk') -> MidFE w2 wk'.
Proof.
  intros C Hs Hb (Sk & Bk) E. split.
  - eapply shr_trans; [exact Sk|]. eapply Hs; eauto. eapply Core_shr; eauto.
  - eapply Hb; eauto.
Qed.

Lemma move_full_specE self mv pos m m_src version w r w' :
  move_element_full T tab_en check_fn self mv pos m m_src version w = Val (r, w') -> Core w ->
  self <> mv -> ~ AncS w mv self ->
  Core w' /\
  (NoOrphanP w -> NoOrphanP w' \/ (exists e, r = ER e /\ parent_in w' mv = PElem self)).
Proof.
  intros H C Hsm Hna. unfold move_element_full in H.
  assert (F : Core w /\ (NoOrphanP w -> NoOrphanP w \/ (exists e, r = ER e /\ parent_in w mv = PElem self))) by auto.
  wrun_ro H ltac:(exact F).
  match goal with
  | E0 : parent_of ?mn0 w = Val (OK (Some ?sp0), w), Es : path_unchecked T ?mn0 w = Val (OK ?spx, w),
    Ed : path_unchecked T ?n0 w = Val (OK ?dpx, w), Hm : w_nodes w mv = Some ?mn0, Hs : w_nodes w self = Some ?n0,
    En : named_paths T _ w = Val (OK ?orig, w), Er : ref_texts T tab_en _ w = Val (OK ?orefs, w) |- _ =>
    rename mn0 into mn; rename sp0 into sp; rename spx into src_prefix; rename dpx into dest_prefix;
    rename n0 into ns; rename orig into original; rename orefs into orig_refs;
    apply parent_of_someE in E0; rename E0 into Hpm; rename Hm into Hmv; rename Hs into Hself;
    pose proof (ref_texts_headsE _ _ _ Er) as Hheads
  end.
  assert (Hpar0 : par w mv sp) by (exists mn; auto).
  assert (Hmsp : mv <> sp).
  { intros <-. eapply (ancs_par_irrefl w mv mv); eauto; [apply C; eexists; eauto | constructor]. }
  (* detach *)
  wstepn H u Ed. 2:{ apply detach_invE in Ed as [(e' & _ & ->)|(pn & k & _ & _ & [=] & _)]. exact F. }
  apply detach_invE in Ed as [(e' & [=] & _)|(pn & k & Hpn & Hk & _ & ->)].
  set (w1 := wset w sp _) in *.
  pose proof (index_of_citem _ _ _ Hk) as Hnth.
  assert (Hks : forall x, In x (elems (remove_at (n_content pn) k)) <-> In x (kids pn) /\ x <> mv).
  { intros x. apply elems_remove_elem; auto. eapply c_nodup; eauto. }
  assert (Hi1 : skel w sp = Some (n_parent pn, kids pn)) by (apply skel_some; auto).
  assert (Hi1' : skel w1 sp = Some (n_parent pn, elems (remove_at (n_content pn) k))).
  { unfold w1. rewrite skel_wset_eq. reflexivity. }
  assert (S1 : shr w w1).
  { eapply shr_upd1; eauto using upd1_wset.
    - intros x Hx. apply Hks in Hx. tauto.
    - apply elems_remove_nodup. eapply c_nodup; eauto. }
  assert (C1 : Core w1) by (eapply Core_shr; eauto).
  assert (Hun1 : forall p, ~ lists w1 p mv).
  { intros p Hl. pose proof (c_up _ C1 _ _ Hl) as Hp. apply (shr_par _ _ _ _ S1) in Hp.
    rewrite (par_fun _ _ _ _ Hp Hpar0) in Hl. apply lists_skel in Hl as (qa & qb & Eq & Hin).
    rewrite Hi1' in Eq. injection Eq as <- <-. apply Hks in Hin. tauto. }
  assert (O1 : NoOrphanP w -> OrphSubE w1 (fun x => x = mv)).
  { intros O. apply NoOrphanP_OrphSubE in O.
    eapply OrphSubE_weaken; [|eapply orphsubE_drop; eauto using upd1_wset].
    intros x [[]|(Hin & Hnin)]. destruct (N.eq_dec x mv); auto. exfalso. apply Hnin. apply Hks. auto. }
  assert (B1 : hmE w w1) by (intros i Hi; unfold w1; apply (proj1 (hb_detachE w sp pn k mv Hpn Hnth)); auto).
  assert (Hmn1 : w_nodes w1 mv = Some mn) by (unfold w1; rewrite nodes_wset_neq by auto; auto).
  clearbody w1.
  (* index removal in the source model: nodes untouched *)
  wstepn H u1 El1. 2:{ exfalso. eapply (noerr_rm_id_loopE m_src original); eauto. }
  match type of El1 with _ = Val (_, ?wx) => rename wx into w1a end.
  wstepn H u1' El2. 2:{ exfalso. eapply (noerr_rm_ref_loopE m_src orig_refs); eauto. }
  match type of El2 with _ = Val (_, ?wx) => rename wx into w3 end.
  destruct (nfp_rm_id_loopE m_src original _ _ _ El1) as (Nx1 & Nn1 & Nr1).
  destruct (nfp_rm_ref_loopE m_src orig_refs _ _ _ El2) as (Nx2 & Nn2 & Nr2).
  assert (ST1 : same_tree w1 w3).
  { repeat split; try congruence. intros i. unfold skel. rewrite Nx2, Nx1. reflexivity. }
  assert (S3 : shr w w3) by (eapply shr_trans; [exact S1 | apply same_tree_shr; auto]).
  assert (C3 : Core w3) by (eapply Core_same_tree; eauto).
  assert (Hun3 : forall p, ~ lists w3 p mv).
  { intros p Hl. apply (Hun1 p). eapply shr_lists; [apply same_tree_shr; [exact C1 | exact ST1] | exact Hl]. }
  assert (O3 : NoOrphanP w -> OrphSubE w3 (fun x => x = mv)) by (intros O; eapply OrphSubE_same_tree; eauto).
  assert (B3 : hmE w w3).
  { intros i Hi. unfold node_head_elem. rewrite Nx2, Nx1. apply B1. auto. }
  assert (Hmn3 : w_nodes w3 mv = Some mn) by (rewrite Nx2, Nx1; auto).
  (* re-parent *)
  wstepn H u2 Em. apply modify_node_wset in Em as (mn1 & Hmn1' & _ & ->).
  assert (mn1 = mn) as -> by congruence.
  set (w2 := wset w3 mv _) in *.
  assert (Hi2 : skel w3 mv = Some (PElem sp, kids mn)) by (rewrite (skel_some _ _ _ Hmn3), Hpm; auto).
  assert (Hi2' : skel w2 mv = Some (PElem self, kids mn)) by (unfold w2; rewrite skel_wset_eq; reflexivity).
  assert (C2 : Core w2).
  { eapply (core_reparent w3 w2 mv); eauto using upd1_wset.
    - congruence.
    - apply (shr_alloc _ _ _ S3). eexists; eauto.
    - rewrite (shr_ancs _ _ _ _ S3). auto. }
  assert (O2 : NoOrphanP w -> OrphSubE w2 (fun x => x = mv)).
  { intros O. eapply OrphSubE_weaken; [|eapply orphsubE_reparent; eauto using upd1_wset]. cbn. tauto. }
  assert (Hpar2 : par w2 mv self) by (apply par_skel; eauto).
  assert (Hun2 : forall p, ~ lists w2 p mv).
  { intros p Hl. apply (Hun3 p). apply lists_skel in Hl as (qa & qb & Eq & Hin). apply lists_skel.
    destruct (N.eq_dec p mv) as [->|Hp].
    - rewrite Hi2' in Eq. injection Eq as <- <-. eauto.
    - unfold w2 in Eq. rewrite skel_wset_neq in Eq by auto. eauto. }
  assert (B2 : hmE w w2).
  { intros i Hi. apply (proj1 (hb_set_parentE w3 mv mn (PElem self) Hmn3)). apply B3. auto. }
  assert (Hheads2 : forall s re, In (s, re) orig_refs -> node_head_elem w2 re = false).
  { intros s re Hin. apply B2. eapply Hheads; eauto. }
  clearbody w2.
  assert (EXIT : forall wk e, MidFE w2 wk ->
            Core wk /\ (NoOrphanP w -> NoOrphanP wk \/ (exists e0, @ER id e = ER e0 /\ parent_in wk mv = PElem self))).
  { intros wk e (Sk & _). split; [eapply Core_shr; eauto|]. intros _. right. exists e. split; auto.
    apply (shr_par _ _ _ _ Sk) in Hpar2. destruct Hpar2 as (nk & Hnk & Hpk). unfold parent_in. rewrite Hnk. auto. }
  assert (M2 : MidFE w2 w2) by (split; [apply shr_refl; auto | apply sth_reflE]).
  wstepn H mn2 Eg; winv Eg.
  wstepn H ident Ei. 2:{ unfold is_identifiable in Ei. absurd_err Ei. }
  wstepn H dest_path Edp.
  2:{ apply EXIT. eapply (midf_stepE _ w2 w2); eauto.
      - destruct ident; [|apply shrp_stp; stp_tac]. apply shrp_stp. apply stp_bind; [apply stp_make_unique|intros; stp_tac].
      - destruct ident; [|apply sthp_roE; ro_tac].
        apply sthp_bindE; [apply sthp_make_uniqueE|intros; apply sthp_roE; ro_tac]. }
  match type of Edp with _ = Val (_, ?wx) => rename wx into wq1 end.
  assert (M3 : MidFE w2 wq1).
  { eapply (midf_stepE _ w2 w2); eauto.
    - destruct ident; [|apply shrp_stp; stp_tac]. apply shrp_stp. apply stp_bind; [apply stp_make_unique|intros; stp_tac].
    - destruct ident; [|apply sthp_roE; ro_tac].
      apply sthp_bindE; [apply sthp_make_uniqueE|intros; apply sthp_roE; ro_tac]. }
  wstepn H u3 Ea.
  2:{ apply EXIT. eapply (midf_stepE _ w2 wq1); eauto.
      - apply shrp_stp. intros wa ra wb Hab. destruct (nfp_add_id_loopE m src_prefix dest_path original _ _ _ Hab) as (X1 & X2 & X3).
        repeat split; auto. intros i. unfold skel. rewrite X1. reflexivity.
      - apply sthp_nfpE. apply (nfp_add_id_loopE m src_prefix dest_path original). }
  match type of Ea with _ = Val (_, ?wx) => rename wx into wq2 end.
  assert (M4 : MidFE w2 wq2).
  { eapply (midf_stepE _ w2 wq1); eauto.
    - apply shrp_stp. intros wa ra wb Hab. destruct (nfp_add_id_loopE m src_prefix dest_path original _ _ _ Hab) as (X1 & X2 & X3).
      repeat split; auto. intros i. unfold skel. rewrite X1. reflexivity.
    - apply sthp_nfpE. apply (nfp_add_id_loopE m src_prefix dest_path original). }
  wstepn H u4 Eb.
  2:{ apply EXIT. eapply (midf_stepE _ w2 wq2); eauto.
      - apply (shrp_add_ref_loopE m src_prefix dest_path version original orig_refs).
      - apply (sthp_add_ref_loopE w2 m src_prefix dest_path version original orig_refs). auto. }
  match type of Eb with _ = Val (_, ?wx) => rename wx into wq3 end.
  assert (M5 : MidFE w2 wq3).
  { eapply (midf_stepE _ w2 wq2); eauto.
    - apply (shrp_add_ref_loopE m src_prefix dest_path version original orig_refs).
    - apply (sthp_add_ref_loopE w2 m src_prefix dest_path version original orig_refs). auto. }
  destruct M5 as (S5 & B5).
  assert (C5 : Core wq3) by (eapply Core_shr; eauto).
  assert (Hpar5 : par wq3 mv self) by (apply (shr_par _ _ _ _ S5); auto).
  assert (Hun5 : ~ lists wq3 self mv) by (intros Hl; eapply Hun2; eapply shr_lists; eauto).
  wstepn H u5 Ec.
  - winv H. destruct (insert_child_coreE _ _ _ _ _ _ C5 Hpar5 Hun5 Ec) as (C' & _ & HO). split; auto.
    intros O. left. apply NoOrphanP_OrphSubE.
    eapply OrphSubE_weaken; [|apply HO; eapply OrphSubE_same_tree; [apply (proj1 B5)|apply O2; auto]].
    cbn. intros x (-> & Hx). congruence.
  - destruct (insert_child_coreE _ _ _ _ _ _ C5 Hpar5 Hun5 Ec) as (_ & [=] & _).
Qed.

(* ---------- move_element_here / move_element_here_at ---------- *)
Definition move_postE (h mv : id) (w : world) (r : out id) (w' : world) : Prop :=
  Core w' /\
  (NoOrphanP w -> OriginsClean w ->
   NoOrphanP w' \/ (exists e, r = ER e /\ parent_in w' mv = PElem h /\ parent_in w mv <> PElem h)).

Lemma move_post_reflE h mv w r : Core w -> move_postE h mv w r w.
Proof. intros C. split; auto. Qed.

Lemma move_local_postE h mv pos m v w r w' mn p :
  move_element_local T check_fn h mv pos m v w = Val (r, w') -> Core w -> h <> mv ->
  w_nodes w mv = Some mn -> n_parent mn = PElem p -> p <> h -> move_postE h mv w r w'.
Proof.
  intros H C Hne Hmn Hp Hph. destruct (move_local_specE _ _ _ _ _ _ _ _ H C Hne) as (C' & HO). split; auto.
  intros O Hc. destruct (HO O Hc) as [?|(e & -> & Hpar)]; auto. right. exists e. repeat split; auto.
  unfold parent_in. rewrite Hmn, Hp. congruence.
Qed.

Lemma move_full_postE h mv pos m m_src v w r w' :
  move_element_full T tab_en check_fn h mv pos m m_src v w = Val (r, w') -> Core w -> h <> mv ->
  model_of mv w = Val (OK m_src, w) -> model_of h w = Val (OK m, w) -> m <> m_src -> move_postE h mv w r w'.
Proof.
  intros H C Hne Hms Hm Hmm.
  apply model_of_top in Hms as (_ & t1 & Ht1 & Hr1). apply model_of_top in Hm as (_ & t2 & Ht2 & Hr2).
  destruct t1 as [|m1|]; try discriminate. injection Hr1 as <-.
  destruct t2 as [|m2|]; try discriminate. injection Hr2 as <-.
  assert (Hna : ~ AncS w mv h).
  { intros Ha. pose proof (top_ancs _ _ _ _ Ha Ht2) as Ht. pose proof (top_fun _ _ _ Ht1 _ Ht). congruence. }
  destruct (move_full_specE _ _ _ _ _ _ _ _ _ H C Hne Hna) as (C' & HO). split; auto.
  intros O _. destruct (HO O) as [?|(e & -> & Hpar)]; auto. right. exists e. repeat split; auto.
  intros Hp. unfold parent_in in Hp. destruct (w_nodes w mv) as [n|] eqn:Hn; [|discriminate].
  assert (Ha : AncS w h mv) by (eapply A_up; [exists n; eauto | constructor]).
  pose proof (top_ancs _ _ _ _ Ha Ht1) as Ht. pose proof (top_fun _ _ _ Ht2 _ Ht). congruence.
Qed.

Lemma e_move_specE h mv w r w' :
  e_move_element_here T tab_en check_fn LATEST h mv w = Val (r, w') -> Core w -> move_postE h mv w r w'.
Proof.
  intros H C. unfold e_move_element_here in H. pose proof (move_post_reflE h mv w r C) as F.
  destruct (h =? mv) eqn:Ehm; [winv H; apply move_post_reflE; auto|]. apply N.eqb_neq in Ehm.
  wrun_ro H ltac:(first [exact F | apply move_post_reflE; auto]).
  - match goal with Hq : (?p =? h) = false |- _ => apply N.eqb_neq in Hq end.
    match goal with Hq : parent_of _ w = Val (OK (Some _), w) |- _ => apply parent_of_someE in Hq end.
    eapply move_local_postE; eauto.
  - match goal with Hq : (?a =? ?b) = false |- _ => apply N.eqb_neq in Hq end.
    eapply move_full_postE; eauto.
Qed.

Lemma e_move_at_specE h mv pos w r w' :
  e_move_element_here_at T tab_en check_fn LATEST h mv pos w = Val (r, w') -> Core w -> move_postE h mv w r w'.
Proof.
  intros H C. unfold e_move_element_here_at in H. pose proof (move_post_reflE h mv w r C) as F.
  destruct (h =? mv) eqn:Ehm; [winv H; apply move_post_reflE; auto|]. apply N.eqb_neq in Ehm.
  wrun_ro H ltac:(first [exact F | apply move_post_reflE; auto]).
  - destruct (Pres_move_positionE _ _ _ _ _ _ _ H C) as (C' & O'). split; auto.
  - match goal with Hq : (?p =? h) = false |- _ => apply N.eqb_neq in Hq end.
    match goal with Hq : parent_of _ w = Val (OK (Some _), w) |- _ => apply parent_of_someE in Hq end.
    eapply move_local_postE; eauto.
  - match goal with Hq : (?a =? ?b) = false |- _ => apply N.eqb_neq in Hq end.
    eapply move_full_postE; eauto.
Qed.

End Move.
