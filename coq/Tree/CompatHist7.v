(* Tree/CompatHist7.v — the typing invariant across AutosarModel::duplicate (Tree/Copy.v).
   The copy loop attaches copies of the children of the original's root below the root of the fresh model; the attached edge is an
   okpair because BOTH roots carry the root element type: the fresh one by construction, the original one by the invariant PM
   (Tree/CompatPM.v) together with C03's Core (a model's root hangs on its model).
     J3 w := Bounded w /\ TypedU T w /\ PM T w        duplicate keeps J3 (from Core w), whatever it returns. *)
From Coq Require Import PeanoNat Arith Lia.
From AV Require Import Base.Bytes Base.Outcome Hash.HashModel Spec.SpecOps Tree.Heap Tree.Ops Tree.Script Tree.Inv
  Tree.InvProofsBase Tree.InvProofsCore Tree.InvProofsPrim Tree.InvProofs Tree.Copy
  Tree.Compat Tree.CompatSpec Tree.CompatTyped Tree.CompatProofs5 Tree.CompatProofs8 Tree.CompatFrame Tree.CompatFrameOps
  Tree.CompatHist1 Tree.CompatHist2 Tree.CompatHist3 Tree.CompatHist4 Tree.CompatPM Tree.CompatPMOps.
Open Scope string_scope.
Open Scope list_scope.
Open Scope N_scope.

Lemma nth_opt_err {A} (l : list A) k : nth_opt l k = nth_error l k.
Proof. revert k. induction l as [|x l IH]; intros [|k]; cbn; auto. Qed.
Lemma nth_opt_snoc_new {A} (l : list A) x : nth_opt (l ++ [x]) (List.length l) = Some x.
Proof. induction l; cbn; auto. Qed.

Section Dup.
Variable T : tables.
Variable tab_el tab_en : nametab.
Variable check_fn : N -> list N -> res bool.
Variable LATEST : N.
Variable root_attrs : list (N * cdata).

(* frame for TypedU/Bounded and frame for PM at once, relative to a base world wb *)
Definition JP {A} (wb : world) (m : W A) : Prop :=
  forall w r w', Fp wb w -> m w = Val (r, w') -> Bounded w -> TypedU T w -> Bounded w' /\ TypedU T w' /\ Fp wb w'.

Lemma JP_frame {A} wb (m : W A) : (forall w0, frp w0 m) -> fpp wb m -> JP wb m.
Proof.
  intros Hf Hp w r w' F H B HT. pose proof (Hf w w r w' (Fr_refl w) H) as Fw.
  split; [exact (Fr_bounded w w' Fw B)|]. split; [exact (Fr_typed_u T w w' Fw HT)|exact (Hp w r w' F H)].
Qed.
Lemma JP_bind {A B} wb (m : W A) (k : A -> W B) : JP wb m -> (forall a, JP wb (k a)) -> JP wb (wbind m k).
Proof.
  intros Hm Hk w r w' F H B0 HT. apply wbind_inv in H as [(a & w1 & H1 & H2) | (e & H1 & _)].
  - destruct (Hm _ _ _ F H1 B0 HT) as (B1 & T1 & F1). exact (Hk a _ _ _ F1 H2 B1 T1).
  - exact (Hm _ _ _ F H1 B0 HT).
Qed.

Lemma frp_dup_files w0 c : forall files filemap, frp w0 (dup_files T c files filemap).
Proof. induction files as [|f rest IH]; intros filemap; cbn [dup_files]; [fr_go|]. pose proof (frp_create_file T w0) as HC. fr_go. Qed.
Lemma fpp_dup_files w0 c : forall files filemap, fpp w0 (dup_files T c files filemap).
Proof. induction files as [|f rest IH]; intros filemap; cbn [dup_files]; [fp_go|]. pose proof (fpp_create_file T w0) as HC. fp_go. Qed.
Lemma frp_dup_membership w0 filemap : forall oids cids, frp w0 (dup_membership filemap oids cids).
Proof. induction oids as [|o orest IH]; intros cids; destruct cids as [|c crest]; cbn [dup_membership]; fr_go. Qed.
Lemma fpp_dup_membership w0 filemap : forall oids cids, fpp w0 (dup_membership filemap oids cids).
Proof. induction oids as [|o orest IH]; intros cids; destruct cids as [|c crest]; cbn [dup_membership]; fp_go. Qed.

(* the copy loop: relative to the base world wb, in which every element of the list may be attached below croot *)
Lemma dup_children_typed wb croot : forall items,
  (forall e, In (CElem e) items -> attach_ok T wb croot e /\ e < w_next wb) -> croot < w_next wb ->
  JP wb (dup_children T LATEST croot items).
Proof.
  induction items as [|it rest IH]; intros Hok Hc w r w' F H B HT; cbn [dup_children] in H.
  - apply wret_inv in H as (_ & ->). auto.
  - destruct it as [e|d]; [|apply (IH (fun e He => Hok e (or_intror He)) Hc w r w' F H B HT)].
    destruct (Hok e (or_introl eq_refl)) as (Ha & He).
    assert (Hat : attach_ok T w croot e).
    { intros n cn Hn Hcn. destruct (Fp_old wb w croot n F Hc Hn) as (n0 & Hn0 & Tn & _).
      destruct (Fp_old wb w e cn F He Hcn) as (c0 & Hc0 & Tc & Nc). rewrite Tn, Tc, Nc. exact (Ha _ _ Hn0 Hc0). }
    apply wbind_inv in H as [(a & w1 & H1 & H2) | (er & H1 & _)].
    + destruct (copy_typed T LATEST croot e _ _ _ H1 B HT Hat) as (B1 & T1).
      pose proof (fpp_e_copy T LATEST wb croot e _ _ _ F H1) as F1.
      exact (IH (fun e He => Hok e (or_intror He)) Hc w1 r w' F1 H2 B1 T1).
    + destruct (copy_typed T LATEST croot e _ _ _ H1 B HT Hat) as (B1 & T1).
      pose proof (fpp_e_copy T LATEST wb croot e _ _ _ F H1) as F1. auto.
Qed.

Definition J3 (w : world) : Prop := Bounded w /\ TypedU T w /\ PM T w.

Lemma new_model_pm w r w' : new_model T root_attrs w = Val (r, w') -> PM T w -> PM T w'.
Proof.
  unfold new_model. intros H P.
  destruct (et_new T (autosar_element T)) as [ty| |] eqn:Ety; destruct (elem T (autosar_element T)) as [ed| |]; try discriminate.
  injection H as <- <-. intros i n m Hn Hp. cbn [w_nodes] in Hn. unfold upd in Hn.
  destruct (N.eqb i (w_next w)) eqn:E; [injection Hn as <-; exact Ety|]. exact (P i n m Hn Hp).
Qed.

Lemma duplicate_body_j3 m w r w' :
  Core w -> m_duplicate_body T LATEST root_attrs m w = Val (r, w') -> J3 w -> J3 w'.
Proof.
  intros C H (B & HT & P). unfold m_duplicate_body in H.
  apply wbind_inv in H as [(x & w0 & H1 & H) | (e & H1 & _)]; apply get_model_inv in H1 as (x' & Hx & Ex & ->); [|discriminate Ex].
  injection Ex as <-.
  apply wbind_inv in H as [(c & w1 & H1 & H) | (e & H1 & _)].
  2:{ destruct (JB_new_model T root_attrs _ _ _ H1 B HT) as (B1 & T1). exact (conj B1 (conj T1 (new_model_pm _ _ _ H1 P))). }
  destruct (JB_new_model T root_attrs _ _ _ H1 B HT) as (B1 & T1). pose proof (new_model_pm _ _ _ H1 P) as P1.
  (* the fresh root *)
  assert (Hnew : exists ty ed, et_new T (autosar_element T) = Val ty /\ c = N.of_nat (List.length (w_models w)) /\
                 w_next w1 = w_next w + 1 /\
                 w_nodes w1 (w_next w) = Some (mkNode (PModel (N.of_nat (List.length (w_models w)))) (ed_name ed) ty [] root_attrs [] None) /\
                 (forall j, j <> w_next w -> w_nodes w1 j = w_nodes w j) /\
                 w_models w1 = w_models w ++ [mkModel (w_next w) [] [] []]).
  { unfold new_model in H1.
    destruct (et_new T (autosar_element T)) as [ty| |] eqn:Ety; destruct (elem T (autosar_element T)) as [ed| |]; try discriminate.
    injection H1 as <- <-. exists ty, ed. cbn [w_next w_nodes w_models]. repeat split; auto.
    - unfold upd. rewrite N.eqb_refl. reflexivity.
    - intros j Hj. unfold upd. apply N.eqb_neq in Hj. rewrite Hj. reflexivity. }
  destruct Hnew as (ty & ed & Ety & Ec & Nx1 & Hroot & Hold & Hm1). subst c.
  (* the original root: model-parented in w (Core), hence of the root type *)
  assert (Hr0 : exists n0, w_nodes w (m_root x) = Some n0 /\ n_type n0 = ty).
  { rewrite nth_opt_err in Hx.
    assert (Hk : nth_error (roots w) (N.to_nat m) = Some (m_root x)) by (unfold roots; rewrite nth_error_map, Hx; reflexivity).
    destruct (c_roots w C _ _ Hk) as (n0 & Hn0 & Hp0). exists n0. split; [exact Hn0|].
    pose proof (P _ _ _ Hn0 Hp0) as E. rewrite Ety in E. congruence. }
  destruct Hr0 as (n0 & Hn0 & Tn0).
  assert (Hlt : m_root x < w_next w) by (destruct B as (X & _); exact (X _ _ Hn0)).
  apply wbind_inv in H as [(rn & w2 & H2 & H) | (e & H2 & _)]; apply get_node_inv in H2 as (rn' & Hrn & Ern & ->); [|discriminate Ern].
  injection Ern as <-. rewrite Hold in Hrn by lia. assert (rn = n0) by congruence. subst rn. clear Hrn.
  apply wbind_inv in H as [(cx & w2 & H2 & H) | (e & H2 & _)]; apply get_model_inv in H2 as (cx' & Hcx & Ecx & ->);
    [|discriminate Ecx].
  injection Ecx as <-.
  assert (Ecr : m_root cx = w_next w).
  { rewrite Hm1, Nnat.Nat2N.id, nth_opt_snoc_new in Hcx. injection Hcx as <-. reflexivity. }
  rewrite Ecr in H.
  (* everything after new_model is JP relative to w1 *)
  assert (HJ : JP w1
    (modify_node (w_next w) (fun r0 => set_comment (set_attrs r0 (n_attrs n0)) (n_comment n0));;
     do filemap <- dup_files T (N.of_nat (List.length (w_models w))) (m_files x) [];
     dup_children T LATEST (w_next w) (n_content n0);;
     do w3 <- wget;
     do oids <- dfs_ids (fuel_of w3) (m_root x);
     do cids <- dfs_ids (fuel_of w3) (w_next w);
     dup_membership filemap oids cids;;
     wret (N.of_nat (List.length (w_models w))))%W).
  { apply JP_bind; [apply JP_frame; [intros w0; fr_go|fp_go]|intros _].
    apply JP_bind; [apply JP_frame; [intros w0; apply frp_dup_files|apply fpp_dup_files]|intros filemap].
    apply JP_bind.
    - apply dup_children_typed; [|lia]. intros e He.
      assert (Hn1 : w_nodes w1 (m_root x) = Some n0) by (rewrite Hold by lia; exact Hn0).
      split; [|destruct B1 as (_ & X2); exact (X2 _ _ _ Hn1 He)].
      intros n cn Hn Hcn. rewrite Hroot in Hn. injection Hn as <-. cbn [n_type]. rewrite <- Tn0.
      exact (T1 _ _ _ _ Hn1 He Hcn).
    - intros _. apply JP_frame.
      + intros w0. pose proof (frp_dup_membership w0 filemap) as HM. fr_go.
      + pose proof (fpp_dup_membership w1 filemap) as HM. fp_go. }
  destruct (HJ w1 r w' (Fp_refl w1) H B1 T1) as (B2 & T2 & F2).
  exact (conj B2 (conj T2 (Fp_pm T w1 w' F2 P1))).
Qed.

Theorem duplicate_j3 m w r w' :
  Core w -> m_duplicate T tab_el tab_en check_fn LATEST root_attrs m w = Val (r, w') -> J3 w -> J3 w'.
Proof.
  intros C H J. unfold m_duplicate in H.
  destruct (m_duplicate_body T LATEST root_attrs m w) as [[[c|e] w1]| |] eqn:E; try discriminate; injection H as <- <-.
  - exact (duplicate_body_j3 m w _ _ C E J).
  - destruct (duplicate_body_j3 m w _ _ C E J) as ((B1 & B2) & T1 & P1). split; [|split].
    + split; [exact B1|exact B2].
    + exact T1.
    + exact P1.
Qed.

End Dup.
