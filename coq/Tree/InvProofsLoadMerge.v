(* Tree/InvProofsLoadMerge.v — C03 over OpLoad: the invariant of merge_element.
   Ghost state: D   = the incoming elements that have been merged into a model element (they keep listing what was
                      imported from them; they are dropped when the load returns),
                Imp = the incoming elements that have been imported (re-parented and inserted) so far,
   w1 = the world at the start of the merge (the incoming tree is still a detached tree on the ids >= base).
   MI D Imp w: Core holds when the content lists of D are ignored; the rest says where D and Imp sit in w1. *)
From Coq Require Import PeanoNat Arith Lia.
From AV Require Import Base.Bytes Base.Outcome Hash.HashModel Tree.Heap Tree.Ops Tree.Script Tree.Inv
  Tree.InvProofsBase Tree.InvProofsCore Tree.InvProofsTree Tree.InvProofsPrim Tree.InvProofsCreate Tree.InvProofsNav
  Tree.Load Tree.InvLoad Tree.InvProofsLoadBase Tree.InvProofsLoadWalk.
Open Scope string_scope.
Open Scope list_scope.
Open Scope N_scope.

Definition kids_of (w : world) (i : id) : list id := match w_nodes w i with Some n => kids n | None => [] end.

Lemma parent_in_skel w i : parent_in w i = match skel w i with Some (p, _) => p | None => PNone end.
Proof. unfold parent_in, skel. destruct (w_nodes w i); reflexivity. Qed.
Lemma kids_of_skel w i : kids_of w i = match skel w i with Some (_, k) => k | None => [] end.
Proof. unfold kids_of, skel. destruct (w_nodes w i); reflexivity. Qed.
Lemma par_parent_in w c p : par w c p <-> (allocated w c /\ parent_in w c = PElem p).
Proof.
  unfold par, allocated, parent_in. split.
  - intros (n & Hn & Hp). rewrite Hn. eauto.
  - intros ((n & Hn) & Hp). rewrite Hn in Hp. eauto.
Qed.
Lemma lists_kids_of w p c : lists w p c <-> In c (kids_of w p).
Proof.
  unfold lists, kids_of. split.
  - intros (n & Hn & Hc). rewrite Hn. auto.
  - destruct (w_nodes w p) as [n|]; [eauto|intros []].
Qed.

Lemma st_lists w w' p c : same_tree w w' -> (lists w' p c <-> lists w p c).
Proof. intros (_ & _ & H). rewrite !lists_skel, H. tauto. Qed.
Lemma st_par w w' c p : same_tree w w' -> (par w' c p <-> par w c p).
Proof. intros (_ & _ & H). rewrite !par_skel, H. tauto. Qed.
Lemma st_alloc w w' i : same_tree w w' -> (allocated w' i <-> allocated w i).
Proof. intros (_ & _ & H). rewrite !allocated_skel, H. tauto. Qed.
Lemma reach_mono w w' r : (forall i, allocated w i -> allocated w' i) -> (forall p c, lists w p c -> lists w' p c) ->
  forall x, Reach w r x -> Reach w' r x.
Proof. intros Ha Hl x H. induction H; [constructor; auto|econstructor; eauto]. Qed.
Lemma reach_mono_root w w' r : allocated w' r -> (forall p c, lists w p c -> lists w' p c) ->
  forall x, Reach w r x -> Reach w' r x.
Proof. intros Ha Hl x H. induction H; [constructor; auto|econstructor; eauto]. Qed.
Lemma st_reach w w' r x : same_tree w w' -> (Reach w' r x <-> Reach w r x).
Proof.
  intros S. split; apply reach_mono; intros; try (apply (st_alloc _ _ _ S); auto); try (apply (st_lists _ _ _ _ S); auto).
Qed.

(* the sub-elements of one node are not ancestors of each other *)
Lemma siblings_not_nested w p a b : Core w -> lists w p a -> lists w p b -> AncS w a b -> a = b.
Proof.
  intros C Ha Hb H. destruct H as [|b p' Hp' Hanc]; [reflexivity|]. exfalso.
  pose proof (c_up _ C _ _ Hb) as Hpb. rewrite (par_fun _ _ _ _ Hp' Hpb) in Hanc.
  pose proof (c_up _ C _ _ Ha) as Hpa.
  eapply ancs_par_irrefl; [|exact Hpa|exact Hanc]. apply (c_depth _ C). destruct Hpa as (n & Hn & _). eexists; eauto.
Qed.

(* dfs_ids: exactly what is reachable through the content lists (no invariant needed) *)
Lemma dfs_ids_reach w : forall f i l w', dfs_ids f i w = Val (OK l, w') ->
  In i l /\ (forall x, In x l -> Reach w i x) /\ (forall p c, In p l -> lists w p c -> In c l).
Proof.
  induction f as [|f IH]; intros i l w' H; [discriminate H|].
  rewrite dfs_ids_S in H.
  apply wbind_inv in H as [(n & wa & H1 & H2) | (e & H1 & [=])].
  apply get_node_inv in H1 as (n' & Hn & [= <-] & ->).
  apply wbind_inv in H2 as [(rest & wb & H3 & H4) | (e & H3 & [=])].
  apply wret_inv in H4 as ([= ->] & ->).
  assert (G : forall l0 rest0 wc, dfs_kids f l0 w = Val (OK rest0, wc) ->
            (forall c, In c (elems l0) -> In c rest0) /\
            (forall x, In x rest0 -> exists c, In c (elems l0) /\ Reach w c x) /\
            (forall p c, In p rest0 -> lists w p c -> In c rest0)).
  { induction l0 as [|[c|d] l0 IHl]; intros rest0 wc Hk; cbn [dfs_kids] in Hk.
    - apply wret_inv in Hk as ([= ->] & _). repeat split; intros; try contradiction.
    - apply wbind_inv in Hk as [(a & w2 & K1 & K2) | (e & K1 & [=])].
      pose proof (ro_dfs_ids f c _ _ _ K1) as ->.
      apply wbind_inv in K2 as [(b & w3 & K3 & K4) | (e & K3 & [=])].
      apply wret_inv in K4 as ([= ->] & ->).
      destruct (IH _ _ _ K1) as (A1 & A2 & A3). destruct (IHl _ _ K3) as (B1 & B2 & B3).
      rewrite elems_cons_elem. split; [|split].
      + intros c0 [<-|Hc0]; apply in_or_app; [left; auto|right; auto].
      + intros x Hx. apply in_app_or in Hx as [Hx|Hx].
        * exists c. split; [left; auto|auto].
        * destruct (B2 _ Hx) as (c0 & Hc0 & Hr). exists c0. split; [right; auto|auto].
      + intros p c0 Hp Hl. apply in_app_or in Hp as [Hp|Hp]; apply in_or_app; [left|right]; eauto.
    - rewrite elems_cons_data. apply (IHl _ _ Hk). }
  destruct (G _ _ _ H3) as (G1 & G2 & G3). split; [left; auto|]. split.
  - intros x [<-|Hx]; [constructor; eexists; eauto|].
    destruct (G2 _ Hx) as (c & Hc & Hr). eapply reach_trans; [|exact Hr].
    econstructor; [constructor; eexists; eauto|]. exists n. auto.
  - intros p c [<-|Hp] Hl; right.
    + destruct Hl as (n0 & Hn0 & Hc). rewrite Hn in Hn0. injection Hn0 as <-. auto.
    + eauto.
Qed.

Lemma dfs_ids_keep w f i l w' : dfs_ids f i w = Val (OK l, w') -> forall x, In x l <-> Reach w i x.
Proof.
  intros H. destruct (dfs_ids_reach _ _ _ _ _ H) as (A & B & Cc). intros x. split; [auto|].
  induction 1; eauto.
Qed.

Section Merge.
Variable T : tables.
Variable LATEST name_definition_ref : N.
Variable base r rb : id.
Variable w1 : world.
Hypothesis C1 : Core w1.
Hypothesis Hr_old : r < base.
Hypothesis Hr_root : exists k, nth_error (roots w1) k = Some r.
Hypothesis Hnew_up : forall c p, base <= c -> par w1 c p -> base <= p.
Hypothesis Hold_up : forall c p, c < base -> par w1 c p -> p < base.
Hypothesis Hrb : parent_in w1 rb = PNone.

Record MI (D Imp : list id) (w : world) : Prop := mkMI {
  mi_core : Core (mask D w);
  mi_roots : roots w = roots w1;
  mi_next : w_next w = w_next w1;
  mi_dlist : forall p d, lists w p d -> In d D -> In p D;
  mi_dup : forall d, In d D -> base <= d /\ (d = rb \/ exists q, In q D /\ lists w1 q d);
  mi_kids : forall c, base <= c -> ~ Reach w r c -> kids_of w c = kids_of w1 c;
  mi_par : forall c, ~ In c Imp -> parent_in w c = parent_in w1 c;
  mi_imp : forall y, In y Imp -> base <= y /\ ~ In y D /\ exists q, In q D /\ lists w1 q y;
  mi_hang : forall c p, base <= c -> par w c p -> base <= p \/ Reach w r p
}.

Lemma MI_same_tree D Imp w w' : same_tree w w' -> MI D Imp w -> MI D Imp w'.
Proof.
  intros S M. pose proof S as (Sn & Sr & Ss). constructor.
  - eapply Core_same_tree; [apply same_tree_mask; exact S|apply M].
  - rewrite Sr. apply M.
  - rewrite Sn. apply M.
  - intros p d Hl. apply (st_lists _ _ _ _ S) in Hl. eapply mi_dlist; eauto.
  - apply M.
  - intros c Hc Hnr. rewrite kids_of_skel, Ss, <- kids_of_skel. apply M; auto.
    intros Hre. apply Hnr. apply (st_reach _ _ _ _ S). exact Hre.
  - intros c Hni. rewrite parent_in_skel, Ss, <- parent_in_skel. apply M; auto.
  - apply M.
  - intros c p Hc Hp. apply (st_par _ _ _ _ S) in Hp. destruct (mi_hang _ _ _ M _ _ Hc Hp); auto.
    right. apply (st_reach _ _ _ _ S). auto.
Qed.

Lemma MI_honest D Imp w p c : MI D Imp w -> ~ In p D -> lists w p c -> par w c p.
Proof.
  intros M Hp Hl. apply (par_mask D). apply (c_up _ (mi_core _ _ _ M)). apply lists_mask. split; auto.
  apply inb_notin. auto.
Qed.

Lemma MI_reach_good D Imp w x : MI D Imp w -> Reach w r x -> ~ In x D.
Proof.
  intros M H. induction H as [Ha|p c Hr IH Hl].
  - intros Hin. apply (mi_dup _ _ _ M) in Hin as (Hb & _). lia.
  - intros Hin. apply IH. eapply mi_dlist; eauto.
Qed.

Lemma MI_reach_alloc D Imp w x : MI D Imp w -> Reach w r x -> allocated w x.
Proof.
  intros M H. destruct H as [Ha|p c Hr Hl]; auto.
  pose proof (MI_honest _ _ _ _ _ M (MI_reach_good _ _ _ _ M Hr) Hl) as (n & Hn & _). eexists; eauto.
Qed.

Lemma MI_root_parent D Imp w q : MI D Imp w -> ~ par w r q.
Proof.
  intros M Hp. destruct Hr_root as (k & Hk). rewrite <- (mi_roots _ _ _ M), <- (roots_mask D) in Hk.
  destruct (c_roots _ (mi_core _ _ _ M) _ _ Hk) as (n & Hn & Hpm).
  apply (par_mask D) in Hp. destruct Hp as (n' & Hn' & Hp'). congruence.
Qed.

(* the ancestors of a reachable node are reachable *)
Lemma MI_reach_up D Imp w q a : MI D Imp w -> AncS w q a -> Reach w r a -> Reach w r q.
Proof.
  intros M H. induction H as [|a p Hp Hanc IH]; auto. intros Hre. apply IH.
  destruct Hre as [Ha|p' a Hrp Hl].
  - exfalso. eapply MI_root_parent; eauto.
  - pose proof (MI_honest _ _ _ _ _ M (MI_reach_good _ _ _ _ M Hrp) Hl) as Hp'.
    rewrite (par_fun _ _ _ _ Hp Hp'). exact Hrp.
Qed.

Lemma MI_root_alloc D Imp w : MI D Imp w -> allocated w r.
Proof.
  intros M. destruct Hr_root as (k & Hk). rewrite <- (mi_roots _ _ _ M), <- (roots_mask D) in Hk.
  destruct (c_roots _ (mi_core _ _ _ M) _ _ Hk) as (n & Hn & _). apply (alloc_mask D). eexists; eauto.
Qed.

Lemma MI_alloc D Imp w i : MI D Imp w -> (allocated w i <-> i < w_next w).
Proof. intros M. rewrite <- (alloc_mask D), <- (next_mask D). apply (mi_core _ _ _ M). Qed.

(* a new node that is not in Imp still has its parent of w1 *)
Lemma MI_par_w1 D Imp w c p : MI D Imp w -> base <= c -> ~ In c Imp -> allocated w c -> par w1 c p -> par w c p.
Proof.
  intros M Hc Hni Ha Hp. apply par_parent_in. split; auto. rewrite (mi_par _ _ _ M) by auto.
  apply par_parent_in in Hp. tauto.
Qed.

(* ---------- one more merged incoming element ---------- *)
Lemma MI_enter D Imp w pb : MI D Imp w -> ~ In pb D -> ~ In pb Imp -> base <= pb ->
  (pb = rb \/ exists q, In q D /\ lists w1 q pb) -> MI (pb :: D) Imp w.
Proof.
  intros M HnD HnI Hb Hup. constructor.
  - eapply Core_mask_incl; [|apply M]. intros i Hi. right. auto.
  - apply M.
  - apply M.
  - intros p d Hl [<-|Hd]; [|right; eapply mi_dlist; eauto].
    destruct (in_dec N.eq_dec p D) as [Hp|Hp]; [right; auto|]. exfalso.
    pose proof (MI_honest _ _ _ _ _ M Hp Hl) as Hpar. apply par_parent_in in Hpar as (Ha & Hpar).
    rewrite (mi_par _ _ _ M) in Hpar by auto. destruct Hup as [->|(q & Hq & Hlq)]; [congruence|].
    pose proof (c_up _ C1 _ _ Hlq) as Hpq. apply par_parent_in in Hpq as (_ & Hpq). rewrite Hpar in Hpq.
    injection Hpq as ->. auto.
  - intros d [<-|Hd].
    + split; auto. destruct Hup as [->|(q & Hq & Hlq)]; [auto|]. right. exists q. split; [right|]; auto.
    + destruct (mi_dup _ _ _ M _ Hd) as (A & [B|(q & Hq & Hlq)]); split; auto. right. exists q. split; [right|]; auto.
  - apply M.
  - apply M.
  - intros y Hy. destruct (mi_imp _ _ _ M _ Hy) as (A & B & q & Hq & Hlq). split; auto. split.
    + intros [<-|Hd]; auto.
    + exists q. split; [right|]; auto.
  - apply M.
Qed.

(* ---------- import, first half: the element gets its new parent ---------- *)
Lemma MI_reparent D Imp w x nx pa pb :
  MI D Imp w -> In pb D -> lists w1 pb x -> ~ In x Imp -> ~ In x D -> Reach w r pa ->
  w_nodes w x = Some nx ->
  MI D (x :: Imp) (wset w x (set_parent nx (PElem pa))) /\ ~ lists w pa x.
Proof.
  intros M Hpb Hlx HxI HxD Hpa Hnx.
  assert (Hbx : base <= x).
  { destruct (N.lt_ge_cases x base) as [Hlt|]; auto. exfalso.
    pose proof (Hold_up _ _ Hlt (c_up _ C1 _ _ Hlx)). apply (mi_dup _ _ _ M) in Hpb as (? & _). lia. }
  assert (Hpx : par w x pb). { eapply MI_par_w1; eauto. eexists; eauto. apply C1. auto. }
  assert (Hunl : forall p, ~ In p D -> ~ lists w p x).
  { intros p Hp Hl. pose proof (MI_honest _ _ _ _ _ M Hp Hl) as Hp'. rewrite (par_fun _ _ _ _ Hp' Hpx) in Hp. auto. }
  assert (HpaD : ~ In pa D) by (eapply MI_reach_good; eauto).
  assert (Hxr : ~ Reach w r x).
  { intros Hre. destruct Hre as [Ha|p x Hrp Hl].
    - lia.
    - eapply (Hunl p); eauto. eapply MI_reach_good; eauto. }
  set (w' := wset w x (set_parent nx (PElem pa))).
  assert (Hsk : forall i, i <> x -> skel w' i = skel w i) by (intros i Hi; apply skel_wset_neq; auto).
  assert (Hskx : skel w' x = Some (PElem pa, kids nx)) by (unfold w'; rewrite skel_wset_eq; reflexivity).
  assert (Hl' : forall p c, lists w' p c <-> lists w p c).
  { intros p c. rewrite !lists_skel. destruct (N.eq_dec p x) as [->|Hp]; [|rewrite Hsk; tauto].
    rewrite Hskx, (skel_some _ _ _ Hnx). split; intros (a & b & [= <- <-] & Hc); eauto. }
  assert (Hal' : forall i, allocated w' i <-> allocated w i).
  { intros i. rewrite !allocated_skel. destruct (N.eq_dec i x) as [->|Hi]; [|rewrite Hsk; tauto].
    rewrite Hskx, (skel_some _ _ _ Hnx). split; congruence. }
  assert (Hre' : forall y, Reach w' r y <-> Reach w r y).
  { intros y. split; apply reach_mono; intros; try apply Hal'; try apply Hl'; auto. }
  split; [|apply Hunl; auto].
  constructor.
  - (* Core of the masked world: re-parenting an unlisted node *)
    assert (HxDb : inb x D = false) by (apply inb_notin; auto).
    eapply (core_reparent (mask D w) (mask D w') x (PElem pb) (kids nx) pa).
    + apply M.
    + apply upd1_mask_wset. exact HxDb.
    + rewrite skel_mask_out by auto. rewrite (skel_some _ _ _ Hnx). f_equal. f_equal.
      destruct Hpx as (n & Hn & Hp). congruence.
    + rewrite skel_mask_out by auto. exact Hskx.
    + intros m. discriminate.
    + apply alloc_mask. eapply MI_reach_alloc; eauto.
    + intros Hanc. apply ancs_mask in Hanc. apply Hxr. eapply MI_reach_up; eauto.
    + intros p Hl. apply lists_mask in Hl as (Hl & Hp). eapply (Hunl p); eauto. apply inb_notin. auto.
  - unfold w'. rewrite roots_wset. apply M.
  - unfold w'. rewrite next_wset. apply M.
  - intros p d Hl. apply Hl' in Hl. eapply mi_dlist; eauto.
  - apply M.
  - intros c Hc Hnr. rewrite kids_of_skel. destruct (N.eq_dec c x) as [->|Hcx].
    + rewrite Hskx. rewrite <- (mi_kids _ _ _ M) by auto. unfold kids_of. rewrite Hnx. reflexivity.
    + rewrite Hsk by auto. rewrite <- kids_of_skel. apply M; auto. intros Hre. apply Hnr. apply Hre'. auto.
  - intros c Hni. assert (c <> x) by (intros ->; apply Hni; left; auto).
    rewrite parent_in_skel, Hsk, <- parent_in_skel by auto. apply M; auto. intros Hin. apply Hni. right. auto.
  - intros y [<-|Hy].
    + split; auto. split; auto. exists pb. auto.
    + apply M. auto.
  - intros c p Hc Hp. destruct (N.eq_dec c x) as [->|Hcx].
    + apply par_skel in Hp as (ks & E). rewrite Hskx in E. injection E as <- _. right. apply Hre'. auto.
    + assert (Hp0 : par w c p). { apply par_skel in Hp as (ks & E). rewrite Hsk in E by auto. apply par_skel. eauto. }
      destruct (mi_hang _ _ _ M _ _ Hc Hp0); auto. right. apply Hre'. auto.
Qed.

(* ---------- import, second half: the element is inserted into the content list of its new parent ---------- *)
Lemma MI_insert D Imp w x pa npa pos :
  MI D Imp w -> ~ In x D -> Reach w r pa -> par w x pa -> ~ lists w pa x -> w_nodes w pa = Some npa ->
  let w' := wset w pa (set_content npa (insert_at (n_content npa) pos (CElem x))) in
  MI D Imp w' /\ (forall p c, lists w p c -> lists w' p c).
Proof.
  intros M HxD Hpa Hpx Hnl Hnpa w'.
  assert (HpaD : ~ In pa D) by (eapply MI_reach_good; eauto).
  assert (Hsk : forall i, i <> pa -> skel w' i = skel w i) by (intros i Hi; apply skel_wset_neq; auto).
  assert (Hskp : skel w' pa = Some (n_parent npa, elems (insert_at (n_content npa) pos (CElem x))))
    by (unfold w'; rewrite skel_wset_eq; reflexivity).
  assert (Hin : forall c, In c (elems (insert_at (n_content npa) pos (CElem x))) <-> c = x \/ In c (kids npa))
    by (intros c; apply elems_insert_in).
  assert (Hl' : forall p c, lists w' p c <-> lists w p c \/ (p = pa /\ c = x)).
  { intros p c. rewrite !lists_skel. destruct (N.eq_dec p pa) as [->|Hp].
    - rewrite Hskp, (skel_some _ _ _ Hnpa). split.
      + intros (a & b & [= <- <-] & Hc). apply Hin in Hc as [->|Hc]; [right; auto|left; eauto].
      + intros [(a & b & [= <- <-] & Hc)|(_ & ->)]; do 2 eexists; (split; [reflexivity|]); apply Hin; auto.
    - rewrite Hsk by auto. split; [auto|]. intros [H|(E & _)]; [auto|contradiction]. }
  assert (Hmono : forall p c, lists w p c -> lists w' p c) by (intros p c H; apply Hl'; auto).
  assert (Hal' : forall i, allocated w' i <-> allocated w i).
  { intros i. rewrite !allocated_skel. destruct (N.eq_dec i pa) as [->|Hi]; [|rewrite Hsk; tauto].
    rewrite Hskp, (skel_some _ _ _ Hnpa). split; congruence. }
  assert (Hre' : forall y, Reach w r y -> Reach w' r y).
  { apply reach_mono; auto. intros i. apply Hal'. }
  assert (Hpar' : forall c p, par w' c p <-> par w c p).
  { intros c p. rewrite !par_skel. destruct (N.eq_dec c pa) as [->|Hc]; [|rewrite Hsk; tauto].
    rewrite Hskp, (skel_some _ _ _ Hnpa). split; intros (k & [= E]); rewrite E; eauto. }
  split; [|exact Hmono].
  constructor.
  - assert (HpaDb : inb pa D = false) by (apply inb_notin; auto).
    eapply (core_upd_kids (mask D w) (mask D w') pa (n_parent npa) (kids npa)).
    + apply M.
    + apply upd1_mask_wset. exact HpaDb.
    + rewrite skel_mask_out by auto. apply skel_some. auto.
    + rewrite skel_mask_out by auto. exact Hskp.
    + apply elems_insert_nodup.
      * apply (c_nodup _ (mi_core _ _ _ M) pa). unfold mask. cbn. rewrite HpaDb. auto.
      * intros Hc. apply Hnl. exists npa. auto.
    + intros c Hc. apply Hin in Hc as [->|Hc]; [right; apply par_mask; auto|left; auto].
  - unfold w'. rewrite roots_wset. apply M.
  - unfold w'. rewrite next_wset. apply M.
  - intros p d Hl Hd. apply Hl' in Hl as [Hl|(-> & ->)]; [eapply mi_dlist; eauto|contradiction].
  - apply M.
  - intros c Hc Hnr. assert (c <> pa) by (intros ->; apply Hnr; auto).
    rewrite kids_of_skel, Hsk, <- kids_of_skel by auto. apply M; auto.
  - intros c Hni. rewrite parent_in_skel. destruct (N.eq_dec c pa) as [->|Hcp].
    + rewrite Hskp. rewrite <- (mi_par _ _ _ M) by auto. unfold parent_in. rewrite Hnpa. reflexivity.
    + rewrite Hsk, <- parent_in_skel by auto. apply M; auto.
  - apply M.
  - intros c p Hc Hp. apply Hpar' in Hp. destruct (mi_hang _ _ _ M _ _ Hc Hp); auto.
Qed.

(* ------------------------------------------------------------------ the code *)
Lemma lists_wset_kids w x nx n' p c : w_nodes w x = Some nx -> kids n' = kids nx ->
  (lists (wset w x n') p c <-> lists w p c).
Proof.
  intros Hn Hk. rewrite !lists_skel. destruct (N.eq_dec p x) as [->|Hp].
  - rewrite skel_wset_eq, (skel_some _ _ _ Hn), Hk. split; intros (a & b & [= <- <-] & Hc); eauto.
  - rewrite skel_wset_neq by auto. tauto.
Qed.
Lemma alloc_wset w x nx n' i : w_nodes w x = Some nx -> (allocated (wset w x n') i <-> allocated w i).
Proof.
  intros Hn. rewrite !allocated_skel. destruct (N.eq_dec i x) as [->|Hp].
  - rewrite skel_wset_eq, (skel_some _ _ _ Hn). split; congruence.
  - rewrite skel_wset_neq by auto. tauto.
Qed.
Lemma reach_wset_kids w x nx n' y : w_nodes w x = Some nx -> kids n' = kids nx ->
  (Reach (wset w x n') r y <-> Reach w r y).
Proof.
  intros Hn Hk. split; apply reach_mono.
  - intros i Hi. exact (proj1 (alloc_wset _ _ _ n' i Hn) Hi).
  - intros p c Hl. exact (proj1 (lists_wset_kids _ _ _ n' p c Hn Hk) Hl).
  - intros i Hi. exact (proj2 (alloc_wset _ _ _ n' i Hn) Hi).
  - intros p c Hl. exact (proj2 (lists_wset_kids _ _ _ n' p c Hn Hk) Hl).
Qed.

Ltac okstep H a wa E :=
  apply wbind_inv in H as [(a & wa & E & H) | (?e & ?E' & ?Hx)]; [|discriminate]; cbv beta zeta in H.

Lemma stp_restrict_a_only files : forall l, stp (restrict_a_only l files).
Proof.
  induction l as [|e l IH]; cbn [restrict_a_only]; [apply stp_ro; ro_tac|].
  apply stp_bind; [|intros _; exact IH]. apply stp_modify_node. intros n. destruct (is_empty (n_files n)); split; reflexivity.
Qed.

Lemma import_ok pa pb nf minv : forall l idx D Imp w w',
  MI D Imp w -> In pb D -> Reach w r pa ->
  (forall x, In x (map fst l) -> lists w1 pb x /\ ~ In x Imp /\ ~ In x D) -> NoDup (map fst l) ->
  import_new_items T pa l idx nf minv w = Val (OK tt, w') ->
  exists Imp', MI D Imp' w' /\ (forall y, In y Imp' <-> In y Imp \/ In y (map fst l)) /\
               (forall p c, lists w p c -> lists w' p c).
Proof.
  induction l as [|[x ipos] l IH]; intros idx D Imp w w' M Hpb Hpa Hall Hnd H; cbn [import_new_items] in H.
  - apply wret_inv in H as (_ & ->). exists Imp. split; auto. split; auto. intros y. cbn. tauto.
  - cbn [map fst] in Hall, Hnd. apply NoDup_cons_iff in Hnd as (Hxl & Hnd).
    destruct (Hall x (or_introl eq_refl)) as (Hlx & HxI & HxD).
    okstep H u1 wa E1. apply modify_node_wset in E1 as (nx & Hnx & _ & ->).
    destruct (MI_reparent D Imp w x nx pa pb M Hpb Hlx HxI HxD Hpa Hnx) as (Ma & Hnl).
    set (wa := wset w x (set_parent nx (PElem pa))) in *.
    assert (Hnxa : w_nodes wa x = Some (set_parent nx (PElem pa))) by apply nodes_wset_eq.
    okstep H u2 wb E2. apply modify_node_wset in E2 as (nx2 & Hnx2 & _ & ->).
    rewrite Hnxa in Hnx2. injection Hnx2 as <-.
    set (nx3 := set_files _ _) in *.
    assert (Sab : same_tree wa (wset wa x nx3)) by (eapply st_wset; eauto; reflexivity).
    pose proof (MI_same_tree _ _ _ _ Sab Ma) as Mb.
    set (wb := wset wa x nx3) in *.
    okstep H ne w3 E3. apply get_node_inv in E3 as (ne' & Hne & [= ->] & ->).
    okstep H pan w4 E4. apply get_node_inv in E4 as (npa & Hnpa & [= ->] & ->).
    okstep H range w5 E5. pose proof (ro_catch _ (ro_calc_range T _ _ _) _ _ _ E5) as ->.
    destruct range as [[fp lp]|e]; [|apply wfail_inv in H as ([=] & _)].
    okstep H u3 wc E6. apply content_insert_inv in E6 as (npa' & Hnpa' & _ & ->).
    rewrite Hnpa in Hnpa'. injection Hnpa' as <-.
    assert (Hpa_a : Reach wa r pa) by (apply (reach_wset_kids w x nx _ pa Hnx); [reflexivity|exact Hpa]).
    assert (Hpa_b : Reach wb r pa) by (apply (st_reach _ _ _ _ Sab); exact Hpa_a).
    assert (Hpx_b : par wb x pa) by (exists nx3; split; [apply nodes_wset_eq|reflexivity]).
    assert (Hnl_b : ~ lists wb pa x).
    { intros Hl. apply (st_lists _ _ _ _ Sab) in Hl. apply (lists_wset_kids w x nx _ pa x Hnx) in Hl; [auto|reflexivity]. }
    destruct (MI_insert D (x :: Imp) wb x pa npa (N.to_nat (N.min (N.max (ipos + idx) fp) lp)) Mb HxD Hpa_b Hpx_b Hnl_b Hnpa) as (Mc & Hmono).
    set (wc := wset wb pa _) in *.
    assert (Hpa_c : Reach wc r pa).
    { eapply reach_mono; [| exact Hmono | exact Hpa_b]. intros i. apply (alloc_wset wb pa npa _ i Hnpa). }
    destruct (IH (idx + 1) D (x :: Imp) wc w' Mc Hpb Hpa_c) as (Imp' & M' & HI' & Hm'); auto.
    { intros x' Hx'. destruct (Hall x' (or_intror Hx')) as (A & B & Cc). split; auto. split; auto.
      intros [<-|Hin]; auto. }
    exists Imp'. split; auto. split.
    + intros y. rewrite HI'. cbn [map fst In]. tauto.
    + intros p c Hl. apply Hm'. apply Hmono. apply (st_lists _ _ _ _ Sab).
      apply (lists_wset_kids w x nx _ p c Hnx); [reflexivity|exact Hl].
Qed.

(* the loop over the merge pairs, as a named function *)
Definition subs_loop (fl : nat) (files : list N) (nf : N) : list (id * id) -> W unit :=
  fix subs (l : list (id * id)) : W unit :=
    match l with
    | [] => wret tt
    | (elem_a, elem_b) :: rest =>
      (do ea <- get_node elem_a;
       let files' := if negb (is_empty (n_files ea)) then n_files ea else files in
       merge_element T LATEST name_definition_ref fl elem_a files' elem_b nf;;
       modify_node elem_a (fun x => if negb (is_empty (n_files x)) then set_files x (set_add nf (n_files x)) else x);;
       subs rest)%W
    end.

Lemma merge_element_S fl pa files pb nf :
  merge_element T LATEST name_definition_ref (S fl) pa files pb nf =
  (do w <- wget;
   do na <- get_node pa;
   do nb <- get_node pb;
   let pty := n_type na in
   do la <- wl (keys_of T name_definition_ref w pty (n_content na));
   do lb <- wl (keys_of T name_definition_ref w pty (n_content nb));
   let min_ver_a := files_min_version LATEST w files in
   let min_ver_b := match nth_opt (w_files w) (N.to_nat nf) with Some x => f_version x | None => LATEST end in
   let version := N.min min_ver_a min_ver_b in
   do splitable <- wl (splittable_in T pty version);
   do wk <- (fun w0 => match walk (S (List.length la + List.length lb)) la lb splitable (N.of_nat (List.length (n_content na))) 0 la lb
                                  (mkWalked [] [] []) with
                       | Val o => Val (o, w0) | Pan s => Pan s | Fuel => Fuel end);
   restrict_a_only (wk_a_only wk) files;;
   import_new_items T pa (wk_b_only wk) 0 nf min_ver_b;;
   subs_loop fl files nf (wk_merge wk))%W.
Proof. reflexivity. Qed.

Definition shared_subs (fl : nat) (files : list N) (nf : N) : list (id * id) -> world -> bool :=
  fix subs (l : list (id * id)) (wc : world) {struct l} : bool :=
    match l with
    | [] => false
    | (ea, eb) :: rest =>
      match w_nodes wc ea with
      | None => false
      | Some nea =>
        let files' := if negb (is_empty (n_files nea)) then n_files nea else files in
        merge_shared T LATEST name_definition_ref fl ea files' eb nf wc ||
        match (merge_element T LATEST name_definition_ref fl ea files' eb nf;;
               modify_node ea (fun x => if negb (is_empty (n_files x))
                                        then set_files x (set_add nf (n_files x)) else x))%W wc with
        | Val (OK _, wn) => subs rest wn
        | _ => false
        end
      end
    end.

Lemma merge_shared_S fl pa files pb nf w :
  merge_shared T LATEST name_definition_ref (S fl) pa files pb nf w =
  match merge_decisions T LATEST name_definition_ref pa files pb nf w with
  | None => false
  | Some wk =>
    walk_shared wk ||
    match (restrict_a_only (wk_a_only wk) files;;
           import_new_items T pa (wk_b_only wk) 0 nf (min_ver_of LATEST nf w))%W w with
    | Val (OK _, w2) => shared_subs fl files nf (wk_merge wk) w2
    | _ => false
    end
  end.
Proof. reflexivity. Qed.

(* a sub-element (in w1) of an incoming element that has not been merged yet is untouched *)
Lemma kid_fresh D Imp w pb x : MI D Imp w -> ~ In pb D -> base <= pb -> lists w1 pb x ->
  ~ In x D /\ ~ In x Imp /\ x <> pb /\ base <= x.
Proof.
  intros M HpD Hb Hl. pose proof (c_up _ C1 _ _ Hl) as Hp.
  assert (Huniq : forall q, lists w1 q x -> q = pb).
  { intros q Hq. apply (c_up _ C1) in Hq. eapply par_fun; eauto. }
  split; [|split; [|split]].
  - intros Hin. destruct (mi_dup _ _ _ M _ Hin) as (_ & [->|(q & Hq & Hlq)]).
    + apply par_parent_in in Hp as (_ & Hp). congruence.
    + apply Huniq in Hlq. subst. auto.
  - intros Hin. destruct (mi_imp _ _ _ M _ Hin) as (_ & _ & q & Hq & Hlq). apply Huniq in Hlq. subst. auto.
  - intros ->. eapply ancs_par_irrefl; [|exact Hp|constructor]. apply (c_depth _ C1). destruct Hp as (n & Hn & _). eexists; eauto.
  - destruct (N.lt_ge_cases x base) as [Hlt|]; auto. pose proof (Hold_up _ _ Hlt Hp). lia.
Qed.

Lemma ancs_kid p c : lists w1 p c -> AncS w1 p c /\ c <> p.
Proof.
  intros Hl. pose proof (c_up _ C1 _ _ Hl) as Hp. split; [eapply A_up; [exact Hp|constructor]|].
  intros ->. eapply ancs_par_irrefl; [|exact Hp|constructor]. apply (c_depth _ C1). destruct Hp as (n & Hn & _). eexists; eauto.
Qed.
Lemma ancs_below p c d : lists w1 p c -> AncS w1 c d -> AncS w1 p d /\ d <> p.
Proof.
  intros Hl Ha. destruct (ancs_kid _ _ Hl) as (A & B). split; [eapply ancs_trans; eauto|].
  intros ->. pose proof (c_up _ C1 _ _ Hl) as Hp.
  eapply ancs_par_irrefl; [|exact Hp|exact Ha]. apply (c_depth _ C1). destruct Hp as (n & Hn & _). eexists; eauto.
Qed.

Definition MergePost (pb : id) (D Imp : list id) (w : world) (D' Imp' : list id) (w' : world) : Prop :=
  MI D' Imp' w' /\ (forall p c, lists w p c -> lists w' p c) /\
  (forall d, In d D -> In d D') /\ (forall y, In y Imp -> In y Imp').

Definition MergeOK (fuel : nat) : Prop := forall pa files pb nf D Imp w w',
  MI D Imp w -> Reach w r pa -> ~ In pb D -> ~ In pb Imp -> base <= pb ->
  (pb = rb \/ exists q, In q D /\ lists w1 q pb) ->
  merge_shared T LATEST name_definition_ref fuel pa files pb nf w = false ->
  merge_element T LATEST name_definition_ref fuel pa files pb nf w = Val (OK tt, w') ->
  exists D' Imp', MergePost pb D Imp w D' Imp' w' /\
    (forall d, In d D' -> In d D \/ AncS w1 pb d) /\
    (forall y, In y Imp' -> In y Imp \/ (AncS w1 pb y /\ y <> pb)).

Lemma subs_ok fl files nf pb : MergeOK fl ->
  forall l Dc Ic wc w', MI Dc Ic wc -> In pb Dc ->
    (forall ea eb, In (ea, eb) l -> Reach wc r ea /\ lists w1 pb eb /\ ~ In eb Dc /\ ~ In eb Ic) ->
    NoDup (map snd l) ->
    shared_subs fl files nf l wc = false -> subs_loop fl files nf l wc = Val (OK tt, w') ->
    exists D' Imp', MergePost pb Dc Ic wc D' Imp' w' /\
      (forall d, In d D' -> In d Dc \/ (AncS w1 pb d /\ d <> pb)) /\
      (forall y, In y Imp' -> In y Ic \/ (AncS w1 pb y /\ y <> pb)).
Proof.
  intros IHf. induction l as [|[ea eb] rest IHl]; intros Dc Ic wc w' M HpbD Hall Hnd Hs H.
  - cbn [subs_loop] in H. apply wret_inv in H as (_ & ->). exists Dc, Ic. split; [|split; auto].
    split; [exact M|]. split; auto.
  - cbn [subs_loop] in H. cbn [shared_subs] in Hs. cbn [map snd] in Hnd. apply NoDup_cons_iff in Hnd as (Hebr & Hnd).
    destruct (Hall ea eb (or_introl eq_refl)) as (Hrea & Hleb & HebD & HebI).
    okstep H ean0 wx E1. apply get_node_inv in E1 as (ean & Hean & [= ->] & ->).
    okstep H u1 wm Em. okstep H u2 wn En. destruct u1, u2.
    rewrite Hean in Hs. cbv zeta in Hs. apply orb_false_iff in Hs as (Hs1 & Hs2).
    erewrite wbind_val in Hs2 by exact Em. rewrite En in Hs2.
    assert (Hbpb : base <= pb) by (apply (mi_dup _ _ _ M) in HpbD; tauto).
    assert (Hbeb : base <= eb).
    { destruct (N.lt_ge_cases eb base) as [Hlt|]; auto. pose proof (Hold_up _ _ Hlt (c_up _ C1 _ _ Hleb)). lia. }
    destruct (IHf ea _ eb nf Dc Ic wc wm M Hrea HebD HebI Hbeb (or_intror (ex_intro _ pb (conj HpbD Hleb))) Hs1 Em)
      as (D2 & I2 & (M2 & Hmono2 & HD2 & HI2) & HcD2 & HcI2).
    assert (Smn : same_tree wm wn).
    { eapply stp_modify_node; [|exact En]. intros n. cbv beta. destruct (negb (is_empty (n_files n))); split; reflexivity. }
    pose proof (MI_same_tree _ _ _ _ Smn M2) as Mn.
    assert (Hmono_n : forall p c, lists wc p c -> lists wn p c).
    { intros p c Hl. apply (st_lists _ _ _ _ Smn). auto. }
    destruct (IHl D2 I2 wn w' Mn (HD2 _ HpbD)) as (D3 & I3 & (M3 & Hmono3 & HD3 & HI3) & HcD3 & HcI3); auto.
    { intros ea' eb' Hin. destruct (Hall ea' eb' (or_intror Hin)) as (A & B & Cc & Dd).
      assert (Hne : eb <> eb'). { intros ->. apply Hebr. apply in_map_iff. exists (ea', eb'). auto. }
      split; [|split; [exact B|split]].
      - eapply reach_mono_root; [eapply MI_root_alloc; eauto | exact Hmono_n | exact A].
      - intros Hin2. destruct (HcD2 _ Hin2) as [Hd|Hd]; auto.
        apply Hne. eapply (siblings_not_nested w1 pb); eauto.
      - intros Hin2. destruct (HcI2 _ Hin2) as [Hd|(Hd & _)]; auto.
        apply Hne. eapply (siblings_not_nested w1 pb); eauto. }
    exists D3, I3. split; [|split].
    + split; [exact M3|]. split; [intros p c Hl; apply Hmono3; auto|]. split; auto.
    + intros d Hd. destruct (HcD3 _ Hd) as [Hd2|Hd2]; auto. destruct (HcD2 _ Hd2) as [Hd1|Hd1]; auto.
      right. eapply ancs_below; eauto.
    + intros y Hy. destruct (HcI3 _ Hy) as [Hy2|Hy2]; auto. destruct (HcI2 _ Hy2) as [Hy1|(Hy1 & _)]; auto.
      right. eapply ancs_below; eauto.
Qed.

Theorem merge_ok : forall fuel, MergeOK fuel.
Proof.
  induction fuel as [|fl IHf]; intros pa files pb nf D Imp w w' M Hpa HpD HpI Hb Hup Hs H; [discriminate H|].
  rewrite merge_element_S in H. rewrite merge_shared_S in Hs.
  okstep H w0 wx E0. apply wget_inv in E0 as ([= ->] & ->).
  okstep H na0 wx E1. apply get_node_inv in E1 as (na & Hna & [= ->] & ->).
  okstep H nb0 wx E2. apply get_node_inv in E2 as (nb & Hnb & [= ->] & ->).
  okstep H la0 wx E3. apply wl_inv in E3 as (la & Ela & [= ->] & ->).
  okstep H lb0 wx E4. apply wl_inv in E4 as (lb & Elb & [= ->] & ->).
  okstep H sp0 wx E5. apply wl_inv in E5 as (sp & Esp & [= ->] & ->).
  okstep H wk wx E6.
  destruct (walk _ _ _ _ _ _ _ _ _) as [[wk0|e0]| |] eqn:EW in E6; try discriminate E6. injection E6 as -> <-.
  okstep H u1 wr Er. okstep H u2 wi Ei. destruct u1, u2.
  (* the instrumented run *)
  unfold merge_decisions in Hs. cbv zeta in Hs. rewrite Hna, Hnb, Ela, Elb, Esp, EW in Hs.
  apply orb_false_iff in Hs as (Hws & Hs).
  assert (Eri : (restrict_a_only (wk_a_only wk) files;;
                 import_new_items T pa (wk_b_only wk) 0 nf (min_ver_of LATEST nf w))%W w = Val (OK tt, wi)).
  { erewrite wbind_val by exact Er. exact Ei. }
  rewrite Eri in Hs. clear Eri.
  (* pb becomes a merged element *)
  pose proof (MI_enter D Imp w pb M HpD HpI Hb Hup) as M0.
  assert (HpbD0 : In pb (pb :: D)) by (left; auto).
  assert (Hnr : ~ Reach w r pb) by (intros Hre; apply (MI_reach_good _ _ _ _ M0 Hre); auto).
  assert (Hkb : kids nb = kids_of w1 pb).
  { rewrite <- (mi_kids _ _ _ M0) by auto. unfold kids_of. rewrite Hnb. reflexivity. }
  pose proof (keys_of_ids _ _ _ _ _ _ Ela) as Ila. pose proof (keys_of_ids _ _ _ _ _ _ Elb) as Ilb.
  assert (NDb : NoDup (map k_id lb)).
  { rewrite Ilb. fold (kids nb). rewrite Hkb. unfold kids_of. destruct (w_nodes w1 pb) as [n1|] eqn:E1; [|constructor].
    eapply c_nodup; eauto. }
  destruct (walk_ids _ _ _ _ _ _ _ _ _ _ EW NDb) as (WA & WB & WC & WD); [constructor|intros x []|].
  cbn [wk_merge wk_b_only bo map] in WA, WB, WC.
  assert (Hlb1 : forall x, In x (map k_id lb) -> lists w1 pb x).
  { intros x Hx. rewrite Ilb in Hx. fold (kids nb) in Hx. rewrite Hkb in Hx. apply lists_kids_of. exact Hx. }
  assert (Hla1 : forall x, In x (map k_id la) -> lists w pa x).
  { intros x Hx. rewrite Ila in Hx. exists na. auto. }
  (* restrict: files only *)
  pose proof (stp_restrict_a_only _ _ _ _ _ Er) as Sr.
  pose proof (MI_same_tree _ _ _ _ Sr M0) as Mr.
  assert (Hpa_r : Reach wr r pa) by (apply (st_reach _ _ _ _ Sr); auto).
  (* import *)
  destruct (import_ok pa pb nf (min_ver_of LATEST nf w) (wk_b_only wk) 0 (pb :: D) Imp wr wi Mr HpbD0 Hpa_r)
    as (Imp2 & Mi & HI2 & Hmono_i); [| exact WD | exact Ei |].
  { intros x Hx. destruct (WC x Hx) as [[]|Hx']. apply Hlb1 in Hx'.
    destruct (kid_fresh _ _ _ _ _ M HpD Hb Hx') as (A & B & Cc & _). split; auto. split; auto. intros [<-|Hin]; auto. }
  (* the merge pairs *)
  assert (Hw : walk_shared wk = false) by exact Hws.
  unfold walk_shared in Hw. apply orb_false_iff in Hw as (Hnd & Hdis).
  apply negb_false_iff in Hnd. apply nodupb_nodup in Hnd.
  assert (Hpairs : forall ea eb, In (ea, eb) (wk_merge wk) ->
            Reach wi r ea /\ lists w1 pb eb /\ ~ In eb (pb :: D) /\ ~ In eb Imp2).
  { intros ea eb Hin.
    assert (Hea : In ea (map k_id la)).
    { destruct (WA ea) as [[]|]; auto. apply in_map_iff. exists (ea, eb). auto. }
    assert (Heb : In eb (map k_id lb)).
    { destruct (WB eb) as [[]|[|]]; auto. apply in_map_iff. exists (ea, eb). auto. }
    apply Hlb1 in Heb. destruct (kid_fresh _ _ _ _ _ M HpD Hb Heb) as (A & B & Cc & _).
    split; [|split; [exact Heb|split]].
    - eapply reach_mono_root; [eapply MI_root_alloc; eauto | exact Hmono_i |].
      apply (st_reach _ _ _ _ Sr). econstructor; [exact Hpa|]. apply Hla1. exact Hea.
    - intros [<-|Hin']; auto.
    - intros Hin'. apply HI2 in Hin' as [Hin'|Hin']; auto.
      apply in_map_iff in Hin' as ((b0 & n0) & E & Hb0). cbn in E. subst b0.
      assert (existsb (fun b => inb (fst b) (map snd (wk_merge wk))) (wk_b_only wk) = true); [|congruence].
      apply existsb_exists. exists (eb, n0). split; auto. apply inb_in. apply in_map_iff. exists (ea, eb). auto. }
  assert (HpbDc : In pb (pb :: D)) by (left; auto).
  destruct (subs_ok fl files nf pb IHf (wk_merge wk) (pb :: D) Imp2 wi w' Mi HpbDc Hpairs Hnd Hs H)
    as (D3 & I3 & (M3 & Hmono3 & HD3 & HI3) & HcD3 & HcI3).
  exists D3, I3. split; [|split].
  - split; [exact M3|]. split.
    + intros p c Hl. apply Hmono3. apply Hmono_i. apply (st_lists _ _ _ _ Sr). exact Hl.
    + split; [intros d Hd; apply HD3; right; auto|]. intros y Hy. apply HI3. apply HI2. auto.
  - intros d Hd. destruct (HcD3 _ Hd) as [[<-|Hd2]|(Hd2 & _)]; auto. right. constructor.
  - intros y Hy. destruct (HcI3 _ Hy) as [Hy2|Hy2]; auto. apply HI2 in Hy2 as [Hy2|Hy2]; auto.
    right. destruct (WC y Hy2) as [[]|Hy3]. apply Hlb1 in Hy3. apply ancs_kid. exact Hy3.
Qed.

(* ------------------------------------------------------------------ every exit of the merge (also InvalidFileMerge) *)
Ltac anystep H a wa E :=
  apply wbind_inv in H as [(a & wa & E & H) | (?e & E & ?Hr)]; [cbv beta zeta in H|].

Lemma import_any pa pb nf minv : forall l idx D Imp w r0 w',
  MI D Imp w -> In pb D -> Reach w r pa ->
  (forall x, In x (map fst l) -> lists w1 pb x /\ ~ In x Imp /\ ~ In x D) -> NoDup (map fst l) ->
  import_new_items T pa l idx nf minv w = Val (r0, w') ->
  exists Imp', MI D Imp' w'.
Proof.
  induction l as [|[x ipos] l IH]; intros idx D Imp w r0 w' M Hpb Hpa Hall Hnd H; cbn [import_new_items] in H.
  - apply wret_inv in H as (_ & ->). exists Imp. auto.
  - cbn [map fst] in Hall, Hnd. apply NoDup_cons_iff in Hnd as (Hxl & Hnd).
    destruct (Hall x (or_introl eq_refl)) as (Hlx & HxI & HxD).
    anystep H u1 wa E1; [|apply modify_node_wset in E1 as (? & _ & [=] & _)].
    apply modify_node_wset in E1 as (nx & Hnx & _ & ->).
    destruct (MI_reparent D Imp w x nx pa pb M Hpb Hlx HxI HxD Hpa Hnx) as (Ma & Hnl).
    set (wa := wset w x (set_parent nx (PElem pa))) in *.
    assert (Hnxa : w_nodes wa x = Some (set_parent nx (PElem pa))) by apply nodes_wset_eq.
    anystep H u2 wb E2; [|apply modify_node_wset in E2 as (? & _ & [=] & _)].
    apply modify_node_wset in E2 as (nx2 & Hnx2 & _ & ->).
    rewrite Hnxa in Hnx2. injection Hnx2 as <-.
    set (nx3 := set_files _ _) in *.
    assert (Sab : same_tree wa (wset wa x nx3)) by (eapply st_wset; eauto; reflexivity).
    pose proof (MI_same_tree _ _ _ _ Sab Ma) as Mb.
    set (wb := wset wa x nx3) in *.
    anystep H ne w3 E3; [|apply get_node_inv in E3 as (? & _ & [=] & _)].
    apply get_node_inv in E3 as (ne' & Hne & [= ->] & ->).
    anystep H pan w4 E4; [|apply get_node_inv in E4 as (? & _ & [=] & _)].
    apply get_node_inv in E4 as (npa & Hnpa & [= ->] & ->).
    anystep H range w5 E5; [|apply wcatch_inv in E5 as (? & _ & [=])].
    pose proof (ro_catch _ (ro_calc_range T _ _ _) _ _ _ E5) as ->.
    destruct range as [[fp lp]|e]; [|apply wfail_inv in H as (_ & ->); exists (x :: Imp); exact Mb].
    anystep H u3 wc E6; [|apply content_insert_inv in E6 as (? & _ & [=] & _)].
    apply content_insert_inv in E6 as (npa' & Hnpa' & _ & ->).
    rewrite Hnpa in Hnpa'. injection Hnpa' as <-.
    assert (Hpa_a : Reach wa r pa) by (apply (reach_wset_kids w x nx _ pa Hnx); [reflexivity|exact Hpa]).
    assert (Hpa_b : Reach wb r pa) by (apply (st_reach _ _ _ _ Sab); exact Hpa_a).
    assert (Hpx_b : par wb x pa) by (exists nx3; split; [apply nodes_wset_eq|reflexivity]).
    assert (Hnl_b : ~ lists wb pa x).
    { intros Hl. apply (st_lists _ _ _ _ Sab) in Hl. apply (lists_wset_kids w x nx _ pa x Hnx) in Hl; [auto|reflexivity]. }
    destruct (MI_insert D (x :: Imp) wb x pa npa (N.to_nat (N.min (N.max (ipos + idx) fp) lp)) Mb HxD Hpa_b Hpx_b Hnl_b Hnpa) as (Mc & Hmono).
    set (wc := wset wb pa _) in *.
    assert (Hpa_c : Reach wc r pa).
    { eapply reach_mono; [| exact Hmono | exact Hpa_b]. intros i. apply (alloc_wset wb pa npa _ i Hnpa). }
    eapply (IH (idx + 1) D (x :: Imp) wc r0 w' Mc Hpb Hpa_c); auto.
    intros x' Hx'. destruct (Hall x' (or_intror Hx')) as (A & B & Cc). split; auto. split; auto.
    intros [<-|Hin]; auto.
Qed.

Definition MergeAny (fuel : nat) : Prop := forall pa files pb nf D Imp w r0 w',
  MI D Imp w -> Reach w r pa -> ~ In pb D -> ~ In pb Imp -> base <= pb ->
  (pb = rb \/ exists q, In q D /\ lists w1 q pb) ->
  merge_shared T LATEST name_definition_ref fuel pa files pb nf w = false ->
  merge_element T LATEST name_definition_ref fuel pa files pb nf w = Val (r0, w') ->
  exists D' Imp', MI D' Imp' w'.

Lemma subs_any fl files nf pb : MergeAny fl ->
  forall l Dc Ic wc r0 w', MI Dc Ic wc -> In pb Dc ->
    (forall ea eb, In (ea, eb) l -> Reach wc r ea /\ lists w1 pb eb /\ ~ In eb Dc /\ ~ In eb Ic) ->
    NoDup (map snd l) ->
    shared_subs fl files nf l wc = false -> subs_loop fl files nf l wc = Val (r0, w') ->
    exists D' Imp', MI D' Imp' w'.
Proof.
  intros IHa. pose proof (merge_ok fl) as IHf.
  induction l as [|[ea eb] rest IHl]; intros Dc Ic wc r0 w' M HpbD Hall Hnd Hs H.
  - cbn [subs_loop] in H. apply wret_inv in H as (_ & ->). eauto.
  - cbn [subs_loop] in H. cbn [shared_subs] in Hs. cbn [map snd] in Hnd. apply NoDup_cons_iff in Hnd as (Hebr & Hnd).
    destruct (Hall ea eb (or_introl eq_refl)) as (Hrea & Hleb & HebD & HebI).
    anystep H ean0 wx E1; [|apply get_node_inv in E1 as (? & _ & [=] & _)].
    apply get_node_inv in E1 as (ean & Hean & [= ->] & ->).
    rewrite Hean in Hs. cbv zeta in Hs. apply orb_false_iff in Hs as (Hs1 & Hs2).
    assert (Hbpb : base <= pb) by (apply (mi_dup _ _ _ M) in HpbD; tauto).
    assert (Hbeb : base <= eb).
    { destruct (N.lt_ge_cases eb base) as [Hlt|]; auto. pose proof (Hold_up _ _ Hlt (c_up _ C1 _ _ Hleb)). lia. }
    anystep H u1 wm Em.
    2:{ eapply (IHa ea _ eb nf Dc Ic wc _ w' M Hrea HebD HebI Hbeb (or_intror (ex_intro _ pb (conj HpbD Hleb))) Hs1 Em). }
    destruct u1.
    anystep H u2 wn En; [|apply modify_node_wset in En as (? & _ & [=] & _)]. destruct u2.
    erewrite wbind_val in Hs2 by exact Em. rewrite En in Hs2.
    destruct (IHf ea _ eb nf Dc Ic wc wm M Hrea HebD HebI Hbeb (or_intror (ex_intro _ pb (conj HpbD Hleb))) Hs1 Em)
      as (D2 & I2 & (M2 & Hmono2 & HD2 & HI2) & HcD2 & HcI2).
    assert (Smn : same_tree wm wn).
    { eapply stp_modify_node; [|exact En]. intros n. cbv beta. destruct (negb (is_empty (n_files n))); split; reflexivity. }
    pose proof (MI_same_tree _ _ _ _ Smn M2) as Mn.
    assert (Hmono_n : forall p c, lists wc p c -> lists wn p c).
    { intros p c Hl. apply (st_lists _ _ _ _ Smn). auto. }
    eapply (IHl D2 I2 wn r0 w' Mn (HD2 _ HpbD)); auto.
    intros ea' eb' Hin. destruct (Hall ea' eb' (or_intror Hin)) as (A & B & Cc & Dd).
    assert (Hne : eb <> eb'). { intros ->. apply Hebr. apply in_map_iff. exists (ea', eb'). auto. }
    split; [|split; [exact B|split]].
    + eapply reach_mono_root; [eapply MI_root_alloc; eauto | exact Hmono_n | exact A].
    + intros Hin2. destruct (HcD2 _ Hin2) as [Hd|Hd]; auto.
      apply Hne. eapply (siblings_not_nested w1 pb); eauto.
    + intros Hin2. destruct (HcI2 _ Hin2) as [Hd|(Hd & _)]; auto.
      apply Hne. eapply (siblings_not_nested w1 pb); eauto.
Qed.

Theorem merge_any : forall fuel, MergeAny fuel.
Proof.
  induction fuel as [|fl IHf]; intros pa files pb nf D Imp w r0 w' M Hpa HpD HpI Hb Hup Hs H; [discriminate H|].
  rewrite merge_element_S in H. rewrite merge_shared_S in Hs.
  anystep H w0 wx E0; [|apply wget_inv in E0 as ([=] & _)]. apply wget_inv in E0 as ([= ->] & ->).
  anystep H na0 wx E1; [|apply get_node_inv in E1 as (? & _ & [=] & _)]. apply get_node_inv in E1 as (na & Hna & [= ->] & ->).
  anystep H nb0 wx E2; [|apply get_node_inv in E2 as (? & _ & [=] & _)]. apply get_node_inv in E2 as (nb & Hnb & [= ->] & ->).
  anystep H la0 wx E3; [|apply wl_inv in E3 as (? & _ & [=] & _)]. apply wl_inv in E3 as (la & Ela & [= ->] & ->).
  anystep H lb0 wx E4; [|apply wl_inv in E4 as (? & _ & [=] & _)]. apply wl_inv in E4 as (lb & Elb & [= ->] & ->).
  anystep H sp0 wx E5; [|apply wl_inv in E5 as (? & _ & [=] & _)]. apply wl_inv in E5 as (sp & Esp & [= ->] & ->).
  anystep H wk wx E6.
  2:{ destruct (walk _ _ _ _ _ _ _ _ _) as [[wk0|e0]| |] in E6; try discriminate E6. injection E6 as _ <-. eauto. }
  destruct (walk _ _ _ _ _ _ _ _ _) as [[wk0|e0]| |] eqn:EW in E6; try discriminate E6. injection E6 as -> <-.
  unfold merge_decisions in Hs. cbv zeta in Hs. rewrite Hna, Hnb, Ela, Elb, Esp, EW in Hs.
  apply orb_false_iff in Hs as (Hws & Hs).
  pose proof (MI_enter D Imp w pb M HpD HpI Hb Hup) as M0.
  assert (HpbD0 : In pb (pb :: D)) by (left; auto).
  assert (Hnr : ~ Reach w r pb) by (intros Hre; apply (MI_reach_good _ _ _ _ M0 Hre); auto).
  assert (Hkb : kids nb = kids_of w1 pb).
  { rewrite <- (mi_kids _ _ _ M0) by auto. unfold kids_of. rewrite Hnb. reflexivity. }
  pose proof (keys_of_ids _ _ _ _ _ _ Ela) as Ila. pose proof (keys_of_ids _ _ _ _ _ _ Elb) as Ilb.
  assert (NDb : NoDup (map k_id lb)).
  { rewrite Ilb. fold (kids nb). rewrite Hkb. unfold kids_of. destruct (w_nodes w1 pb) as [n1|] eqn:E1; [|constructor].
    eapply c_nodup; eauto. }
  destruct (walk_ids _ _ _ _ _ _ _ _ _ _ EW NDb) as (WA & WB & WC & WD); [constructor|intros x []|].
  cbn [wk_merge wk_b_only bo map] in WA, WB, WC.
  assert (Hlb1 : forall x, In x (map k_id lb) -> lists w1 pb x).
  { intros x Hx. rewrite Ilb in Hx. fold (kids nb) in Hx. rewrite Hkb in Hx. apply lists_kids_of. exact Hx. }
  assert (Hla1 : forall x, In x (map k_id la) -> lists w pa x).
  { intros x Hx. rewrite Ila in Hx. exists na. auto. }
  anystep H u1 wr Er.
  2:{ exfalso. clear - Er. revert Er. generalize (wk_a_only wk) as l. intros l. revert w.
      induction l as [|a l IH]; intros w Er; cbn [restrict_a_only] in Er; [discriminate Er|].
      apply wbind_inv in Er as [(u & w2 & E1 & E2) | (e' & E1 & _)]; [eapply IH; eauto|].
      apply modify_node_wset in E1 as (? & _ & [=] & _). }
  destruct u1.
  pose proof (stp_restrict_a_only _ _ _ _ _ Er) as Sr.
  pose proof (MI_same_tree _ _ _ _ Sr M0) as Mr.
  assert (Hpa_r : Reach wr r pa) by (apply (st_reach _ _ _ _ Sr); auto).
  assert (Himp_pre : forall x, In x (map fst (wk_b_only wk)) -> lists w1 pb x /\ ~ In x Imp /\ ~ In x (pb :: D)).
  { intros x Hx. destruct (WC x Hx) as [[]|Hx']. apply Hlb1 in Hx'.
    destruct (kid_fresh _ _ _ _ _ M HpD Hb Hx') as (A & B & Cc & _). split; auto. split; auto. intros [<-|Hin]; auto. }
  anystep H u2 wi Ei.
  2:{ destruct (import_any pa pb nf _ _ _ _ _ _ _ _ Mr HpbD0 Hpa_r Himp_pre WD Ei) as (Imp2 & Mi). eauto. }
  destruct u2.
  assert (Eri : (restrict_a_only (wk_a_only wk) files;;
                 import_new_items T pa (wk_b_only wk) 0 nf (min_ver_of LATEST nf w))%W w = Val (OK tt, wi)).
  { erewrite wbind_val by exact Er. exact Ei. }
  rewrite Eri in Hs. clear Eri.
  destruct (import_ok pa pb nf (min_ver_of LATEST nf w) (wk_b_only wk) 0 (pb :: D) Imp wr wi Mr HpbD0 Hpa_r)
    as (Imp2 & Mi & HI2 & Hmono_i); [exact Himp_pre| exact WD | exact Ei |].
  assert (Hw : walk_shared wk = false) by exact Hws.
  unfold walk_shared in Hw. apply orb_false_iff in Hw as (Hnd & Hdis).
  apply negb_false_iff in Hnd. apply nodupb_nodup in Hnd.
  assert (Hpairs : forall ea eb, In (ea, eb) (wk_merge wk) ->
            Reach wi r ea /\ lists w1 pb eb /\ ~ In eb (pb :: D) /\ ~ In eb Imp2).
  { intros ea eb Hin.
    assert (Hea : In ea (map k_id la)).
    { destruct (WA ea) as [[]|]; auto. apply in_map_iff. exists (ea, eb). auto. }
    assert (Heb : In eb (map k_id lb)).
    { destruct (WB eb) as [[]|[|]]; auto. apply in_map_iff. exists (ea, eb). auto. }
    apply Hlb1 in Heb. destruct (kid_fresh _ _ _ _ _ M HpD Hb Heb) as (A & B & Cc & _).
    split; [|split; [exact Heb|split]].
    - eapply reach_mono_root; [eapply MI_root_alloc; eauto | exact Hmono_i |].
      apply (st_reach _ _ _ _ Sr). econstructor; [exact Hpa|]. apply Hla1. exact Hea.
    - intros [<-|Hin']; auto.
    - intros Hin'. apply HI2 in Hin' as [Hin'|Hin']; auto.
      apply in_map_iff in Hin' as ((b0 & n0) & E & Hb0). cbn in E. subst b0.
      assert (existsb (fun b => inb (fst b) (map snd (wk_merge wk))) (wk_b_only wk) = true); [|congruence].
      apply existsb_exists. exists (eb, n0). split; auto. apply inb_in. apply in_map_iff. exists (ea, eb). auto. }
  eapply (subs_any fl files nf pb IHf (wk_merge wk) (pb :: D) Imp2 wi r0 w' Mi HpbD0 Hpairs Hnd Hs H).
Qed.

End Merge.
