(* Tree/NoPanicProofsCompat.v — C12: ArxmlFile::check_version_compatibility / set_version (Tree/Compat.v) never panic or run
   out of fuel in a world with H12 and FI (Tree/NoPanicProofsFiles.v) — for EVERY such world since the fix 96557f4 in
   element.rs: the one `unwrap` of the walk reads the version mask in the RECALCULATED type with the index list that this
   very type returned, so the index list is a path of that type (Xml/TablesOk.v path_ok, found_ok).
   Before the fix the mask was read in the STORED type: the call panicked after a move / copy that keeps a stored type the
   new parent does not list (finding C12-panic-check-compat-mixup, `avh panics mixup`; the state is Tree/NoPanicProofsCompatEx.v)
   and the theorem needed agent-c17's TypedU and PairOK.  Every other lookup is total on checked types. *)
From Coq Require Import Lia PeanoNat.
From AV Require Import Base.Bytes Base.Outcome Hash.HashModel Spec.SpecOps Xml.TablesOk Tree.Heap Tree.Ops Tree.Script Tree.Inv.
From AV Require Import Tree.InvProofsBase Tree.Compat Tree.SortProofsReadyE Tree.OrdHist.
From AV Require Import Tree.NoPanic Tree.NoPanicProofsBase Tree.NoPanicProofsDepth Tree.NoPanicProofsHist
  Tree.NoPanicProofsFiles Tree.NoPanicProofsSerFile.
Open Scope string_scope.
Open Scope list_scope.
Open Scope N_scope.

Section CompatTotal.
Variable T : tables.
Variable tab_el tab_at tab_en : nametab.
Hypothesis OK12 : tables_ok12 T = true.
Notation TOK := (ok12_tables T OK12) (only parsing).
Notation H12 := (H12 T tab_el tab_at tab_en).

Lemma attr_loop_ok self oldty newty target attrs : etype_ok T oldty -> etype_ok T newty ->
  exists r, attr_loop T self oldty newty target attrs = Val r.
Proof.
  intros EO EN. induction attrs as [|[an v] rest (r2 & E2)]; cbn [attr_loop]; [eauto|].
  assert (S1 : exists r1, attr_step T self oldty newty target (an, v) = Val r1).
  { unfold attr_step. destruct (find_attribute_spec_ok T TOK newty an EN) as (sp & -> & _). cbn [bind].
    destruct sp as [[[[a spec] b] vmask]|].
    - destruct (negb (compatible target vmask)); [eauto|]. destruct (value_compat v spec target); eauto.
    - destruct (find_attribute_spec_ok T TOK oldty an EO) as (so & -> & _). cbn [bind]. eauto. }
  destruct S1 as ([e1 m1] & ->). cbn [bind]. rewrite E2. destruct r2 as [e2 m2]. cbn [bind]. eauto.
Qed.

Section World.
Variable w : world.
Variable f target : N.
Hypothesis I : H12 w.

Lemma node_ety i n : w_nodes w i = Some n -> etype_ok T (n_type n).
Proof. destruct I as (_ & _ & _ & (E & _) & _). intros H. exact (proj1 (E i n H)). Qed.

Lemma recalc_ok i n : w_nodes w i = Some n ->
  exists newty, recalc_element_type T w n target = Val newty /\ etype_ok T newty.
Proof.
  intros Hn. pose proof (node_ety i n Hn) as EO. unfold recalc_element_type. destruct (n_parent n) as [|m|p] eqn:EP; [eauto|eauto|].
  pose proof (H12_PanicFree T tab_el tab_at tab_en w I) as [C _ _].
  destruct (cl_node _ _ _ _ C i n Hn) as (_ & _ & _ & _ & Hp). rewrite EP in Hp.
  destruct (w_nodes w p) as [pn|] eqn:Hpn; [|exfalso; apply (cl_alloc _ _ _ _ C p) in Hp; exact (Hp Hpn)].
  unfold node_at. rewrite Hpn. cbn [unwrap bind].
  destruct (find_sub_element_total T TOK (n_type pn) (n_name n) target (node_ety p pn Hpn)) as (r & Er & Fr). rewrite Er. cbn [bind].
  destruct r as [[et ixs]|]; [exists et; split; [reflexivity|exact (proj1 Fr)]|eauto].
Qed.

Lemma sub_loop_ok rec oldty newty items : etype_ok T newty ->
  (forall c, In (CElem c) items -> (exists cn, w_nodes w c = Some cn) /\ exists r, rec c = Val r) ->
  exists r, sub_loop T rec w oldty newty f target items = Val r.
Proof.
  intros EN. induction items as [|[c|d] rest IH]; intros HK; cbn [sub_loop]; [eauto| |].
  - destruct IH as ((e2 & m2) & E2). { intros c0 H0. apply HK. right. exact H0. }
    destruct (HK c (or_introl eq_refl)) as ((cn & Hcn) & ((e1 & m1) & E1)).
    unfold node_at. rewrite Hcn. cbn [unwrap bind].
    destruct (is_empty (n_files cn) || set_mem f (n_files cn))%bool; [|eauto].
    destruct (find_sub_element_total T TOK newty (n_name cn) target EN) as (r1 & Er1 & F1). rewrite Er1. cbn [bind].
    destruct (find_sub_element_total T TOK newty (n_name cn) U32MAX EN) as (r2 & Er2 & F2). rewrite Er2. cbn [bind].
    assert (K : forall ixs, path_ok T (snd newty) ixs ->
                exists r, (let* o := get_sub_element_version_mask T newty ixs in
                           let* vm := unwrap "check_version_compatibility: get_sub_element_version_mask(..).unwrap()" o in
                           if negb (compatible target vm)
                           then let* '(e2, m2) := sub_loop T rec w oldty newty f target rest in Val (CEElem c vm :: e2, N.land vm m2)
                           else let* '(e1, m1) := rec c in
                                let* '(e2, m2) := sub_loop T rec w oldty newty f target rest in
                                Val (e1 ++ e2, N.land (N.land vm m1) m2))%res = Val r).
    { intros ixs P. destruct (get_sub_element_version_mask_ok T newty ixs P) as (m & Em). rewrite Em. cbn [unwrap bind].
      destruct (negb (compatible target m)).
      - rewrite E2. cbn [bind]. eauto.
      - rewrite E1. cbn [bind]. rewrite E2. cbn [bind]. eauto. }
    destruct r1 as [[et1 ixs1]|].
    + exact (K ixs1 (proj2 F1)).
    + destruct r2 as [[et2 ixs2]|]; [|eauto]. exact (K ixs2 (proj2 F2)).
  - apply IH. intros c0 H0. apply HK. right. exact H0.
Qed.

Lemma e_check_ok : forall fuel i n, hb w i fuel -> w_nodes w i = Some n ->
  exists r, e_check T fuel w i f target = Val r.
Proof.
  induction fuel as [|fl IH]; intros i n HB Hn; [inversion HB|].
  inversion HB as [i0 f0 HK]; subst. specialize (HK n).
  cbn [e_check]. unfold node_at. rewrite Hn. cbn [unwrap bind].
  destruct (recalc_ok i n Hn) as (newty & -> & EN). cbn [bind].
  destruct (attr_loop_ok i (n_type n) newty target (n_attrs n) (node_ety i n Hn) EN) as ((ea & ma) & ->). cbn [bind].
  destruct (chardata_spec_ok T TOK newty EN) as (cs & -> & _). cbn [bind].
  destruct (match cs with Some spec => text_loop i spec target (n_content n) | None => ([], U32MAX) end) as (et & mt).
  destruct (sub_loop_ok (fun c => e_check T fl w c f target) (n_type n) newty (n_content n) EN) as ((es & ms) & ->); [|cbn [bind]; eauto].
  intros c Hc. pose proof I as (C & _).
  assert (L : lists w i c).
  { exists n. split; [exact Hn|]. unfold kids, elems. apply in_flat_map. exists (CElem c). split; [exact Hc|left; reflexivity]. }
  apply (c_up w C) in L as (cn & Hcn & Hp). split; [eauto|].
  apply (IH c cn); [apply HK; [exact Hn|exact Hc]|exact Hcn].
Qed.

End World.

Theorem np_f_check w f target : H12 w -> FI w -> f < N.of_nat (List.length (w_files w)) ->
  exists r, f_check T w f target = Val r.
Proof.
  intros I (NF & FK) Lf. pose proof (H12_PanicFree T tab_el tab_at tab_en w I) as [C U CU]. pose proof I as (CO & _).
  destruct (nth_opt_lt' (w_files w) (N.to_nat f)) as (fl & Hfl); [lia|].
  destruct (FK _ _ Hfl) as (Lm & _).
  destruct (nth_opt_lt' (w_models w) (N.to_nat (f_model fl))) as (m & Hm); [lia|].
  unfold f_check. rewrite Hfl. cbn [unwrap bind]. rewrite Hm. cbn [unwrap bind].
  assert (Hr : nth_error (roots w) (N.to_nat (f_model fl)) = Some (m_root m)).
  { unfold roots. rewrite nth_error_map. rewrite Bytes.nth_opt_nth_error in Hm. rewrite Hm. reflexivity. }
  destruct (c_roots w CO _ _ Hr) as (rn & Hrn & Hp).
  assert (Lr : m_root m < w_next w) by (apply (cl_alloc _ _ _ _ C); rewrite Hrn; discriminate).
  exact (e_check_ok w f target I (fuel_of w) (m_root m) rn (hb_fuel T tab_el tab_en w (m_root m) C U CU Lr) Hrn).
Qed.

Theorem np_f_check_version_compatibility w f target : H12 w -> FI w -> f < N.of_nat (List.length (w_files w)) ->
  runs (f_check_version_compatibility T f target) w.
Proof.
  intros I F Lf. destruct (np_f_check w f target I F Lf) as (r & E).
  unfold runs, f_check_version_compatibility. rewrite E. eauto.
Qed.

Theorem np_f_set_version w f target : H12 w -> FI w -> f < N.of_nat (List.length (w_files w)) ->
  runs (f_set_version T f target) w.
Proof.
  intros I F Lf. destruct (np_f_check w f target I F Lf) as ((errs & mask) & E).
  unfold f_set_version. eapply runs_bind; [unfold f_check_version_compatibility; rewrite E; reflexivity|]. intros a [= <-].
  destruct (is_empty errs); [|apply runs_fail].
  destruct (nth_opt_lt' (w_files w) (N.to_nat f)) as (fl & Hfl); [lia|].
  eapply runs_bind; [unfold get_file; rewrite Hfl; reflexivity|]. intros a [= <-].
  unfold runs, set_file. eauto.
Qed.

End CompatTotal.
