(* Tree/InvProofsMove.v — C03 proofs: move_element_position / _local / _full and move_element_here(_at). *)
From Coq Require Import PeanoNat Arith.
From AV Require Import Base.Bytes Base.Outcome Hash.HashModel Tree.Heap Tree.Ops Tree.Script Tree.Inv
  Tree.InvProofsBase Tree.InvProofsCore Tree.InvProofsTree Tree.InvProofsPrim Tree.InvProofsCreate
  Tree.InvProofsData Tree.InvProofsRefs.
Open Scope string_scope.
Open Scope list_scope.
Open Scope N_scope.

(* ancestor_is decides "other is a proper ancestor" along the parent links *)
Lemma ancestor_is_false f : forall w x n other,
  w_nodes w x = Some n -> ancestor_is f (n_parent n) other w = Val (OK false, w) -> x <> other -> ~ AncS w other x.
Proof.
  induction f as [|f IH]; intros w x n other Hn H Hne Ha; cbn [ancestor_is] in H; [discriminate|].
  destruct Ha as [|x p Hp Ha]; [congruence|].
  destruct Hp as (n' & Hn' & Hp). assert (n' = n) as -> by congruence. rewrite Hp in H.
  destruct (p =? other) eqn:E; [winv H|]. apply N.eqb_neq in E.
  wstepn H np Ep; winv Ep.
  match goal with Hq : w_nodes w p = Some ?nq |- _ => exact (IH w p nq other Hq H E Ha) end.
Qed.

Section Move.
Variable T : tables.
Variable tab_el tab_en : nametab.
Variable check_fn : N -> list N -> res bool.
Variable LATEST : N.

Lemma parent_of_some n w p : parent_of n w = Val (OK (Some p), w) -> n_parent n = PElem p.
Proof. unfold parent_of. destruct (n_parent n); intros H; winv H; congruence. Qed.

Lemma detach_inv p c w r w' :
  detach_from p c w = Val (r, w') ->
  (exists e, r = ER e /\ w' = w) \/
  (exists pn k, w_nodes w p = Some pn /\ index_of (citem_is c) (n_content pn) = Some k /\ r = OK tt /\
                w' = wset w p (set_content pn (remove_at (n_content pn) k))).
Proof.
  unfold detach_from. intros H. wstepn H pn Ep; winv Ep.
  destruct (index_of (citem_is c) (n_content n)) as [k|] eqn:Hk.
  - apply set_node_wset in H as (-> & ->). right. eauto 10.
  - winv H. left. eauto.
Qed.

(* heads and the index under the two structural steps of a move *)
Lemma hb_detach w p pn k c :
  w_nodes w p = Some pn -> nth_opt (n_content pn) k = Some (CElem c) ->
  hb w (wset w p (set_content pn (remove_at (n_content pn) k))).
Proof.
  intros Hp Hk. split; [|intros re Hr; exact Hr].
  intros i Hi. unfold node_head_elem in *. destruct (N.eq_dec i p) as [->|Hip].
  - rewrite nodes_wset_eq. rewrite Hp in Hi. unfold head_elem in *. cbn.
    destruct (n_content pn) as [|[x|d] t]; auto; try discriminate.
    destruct k; cbn in Hk; [discriminate|]. reflexivity.
  - rewrite nodes_wset_neq by auto. exact Hi.
Qed.
Lemma hb_set_parent w i n pp : w_nodes w i = Some n -> hb w (wset w i (set_parent n pp)).
Proof.
  intros Hn. split; [|intros re Hr; exact Hr].
  intros j Hj. unfold node_head_elem in *. destruct (N.eq_dec j i) as [->|Hji].
  - rewrite nodes_wset_eq. rewrite Hn in Hj. exact Hj.
  - rewrite nodes_wset_neq by auto. exact Hj.
Qed.

Definition fixid_body (m : N) (src_prefix dest_path : list N) (op : list N) : W unit :=
  match strip_prefix src_prefix op with
  | Some suffix => fix_identifiables m op (dest_path ++ suffix)
  | None => wret tt
  end.
Lemma stp_each_fixid m sp dp l : stp (each_loop (fixid_body m sp dp) l).
Proof. induction l as [|a l IH]; cbn [each_loop]; [stp_tac|]. unfold fixid_body at 1. stp_tac. Qed.
Lemma bnp_each_fixid w0 m sp dp l : bnp w0 (each_loop (fixid_body m sp dp) l).
Proof.
  apply bnp_each_loop. intros a. unfold fixid_body. destruct (strip_prefix sp a);
    [apply bnp_fix_identifiables | apply bnp_ro; ro_tac].
Qed.

Definition Mid (w2 wk : world) : Prop := shr w2 wk /\ (OriginsClean w2 -> bn w2 wk).
Lemma mid_refl w2 : Core w2 -> Mid w2 w2.
Proof. intros C. split; [apply shr_refl; auto | intros; apply bn_refl]. Qed.
Lemma mid_step {A} (comp : W A) w2 wk r wk' :
  Core w2 -> shrp comp -> (OriginsClean w2 -> bnp w2 comp) -> Mid w2 wk -> comp wk = Val (r, wk') -> Mid w2 wk'.
Proof.
  intros C Hs Hb (Sk & Bk) E. split.
  - eapply shr_trans; [exact Sk|]. eapply Hs; eauto. eapply Core_shr; eauto.
  - intros Hc. eapply (Hb Hc); eauto.
Qed.

Lemma move_local_spec self mv pos m version w r w' :
  move_element_local T check_fn self mv pos m version w = Val (r, w') -> Core w -> self <> mv ->
  Core w' /\
  (NoOrphan w -> OriginsClean w -> NoOrphan w' \/ (exists e, r = ER e /\ parent_in w' mv = PElem self)).
Proof.
  intros H C Hsm. unfold move_element_local in H.
  assert (F : Core w /\ (NoOrphan w -> OriginsClean w ->
                         NoOrphan w \/ (exists e, r = ER e /\ parent_in w mv = PElem self))) by auto.
  wrun_ro H ltac:(exact F).
  match goal with
  | E0 : parent_of ?mn0 w = Val (OK (Some ?sp0), w), Es : path_unchecked T ?mn0 w = Val (OK ?spx, w),
    Ed : path_unchecked T ?n0 w = Val (OK ?dpx, w), Hm : w_nodes w mv = Some ?mn0, Hs : w_nodes w self = Some ?n0,
    Ea : ancestor_is _ (n_parent ?n0) mv w = _, En : named_paths T _ w = Val (OK ?orig, w) |- _ =>
    rename mn0 into mn; rename sp0 into sp; rename spx into src_prefix; rename dpx into dest_prefix;
    rename n0 into ns; rename orig into original;
    apply parent_of_some in E0; rename E0 into Hpm; rename Hm into Hmv; rename Hs into Hself; rename Ea into Hanc
  end.
  assert (Hpar0 : par w mv sp) by (exists mn; auto).
  assert (Hna : ~ AncS w mv self) by (eapply ancestor_is_false; eauto).
  assert (Hmsp : mv <> sp).
  { intros <-. eapply (ancs_par_irrefl w mv mv); eauto; [apply C; eexists; eauto | constructor]. }
  (* detach *)
  wstepn H u Ed. 2:{ apply detach_inv in Ed as [(e' & _ & ->)|(pn & k & _ & _ & [=] & _)]. exact F. }
  apply detach_inv in Ed as [(e' & [=] & _)|(pn & k & Hpn & Hk & _ & ->)].
  set (w1 := wset w sp _) in *.
  pose proof (index_of_citem _ _ _ Hk) as Hnth.
  assert (Hks : forall x, In x (elems (remove_at (n_content pn) k)) <-> In x (kids pn) /\ x <> mv).
  { intros x. apply elems_remove_elem; auto. eapply c_nodup; eauto. }
  assert (Hi1 : skel w sp = Some (n_parent pn, kids pn)) by (apply skel_some; auto).
  assert (Hi1' : skel w1 sp = Some (n_parent pn, elems (remove_at (n_content pn) k))).
  { unfold w1. rewrite skel_wset_eq. reflexivity. }
  assert (S1 : shr w w1).
  { eapply shr_upd1; eauto using upd1_wset.
    - intros x Hx. apply Hks in Hx. tauto.
    - apply elems_remove_nodup. eapply c_nodup; eauto. }
  assert (C1 : Core w1) by (eapply Core_shr; eauto).
  assert (Hun1 : forall p, ~ lists w1 p mv).
  { intros p Hl. pose proof (c_up _ C1 _ _ Hl) as Hp. apply (shr_par _ _ _ _ S1) in Hp.
    rewrite (par_fun _ _ _ _ Hp Hpar0) in Hl. apply lists_skel in Hl as (qa & qb & Eq & Hin).
    rewrite Hi1' in Eq. injection Eq as <- <-. apply Hks in Hin. tauto. }
  assert (O1 : NoOrphan w -> OrphSub w1 (fun x => x = mv)).
  { intros O. apply NoOrphan_OrphSub in O.
    eapply OrphSub_weaken; [|eapply orphsub_drop; eauto using upd1_wset].
    intros x [[]|(Hin & Hnin)]. destruct (N.eq_dec x mv); auto. exfalso. apply Hnin. apply Hks. auto. }
  assert (B1 : hb w w1) by (eapply hb_detach; eauto).
  (* re-parent *)
  wstepn H u2 Em. apply modify_node_wset in Em as (mn1 & Hmn1 & _ & ->).
  assert (mn1 = mn) as -> by (unfold w1 in Hmn1; rewrite nodes_wset_neq in Hmn1 by auto; congruence).
  set (w2 := wset w1 mv _) in *.
  assert (Hi2 : skel w1 mv = Some (PElem sp, kids mn)) by (rewrite (skel_some _ _ _ Hmn1), Hpm; auto).
  assert (Hi2' : skel w2 mv = Some (PElem self, kids mn)) by (unfold w2; rewrite skel_wset_eq; reflexivity).
  assert (C2 : Core w2).
  { eapply (core_reparent w1 w2 mv); eauto using upd1_wset.
    - congruence.
    - apply (shr_alloc _ _ _ S1). eexists; eauto.
    - rewrite (shr_ancs _ _ _ _ S1). auto. }
  assert (O2 : NoOrphan w -> OrphSub w2 (fun x => x = mv)).
  { intros O. eapply OrphSub_weaken; [|eapply orphsub_reparent; eauto using upd1_wset]. cbn. tauto. }
  assert (Hpar2 : par w2 mv self) by (apply par_skel; eauto).
  assert (Hun2 : forall p, ~ lists w2 p mv).
  { intros p Hl. apply (Hun1 p). apply lists_skel in Hl as (qa & qb & Eq & Hin). apply lists_skel.
    destruct (N.eq_dec p mv) as [->|Hp].
    - rewrite Hi2' in Eq. injection Eq as <- <-. eauto.
    - unfold w2 in Eq. rewrite skel_wset_neq in Eq by auto. eauto. }
  assert (B2 : hb w w2) by (eapply hb_trans; [exact B1 | eapply hb_set_parent; eauto]).
  assert (Cl2 : OriginsClean w -> OriginsClean w2) by (intros Hc; eapply hb_clean; eauto).
  clearbody w2 w1.
  assert (EXIT : forall wk e, Mid w2 wk ->
            Core wk /\ (NoOrphan w -> OriginsClean w ->
                        NoOrphan wk \/ (exists e0, @ER id e = ER e0 /\ parent_in wk mv = PElem self))).
  { intros wk e (Sk & _). split; [eapply Core_shr; eauto|]. intros _ _. right. exists e. split; auto.
    apply (shr_par _ _ _ _ Sk) in Hpar2. destruct Hpar2 as (nk & Hnk & Hpk). unfold parent_in. rewrite Hnk. auto. }
  pose proof (mid_refl _ C2) as M2.
  wstepn H mn2 Eg; winv Eg.
  wstepn H ident Ei. 2:{ unfold is_identifiable in Ei. absurd_err Ei. }
  wstepn H dest_path Edp.
  2:{ apply EXIT. eapply (mid_step _ w2 w2); eauto.
      - destruct ident; [|apply shrp_stp; stp_tac]. apply shrp_stp. apply stp_bind; [apply stp_make_unique|intros; stp_tac].
      - intros Hc. destruct ident; [|apply bnp_ro; ro_tac].
        apply bnp_bind; [apply bnp_make_unique|intros; apply bnp_ro; ro_tac]. }
  assert (M3 : Mid w2 w0).
  { eapply (mid_step _ w2 w2); eauto.
    - destruct ident; [|apply shrp_stp; stp_tac]. apply shrp_stp. apply stp_bind; [apply stp_make_unique|intros; stp_tac].
    - intros Hc. destruct ident; [|apply bnp_ro; ro_tac].
      apply bnp_bind; [apply bnp_make_unique|intros; apply bnp_ro; ro_tac]. }
  wstepn H u3 Ea.
  2:{ apply EXIT. eapply (mid_step _ w2 w0); eauto.
      - destruct ident; [apply shrp_stp; stp_tac|]. apply shrp_stp. apply (stp_each_fixid m src_prefix dest_path).
      - intros Hc. destruct ident; [apply bnp_fix_identifiables|]. apply (bnp_each_fixid w2 m src_prefix dest_path). }
  assert (M4 : Mid w2 w3).
  { eapply (mid_step _ w2 w0); eauto.
    - destruct ident; [apply shrp_stp; stp_tac|]. apply shrp_stp. apply (stp_each_fixid m src_prefix dest_path).
    - intros Hc. destruct ident; [apply bnp_fix_identifiables|]. apply (bnp_each_fixid w2 m src_prefix dest_path). }
  wstepn H u4 Eb.
  2:{ apply EXIT. eapply (mid_step _ w2 w3); eauto.
      - apply (shrp_each_loop (move_ref_body T check_fn m src_prefix dest_path version)).
        intros a. apply shrp_move_ref_body.
      - intros Hc. apply (bnp_each_loop w2 (move_ref_body T check_fn m src_prefix dest_path version)).
        intros a. apply bnp_move_ref_body; auto. }
  assert (M5 : Mid w2 w4).
  { eapply (mid_step _ w2 w3); eauto.
    - apply (shrp_each_loop (move_ref_body T check_fn m src_prefix dest_path version)).
      intros a. apply shrp_move_ref_body.
    - intros Hc. apply (bnp_each_loop w2 (move_ref_body T check_fn m src_prefix dest_path version)).
      intros a. apply bnp_move_ref_body; auto. }
  destruct M5 as (S5 & B5).
  assert (C5 : Core w4) by (eapply Core_shr; eauto).
  assert (Hpar5 : par w4 mv self) by (apply (shr_par _ _ _ _ S5); auto).
  assert (Hun5 : ~ lists w4 self mv) by (intros Hl; eapply Hun2; eapply shr_lists; eauto).
  wstepn H u5 Ec.
  - winv H. destruct (insert_child_core _ _ _ _ _ _ C5 Hpar5 Hun5 Ec) as (C' & _ & HO). split; auto.
    intros O Hc. left. apply NoOrphan_OrphSub.
    eapply OrphSub_weaken; [|apply HO; eapply OrphSub_same_tree; [apply (proj1 (B5 (Cl2 Hc)))|apply O2; auto]].
    cbn. intros x (-> & Hx). congruence.
  - destruct (insert_child_core _ _ _ _ _ _ C5 Hpar5 Hun5 Ec) as (_ & [=] & _).
Qed.
End Move.
