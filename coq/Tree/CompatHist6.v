(* Tree/CompatHist6.v — the typing invariant over the extended alphabet op2 of Tree/Script2.v:
     OpSort / OpSortModel (C14_perm: only content lists are permuted), OpSetVersion, OpCheckCompat, OpSerializeFile (rewrites the
     root's xsi:schemaLocation value), OpSerializeElem — all frame steps; Op1 o — Tree/CompatHist5.v.
   PENDING: OpLoad (nobody has Core for the loader; the merge attaches nodes of the incoming tree below existing parents) and
   OpDuplicate (needs the extra invariant that every model root carries the root element type). *)
From Coq Require Import PeanoNat Arith Permutation Lia.
From AV Require Import Base.Bytes Base.Outcome Hash.HashModel Spec.SpecOps Tree.Heap Tree.Ops Tree.Script Tree.Inv
  Tree.InvProofsBase Tree.InvProofsCore Tree.InvProofsPrim Tree.InvProofs Tree.InvProofsOp2
  Tree.Sort Tree.SortProofsHeap Tree.SortProofsOrder Tree.SortProofsMain Tree.Copy Tree.Serialize Tree.Load Tree.Script2
  Tree.Compat Tree.CompatSpec Tree.CompatProofs3 Tree.CompatTyped Tree.CompatProofs8 Tree.CompatFrame Tree.CompatFrameOps
  Tree.CompatHist1 Tree.CompatHist4 Tree.CompatHist5.
Open Scope string_scope.
Open Scope list_scope.
Open Scope N_scope.

Definition pending2 (o : op2) : bool := match o with OpLoad _ _ _ _ | OpDuplicate _ => true | _ => false end.

Lemma world_rel_Fr T w w' : world_rel T w w' -> Fr w w'.
Proof.
  intros (Nx & _ & _ & Hn). split; [lia|]. intros j x Hx. specialize (Hn j). rewrite Hx in Hn.
  destruct (w_nodes w j) as [x0|]; [|destruct Hn]. exists x0. split; [reflexivity|].
  destruct Hn as ((_ & Hname & Hty & _) & Hc). split; [exact Hname|]. split; [exact Hty|].
  intros c Hin. destruct Hc as [E|(_ & P)]; [rewrite E in Hin; exact Hin|].
  apply (Permutation_in _ (Permutation_sym P)) in Hin. apply in_map_iff in Hin as (c' & [= <-] & Hc'). apply in_celems. exact Hc'.
Qed.

Section Op2.
Variable T : tables.
Variable tab_el tab_at tab_en : nametab.
Variable check_fn : N -> list N -> res bool.
Variable float_parse : list N -> option N.
Variable float_fmt : N -> list N.
Variable LATEST name_index name_definition_ref attr_schema_location : N.
Variable root_attrs : list (N * cdata).

Notation run2 := (run_op2 T tab_el tab_at tab_en check_fn float_parse float_fmt LATEST name_index name_definition_ref
                          attr_schema_location root_attrs).

Definition op2_ok (w : world) (o : op2) : Prop := match o with Op1 o1 => op_ok T w o1 | _ => True end.

Lemma with_version_nodes w f v : w_nodes (with_version w f v) = w_nodes w /\ w_next (with_version w f v) = w_next w.
Proof. unfold with_version. destruct (nth_opt (w_files w) (N.to_nat f)); auto. Qed.

Lemma typed_op2 o w r w' : pending2 o = false -> Core w -> TypedU T w -> op2_ok w o -> run2 o w = Val (r, w') -> TypedU T w'.
Proof.
  intros Hp C HT Hok H. destruct o; try discriminate Hp; cbn [run_op2] in H; cbn [op2_ok] in Hok.
  - apply wmap_inv in H as (r0 & H & _). exact (typed_op T tab_el tab_en check_fn LATEST root_attrs o w r0 w' C HT Hok H).
  - apply wmap_inv in H as (r0 & H & _). unfold e_sort in H.
    apply (e_sort_frame T tab_el tab_at tab_en name_index name_definition_ref isort_poly StableSort_isort) in H as (_ & WR).
    exact (Fr_typed_u T _ _ (world_rel_Fr _ _ _ WR) HT).
  - apply wmap_inv in H as (r0 & H & _). unfold m_sort in H.
    apply (m_sort_frame T tab_el tab_at tab_en name_index name_definition_ref isort_poly StableSort_isort) in H as (_ & WR).
    exact (Fr_typed_u T _ _ (world_rel_Fr _ _ _ WR) HT).
  - apply wmap_inv in H as (r0 & H & _).
    destruct (f_check T w f v) as [[errs mask]| |] eqn:Ec.
    + rewrite (set_version_spec T w f v errs mask Ec) in H. destruct (is_empty errs); injection H as _ <-; [|exact HT].
      intros i n c cn. destruct (with_version_nodes w f v) as (E & _). rewrite E. apply HT.
    + unfold f_set_version, wbind, f_check_version_compatibility in H. rewrite Ec in H. discriminate.
    + unfold f_set_version, wbind, f_check_version_compatibility in H. rewrite Ec in H. discriminate.
  - apply wbind_inv in H as [(a & w1 & H1 & H2) | (e & H1 & _)];
      unfold f_check_version_compatibility in H1; destruct (f_check T w f v); try discriminate.
    injection H1 as _ <-. destruct a. apply wret_inv in H2 as (_ & ->). exact HT.
  - apply wmap_inv in H as (r0 & H & _). unfold f_serialize in H.
    wrun_ro H ltac:(exact HT).
    wstepn H o Ea. apply wtry_inv in Ea as (r1 & Ea & _).
    pose proof (frp_typed_u T _ _ _ _ (fun w0 => frp_raw_set_attribute T check_fn w0 _ _ _ _) Ea HT) as T1.
    destruct (ser_heap _ _ _ _ _ _ _ _ _ _ _) in H; try discriminate. injection H as _ <-. exact T1.
  - apply wmap_inv in H as (r0 & H & _). unfold e_serialize in H.
    destruct (ser_heap _ _ _ _ _ _ _ _ _ _ _) in H; try discriminate. injection H as _ <-. exact HT.
Qed.

Theorem typed_step2 o w r w' :
  pending2 o = false -> Core w -> TypedU T w -> op2_ok w o -> run2 o w = Val (r, w') -> Core w' /\ TypedU T w'.
Proof.
  intros Hp C HT Hok H. split; [|exact (typed_op2 o w r w' Hp C HT Hok H)].
  apply (Core_step2_partial T tab_el tab_at tab_en check_fn float_parse float_fmt LATEST name_index name_definition_ref
           attr_schema_location root_attrs o w r w'); [destruct o; try discriminate Hp; reflexivity|exact C|exact H].
Qed.

(* histories of op2 *)
Fixpoint run_ops2 (l : list op2) (w : world) : res world :=
  match l with
  | [] => Val w
  | o :: r => match run2 o w with Val (_, w') => run_ops2 r w' | Pan s => Pan s | Fuel => Fuel end
  end.
Fixpoint ok_ops2 (l : list op2) (w : world) : Prop :=
  match l with
  | [] => True
  | o :: r => pending2 o = false /\ op2_ok w o /\ match run2 o w with Val (_, w') => ok_ops2 r w' | _ => True end
  end.

Theorem typed_histories2 l : forall w w', Core w -> TypedU T w -> ok_ops2 l w -> run_ops2 l w = Val w' -> Core w' /\ TypedU T w'.
Proof.
  induction l as [|o l IH]; intros w w' C HT Hok H; cbn [run_ops2] in H.
  - injection H as <-. auto.
  - cbn [ok_ops2] in Hok. destruct Hok as (Hp & Ho & Hrest).
    destruct (run2 o w) as [[r w1]| |] eqn:E; try discriminate.
    destruct (typed_step2 o w r w1 Hp C HT Ho E) as (C1 & T1). exact (IH w1 w' C1 T1 Hrest H).
Qed.

End Op2.
