(* Tree/InvProofsOp2Real.v — C03: RealInv over the alphabet op2 on the regenerated tables RT ([F] RefChars_real). *)
From AV Require Import Base.Bytes Base.Outcome Hash.HashModel Spec.SpecOps Spec.SpecReal Tree.Heap Tree.Ops Tree.Script
  Tree.Inv Tree.InvProofs Tree.InvProofsChars Tree.InvProofsOrigins3 Tree.InvProofsReal Tree.InvProofsRealTables
  Tree.Script2 Tree.InvLoad Tree.InvProofsOp2 Tree.InvProofsOp2Lift Tree.InvEBase Tree.InvProofsLoadLive Tree.InvProofsOp2Live Tree.InvProofsOp2Rej.
From AV Require Xml.TablesOk Xml.TablesOkReal.
Open Scope string_scope.
Open Scope list_scope.
Open Scope N_scope.

Section Real2.
Variable tab_el tab_at tab_en : nametab.
Variable check_fn : N -> list N -> res bool.
Variable float_parse : list N -> option N.
Variable float_fmt : N -> list N.
Variable LATEST name_index name_definition_ref attr_schema_location : N.
Variable root_attrs : list (N * cdata).

Theorem RealInv_step2_real_partial o w r w' :
  RealInv RT w -> pending_op2 o = false ->
  Known_real2 RT tab_el tab_at tab_en check_fn float_parse float_fmt LATEST name_index name_definition_ref
              attr_schema_location root_attrs w o = false ->
  run_op2 RT tab_el tab_at tab_en check_fn float_parse float_fmt LATEST name_index name_definition_ref
          attr_schema_location root_attrs o w = Val (r, w') -> RealInv RT w'.
Proof. apply RealInv_step2_partial. exact RefChars_real. Qed.

(* every history over op2 (without OpLoad) from the empty world *)
Theorem RealInv_histories2_real_partial l w' :
  clean_real_ops2 RT tab_el tab_at tab_en check_fn float_parse float_fmt LATEST name_index name_definition_ref
                  attr_schema_location root_attrs l empty_world = true ->
  run_ops2 RT tab_el tab_at tab_en check_fn float_parse float_fmt LATEST name_index name_definition_ref
           attr_schema_location root_attrs l empty_world = Val w' -> RealInv RT w'.
Proof. apply RealInv_histories2_partial; [exact RefChars_real|apply RealInv_empty]. Qed.

(* ---------- the whole alphabet, loads included: RealInvL = TreeInvL /\ CharsLeaf /\ OriginsRef ---------- *)
Theorem RealInvL_step2_real o w r w' :
  RealInvL RT w ->
  Known_real2 RT tab_el tab_at tab_en check_fn float_parse float_fmt LATEST name_index name_definition_ref
              attr_schema_location root_attrs w o = false ->
  Known_load RT tab_el tab_at tab_en check_fn float_parse float_fmt LATEST name_index name_definition_ref
             attr_schema_location root_attrs w o = false ->
  run_op2 RT tab_el tab_at tab_en check_fn float_parse float_fmt LATEST name_index name_definition_ref
          attr_schema_location root_attrs o w = Val (r, w') -> RealInvL RT w'.
Proof. apply RealInvL_step2; [exact RefChars_real|exact TablesOkReal.tables_ok_real]. Qed.

Theorem RealInvL_histories2_real l w' :
  clean_ops2 RT tab_el tab_at tab_en check_fn float_parse float_fmt LATEST name_index name_definition_ref
             attr_schema_location root_attrs l empty_world = true ->
  run_ops2 RT tab_el tab_at tab_en check_fn float_parse float_fmt LATEST name_index name_definition_ref
           attr_schema_location root_attrs l empty_world = Val w' -> RealInvL RT w'.
Proof. apply RealInvL_histories2; [exact RefChars_real|exact TablesOkReal.tables_ok_real|apply RealInvL_empty]. Qed.

(* the final form: the classes are failed re-parenting, a duplicate that fails half-way, and Known_load_shared *)
Theorem RealInvL_step2_real_full o w r w' :
  RealInvL RT w ->
  Known_real2 RT tab_el tab_at tab_en check_fn float_parse float_fmt LATEST name_index name_definition_ref
              attr_schema_location root_attrs w o = false ->
  Known_load_shared RT tab_el tab_at tab_en check_fn float_parse LATEST name_definition_ref w o = false ->
  run_op2 RT tab_el tab_at tab_en check_fn float_parse float_fmt LATEST name_index name_definition_ref
          attr_schema_location root_attrs o w = Val (r, w') -> RealInvL RT w'.
Proof. apply RealInvL_step2_full; [exact RefChars_real|exact TablesOkReal.tables_ok_real]. Qed.

Theorem RealInvL_histories2_real_full l w' :
  clean_ops2_full RT tab_el tab_at tab_en check_fn float_parse float_fmt LATEST name_index name_definition_ref
                  attr_schema_location root_attrs l empty_world = true ->
  run_ops2 RT tab_el tab_at tab_en check_fn float_parse float_fmt LATEST name_index name_definition_ref
           attr_schema_location root_attrs l empty_world = Val w' -> RealInvL RT w'.
Proof. apply RealInvL_histories2_full; [exact RefChars_real|exact TablesOkReal.tables_ok_real|apply RealInvL_empty]. Qed.

End Real2.
