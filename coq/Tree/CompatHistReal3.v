(* Tree/CompatHistReal3.v — non-vacuity of C17_exact_histories2_real: a history on the real tables with a first load, a merging
   load (AR-PACKAGES / AR-PACKAGE "Pkg" / ELEMENTS merged, an ECU-INSTANCE and a second package imported) and a duplicate; all
   side conditions (Known_load = false for both loads) hold by computation. *)
From AV Require Import Base.Bytes Base.Outcome Hash.HashModel Spec.SpecOps Spec.SpecReal Tree.Heap Tree.Ops Tree.Script Tree.Inv
  Tree.Compat Tree.CompatSpec Tree.CompatHist5 Tree.CompatHist6 Tree.CompatHist11 Tree.CompatHistReal2 Tree.Script2 Tree.InvLoad.
From AV Require Import Hash.HashRealElement Hash.HashRealAttr Hash.HashRealEnum Xml.ParserExamples Xml.RoundTripExamples.
Open Scope list_scope.
Open Scope N_scope.

Definition nm (t : nametab) (s : string) : N := match from_bytes t (BS s) with Ok n => n | _ => 0 end.
Definition c_index : N := Eval vm_compute in nm tab_element "INDEX".
Definition c_defref : N := Eval vm_compute in nm tab_element "DEFINITION-REF".
Definition c_schema : N := Eval vm_compute in nm tab_attr "xsi:schemaLocation".

Open Scope string_scope.
Definition ld_a := doc "<AR-PACKAGES><AR-PACKAGE><SHORT-NAME>Pkg</SHORT-NAME><ELEMENTS><SYSTEM><SHORT-NAME>Sys</SHORT-NAME></SYSTEM></ELEMENTS></AR-PACKAGE></AR-PACKAGES>".
Definition ld_b := doc "<AR-PACKAGES><AR-PACKAGE><SHORT-NAME>Pkg</SHORT-NAME><ELEMENTS><ECU-INSTANCE><SHORT-NAME>E</SHORT-NAME></ECU-INSTANCE></ELEMENTS></AR-PACKAGE><AR-PACKAGE><SHORT-NAME>Q</SHORT-NAME></AR-PACKAGE></AR-PACKAGES>".
Open Scope list_scope.

Notation RUN3 := (CompatHist6.run_ops2 RT tab_element tab_attr tab_enum accept_all no_float no_float_fmt 1048576 c_index c_defref c_schema []).
Notation OK3 := (ok_ops3 RT tab_element tab_attr tab_enum accept_all no_float no_float_fmt 1048576 c_index c_defref c_schema []).

Notation RUN1 := (run_op2 RT tab_element tab_attr tab_enum accept_all no_float no_float_fmt 1048576 c_index c_defref c_schema []).
Notation KL := (Known_load RT tab_element tab_attr tab_enum accept_all no_float no_float_fmt 1048576 c_index c_defref c_schema []).

Definition o1 : op2 := Op1 OpNewModel.
Definition o2 : op2 := OpLoad 0 ld_a [97] true.
Definition o3 : op2 := OpLoad 0 ld_b [98] true.
Definition o4 : op2 := OpDuplicate 0.

Definition wof (r : res (out value2 * world)) : world := match r with Val (_, w) => w | _ => empty_world end.
Definition vof (r : res (out value2 * world)) : out value2 := match r with Val (v, _) => v | _ => ER LoadError end.
Definition st1 : world := Eval vm_compute in wof (RUN1 o1 empty_world).
Definition rv1 : out value2 := Eval vm_compute in vof (RUN1 o1 empty_world).
Definition st2 : world := Eval vm_compute in wof (RUN1 o2 st1).
Definition rv2 : out value2 := Eval vm_compute in vof (RUN1 o2 st1).
Definition st3 : world := Eval vm_compute in wof (RUN1 o3 st2).
Definition rv3 : out value2 := Eval vm_compute in vof (RUN1 o3 st2).
Definition st4 : world := Eval vm_compute in wof (RUN1 o4 st3).
Definition rv4 : out value2 := Eval vm_compute in vof (RUN1 o4 st3).

Lemma s1 : RUN1 o1 empty_world = Val (rv1, st1). Proof. vm_cast_no_check (@eq_refl _ (Val (rv1, st1))). Qed.
Lemma s2 : RUN1 o2 st1 = Val (rv2, st2). Proof. vm_cast_no_check (@eq_refl _ (Val (rv2, st2))). Qed.
Lemma s3 : RUN1 o3 st2 = Val (rv3, st3). Proof. vm_cast_no_check (@eq_refl _ (Val (rv3, st3))). Qed.
Lemma s4 : RUN1 o4 st3 = Val (rv4, st4). Proof. vm_cast_no_check (@eq_refl _ (Val (rv4, st4))). Qed.
Lemma k2 : KL st1 o2 = false. Proof. vm_cast_no_check (@eq_refl bool false). Qed.
Lemma k3 : KL st2 o3 = false. Proof. vm_cast_no_check (@eq_refl bool false). Qed.

(* both loads succeed, the second one merges; the duplicate succeeds *)
Example ex3_results :
  rv2 = OK (VLoad 0 []) /\ rv3 = OK (VLoad 1 []) /\ rv4 = OK (V1 (VModel 1)) /\
  List.length (w_models st4) = 2%nat /\ List.length (w_files st4) = 4%nat.
Proof. repeat split; vm_compute; reflexivity. Qed.

Lemma run3_cons o l w v w' : RUN1 o w = Val (v, w') -> RUN3 (o :: l) w = RUN3 l w'.
Proof. intros H. cbn [CompatHist6.run_ops2]. rewrite H. reflexivity. Qed.
Lemma ok3_cons o l w v w' :
  op3_ok RT tab_element tab_attr tab_enum accept_all no_float no_float_fmt 1048576 c_index c_defref c_schema [] w o ->
  RUN1 o w = Val (v, w') -> OK3 l w' -> OK3 (o :: l) w.
Proof. intros Ho H Hl. cbn [ok_ops3]. rewrite H. split; [exact Ho|exact Hl]. Qed.

Example hist3_real_example :
  RUN3 [o1; o2; o3; o4] empty_world = Val st4 /\ OK3 [o1; o2; o3; o4] empty_world /\
  forall f v r, f_check RT st4 f v = Val r -> (fst r = [] <-> ValidIn RT st4 f v).
Proof.
  assert (Hrun : RUN3 [o1; o2; o3; o4] empty_world = Val st4).
  { rewrite (run3_cons _ _ _ _ _ s1), (run3_cons _ _ _ _ _ s2), (run3_cons _ _ _ _ _ s3), (run3_cons _ _ _ _ _ s4). reflexivity. }
  assert (Hok : OK3 [o1; o2; o3; o4] empty_world).
  { apply (ok3_cons o1 _ empty_world _ _ I s1). apply (ok3_cons o2 _ st1 _ _ k2 s2). apply (ok3_cons o3 _ st2 _ _ k3 s3).
    apply (ok3_cons o4 _ st3 _ _ I s4). exact I. }
  split; [exact Hrun|]. split; [exact Hok|].
  exact (exact_histories3_real tab_element tab_attr tab_enum accept_all no_float no_float_fmt 1048576 c_index c_defref c_schema []
           [o1; o2; o3; o4] st4 Hrun Hok).
Qed.
