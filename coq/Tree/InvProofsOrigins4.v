(* Tree/InvProofsOrigins4.v — C03: OriginsRef is preserved by every operation (copy, moves, rename; the step theorem). *)
From Coq Require Import PeanoNat Arith.
From AV Require Import Base.Bytes Base.Outcome Hash.HashModel Tree.Heap Tree.Ops Tree.Script Tree.Inv
  Tree.InvProofsBase Tree.InvProofsCore Tree.InvProofsTree Tree.InvProofsPrim Tree.InvProofsCreate
  Tree.InvProofsData Tree.InvProofsRefs Tree.InvProofsRemove Tree.InvProofsFiles Tree.InvProofsMove
  Tree.InvProofsCopy Tree.InvProofsRename Tree.InvProofsFrame Tree.InvProofs Tree.InvProofsChars Tree.InvProofsChars2
  Tree.InvProofsChars3 Tree.InvProofsChars4 Tree.InvProofsChars5 Tree.InvProofsOrigins Tree.InvProofsOrigins2
  Tree.InvProofsOrigins3.
Open Scope string_scope.
Open Scope list_scope.
Open Scope N_scope.

Section OS4.
Variable T : tables.
Variable tab_el tab_en : nametab.
Variable check_fn : N -> list N -> res bool.
Variable LATEST : N.
Variable root_attrs : list (N * cdata).

Notation RefNode := (RefNode T).
Notation cframe := (frame (cNR T) (cNN T)).

(* nodes untouched; new index members are reference-typed nodes *)
Definition RW (w w' : world) : Prop :=
  (forall x, w_nodes w' x = w_nodes w x) /\ forall re, in_origins w' re -> in_origins w re \/ RefNode w re.
Lemma RW_refl w : RW w w. Proof. split; auto. Qed.
Lemma RW_trans a b c : RW a b -> RW b c -> RW a c.
Proof.
  intros (N1 & O1) (N2 & O2). split; [intros x; rewrite N2; auto|]. intros re H.
  destruct (O2 _ H) as [Hb|(n & Hn & Hr)]; auto. right. exists n. rewrite <- N1. auto.
Qed.
Lemma RW_nfp_osp {A} (m : W A) w r w' : nfp m -> osp m -> m w = Val (r, w') -> RW w w'.
Proof. intros Hn Ho E. split; [apply (Hn _ _ _ E)|]. intros re H. left. eapply Ho; eauto. Qed.

Lemma nfp_kloop step l : (forall c, nfp (step c)) -> nfp (kloop step l).
Proof.
  intros Hs. induction l as [|[c|d] l IH]; cbn [kloop]; [apply nfp_ro; ro_tac | | exact IH].
  apply nfp_bind; [apply Hs | intros; exact IH].
Qed.

Lemma addref_step m i n (v : bool) w0 u w1 :
  is_ref T (n_type n) = Val v ->
  (if v then
     (do cd <- wl (character_data T n);
      match cd with Some (DString r) => add_reference_origin m r i | _ => wret tt end)%W
   else wret tt) w0 = Val (u, w1) ->
  (forall x, w_nodes w1 x = w_nodes w0 x) /\ oaddP i (is_ref T (n_type n) = Val true) w0 w1.
Proof.
  intros Hv E. split.
  - assert (Hnf : nfp (if v then
                         (do cd <- wl (character_data T n);
                          match cd with Some (DString r) => add_reference_origin m r i | _ => wret tt end)%W
                       else wret tt)) by (unfold add_reference_origin; nfp_tac).
    apply (Hnf _ _ _ E).
  - match type of E with ?mm ?wa = _ => refine ((_ : oapP i _ mm) wa _ _ E) end. destruct v; oa_tac.
Qed.

Lemma register_RW f : forall m cur i w r w', register_subtree T f m cur i w = Val (r, w') -> RW w w'.
Proof.
  induction f as [|f IH]; intros m cur i w r w' H; [discriminate|].
  change (register_subtree T (S f) m cur i) with
    (do n <- get_node i;
     do ident <- is_identifiable T n;
     do cur' <- (if ident then
                   do nm <- item_name T n;
                   let p := match nm with Some x => cur ++ [47] ++ x | None => cur end in
                   add_identifiable m p i;; wret p
                 else wret cur);
     do isr <- wl (is_ref T (n_type n));
     (if isr then
        do cd <- wl (character_data T n);
        match cd with Some (DString r) => add_reference_origin m r i | _ => wret tt end
      else wret tt);;
     kloop (fun c => register_subtree T f m cur' c) (n_content n))%W in H.
  wstepn H nq En; winv En. match goal with Hq : w_nodes w i = Some ?n1 |- _ => rename n1 into n; rename Hq into Hn end.
  wstepn H ident Ei. 2:{ apply RW_refl. }
  wstepn H cur' Ec.
  2:{ eapply RW_nfp_osp; [| |exact Ec]; [unfold add_identifiable; nfp_tac | os_tac]. }
  assert (R1 : RW w w0) by (eapply RW_nfp_osp; [| |exact Ec]; [unfold add_identifiable; nfp_tac | os_tac]).
  wstepn H isr Er; winv Er.
  match goal with Hq : is_ref T (n_type n) = Val ?vv |- _ => rename Hq into Hv end.
  assert (RR : forall wz uz, (if v then
     (do cd <- wl (character_data T n);
      match cd with Some (DString r) => add_reference_origin m r i | _ => wret tt end)%W
   else wret tt) w0 = Val (uz, wz) -> RW w0 wz).
  { intros wz uz Ez. destruct (addref_step m i n v w0 uz wz Hv Ez) as (Nz & Az). split; auto.
    intros re Hre. destruct (Az _ Hre) as [?|(-> & Hr)]; auto. right. exists n. split; auto. rewrite (proj1 R1). auto. }
  wstepn H u Ea.
  2:{ eapply RW_trans; [exact R1|]. eapply RR; eauto. }
  assert (R2 : RW w0 w1) by (eapply RR; eauto).
  eapply RW_trans; [exact R1|]. eapply RW_trans; [exact R2|].
  clear - IH H. revert w1 r w' H. induction (n_content n) as [|[c|d] l IHl]; intros w1 r w' H; cbn [kloop] in H.
  - winv H. apply RW_refl.
  - wstepn H u Es.
    + eapply RW_trans; [eapply IH; eauto | eapply IHl; eauto].
    + eapply IH; eauto.
  - eapply IHl; eauto.
Qed.

End OS4.
