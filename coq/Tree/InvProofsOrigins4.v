(* Tree/InvProofsOrigins4.v — C03: OriginsRef is preserved by every operation (copy, moves, rename; the step theorem). *)
From Coq Require Import PeanoNat Arith.
From AV Require Import Base.Bytes Base.Outcome Hash.HashModel Tree.Heap Tree.Ops Tree.Script Tree.Inv
  Tree.InvProofsBase Tree.InvProofsCore Tree.InvProofsTree Tree.InvProofsPrim Tree.InvProofsCreate
  Tree.InvProofsData Tree.InvProofsRefs Tree.InvProofsRemove Tree.InvProofsFiles Tree.InvProofsMove
  Tree.InvProofsCopy Tree.InvProofsRename Tree.InvProofsFrame Tree.InvProofs Tree.InvProofsChars Tree.InvProofsChars2
  Tree.InvProofsChars3 Tree.InvProofsChars4 Tree.InvProofsChars5 Tree.InvProofsOrigins Tree.InvProofsOrigins2
  Tree.InvProofsOrigins3.
Open Scope string_scope.
Open Scope list_scope.
Open Scope N_scope.

Section OS4.
Variable T : tables.
Variable tab_el tab_en : nametab.
Variable check_fn : N -> list N -> res bool.
Variable LATEST : N.
Variable root_attrs : list (N * cdata).

Notation RefNode := (RefNode T).
Notation cframe := (frame (cNR T) (cNN T)).

(* nodes untouched; new index members are reference-typed nodes *)
Definition RW (w w' : world) : Prop :=
  (forall x, w_nodes w' x = w_nodes w x) /\ forall re, in_origins w' re -> in_origins w re \/ RefNode w re.
Lemma RW_refl w : RW w w. Proof. split; auto. Qed.
Lemma RW_trans a b c : RW a b -> RW b c -> RW a c.
Proof.
  intros (N1 & O1) (N2 & O2). split; [intros x; rewrite N2; auto|]. intros re H.
  destruct (O2 _ H) as [Hb|(n & Hn & Hr)]; auto. right. exists n. rewrite <- N1. auto.
Qed.
Lemma RW_nfp_osp {A} (m : W A) w r w' : nfp m -> osp m -> m w = Val (r, w') -> RW w w'.
Proof. intros Hn Ho E. split; [apply (Hn _ _ _ E)|]. intros re H. left. eapply Ho; eauto. Qed.

Lemma nfp_kloop step l : (forall c, nfp (step c)) -> nfp (kloop step l).
Proof.
  intros Hs. induction l as [|[c|d] l IH]; cbn [kloop]; [apply nfp_ro; ro_tac | | exact IH].
  apply nfp_bind; [apply Hs | intros; exact IH].
Qed.

Lemma addref_step m i n (v : bool) w0 u w1 :
  is_ref T (n_type n) = Val v ->
  (if v then
     (do cd <- wl (character_data T n);
      match cd with Some (DString r) => add_reference_origin m r i | _ => wret tt end)%W
   else wret tt) w0 = Val (u, w1) ->
  (forall x, w_nodes w1 x = w_nodes w0 x) /\ oaddP i (is_ref T (n_type n) = Val true) w0 w1.
Proof.
  intros Hv E. split.
  - assert (Hnf : nfp (if v then
                         (do cd <- wl (character_data T n);
                          match cd with Some (DString r) => add_reference_origin m r i | _ => wret tt end)%W
                       else wret tt)) by (unfold add_reference_origin; nfp_tac).
    apply (Hnf _ _ _ E).
  - match type of E with ?mm ?wa = _ => refine ((_ : oapP i _ mm) wa _ _ E) end. destruct v; oa_tac.
Qed.

Lemma register_RW f : forall m cur i w r w', register_subtree T f m cur i w = Val (r, w') -> RW w w'.
Proof.
  induction f as [|f IH]; intros m cur i w r w' H; [discriminate|].
  change (register_subtree T (S f) m cur i) with
    (do n <- get_node i;
     do ident <- is_identifiable T n;
     do cur' <- (if ident then
                   do nm <- item_name T n;
                   let p := match nm with Some x => cur ++ [47] ++ x | None => cur end in
                   add_identifiable m p i;; wret p
                 else wret cur);
     do isr <- wl (is_ref T (n_type n));
     (if isr then
        do cd <- wl (character_data T n);
        match cd with Some (DString r) => add_reference_origin m r i | _ => wret tt end
      else wret tt);;
     kloop (fun c => register_subtree T f m cur' c) (n_content n))%W in H.
  wstepn H nq En; winv En. match goal with Hq : w_nodes w i = Some ?n1 |- _ => rename n1 into n; rename Hq into Hn end.
  wstepn H ident Ei. 2:{ apply RW_refl. }
  wstepn H cur' Ec.
  2:{ eapply RW_nfp_osp; [| |exact Ec]; [unfold add_identifiable; nfp_tac | os_tac]. }
  assert (R1 : RW w w0) by (eapply RW_nfp_osp; [| |exact Ec]; [unfold add_identifiable; nfp_tac | os_tac]).
  wstepn H isr Er; winv Er.
  match goal with Hq : is_ref T (n_type n) = Val ?vv |- _ => rename Hq into Hv end.
  assert (RR : forall wz uz, (if v then
     (do cd <- wl (character_data T n);
      match cd with Some (DString r) => add_reference_origin m r i | _ => wret tt end)%W
   else wret tt) w0 = Val (uz, wz) -> RW w0 wz).
  { intros wz uz Ez. destruct (addref_step m i n v w0 uz wz Hv Ez) as (Nz & Az). split; auto.
    intros re Hre. destruct (Az _ Hre) as [?|(-> & Hr)]; auto. right. exists n. split; auto. rewrite (proj1 R1). auto. }
  wstepn H u Ea.
  2:{ eapply RW_trans; [exact R1|]. eapply RR; eauto. }
  assert (R2 : RW w0 w1) by (eapply RR; eauto).
  eapply RW_trans; [exact R1|]. eapply RW_trans; [exact R2|].
  clear - IH H. revert w1 r w' H. induction (n_content n) as [|[c|d] l IHl]; intros w1 r w' H; cbn [kloop] in H.
  - winv H. apply RW_refl.
  - wstepn H u Es.
    + eapply RW_trans; [eapply IH; eauto | eapply IHl; eauto].
    + eapply IH; eauto.
  - eapply IHl; eauto.
Qed.

Lemma RefNode_content_insert self pos it w r w' re :
  content_insert self pos it w = Val (r, w') -> RefNode w re -> RefNode w' re.
Proof.
  unfold InvProofsOrigins3.RefNode. intros H (n & Hn & Hr). apply content_insert_inv in H as (ns & Hns & _ & ->).
  destruct (N.eq_dec re self) as [->|Hne].
  - rewrite nodes_wset_eq. assert (ns = n) as -> by congruence. eexists. split; [reflexivity | exact Hr].
  - exists n. rewrite nodes_wset_neq by auto. auto.
Qed.

Ltac os_of E := match type of E with ?mm ?wa = Val (_, ?wb) => refine ((_ : osp mm) wa _ wb E) end.

(* ---------- copy ---------- *)
Lemma copied_inner_orel self other pos m version w r w' :
  create_copied_sub_element_inner T self other pos m version w = Val (r, w') -> orel T w w'.
Proof.
  intros H. unfold create_copied_sub_element_inner in H.
  wrun_ro H ltac:(apply orel_osub, osub_refl).
  wstepn H c Ed. 2:{ apply orel_osub. eapply osp_deep_copy; eauto. }
  assert (S1 : osub w w0) by (eapply osp_deep_copy; eauto).
  wrun_ro H ltac:(apply orel_osub; exact S1).
  wstepn H u Em.
  assert (S2 : osub w w1) by (eapply osub_trans; [exact S1|]; os_of Em; os_tac).
  wstepn H cn Eg; winv Eg.
  wstepn H ident Ei. 2:{ unfold is_identifiable in Ei. absurd_err Ei. }
  wstepn H u2 Eu. 2:{ apply orel_osub. eapply osub_trans; [exact S2|]. os_of Eu. os_tac. }
  assert (S3 : osub w w2) by (eapply osub_trans; [exact S2|]; os_of Eu; os_tac).
  wstepn H w2' Ew; winv Ew.
  wstepn H u3 Er.
  2:{ destruct (register_RW _ _ _ _ _ _ _ Er) as (Nr & Or). intros re Hre.
      destruct (Or _ Hre) as [?|(nz & Hnz & Hrz)]; [left; apply S3; auto|]. right. exists nz. rewrite Nr. auto. }
  destruct (register_RW _ _ _ _ _ _ _ Er) as (Nr & Or).
  assert (R4 : orel T w w3).
  { intros re Hre. destruct (Or _ Hre) as [?|(nz & Hnz & Hrz)]; [left; apply S3; auto|]. right. exists nz. rewrite Nr. auto. }
  assert (FIN : forall rz wz, content_insert self pos (CElem c) w3 = Val (rz, wz) -> orel T w wz).
  { intros rz wz Ec re Hre. assert (Hre3 : in_origins w3 re) by (eapply osp_content_insert; eauto).
    destruct (R4 _ Hre3) as [?|Hr0]; auto. right. eapply RefNode_content_insert; eauto. }
  wstepn H u5 Ec; [winv H|]; eapply FIN; eauto.
Qed.

Lemma e_copied_orel h other w r w' : e_create_copied_sub_element T LATEST h other w = Val (r, w') -> orel T w w'.
Proof.
  intros H. unfold e_create_copied_sub_element, raw_create_copied_sub_element in H.
  wrun_ro H ltac:(apply orel_osub, osub_refl). eapply copied_inner_orel; eauto.
Qed.
Lemma e_copied_at_orel h other pos w r w' : e_create_copied_sub_element_at T LATEST h other pos w = Val (r, w') -> orel T w w'.
Proof.
  intros H. unfold e_create_copied_sub_element_at, raw_create_copied_sub_element_at in H.
  wrun_ro H ltac:(apply orel_osub, osub_refl). eapply copied_inner_orel; eauto.
Qed.

(* ---------- moves ---------- *)
Lemma move_local_osub self mv pos m version w r w' :
  move_element_local T check_fn self mv pos m version w = Val (r, w') -> osub w w'.
Proof.
  intros H. unfold move_element_local in H.
  wrun_ro H ltac:(apply osub_refl).
  match goal with
  | Es : path_unchecked T ?mn0 w = Val (OK ?spx, w), Ed : path_unchecked T ?n0 w = Val (OK ?dpx, w),
    Hm : w_nodes w mv = Some ?mn0, En : named_paths T _ w = Val (OK ?orig, w) |- _ =>
    rename spx into src_prefix; rename dpx into dest_prefix; rename orig into original
  end.
  wstepn H u Ed. 2:{ os_of Ed. os_tac. }
  assert (F1 : osub w w0) by (os_of Ed; os_tac).
  wstepn H u2 Em.
  assert (F2 : osub w w1) by (eapply osub_trans; [exact F1|]; os_of Em; os_tac).
  wstepn H mn2 Eg; winv Eg.
  wstepn H ident Ei. 2:{ unfold is_identifiable in Ei. absurd_err Ei. }
  wstepn H dest_path Edp. 2:{ eapply osub_trans; [exact F2|]. os_of Edp. os_tac. }
  assert (F3 : osub w w2) by (eapply osub_trans; [exact F2|]; os_of Edp; os_tac).
  wstepn H u3 Ea.
  2:{ eapply osub_trans; [exact F3|]. destruct ident; [eapply osp_fix_identifiables; eauto|].
      eapply (osp_each_loop (fixid_body m src_prefix dest_path)); eauto. intros a. apply osp_fixid_body. }
  assert (F4 : osub w w3).
  { eapply osub_trans; [exact F3|]. destruct ident; [eapply osp_fix_identifiables; eauto|].
    eapply (osp_each_loop (fixid_body m src_prefix dest_path)); eauto. intros a. apply osp_fixid_body. }
  wstepn H u4 Eb.
  2:{ eapply osub_trans; [exact F4|].
      eapply (osp_each_loop (move_ref_body T check_fn m src_prefix dest_path version)); eauto.
      intros a. apply osp_move_ref_body. }
  assert (F5 : osub w w4).
  { eapply osub_trans; [exact F4|].
    eapply (osp_each_loop (move_ref_body T check_fn m src_prefix dest_path version)); eauto.
    intros a. apply osp_move_ref_body. }
  eapply osub_trans; [exact F5|]. os_of H. os_tac.
Qed.

Lemma add_ref_loop_adds m sp dp version original l : forall w r w',
  add_ref_loop T check_fn m sp dp version original l w = Val (r, w') ->
  forall re, in_origins w' re -> in_origins w re \/ exists s, In (s, re) l.
Proof.
  induction l as [|[p e] l IH]; intros w r w' H re Hre; cbn [add_ref_loop] in H.
  - winv H. auto.
  - wstepn H u Es.
    + destruct (IH _ _ _ H _ Hre) as [Hin|(s & Hs)]; [|right; exists s; right; auto].
      assert (Hadd : oaddP e True w w0).
      { match type of Es with ?mm ?wa = _ => refine ((_ : oapP e _ mm) wa _ _ Es) end. oa_tac. }
      destruct (Hadd _ Hin) as [?|(-> & _)]; auto. right. exists p. left; auto.
    + assert (Hadd : oaddP e True w w').
      { match type of Es with ?mm ?wa = _ => refine ((_ : oapP e _ mm) wa _ _ Es) end. oa_tac. }
      destruct (Hadd _ Hre) as [?|(-> & _)]; auto. right. exists p. left; auto.
Qed.

Lemma ref_texts_refnodes ids : forall w l, ref_texts T tab_en ids w = Val (OK l, w) ->
  forall s re, In (s, re) l -> RefNode w re.
Proof.
  induction ids as [|i ids IH]; intros w l H s re Hin; cbn [ref_texts] in H.
  - winv H. destruct Hin.
  - wrun H idtac; try (eapply IH; eauto; fail).
    destruct Hin as [[= <- <-]|Hin]; [|eapply IH; eauto]. eexists. split; eauto.
Qed.

Lemma move_full_orel self mv pos m m_src version w r w' :
  cframe w w' -> move_element_full T tab_en check_fn self mv pos m m_src version w = Val (r, w') -> orel T w w'.
Proof.
  intros CF H. unfold move_element_full in H.
  wrun_ro H ltac:(apply orel_osub, osub_refl).
  match goal with
  | Es : path_unchecked T ?mn0 w = Val (OK ?spx, w), Ed : path_unchecked T ?n0 w = Val (OK ?dpx, w),
    Hm : w_nodes w mv = Some ?mn0, En : named_paths T _ w = Val (OK ?orig, w),
    Er : ref_texts T tab_en _ w = Val (OK ?orefs, w) |- _ =>
    rename spx into src_prefix; rename dpx into dest_prefix; rename orig into original; rename orefs into orig_refs;
    pose proof (ref_texts_refnodes _ _ _ Er) as Hrefs
  end.
  assert (FIN : forall wz, (forall re, in_origins wz re -> in_origins w re \/ exists s, In (s, re) orig_refs) -> wz = w' ->
                orel T w w').
  { intros wz Hz -> re Hre. destruct (Hz _ Hre) as [?|(s & Hs)]; auto. right.
    eapply RefNode_frame; [exact CF | eapply Hrefs; eauto]. }
  assert (FINs : forall wz, osub w wz -> wz = w' -> orel T w w') by (intros wz Hz ->; apply orel_osub; auto).
  wstepn H u Ed. 2:{ eapply FINs; [os_of Ed; os_tac | reflexivity]. }
  assert (F1 : osub w w0) by (os_of Ed; os_tac).
  wstepn H u1 El1. 2:{ eapply FINs; [|reflexivity]. eapply osub_trans; [exact F1|]. eapply (osp_rm_id_loop m_src original); eauto. }
  assert (F1a : osub w w1) by (eapply osub_trans; [exact F1|]; eapply (osp_rm_id_loop m_src original); eauto).
  wstepn H u1' El2. 2:{ eapply FINs; [|reflexivity]. eapply osub_trans; [exact F1a|]. eapply (osp_rm_ref_loop m_src orig_refs); eauto. }
  assert (F1b : osub w w2) by (eapply osub_trans; [exact F1a|]; eapply (osp_rm_ref_loop m_src orig_refs); eauto).
  wstepn H u2 Em.
  assert (F2 : osub w w3) by (eapply osub_trans; [exact F1b|]; os_of Em; os_tac).
  wstepn H mn2 Eg; winv Eg.
  wstepn H ident Ei. 2:{ unfold is_identifiable in Ei. absurd_err Ei. }
  wstepn H dest_path Edp. 2:{ eapply FINs; [|reflexivity]. eapply osub_trans; [exact F2|]. os_of Edp. os_tac. }
  assert (F3 : osub w w4) by (eapply osub_trans; [exact F2|]; os_of Edp; os_tac).
  wstepn H u3 Ea.
  2:{ eapply FINs; [|reflexivity]. eapply osub_trans; [exact F3|]. eapply (osp_add_id_loop m src_prefix dest_path original); eauto. }
  assert (F4 : osub w w5) by (eapply osub_trans; [exact F3|]; eapply (osp_add_id_loop m src_prefix dest_path original); eauto).
  assert (ADD : forall rz wz, add_ref_loop T check_fn m src_prefix dest_path version original orig_refs w5 = Val (rz, wz) ->
                forall re, in_origins wz re -> in_origins w re \/ exists s, In (s, re) orig_refs).
  { intros rz wz Ez re Hre. destruct (add_ref_loop_adds _ _ _ _ _ _ _ _ _ Ez _ Hre) as [?|?]; auto. }
  wstepn H u4 Eb. 2:{ eapply FIN; [eapply ADD; eauto | reflexivity]. }
  assert (S6 : osub w6 w') by (os_of H; os_tac).
  eapply FIN; [|reflexivity]. intros re Hre. eapply ADD; eauto.
Qed.

End OS4.
