(* Tree/FailProofsMove.v — C11 proofs, layer 4: move_element_here[_at].
   Every error exit up to and including the removal from the source parent leaves the world as it was.  After the
   moved element was re-parented, the only calls that can still fail are make_unique_item_name
   (ElementNotIdentifiable) and the rewrite of a referrer (IncorrectContentType); at such a failure the moved element
   carries its NEW parent link: exactly the classes K11_move_noname / K11_move_refwrite of Fail.v. *)
From Coq Require Import Lia.
From AV Require Import Base.Bytes Base.Outcome Hash.HashModel Tree.Heap Tree.Ops Tree.Script
  Tree.FailProofsBase Tree.FailProofsOps Tree.Fail Tree.FailProofsLate.
Open Scope string_scope.
Open Scope list_scope.
Open Scope N_scope.

Definition late_err (e : err) : Prop := e = ElementNotIdentifiable \/ e = IncorrectContentType.

(* a computation of the late phase: parent links are kept whatever happens, and an error is one of the two *)
Definition late {A} (m : W A) : Prop :=
  forall w r w', m w = Val (r, w') -> sp w w' /\ (forall e, r = ER e -> late_err e).

Lemma late_bind {A B} (m : W A) (k : A -> W B) : late m -> (forall a, late (k a)) -> late (wbind m k).
Proof.
  intros Hm Hk w r w' H. apply wbind_inv in H as [(a & w1 & H1 & H2) | (e' & H1 & ->)].
  - destruct (Hm _ _ _ H1) as (S1 & _). destruct (Hk _ _ _ _ H2) as (S2 & He).
    split; [eapply sp_trans; eauto|exact He].
  - destruct (Hm _ _ _ H1) as (S1 & He). split; [exact S1|]. intros e [= <-]. apply He. reflexivity.
Qed.
Lemma late_keeps_nofail {A} (m : W A) : keeps m -> nofail m -> late m.
Proof.
  intros Hk Hn w r w' H. split; [eapply Hk; eauto|]. intros e ->. exfalso. eapply Hn; eauto.
Qed.
Lemma late_ro_nofail {A} (m : W A) : ro m -> nofail m -> late m.
Proof. intros Hr. apply late_keeps_nofail. apply keeps_ro. exact Hr. Qed.

Section Move.
Variable T : tables.
Variable tab_el tab_en : nametab.
Variable check_fn : N -> list N -> res bool.
Variable LATEST : N.

Lemma keeps_raw_set_character_data i v version : keeps (raw_set_character_data T check_fn i v version).
Proof.
  intros w r w' H. unfold raw_set_character_data in H.
  wstep H; [|apply sp_refl]. winvs. wstep H; [|apply sp_refl]. winvs.
  match type of H with (if ?b then _ else _) _ = _ => destruct b end; [|winvs; apply sp_refl].
  wstep H; [|apply sp_refl]. winvs.
  match type of H with (match ?x with _ => _ end) _ = _ => destruct x end; [|winvs; apply sp_refl].
  wstep H; [|apply sp_refl]. winvs.
  match type of H with (if ?b then _ else _) _ = _ => destruct b end; [|winvs; apply sp_refl].
  apply set_node_inv in H as (_ & ->). eapply sp_upd; eauto.
Qed.
Lemma late_raw_set_character_data i v version : late (raw_set_character_data T check_fn i v version).
Proof.
  intros w r w' H. split; [eapply keeps_raw_set_character_data; eauto|].
  intros e ->. apply raw_set_character_data_err in H as (-> & _). right. reflexivity.
Qed.

Lemma keeps_content_insert self pos it : keeps (content_insert self pos it).
Proof.
  intros w r w' H. unfold content_insert in H. wstep H; [|apply sp_refl]. winvs.
  match type of H with (if ?b then _ else _) _ = _ => destruct b end; [discriminate H|].
  apply set_node_inv in H as (_ & ->). eapply sp_upd; eauto.
Qed.

Lemma keeps_make_unique_item_name i m pp : keeps (make_unique_item_name T i m pp).
Proof. unfold make_unique_item_name. keeps_tac. Qed.
Lemma late_make_unique_item_name i m pp : late (make_unique_item_name T i m pp).
Proof.
  intros w r w' H. split; [eapply keeps_make_unique_item_name; eauto|].
  intros e ->. left. unfold make_unique_item_name in H.
  wer H; [|noer]. wer H; [|noer].
  match type of H with (match ?x with _ => _ end) _ = _ => destruct x end; [|winvs; reflexivity].
  noer.
Qed.

Lemma keeps_fix_identifiables m a b : keeps (fix_identifiables m a b).
Proof. unfold fix_identifiables. keeps_tac. Qed.
Lemma keeps_add_identifiable m p e : keeps (add_identifiable m p e).
Proof. unfold add_identifiable. keeps_tac. Qed.
Lemma keeps_remove_identifiable m p : keeps (remove_identifiable m p).
Proof. unfold remove_identifiable. keeps_tac. Qed.
Lemma keeps_add_reference_origin m r e : keeps (add_reference_origin m r e).
Proof. unfold add_reference_origin. keeps_tac. Qed.
Lemma keeps_remove_reference_origin m r e : keeps (remove_reference_origin m r e).
Proof. unfold remove_reference_origin. keeps_tac. Qed.

End Move.

Ltac late_step :=
  first
  [ apply late_raw_set_character_data | apply late_make_unique_item_name
  | apply late_ro_nofail; [ solve [ro_tac] | solve [nofail_tac] ]
  | apply late_keeps_nofail;
    [ solve [ first [ apply keeps_fix_identifiables | apply keeps_add_identifiable | apply keeps_remove_identifiable
                    | apply keeps_add_reference_origin | apply keeps_remove_reference_origin
                    | apply keeps_content_insert | keeps_tac ] ]
    | solve [nofail_tac] ]
  | apply late_bind; [ | intros ? ]
  | match goal with
    | |- late (match ?x with _ => _ end) => destruct x
    | |- late (if ?b then _ else _) => destruct b
    | |- late (let '(_, _) := ?x in _) => destruct x
    end ].
Ltac late_tac := repeat late_step.
(* induction over an anonymous list loop left over by late_tac *)
Ltac late_loop :=
  match goal with
  | |- late (_ ?l) => induction l as [|? ?rest ?IHr]; late_tac; auto
  end.

Section Move2.
Variable T : tables.
Variable tab_el tab_en : nametab.
Variable check_fn : N -> list N -> res bool.
Variable LATEST : N.

Ltac wl1 H := wer H; [|left; reflexivity].

Lemma nf_move_element_position self mv pos e : nf (move_element_position self mv pos e).
Proof. unfold move_element_position. nf_tac. Qed.

Lemma move_local_fail self mv pos m version w e w' :
  move_element_local T check_fn self mv pos m version w = Val (ER e, w') ->
  w' = w \/ (late_err e /\ parent_link w' mv = Some (PElem self)).
Proof.
  intros H. unfold move_element_local in H.
  wl1 H. winvs. wl1 H. winvs. wl1 H.
  match type of H with (if ?b then _ else _) _ = _ => destruct b end; [winvs; left; reflexivity|].
  wl1 H. winvs. wl1 H.
  match type of H with (match ?x with _ => _ end) _ = _ => destruct x as [src_parent|] end; [|winvs; left; reflexivity].
  wl1 H. wl1 H. wl1 H.
  match type of H with (if ?b then _ else _) _ = _ => destruct b end; [winvs; left; reflexivity|].
  wl1 H. wl1 H.
  wer H. 2:{ left. eapply nf_detach_from; eauto. }
  wer H; [|exfalso; noer].
  match goal with E : modify_node _ _ _ = Val _ |- _ => apply modify_node_inv in E as (n1 & _ & _ & ->) end.
  right.
  match type of H with ?tail ?w2 = _ => assert (Hl : late tail) end.
  { clear. late_tac. all: try late_loop. all: try late_loop. }
  destruct (Hl _ _ _ H) as (S & He). split; [apply He; reflexivity|].
  rewrite (proj2 S mv). unfold parent_link. cbn [w_nodes]. rewrite upd_eq. reflexivity.
Qed.

Lemma move_full_fail self mv pos m m_src version w e w' :
  move_element_full T tab_en check_fn self mv pos m m_src version w = Val (ER e, w') ->
  w' = w \/ (late_err e /\ parent_link w' mv = Some (PElem self)).
Proof.
  intros H. unfold move_element_full in H.
  wl1 H. winvs. wl1 H. winvs. wl1 H. wl1 H. wl1 H.
  match type of H with (match ?x with _ => _ end) _ = _ => destruct x as [src_parent|] end; [|winvs; left; reflexivity].
  wl1 H. winvs. wl1 H. wl1 H. wl1 H.
  wer H. 2:{ left. eapply nf_detach_from; eauto. }
  wer H.
  2:{ exfalso. match goal with E : _ = Val (ER _, _) |- _ => revert E end. clear.
      match goal with |- ?loop ?l ?w = _ -> _ => intros E; refine ((_ : nofail (loop l)) w _ _ E) end.
      clear. match goal with |- nofail (_ ?l) => induction l as [|[? ?] ? IHl]; nofail_tac; auto end. }
  wer H.
  2:{ exfalso. match goal with E : _ = Val (ER _, _) |- _ => revert E end. clear.
      match goal with |- ?loop ?l ?w = _ -> _ => intros E; refine ((_ : nofail (loop l)) w _ _ E) end.
      clear. match goal with |- nofail (_ ?l) => induction l as [|[? ?] ? IHl]; nofail_tac; auto end. }
  wer H; [|exfalso; noer].
  match goal with E : modify_node _ _ _ = Val _ |- _ => apply modify_node_inv in E as (n1 & _ & _ & ->) end.
  right.
  match type of H with ?tail ?w2 = _ => assert (Hl : late tail) end.
  { clear. late_tac.
    all: try match goal with |- late (_ ?l) => induction l as [|[? ?] ? IHl]; late_tac; auto end. }
  destruct (Hl _ _ _ H) as (S & He). split; [apply He; reflexivity|].
  rewrite (proj2 S mv). unfold parent_link. cbn [w_nodes]. rewrite upd_eq. reflexivity.
Qed.

(* the parent of mv is not h when the two lie in different models *)
Lemma parent_other_model h mv mn m m_src w :
  w_nodes w mv = Some mn -> model_of mv w = Val (OK m_src, w) -> model_of h w = Val (OK m, w) ->
  (m =? m_src) = false -> n_parent mn <> PElem h.
Proof.
  intros Hmn Hs Hh Hne Hp. unfold model_of in Hs, Hh. wok Hs. wok Hh. winvs.
  unfold fuel_of in Hs. cbn [model_walk] in Hs. wok Hs. winvs.
  assert (n = mn) by congruence. subst n. rewrite Hp in Hs.
  apply (model_walk_mono) in Hs. unfold fuel_of in Hh. rewrite Hs in Hh.
  injection Hh as <-. rewrite N.eqb_refl in Hne. discriminate.
Qed.

Lemma move_result h mv mn w w' e :
  w_nodes w mv = Some mn -> n_parent mn <> PElem h ->
  w' = w \/ (late_err e /\ parent_link w' mv = Some (PElem h)) ->
  w' = w \/ (late_err e /\ parent_link w' mv <> parent_link w mv).
Proof.
  intros Hmn Hne [->|(He & Hp)]; [left; reflexivity|right]. split; [exact He|].
  rewrite Hp. unfold parent_link. rewrite Hmn. cbn. congruence.
Qed.

Lemma e_move_here_fail h mv w e w' :
  e_move_element_here T tab_en check_fn LATEST h mv w = Val (ER e, w') ->
  w' = w \/ (late_err e /\ parent_link w' mv <> parent_link w mv).
Proof.
  intros H. unfold e_move_element_here in H.
  destruct (h =? mv); [winvs; left; reflexivity|].
  wl1 H. wl1 H. wl1 H. wl1 H.
  match type of H with (if ?b then _ else _) _ = _ => destruct b end; [winvs; left; reflexivity|].
  wl1 H. winvs. wl1 H. winvs. wl1 H.
  match type of H with (match ?x with _ => _ end) _ = _ => destruct x as (rs, re) end.
  match goal with Hx : w_nodes w mv = Some ?x |- _ => rename x into mn; rename Hx into Hmn end.
  match type of H with (if ?b then _ else _) _ = _ => destruct b eqn:Emm end.
  - unfold parent_of in H. destruct (n_parent mn) as [|mm|p] eqn:Ep.
    + wl1 H. winvs.
    + wl1 H. winvs. left; reflexivity.
    + wl1 H. winvs. destruct (p =? h) eqn:Eph; [winvs|]. apply N.eqb_neq in Eph.
      eapply (move_result h mv mn); [exact Hmn| |eapply move_local_fail; exact H]. congruence.
  - eapply (move_result h mv mn); [exact Hmn| |eapply move_full_fail; exact H].
    eapply parent_other_model; eauto.
Qed.

Lemma e_move_here_at_fail h mv pos w e w' :
  e_move_element_here_at T tab_en check_fn LATEST h mv pos w = Val (ER e, w') ->
  w' = w \/ (late_err e /\ parent_link w' mv <> parent_link w mv).
Proof.
  intros H. unfold e_move_element_here_at in H.
  destruct (h =? mv); [winvs; left; reflexivity|].
  wl1 H. wl1 H. wl1 H. wl1 H.
  match type of H with (if ?b then _ else _) _ = _ => destruct b end; [winvs; left; reflexivity|].
  wl1 H. winvs. wl1 H. winvs. wl1 H.
  match type of H with (match ?x with _ => _ end) _ = _ => destruct x as (rs, re) end.
  match goal with Hx : w_nodes w mv = Some ?x |- _ => rename x into mn; rename Hx into Hmn end.
  match type of H with (if ?b then _ else _) _ = _ => destruct b end; [|winvs; left; reflexivity].
  match type of H with (if ?b then _ else _) _ = _ => destruct b eqn:Emm end.
  - unfold parent_of in H. destruct (n_parent mn) as [|mm|p] eqn:Ep.
    + wl1 H. winvs.
    + wl1 H. winvs. left; reflexivity.
    + wl1 H. winvs. destruct (p =? h) eqn:Eph.
      * left. revert H. apply nf_move_element_position.
      * apply N.eqb_neq in Eph.
        eapply (move_result h mv mn); [exact Hmn| |eapply move_local_fail; exact H]. congruence.
  - eapply (move_result h mv mn); [exact Hmn| |eapply move_full_fail; exact H].
    eapply parent_other_model; eauto.
Qed.

End Move2.
