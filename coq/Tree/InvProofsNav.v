(* Tree/InvProofsNav.v — C03 proofs: navigation under Core.
     position indexes the element in its parent; walk / dfs_ids enumerate the subtree in pre-order, each node once,
     and never run out of fuel; the upward walks (model, file membership, path, ancestor test) never run out of
     fuel. *)
From Coq Require Import PeanoNat Arith.
From AV Require Import Base.Bytes Base.Outcome Hash.HashModel Tree.Heap Tree.Ops Tree.Script Tree.Inv
  Tree.InvProofsBase Tree.InvProofsCore Tree.InvProofsTree Tree.InvProofsPrim.
Open Scope string_scope.
Open Scope list_scope.
Open Scope N_scope.

(* ------------------------------------------------------------------ position *)
Lemma index_of_first {A} (p : A -> bool) l k :
  index_of p l = Some k -> (exists x, nth_opt l k = Some x /\ p x = true) /\
                           forall j x, (j < k)%nat -> nth_opt l j = Some x -> p x = false.
Proof.
  revert k. induction l as [|y l IH]; intros k H; cbn in H; [discriminate|].
  destruct (p y) eqn:E.
  - injection H as <-. split; [exists y; auto|]. intros j x Hj. lia.
  - destruct (index_of p l) as [k'|] eqn:Hk; cbn in H; [|discriminate]. injection H as <-.
    destruct (IH _ eq_refl) as ((x & Hx & Hpx) & Hlt). split; [exists x; auto|].
    intros [|j] z Hj Hz; cbn in Hz; [congruence|]. eapply Hlt; eauto. lia.
Qed.

Lemma index_of_none_all {A} (p : A -> bool) l : index_of p l = None -> forall x, In x l -> p x = false.
Proof.
  induction l as [|y l IH]; intros H x Hx; cbn in H; [destruct Hx|].
  destruct (p y) eqn:E; [discriminate|]. destruct (index_of p l); cbn in H; [discriminate|].
  destruct Hx as [<-|Hx]; auto.
Qed.

Lemma nth_elem_unique l c : NoDup (elems l) -> forall i j,
  nth_opt l i = Some (CElem c) -> nth_opt l j = Some (CElem c) -> i = j.
Proof.
  induction l as [|y l IH]; intros Hnd i j Hi Hj; [destruct i; discriminate|].
  destruct i as [|i], j as [|j]; cbn in Hi, Hj; auto.
  - injection Hi as ->. rewrite elems_cons_elem in Hnd. inversion Hnd; subst. exfalso. apply H1.
    apply in_elems. eapply nth_opt_In; eauto.
  - injection Hj as ->. rewrite elems_cons_elem in Hnd. inversion Hnd; subst. exfalso. apply H1.
    apply in_elems. eapply nth_opt_In; eauto.
  - f_equal. apply IH; auto. destruct y; [rewrite elems_cons_elem in Hnd; inversion Hnd; auto | auto].
Qed.

(* Element::position(): Some k exactly when the k-th content item of the parent is this element *)
Theorem position_spec w c r w' : Core w -> q_position c w = Val (r, w') ->
  w' = w /\
  match r with
  | OK (Some k) => exists p pn, par w c p /\ w_nodes w p = Some pn /\
                                nth_opt (n_content pn) (N.to_nat k) = Some (CElem c) /\
                                forall j, nth_opt (n_content pn) j = Some (CElem c) -> j = N.to_nat k
  | OK None => forall p, par w c p -> ~ lists w p c
  | ER _ => False
  end.
Proof.
  intros C H. unfold q_position, wbind, get_node, wtry, parent_of in H.
  destruct (w_nodes w c) as [n|] eqn:Hn; [|discriminate].
  destruct (n_parent n) as [|m|p] eqn:Hp; cbn in H.
  - injection H as <- <-. split; auto. intros p (n' & Hn' & Hp'). congruence.
  - injection H as <- <-. split; auto. intros p (n' & Hn' & Hp'). congruence.
  - destruct (w_nodes w p) as [pn|] eqn:Hpn; [|discriminate]. cbn in H. injection H as <- <-. split; auto.
    destruct (index_of (citem_is c) (n_content pn)) as [k|] eqn:Hk; cbn.
    + exists p, pn. split; [exists n; auto|]. split; auto. rewrite Nat2N.id.
      pose proof (index_of_citem _ _ _ Hk) as Hnth. split; auto.
      intros j Hj. eapply nth_elem_unique; eauto. eapply c_nodup; eauto.
    + intros p' Hp' (pn' & Hpn' & Hin). assert (p' = p) as -> by (eapply par_fun; eauto; exists n; auto).
      apply index_of_citem_none in Hk. apply Hk. replace pn with pn' by congruence. auto.
Qed.

(* conversely, a listed element reports its index *)
Theorem position_listed w p c : Core w -> lists w p c ->
  exists k, q_position c w = Val (OK (Some k), w).
Proof.
  intros C Hl. pose proof (c_up _ C _ _ Hl) as (n & Hn & Hp). destruct Hl as (pn & Hpn & Hin).
  unfold q_position, wbind, get_node, wtry, parent_of. rewrite Hn, Hp. cbn. rewrite Hpn.
  destruct (index_of (citem_is c) (n_content pn)) as [k|] eqn:Hk.
  - exists (N.of_nat k). reflexivity.
  - exfalso. apply index_of_citem_none in Hk. auto.
Qed.

(* ------------------------------------------------------------------ downward walks *)
Lemma flat_map_content {B} (g : id -> list B) l :
  flat_map (fun it => match it with CElem c => g c | CData _ => [] end) l = flat_map g (elems l).
Proof.
  induction l as [|[c|d] l IH]; [reflexivity| |].
  - rewrite elems_cons_elem. cbn [flat_map]. rewrite IH. reflexivity.
  - rewrite elems_cons_data. cbn [flat_map]. rewrite IH. reflexivity.
Qed.

Lemma walk_S f w i :
  walk (S f) w i = match w_nodes w i with None => [] | Some n => i :: flat_map (walk f w) (kids n) end.
Proof. cbn [walk]. destruct (w_nodes w i); auto. f_equal. apply flat_map_content. Qed.

Lemma walk_subl w : Core w -> forall f i, allocated w i -> enough w i f -> walk (S f) w i = subl f w i.
Proof.
  intros C. induction f as [|f IH]; intros i (n & Hn) He; rewrite walk_S, Hn.
  - pose proof (enough_leaf _ _ _ C He Hn) as Hk. rewrite Hk. reflexivity.
  - cbn [subl]. rewrite Hn. f_equal.
    assert (Hall : forall c, In c (kids n) -> walk (S f) w c = subl f w c).
    { intros c Hc. assert (Hl : lists w i c) by (exists n; auto).
      destruct (enough_kid _ _ _ _ C He Hl) as (f' & [= <-] & He'). apply IH; auto.
      apply C in Hl. destruct Hl as (nc & ? & _). eexists; eauto. }
    clear Hn. induction (kids n) as [|c l IHl]; cbn [flat_map]; auto. rewrite Hall by (left; auto). f_equal.
    apply IHl. intros c' Hc'. apply Hall. right; auto.
Qed.

(* the handle discovery walk of the harness (fuel S (w_next w)) is the structural pre-order *)
Theorem walk_preorder w i : Core w -> allocated w i ->
  let l := walk (S (N.to_nat (w_next w))) w i in
  Pre w i l /\ NoDup l /\ forall x, In x l <-> Reach w i x.
Proof.
  intros C Ha. cbn zeta. pose proof (enough_top _ _ C Ha) as He.
  rewrite (walk_subl _ C _ _ Ha He). split; [apply subl_pre; auto|]. split; [apply subl_nodup; auto|].
  intros x. apply subl_reach; auto.
Qed.

Definition dfs_kids (f : nat) : list citem -> W (list id) :=
  fix kids (l : list citem) : W (list id) :=
    match l with
    | [] => wret []
    | CElem c :: r => (do a <- dfs_ids f c; do b <- kids r; wret (a ++ b))%W
    | CData _ :: r => kids r
    end.

Lemma dfs_ids_S f i :
  dfs_ids (S f) i = (do n <- get_node i; do rest <- dfs_kids f (n_content n); wret (i :: rest))%W.
Proof. reflexivity. Qed.
Lemma wbind_val {A B} (m : W A) (k : A -> W B) w a w1 : m w = Val (OK a, w1) -> wbind m k w = k a w1.
Proof. unfold wbind. intros ->. reflexivity. Qed.
Lemma get_node_val w i n : w_nodes w i = Some n -> get_node i w = Val (OK n, w).
Proof. unfold get_node. intros ->. reflexivity. Qed.

Lemma dfs_kids_val w f l :
  (forall c, In c (elems l) -> dfs_ids f c w = Val (OK (subl (pred f) w c), w)) ->
  dfs_kids f l w = Val (OK (flat_map (subl (pred f) w) (elems l)), w).
Proof.
  induction l as [|[c|d] l IH]; intros Hall; cbn [dfs_kids]; [reflexivity| |].
  - rewrite elems_cons_elem in *. erewrite wbind_val by (apply Hall; left; auto).
    erewrite wbind_val by (apply IH; intros c' Hc'; apply Hall; right; auto). reflexivity.
  - rewrite elems_cons_data in *. auto.
Qed.

Lemma dfs_ids_subl w : Core w -> forall f i, allocated w i -> enough w i f ->
  dfs_ids (S f) i w = Val (OK (subl f w i), w).
Proof.
  intros C. induction f as [|f IH]; intros i (n & Hn) He; rewrite dfs_ids_S;
    erewrite wbind_val by (apply get_node_val; eauto).
  - pose proof (enough_leaf _ _ _ C He Hn) as Hk.
    erewrite wbind_val by (apply dfs_kids_val; unfold kids in Hk; rewrite Hk; intros c []).
    unfold kids in Hk. rewrite Hk. reflexivity.
  - erewrite wbind_val.
    2:{ apply dfs_kids_val. intros c Hc. assert (Hl : lists w i c) by (exists n; auto).
        destruct (enough_kid _ _ _ _ C He Hl) as (f' & [= <-] & He'). apply IH; auto.
        apply C in Hl. destruct Hl as (nc & ? & _). eexists; eauto. }
    cbn [subl pred]. rewrite Hn. reflexivity.
Qed.

(* Element::elements_dfs() as used by the operations: pre-order, no Fuel, no Pan *)
Theorem dfs_ids_preorder w i : Core w -> allocated w i ->
  exists l, dfs_ids (fuel_of w) i w = Val (OK l, w) /\ Pre w i l /\ NoDup l /\ forall x, In x l <-> Reach w i x.
Proof.
  intros C Ha. pose proof (enough_top _ _ C Ha) as He. exists (subl (N.to_nat (w_next w)) w i).
  split; [apply dfs_ids_subl; auto|]. split; [apply subl_pre; auto|]. split; [apply subl_nodup; auto|].
  intros x. apply subl_reach; auto.
Qed.

(* ------------------------------------------------------------------ upward walks never run out of fuel *)
Lemma model_walk_fuel w : Core w -> forall f i h, Depth w i h -> (h < f)%nat -> model_walk f i w <> Fuel.
Proof.
  intros C. induction f as [|f IH]; intros i h Hd Hf; [lia|]. cbn [model_walk]. unfold wbind, get_node.
  destruct Hd as [x n Hn Ht | x n p h Hn Hp Hd]; rewrite Hn.
  - destruct (n_parent n) as [| |p]; try discriminate. exfalso. eapply Ht; eauto.
  - rewrite Hp. eapply IH; eauto. lia.
Qed.

Theorem model_of_no_fuel w i : Core w -> allocated w i -> model_of i w <> Fuel.
Proof.
  intros C Ha. destruct (c_depth _ C _ Ha) as (h & Hd). pose proof (depth_bound _ _ _ C Hd).
  unfold model_of, wbind, wget. eapply model_walk_fuel; eauto. unfold fuel_of. lia.
Qed.

Lemma fm_walk_fuel w : Core w -> forall f s i h, Depth w i h -> (h < f)%nat -> fm_walk f s i w <> Fuel.
Proof.
  intros C. induction f as [|f IH]; intros s i h Hd Hf; [lia|]. cbn [fm_walk]. unfold wbind at 1. unfold get_node.
  destruct Hd as [x n Hn Ht | x n p h Hn Hp Hd]; rewrite Hn.
  - destruct (negb (is_empty (n_files n))); [discriminate|]. unfold wbind, parent_of.
    destruct (n_parent n) as [| |p]; try discriminate. exfalso. eapply Ht; eauto.
  - destruct (negb (is_empty (n_files n))); [discriminate|]. unfold wbind, parent_of. rewrite Hp. cbn.
    eapply IH; eauto. lia.
Qed.

Theorem file_membership_no_fuel w i : Core w -> allocated w i -> file_membership i w <> Fuel.
Proof.
  intros C Ha. destruct (c_depth _ C _ Ha) as (h & Hd). pose proof (depth_bound _ _ _ C Hd).
  unfold file_membership, wbind, wget. eapply fm_walk_fuel; eauto. unfold fuel_of. lia.
Qed.

Lemma ancestor_is_fuel w : Core w -> forall f i n other h, w_nodes w i = Some n -> Depth w i h -> (h < f)%nat ->
  ancestor_is f (n_parent n) other w <> Fuel.
Proof.
  intros C. induction f as [|f IH]; intros i n other h Hn Hd Hf; [lia|]. cbn [ancestor_is].
  destruct (n_parent n) as [| |p] eqn:Hp; try discriminate.
  destruct (p =? other); [discriminate|]. unfold wbind, get_node.
  destruct (par_depth w i p h (ex_intro _ n (conj Hn Hp)) Hd) as (h' & -> & Dp).
  destruct (depth_alloc _ _ _ Dp) as (np & Hnp). rewrite Hnp. eapply IH; eauto. lia.
Qed.

Theorem ancestor_is_no_fuel w i n other : Core w -> w_nodes w i = Some n ->
  ancestor_is (fuel_of w) (n_parent n) other w <> Fuel.
Proof.
  intros C Hn. assert (Ha : allocated w i) by (eexists; eauto).
  destruct (c_depth _ C _ Ha) as (h & Hd). pose proof (depth_bound _ _ _ C Hd).
  eapply ancestor_is_fuel; eauto. unfold fuel_of. lia.
Qed.
