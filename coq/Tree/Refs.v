(* Tree/Refs.v — C05 definitions: the invariant bundle on the reference_origins maps, the broken-reference predicate
   that the invalid-reference report has to compute, finding and pending classes.
   (RefSet / RefsExact / OriginsTidy are in Tree/Index.v.)  DEFINITIONS ONLY. *)
From AV Require Import Base.Bytes Base.Outcome Hash.HashModel Tree.Heap Tree.Ops Tree.Script Tree.Index Tree.Follow.
Open Scope string_scope.
Open Scope list_scope.
Open Scope N_scope.

Section Refs.
Variable T : tables.
Variable tab_el tab_en : nametab.
Variable check_fn : N -> list N -> res bool.
Variable LATEST : N.
Variable root_attrs : list (N * cdata).

Record Inv05 (w : world) : Prop := {
  i5_exact : forall m, RefsExact T w m;
  i5_tidy : forall m, OriginsTidy w m
}.

(* the DEST attribute of reference r fits the type of element t *)
Definition dest_fits (w : world) (r t : id) : Prop :=
  exists rn tn d, w_nodes w r = Some rn /\ w_nodes w t = Some tn /\
    attr_value rn (attr_dest T) = Some (DEnum d) /\ verify_reference_dest T (n_type tn) d = Val true.

(* r is a reference of model m with string text whose text does not resolve, or resolves to an element its DEST
   does not fit *)
Definition Broken (w : world) (m : N) (r : id) : Prop :=
  exists p x, model_at w m = Some x /\ RefSet T w m p r /\
    ~ (exists t, assoc_get p (m_idents x) = Some t /\ dest_fits w r t).

(* ---------- findings *)
Fixpoint ids_eqb (a b : list id) : bool :=
  match a, b with [], [] => true | x :: a', y :: b' => (x =? y) && ids_eqb a' b' | _, _ => false end.
Fixpoint origins_eqb (a b : list (list N * list id)) : bool :=
  match a, b with
  | [], [] => true
  | (k, l) :: a', (k2, l2) :: b' => bytes_eqb k k2 && ids_eqb l l2 && origins_eqb a' b'
  | _, _ => false
  end.
Fixpoint all_origins_eqb (a b : list model) : bool :=
  match a, b with
  | [], [] => true
  | x :: a', y :: b' => origins_eqb (m_origins x) (m_origins y) && all_origins_eqb a' b'
  | _, _ => false
  end.

(* ---------- copies: conditions on the RESULT of a successful copy, decided by running the model.
   c = the copy, h = the destination, w = the world before, w' = the world after. *)
Definition node_ok (w' : world) (j : id) : bool :=
  match w_nodes w' j with
  | Some n =>
    (* an identifiable element has an item name (finding C13-copy-nameless-shortname otherwise) *)
    (negb (identifiable_n T w' n) || match item_name_n T w' n with Some _ => true | None => false end)
    (* the text of a SHORT-NAME element has no '/', elements with character content have at most one text item *)
    && (negb (n_name n =? name_short_name T) || match cdata_of T n with Some (DString s) => negb (existsb (N.eqb 47) s) | _ => true end)
    && (match content_mode T (n_type n) with
        | Val md => negb (md =? MCharacters) || match n_content n with [] => true | [CData _] => true | _ => false end
        | _ => true end)
  | None => false
  end.
Definition copy_clean (w w' : world) (h c : id) : bool :=
  match w_nodes w h with
  | Some nh =>
    match path_unchecked T nh w with
    | Val (OK path, _) =>
      let w3 := mkWorld (fun j => if j =? h then Some nh else w_nodes w' j) (w_next w') (w_files w') (w_models w') in
      let ids := walk (fuel_of w') w' c in
      match reg_entries T (fuel_of w') w3 path c with
      | Some (L, R) =>
        (* every node allocated by the call belongs to the copy (no garbage of dropped sub-elements), once *)
        nodupN ids && (N.of_nat (List.length ids) =? w_next w' - w_next w)
        (* no two identifiable elements of the copy get the same path; a copy that is not identifiable itself holds
           no identifiable element (finding C04-copy-container-duplicates-paths otherwise) *)
        && nodupb (map fst L) && nodupN (map snd R) && (identifiable T w' c || is_empty L)
        && forallb (node_ok w') ids
      | None => false
      end
    | _ => false
    end
  | None => false
  end.

(* K05-setref: Element::set_reference_target updates reference_origins BEFORE the text write, which can still fail
   (the target path does not pass the reference type's check): the call returns an error, the element keeps its old
   text (or none), but it is now listed under the new path.  Decided by running the model. *)
Definition pref_eqb (a b : pref) : bool :=
  match a, b with
  | PNone, PNone => true
  | PModel x, PModel y => x =? y
  | PElem x, PElem y => x =? y
  | _, _ => false
  end.
Definition plink_eqb (w w' : world) (i : id) : bool :=
  match option_map n_parent (w_nodes w i), option_map n_parent (w_nodes w' i) with
  | Some a, Some b => pref_eqb a b
  | None, None => true
  | _, _ => false
  end.

(* K05-move-late: a move fails AFTER the moved element was unlinked and re-parented (make_unique_item_name or the
   rewrite of a referrer fails: agent-c11's classes K11_move_noname / K11_move_refwrite): the call returns an error
   and the element hangs below its new parent without being listed there.  Decided by running the model. *)
Definition Known05 (w : world) (o : op) : bool :=
  match o with
  | OpSetRefTarget _ _ =>
    match run_op T tab_el tab_en check_fn LATEST root_attrs o w with
    | Val (ER _, w') => negb (all_origins_eqb (w_models w) (w_models w'))
    | _ => false
    end
  | OpCopy h _ | OpCopyAt h _ _ =>
    (* a failed copy that left allocated garbage; a successful copy whose result is not clean (copy_clean) *)
    match run_op T tab_el tab_en check_fn LATEST root_attrs o w with
    | Val (ER _, w') => negb (w_next w' =? w_next w)
    | Val (OK (VElem c), w') => negb (copy_clean w w' h c)
    | _ => false
    end
  | OpMove h mv | OpMoveAt h mv _ =>
    (* K04-move-container (finding C04-move-container-duplicates-paths): a non-identifiable container is moved and an
       identifiable element it holds gets a path that is already in the index (no uniqueness check on this route) *)
    (negb (identifiable T w mv) && collision06 T w h mv) ||
    match run_op T tab_el tab_en check_fn LATEST root_attrs o w with
    | Val (ER _, w') => negb (plink_eqb w w' mv)
    | _ => false
    end
  | _ => false
  end.

Definition Pending05 (w : world) (o : op) : bool :=
  match o with
  | OpCopy _ _ | OpCopyAt _ _ _ | OpMove _ _ | OpMoveAt _ _ _
  | OpSetItemName _ _ => true
  | _ => false
  end.

(* pending for the COMBINED invariant Inv04 /\ Inv05 (set_item_name is proved for the combination only: it needs both) *)
Definition Pending45 (w : world) (o : op) : bool :=
  match o with
  | OpCopy _ _ | OpCopyAt _ _ _ | OpMove _ _ | OpMoveAt _ _ _ => true
  | _ => false
  end.

(* the refined list: a move inside one model whose moved element is identifiable is covered *)
Definition same_model (w : world) (h mv : id) : bool :=
  match model_of h w, model_of mv w with
  | Val (OK m1, _), Val (OK m2, _) => m1 =? m2
  | _, _ => false
  end.
Definition simple_move (w : world) (h mv : id) : bool := identifiable T w mv && same_model w h mv.
Definition Pending45m (w : world) (o : op) : bool :=
  match o with
  | OpCopy _ _ | OpCopyAt _ _ _ => true
  | OpMove h mv | OpMoveAt h mv _ => negb (simple_move w h mv)
  | _ => false
  end.

(* second refinement: every move inside one model (containers too) and the copies are covered; what remains is the
   move between two models *)
Definition Pending45x (w : world) (o : op) : bool :=
  match o with
  | OpMove h mv | OpMoveAt h mv _ => negb (same_model w h mv)
  | _ => false
  end.

End Refs.
