(* Tree/InvEBase.v — C03: the tree invariant WITHOUT RootsOnly.
     NoOrphanP w := every node with parent link PElem p is listed by p           (all nodes)
     TreeInvL w  := Core w /\ NoOrphanP w
   RootsOnly ("only the root of model m carries the parent link PModel m") is NOT an invariant of loads: the first
   load into a model replaces its root element, the old root keeps its link (in the library it is dropped unless a
   handle is held).  For LIVE nodes it is a consequence of Core (roots_only_live), so nothing is lost for the live tree.
   This file gives the OrphE-only counterparts (same signatures) of the OrphSub lemmas of InvProofsCore.v and of the
   Pres machinery of InvProofsPrim.v; Tree/InvE_*.v are the proofs of Create / Remove / Files / Move / Copy over them. *)
From Coq Require Import PeanoNat Arith Lia.
From AV Require Import Base.Bytes Base.Outcome Hash.HashModel Tree.Heap Tree.Ops Tree.Script Tree.Inv
  Tree.InvProofsBase Tree.InvProofsCore Tree.InvProofsTree Tree.InvProofsPrim.
Open Scope string_scope.
Open Scope list_scope.
Open Scope N_scope.

Definition NoOrphanP (w : world) : Prop := forall c p, par w c p -> lists w p c.
Definition TreeInvL (w : world) : Prop := Core w /\ NoOrphanP w.
Definition OrphSubE (w : world) (S : id -> Prop) : Prop := OrphE w S.

Lemma TreeInv_TreeInvL w : TreeInv w -> TreeInvL w.
Proof. intros (C & O & _). split; auto. Qed.

(* RootsOnly restricted to live nodes follows from Core *)
Lemma roots_only_live w i n m : Core w -> Live w i -> w_nodes w i = Some n -> n_parent n = PModel m ->
  nth_error (roots w) (N.to_nat m) = Some i.
Proof.
  intros C (r & Hr & Hre) Hn Hp. apply In_nth_error in Hr as (k & Hk).
  destruct Hre as [Ha|p i Hrp Hl].
  - destruct (c_roots _ C _ _ Hk) as (n0 & Hn0 & Hp0). rewrite Hn in Hn0. injection Hn0 as <-.
    rewrite Hp in Hp0. injection Hp0 as ->. rewrite Nat2N.id. exact Hk.
  - apply (c_up _ C) in Hl. destruct Hl as (n0 & Hn0 & Hp0). congruence.
Qed.

Lemma NoOrphanP_OrphSubE w : NoOrphanP w <-> OrphSubE w (fun _ => False).
Proof. apply NoOrphanE_OrphE. Qed.
Lemma OrphSubE_weaken w (S S' : id -> Prop) : (forall x, S x -> S' x) -> OrphSubE w S -> OrphSubE w S'.
Proof. apply OrphE_weaken. Qed.
Lemma OrphSubE_same_tree w w' S : same_tree w w' -> OrphSubE w S -> OrphSubE w' S.
Proof. apply OrphE_same_tree. Qed.
Lemma NoOrphanP_same_tree w w' : same_tree w w' -> NoOrphanP w -> NoOrphanP w'.
Proof. intros S O. apply NoOrphanP_OrphSubE. eapply OrphSubE_same_tree; eauto. apply NoOrphanP_OrphSubE. auto. Qed.
Lemma TreeInvL_same_tree w w' : same_tree w w' -> TreeInvL w -> TreeInvL w'.
Proof. intros H (C & O). split; [eapply Core_same_tree | eapply NoOrphanP_same_tree]; eauto. Qed.

Lemma orphsubE_clear (w w' : world) (self sub : id) (L : list id) (pp : pref) (ks ks' : list id) :
  roots w' = roots w ->
  (forall x, In x L -> allocated w x /\ skel w' x = Some (PNone, [])) ->
  (forall x, ~ In x L -> x <> self -> skel w' x = skel w x) ->
  skel w self = Some (pp, ks) -> skel w' self = Some (pp, ks') ->
  (forall x, In x ks' <-> In x ks /\ x <> sub) -> In sub L ->
  (forall p c, In p L -> lists w p c -> In c L) ->
  forall S : id -> Prop, OrphSubE w S -> OrphSubE w' S.
Proof. intros _. apply orphe_clear. Qed.
Lemma orphsubE_drop w w' i pp ks ks' (S : id -> Prop) :
  upd1 w w' i -> skel w i = Some (pp, ks) -> skel w' i = Some (pp, ks') ->
  OrphSubE w S -> OrphSubE w' (fun x => S x \/ (In x ks /\ ~ In x ks')).
Proof. apply orphe_drop. Qed.
Lemma orphsubE_insert w w' i pp ks ks' c0 (S : id -> Prop) :
  upd1 w w' i -> skel w i = Some (pp, ks) -> skel w' i = Some (pp, ks') ->
  (forall x, In x ks' <-> x = c0 \/ In x ks) -> par w c0 i ->
  OrphSubE w S -> OrphSubE w' (fun x => S x /\ x <> c0).
Proof. apply orphe_insert. Qed.
Lemma orphsubE_reparent w w' i pp ks q (S : id -> Prop) :
  upd1 w w' i -> skel w i = Some (pp, ks) -> skel w' i = Some (PElem q, ks) ->
  OrphSubE w S -> OrphSubE w' (fun x => S x \/ x = i).
Proof. apply orphe_reparent. Qed.
Lemma orphsubE_alloc w w' pp (S : id -> Prop) :
  Core w -> alloc1 w w' -> skel w' (w_next w) = Some (pp, []) -> (forall m, pp <> PModel m) ->
  OrphSubE w S -> OrphSubE w' (fun x => S x \/ (x = w_next w /\ pp <> PNone)).
Proof. intros C U Hi _. eapply orphe_alloc; eauto. Qed.
Lemma orphsubE_new_model w w' (S : id -> Prop) :
  Core w -> roots w' = roots w ++ [w_next w] -> (forall x, x <> w_next w -> skel w' x = skel w x) ->
  skel w' (w_next w) = Some (PModel (N.of_nat (List.length (roots w))), []) ->
  OrphSubE w S -> OrphSubE w' S.
Proof. intros C _ Ho Hi. eapply orphe_new_model; eauto. Qed.

(* ---------- computations that keep Core and NoOrphanP ---------- *)
Definition PresE {A} (m : W A) : Prop :=
  forall w r w', m w = Val (r, w') -> Core w -> Core w' /\ (NoOrphanP w -> NoOrphanP w').

Lemma PresE_stp {A} (m : W A) : stp m -> PresE m.
Proof.
  intros H w r w' E C. apply H in E. split; [eapply Core_same_tree | eapply NoOrphanP_same_tree]; eauto.
Qed.
Lemma PresE_ro {A} (m : W A) : ro m -> PresE m.
Proof. intros H. apply PresE_stp, stp_ro, H. Qed.
Lemma PresE_bind {A B} (m : W A) (k : A -> W B) : PresE m -> (forall a, PresE (k a)) -> PresE (wbind m k).
Proof.
  intros Hm Hk w r w' H C. apply wbind_inv in H as [(a & w1 & H1 & H2) | (e & H1 & _)].
  - destruct (Hm _ _ _ H1 C) as (C1 & O1). destruct (Hk _ _ _ _ H2 C1) as (C2 & O2). auto.
  - eapply Hm; eauto.
Qed.
Lemma PresE_try {A} (m : W A) : PresE m -> PresE (wtry m).
Proof. intros Hm w r w' H. apply wtry_inv in H as (r0 & H & _). eapply Hm; eauto. Qed.

Create HintDb presE discriminated.
Ltac presE_step :=
  first
  [ apply PresE_ro; solve [ro_tac]
  | assumption
  | solve [auto with presE]
  | apply PresE_stp; solve [stp_tac]
  | apply PresE_try
  | apply PresE_bind; [ | intros ? ]
  | match goal with
    | |- PresE (match ?x with _ => _ end) => destruct x
    | |- PresE (if ?b then _ else _) => destruct b
    end ].
Ltac presE_tac := repeat presE_step.

Lemma TreeInvL_PresE {A} (m : W A) w r w' : PresE m -> m w = Val (r, w') -> TreeInvL w -> TreeInvL w'.
Proof. intros H E (C & O). destruct (H _ _ _ E C). split; auto. Qed.
