(* Tree/Serialize.v — model of Element::serialize_internal (element.rs) with the `for_file` filter, directly over
   the heap, and of ArxmlFile::serialize (arxmlfile.rs) including its side effect on the shared root attribute
   xsi:schemaLocation (AutosarModelRaw::set_version).  Text fragments are shared with Xml/Serializer.v.
   MODEL ONLY: definitions, no proofs. *)
From AV Require Import Base.Bytes Base.Outcome Hash.HashModel Tree.Heap Tree.Ops Spec.Versions.
From AV Require Xml.Parser Xml.Serializer.
Open Scope string_scope.
Open Scope list_scope.
Open Scope N_scope.

Definition to_pc (d : cdata) : Parser.cdata :=
  match d with DEnum e => Parser.DEnum e | DString s => Parser.DString s | DUInt n => Parser.DUInt n | DFloat b => Parser.DFloat b end.

Section Serialize.
Variable T : tables.
Variable tab_el tab_at tab_en : nametab.
Variable check_fn : N -> list N -> res bool.
Variable float_fmt : N -> list N.               (* ORACLE: f64::to_string *)
Variable attr_schema_location : N.              (* AttributeName::xsiSchemalocation *)

Definition ser_cd (d : cdata) : res (list N) := Serializer.ser_cdata tab_en float_fmt (to_pc d).
Definition ser_ats (a : list (N * cdata)) : res (list N) :=
  Serializer.ser_attrs tab_at tab_en float_fmt (map (fun x => (fst x, to_pc (snd x))) a).

(* the filter on a sub-element: for_file.is_none() || local membership empty || contains the file *)
Definition passes (for_file : option N) (n : node) : bool :=
  match for_file with None => true | Some f => is_empty (n_files n) || set_mem f (n_files n) end.

Fixpoint ser_heap (fuel : nat) (w : world) (for_file : option N) (i : id) (indent : nat) (inline : bool) {struct fuel}
  : res (list N) :=
  match fuel with
  | O => Fuel
  | S fl =>
    match w_nodes w i with
    | None => Pan "dangling node id"
    | Some n =>
      (let* nm := unwrap "ElementName::to_str: STRING_TABLE index" (to_str tab_el (n_name n)) in
       let pre := Serializer.comment_part (n_comment n) indent inline ++ (if inline then [] else Serializer.newline_indent indent) in
       match n_content n with
       | [] => let* ats := ser_ats (n_attrs n) in Val (pre ++ [60] ++ nm ++ ats ++ [47; 62])
       | first :: _ =>
         let* ats := ser_ats (n_attrs n) in
         let* mode := content_mode T (n_type n) in
         let open_tag := [60] ++ nm ++ ats ++ [62] in
         let close_tag := [60; 47] ++ nm ++ [62] in
         if mode =? MCharacters then
           let* body := match first with CData d => ser_cd d | CElem _ => Val [] end in
           Val (pre ++ open_tag ++ body ++ close_tag)
         else if mode =? MMixed then
           let* body :=
             (fix items (l : list citem) : res (list N) :=
                match l with
                | [] => Val []
                | CElem c :: l' =>
                  match w_nodes w c with
                  | None => Pan "dangling node id"
                  | Some cn =>
                    if passes for_file cn then
                      (let* a := ser_heap fl w for_file c (S indent) true in let* b := items l' in Val (a ++ b))
                    else items l'
                  end
                | CData d :: l' => let* a := ser_cd d in let* b := items l' in Val (a ++ b)
                end) (n_content n) in
           Val (pre ++ open_tag ++ body ++ close_tag)
         else
           let* body :=
             (fix subs (l : list citem) : res (list N) :=
                match l with
                | [] => Val []
                | CElem c :: l' =>
                  match w_nodes w c with
                  | None => Pan "dangling node id"
                  | Some cn =>
                    if passes for_file cn then
                      (let* a := ser_heap fl w for_file c (S indent) false in let* b := subs l' in Val (a ++ b))
                    else subs l'
                  end
                | CData _ :: l' => subs l'
                end) (n_content n) in
           Val (pre ++ open_tag ++ body ++ Serializer.newline_indent indent ++ close_tag)
       end)%res
    end
  end.

(* Element::serialize *)
Definition e_serialize (i : id) : W (list N) :=
  fun w => match ser_heap (fuel_of w) w None i 0 false with
           | Val s => Val (OK s, w) | Pan s => Pan s | Fuel => Fuel end.

(* AutosarVersion::filename by `v as u32` *)
Definition filename_of_value (v : N) : option (list N) :=
  match find (fun i => match ver_value i with Some x => x =? v | None => false end) iotaV with
  | Some i => option_map bytes_of_string (filename i)
  | None => None
  end.

(* ArxmlFile::serialize *)
Definition f_serialize (f : N) : W (list N) :=
  (do fl <- get_file f;
   do m <- get_model (f_model fl);
   do '(_, files) <- file_membership (m_root m);
   if negb (set_mem f files) then wfail EmptyFile else
   do fname <- wlift (unwrap "AutosarVersion::filename" (filename_of_value (f_version fl)));
   do _ <- wtry (raw_set_attribute T check_fn (m_root m) attr_schema_location
                   (DString (BS "http://autosar.org/schema/r4.0 " ++ fname)) (f_version fl));
   fun w => match ser_heap (fuel_of w) w (Some f) (m_root m) 0 false with
            | Val s => Val (OK (Serializer.xml_header (f_standalone fl) ++ s), w) | Pan s => Pan s | Fuel => Fuel end)%W.

End Serialize.
