(* Tree/CopyProofsText.v — C13: equal up to node ids (and with corresponding file filters) means equal text.
     IsoF w w' ff ff' s c : the subtree of s in w and the subtree of c in w' have the same shape, names, stored types,
                            attributes, character data and comments, and corresponding sub-elements pass the file
                            filters ff (in w) and ff' (in w') alike.
     iso_text             : then the serializer writes the same bytes for both (every fuel, indent, inline flag).
   With ff = ff' = None this is Iso (CopyProofsDefs.v): a copy that is Iso to its source has the same text. *)
From AV Require Import Base.Bytes Base.Outcome Hash.HashModel Tree.Heap Tree.Ops Tree.Serialize
  Tree.CopyProofsW Tree.CopyProofsDefs Tree.CopyProofsTop.
From AV Require Xml.Parser Xml.Serializer.
From Coq Require Import Lia PeanoNat.
Open Scope string_scope.
Open Scope list_scope.
Open Scope N_scope.

Inductive IsoF (w w' : world) (ff ff' : option N) : id -> id -> Prop :=
| IF_node s c ns nc :
    w_nodes w s = Some ns -> w_nodes w' c = Some nc ->
    n_name nc = n_name ns -> n_type nc = n_type ns -> n_comment nc = n_comment ns -> n_attrs nc = n_attrs ns ->
    IsoFItems w w' ff ff' (n_content ns) (n_content nc) ->
    IsoF w w' ff ff' s c
with IsoFItems (w w' : world) (ff ff' : option N) : list citem -> list citem -> Prop :=
| IFI_nil : IsoFItems w w' ff ff' [] []
| IFI_data d r r' : IsoFItems w w' ff ff' r r' -> IsoFItems w w' ff ff' (CData d :: r) (CData d :: r')
| IFI_elem s c ns nc r r' :
    w_nodes w s = Some ns -> w_nodes w' c = Some nc -> passes ff ns = passes ff' nc ->
    IsoF w w' ff ff' s c -> IsoFItems w w' ff ff' r r' -> IsoFItems w w' ff ff' (CElem s :: r) (CElem c :: r').

Lemma Iso_IsoF w w' : (forall s c, Iso w w' s c -> IsoF w w' None None s c) /\
                      (forall l l', IsoItems w w' l l' -> IsoFItems w w' None None l l').
Proof.
  apply Iso_mutind.
  - intros s c ns nc Hs Hc E1 E2 E3 E4 _ IH. econstructor; eauto.
  - constructor.
  - intros d r r' _ IH. constructor. exact IH.
  - intros s c r r' HI IH1 _ IH2. inversion IH1; subst. econstructor; eauto.
Qed.

(* Iso survives a change of the copy's world that keeps everything Iso looks at in the fresh region *)
Lemma Iso_keep lo w w1 w' :
  (forall i n1, lo <= i -> w_nodes w1 i = Some n1 ->
     exists n', w_nodes w' i = Some n' /\ n_name n' = n_name n1 /\ n_type n' = n_type n1 /\
                n_comment n' = n_comment n1 /\ n_attrs n' = n_attrs n1 /\ n_content n' = n_content n1) ->
  (forall s c, Iso w w1 s c -> FreshTree lo w1 c -> Iso w w' s c) /\
  (forall l l', IsoItems w w1 l l' -> (forall x, In (CElem x) l' -> FreshTree lo w1 x) -> IsoItems w w' l l').
Proof.
  intros K. apply Iso_mutind.
  - intros s c ns nc Hs Hc E1 E2 E3 E4 _ IH HF. inversion HF as [c0 nc0 Hc0 Hlo Hk]; subst c0.
    rewrite Hc in Hc0. injection Hc0 as <-.
    destruct (K c nc Hlo Hc) as (n' & Hn' & F1 & F2 & F3 & F4 & F5).
    econstructor; [exact Hs|exact Hn'|congruence|congruence|congruence|congruence|]. rewrite F5. apply IH. exact Hk.
  - intros _. constructor.
  - intros d r r' _ IH HF. constructor. apply IH. intros x Hx. apply HF. right. exact Hx.
  - intros s c r r' _ IH1 _ IH2 HF. constructor; [apply IH1; apply HF; left; reflexivity|].
    apply IH2. intros x Hx. apply HF. right. exact Hx.
Qed.

Section Text.
Variable T : tables.
Variable tab_el tab_at tab_en : nametab.
Variable float_fmt : N -> list N.
Notation ser := (ser_heap T tab_el tab_at tab_en float_fmt).

Ltac loops_eq HI IH r r' :=
  match goal with
  | |- context [?F r] =>
    is_fix F;
    match goal with
    | |- context [?G r'] =>
      is_fix G;
      let EQ := fresh "EQ" in
      assert (EQ : F r = G r');
      [ clear - HI IH;
        induction HI as [|?d ?r0 ?r0' _ ?IHl|?s2 ?c2 ?ns2 ?nc2 ?r0 ?r0' ?Hs2 ?Hc2 ?Hp2 ?HI2 _ ?IHl];
        [ reflexivity
        | first [ exact IHl | rewrite IHl; reflexivity ]
        | rewrite Hs2, Hc2, Hp2; destruct (passes _ nc2); [ rewrite (IH _ _ _ _ HI2), IHl; reflexivity | exact IHl ] ]
      | rewrite EQ ]
    end
  end.

Theorem iso_text w w' ff ff' : forall fuel s c indent inline,
  IsoF w w' ff ff' s c -> ser fuel w ff s indent inline = ser fuel w' ff' c indent inline.
Proof.
  induction fuel as [|fl IH]; intros s c indent inline H; [reflexivity|].
  inversion H as [s0 c0 ns nc Hs Hc E1 E2 E3 E4 HI]; subst s0 c0. cbn [ser_heap]. rewrite Hs, Hc, E1, E3, E4.
  destruct (unwrap _ (to_str tab_el (n_name ns))) as [nm| |]; cbn [bind]; try reflexivity.
  destruct HI as [|d r r' HI|s1 c1 ns1 nc1 r r' Hs1 Hc1 Hp HI1 HI]; [reflexivity| |].
  - destruct (ser_ats tab_at tab_en float_fmt (n_attrs ns)) as [ats| |]; cbn [bind]; try reflexivity.
    rewrite E2. destruct (content_mode T (n_type ns)) as [mode| |]; cbn [bind]; try reflexivity.
    destruct (mode =? MCharacters); [reflexivity|].
    destruct (mode =? MMixed); loops_eq HI IH r r'; reflexivity.
  - destruct (ser_ats tab_at tab_en float_fmt (n_attrs ns)) as [ats| |]; cbn [bind]; try reflexivity.
    rewrite E2. destruct (content_mode T (n_type ns)) as [mode| |]; cbn [bind]; try reflexivity.
    destruct (mode =? MCharacters); [reflexivity|].
    destruct (mode =? MMixed); loops_eq HI IH r r'; rewrite Hs1, Hc1, Hp; destruct (passes ff' nc1);
      rewrite ?(IH _ _ _ _ HI1); reflexivity.
Qed.

(* a copy made in the version of its destination of a source that is valid there, and that kept its name, has the
   text of its source *)
Theorem copy_text LATEST h other pos w c w' v :
  Closed w -> h < w_next w -> copy_call T LATEST h other pos w = Val (OK c, w') ->
  min_version LATEST h w = Val (OK v, w) -> AllValidIn T v w other ->
  exists w1, Iso w w1 other c /\ CopyRel T w1 w' h c /\
    ((forall i, i <> h -> i <> c -> w_nodes w' i = w_nodes w1 i) ->
     Iso w w' other c /\
     forall fuel indent inline, ser fuel w None other indent inline = ser fuel w' None c indent inline).
Proof.
  intros Cw Hh H Hv HA. destruct (copy_same_version T LATEST h other pos w c w' v Cw H Hv HA) as (w1 & HI & HF & Ex & HR).
  exists w1. split; [exact HI|]. split; [exact HR|]. intros Hsame.
  destruct HR as (nc1 & Hc1 & Hc' & _).
  assert (HI' : Iso w w' other c).
  { assert (K : forall i n1, w_next w <= i -> w_nodes w1 i = Some n1 ->
       exists n', w_nodes w' i = Some n' /\ n_name n' = n_name n1 /\ n_type n' = n_type n1 /\
                  n_comment n' = n_comment n1 /\ n_attrs n' = n_attrs n1 /\ n_content n' = n_content n1);
      [|exact (proj1 (Iso_keep (w_next w) w w1 w' K) other c HI HF)].
    intros i n1 Hi Hn1. destruct (N.eq_dec i c) as [->|Hne].
    - rewrite Hc1 in Hn1. injection Hn1 as <-. exists (set_parent nc1 (PElem h)). split; [exact Hc'|]. cbn. auto 6.
    - exists n1. rewrite Hsame; [auto 6|lia|exact Hne]. }
  split; [exact HI'|]. intros fuel indent inline. apply iso_text. apply (proj1 (Iso_IsoF w w')). exact HI'.
Qed.

End Text.
