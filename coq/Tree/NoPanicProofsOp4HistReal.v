(* Tree/NoPanicProofsOp4HistReal.v — C12: op2 histories with rejected loads as steps, on the regenerated tables; the parser
   hypotheses of C02 (loader_hyps) hold there for every validator function that returns. *)
From Coq Require Import Lia.
From AV Require Import Base.Bytes Base.Outcome Hash.HashModel Spec.SpecOps Spec.SpecReal Xml.TablesOk
  Tree.Heap Tree.Ops Tree.Script Tree.Script2 Tree.Load Tree.Inv Tree.SortProofsHeap Tree.SortProofsReadyV Tree.SortProofsReal
  Tree.CompatHist1 Tree.CompatHistReal.
From AV Require Xml.Parser Xml.ParserProofs Xml.ParserExamples.
From AV Require Import Hash.HashRealElement Hash.HashRealAttr Hash.HashRealEnum.
From AV Require Import Tree.NoPanic Tree.NoPanicProofsBase Tree.NoPanicProofsCopy2 Tree.NoPanicFloat Tree.NoPanicProofsHist Tree.NoPanicReal
  Tree.NoPanicProofsHistReal Tree.NoPanicProofsHistEx Tree.NoPanicProofsOp2 Tree.NoPanicProofsOp2Hist Tree.NoPanicProofsOp2HistEx Tree.NoPanicProofsDup Tree.NoPanicProofsDupHist
  Tree.NoPanicProofsOp3Hist Tree.NoPanicProofsOp3HistEx Tree.NoPanicProofsOp4Hist.
Open Scope list_scope.
Open Scope N_scope.

Lemma loader_hyps_real check_fn : (forall fn s, exists b, check_fn fn s = Val b) ->
  ParserProofs.loader_hyps RT tab_element tab_attr tab_enum check_fn.
Proof.
  intros CH. destruct ParserExamples.real_loader_hyps as (A & B & C & D0 & E & _).
  split; [exact A|]. split; [exact B|]. split; [exact C|]. split; [exact D0|]. split; [exact E|]. intros fn maxlen i s _ _. apply CH.
Qed.

Section Real.
Variable check_fn : N -> list N -> res bool.
Variable float_parse : list N -> option N.
Variable fmt : N -> list N.
Variable LATEST name_index name_definition_ref attr_schema_location : N.
Variable root_attrs : list (N * cdata).
Hypothesis CHECK : forall fn s, exists b, check_fn fn s = Val b.
Hypothesis RootOK : forall a, In a root_attrs -> to_str tab_attr (fst a) <> None /\ cdata_named tab_enum (snd a).

Notation run_ops2F' := (run_ops2F RT tab_element tab_attr tab_enum check_fn float_parse fmt LATEST name_index name_definition_ref
                                  attr_schema_location root_attrs).
Notation wf_ops4' := (wf_ops4 RT tab_element tab_attr tab_enum check_fn float_parse fmt LATEST name_index name_definition_ref
                              attr_schema_location root_attrs).

Theorem no_panic4_histories_real l : wf_ops4' l empty_world -> exists w', run_ops2F' l empty_world = Val w'.
Proof.
  intros WF.
  destruct (no_panic4_hist RT tab_element tab_attr tab_enum check_fn float_parse fmt LATEST name_index name_definition_ref
              attr_schema_location root_attrs tables_ok12_real CHECK en_ok_real short_ok_real NamesOK_real EnumsOK_real AttrsOK_real
              RootOK (tkr_real check_fn) root_plain_real MaskOK_real l empty_world (D_empty _ _ _ _) WF) as (w' & E & _).
  eauto.
Qed.

(* load_buffer of any byte string into an existing model: rejected without a panic, or handed to load_parsed *)
Theorem load_front_total_real w m buffer filename strict :
  bytes_ok buffer = true -> m < N.of_nat (List.length (w_models w)) ->
  load_rejected RT tab_element tab_attr tab_enum check_fn float_parse w m buffer filename strict \/
  exists x root st, nth_opt (w_models w) (N.to_nat m) = Some x /\ name_taken_in w x filename = false /\
    Parser.load strict RT tab_element tab_attr tab_enum check_fn float_parse buffer = Val (Parser.Ret root st) /\
    m_load_buffer RT tab_element tab_attr tab_enum check_fn float_parse LATEST name_definition_ref m buffer filename strict w =
      (do f <- load_parsed RT LATEST name_definition_ref m filename root st; wret (f, rev (Parser.p_warnings st)))%W w.
Proof.
  exact (load_front_total RT tab_element tab_attr tab_enum check_fn float_parse LATEST name_definition_ref w m buffer filename strict
           (loader_hyps_real check_fn CHECK)).
Qed.

End Real.

(* non-vacuity: a history with a load of a broken document and a load under a taken file name *)
Definition ex4_hist : list op2 :=
  [ Op1 OpNewModel; Op1 (OpCreateFile 0 [102] 1048576);
    OpLoad 0 [60; 65; 62] [103] false;            (* "<A>" as g : the parser raises *)
    OpLoad 0 [60; 65; 62] [102] true;             (* file name f is taken *)
    Op1 (OpCreateSub 0 5413);
    OpSortModel 0 ].

Notation wf4_ex := (wf_ops4 RT tab_element tab_attr tab_enum nv_check (fun _ => None) ex_fmt 1048576 3516 6311 78 []).
Notation run4_ex := (run_ops2F RT tab_element tab_attr tab_enum nv_check (fun _ => None) ex_fmt 1048576 3516 6311 78 []).

Ltac wf4_load :=
  cbn [op4_wfh]; split; [vm_compute; reflexivity|];
  eexists; split; [vm_compute; reflexivity|];
  first [ left; vm_compute; reflexivity | right; eexists; eexists; vm_compute; reflexivity ].
Ltac wf4_step :=
  cbn [wf_ops4]; split; [lazymatch goal with |- op4_wfh _ _ _ _ _ _ _ _ _ (OpLoad _ _ _ _) => wf4_load | _ => cbn [op4_wfh op3_wfh]; wfh_solve end|];
  let x := fresh "x" in let w' := fresh "w" in let E := fresh "E" in
  intros x w' E; vm_compute in E; injection E as _ <-.

Example ex4_wf : wf4_ex ex4_hist empty_world.
Proof. unfold ex4_hist. do 6 wf4_step. exact I. Qed.

Example ex4_runs : exists w', run4_ex ex4_hist empty_world = Val w' /\ List.length (w_files w') = 1%nat /\ w_next w' = 2.
Proof.
  destruct (no_panic4_histories_real nv_check (fun _ => None) ex_fmt 1048576 3516 6311 78 [] (fun fn s => ex_intro _ true eq_refl)
              (fun a (F : In a []) => match F with end) ex4_hist ex4_wf) as (w' & E).
  exists w'. split; [exact E|]. vm_compute in E. injection E as <-. vm_compute. split; reflexivity.
Qed.
