(* Tree/InvProofsOrigins.v — C03: the reference-origin index only ever records reference-typed elements.
     osub w w' : every element recorded in w' was recorded in w          (compositional, `osp`)
     OriginsRef T w : every recorded element is an allocated node whose type is a reference type. *)
From Coq Require Import PeanoNat Arith.
From AV Require Import Base.Bytes Base.Outcome Hash.HashModel Tree.Heap Tree.Ops Tree.Script Tree.Inv
  Tree.InvProofsBase Tree.InvProofsCore Tree.InvProofsTree Tree.InvProofsPrim Tree.InvProofsCreate
  Tree.InvProofsData Tree.InvProofsRefs Tree.InvProofsRemove Tree.InvProofsFiles Tree.InvProofsMove
  Tree.InvProofsCopy Tree.InvProofsRename.
Open Scope string_scope.
Open Scope list_scope.
Open Scope N_scope.

Definition osub (w w' : world) : Prop := forall re, in_origins w' re -> in_origins w re.
Lemma osub_refl w : osub w w. Proof. intros re H; exact H. Qed.
Lemma osub_trans a b c : osub a b -> osub b c -> osub a c.
Proof. intros H1 H2 re H. auto. Qed.
Lemma osub_models w w' : w_models w' = w_models w -> osub w w'.
Proof. intros E re (x & k & l & Hx & Hk & Hr). exists x, k, l. rewrite <- E. auto. Qed.

Definition osp {A} (m : W A) : Prop := forall w r w', m w = Val (r, w') -> osub w w'.
Lemma osp_ro {A} (m : W A) : ro m -> osp m.
Proof. intros H w r w' E. apply H in E. subst. apply osub_refl. Qed.
Lemma osp_bind {A B} (m : W A) (k : A -> W B) : osp m -> (forall a, osp (k a)) -> osp (wbind m k).
Proof.
  intros Hm Hk w r w' H. apply wbind_inv in H as [(a & w1 & H1 & H2) | (e & H1 & _)].
  - eapply osub_trans; [eapply Hm | eapply Hk]; eauto.
  - eapply Hm; eauto.
Qed.
Lemma osp_try {A} (m : W A) : osp m -> osp (wtry m).
Proof. intros Hm w r w' H. apply wtry_inv in H as (r0 & H & _). eapply Hm; eauto. Qed.
Lemma osp_set_node i n : osp (set_node i n).
Proof. intros w r w' H. apply set_node_wset in H as (_ & ->). apply osub_models. reflexivity. Qed.
Lemma osp_modify_node i f : osp (modify_node i f).
Proof. intros w r w' H. apply modify_node_wset in H as (n & _ & _ & ->). apply osub_models. reflexivity. Qed.
Lemma osp_alloc n : osp (alloc n).
Proof. intros w r w' H. apply alloc_walloc in H as (_ & ->). apply osub_models. reflexivity. Qed.
Lemma osp_set_file f x : osp (set_file f x).
Proof. intros w r w'. unfold set_file. intros [= <- <-]. apply osub_models. reflexivity. Qed.

(* a model update whose origin lists only contain members of the old lists *)
Lemma osp_modify_model m f :
  (forall x k l re, In (k, l) (m_origins (f x)) -> In re l -> exists k' l', In (k', l') (m_origins x) /\ In re l') ->
  osp (modify_model m f).
Proof.
  intros Hf w r w' H. apply modify_model_inv in H as (x & Hx & _ & ->).
  intros re (z & k & l & Hz & Hk & Hre). cbn in Hz. apply in_list_set in Hz as [->|Hz].
  - destruct (Hf _ _ _ _ Hk Hre) as (k' & l' & Hk' & Hre'). exists x, k', l'. split; auto. eapply nth_opt_In; eauto.
  - exists z, k, l. auto.
Qed.

Lemma in_removelast {A} (l : list A) x : In x (removelast l) -> In x l.
Proof.
  induction l as [|y l IH]; cbn; auto. destruct l as [|z l]; [intros []|]. intros [->|H]; auto.
Qed.
Lemma in_swap_remove {A} (l : list A) k x : In x (swap_remove_at l k) -> In x l.
Proof.
  unfold swap_remove_at. destruct (rev l) as [|lst r] eqn:E; [intros []|].
  assert (Hlst : In lst l) by (apply in_rev; rewrite E; left; auto).
  destruct (Nat.eqb (S k) (List.length l)); intros H; apply in_removelast in H; auto.
  apply in_list_set in H as [->|H]; auto.
Qed.
Lemma in_remove_first e l x : In x (remove_first e l) -> In x l.
Proof. unfold remove_first. destruct (index_of (N.eqb e) l); auto. apply in_swap_remove. Qed.

Ltac os_mm :=
  apply osp_modify_model; intros ? ? ? ? Hk Hre; cbn in Hk; eauto.

Create HintDb osp discriminated.
Ltac os_step :=
  first
  [ apply osp_ro; solve [ro_tac]
  | assumption
  | solve [auto with osp]
  | apply osp_set_node | apply osp_modify_node | apply osp_alloc | apply osp_set_file
  | match goal with
    | |- osp (wtry _) => apply osp_try
    | |- osp (wbind _ _) => apply osp_bind; [ | intros ? ]
    | |- osp (match ?x with _ => _ end) => destruct x
    | |- osp (if ?b then _ else _) => destruct b
    end
  | progress cbv zeta ].
Ltac os_tac := repeat os_step.

Section OS.
Variable T : tables.
Variable tab_el tab_en : nametab.
Variable check_fn : N -> list N -> res bool.
Variable LATEST : N.

Lemma osp_add_identifiable m p e : osp (add_identifiable m p e).
Proof. unfold add_identifiable. os_mm. Qed.
Lemma osp_remove_identifiable m p : osp (remove_identifiable m p).
Proof. unfold remove_identifiable. os_mm. Qed.
Lemma osp_fix_identifiables m a b : osp (fix_identifiables m a b).
Proof. unfold fix_identifiables. os_mm. Qed.
Lemma osp_remove_reference_origin m r e : osp (remove_reference_origin m r e).
Proof.
  unfold remove_reference_origin. os_mm.
  destruct (assoc_get r (m_origins x)) as [l0|] eqn:Hg; [|eauto].
  destruct (is_empty (remove_first e l0)).
  - apply assoc_remove_in in Hk. eauto.
  - apply assoc_insert_in in Hk as [Hk| ->]; [eauto|].
    apply in_remove_first in Hre. apply assoc_get_in in Hg as (k' & Hk'). eauto.
Qed.

Hint Resolve osp_add_identifiable osp_remove_identifiable osp_fix_identifiables osp_remove_reference_origin : osp.

Lemma osp_kloop step l : (forall c, osp (step c)) -> osp (kloop step l).
Proof. intros Hs. induction l as [|[c|d] l IH]; cbn [kloop]; os_tac. Qed.

Lemma osp_content_insert self pos it : osp (content_insert self pos it).
Proof. unfold content_insert. os_tac. Qed.
Hint Resolve osp_content_insert : osp.
Lemma osp_raw_set_cdata i v version : osp (raw_set_character_data T check_fn i v version).
Proof. unfold raw_set_character_data. os_tac. Qed.
Lemma osp_raw_set_attribute h attr v version : osp (raw_set_attribute T check_fn h attr v version).
Proof. unfold raw_set_attribute. os_tac. Qed.
Lemma osp_detach_from p c : osp (detach_from p c).
Proof. unfold detach_from. os_tac. Qed.
Lemma osp_move_position self mv pos e : osp (move_element_position self mv pos e).
Proof. unfold move_element_position. os_tac. Qed.
Lemma osp_make_unique i m pp : osp (make_unique_item_name T i m pp).
Proof. unfold make_unique_item_name. os_tac. Qed.
Hint Resolve osp_raw_set_cdata osp_raw_set_attribute osp_detach_from osp_move_position osp_make_unique : osp.

Lemma osp_create_inner self name pos version : osp (create_sub_element_inner T self name pos version).
Proof. unfold create_sub_element_inner. os_tac. Qed.
Hint Resolve osp_create_inner : osp.
Lemma osp_raw_create_sub self name version : osp (raw_create_sub_element T self name version).
Proof. unfold raw_create_sub_element. os_tac. Qed.
Lemma osp_raw_create_sub_at self name pos version : osp (raw_create_sub_element_at T self name pos version).
Proof. unfold raw_create_sub_element_at. os_tac. Qed.
Hint Resolve osp_raw_create_sub osp_raw_create_sub_at : osp.
Lemma osp_create_named_inner self name item pos m version :
  osp (create_named_sub_element_inner T check_fn self name item pos m version).
Proof. unfold create_named_sub_element_inner. os_tac. Qed.
Hint Resolve osp_create_named_inner : osp.
Lemma osp_raw_create_named self name item m version : osp (raw_create_named_sub_element T check_fn self name item m version).
Proof. unfold raw_create_named_sub_element. os_tac. Qed.
Lemma osp_raw_create_named_at self name item pos m version :
  osp (raw_create_named_sub_element_at T check_fn self name item pos m version).
Proof. unfold raw_create_named_sub_element_at. os_tac. Qed.
Hint Resolve osp_raw_create_named osp_raw_create_named_at : osp.
Lemma osp_e_create_sub h name : osp (e_create_sub_element T LATEST h name).
Proof. unfold e_create_sub_element. os_tac. Qed.
Lemma osp_e_create_sub_at h name pos : osp (e_create_sub_element_at T LATEST h name pos).
Proof. unfold e_create_sub_element_at. os_tac. Qed.
Lemma osp_e_create_named h name item : osp (e_create_named_sub_element T check_fn LATEST h name item).
Proof. unfold e_create_named_sub_element. os_tac. Qed.
Lemma osp_e_create_named_at h name item pos : osp (e_create_named_sub_element_at T check_fn LATEST h name item pos).
Proof. unfold e_create_named_sub_element_at. os_tac. Qed.
Lemma osp_e_get_or_create h name : osp (e_get_or_create_sub_element T LATEST h name).
Proof. unfold e_get_or_create_sub_element. os_tac. Qed.
Lemma osp_e_get_or_create_named h name item : osp (e_get_or_create_named_sub_element T check_fn LATEST h name item).
Proof. unfold e_get_or_create_named_sub_element. os_tac. Qed.

Lemma osp_set_comment h c : osp (e_set_comment h c).
Proof. unfold e_set_comment. os_tac. Qed.
Lemma osp_set_attribute h attr v : osp (e_set_attribute T check_fn LATEST h attr v).
Proof. unfold e_set_attribute. os_tac. Qed.
Lemma osp_remove_attribute h attr : osp (e_remove_attribute T h attr).
Proof. unfold e_remove_attribute. os_tac. Qed.
Lemma osp_insert_citem h text pos : osp (e_insert_character_content_item T h text pos).
Proof. unfold e_insert_character_content_item. os_tac. Qed.
Lemma osp_remove_citem h pos : osp (e_remove_character_content_item T h pos).
Proof. unfold e_remove_character_content_item. os_tac. Qed.
Lemma osp_remove_character_data h : osp (e_remove_character_data T h).
Proof. unfold e_remove_character_data. os_tac. Qed.

Lemma osp_remove_internal f : forall i m path, osp (remove_internal T f i m path).
Proof.
  induction f as [|f IH]; intros i m path; [intros w r w' H; discriminate|].
  rewrite remove_internal_unfold. os_tac. apply osp_kloop. intros c. apply IH.
Qed.
Hint Resolve osp_remove_internal : osp.
Lemma osp_raw_remove self sub m : osp (raw_remove_sub_element T self sub m).
Proof. unfold raw_remove_sub_element. os_tac. Qed.
Hint Resolve osp_raw_remove : osp.
Lemma osp_e_remove h sub : osp (e_remove_sub_element T h sub).
Proof. unfold e_remove_sub_element. os_tac. Qed.
Hint Resolve osp_e_remove : osp.
Lemma osp_e_remove_kind h name : osp (e_remove_sub_element_kind T h name).
Proof. unfold e_remove_sub_element_kind. os_tac. Qed.

Lemma osp_add_to_file_restricted fuel : forall e f, osp (add_to_file_restricted T fuel e f).
Proof.
  induction fuel as [|fl IH]; intros e f; cbn [add_to_file_restricted]; [intros w r w' H; discriminate|].
  apply osp_bind; [os_tac|]. intros fm.
  destruct (match fm with Some x => x | None => (true, []) end) as [local cur].
  destruct (set_mem f cur); [os_tac|].
  apply osp_bind; [os_tac|]. intros n. apply osp_bind; [os_tac|]. intros sp.
  apply osp_bind.
  { destruct (negb (sp =? 0)); [|os_tac]. induction (n_content n) as [|[c|d] l IHl]; os_tac. }
  intros _. os_tac; try apply IH.
Qed.
Hint Resolve osp_add_to_file_restricted : osp.
Lemma osp_e_add_to_file e f : osp (e_add_to_file T e f).
Proof. unfold e_add_to_file. os_tac. Qed.
Lemma osp_set_file_membership e fm : osp (set_file_membership T e fm).
Proof. unfold set_file_membership. os_tac. Qed.
Hint Resolve osp_set_file_membership : osp.

Lemma osub_m_create_file m name version w r w' : m_create_file T m name version w = Val (r, w') -> osub w w'.
Proof.
  intros H. unfold m_create_file in H. wrun_ro H ltac:(apply osub_refl).
  wstepn H u Ep. apply wput_inv in Ep as (_ & ->).
  match type of H with ?mm ?wa = _ =>
    refine (osub_trans _ wa _ _ ((_ : osp mm) wa _ _ H)); [apply osub_models; reflexivity|] end.
  apply osp_bind; [os_mm|]. intros _. os_tac.
Qed.

Lemma osp_scan_loop f ids : osp (scan_loop f ids).
Proof. induction ids as [|s rest IH]; cbn [scan_loop]; os_tac. Qed.

Lemma osp_e_remove_from_file e f : osp (e_remove_from_file T e f).
Proof.
  unfold e_remove_from_file.
  apply osp_bind; [os_tac|]. intros n. apply osp_bind; [os_tac|]. intros ps.
  destruct (negb ps); [os_tac|].
  apply osp_bind; [os_tac|]. intros fm. apply osp_bind; [os_tac|]. intros m.
  destruct (negb (fm =? m)); [os_tac|].
  apply osp_bind; [os_tac|]. intros [loc cur].
  apply osp_bind; [os_tac|]. intros _. apply osp_bind; [os_tac|]. intros _.
  apply osp_bind; [os_tac|]. intros w0. apply osp_bind; [os_tac|]. intros ids.
  apply osp_bind; [apply (osp_scan_loop f ids)|].
  intros to_delete. induction to_delete as [|d rest IHd]; os_tac.
Qed.
Hint Resolve osp_e_remove_from_file : osp.

Lemma osub_m_remove_file m f w r w' : m_remove_file T m f w = Val (r, w') -> osub w w'.
Proof.
  intros H. unfold m_remove_file in H. wrun_ro H ltac:(apply osub_refl).
  wstepn H u Es. apply set_model_inv in Es as (_ & ->).
  match type of H with ?mm ?wa = _ => refine (osub_trans _ wa _ _ ((_ : osp mm) wa _ _ H)) end.
  - intros re (z & k & l & Hz & Hk & Hre). cbn in Hz. apply in_list_set in Hz as [->|Hz].
    + cbn in Hk. match goal with Hx : nth_opt (w_models w) _ = Some ?x0 |- _ => exists x0, k, l end.
      split; auto. eapply nth_opt_In; eauto.
    + exists z, k, l. auto.
  - destruct (is_empty _); [|os_tac].
    apply osp_bind; [os_tac|]. intros rn.
    apply osp_bind; [induction (n_content rn) as [|[c|d] l IHl]; os_tac|]. intros _.
    apply osp_bind; [os_tac|]. intros _. os_mm. cbn in Hk. destruct Hk.
Qed.

Lemma osub_new_model root_attrs w r w' : new_model T root_attrs w = Val (r, w') -> osub w w'.
Proof.
  intros H. unfold new_model in H.
  destruct (et_new T (autosar_element T)) as [ty|s|]; destruct (elem T (autosar_element T)) as [ed|s'|];
    try discriminate.
  injection H as <- <-. intros re (z & k & l & Hz & Hk & Hre). cbn in Hz. apply in_app_or in Hz as [Hz|[<-|[]]].
  - exists z, k, l. auto.
  - cbn in Hk. destruct Hk.
Qed.

End OS.
