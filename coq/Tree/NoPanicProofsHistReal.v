(* Tree/NoPanicProofsHistReal.v — C12 (panic / loop half) on the regenerated tables RT with the real string tables:
   every table hypothesis of Tree/NoPanicProofsHist.v is discharged ([F]: tables_ok12, nametab_ok of the EnumItem table,
   ShortName is an element name — Tree/NoPanicReal.v; NamesOK / EnumsOK / AttrsOK — agent-c14's Tree/SortProofsReal.v;
   the root type is plain — evaluated here; reference types accept strings only — the third clause of
   agent-c04's real_tables_ok, which holds for ANY validator function, repeated here).
   What is left: the validators return (CHECK, C19's subject), the parameter root_attrs of AutosarModel::new is
   well-formed, and the client side of the history (wf_ops). *)
From Coq Require Import Lia.
From AV Require Import Base.Bytes Base.Outcome Hash.HashModel Spec.SpecOps Spec.SpecReal Xml.TablesOk
  Tree.Heap Tree.Ops Tree.Script Tree.Inv Tree.SortProofsHeap Tree.SortProofsReadyV Tree.SortProofsReal Tree.IndexProofsNodeInv.
From AV Require Import Hash.HashRealElement Hash.HashRealAttr Hash.HashRealEnum.
From AV Require Import Tree.NoPanic Tree.NoPanicProofsBase Tree.NoPanicProofsCopy2 Tree.NoPanicProofsMoveX Tree.NoPanicFloat
  Tree.NoPanicProofsHist Tree.NoPanicReal.
Open Scope list_scope.
Open Scope N_scope.

(* [F] a value accepted by the specification of a reference type is a string: the specification is a pattern *)
Lemma tkr_real (check_fn : N -> list N -> res bool) ty cs v ver :
  is_ref RT ty = Val true -> chardata_spec RT ty = Val (Some cs) -> check_value check_fn v cs ver = Val true ->
  exists s, v = DString s.
Proof.
  intros Hr Hcs Hck. unfold is_ref, chardata_spec, dt, unwrap in *.
  destruct (T_datatypes RT (snd ty)) as [d|]; cbn [bind] in *; [|discriminate].
  destruct (dt_cdata d =? 0); [discriminate|].
  destruct (dt_cdata d - 1 =? reference_type_idx RT) eqn:Er; [|discriminate]. apply N.eqb_eq in Er. rewrite Er in Hcs.
  vm_compute in Hcs. injection Hcs as <-. destruct v as [e|s|u|f]; cbn [check_value] in Hck; try discriminate. eauto.
Qed.

(* [F] the root type (AUTOSAR) is neither named nor a reference type (as agent-c04's root_plain_real, Tree/IndexProofsAll.v) *)
Lemma root_plain_real : forall ty, et_new RT (autosar_element RT) = Val ty -> plainty RT ty.
Proof. vm_compute. intros ty [= <-]. vm_compute. split; reflexivity. Qed.

Section Real.
Variable check_fn : N -> list N -> res bool.
Variable LATEST : N.
Variable root_attrs : list (N * cdata).
Variable fmt : N -> list N.                     (* ORACLE: f64::to_string *)
Hypothesis CHECK : forall fn s, exists b, check_fn fn s = Val b.
(* the parameter of AutosarModel::new: attribute names inside tab_attr, enum values inside tab_enum *)
Hypothesis RootOK : forall a, In a root_attrs -> to_str tab_attr (fst a) <> None /\ cdata_named tab_enum (snd a).

Notation H12r := (H12 RT tab_element tab_attr tab_enum).
Notation runF := (run_opF RT tab_element tab_enum check_fn LATEST root_attrs fmt).
Notation run_opsF' := (run_opsF RT tab_element tab_enum check_fn LATEST root_attrs fmt).
Notation wf_ops' := (wf_ops RT tab_element tab_enum check_fn LATEST root_attrs fmt).
Notation run_ops' := (Inv.run_ops RT tab_element tab_enum check_fn LATEST root_attrs).

Theorem no_panic_histories_real l : wf_ops' l empty_world -> exists w', run_opsF' l empty_world = Val w'.
Proof.
  intros WF.
  destruct (no_panic_hist RT tab_element tab_attr tab_enum check_fn LATEST root_attrs tables_ok12_real CHECK en_ok_real short_ok_real
              NamesOK_real EnumsOK_real AttrsOK_real RootOK (tkr_real check_fn) root_plain_real fmt l empty_world
              (H12_empty _ _ _ _) WF) as (w' & E & _).
  exists w'. exact E.
Qed.

(* one more step after any history: the form "no operation panics or runs out of fuel" *)
Theorem no_panic_after_history_real l w o :
  run_opsF' l empty_world = Val w -> wf_ops' l empty_world -> op_wf tab_element tab_enum w o -> SizeOk w ->
  (forall s, runF o w <> Pan s) /\ runF o w <> Fuel.
Proof.
  intros E WF WFo SZ.
  destruct (no_panic_hist RT tab_element tab_attr tab_enum check_fn LATEST root_attrs tables_ok12_real CHECK en_ok_real short_ok_real
              NamesOK_real EnumsOK_real AttrsOK_real RootOK (tkr_real check_fn) root_plain_real fmt l empty_world
              (H12_empty _ _ _ _) WF) as (w' & E' & I).
  rewrite E in E'. injection E' as <-.
  destruct (no_panic_H12 RT tab_element tab_attr tab_enum check_fn LATEST root_attrs tables_ok12_real CHECK en_ok_real short_ok_real
              fmt w o I SZ WFo) as (x & w1 & R).
  rewrite R. split; [intros s|]; discriminate.
Qed.

(* PanicFree (and the no-float fact about reference elements) in every world a history of Tree/Script.v's alphabet reaches *)
Theorem panicfree_reachable_real l w :
  run_ops' l empty_world = Val w -> PanicFree RT tab_element tab_enum w /\ RefNoFloat RT w.
Proof.
  intros E.
  pose proof (H12_reachable RT tab_element tab_attr tab_enum check_fn LATEST root_attrs tables_ok12_real
                NamesOK_real EnumsOK_real AttrsOK_real RootOK (tkr_real check_fn) root_plain_real l _ _ (H12_empty _ _ _ _) E) as I.
  split; [exact (H12_PanicFree _ _ _ _ _ I)|exact (H12_RefNoFloat _ _ _ _ _ I)].
Qed.

(* without Float arguments the oracle is not needed: the history runs in Tree/Script.v's own alphabet *)
Theorem no_panic_histories_nofloat_real l :
  Forall (fun o => covered_op o = true) l -> wf_ops' l empty_world -> exists w', run_ops' l empty_world = Val w'.
Proof.
  intros COV WF. destruct (no_panic_histories_real l WF) as (w' & E). exists w'.
  rewrite <- (run_opsF_covered RT tab_element tab_enum check_fn LATEST root_attrs fmt l COV). exact E.
Qed.

Theorem H12_reachableF_real l w : run_opsF' l empty_world = Val w -> H12r w.
Proof.
  intros E.
  exact (H12_reachableF RT tab_element tab_attr tab_enum check_fn LATEST root_attrs tables_ok12_real
           NamesOK_real EnumsOK_real AttrsOK_real RootOK (tkr_real check_fn) root_plain_real fmt l _ _ (H12_empty _ _ _ _) E).
Qed.

End Real.
