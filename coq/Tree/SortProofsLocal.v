(* Tree/SortProofsLocal.v — locality of Element::cmp and ElementRaw::sort (C14, heap level).
   twin_f u v f a b : the tree below a in world u and the tree below b in world v are the same down to depth f - same element
                      names, element types, attributes, values, sub-elements pairwise in turn; ids, comments, file membership
                      and parent links may differ.
   cmp_twin         : Element::cmp is a function of that structure (it reads nothing else).
   closed D w / agree D u v : a set D of ids closed under sub-elements; two worlds that coincide on D.
   cmp_agree        : Element::cmp of members of D is the same in both worlds.
   sort_outside     : ElementRaw::sort of a member of D changes no node outside D.
   sort_local       : ... and in two worlds that coincide on D it returns the same result and worlds that coincide on D. *)
From Coq Require Import Permutation Lia.
From AV Require Import Base.Bytes Base.Outcome Base.Radix Hash.HashModel Tree.Heap Tree.Ops Tree.Sort
  Tree.SortProofsOrder Tree.SortProofsCmp Tree.SortProofsHeap Tree.SortProofsMain.
Open Scope list_scope.
Open Scope N_scope.

Definition item_twin (R : id -> id -> Prop) (x y : citem) : Prop :=
  match x, y with
  | CElem a, CElem b => R a b
  | CData d, CData e => d = e
  | _, _ => False
  end.

Fixpoint twin_f (u v : world) (f : nat) (a b : id) : Prop :=
  match f with
  | O => True
  | S f' =>
    exists na nb, w_nodes u a = Some na /\ w_nodes v b = Some nb /\
      n_name na = n_name nb /\ n_type na = n_type nb /\ n_attrs na = n_attrs nb /\
      Forall2 (item_twin (twin_f u v f')) (n_content na) (n_content nb)
  end.

Lemma forall2_impl {A B} (R R' : A -> B -> Prop) l l' : (forall x y, In x l -> In y l' -> R x y -> R' x y) -> Forall2 R l l' -> Forall2 R' l l'.
Proof.
  intros H F. induction F; constructor.
  - apply H; auto; left; auto.
  - apply IHF. intros. apply H; auto; right; auto.
Qed.

Lemma item_twin_impl (R R' : id -> id -> Prop) x y : (forall a b, R a b -> R' a b) -> item_twin R x y -> item_twin R' x y.
Proof. destruct x, y; cbn; auto. Qed.

Lemma twin_mono u v f : forall a b, twin_f u v (S f) a b -> twin_f u v f a b.
Proof.
  induction f as [| f IH]; intros a b H; [exact I |].
  destruct H as (na & nb & Wa & Wb & e1 & e2 & e3 & F). exists na, nb. repeat split; auto.
  eapply forall2_impl; [| exact F]. intros x y _ _. apply item_twin_impl. apply IH.
Qed.

Lemma twin_sym u v f : forall a b, twin_f u v f a b -> twin_f v u f b a.
Proof.
  induction f as [| f IH]; intros a b H; [exact I |].
  destruct H as (na & nb & Wa & Wb & e1 & e2 & e3 & F). exists nb, na. repeat split; auto.
  clear - F IH. induction F; constructor; auto. destruct x, y; cbn in *; auto.
Qed.

Lemma twin_trans u v w f : forall a b c, twin_f u v f a b -> twin_f v w f b c -> twin_f u w f a c.
Proof.
  induction f as [| f IH]; intros a b c H1 H2; [exact I |].
  destruct H1 as (na & nb & Wa & Wb & e1 & e2 & e3 & F1). destruct H2 as (nb' & nc & Wb' & Wc & g1 & g2 & g3 & F2).
  rewrite Wb in Wb'. injection Wb' as <-.
  exists na, nc. repeat split; try congruence.
  clear - F1 F2 IH. revert F2. generalize (n_content nc). induction F1; intros l2 F2; inversion F2; subst; constructor; auto.
  destruct x, y, y0; cbn in *; try tauto; try congruence. eapply IH; eauto.
Qed.

(* the same tree inside one world, from the Equal of Element::cmp (same_f) and equal element types all the way down *)
Section Cmp.
Variable T : tables.
Variable tab_el tab_at tab_en : nametab.
Variable name_index name_definition_ref : N.
Variable pol : policy.

Notation cmp_f' := (cmp_f T tab_el tab_at tab_en name_index name_definition_ref pol).
Notation node_keys' := (node_keys T tab_el tab_en name_index name_definition_ref).

Lemma character_data_twin R n n' : n_type n = n_type n' -> Forall2 (item_twin R) (n_content n) (n_content n') ->
  character_data T n = character_data T n'.
Proof.
  unfold character_data. intros -> F. revert F. generalize (n_content n) (n_content n'). intros l l' F.
  destruct F as [| x y l l' h F']; auto.
  destruct x, y; cbn in h; try tauto; subst; destruct F'; auto.
Qed.

Lemma first_named_twin u v g name l : forall l', Forall2 (item_twin (twin_f u v (S g))) l l' ->
  (first_named_p u name l = Val None /\ first_named_p v name l' = Val None) \/
  (exists x x', first_named_p u name l = Val (Some x) /\ first_named_p v name l' = Val (Some x') /\ twin_f u v (S g) x x').
Proof.
  induction l as [| it l IH]; intros l' F; inversion F as [| x y l0 l0' h F' e1 e2]; subst; cbn; auto.
  destruct it as [c | d], y as [c' | d']; cbn in h; try tauto; [| apply IH; auto].
  pose proof h as (nc & nc' & Wc & Wc' & en & _). unfold nd. rewrite Wc, Wc'. cbn. rewrite <- en.
  destruct (n_name nc =? name); [right; eauto | apply IH; auto].
Qed.

Lemma sub_cdata_twin u v g n n' name : Forall2 (item_twin (twin_f u v (S g))) (n_content n) (n_content n') ->
  sub_cdata T u n name = sub_cdata T v n' name.
Proof.
  intros F. unfold sub_cdata.
  destruct (first_named_twin u v g name _ _ F) as [[-> ->] | (x & x' & -> & -> & h)]; auto. cbn.
  destruct h as (nx & nx' & Wx & Wx' & _ & et & _ & Fx). unfold nd. rewrite Wx, Wx'. cbn.
  eapply character_data_twin; eauto.
Qed.

Lemma node_keys_twin u v g n n' : n_name n = n_name n' -> n_type n = n_type n' -> n_attrs n = n_attrs n' ->
  Forall2 (item_twin (twin_f u v (S g))) (n_content n) (n_content n') -> node_keys' u n = node_keys' v n'.
Proof.
  intros en et ea F. unfold node_keys, index_key, defref_key, dest_key, attr_value.
  rewrite en, ea, (sub_cdata_twin u v g n n' name_index F), (sub_cdata_twin u v g n n' name_definition_ref F).
  assert (E : item_name_p T u n = item_name_p T v n').
  { unfold item_name_p. rewrite et. destruct (is_named T (n_type n')); auto. cbn. destruct (negb a); auto.
    inversion F as [| x y l l' h F' e1 e2]; auto.
    destruct x as [s | d], y as [s' | d']; cbn in h; try tauto; auto.
    destruct h as (ns & ns' & Ws & Ws' & ens & ets & _ & Fs). unfold nd. rewrite Ws, Ws'. cbn. rewrite ens.
    destruct (n_name ns' =? name_short_name T); auto.
    rewrite (character_data_twin _ ns ns' ets Fs). reflexivity. }
  rewrite E. reflexivity.
Qed.

Lemma slice_cmp_twin {A} (ec ec' : A -> A -> res comparison) (R : A -> A -> Prop) x : forall x' y y',
  Forall2 R x x' -> Forall2 R y y' ->
  (forall i i' j j', R i i' -> R j j' -> ec i j = ec' i' j') -> slice_cmp ec x y = slice_cmp ec' x' y'.
Proof.
  intros x' y y' Fx. revert y y'.
  induction Fx as [| i i' x x' hi Fx IH]; intros y y' Fy H; destruct Fy as [| j j' y y' hj Fy]; cbn; auto.
  rewrite (H i i' j j' hi hj). destruct (ec' i' j'); auto. cbn. destruct a; auto.
Qed.

(* Element::cmp reads the structure only *)
Lemma cmp_twin u v f : forall a a' b b', twin_f u v (S f) a a' -> twin_f u v (S f) b b' -> cmp_f' u f a b = cmp_f' v f a' b'.
Proof.
  induction f as [| f IH]; intros a a' b b' Ha Hb; [reflexivity |].
  destruct Ha as (na & na' & Wa & Wa' & ea1 & ea2 & ea3 & Fa). destruct Hb as (nb & nb' & Wb & Wb' & eb1 & eb2 & eb3 & Fb).
  cbn [cmp_f]. unfold nd. rewrite Wa, Wa', Wb, Wb'. cbn [unwrap bind].
  rewrite (node_keys_twin u v f na na' ea1 ea2 ea3 Fa), (node_keys_twin u v f nb nb' eb1 eb2 eb3 Fb).
  destruct (node_keys' v na'); auto. cbn [bind]. destruct (node_keys' v nb'); auto. cbn [bind].
  destruct (head_stages pol a0 a1); auto.
  rewrite (slice_cmp_twin (item_cmp tab_en pol (cmp_f' u f)) (item_cmp tab_en pol (cmp_f' v f))
             (item_twin (twin_f u v (S f))) _ _ _ _ Fa Fb).
  - rewrite ea3, eb3. reflexivity.
  - intros i i' j j' hi hj. destruct i, i', j, j'; cbn in *; try tauto; subst; auto.
Qed.
End Cmp.

(* ------------------------------------------------------------------ closed sets, coinciding worlds *)
Definition agree (D : id -> bool) (w w' : world) : Prop :=
  w_next w' = w_next w /\ forall j, D j = true -> w_nodes w' j = w_nodes w j.

(* D contains the sub-elements of its members, and they exist *)
Definition closed (D : id -> bool) (w : world) : Prop :=
  forall j n c, D j = true -> w_nodes w j = Some n -> In (CElem c) (n_content n) -> D c = true /\ exists cn, w_nodes w c = Some cn.

Lemma agree_refl D w : agree D w w.
Proof. split; auto. Qed.
Lemma agree_sym D u v : agree D u v -> agree D v u.
Proof. intros [e h]. split; auto. intros. symmetry. auto. Qed.
Lemma agree_trans D a b c : agree D a b -> agree D b c -> agree D a c.
Proof. intros [e1 h1] [e2 h2]. split; [congruence |]. intros j dj. rewrite h2, h1; auto. Qed.

Lemma closed_agree D u v : closed D u -> agree D u v -> closed D v.
Proof.
  intros C [_ A] j n c dj Wj ic. rewrite (A j dj) in Wj. destruct (C j n c dj Wj ic) as [dc [cn Wc]].
  split; auto. exists cn. rewrite (A c dc). exact Wc.
Qed.

Lemma twin_agree_refl D u v : closed D u -> agree D u v ->
  forall f a, D a = true -> (exists n, w_nodes u a = Some n) -> twin_f u v f a a.
Proof.
  intros C [_ A]. induction f as [| f IH]; intros a da [n Wa]; [exact I |].
  exists n, n. rewrite (A a da). repeat split; auto.
  assert (K : forall c, In (CElem c) (n_content n) -> twin_f u v f c c).
  { intros c ic. destruct (C a n c da Wa ic) as [dc ex]. apply IH; auto. }
  clear Wa. induction (n_content n) as [| it l IHl]; constructor.
  - destruct it; cbn; [apply K; left; reflexivity | reflexivity].
  - apply IHl. intros. apply K. right; auto.
Qed.

(* a twin relation survives changes outside the two trees *)
Lemma twin_transfer Da Db u v u' v' : closed Da u -> agree Da u u' -> closed Db v -> agree Db v v' ->
  forall f a b, Da a = true -> Db b = true -> twin_f u v f a b -> twin_f u' v' f a b.
Proof.
  intros Ca [_ Aa] Cb [_ Ab]. induction f as [| f IH]; intros a b da db H; [exact I |].
  destruct H as (na & nb & Wa & Wb & e1 & e2 & e3 & F). exists na, nb.
  rewrite (Aa a da), (Ab b db). repeat split; auto.
  assert (Ka : forall c, In (CElem c) (n_content na) -> Da c = true) by (intros c ic; apply (Ca a na c da Wa ic)).
  assert (Kb : forall c, In (CElem c) (n_content nb) -> Db c = true) by (intros c ic; apply (Cb b nb c db Wb ic)).
  clear Wa Wb e1 e2 e3. induction F as [| x y l l' h F IHF]; constructor.
  - destruct x as [x | x], y as [y | y]; cbn in h |- *; try tauto.
    apply IH; auto; [apply Ka | apply Kb]; left; reflexivity.
  - apply IHF; intros; [apply Ka | apply Kb]; right; auto.
Qed.

Section Local.
Variable T : tables.
Variable tab_el tab_at tab_en : nametab.
Variable name_index name_definition_ref : N.
Variable srt : forall A, (A -> A -> comparison) -> list A -> list A.
Hypothesis SS : StableSort srt.

Notation sort_f' := (sort_f T tab_el tab_at tab_en name_index name_definition_ref srt).
Notation cmp_p' := (cmp_p T tab_el tab_at tab_en name_index name_definition_ref policy_cur).
Notation cmp_tot := (cmp_total T tab_el tab_at tab_en name_index name_definition_ref).
Notation all_pairs' := (all_pairs_val T tab_el tab_at tab_en name_index name_definition_ref).
Notation row' := (row_val T tab_el tab_at tab_en name_index name_definition_ref).

Lemma cmp_agree D u v a b : closed D u -> agree D u v -> D a = true -> D b = true ->
  (exists n, w_nodes u a = Some n) -> (exists n, w_nodes u b = Some n) -> cmp_p' u a b = cmp_p' v a b.
Proof.
  intros C A da db ea eb. unfold cmp_p. destruct A as [en An]. rewrite en.
  apply cmp_twin; eapply twin_agree_refl; eauto; split; auto.
Qed.

Lemma cmp_tot_agree D u v a b : closed D u -> agree D u v -> D a = true -> D b = true ->
  (exists n, w_nodes u a = Some n) -> (exists n, w_nodes u b = Some n) -> cmp_tot u a b = cmp_tot v a b.
Proof. intros. unfold cmp_total. erewrite cmp_agree; eauto. Qed.

Lemma all_pairs_agree D u v xs ys : closed D u -> agree D u v ->
  (forall x, In x xs -> D x = true /\ exists n, w_nodes u x = Some n) ->
  (forall y, In y ys -> D y = true /\ exists n, w_nodes u y = Some n) ->
  all_pairs' u xs ys = all_pairs' v xs ys.
Proof.
  intros C A Hx Hy. induction xs as [| x xs IH]; cbn [all_pairs_val]; auto.
  assert (R : row' u x ys = row' v x ys).
  { destruct (Hx x (or_introl eq_refl)) as [dx ex]. clear IH.
    induction ys as [| y ys IHy]; cbn [row_val]; auto.
    destruct (Hy y (or_introl eq_refl)) as [dy ey].
    rewrite (cmp_agree D u v x y C A dx dy ex ey). rewrite IHy; auto. intros. apply Hy. right; auto. }
  rewrite R, IH; auto. intros. apply Hx. right; auto.
Qed.

(* a sort function satisfying StableSort only looks at the comparator on the members of the list *)
Lemma srt_ext_on {A} (c c' : A -> A -> comparison) l :
  TotalPreorderOn c (fun x => In x l) -> (forall x y, In x l -> In y l -> c x y = c' x y) -> srt A c l = srt A c' l.
Proof.
  intros H E.
  assert (H' : TotalPreorderOn c' (fun x => In x l)).
  { destruct H as [r s t]. split.
    - intros x ix. rewrite <- E; auto.
    - intros x y ix iy. rewrite <- !E; auto.
    - intros x y z ix iy iz. rewrite <- !E; auto. apply t; auto. }
  apply (sorted_stable_unique c (fun x => In x l) H).
  - apply Forall_forall. intros x. apply (ss_in srt SS).
  - apply Forall_forall. intros x. apply (ss_in srt SS).
  - eapply Permutation_trans; [apply Permutation_sym, (ss_perm srt SS) | apply (ss_perm srt SS)].
  - apply (ss_sorted srt SS); auto.
  - pose proof (ss_sorted srt SS c' l H') as S.
    assert (M : forall x, In x (srt A c' l) -> In x l) by (intros x; apply (ss_in srt SS)).
    revert S M. generalize (srt A c' l). induction l0 as [| h t IH]; cbn; auto. intros [m S] M. split.
    + intros y iy. rewrite E; [apply m; auto | apply M; left; auto | apply M; right; auto].
    + apply IH; auto.
  - intros x ix. rewrite (ss_stable srt SS c l x H ix).
    assert (F : forall l0, (forall y, In y l0 -> In y l) -> filter (eqv c x) l0 = filter (eqv c' x) l0).
    { intros l0 M. apply filter_ext_in. intros y iy. unfold eqv. rewrite E; auto. }
    rewrite (F (srt A c' l)); [| intros y; apply (ss_in srt SS)].
    rewrite (ss_stable srt SS c' l x H' ix). apply F. auto.
Qed.

Lemma closed_rel D w w' : world_rel T w w' -> closed D w -> closed D w'.
Proof.
  intros (_ & _ & _ & nodes) C j n' c dj Wj ic.
  pose proof (nodes j) as h. rewrite Wj in h. destruct (w_nodes w j) as [n |] eqn:W0; [| destruct h].
  assert (ic0 : In (CElem c) (n_content n)) by (eapply node_rel_in_elem; eauto).
  destruct (C j n c dj W0 ic0) as [dc [cn Wc]]. split; auto.
  pose proof (nodes c) as hc. rewrite Wc in hc. destruct (w_nodes w' c); [eauto | destruct hc].
Qed.

(* ------------------------------------------------------------------ nothing outside D changes *)
Definition outside_ok (D : id -> bool) (rec : id -> W unit) : Prop :=
  forall c w r w', closed D w -> D c = true -> rec c w = Val (r, w') -> forall j, D j = false -> w_nodes w' j = w_nodes w j.

Lemma keyed_loop_outside D rec ty l : frame_ok T rec -> outside_ok D rec ->
  forall w r w', closed D w -> (forall c, In (CElem c) l -> D c = true) -> keyed_loop T rec ty l w = Val (r, w') ->
    forall j, D j = false -> w_nodes w' j = w_nodes w j.
Proof.
  intros F O. induction l as [| it l IH]; intros w r w' C K H j dj.
  - cbn in H. injection H as _ <-. reflexivity.
  - destruct it as [c | d]; cbn [keyed_loop] in H; [| eapply IH; eauto; intros; apply K; right; auto].
    apply wbind_val in H as [(u & w1 & E1 & H) | (e & E1 & _)]; [| apply F in E1 as [E1 _]; discriminate].
    pose proof (F _ _ _ _ E1) as [_ R1].
    apply wbind_val in H as [(cn & w2 & E2 & H) | (e & E2 & _)];
      [| apply get_node_val in E2 as (? & _ & E2 & _); discriminate].
    apply get_node_val in E2 as (cn' & Wc & E2 & ->). injection E2 as <-.
    apply wbind_val in H as [(fs & w3 & E3 & H) | (e & E3 & _)];
      [| apply wl_val in E3 as (? & _ & E3 & _); discriminate].
    apply wl_val in E3 as (fs' & Hfs & E3 & ->). injection E3 as <-.
    destruct fs as [[et idx] |]; [| discriminate].
    apply wbind_val in H as [(more & w4 & E4 & H) | (e & E4 & ->)].
    + cbn in H. injection H as _ <-.
      rewrite (IH w1 _ w4 (closed_rel D _ _ R1 C) (fun c' ic' => K c' (or_intror ic')) E4 j dj).
      eapply O; eauto. apply K. left; auto.
    + rewrite (IH w1 _ w' (closed_rel D _ _ R1 C) (fun c' ic' => K c' (or_intror ic')) E4 j dj).
      eapply O; eauto. apply K. left; auto.
Qed.

Lemma iter_loop_outside D rec l : frame_ok T rec -> outside_ok D rec ->
  forall w r w', closed D w -> (forall c, In (CElem c) l -> D c = true) -> iter_loop rec l w = Val (r, w') ->
    forall j, D j = false -> w_nodes w' j = w_nodes w j.
Proof.
  intros F O. induction l as [| it l IH]; intros w r w' C K H j dj.
  - cbn in H. injection H as _ <-. reflexivity.
  - destruct it as [c | d]; cbn [iter_loop] in H; [| eapply IH; eauto; intros; apply K; right; auto].
    apply wbind_val in H as [(u & w1 & E1 & H) | (e & E1 & _)]; [| apply F in E1 as [E1 _]; discriminate].
    pose proof (F _ _ _ _ E1) as [_ R1].
    rewrite (IH w1 _ w' (closed_rel D _ _ R1 C) (fun c' ic' => K c' (or_intror ic')) H j dj).
    eapply O; eauto. apply K. left; auto.
Qed.

Lemma sort_outside D f : outside_ok D (sort_f' f).
Proof.
  pose proof (sort_frame T tab_el tab_at tab_en name_index name_definition_ref srt (srt_perm srt SS)) as FR.
  induction f as [| f IH]; intros i w r w' C di H j dj; [discriminate |].
  cbn [sort_f] in H.
  apply wbind_val in H as [(n & w1 & E1 & H) | (e & E1 & _)];
    [| apply get_node_val in E1 as (? & _ & E1 & _); discriminate].
  apply get_node_val in E1 as (n' & Wi & E1 & ->). injection E1 as <-.
  apply wbind_val in H as [(mode & w2 & E2 & H) | (e & E2 & _)];
    [| apply wl_val in E2 as (? & _ & E2 & _); discriminate].
  apply wl_val in E2 as (mode' & Hmode & E2 & ->). injection E2 as <-.
  destruct ((mode =? MCharacters) || (mode =? MMixed)).
  { cbn in H. injection H as _ <-. reflexivity. }
  apply wbind_val in H as [(ordered & w3 & E3 & H) | (e & E3 & _)];
    [| apply wl_val in E3 as (? & _ & E3 & _); discriminate].
  apply wl_val in E3 as (ordered' & Hord & E3 & ->). injection E3 as <-.
  assert (K : forall c, In (CElem c) (n_content n) -> D c = true) by (intros c ic; apply (C i n c di Wi ic)).
  destruct (negb ordered && (1 <? N.of_nat (List.length (n_content n)))).
  - apply wbind_val in H as [(keyed & w4 & E4 & H) | (e & E4 & _)];
      [| eapply keyed_loop_frame in E4 as (_ & ? & E4 & _); [discriminate | exact (FR f)]].
    pose proof (keyed_loop_outside D _ _ _ (FR f) IH _ _ _ C K E4 j dj) as O4.
    apply wbind_val in H as [(wc & w5 & E5 & H) | (e & E5 & _)]; [| discriminate].
    unfold wget in E5. injection E5 as <- <-.
    apply wbind_val in H as [(u & w6 & E6 & H) | (e & E6 & _)];
      [| apply wl_val in E6 as (? & _ & E6 & _); discriminate].
    apply wl_val in E6 as (u' & _ & _ & ->).
    unfold modify_node in H.
    apply wbind_val in H as [(n1 & w7 & E7 & H) | (e & E7 & _)];
      [| apply get_node_val in E7 as (? & _ & E7 & _); discriminate].
    apply get_node_val in E7 as (n1' & W1 & E7 & ->). injection E7 as <-.
    unfold set_node in H. injection H as _ <-. cbn. unfold upd.
    destruct (j =? i) eqn:Ej; [apply N.eqb_eq in Ej; congruence | exact O4].
  - eapply iter_loop_outside; eauto.
Qed.

(* ------------------------------------------------------------------ the same result in worlds that coincide on D *)
Definition local_ok (D : id -> bool) (rec : id -> W unit) : Prop :=
  forall c u v r u1, closed D u -> agree D u v -> D c = true -> rec c u = Val (r, u1) ->
    exists v1, rec c v = Val (r, v1) /\ agree D u1 v1.

Lemma keyed_loop_local D rec ty l : frame_ok T rec -> local_ok D rec ->
  forall u v r u1, closed D u -> agree D u v -> (forall c, In (CElem c) l -> D c = true) ->
    keyed_loop T rec ty l u = Val (r, u1) -> exists v1, keyed_loop T rec ty l v = Val (r, v1) /\ agree D u1 v1.
Proof.
  intros F L. induction l as [| it l IH]; intros u v r u1 C A K H.
  - cbn in H. injection H as <- <-. exists v. split; auto.
  - destruct it as [c | d]; cbn [keyed_loop] in H |- *; [| eapply IH; eauto; intros; apply K; right; auto].
    apply wbind_val in H as [(x & w1 & E1 & H) | (e & E1 & _)]; [| apply F in E1 as [E1 _]; discriminate].
    pose proof (F _ _ _ _ E1) as [_ R1].
    destruct (L c u v _ w1 C A (K c (or_introl eq_refl)) E1) as (v1 & E1' & A1).
    pose proof (closed_rel D _ _ R1 C) as C1.
    apply wbind_val in H as [(cn & w2 & E2 & H) | (e & E2 & _)];
      [| apply get_node_val in E2 as (? & _ & E2 & _); discriminate].
    apply get_node_val in E2 as (cn' & Wc & E2 & ->). injection E2 as <-.
    apply wbind_val in H as [(fs & w3 & E3 & H) | (e & E3 & _)];
      [| apply wl_val in E3 as (? & _ & E3 & _); discriminate].
    apply wl_val in E3 as (fs' & Hfs & E3 & ->). injection E3 as <-.
    unfold wbind at 1. rewrite E1'. unfold wbind at 1, get_node.
    rewrite (proj2 A1 c (K c (or_introl eq_refl))), Wc.
    unfold wbind at 1, wl, wlift. rewrite Hfs.
    destruct fs as [[et idx] |]; [| discriminate].
    apply wbind_val in H as [(more & w4 & E4 & H) | (e & E4 & ->)].
    + destruct (IH w1 v1 _ w4 C1 A1 (fun c' ic' => K c' (or_intror ic')) E4) as (v4 & E4' & A4).
      cbn in H. injection H as <- <-. exists v4. unfold wbind. rewrite E4'. split; auto.
    + destruct (IH w1 v1 _ u1 C1 A1 (fun c' ic' => K c' (or_intror ic')) E4) as (v4 & E4' & A4).
      exists v4. unfold wbind. rewrite E4'. split; auto.
Qed.

Lemma iter_loop_local D rec l : frame_ok T rec -> local_ok D rec ->
  forall u v r u1, closed D u -> agree D u v -> (forall c, In (CElem c) l -> D c = true) ->
    iter_loop rec l u = Val (r, u1) -> exists v1, iter_loop rec l v = Val (r, v1) /\ agree D u1 v1.
Proof.
  intros F L. induction l as [| it l IH]; intros u v r u1 C A K H.
  - cbn in H. injection H as <- <-. exists v. split; auto.
  - destruct it as [c | d]; cbn [iter_loop] in H |- *; [| eapply IH; eauto; intros; apply K; right; auto].
    apply wbind_val in H as [(x & w1 & E1 & H) | (e & E1 & _)]; [| apply F in E1 as [E1 _]; discriminate].
    pose proof (F _ _ _ _ E1) as [_ R1].
    destruct (L c u v _ w1 C A (K c (or_introl eq_refl)) E1) as (v1 & E1' & A1).
    destruct (IH w1 v1 _ u1 (closed_rel D _ _ R1 C) A1 (fun c' ic' => K c' (or_intror ic')) H) as (v2 & E2 & A2).
    exists v2. unfold wbind. rewrite E1'. split; auto.
Qed.

Lemma sort_local D f : local_ok D (sort_f' f).
Proof.
  pose proof (sort_frame T tab_el tab_at tab_en name_index name_definition_ref srt (srt_perm srt SS)) as FR.
  induction f as [| f IH]; intros i u v r u1 C A di H; [discriminate |].
  cbn [sort_f] in H |- *.
  apply wbind_val in H as [(n & w1 & E1 & H) | (e & E1 & _)];
    [| apply get_node_val in E1 as (? & _ & E1 & _); discriminate].
  apply get_node_val in E1 as (n' & Wi & E1 & ->). injection E1 as <-.
  unfold wbind at 1, get_node. rewrite (proj2 A i di), Wi.
  apply wbind_val in H as [(mode & w2 & E2 & H) | (e & E2 & _)];
    [| apply wl_val in E2 as (? & _ & E2 & _); discriminate].
  apply wl_val in E2 as (mode' & Hmode & E2 & ->). injection E2 as <-.
  unfold wbind at 1, wl, wlift. rewrite Hmode.
  destruct ((mode =? MCharacters) || (mode =? MMixed)).
  { cbn in H. injection H as <- <-. exists v. split; auto. }
  apply wbind_val in H as [(ordered & w3 & E3 & H) | (e & E3 & _)];
    [| apply wl_val in E3 as (? & _ & E3 & _); discriminate].
  apply wl_val in E3 as (ordered' & Hord & E3 & ->). injection E3 as <-.
  unfold wbind at 1. rewrite Hord.
  assert (K : forall c, In (CElem c) (n_content n) -> D c = true) by (intros c ic; apply (C i n c di Wi ic)).
  destruct (negb ordered && (1 <? N.of_nat (List.length (n_content n)))); [| eapply iter_loop_local; eauto].
  apply wbind_val in H as [(keyed & u4 & E4 & H) | (e & E4 & _)];
    [| eapply keyed_loop_frame in E4 as (_ & ? & E4 & _); [discriminate | exact (FR f)]].
  pose proof (keyed_loop_frame T _ _ _ (FR f) _ _ _ E4) as (R4 & keyed' & Ek & Hk). injection Ek as <-.
  destruct (keyed_loop_local D _ _ _ (FR f) IH u v _ u4 C A K E4) as (v4 & E4' & A4).
  pose proof (closed_rel D _ _ R4 C) as C4.
  unfold wbind at 1. rewrite E4'.
  apply wbind_val in H as [(wc & w5 & E5 & H) | (e & E5 & _)]; [| discriminate].
  unfold wget in E5. injection E5 as <- <-.
  apply wbind_val in H as [(x & w6 & E6 & H) | (e & E6 & _)];
    [| apply wl_val in E6 as (? & _ & E6 & _); discriminate].
  apply wl_val in E6 as (x' & AP & _ & ->). destruct x'.
  (* the children exist and belong to D *)
  assert (M : forall c, In c (map snd keyed) -> D c = true /\ exists cn, w_nodes u4 c = Some cn).
  { intros c ic. rewrite Hk in ic. apply in_celems in ic. destruct (C i n c di Wi ic) as [dc [cn Wc]]. split; auto.
    destruct R4 as (_ & _ & _ & nodes). pose proof (nodes c) as h. rewrite Wc in h. destruct (w_nodes u4 c); [eauto | destruct h]. }
  unfold wbind at 1, wget. unfold wbind at 1, wl, wlift.
  rewrite <- (all_pairs_agree D u4 v4 _ _ C4 A4 M M), AP.
  assert (E : srt _ (key_cmp (cmp_tot u4)) keyed = srt _ (key_cmp (cmp_tot v4)) keyed).
  { apply srt_ext_on.
    - apply (key_cmp_total_preorder T tab_el tab_at tab_en name_index name_definition_ref u4 keyed).
      intros a b ia ib. eapply all_pairs_val_inv; eauto.
    - intros a b ia ib. unfold key_cmp. f_equal.
      destruct (M (snd a) (in_map snd _ _ ia)) as [da ea]. destruct (M (snd b) (in_map snd _ _ ib)) as [db eb].
      eapply cmp_tot_agree; eauto. }
  rewrite <- E.
  unfold modify_node in H |- *.
  apply wbind_val in H as [(n1 & w7 & E7 & H) | (e & E7 & _)];
    [| apply get_node_val in E7 as (? & _ & E7 & _); discriminate].
  apply get_node_val in E7 as (n1' & W1 & E7 & ->). injection E7 as <-.
  unfold wbind, get_node. rewrite (proj2 A4 i di), W1.
  unfold set_node in H |- *. injection H as <- <-. eexists. split; [reflexivity |].
  destruct A4 as [e4 h4]. split; cbn; auto.
  intros j dj. unfold upd. destruct (j =? i); auto.
Qed.

End Local.
