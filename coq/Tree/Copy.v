(* Tree/Copy.v — model of AutosarModel::duplicate (autosarmodel.rs), statement by statement.
   (Deep copy itself — deep_copy, make_unique_item_name, create_copied_sub_element[_at/_inner] — is in Tree/Ops.v.)

     let copy = Self::new();                                              new_model
     copy.root.attributes = self.root.attributes.clone();                 (fix: commit in /repo: the root of the copy
     copy.root.comment = self.root.comment.clone();                        carries the original's attributes and comment)
     for orig_file in self.files() {                                      m_files of the original, Vec order
         let new_file = copy.create_file(filename, orig_file.version())?; m_create_file (new file id = |w_files|)
         new_file.xml_standalone = orig_file.xml_standalone;              set_file
         filemap.insert(filename, new_file.downgrade()); }                assoc_insert (HashMap<PathBuf,_>: by name)
     for element in self.root_element().sub_elements() {                  the CElem items of the root's content
         copy.root_element().create_copied_sub_element(&element)?; }      Ops.e_create_copied_sub_element (copy's root:
                                                                          model(), min_version() of the COPY)
     for ((_, o), (_, c)) in zip(self.elements_dfs(), copy.elements_dfs()) {   two pre-order walks, roots included,
         c.file_membership.clear();                                            zip stops at the shorter one
         for f in o.file_membership (upgrade) { if let Some(cf) = filemap.get(&f.filename()) { c.file_membership.insert(cf) } } }
     Ok(copy)

   An error (`?`) leaves the half-built copy behind: [m_duplicate_body].  The Rust then DROPS the copy (it is a local
   that is not returned), so the half-built model and its files are unobservable; [m_duplicate] models the drop by
   truncating w_models / w_files to their previous lengths (the copy and its files are the last entries: nothing else
   runs in between).  The nodes of the dropped copy stay allocated but unreachable (no handle to them can exist).
   MODEL ONLY: definitions, no proofs. *)
From AV Require Import Base.Bytes Base.Outcome Hash.HashModel Tree.Heap Tree.Ops.
Open Scope string_scope.
Open Scope list_scope.
Open Scope N_scope.

Section Copy.
Variable T : tables.
Variable tab_el tab_en : nametab.
Variable check_fn : N -> list N -> res bool.
Variable LATEST : N.
Variable root_attrs : list (N * cdata).

Definition set_standalone (f : file) (s : option bool) : file := mkFile (f_model f) (f_name f) (f_version f) s.

(* the first loop: one new file per file of the original; returns the filemap (name -> new file id) *)
Fixpoint dup_files (c : N) (files : list N) (filemap : list (list N * N)) : W (list (list N * N)) :=
  match files with
  | [] => wret filemap
  | f :: rest =>
    (do fl <- get_file f;
     do nf <- m_create_file T c (f_name fl) (f_version fl);
     do nfl <- get_file nf;
     set_file nf (set_standalone nfl (f_standalone fl));;
     dup_files c rest (assoc_insert (f_name fl) nf filemap))%W
  end.

(* the second loop: copies of the sub-elements of the original's root, appended to the copy's root *)
Fixpoint dup_children (croot : id) (items : list citem) : W unit :=
  match items with
  | [] => wret tt
  | CElem e :: rest => (do _ <- e_create_copied_sub_element T LATEST croot e; dup_children croot rest)%W
  | CData _ :: rest => dup_children croot rest
  end.

(* the membership of one copied element: the original's LOCAL set translated file by file through the filemap *)
Fixpoint translate_files (w : world) (filemap : list (list N * N)) (fs : list N) : list N :=
  match fs with
  | [] => []
  | f :: rest =>
    match nth_opt (w_files w) (N.to_nat f) with
    | Some fl => match assoc_get (f_name fl) filemap with
                 | Some nf => set_add nf (translate_files w filemap rest)
                 | None => translate_files w filemap rest
                 end
    | None => translate_files w filemap rest          (* Weak::upgrade() fails: not reached, files are never freed *)
    end
  end.

(* the third loop: zip of the two pre-order walks *)
Fixpoint dup_membership (filemap : list (list N * N)) (oids cids : list id) : W unit :=
  match oids, cids with
  | o :: orest, c :: crest =>
    (do on <- get_node o;
     do w <- wget;
     modify_node c (fun x => set_files x (translate_files w filemap (n_files on)));;
     dup_membership filemap orest crest)%W
  | _, _ => wret tt
  end.

(* AutosarModel::duplicate up to (and including) an early return by `?`: the half-built copy stays in the world *)
Definition m_duplicate_body (m : N) : W N :=
  (do x <- get_model m;
   do c <- new_model T root_attrs;
   do rn <- get_node (m_root x);
   do cx <- get_model c;
   modify_node (m_root cx) (fun r => set_comment (set_attrs r (n_attrs rn)) (n_comment rn));;
   do filemap <- dup_files c (m_files x) [];
   dup_children (m_root cx) (n_content rn);;
   do w <- wget;
   do oids <- dfs_ids (fuel_of w) (m_root x);
   do cids <- dfs_ids (fuel_of w) (m_root cx);
   dup_membership filemap oids cids;;
   wret c)%W.

(* drop(copy) after an error: the model and its files disappear; allocated nodes stay (unreachable) *)
Definition drop_models_files (nm nf : nat) (w : world) : world :=
  mkWorld (w_nodes w) (w_next w) (firstn nf (w_files w)) (firstn nm (w_models w)).

(* AutosarModel::duplicate -> the new model id *)
Definition m_duplicate (m : N) : W N :=
  let _ := (tab_el, tab_en, check_fn) in
  fun w =>
    match m_duplicate_body m w with
    | Val (OK c, w') => Val (OK c, w')
    | Val (ER e, w') => Val (ER e, drop_models_files (List.length (w_models w)) (List.length (w_files w)) w')
    | Pan s => Pan s
    | Fuel => Fuel
    end.
End Copy.
