(* Tree/Copy.v — model of AutosarModel::duplicate (autosarmodel.rs).  (Deep copy itself is in Tree/Ops.v.)
   STUB: the interface below is fixed (Tree/Script2.v and the drivers use it); the body is a placeholder.
   MODEL ONLY: definitions, no proofs. *)
From AV Require Import Base.Bytes Base.Outcome Hash.HashModel Tree.Heap Tree.Ops.
Open Scope string_scope.
Open Scope N_scope.

Section Copy.
Variable T : tables.
Variable tab_el tab_en : nametab.
Variable check_fn : N -> list N -> res bool.
Variable LATEST : N.
Variable root_attrs : list (N * cdata).

(* AutosarModel::duplicate -> the new model id *)
Definition m_duplicate (m : N) : W N :=
  let _ := (T, tab_el, tab_en, check_fn, LATEST, root_attrs) in wpanic "UNMODELLED: duplicate".
End Copy.
