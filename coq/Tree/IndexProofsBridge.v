(* Tree/IndexProofsBridge.v — the only place where the C04/C05 development meets C03:
   TreeInv w (Tree/Inv.v, proved invariant in Tree/InvProofs.v) implies the record TreeFacts w that the C04/C05 proofs
   assume; and the closed form of the history theorems: for every history that starts in the empty world and whose
   steps avoid the finding classes of C03, C04, C05 and the pending constructors, the final world satisfies
   Inv04 and Inv05. *)
From AV Require Import Base.Bytes Base.Outcome Hash.HashModel Tree.Heap Tree.Ops Tree.Script Tree.Inv Tree.InvProofs.
From AV Require Import Tree.Index Tree.IndexProofsBase Tree.IndexProofs Tree.Refs Tree.RefsProofsOps.
Open Scope string_scope.
Open Scope list_scope.
Open Scope N_scope.

Lemma nth_opt_nth_error {A} (l : list A) k : nth_opt l k = nth_error l k.
Proof. revert k. induction l as [|x l IH]; intros [|k]; cbn; auto. Qed.

Lemma in_elems_ids c l : In c (elems l) <-> In (CElem c) l.
Proof. change (elems l) with (elem_ids l). apply in_elem_ids. Qed.

Lemma depth_pdepth w i h : Depth w i h -> pdepth w i h.
Proof. induction 1; [eapply pd_top|eapply pd_step]; eauto. Qed.

Theorem treeinv_treefacts w : TreeInv w -> TreeFacts w.
Proof.
  intros (HC & (HO & HR)). constructor.
  - intros p c (n & Hn & Hc). destruct (c_up _ HC p c) as (cn & Hcn & Hp); [|eauto].
    exists n. split; [exact Hn|]. apply in_elems_ids. exact Hc.
  - intros p n Hn. exact (c_nodup _ HC p n Hn).
  - intros c cn p Hcn Hp. destruct (HO c p) as (n & Hn & Hc); [exists cn; auto|].
    exists n. split; [exact Hn|]. apply in_elems_ids. exact Hc.
  - intros m x Hx. unfold model_at in Hx. rewrite nth_opt_nth_error in Hx.
    destruct (c_roots _ HC (N.to_nat m) (m_root x)) as (n & Hn & Hp).
    { unfold roots. rewrite nth_error_map, Hx. reflexivity. }
    rewrite N2Nat.id in Hp. eauto.
  - intros i n m Hn Hp. pose proof (HR i n m Hn Hp) as H. unfold roots in H. rewrite nth_error_map in H.
    unfold model_at. rewrite nth_opt_nth_error. destruct (nth_error (w_models w) (N.to_nat m)) as [x|]; [|discriminate].
    cbn in H. injection H as H. eauto.
  - intros i n Hn. destruct (c_depth _ HC i) as (h & Hd); [exists n; exact Hn|]. exists h. apply depth_pdepth. exact Hd.
  - intros i n Hn. apply (c_alloc _ HC i). exists n. exact Hn.
Qed.

Section Closed.
Variable T : tables.
Variable tab_el tab_en : nametab.
Variable check_fn : N -> list N -> res bool.
Variable LATEST : N.
Variable root_attrs : list (N * cdata).
Hypothesis TK : TablesOK T check_fn.

Notation run := (run_op T tab_el tab_en check_fn LATEST root_attrs).
Notation run_ops := (Inv.run_ops T tab_el tab_en check_fn LATEST root_attrs).
Notation Known03 := (Inv.Known T tab_el tab_en check_fn LATEST root_attrs).
Notation Known05 := (Known05 T tab_el tab_en check_fn LATEST root_attrs).

(* no step of the history is in a finding class of C03/C04/C05 or uses a pending constructor (decidable) *)
Fixpoint clean45 (l : list op) (w : world) : bool :=
  match l with
  | [] => true
  | o :: rest =>
    negb (Known03 w o) && negb (Known04 T LATEST w o) && negb (Known05 w o)
    && negb (Pending45 w o)
    && match run o w with Val (_, w') => clean45 rest w' | _ => true end
  end.

Lemma run_hist_run_ops l : forall w, run_hist T tab_el tab_en check_fn LATEST root_attrs l w = run_ops l w.
Proof.
  induction l as [|o l IH]; intros w; cbn [run_hist Inv.run_ops]; [reflexivity|].
  unfold Inv.run. destruct (run o w) as [[r w1]| |]; [apply IH|reflexivity|reflexivity].
Qed.

Lemma clean45_steps l : forall w, TreeInv w -> clean45 l w = true ->
  steps_ok5 T tab_el tab_en check_fn LATEST root_attrs l w.
Proof.
  induction l as [|o l IH]; intros w HT Hc; cbn in *; [exact I|].
  repeat (apply andb_true_iff in Hc as (Hc & ?)).
  repeat match goal with H : negb _ = true |- _ => apply negb_true_iff in H end.
  split; [apply treeinv_treefacts; exact HT|]. repeat (split; [assumption|]).
  destruct (run o w) as [[r w1]| |] eqn:E; try exact I. apply IH; [|assumption].
  eapply TreeInv_step; eauto.
Qed.

Theorem C04_C05_reachable_partial l w' :
  clean45 l empty_world = true -> run_ops l empty_world = Val w' ->
  TreeFacts w' /\ Inv04 T check_fn w' /\ Inv05 T w'.
Proof.
  intros Hc H.
  assert (HT : TreeInv w').
  { eapply TreeInv_histories; [apply empty_treeinv| |exact H].
    clear H. revert Hc. generalize empty_world. induction l as [|o l IH]; intros w Hc; cbn in *; [reflexivity|].
    repeat (apply andb_true_iff in Hc as (Hc & ?)). apply andb_true_iff. split; [assumption|].
    unfold Inv.run. destruct (run o w) as [[r w1]| |]; auto. }
  split; [apply treeinv_treefacts; exact HT|].
  eapply (C05_history_partial T tab_el tab_en check_fn LATEST root_attrs TK l empty_world w').
  - apply Inv04_empty.
  - apply Inv05_empty.
  - apply clean45_steps; [apply empty_treeinv|exact Hc].
  - rewrite run_hist_run_ops. exact H.
Qed.

End Closed.
