(* GENERATED from Tree/InvProofsRemove.v by tools/c03_gen_invE.py: the same proof over NoOrphanP (no RootsOnly), see Tree/InvEBase.v *)
(* Tree/InvProofsRemove.v — C03 proofs: remove_internal clears exactly the subtree; remove_sub_element(_kind). *)
From Coq Require Import PeanoNat Arith.
From AV Require Import Base.Bytes Base.Outcome Hash.HashModel Tree.Heap Tree.Ops Tree.Script Tree.Inv
  Tree.InvProofsBase Tree.InvProofsCore Tree.InvProofsTree Tree.InvProofsPrim Tree.InvEBase.
Open Scope string_scope.
Open Scope list_scope.
Open Scope N_scope.

(* ------------------------------------------------------------------ computations that leave all nodes alone *)
Definition nfpE {A} (m : W A) : Prop :=
  forall w r w', m w = Val (r, w') ->
    (forall x, w_nodes w' x = w_nodes w x) /\ w_next w' = w_next w /\ roots w' = roots w.

Lemma nfp_roE {A} (m : W A) : ro m -> nfpE m.
Proof. intros H w r w' E. apply H in E. subst. auto. Qed.
Lemma nfp_bindE {A B} (m : W A) (k : A -> W B) : nfpE m -> (forall a, nfpE (k a)) -> nfpE (wbind m k).
Proof.
  intros Hm Hk w r w' H. apply wbind_inv in H as [(a & w1 & H1 & H2) | (e & H1 & _)].
  - destruct (Hm _ _ _ H1) as (A1 & B1 & C1). destruct (Hk _ _ _ _ H2) as (A2 & B2 & C2).
    split; [intros x; rewrite A2; auto | split; congruence].
  - eapply Hm; eauto.
Qed.
Lemma nfp_tryE {A} (m : W A) : nfpE m -> nfpE (wtry m).
Proof. intros Hm w r w' H. apply wtry_inv in H as (r0 & H & _). eapply Hm; eauto. Qed.
Lemma nfp_modify_modelE m f : (forall x, m_root (f x) = m_root x) -> nfpE (modify_model m f).
Proof.
  intros Hf w r w' H. apply modify_model_inv in H as (x & Hx & _ & ->). repeat split; auto.
  rewrite nth_opt_nth_error in Hx. cbn. eapply roots_list_set; eauto.
Qed.

Ltac nfp_stepE :=
  first
  [ apply nfp_roE; solve [ro_tac]
  | assumption
  | apply nfp_modify_modelE; intros ?; reflexivity
  | apply nfp_tryE
  | apply nfp_bindE; [ | intros ? ]
  | match goal with
    | |- nfpE (match ?x with _ => _ end) => destruct x
    | |- nfpE (if ?b then _ else _) => destruct b
    end ].
Ltac nfp_tacE := repeat nfp_stepE.

(* the loop over the sub-elements of a content list used by remove_internal and register_subtree *)
Definition kloopE (step : id -> W unit) : list citem -> W unit :=
  fix kids (l : list citem) : W unit :=
    match l with
    | [] => wret tt
    | CElem c :: rest => (step c;; kids rest)%W
    | CData _ :: rest => kids rest
    end.

Lemma kloop_nokidsE step l w r w' : elems l = [] -> kloopE step l w = Val (r, w') -> r = OK tt /\ w' = w.
Proof.
  induction l as [|[c|d] l IH]; intros Hk H.
  - cbn in H. apply wret_inv in H. auto.
  - discriminate.
  - cbn in H. apply IH; auto.
Qed.

Section Loop.
Variable w0 : world.
Variable L : id -> list id.
Variable step : id -> W unit.

Definition step_okE (c : id) : Prop :=
  forall wc r w', (forall x, In x (L c) -> w_nodes wc x = w_nodes w0 x) -> step c wc = Val (r, w') ->
    r = OK tt /\ w_next w' = w_next wc /\ roots w' = roots wc /\
    (forall x, In x (L c) -> skel w' x = Some (PNone, [])) /\
    (forall x, ~ In x (L c) -> w_nodes w' x = w_nodes wc x).

Lemma kloop_specE l :
  (forall c, In c (elems l) -> step_okE c) -> NoDup (elems l) ->
  (forall a b x, In a (elems l) -> In b (elems l) -> a <> b -> In x (L a) -> In x (L b) -> False) ->
  forall wc r w', (forall c x, In c (elems l) -> In x (L c) -> w_nodes wc x = w_nodes w0 x) ->
    kloopE step l wc = Val (r, w') ->
    r = OK tt /\ w_next w' = w_next wc /\ roots w' = roots wc /\
    (forall x, In x (flat_map L (elems l)) -> skel w' x = Some (PNone, [])) /\
    (forall x, ~ In x (flat_map L (elems l)) -> w_nodes w' x = w_nodes wc x).
Proof.
  induction l as [|[c|d] l IH]; intros Hok Hnd Hdis wc r w' Hag H.
  - cbn in H. apply wret_inv in H as (-> & ->). repeat split; auto. intros x [].
  - rewrite elems_cons_elem in *. apply NoDup_cons_iff in Hnd as (Hnc & Hnd'). cbn [kloopE] in H.
    apply wbind_inv in H as [(a & w1 & H1 & H2) | (e & H1 & ->)].
    + destruct (Hok c (or_introl eq_refl) wc _ _ (fun x Hx => Hag c x (or_introl eq_refl) Hx) H1)
        as (_ & N1 & R1 & Cl1 & Fr1).
      assert (Hag1 : forall c' x, In c' (elems l) -> In x (L c') -> w_nodes w1 x = w_nodes w0 x).
      { intros c' x Hc' Hx. rewrite Fr1.
        - apply (Hag c' x); auto. right; auto.
        - intros Hx'. apply (Hdis c c' x); auto; [left; auto | right; auto | intros ->; auto]. }
      destruct (IH (fun c' Hc' => Hok c' (or_intror Hc')) Hnd'
                   (fun a b x Ha Hb => Hdis a b x (or_intror Ha) (or_intror Hb)) w1 _ _ Hag1 H2)
        as (-> & N2 & R2 & Cl2 & Fr2).
      split; auto. split; [congruence|]. split; [congruence|]. split.
      * intros x Hx. cbn in Hx. apply in_app_or in Hx as [Hx|Hx]; [|auto].
        destruct (in_dec N.eq_dec x (flat_map L (elems l))) as [Hin|Hin]; [auto|].
        unfold skel. rewrite Fr2 by auto. apply Cl1. auto.
      * intros x Hx. cbn in Hx. rewrite in_app_iff in Hx. rewrite Fr2 by tauto. apply Fr1. tauto.
    + destruct (Hok c (or_introl eq_refl) wc _ _ (fun x Hx => Hag c x (or_introl eq_refl) Hx) H1) as ([=] & _).
  - rewrite elems_cons_data in *. cbn [kloopE] in H. eapply IH; eauto.
Qed.
End Loop.

Section Remove.
Variable T : tables.

Lemma remove_internal_unfoldE f i m path :
  remove_internal T (S f) i m path =
  (do n <- get_node i;
   do ident <- is_identifiable T n;
   do path' <- (if ident then
                  do nm <- item_name T n;
                  match nm with
                  | Some x => let p := path ++ [47] ++ x in remove_identifiable m p;; wret p
                  | None => wret path
                  end
                else wret path);
   do isr <- wl (is_ref T (n_type n));
   (if isr then
      do cd <- wl (character_data T n);
      match cd with Some (DString r) => remove_reference_origin m r i | _ => wret tt end
    else wret tt);;
   kloopE (fun c => remove_internal T f c m path') (n_content n);;
   modify_node i (fun x => set_parent (set_files (set_content x []) []) PNone))%W.
Proof. reflexivity. Qed.

Lemma remove_internal_specE w0 : Core w0 ->
  forall f i m path, allocated w0 i -> enough w0 i f ->
  forall wc r w', (forall x, In x (subl f w0 i) -> w_nodes wc x = w_nodes w0 x) ->
    remove_internal T (S f) i m path wc = Val (r, w') ->
    r = OK tt /\ w_next w' = w_next wc /\ roots w' = roots wc /\
    (forall x, In x (subl f w0 i) -> skel w' x = Some (PNone, [])) /\
    (forall x, ~ In x (subl f w0 i) -> w_nodes w' x = w_nodes wc x).
Proof.
  intros C. induction f as [|f IH]; intros i m path (n0 & Hn0) He wc r w' Hag H;
    rewrite remove_internal_unfoldE in H.
  - (* no fuel left for children: there are none *)
    pose proof (enough_leaf _ _ _ C He Hn0) as Hk.
    wstepn H nn En; winv En.
    match goal with Hn : w_nodes wc i = Some ?n1 |- _ =>
      assert (n1 = n0) as -> by (rewrite Hag in Hn by apply subl_self; congruence) end.
    wstepn H ident Ei.
    2:{ unfold is_identifiable in Ei. absurd_err Ei. }
    wstepn H path' Ep.
    2:{ unfold item_name, remove_identifiable in Ep. absurd_err Ep. }
    assert (Fp : (forall x, w_nodes w x = w_nodes wc x) /\ w_next w = w_next wc /\ roots w = roots wc).
    { match type of Ep with ?mm _ = _ => refine ((_ : nfpE mm) _ _ _ Ep) end. nfp_tacE. }
    wstepn H isr Er; winv Er.
    wstepn H u Eo.
    2:{ unfold remove_reference_origin in Eo. absurd_err Eo. }
    assert (Fo : (forall x, w_nodes w1 x = w_nodes w x) /\ w_next w1 = w_next w /\ roots w1 = roots w).
    { match type of Eo with ?mm _ = _ => refine ((_ : nfpE mm) _ _ _ Eo) end. nfp_tacE. }
    wstepn H u2 Ek.
    2:{ apply kloop_nokidsE in Ek as ([=] & _); auto. }
    apply kloop_nokidsE in Ek as (_ & Fk); auto.
    subst w2. apply modify_node_wset in H as (n1 & Hn1 & -> & ->).
    destruct Fp as (Fp & Np & Rp). destruct Fo as (Fo & No & Ro).
    split; auto. rewrite roots_wset, next_wset. split; [congruence|]. split; [congruence|]. split.
    + intros x [<-|[]]. rewrite skel_wset_eq. reflexivity.
    + intros x Hx. cbn in Hx. rewrite nodes_wset_neq by (intros ->; tauto). rewrite Fo, Fp. reflexivity.
  - wstepn H nn En; winv En.
    match goal with Hn : w_nodes wc i = Some ?n1 |- _ =>
      assert (n1 = n0) as -> by (rewrite Hag in Hn by apply subl_self; congruence) end.
    wstepn H ident Ei.
    2:{ unfold is_identifiable in Ei. absurd_err Ei. }
    wstepn H path' Ep.
    2:{ unfold item_name, remove_identifiable in Ep. absurd_err Ep. }
    assert (Fp : (forall x, w_nodes w x = w_nodes wc x) /\ w_next w = w_next wc /\ roots w = roots wc).
    { match type of Ep with ?mm _ = _ => refine ((_ : nfpE mm) _ _ _ Ep) end. nfp_tacE. }
    wstepn H isr Er; winv Er.
    wstepn H u Eo.
    2:{ unfold remove_reference_origin in Eo. absurd_err Eo. }
    assert (Fo : (forall x, w_nodes w1 x = w_nodes w x) /\ w_next w1 = w_next w /\ roots w1 = roots w).
    { match type of Eo with ?mm _ = _ => refine ((_ : nfpE mm) _ _ _ Eo) end. nfp_tacE. }
    destruct Fp as (Fp & Np & Rp). destruct Fo as (Fo & No & Ro).
    assert (Hkid : forall c, In c (elems (n_content n0)) -> lists w0 i c) by (intros c Hc; exists n0; auto).
    assert (Hok : forall c, In c (elems (n_content n0)) ->
                  step_okE w0 (subl f w0) (fun c => remove_internal T (S f) c m path') c).
    { intros c Hc wc' r' w'' Hag' H'. pose proof (Hkid c Hc) as Hl.
      destruct (enough_kid _ _ _ _ C He Hl) as (f' & [= <-] & He').
      eapply IH; eauto. apply C in Hl. destruct Hl as (nc & ? & _). eexists; eauto. }
    assert (Hdis : forall a b x, In a (elems (n_content n0)) -> In b (elems (n_content n0)) -> a <> b ->
                   In x (subl f w0 a) -> In x (subl f w0 b) -> False).
    { intros a b x Ha Hb. apply (subl_disjoint f w0 i a b x); auto. }
    assert (Hag1 : forall c x, In c (elems (n_content n0)) -> In x (subl f w0 c) -> w_nodes w1 x = w_nodes w0 x).
    { intros c x Hc Hx. rewrite Fo, Fp. apply Hag. cbn. rewrite Hn0. right. apply in_flat_map. eauto. }
    wstepn H u2 Ek.
    2:{ destruct (kloop_specE w0 _ _ _ Hok (c_nodup _ C _ _ Hn0) Hdis _ _ _ Hag1 Ek) as ([=] & _). }
    destruct (kloop_specE w0 _ _ _ Hok (c_nodup _ C _ _ Hn0) Hdis _ _ _ Hag1 Ek) as (_ & Nk & Rk & Clk & Frk).
    apply modify_node_wset in H as (n1 & Hn1 & -> & ->).
    split; auto. rewrite roots_wset, next_wset. split; [congruence|]. split; [congruence|].
    assert (Hsub : subl (S f) w0 i = i :: flat_map (subl f w0) (kids n0)) by (cbn; rewrite Hn0; reflexivity).
    rewrite Hsub. split.
    + intros x [<-|Hx]; [rewrite skel_wset_eq; reflexivity|].
      assert (x <> i).
      { intros ->. apply in_flat_map in Hx as (c & Hc & Hx). eapply (subl_not_parent f w0 i c); eauto. }
      rewrite skel_wset_neq by auto. apply Clk. exact Hx.
    + intros x Hx. cbn in Hx. rewrite nodes_wset_neq by (intros ->; tauto). rewrite Frk by tauto. rewrite Fo, Fp. reflexivity.
Qed.

(* ---------- remove_sub_element ---------- *)
Lemma Pres_raw_removeE self sub m : PresE (raw_remove_sub_element T self sub m).
Proof.
  intros w r w' H C. unfold raw_remove_sub_element in H.
  assert (F : Core w /\ (NoOrphanP w -> NoOrphanP w)) by auto.
  wrun_ro H ltac:(exact F).
  match goal with Hi : index_of (citem_is sub) (n_content ?n) = Some ?pos |- _ =>
    rename Hi into Hidx; rename n into ns; rename pos into ps end.
  assert (Hl : lists w self sub) by (exists ns; split; auto; eapply index_of_citem_in; eauto).
  pose proof (c_up _ C _ _ Hl) as Hps.
  assert (Hsa : allocated w sub) by (destruct Hps as (x & ? & _); eexists; eauto).
  set (f := N.to_nat (w_next w)) in *.
  pose proof (enough_top _ _ C Hsa) as He. fold f in He.
  wstepn H u Er.
  2:{ destruct (remove_internal_specE w C f sub _ _ Hsa He w _ _ (fun x _ => eq_refl) Er) as ([=] & _). }
  destruct (remove_internal_specE w C f sub _ _ Hsa He w _ _ (fun x _ => eq_refl) Er) as (_ & N1 & R1 & Cl & Fr).
  apply modify_node_wset in H as (nq & Hnq & -> & ->).
  assert (HselfL : ~ In self (subl f w sub)) by (apply subl_not_parent; auto).
  assert (nq = ns) as -> by (rewrite Fr in Hnq by auto; congruence).
  set (w' := wset _ self _).
  pose proof (index_of_citem _ _ _ Hidx) as Hnth.
  assert (HL : forall x, In x (subl f w sub) -> allocated w x /\ skel w' x = Some (PNone, [])).
  { intros x Hx. split; [eapply subl_alloc; eauto|]. unfold w'. rewrite skel_wset_neq by (intros ->; auto). auto. }
  assert (Ho : forall x, ~ In x (subl f w sub) -> x <> self -> skel w' x = skel w x).
  { intros x Hx Hxs. unfold w'. rewrite skel_wset_neq by auto. unfold skel. rewrite Fr by auto. reflexivity. }
  assert (Hi : skel w self = Some (n_parent ns, kids ns)) by (apply skel_some; auto).
  assert (Hi' : skel w' self = Some (n_parent ns, elems (remove_at (n_content ns) ps))).
  { unfold w'. rewrite skel_wset_eq. reflexivity. }
  assert (Hks : forall x, In x (elems (remove_at (n_content ns) ps)) <-> In x (kids ns) /\ x <> sub).
  { intros x. apply elems_remove_elem; auto. eapply c_nodup; eauto. }
  assert (Hnd : NoDup (elems (remove_at (n_content ns) ps))).
  { apply elems_remove_nodup. eapply c_nodup; eauto. }
  assert (Hup : forall c, In c (subl f w sub) -> c <> sub -> exists p, In p (subl f w sub) /\ par w c p).
  { intros c Hc Hne. destruct (subl_up _ _ _ _ Hc Hne) as (p & Hp & Hlp). exists p. split; auto. apply C. auto. }
  assert (Hdown : forall p c, In p (subl f w sub) -> lists w p c -> In c (subl f w sub)).
  { intros p c. apply subl_closed; auto. }
  assert (Hn' : w_next w' = w_next w) by (unfold w'; rewrite next_wset; auto).
  assert (Hr' : roots w' = roots w) by (unfold w'; rewrite roots_wset; auto).
  split.
  - eapply (core_clear w w' self sub); eauto; apply subl_self.
  - intros O. apply NoOrphanP_OrphSubE. apply NoOrphanP_OrphSubE in O.
    eapply (orphsubE_clear w w' self sub); eauto; apply subl_self.
Qed.
Hint Resolve Pres_raw_removeE : presE.

Lemma Pres_e_removeE h sub : PresE (e_remove_sub_element T h sub).
Proof. unfold e_remove_sub_element. presE_tac. Qed.
Hint Resolve Pres_e_removeE : presE.
Lemma Pres_e_remove_kindE h name : PresE (e_remove_sub_element_kind T h name).
Proof. unfold e_remove_sub_element_kind. presE_tac. Qed.

End Remove.

#[export] Hint Resolve Pres_raw_removeE Pres_e_removeE Pres_e_remove_kindE : presE.
