(* Tree/CopyProofsDupAll.v — C13: the per-file text of a duplicate equals the original's (C13_duplicate_text).
   Part I: the construction phase of duplicate() (new model, root decor, files, copy of the root's sub-element) makes the
   two roots equal up to node ids; Part II (Tree/CopyProofsDupText.v) turns that into equal per-file text.
   Scope: the root has one sub-element, of a type that is not named (in AUTOSAR: AR-PACKAGES); the model is not split
   (every sub-element inherits its file membership); the sub-element is valid in every file version of the result. *)
From AV Require Import Base.Bytes Base.Outcome Hash.HashModel Spec.SpecOps Tree.Heap Tree.Ops Tree.Script Tree.Copy
  Tree.Serialize Tree.Inv Tree.InvProofsCore Tree.InvProofsNav Tree.InvProofsOp2
  Tree.CopyProofsW Tree.CopyProofsDefs Tree.CopyProofsDeep Tree.CopyProofsCreate Tree.CopyProofsTop Tree.CopyProofsBridge
  Tree.CopyProofsDup Tree.CopyProofsFK Tree.CopyProofsText Tree.CopyProofsDupText Tree.CompatFrame Tree.CompatHist7.
From Coq Require Import Lia PeanoNat.
Open Scope string_scope.
Open Scope list_scope.
Open Scope N_scope.

Section Helpers.
Variable T : tables.
Variable LATEST : N.

(* a copy of an element whose type is not named is never renamed *)
Lemma no_rename_unnamed w1 w' h c :
  CopyRel T w1 w' h c ->
  (forall nc1, w_nodes w1 c = Some nc1 -> is_named T (n_type nc1) = Val false) ->
  forall i, i <> h -> i <> c -> w_nodes w' i = w_nodes w1 i.
Proof.
  intros (nc1 & Hc1 & _ & [H|(s & rest & sn & name & orig & _ & _ & _ & _ & _ & Hin & _)]) Hnn; [exact H|].
  exfalso. unfold item_name in Hin. cbn [n_type set_parent] in Hin. rewrite (Hnn nc1 Hc1) in Hin.
  unfold wbind, wl, wlift in Hin. cbn in Hin. discriminate Hin.
Qed.

Lemma fold_min_in (files : list N) (fl : list file) : forall acc,
  let r := fold_left (fun ver f => match nth_opt fl (N.to_nat f) with
                                   | Some x => if f_version x <? ver then f_version x else ver
                                   | None => ver end) files acc in
  r = acc \/ exists f x, nth_opt fl (N.to_nat f) = Some x /\ f_version x = r.
Proof.
  induction files as [|f files IH]; intros acc; cbn [fold_left]; [left; reflexivity|].
  destruct (nth_opt fl (N.to_nat f)) as [x|] eqn:E; [|apply IH].
  destruct (f_version x <? acc).
  - destruct (IH (f_version x)) as [H|H]; [right; exists f, x; split; [exact E|symmetry; exact H]|right; exact H].
  - apply IH.
Qed.

Lemma min_version_in i w v :
  min_version LATEST i w = Val (OK v, w) ->
  v = LATEST \/ exists f x, nth_opt (w_files w) (N.to_nat f) = Some x /\ f_version x = v.
Proof.
  unfold min_version. intros H. apply wbind_inv in H as [((loc & files) & w1 & E & H) | (e & E & [=])].
  assert (w1 = w). { unfold file_membership in E. apply wbind_inv in E as [(wg & w2 & E1 & E) | (e & E1 & [=])].
    apply wget_inv in E1 as ([= ->] & ->). eapply ro_fm_walk; eauto. }
  subst w1. apply wbind_inv in H as [(wg & w2 & E1 & H) | (e & E1 & [=])]. apply wget_inv in E1 as ([= ->] & ->).
  apply wret_inv in H as ([= ->] & _). apply fold_min_in.
Qed.

Lemma AllValidIn_ext v w w' :
  (forall s, AllValidIn T v w s -> (forall x, Sub w s x -> w_nodes w' x = w_nodes w x) -> AllValidIn T v w' s) /\
  (forall ty l, AllValidItems T v w ty l ->
     (forall c x, In (CElem c) l -> Sub w c x -> w_nodes w' x = w_nodes w x) -> AllValidItems T v w' ty l).
Proof.
  apply AllValid_mutind.
  - intros s ns Hs Hk _ IH Hsame. econstructor; [rewrite Hsame; [exact Hs|constructor]|exact Hk|].
    apply IH. intros c x Hc Hx. apply Hsame. clear - Hs Hc Hx.
    induction Hx as [|p n y Hp IHp Hn Hy]; [econstructor; [constructor|exact Hs|exact Hc]|econstructor; eauto].
  - intros ty _. constructor.
  - intros ty d r _ IH Hsame. constructor. apply IH. intros c x Hc. apply Hsame. right. exact Hc.
  - intros ty s sn x r Hs Hf _ IH1 _ IH2 Hsame. econstructor.
    + rewrite (Hsame s s (or_introl eq_refl) (Sub_refl _ _)). exact Hs.
    + exact Hf.
    + apply IH1. intros y Hy. apply (Hsame s y (or_introl eq_refl) Hy).
    + apply IH2. intros c y Hc. apply Hsame. right. exact Hc.
Qed.

Lemma Iso_source_ext wa wa' wb :
  (forall s c, Iso wa wb s c -> (forall x, Sub wa s x -> w_nodes wa' x = w_nodes wa x) -> Iso wa' wb s c) /\
  (forall l l', IsoItems wa wb l l' ->
     (forall c x, In (CElem c) l -> Sub wa c x -> w_nodes wa' x = w_nodes wa x) -> IsoItems wa' wb l l').
Proof.
  apply Iso_mutind.
  - intros s c ns nc Hs Hc E1 E2 E3 E4 _ IH Hsame. econstructor; eauto; [rewrite Hsame; [exact Hs|constructor]|].
    apply IH. intros k x Hk Hx. apply Hsame. clear - Hs Hk Hx.
    induction Hx as [|p n y Hp IHp Hn Hy]; [econstructor; [constructor|exact Hs|exact Hk]|econstructor; eauto].
  - intros _. constructor.
  - intros d r r' _ IH Hsame. constructor. apply IH. intros c x Hc. apply Hsame. right. exact Hc.
  - intros s c r r' _ IH1 _ IH2 Hsame. constructor.
    + apply IH1. intros y Hy. apply (Hsame s y (or_introl eq_refl) Hy).
    + apply IH2. intros k y Hk. apply Hsame. right. exact Hk.
Qed.

(* the membership loop changes file sets only *)
Lemma dup_membership_skel fm : forall oids cids w r w',
  dup_membership fm oids cids w = Val (r, w') ->
  w_next w' = w_next w /\ w_models w' = w_models w /\ w_files w' = w_files w /\ forall i, skel w' i = skel w i.
Proof.
  induction oids as [|o oids IH]; intros [|c cids] w r w' H; cbn [dup_membership] in H;
    try (apply wret_inv in H as (_ & ->); repeat split; reflexivity).
  apply wbind_inv in H as [(on & w1 & E & H) | (e & E & _)]; [|apply get_node_inv in E as (? & _ & [=] & _)].
  apply get_node_inv in E as (on' & Hon & [= <-] & ->).
  apply wbind_inv in H as [(wg & w1 & E & H) | (e & E & _)]; [|apply wget_inv in E as ([=] & _)].
  apply wget_inv in E as ([= ->] & ->).
  apply wbind_inv in H as [(u & w1 & E & H) | (e & E & _)]; [|apply modify_node_wset in E as (? & _ & [=] & _)].
  apply modify_node_wset in E as (cn & Hcn & _ & ->).
  destruct (IH _ _ _ _ H) as (A & B & C & D). split; [rewrite A; reflexivity|]. split; [rewrite B; reflexivity|].
  split; [rewrite C; reflexivity|]. intros i. rewrite D. unfold skel, wset; cbn [w_nodes].
  destruct (N.eq_dec i c) as [->|Hne]; [rewrite upd_eq, Hcn; reflexivity|rewrite upd_neq by exact Hne; reflexivity].
Qed.

(* a name that is free in the destination's index is kept: make_unique_item_name returns it and changes nothing
   (in particular in a fresh model, whose index is empty) *)
Lemma make_unique_free i m pp w n orig x :
  w_nodes w i = Some n -> item_name T n w = Val (OK (Some orig), w) ->
  nth_opt (w_models w) (N.to_nat m) = Some x -> assoc_get (pp ++ [47] ++ orig) (m_idents x) = None ->
  make_unique_item_name T i m pp w = Val (OK orig, w).
Proof.
  intros Hn Hit Hx Hfree. unfold make_unique_item_name.
  assert (Hgm : get_model m w = Val (OK x, w)) by (unfold get_model; rewrite Hx; reflexivity).
  erewrite wbind_val by (apply get_node_val; exact Hn). cbv beta. erewrite wbind_val by exact Hit. cbv beta iota.
  erewrite wbind_val by exact Hgm. cbv beta. cbn [unique_loop].
  assert (Hge : get_element_by_path m (pp ++ [47] ++ orig) w = Val (OK None, w)).
  { unfold get_element_by_path. erewrite wbind_val by exact Hgm. unfold wret. rewrite Hfree. reflexivity. }
  erewrite wbind_val; [|erewrite wbind_val by exact Hge; reflexivity]. cbn. reflexivity.
Qed.

End Helpers.

Lemma Sub_old w w4 root :
  Closed w -> (forall i, i < w_next w -> w_nodes w4 i = w_nodes w i) -> root < w_next w ->
  forall o, Sub w4 root o -> o < w_next w /\ Sub w root o.
Proof.
  intros Cw Hsame Hr o HS. induction HS as [|p n c HS (IH1 & IH2) Hp Hin]; [split; [exact Hr|constructor]|].
  rewrite (Hsame p IH1) in Hp. destruct (proj2 Cw p n c Hp Hin) as (cn & Hcn).
  split; [exact (proj1 Cw c cn Hcn)|econstructor; eauto].
Qed.

Section All.
Variable T : tables.
Variable tab_el tab_at tab_en : nametab.
Variable check_fn : N -> list N -> res bool.
Variable float_fmt : N -> list N.
Variable LATEST : N.
Variable root_attrs : list (N * cdata).

Theorem duplicate_text m w c w' x rn e ed :
  Core w ->
  m_duplicate_body T LATEST root_attrs m w = Val (OK c, w') ->
  nth_opt (w_models w) (N.to_nat m) = Some x -> w_nodes w (m_root x) = Some rn ->
  et_new T (autosar_element T) = Val (n_type rn) -> elem T (autosar_element T) = Val ed -> ed_name ed = n_name rn ->
  n_content rn = [CElem e] ->
  (forall en, w_nodes w e = Some en -> is_named T (n_type en) = Val false) ->
  (forall v, (v = LATEST \/ exists f fl, nth_opt (w_files w') (N.to_nat f) = Some fl /\ f_version fl = v) -> AllValidIn T v w e) ->
  (forall p pn o on, Sub w (m_root x) p -> w_nodes w p = Some pn -> In (CElem o) (n_content pn) -> w_nodes w o = Some on ->
     n_files on = []) ->
  forall f nf fuel indent inline,
    ser_heap T tab_el tab_at tab_en float_fmt fuel w' (Some f) (m_root x) indent inline =
    ser_heap T tab_el tab_at tab_en float_fmt fuel w' (Some nf) (w_next w) indent inline.
Proof.
  intros CoreW H Hx Hrn Het Hel Hname Hcont Hunn HAV Hunsplit f nf fuel indent inline.
  pose proof (Core_Closed w CoreW) as Cw.
  assert (CoreW' : Core w') by (eapply (CoreP_duplicate_body T check_fn LATEST root_attrs m); eauto).
  unfold m_duplicate_body in H.
  set (n0 := w_next w) in *. set (nm := List.length (w_models w)). set (nf0 := List.length (w_files w)).
  apply wbind_inv in H as [(x' & w1 & E & H) | (e0 & E & [=])].
  apply get_model_inv in E as (x'' & Hx' & [= <-] & ->). rewrite Hx in Hx'. injection Hx' as <-.
  assert (Hrootlt : m_root x < n0) by (eapply (proj1 Cw); eauto).
  apply wbind_inv in H as [(c0 & w1 & E & H) | (e0 & E & [=])].
  unfold new_model in E. rewrite Het, Hel in E. injection E as <- <-.
  set (cm := N.of_nat nm) in *.
  set (rnode := mkNode (PModel cm) (ed_name ed) (n_type rn) [] root_attrs [] None) in *.
  set (w1 := mkWorld _ _ _ _) in *.
  apply wbind_inv in H as [(rn1 & w2 & E & H) | (e0 & E & [=])].
  apply get_node_inv in E as (rn1' & Hrn1 & [= <-] & ->).
  assert (rn1 = rn). { unfold w1 in Hrn1; cbn in Hrn1. rewrite upd_neq in Hrn1 by (fold n0; lia). congruence. }
  subst rn1. clear Hrn1.
  apply wbind_inv in H as [(cx & w2 & E & H) | (e0 & E & [=])].
  apply get_model_inv in E as (cx' & Hcx & [= <-] & ->).
  assert (cx = mkModel n0 [] [] []).
  { unfold w1 in Hcx; cbn [w_models] in Hcx. unfold cm in Hcx. rewrite Nnat.Nat2N.id in Hcx.
    unfold nm in Hcx. rewrite nth_opt_app_new in Hcx. injection Hcx as <-. reflexivity. }
  subst cx. cbn [m_root] in H.
  apply wbind_inv in H as [(u & w2 & E & H) | (e0 & E & [=])].
  apply modify_node_wset in E as (rn0 & Hrn0 & _ & ->).
  assert (rn0 = rnode).
  { unfold w1 in Hrn0; cbn [w_nodes] in Hrn0. unfold n0 in Hrn0. rewrite upd_eq in Hrn0. injection Hrn0 as <-. reflexivity. }
  subst rn0.
  set (rnode2 := set_comment (set_attrs rnode (n_attrs rn)) (n_comment rn)) in *.
  set (w2 := wset w1 n0 rnode2) in *.
  assert (Cw1 : Closed w1).
  { apply (Closed_nodes (walloc w rnode)); [|reflexivity|reflexivity]. apply Closed_alloc; [exact Cw | intros y []]. }
  assert (Cw2 : Closed w2).
  { apply (Closed_upd w1 n0 rnode rnode2 Cw1); [unfold w1; cbn; apply upd_eq | intros y []]. }
  assert (FK2 : FreshKids n0 w2).
  { intros p k y Hp Hk Hin. unfold w2, wset, w1 in Hk; cbn [w_nodes] in Hk.
    destruct (N.eq_dec p n0) as [->|Hne].
    - rewrite upd_eq in Hk. injection Hk as <-. destruct Hin.
    - rewrite upd_neq in Hk by exact Hne. unfold n0 in Hne. rewrite upd_neq in Hk by exact Hne.
      apply (proj1 Cw) in Hk. unfold n0 in Hp. lia. }
  assert (HI2 : DInv n0 nm nf0 w2).
  { repeat split; try apply Cw2; auto.
    - unfold w2, wset, w1; cbn. lia.
    - unfold w2, wset, w1; cbn. rewrite app_length. cbn. lia. }
  assert (HS2 : DSame n0 nm nf0 w w2).
  { split; [|split].
    - intros i Hi. unfold w2, wset, w1; cbn. rewrite !upd_neq by lia. reflexivity.
    - reflexivity.
    - unfold w2, wset, w1; cbn. apply firstn_app_le. unfold nm. lia. }
  assert (HR2 : RootOf (n_attrs rn) (n_comment rn) n0 nm n0 cm w2).
  { split; [lia|]. split; [unfold cm; rewrite Nnat.Nat2N.id; lia|].
    exists rnode2, (mkModel n0 [] [] []). unfold w2, wset; cbn [w_nodes w_models]. rewrite upd_eq.
    repeat split; auto. }
  assert (HE2 : RootEmpty n0 w2).
  { exists rnode2. unfold w2, wset; cbn [w_nodes]. rewrite upd_eq. auto. }
  (* files *)
  apply wbind_inv in H as [(filemap & w3 & E & H) | (e0 & E & [=])].
  destruct (dup_files_spec T _ _ _ _ _ _ _ _ _ _ _ _ HI2 HR2 HE2 E) as (HI3 & HS3 & HR3 & HE3).
  assert (Fr23 : Fr w2 w3) by (eapply (frp_dup_files T w2 cm (m_files x) []); [apply Fr_refl|exact E]).
  clear E.
  (* the croot record in w3 *)
  destruct HR3 as (_ & _ & n3 & x3 & Hn3 & Hpar3 & Hx3 & Hroot3 & Hattr3 & Hcomm3).
  assert (HR3 : RootOf (n_attrs rn) (n_comment rn) n0 nm n0 cm w3).
  { split; [lia|]. split; [unfold cm; rewrite Nnat.Nat2N.id; lia|]. exists n3, x3. repeat split; auto. }
  destruct HE3 as (n3' & Hn3' & Hcont3). rewrite Hn3 in Hn3'. injection Hn3' as <-.
  destruct (proj2 Fr23 n0 n3 Hn3) as (n2 & Hn2 & (Hnm3 & Hty3 & _)).
  assert (n2 = rnode2) by (unfold w2, wset in Hn2; cbn [w_nodes] in Hn2; rewrite upd_eq in Hn2; congruence). subst n2.
  cbn in Hnm3, Hty3.
  (* the copy of the root's sub-element *)
  rewrite Hcont in H. cbn [dup_children] in H.
  apply wbind_inv in H as [(u4 & w4x & E & H) | (e0 & E & [=])].
  apply wbind_inv in E as [(cc & w4 & E & E') | (e0 & E & [=])]. apply wret_inv in E' as (_ & ->).
  change (e_create_copied_sub_element T LATEST n0 e w3) with (copy_call T LATEST n0 e None w3) in E.
  destruct HI3 as (I31 & I32 & I33 & FK3 & Cw3).
  assert (HI3 : DInv n0 nm nf0 w3) by (repeat split; auto; apply Cw3).
  destruct (copy_into_root T LATEST _ _ _ _ _ _ _ _ _ _ _ HI3 HR3 E) as (HI4 & HS4 & HR4).
  assert (HS03 : DSame n0 nm nf0 w w3) by (eapply DSame_trans; eauto).
  assert (HS04 : DSame n0 nm nf0 w w4) by (eapply DSame_trans; eauto).
  assert (Hen : exists en, w_nodes w e = Some en).
  { apply (proj2 Cw (m_root x) rn e Hrn). rewrite Hcont. left. reflexivity. }
  destruct Hen as (en & Hen).
  assert (Hesub : forall y, Sub w e y -> y < n0).
  { intros y Hy. destruct (Frame.Sub_allocated w e y en Cw Hen Hy) as (yn & Hyn). exact (proj1 Cw y yn Hyn). }
  (* the last phase *)
  apply wbind_inv in H as [(wg & w5 & E5 & H) | (e0 & E5 & [=])]. apply wget_inv in E5 as ([= ->] & ->).
  apply wbind_inv in H as [(oids & w5 & Eo & H) | (e0 & E5 & [=])].
  assert (w5 = w4) by (eapply ro_dfs_ids; eauto). subst w5.
  apply wbind_inv in H as [(cids & w5 & Ec & H) | (e0 & E5 & [=])].
  assert (w5 = w4) by (eapply ro_dfs_ids; eauto). subst w5.
  apply wbind_inv in H as [(u6 & w6 & Em & H) | (e0 & E5 & [=])]. apply wret_inv in H as (_ & ->). destruct u6.
  destruct (dup_membership_skel filemap oids cids w4 _ w6 Em) as (Knext & Kmod & Kfiles & Kskel).
  destruct (copy_source_unchanged T LATEST _ _ _ _ _ _ Cw3 E) as (Cw4 & (mm & (_ & _ & Ffiles & _)) & _).
  (* the copy is made in a version that some file of the result has *)
  destruct (copy_filtered T LATEST _ _ _ _ _ _ Cw3 E) as (v & w1x & Hv & _).
  assert (HAV3 : AllValidIn T v w3 e).
  { apply (proj1 (AllValidIn_ext T v w w3)).
    - apply HAV. destruct (min_version_in LATEST _ _ _ Hv) as [->|(g & gl & Hg & Hgv)]; [left; reflexivity|right].
      exists g, gl. split; [|exact Hgv]. rewrite Kfiles, Ffiles. exact Hg.
    - intros y Hy. apply (proj1 HS03). apply Hesub. exact Hy. }
  destruct (copy_same_version T LATEST _ _ _ _ _ _ _ Cw3 E Hv HAV3) as (w1' & HIso1 & HFT & Ex1 & HCR).
  (* no renaming: the copied element is not of a named type *)
  assert (Hen3 : w_nodes w3 e = Some en) by (rewrite (proj1 HS03) by (apply Hesub; constructor); exact Hen).
  assert (Hsame1 : forall i, i <> n0 -> i <> cc -> w_nodes w4 i = w_nodes w1' i).
  { apply (no_rename_unnamed T w1' w4 n0 cc HCR). intros nc1 Hnc1.
    inversion HIso1 as [s0 c0 ns nc Hs Hc _ Ety _ _ _]; subst s0 c0.
    rewrite Hen3 in Hs. injection Hs as <-. rewrite Hc in Hnc1. injection Hnc1 as <-. rewrite Ety. apply Hunn. exact Hen. }
  assert (Hn0lt : n0 < w_next w3) by exact (proj1 Cw3 n0 n3 Hn3).
  assert (HIso34 : Iso w3 w4 e cc).
  { destruct HCR as (nc1 & Hc1 & Hc4 & _).
    assert (K : forall i n1, w_next w3 <= i -> w_nodes w1' i = Some n1 ->
       exists n', w_nodes w4 i = Some n' /\ n_name n' = n_name n1 /\ n_type n' = n_type n1 /\
                  n_comment n' = n_comment n1 /\ n_attrs n' = n_attrs n1 /\ n_content n' = n_content n1).
    { intros i n1 Hi Hn1. destruct (N.eq_dec i cc) as [->|Hne].
      - rewrite Hc1 in Hn1. injection Hn1 as <-. exists (set_parent nc1 (PElem n0)). split; [exact Hc4|]. cbn. auto 6.
      - exists n1. rewrite Hsame1; [auto 6|lia|exact Hne]. }
    exact (proj1 (Iso_keep (w_next w3) w3 w1' w4 K) e cc HIso1 HFT). }
  assert (HIso44 : Iso w4 w4 e cc).
  { apply (proj1 (Iso_source_ext w3 w4 w4)); [exact HIso34|]. intros y Hy. apply (proj1 HS4).
    assert (Hy' : Sub w e y).
    { clear - Hy HS03 Hesub. induction Hy as [|p n k Hp IH Hn Hk]; [constructor|].
      rewrite (proj1 HS03) in Hn by (apply Hesub; exact IH). econstructor; eauto. }
    apply Hesub. exact Hy'. }
  (* the two roots in w4 *)
  assert (Hroot4 : w_nodes w4 (m_root x) = Some rn) by (rewrite (proj1 HS04) by exact Hrootlt; exact Hrn).
  assert (Hcroot4 : w_nodes w4 n0 = Some (set_content n3 [CElem cc])).
  { apply copy_call_inner in E as [(_ & e1 & [=]) | (m1 & v1 & p1 & _ & _ & _ & E)].
    destruct (ccsei_spec T _ _ _ _ _ _ _ _ Cw3 E) as (_ & _ & ns & Hns & Hns4 & _).
    rewrite Hn3 in Hns. injection Hns as <-. rewrite Hns4, Hcont3. destruct (N.to_nat p1); reflexivity. }
  assert (HIsoR : Iso w4 w4 (m_root x) n0).
  { econstructor; [exact Hroot4|exact Hcroot4| | | | |].
    - cbn. congruence.
    - cbn. congruence.
    - cbn. exact Hcomm3.
    - cbn. exact Hattr3.
    - cbn [n_content set_content]. rewrite Hcont. constructor; [exact HIso44|constructor]. }
  (* no element of the copy twice; the two trees are disjoint *)
  assert (Core4 : Core w4).
  { apply (Core_same_tree w6 w4); [|exact CoreW']. split; [symmetry; exact Knext|]. split; [unfold roots; rewrite Kmod; reflexivity|].
    intros i. symmetry. apply Kskel. }
  assert (ND : NoDup cids).
  { destruct (dfs_ids_preorder w4 n0 Core4) as (l & Hl & _ & HND & _); [eexists; exact Hcroot4|].
    rewrite Hl in Ec. injection Ec as <-. exact HND. }
  assert (Hold : forall o, Sub w4 (m_root x) o -> o < n0 /\ Sub w (m_root x) o).
  { apply Sub_old; [exact Cw|exact (proj1 HS04)|exact Hrootlt]. }
  assert (Hnew : forall y, Sub w4 n0 y -> n0 <= y).
  { intros y Hy. eapply FreshKids_Sub; [apply HI4|apply N.le_refl|exact Hy]. }
  apply iso_text.
  eapply (membership_phase filemap (fuel_of w4) (m_root x) n0 oids cids w4 w6); eauto.
  - intros o k Ho Hk. pose proof (proj1 (Hold o (dfs_ids_Sub _ _ _ _ _ Eo _ eq_refl _ Ho))).
    pose proof (Hnew k (dfs_ids_Sub _ _ _ _ _ Ec _ eq_refl _ Hk)). lia.
  - intros o on (p & pn & Hp & Hpn & Hin) Hon.
    destruct (Hold p (dfs_ids_Sub _ _ _ _ _ Eo _ eq_refl _ Hp)) as (Hplt & HpS).
    rewrite (proj1 HS04) in Hpn by exact Hplt.
    destruct (proj2 Cw p pn o Hpn Hin) as (on' & Hon'). pose proof (proj1 Cw o on' Hon') as Holt.
    rewrite (proj1 HS04) in Hon by exact Holt. rewrite Hon' in Hon. injection Hon as <-.
    rewrite (Hunsplit p pn o on' HpS Hpn Hin Hon'). reflexivity.
Qed.

(* the same for the public call *)
Theorem duplicate_text_top m w c w' x rn e ed :
  Core w ->
  m_duplicate T tab_el tab_en check_fn LATEST root_attrs m w = Val (OK c, w') ->
  nth_opt (w_models w) (N.to_nat m) = Some x -> w_nodes w (m_root x) = Some rn ->
  et_new T (autosar_element T) = Val (n_type rn) -> elem T (autosar_element T) = Val ed -> ed_name ed = n_name rn ->
  n_content rn = [CElem e] ->
  (forall en, w_nodes w e = Some en -> is_named T (n_type en) = Val false) ->
  (forall v, (v = LATEST \/ exists f fl, nth_opt (w_files w') (N.to_nat f) = Some fl /\ f_version fl = v) -> AllValidIn T v w e) ->
  (forall p pn o on, Sub w (m_root x) p -> w_nodes w p = Some pn -> In (CElem o) (n_content pn) -> w_nodes w o = Some on ->
     n_files on = []) ->
  forall f nf fuel indent inline,
    ser_heap T tab_el tab_at tab_en float_fmt fuel w' (Some f) (m_root x) indent inline =
    ser_heap T tab_el tab_at tab_en float_fmt fuel w' (Some nf) (w_next w) indent inline.
Proof.
  intros C H. unfold m_duplicate in H.
  destruct (m_duplicate_body T LATEST root_attrs m w) as [[[c0|e0] w1]| |] eqn:Eb; try discriminate H.
  injection H as <- <-. eapply duplicate_text; eauto.
Qed.

End All.

