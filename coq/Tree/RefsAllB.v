(* Tree/RefsAllB.v — C04/C05, specification side: the result condition of a copy without the duplicate check on the walk of the
   copy (derived in Tree/IndexProofsCopyC.v: the walk of a deep copy lists nobody twice), and the class Known05b built on it. *)
From AV Require Import Base.Bytes Base.Outcome Hash.HashModel Tree.Heap Tree.Ops Tree.Script Tree.Index Tree.Refs Tree.Follow Tree.RefsAll.
Open Scope string_scope.
Open Scope list_scope.
Open Scope N_scope.

Section RefsAllB.
Variable T : tables.
Variable tab_el tab_en : nametab.
Variable check_fn : N -> list N -> res bool.
Variable LATEST : N.
Variable root_attrs : list (N * cdata).

(* what remains: no two identifiable elements of the copy with one path; for a copy that is not identifiable itself no path of an
   element inside it already in the index of the destination's model (finding C04-copy-container-duplicates-paths) *)
Definition copy_clean_c (w w' : world) (h c : id) : bool :=
  match w_nodes w h with
  | Some nh =>
    match path_unchecked T nh w with
    | Val (OK path, _) =>
      let w3 := mkWorld (fun j => if j =? h then Some nh else w_nodes w' j) (w_next w') (w_files w') (w_models w') in
      match reg_entries T (fuel_of w') w3 path c with
      | Some (L, R) =>
        nodupb (map fst L)
        && (identifiable T w' c ||
            match model_of h w with
            | Val (OK m, _) =>
              match model_at w m with
              | Some x => forallb (fun e => match assoc_get (fst e) (m_idents x) with None => true | Some _ => false end) L
              | None => false
              end
            | _ => false
            end)
      | None => false
      end
    | _ => false
    end
  | None => false
  end.

Definition Known05b (w : world) (o : op) : bool :=
  match o with
  | OpCopy h _ | OpCopyAt h _ _ =>
    match run_op T tab_el tab_en check_fn LATEST root_attrs o w with
    | Val (ER _, w') => negb (w_next w' =? w_next w)
    | Val (OK (VElem c), w') => negb (copy_clean_c w w' h c)
    | _ => false
    end
  | _ => Known05a T tab_el tab_en check_fn LATEST root_attrs w o
  end.

End RefsAllB.
