(* Tree/FilesProofsRemove.v — C10 proofs, layer 8: Element::remove_from_file and AutosarModel::remove_file. *)
From Coq Require Import PeanoNat Arith Lia.
From AV Require Import Base.Bytes Base.Outcome Hash.HashModel Tree.Heap Tree.Ops Tree.Script Tree.Serialize
  Tree.Inv Tree.InvProofsBase Tree.InvProofsCore Tree.InvProofsTree Tree.InvProofsPrim Tree.InvProofsNav
  Tree.InvProofsRemove Tree.InvProofsFiles Tree.IndexProofsAssoc
  Tree.Files Tree.FilesProofsBase Tree.FilesProofsProj Tree.FilesProofsFrame Tree.FilesProofsOps
  Tree.FilesProofsSet Tree.FilesProofsHole Tree.FilesProofsAdd Tree.FilesProofsStrip.
Open Scope string_scope.
Open Scope list_scope.
Open Scope N_scope.

(* ------------------------------------------------------------------ the scan *)
Lemma scan_spec f : forall ids w r w', scan_loop f ids w = Val (r, w') ->
  (exists td, r = OK td) /\ same_tree w w' /\ w_models w' = w_models w /\ w_files w' = w_files w /\
  forall x n, w_nodes w x = Some n -> exists fs, w_nodes w' x = Some (set_files n fs) /\
    (In x ids -> fs = set_remove f (n_files n)) /\ (~ In x ids -> fs = n_files n).
Proof.
  induction ids as [|s rest IH]; intros w r w' H; cbn [scan_loop] in H.
  - apply wret_inv in H as (-> & ->). split; [eauto|]. split; [apply same_tree_refl|]. split; auto. split; auto.
    intros x n Hn. exists (n_files n). rewrite set_files_eta. repeat split; auto. intros [].
  - apply wbind_inv in H as [(sn & w1 & H1 & H) | (e0 & H1 & _)]; [|apply get_node_inv in H1 as (? & _ & [=] & _)].
    apply get_node_inv in H1 as (sn' & Hsn & [= <-] & ->).
    destruct (negb (is_empty (n_files sn))) eqn:Ene.
    + apply wbind_inv in H as [(u & w1 & H1 & H) | (e0 & H1 & _)]; [|discriminate].
      apply set_node_wset in H1 as (_ & ->).
      apply wbind_inv in H as [(td & w2 & H2 & H) | (e0 & H2 & _)].
      2:{ destruct (IH _ _ _ H2) as ((td & [=]) & _). }
      apply wret_inv in H as (-> & ->).
      destruct (IH _ _ _ H2) as (_ & ST & M & F & ND). split; [eauto|].
      split; [eapply same_tree_trans; [apply (st_wset w s sn (set_files sn (set_remove f (n_files sn))) Hsn); reflexivity|exact ST]|].
      split; [exact M|]. split; [exact F|].
      intros x n Hn. destruct (N.eq_dec x s) as [->|Hne].
      * assert (n = sn) by congruence. subst n.
        destruct (ND s (set_files sn (set_remove f (n_files sn))) (nodes_wset_eq _ _ _)) as (fs & H3 & Hin & Hout).
        exists fs. split; [exact H3|]. cbn in Hin, Hout. split.
        -- intros _. destruct (in_dec N.eq_dec s rest) as [Hi|Hi]; [rewrite (Hin Hi); apply set_remove_idem | rewrite (Hout Hi); reflexivity].
        -- intros Hni. exfalso. apply Hni. left. reflexivity.
      * destruct (ND x n) as (fs & H3 & Hin & Hout); [rewrite nodes_wset_neq; auto|].
        exists fs. split; auto. split.
        -- intros [E|Hi]; [congruence|auto].
        -- intros Hni. apply Hout. intros Hi. apply Hni. right. exact Hi.
    + apply Bool.negb_false_iff, is_empty_nil in Ene.
      destruct (IH _ _ _ H) as (TD & ST & M & F & ND). split; [exact TD|]. split; [exact ST|]. split; [exact M|]. split; [exact F|].
      intros x n Hn. destruct (ND x n Hn) as (fs & H3 & Hin & Hout). exists fs. split; auto. split.
      * intros [E|Hi]; auto. subst x. assert (n = sn) by congruence. subst n.
        destruct (in_dec N.eq_dec s rest) as [Hi|Hi]; [auto|]. rewrite (Hout Hi), Ene. reflexivity.
      * intros Hni. apply Hout. intros Hi. apply Hni. right. exact Hi.
Qed.

Lemma scan_td f : forall ids w td w', scan_loop f ids w = Val (OK td, w') ->
  forall d, In d td -> In d ids /\ exists n, w_nodes w d = Some n /\ n_files n <> [] /\ set_remove f (n_files n) = [].
Proof.
  induction ids as [|s rest IH]; intros w td w' H d Hd; cbn [scan_loop] in H.
  - apply wret_inv in H as ([= ->] & _). destruct Hd.
  - apply wbind_inv in H as [(sn & w1 & H1 & H) | (e0 & H1 & [=])].
    apply get_node_inv in H1 as (sn' & Hsn & [= <-] & ->).
    destruct (negb (is_empty (n_files sn))) eqn:Ene.
    + apply Bool.negb_true_iff, is_empty_false in Ene.
      apply wbind_inv in H as [(u & w1 & H1 & H) | (e0 & H1 & [=])].
      apply set_node_wset in H1 as (_ & ->).
      apply wbind_inv in H as [(td1 & w2 & H2 & H) | (e0 & H2 & [=])].
      apply wret_inv in H as (E & ->). injection E as E. subst td.
      assert (In d td1 -> In d (s :: rest) /\ exists n, w_nodes w d = Some n /\ n_files n <> [] /\ set_remove f (n_files n) = []) as Rest.
      { intros Hd1. destruct (IH _ _ _ H2 d Hd1) as (Hin & n1 & Hn1 & Hne1 & He1). split; [right; auto|].
        destruct (N.eq_dec d s) as [->|Hds].
        - rewrite nodes_wset_eq in Hn1. injection Hn1 as <-.
          change (n_files (set_files sn (set_remove f (n_files sn)))) with (set_remove f (n_files sn)) in Hne1, He1.
          rewrite set_remove_idem in He1. congruence.
        - rewrite nodes_wset_neq in Hn1; auto. eauto. }
      destruct (is_empty (set_remove f (n_files sn))) eqn:Ee; [|auto].
      destruct Hd as [<-|Hd]; [|auto]. split; [left; auto|]. apply is_empty_nil in Ee. eauto.
    + destruct (IH _ _ _ H d Hd) as (Hin & R). split; [right; auto|auto].
Qed.

Lemma scan_td_complete f : forall ids w td w', scan_loop f ids w = Val (OK td, w') -> NoDup ids ->
  forall d n, In d ids -> w_nodes w d = Some n -> n_files n <> [] -> set_remove f (n_files n) = [] -> In d td.
Proof.
  induction ids as [|s rest IH]; intros w td w' H Hnd d n Hd Hn Hne Hem; [destruct Hd|].
  cbn [scan_loop] in H. inversion Hnd as [|? ? Hns Hnd']; subst.
  apply wbind_inv in H as [(sn & w1 & H1 & H) | (e0 & H1 & [=])].
  apply get_node_inv in H1 as (sn' & Hsn & [= <-] & ->).
  destruct (negb (is_empty (n_files sn))) eqn:Ene.
  - apply wbind_inv in H as [(u & w1 & H1 & H) | (e0 & H1 & [=])].
    apply set_node_wset in H1 as (_ & ->).
    apply wbind_inv in H as [(td1 & w2 & H2 & H) | (e0 & H2 & [=])].
    apply wret_inv in H as (E & ->). injection E as E. subst td.
    destruct Hd as [<-|Hd].
    + assert (sn = n) by congruence. subst sn. rewrite Hem. cbn. left. reflexivity.
    + assert (In d td1) as Hd1.
      { eapply (IH _ _ _ H2 Hnd' d n Hd); auto. rewrite nodes_wset_neq; auto. intros ->. contradiction. }
      destruct (is_empty (set_remove f (n_files sn))); [right; auto|auto].
  - destruct Hd as [<-|Hd].
    + exfalso. assert (sn = n) by congruence. subst sn. apply Bool.negb_false_iff, is_empty_nil in Ene. contradiction.
    + eapply IH; eauto.
Qed.

Section Remove.
Variable T : tables.

(* a model none of whose elements changed *)
Lemma inv_same_nodes w w' y : Core w -> In y (w_models w) -> same_tree w w' ->
  (forall i, Reach w (m_root y) i -> w_nodes w' i = w_nodes w i) -> FilesInvM T w y -> FilesInvM T w' y.
Proof.
  intros C Hy ST Same [A B S D].
  assert (forall i s, Eff w i s -> Reach w (m_root y) i -> Eff w' i s) as Tr.
  { intros i s He. induction He as [i n Hn Hf | i n p s Hn Hf Hp He IH]; intros Hr.
    - constructor; auto. rewrite Same; auto.
    - eapply Eff_up; eauto; [rewrite Same; auto|]. apply IH. eapply reach_par; eauto. exists n; auto. }
  pose proof (fun i => proj2 (reach_same_tree_iff w w' (m_root y) i ST)) as RB.
  constructor.
  - intros i n Hr Hn. apply RB in Hr. rewrite Same in Hn; auto. apply (A i n); auto.
  - intros i n p Hr Hn Hf Hp. apply RB in Hr. rewrite Same in Hn; auto.
    destruct (B i n p Hr Hn Hf Hp) as (s & Hs & Hi). exists s. split; auto. apply Tr; auto.
    eapply reach_par; eauto. exists n; auto.
  - intros i n p pn Hr Hn Hf Hp Hpn. apply RB in Hr. rewrite Same in Hn; auto.
    assert (Reach w (m_root y) p) as Hrp by (eapply reach_par; eauto; exists n; auto).
    rewrite Same in Hpn; auto. apply (S i n p pn); auto.
  - intros Hf i Hr. apply RB in Hr. destruct (D Hf i Hr) as (s & Hs). exists s. apply Tr; auto.
Qed.

(* the strip step for the whole world *)
Lemma strip_step f e cur w1 w3 :
  TreeInv w1 -> FilesInv T w1 -> Stripped f e cur w1 w3 ->
  (forall y en, In y (w_models w1) -> Reach w1 (m_root y) e -> w_nodes w1 e = Some en ->
     Eff w1 e cur /\
     (n_files en <> [] \/ forall p pn, n_parent en = PElem p -> w_nodes w1 p = Some pn -> split_ok T pn) /\
     (e = m_root y -> set_remove f cur <> [])) ->
  FilesInv T w3 /\ TreeInv w3.
Proof.
  intros TI FI S Hc. pose proof TI as (C & _). split.
  - intros y Hy. rewrite (st_models _ _ _ _ _ S) in Hy.
    destruct (reach_dec w1 (m_root y) e C) as [Hr|Hr].
    + destruct (reach_alloc _ _ _ C Hr) as (en & Hen).
      destruct (Hc y en Hy Hr Hen) as (Hcur & Hsp & Hroot).
      eapply strip_inv; eauto.
    + apply (inv_same_nodes w1 w3 y); auto; [apply (st_tree _ _ _ _ _ S)|].
      intros i Hi. destruct (reach_alloc _ _ _ C Hi) as (n & Hn).
      destruct (st_node _ _ _ _ _ S _ _ Hn) as (fs & H3 & _ & _ & Hout).
      rewrite H3, Hn. rewrite Hout; [rewrite set_files_eta; reflexivity|].
      intros Hei. apply Hr. eapply reach_ancs; eauto. apply reach_ancs_root; auto.
  - eapply TreeInv_same_tree; [apply (st_tree _ _ _ _ _ S)|exact TI].
Qed.

(* removing one element keeps both invariants *)
Lemma remove_step pi d w r w' :
  TreeInv w -> FilesInv T w -> wtry (e_remove_sub_element T pi d) w = Val (r, w') -> TreeInv w' /\ FilesInv T w' /\ Frame w w'.
Proof.
  intros TI FI H. pose proof TI as (C & _).
  assert (TreeInv w') as TI' by (apply (TreeInv_Pres _ _ _ _ (Pres_try _ (Pres_e_remove T pi d)) H TI)).
  destruct (ff_try _ (ff_e_remove_sub_element T pi d) _ _ _ (core_fresh _ C) H) as (F & _).
  split; auto. split; auto. apply (frame_transfer T w w' TI (proj1 TI') F FI).
Qed.

Definition del_loop : list id -> W unit :=
  fix del (l : list id) : W unit :=
    match l with
    | [] => wret tt
    | d :: rest =>
      wbind (get_node d) (fun dn =>
      wbind (wtry (parent_of dn)) (fun p =>
      wbind (match p with
             | Some (Some pi) => wbind (wtry (e_remove_sub_element T pi d)) (fun _ => wret tt)
             | _ => wret tt
             end) (fun _ => del rest)))
    end.

Lemma del_loop_inv : forall l w r w', TreeInv w -> FilesInv T w -> del_loop l w = Val (r, w') ->
  TreeInv w' /\ FilesInv T w' /\ Frame w w'.
Proof.
  induction l as [|d rest IH]; intros w r w' TI FI H; cbn [del_loop] in H.
  - apply wret_inv in H as (_ & ->). split; auto. split; auto. apply Frame_refl.
  - apply wbind_inv in H as [(dn & w1 & H1 & H) | (e0 & H1 & _)]; [|apply get_node_inv in H1 as (? & _ & [=] & _)].
    apply get_node_inv in H1 as (dn' & Hdn & [= <-] & ->).
    apply wbind_inv in H as [(p & w1 & H1 & H) | (e0 & H1 & _)]; [|apply wtry_inv in H1 as (? & _ & [=])].
    assert (w1 = w) as -> by (refine ((_ : ro (wtry (parent_of dn))) _ _ _ H1); ro_tac). clear H1.
    apply wbind_inv in H as [(u & w1 & H1 & H) | (e0 & H1 & _)].
    + assert (TreeInv w1 /\ FilesInv T w1 /\ Frame w w1) as (TI1 & FI1 & F1).
      { destruct p as [[pi|]|].
        - apply wbind_inv in H1 as [(u1 & w2 & H2 & H1) | (e0 & H2 & _)]; [|apply wtry_inv in H2 as (? & _ & [=])].
          apply wret_inv in H1 as (_ & ->). eapply remove_step; eauto.
        - apply wret_inv in H1 as (_ & ->). split; auto. split; auto. apply Frame_refl.
        - apply wret_inv in H1 as (_ & ->). split; auto. split; auto. apply Frame_refl. }
      destruct (IH _ _ _ TI1 FI1 H) as (TI2 & FI2 & F2). split; auto. split; auto. eapply Frame_trans; eauto.
    + exfalso. destruct p as [[pi|]|]; try discriminate.
      apply wbind_inv in H1 as [(u1 & w2 & H2 & H1) | (e1 & H2 & _)]; [discriminate|apply wtry_inv in H2 as (? & _ & [=])].
Qed.

Lemma set_files_twice n a b : set_files (set_files n a) b = set_files n b.
Proof. reflexivity. Qed.

(* modify e, then strip its subtree *)
Lemma modify_scan_stripped f e cur en w1 u w2 ids td w3 :
  Core w1 -> w_nodes w1 e = Some en ->
  modify_node e (fun x => set_files x (set_remove f cur)) w1 = Val (OK u, w2) ->
  (forall x, In x ids <-> Reach w2 e x) ->
  scan_loop f ids w2 = Val (OK td, w3) ->
  Stripped f e cur w1 w3.
Proof.
  intros C Hen Hm Hids Hs. apply modify_node_wset in Hm as (en' & Hen' & _ & ->).
  assert (en' = en) by congruence. subst en'.
  set (w2 := wset w1 e (set_files en (set_remove f cur))) in *.
  assert (same_tree w1 w2) as ST12 by (apply (st_wset w1 e en _ Hen); reflexivity).
  destruct (scan_spec f ids w2 _ _ Hs) as (_ & ST23 & M & F & ND).
  constructor.
  - eapply same_tree_trans; eauto.
  - rewrite M. reflexivity.
  - rewrite F. reflexivity.
  - intros x n Hn. destruct (N.eq_dec x e) as [->|Hne].
    + assert (n = en) by congruence. subst n.
      destruct (ND e _ (nodes_wset_eq _ _ _)) as (fs & H3 & Hin & _).
      assert (In e ids) as Hie by (apply Hids; constructor; exists (set_files en (set_remove f cur)); apply nodes_wset_eq).
      rewrite (Hin Hie) in H3. rewrite set_files_twice in H3.
      change (n_files (set_files en (set_remove f cur))) with (set_remove f cur) in H3. rewrite set_remove_idem in H3.
      exists (set_remove f cur). split; [exact H3|]. split; auto. split; [congruence|].
      intros Hnr. exfalso. apply Hnr. constructor. exists en; auto.
    + destruct (ND x n) as (fs & H3 & Hin & Hout); [unfold w2; rewrite nodes_wset_neq; auto|].
      exists fs. split; auto. split; [congruence|]. split.
      * intros _ Hr. apply Hin. apply Hids. eapply reach_same_tree; eauto.
      * intros Hr. apply Hout. intros Hi. apply Hr. apply Hids in Hi. eapply reach_same_tree; [apply same_tree_sym; eauto|exact Hi].
Qed.

Theorem remove_from_file_inv e f w r w' :
  TreeInv w -> FilesInv T w -> Known_root_last w (OpRemoveFromFile e f) = false ->
  e_remove_from_file T e f w = Val (r, w') -> FilesInv T w' /\ TreeInv w'.
Proof.
  intros TI FI HK H. pose proof TI as (C & _).
  assert (TreeInv w') as TI' by (apply (TreeInv_Pres _ _ _ _ (Pres_e_remove_from_file T e f) H TI)).
  split; auto. unfold e_remove_from_file in H.
  apply wbind_inv in H as [(n & w1 & H1 & H) | (e0 & H1 & _)]; [|apply get_node_inv in H1 as (? & _ & [=] & _)].
  apply get_node_inv in H1 as (n' & Hn & [= <-] & ->).
  apply wbind_inv in H as [(ps & w1 & H1 & H) | (e0 & H1 & _)].
  2:{ apply parent_splittable_spec in H1 as (-> & _). exact FI. }
  apply parent_splittable_spec in H1 as (-> & Hps).
  destruct ps; cbn [negb] in H; [|apply wfail_inv in H as (_ & ->); exact FI].
  apply wbind_inv in H as [(fm & w1 & H1 & H) | (e0 & H1 & _)].
  2:{ assert (w' = w) as -> by (refine ((_ : ro (file_model f)) _ _ _ H1); ro_tac). exact FI. }
  assert (w1 = w) as -> by (refine ((_ : ro (file_model f)) _ _ _ H1); ro_tac). clear H1.
  apply wbind_inv in H as [(m & w1 & H1 & H) | (e0 & H1 & _)].
  2:{ assert (w' = w) as -> by (refine ((_ : ro (model_of e)) _ _ _ H1); ro_tac). exact FI. }
  assert (w1 = w) as -> by (refine ((_ : ro (model_of e)) _ _ _ H1); ro_tac).
  destruct (negb (fm =? m)); [apply wfail_inv in H as (_ & ->); exact FI|].
  destruct (model_of_reach _ _ _ _ TI H1) as (x & Hxm & Hx & Hre). clear H1.
  apply wbind_inv in H as [([loc cur] & w1 & H2 & H) | (e0 & H2 & _)].
  2:{ assert (w' = w) as -> by (refine ((_ : ro (file_membership e)) _ _ _ H2); ro_tac). exact FI. }
  destruct (file_membership_spec _ _ _ _ _ H2) as (-> & Hcur & _). clear H2.
  (* the attempt to delete e *)
  apply wbind_inv in H as [(u1 & w1 & H1 & H) | (e0 & H1 & _)].
  2:{ destruct (is_empty (set_remove f cur)); [|discriminate].
      unfold parent_of in H1. destruct (n_parent n) as [|m0|pi]; try discriminate.
      - apply wbind_inv in H1 as [(? & ? & H1 & _) | (? & H1 & _)]; [discriminate|]. apply wfail_inv in H1 as (_ & ->). exact FI.
      - apply wbind_inv in H1 as [(p & w2 & H2 & H1) | (? & H2 & _)]; [|discriminate].
        apply wret_inv in H2 as ([= ->] & ->).
        apply wbind_inv in H1 as [(? & ? & _ & H1) | (? & H1 & _)]; [apply wret_inv in H1 as ([=] & _)|apply wtry_inv in H1 as (? & _ & [=])]. }
  assert (TreeInv w1 /\ FilesInv T w1 /\ Frame w w1) as (TI1 & FI1 & F1).
  { destruct (is_empty (set_remove f cur)).
    - unfold parent_of in H1. destruct (n_parent n) as [|m0|pi].
      + apply wbind_inv in H1 as [(? & ? & H1 & _) | (? & _ & [=])]. discriminate.
      + apply wbind_inv in H1 as [(p & w2 & H2 & H1) | (? & H2 & _)]; [|discriminate].
        apply wret_inv in H2 as ([= ->] & ->). apply wret_inv in H1 as (_ & ->). split; auto. split; auto. apply Frame_refl.
      + apply wbind_inv in H1 as [(p & w2 & H2 & H1) | (? & H2 & _)]; [|discriminate].
        apply wret_inv in H2 as ([= ->] & ->).
        apply wbind_inv in H1 as [(u0 & w2 & H2 & H1) | (? & H2 & _)]; [|apply wtry_inv in H2 as (? & _ & [=])].
        apply wret_inv in H1 as (_ & ->). eapply remove_step; eauto.
    - apply wret_inv in H1 as (_ & ->). split; auto. split; auto. apply Frame_refl. }
  clear H1. pose proof TI1 as (C1 & _).
  destruct (fr_old _ _ F1 _ _ Hn) as (en1 & Hen1 & Ty1 & K1).
  (* modify, enumerate, scan *)
  apply wbind_inv in H as [(u2 & w2 & H2 & H) | (e0 & H2 & _)]; [|apply modify_node_wset in H2 as (? & _ & [=] & _)].
  assert (same_tree w1 w2) as ST12.
  { pose proof H2 as H2'. apply modify_node_wset in H2' as (en' & Hen' & _ & ->). apply (st_wset w1 e en' _ Hen'); reflexivity. }
  assert (Core w2) as C2 by (eapply Core_same_tree; eauto).
  apply wbind_inv in H as [(w0 & w3 & H3 & H) | (e0 & H3 & _)]; [|apply wget_inv in H3 as ([=] & _)].
  apply wget_inv in H3 as ([= ->] & ->).
  destruct (dfs_ids_preorder w2 e C2) as (l & Hl & _ & _ & Hids).
  { apply (allocated_same_tree w1 w2); auto. exists en1; auto. }
  apply wbind_inv in H as [(ids & w3 & H3 & H) | (e0 & H3 & _)]; [|congruence].
  assert (ids = l /\ w3 = w2) as (-> & ->) by (rewrite Hl in H3; injection H3; auto). clear H3.
  apply wbind_inv in H as [(td & w3 & H3 & H) | (e0 & H3 & _)].
  2:{ destruct (scan_spec f l w2 _ _ H3) as ((td & [=]) & _). }
  pose proof (modify_scan_stripped f e cur en1 w1 u2 w2 l td w3 C1 Hen1 H2 Hids H3) as S.
  destruct (strip_step f e cur w1 w3 TI1 FI1 S) as (FI3 & TI3).
  { intros y en' Hy Hry Hen'. assert (en' = en1) by congruence. subst en'.
    destruct (fr_models _ _ F1 _ Hy) as [(x0 & Hx0 & Hv)|(_ & Hnew)].
    2:{ exfalso. pose proof (frame_new_root _ _ _ TI C1 F1 Hnew e Hry). congruence. }
    destruct (frame_carried T w w1 x0 y TI C1 F1 (FI x0 Hx0) Hx0 Hy Hv e Hry) as (_ & [(n0 & n1 & Hn0 & Hn1 & Hr0 & Fs & Ty & Pp & Tr)|(n1 & Hnone & _)]); [|congruence].
    assert (n0 = n) by congruence. subst n0. assert (n1 = en1) by congruence. subst n1.
    split; [apply Tr; auto|]. split.
    - right. intros p pn1 Hp Hpn1. rewrite Pp in Hp.
      destruct Hps as [(Hp0 & _)|[(m0 & Hpm & _)|(p0 & pn0 & sv & Hp0 & Hpn0 & Hsv & E)]]; try congruence.
      assert (p0 = p) by congruence. subst p0.
      destruct (fr_old _ _ F1 _ _ Hpn0) as (pn1' & Hpn1' & Typ & _). assert (pn1' = pn1) by congruence. subst pn1'.
      exists sv. split; [rewrite Typ; auto|]. injection E as E. symmetry in E. apply Bool.negb_true_iff, N.eqb_neq in E. exact E.
    - intros Eroot. injection Hv as Hroot _.
      destruct (root_node _ _ C Hx0) as (rn & k & Hrn & Hrp). rewrite Hroot, <- Eroot in Hrn.
      assert (rn = n) by congruence. subst rn.
      assert (cur = n_files n /\ n_files n <> []) as (Ec & Hne).
      { destruct (n_files n) as [|g l0] eqn:Ef.
        - destruct (Eff_up_inv _ _ _ _ Hcur Hn Ef) as (p & Hp & _). congruence.
        - split; [|discriminate]. rewrite <- Ef. eapply Eff_local_inv; eauto. congruence. }
      unfold Known_root_last, is_root, files_of, last_of in HK. rewrite Hn, Hrp in HK. cbn in HK. rewrite <- Ec in HK.
      intros E. rewrite E in HK. cbn in HK. rewrite Bool.andb_true_r in HK.
      apply Bool.negb_false_iff, is_empty_nil in HK. congruence. }
  destruct (del_loop_inv _ _ _ _ TI3 FI3 H) as (_ & FI4 & _). exact FI4.
Qed.

(* ---------- AutosarModel::remove_file (another file remains) ---------- *)
Lemma index_of_split (f : N) l : forall pos, index_of (N.eqb f) l = Some pos ->
  exists l1 l2, l = l1 ++ f :: l2 /\ List.length l1 = pos.
Proof.
  induction l as [|a l IH]; intros pos H; cbn in H; [discriminate|].
  destruct (f =? a) eqn:E.
  - injection H as <-. apply N.eqb_eq in E. subst. exists [], l. auto.
  - destruct (index_of (N.eqb f) l) as [k|] eqn:Ek; [|discriminate]. injection H as <-.
    destruct (IH k eq_refl) as (l1 & l2 & -> & <-). exists (a :: l1), l2. auto.
Qed.

Lemma in_swap_remove_other (f g : N) l pos : index_of (N.eqb f) l = Some pos -> In g l -> g <> f -> In g (swap_remove_at l pos).
Proof.
  intros H Hg Hne. destruct (index_of_split _ _ _ H) as (l1 & l2 & -> & <-).
  eapply Permutation.Permutation_in; [apply Permutation.Permutation_sym; apply swap_remove_at_perm|].
  apply in_app_iff in Hg as [Hg|[E|Hg]]; [apply in_or_app; auto|congruence|apply in_or_app; auto].
Qed.

Lemma list_set_same {A} (l : list A) k x : nth_opt l k = Some x -> list_set l k x = l.
Proof. revert k. induction l as [|a l IH]; intros [|k] H; cbn in *; try discriminate; [congruence|]. f_equal. auto. Qed.

(* the shape of a remove_file that leaves another file: strip the file from every local set (same tree), then delete
   the elements whose own set became empty *)
Lemma remove_file_shape m f w r w' :
  TreeInv w -> FilesInv T w ->
  Known_root_last w (OpRemoveFile m f) = false -> Unowned w (OpRemoveFile m f) = false -> last_file w (OpRemoveFile m f) = false ->
  m_remove_file T m f w = Val (r, w') ->
  (w' = w /\ forall x, model_b w m = Some x -> ~ In f (m_files x)) \/
  exists x cur w1 w3 td r3,
    model_b w m = Some x /\ In x (w_models w) /\ In f (m_files x) /\ (forall j, w_nodes w1 j = w_nodes w j) /\ same_tree w w1 /\
    Eff w (m_root x) cur /\ set_remove f cur <> [] /\
    Stripped f (m_root x) cur w1 w3 /\ TreeInv w3 /\ FilesInv T w3 /\ del_loop td w3 = Val (r3, w') /\
    (forall d, In d td -> Reach w (m_root x) d /\ exists n, w_nodes w d = Some n /\ n_files n <> [] /\ set_remove f (n_files n) = []) /\
    (forall d n, Reach w (m_root x) d -> d <> m_root x -> w_nodes w d = Some n -> n_files n <> [] -> set_remove f (n_files n) = [] -> In d td).
Proof.
  intros TI FI HK HU HL H. pose proof TI as (C & _). unfold m_remove_file in H.
  apply wbind_inv in H as [(x & w0 & H1 & H) | (e0 & H1 & _)]; [|apply get_model_inv in H1 as (? & _ & [=] & _)].
  apply get_model_inv in H1 as (x' & Hx & [= <-] & ->).
  destruct (index_of (N.eqb f) (m_files x)) as [pos|] eqn:Hpos.
  2:{ apply wret_inv in H as (_ & ->). left. split; auto. intros x0 Hx0. unfold model_b in Hx0. assert (x0 = x) by congruence. subst x0.
      intros Hin. clear - Hpos Hin. induction (m_files x) as [|a l IH]; [destruct Hin|]. cbn in Hpos.
      destruct (f =? a) eqn:E; [discriminate|]. destruct Hin as [->|Hin]; [rewrite N.eqb_refl in E; discriminate|].
      destruct (index_of (N.eqb f) l); [discriminate|]. auto. }
  right.
  unfold last_file, model_b in HL. rewrite Hx, Hpos in HL.
  set (files' := swap_remove_at (m_files x) pos) in *.
  apply wbind_inv in H as [(u & w1 & H1 & H) | (e0 & H1 & _)]; [|discriminate].
  apply set_model_inv in H1 as (_ & ->). rewrite HL in H.
  set (x1 := set_mfiles x files') in *.
  set (w1 := wmodels w (list_set (w_models w) (N.to_nat m) x1)) in *.
  apply wbind_inv in H as [(o & w2 & H2 & H) | (e0 & H2 & _)]; [|apply wtry_inv in H2 as (? & _ & [=])].
  apply wret_inv in H as (_ & Ew). subst w2. apply wtry_inv in H2 as (r0 & H & _).
  assert (In x (w_models w)) as Hxin by (eapply nth_opt_In; eauto).
  pose proof (FI x Hxin) as FIx.
  assert (In f (m_files x)) as Hfin.
  { destruct (index_of_split _ _ _ Hpos) as (l1 & l2 & E & _). rewrite E. apply in_or_app. right. left. reflexivity. }
  assert (m_files x <> []) as Hmf by (intros E; rewrite E in Hfin; destruct Hfin).
  assert (forall j, w_nodes w1 j = w_nodes w j) as Hn1 by reflexivity.
  assert (same_tree w w1) as ST.
  { repeat split; auto. unfold roots, w1. cbn. apply list_set_map. intros y Hy. rewrite <- nth_opt_error in Hy.
    assert (y = x) by congruence. subst. reflexivity. }
  assert (TreeInv w1) as TI1 by (eapply TreeInv_same_tree; eauto). pose proof TI1 as (C1 & _).
  destruct (root_node _ _ C Hxin) as (rn & k & Hrn & Hrp).
  assert (k = m) as ->.
  { destruct TI as (_ & _ & RO). pose proof (RO _ _ _ Hrn Hrp) as Hr. unfold roots in Hr.
    rewrite nth_error_map in Hr. rewrite nth_opt_error in Hx.
    destruct (nth_error (w_models w) (N.to_nat k)) as [y|] eqn:Hy; [|discriminate]. cbn in Hr. injection Hr as Hr.
    assert (y = x) by (apply (same_root_same_model w y x C); [eapply nth_error_In; eauto | exact Hxin | exact Hr]). subst y.
    destruct (Nat.eq_dec (N.to_nat k) (N.to_nat m)) as [E|E]; [apply Nnat.N2Nat.inj; auto|].
    exfalso. eapply (diff_pos_diff_root w _ _ x x C Hy Hx E). reflexivity. }
  assert (Reach w (m_root x) (m_root x)) as Hrr by (constructor; exists rn; auto).
  destruct (fi_eff _ _ _ FIx Hmf _ Hrr) as (cur & Hcur).
  assert (cur = n_files rn /\ n_files rn <> []) as (Ecur & Hrne).
  { destruct (n_files rn) as [|g l0] eqn:Ef.
    - destruct (Eff_up_inv _ _ _ _ Hcur Hrn Ef) as (p & Hp & _). congruence.
    - split; [|discriminate]. rewrite <- Ef. eapply Eff_local_inv; eauto. congruence. }
  assert (set_remove f cur <> []) as Hrest.
  { unfold Known_root_last, model_b, files_of, last_of in HK. rewrite Hx, Hpos, Hrn in HK. fold files' in HK.
    rewrite HL in HK. cbn in HK. rewrite <- Ecur in HK. intros E. rewrite E in HK. cbn in HK.
    rewrite Bool.andb_true_r in HK. apply Bool.negb_false_iff, is_empty_nil in HK. congruence. }
  (* run remove_from_file on the root *)
  unfold e_remove_from_file in H.
  apply wbind_inv in H as [(n & w2 & H1 & H) | (e0 & H1 & _)]; [|apply get_node_inv in H1 as (? & _ & [=] & _)].
  apply get_node_inv in H1 as (n' & Hn & [= <-] & ->). rewrite Hn1 in Hn. assert (n = rn) by congruence. subst n.
  apply wbind_inv in H as [(ps & w2 & H1 & H) | (e0 & H1 & _)].
  2:{ exfalso. apply parent_splittable_spec in H1 as (_ & [(Hp & _)|[(m0 & _ & [=])|(p & pn & sv & Hp & _)]]); congruence. }
  apply parent_splittable_spec in H1 as (-> & [(Hp & _)|[(m0 & _ & [= ->])|(p & pn & sv & Hp & _)]]); try congruence.
  cbn [negb] in H.
  apply wbind_inv in H as [(fm & w2 & H1 & H) | (e0 & H1 & _)].
  2:{ exfalso. unfold file_model in H1. apply wbind_inv in H1 as [(? & ? & _ & H1) | (? & H1 & _)]; [discriminate|].
      apply get_file_inv in H1 as (? & _ & [=] & _). }
  unfold file_model in H1.
  apply wbind_inv in H1 as [(fl & w3 & H0 & H1) | (e0 & H0 & [=])].
  apply get_file_inv in H0 as (fl' & Hfl & [= <-] & ->). apply wret_inv in H1 as ([= ->] & ->).
  change (w_files w1) with (w_files w) in Hfl.
  assert (f_model fl = m) as Hown.
  { unfold Unowned, model_b in HU. rewrite Hx, Hfl in HU. apply set_mem_in in Hfin. rewrite Hfin in HU. cbn in HU.
    apply Bool.negb_false_iff, N.eqb_eq in HU. exact HU. }
  apply wbind_inv in H as [(m1 & w2 & H1 & H) | (e0 & H1 & _)].
  2:{ exfalso. unfold model_of in H1. apply wbind_inv in H1 as [(? & ? & H0 & H1) | (? & H0 & _)]; [|discriminate].
      apply wget_inv in H0 as ([= ->] & ->). unfold fuel_of in H1. cbn [model_walk] in H1.
      apply wbind_inv in H1 as [(? & ? & H0 & H1) | (? & H0 & _)]; [|apply get_node_inv in H0 as (? & _ & [=] & _)].
      apply get_node_inv in H0 as (rn' & Hrn' & Erq & ->). injection Erq as Erq. subst. rewrite Hn1 in Hrn'. assert (rn' = rn) by congruence. subst rn'.
      rewrite Hrp in H1. discriminate. }
  assert (m1 = m /\ w2 = w1) as (-> & ->).
  { unfold model_of in H1. apply wbind_inv in H1 as [(? & ? & H0 & H1) | (? & H0 & _)]; [|discriminate].
    apply wget_inv in H0 as ([= ->] & ->). unfold fuel_of in H1. cbn [model_walk] in H1.
    apply wbind_inv in H1 as [(? & ? & H0 & H1) | (? & H0 & _)]; [|apply get_node_inv in H0 as (? & _ & [=] & _)].
    apply get_node_inv in H0 as (rn' & Hrn' & Erq & ->). injection Erq as Erq. subst. rewrite Hn1 in Hrn'. assert (rn' = rn) by congruence. subst rn'.
    rewrite Hrp in H1. apply wret_inv in H1 as ([= ->] & ->). auto. }
  clear H1. rewrite Hown, N.eqb_refl in H. cbn [negb] in H.
  apply wbind_inv in H as [([loc cur'] & w2 & H2 & H) | (e0 & H2 & _)].
  2:{ exfalso. eapply file_membership_err; eauto. eapply nodes_eff; [|exact Hcur]. auto. }
  destruct (file_membership_spec _ _ _ _ _ H2) as (-> & Hcur' & _). clear H2.
  assert (Eff w1 (m_root x) cur) as Hcur1 by (eapply nodes_eff; [|exact Hcur]; auto).
  assert (cur' = cur) as -> by (eapply Eff_fun; eauto).
  destruct (is_empty (set_remove f cur)) eqn:Eie; [apply is_empty_nil in Eie; congruence|].
  apply wbind_inv in H as [(u1 & w2 & H1 & H) | (e0 & H1 & _)]; [|discriminate].
  apply wret_inv in H1 as (_ & ->).
  apply wbind_inv in H as [(u2 & w2 & H2 & H) | (e0 & H2 & _)]; [|apply modify_node_wset in H2 as (? & _ & [=] & _)].
  assert (w_nodes w1 (m_root x) = Some rn) as Hrn1 by (rewrite Hn1; auto).
  assert (same_tree w1 w2) as ST12.
  { pose proof H2 as H2'. apply modify_node_wset in H2' as (en' & Hen' & _ & ->). apply (st_wset w1 _ en' _ Hen'); reflexivity. }
  assert (Core w2) as C2 by (eapply Core_same_tree; eauto).
  apply wbind_inv in H as [(w0 & w3 & H3 & H) | (e0 & H3 & _)]; [|apply wget_inv in H3 as ([=] & _)].
  apply wget_inv in H3 as ([= ->] & ->).
  destruct (dfs_ids_preorder w2 (m_root x) C2) as (l & Hl & _ & Hndl & Hids).
  { apply (allocated_same_tree w1 w2); auto. exists rn; auto. }
  apply wbind_inv in H as [(ids & w3 & H3 & H) | (e0 & H3 & _)]; [|congruence].
  assert (ids = l /\ w3 = w2) as (-> & ->) by (rewrite Hl in H3; injection H3; auto). clear H3.
  apply wbind_inv in H as [(td & w3 & H3 & H) | (e0 & H3 & _)].
  2:{ destruct (scan_spec f l w2 _ _ H3) as ((td & [=]) & _). }
  pose proof (modify_scan_stripped f (m_root x) cur rn w1 u2 w2 l td w3 C1 Hrn1 H2 Hids H3) as S.
  (* the invariant of the model with the OLD file list, then with the new one *)
  assert (FilesInvM T w1 x) as FIx1.
  { apply (inv_more_files T w w1 x x); auto; apply incl_refl. }
  assert (forall i p, Reach w1 (m_root x) i -> par w1 i p -> Reach w1 (m_root x) p /\ lists w1 p i) as Hpar1.
  { intros i p Hr Hp. apply (reach_same_tree w1 w) in Hr; [|apply same_tree_sym; auto].
    assert (par w i p) as Hp' by (destruct Hp as (n0 & Hn0 & Hpp); exists n0; rewrite <- Hn1; auto).
    destruct (reach_par _ _ _ _ C Hxin Hr Hp') as (Hrp' & Hl'). split; [eapply reach_same_tree; eauto|eapply lists_same_tree; eauto]. }
  assert (Reach w1 (m_root x) (m_root x)) as Hrr1 by (constructor; exists rn; auto).
  assert (FilesInvM T w3 x) as FIx3.
  { eapply (strip_inv_r T f (m_root x) cur w1 w3 x rn); eauto. }
  assert (same_tree w1 w3) as ST13 by (apply (st_tree _ _ _ _ _ S)).
  assert (TreeInv w3) as TI3 by (eapply TreeInv_same_tree; eauto).
  assert (FilesInv T w3) as FI3.
  { intros y Hy. rewrite (st_models _ _ _ _ _ S) in Hy. unfold w1 in Hy. cbn in Hy.
    apply in_list_set_pos in Hy as [->|(j & Hj & Hy)].
    - (* the model itself: no reached element has f in its set any more *)
      destruct FIx3 as [A B Sp D]. apply mkFilesInvM; [ | exact B | exact Sp | intros _ i Hr; apply D; auto ].
      intros i n3 Hr H3'. cbn in Hr. cbn. pose proof (A i n3 Hr H3') as Hi.
      intros g Hg. apply in_swap_remove_other with f; auto.
      intros ->. apply (reach_same_tree w3 w1) in Hr; [|apply same_tree_sym; auto].
      destruct (stripped_node _ _ _ _ _ _ _ S H3') as (n1 & Hn1' & _).
      destruct (st_node _ _ _ _ _ S _ _ Hn1') as (fs & H3'' & He & Hin & _).
      rewrite H3' in H3''. injection H3'' as ->. cbn in Hg.
      destruct (N.eq_dec i (m_root x)) as [Eq|Hne].
      * rewrite (He Eq) in Hg. apply set_remove_in in Hg. tauto.
      * rewrite (Hin Hne Hr) in Hg. apply set_remove_in in Hg. tauto.
    - assert (In y (w_models w)) as Hyin by (eapply nth_error_In; eauto).
      rewrite nth_opt_error in Hx.
      assert (m_root y <> m_root x) as Hne by (apply (diff_pos_diff_root w j (N.to_nat m) y x C Hy Hx Hj)).
      apply (inv_same_nodes w w3 y); auto; [eapply same_tree_trans; eauto|].
      intros i Hi. destruct (reach_alloc _ _ _ C Hi) as (n0 & Hn0).
      destruct (st_node _ _ _ _ _ S i n0) as (fs & H3' & _ & _ & Hout); [rewrite Hn1; auto|].
      rewrite H3', Hn0. rewrite Hout; [rewrite set_files_eta; reflexivity|].
      intros Hr. apply Hne. apply (reach_same_tree w1 w) in Hr; [|apply same_tree_sym; auto].
      symmetry. apply (reach_one_root w x y i C Hxin Hyin Hr Hi). }
  exists x, cur, w1, w3, td, r0. split; [exact Hx|]. split; [exact Hxin|]. split; [exact Hfin|]. split; [exact Hn1|]. split; [exact ST|].
  split; [exact Hcur|]. split; [exact Hrest|]. split; [exact S|]. split; [exact TI3|]. split; [exact FI3|]. split; [exact H|].
  pose proof H2 as H2'. apply modify_node_wset in H2' as (en' & Hen' & _ & Ew2).
  split.
  - intros d Hd. destruct (scan_td f l w2 td w3 H3 d Hd) as (Hdl & n2 & Hn2 & Hne2 & He2).
    assert (Reach w (m_root x) d) as Hrd.
    { apply Hids in Hdl. apply (reach_same_tree w2 w); auto. apply same_tree_sym. eapply same_tree_trans; eauto. }
    split; auto.
    destruct (N.eq_dec d (m_root x)) as [->|Hdr].
    + exfalso. rewrite Ew2 in Hn2. rewrite nodes_wset_eq in Hn2. injection Hn2 as <-.
      change (n_files (set_files en' (set_remove f cur))) with (set_remove f cur) in Hne2, He2.
      rewrite set_remove_idem in He2. congruence.
    + rewrite Ew2 in Hn2. rewrite nodes_wset_neq in Hn2; auto. rewrite Hn1 in Hn2. eauto.
  - intros d nd Hrd Hdr Hnd Hned Hemd.
    assert (In d l) as Hdl by (apply Hids; apply (reach_same_tree w w2); auto; eapply same_tree_trans; eauto).
    assert (w_nodes w2 d = Some nd) as Hnd2 by (rewrite Ew2; rewrite nodes_wset_neq; auto; rewrite Hn1; exact Hnd).
    exact (scan_td_complete f l w2 td w3 H3 Hndl d nd Hdl Hnd2 Hned Hemd).
Qed.

Theorem remove_file_inv m f w r w' :
  TreeInv w -> FilesInv T w ->
  Known_root_last w (OpRemoveFile m f) = false -> Unowned w (OpRemoveFile m f) = false -> last_file w (OpRemoveFile m f) = false ->
  m_remove_file T m f w = Val (r, w') -> FilesInv T w'.
Proof.
  intros TI FI HK HU HL H.
  destruct (remove_file_shape m f w r w' TI FI HK HU HL H) as [(-> & _)|(x & cur & w1 & w3 & td & r3 & _ & _ & _ & _ & _ & _ & _ & _ & TI3 & FI3 & Hd & _ & _)]; auto.
  destruct (del_loop_inv _ _ _ _ TI3 FI3 Hd) as (_ & FI4 & _). exact FI4.
Qed.

End Remove.
