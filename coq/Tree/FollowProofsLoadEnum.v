(* Tree/FollowProofsLoadEnum.v — C06 after a first load, layer 3: in a world that holds the parsed tree (Rep), the lists
   the parser records (MergeSpec.idents_of / refs_of: what fill_identifiables / fill_references walk) enumerate exactly
   the identifiable elements with their specification paths, and the reference elements with their texts.
     agree_id / agree_ref    one node: the parser-side reading (e_item_name, the reference test of refs_of) and the
                             specification-side reading (identifiable, seg, ref_text) coincide
     enum_ids / enum_refs    the whole tree, both directions *)
From Coq Require Import Lia PeanoNat Arith.
From AV Require Import Base.Bytes Base.Outcome Hash.HashModel Spec.SpecOps Tree.Heap Tree.Ops Tree.Script Tree.Load Tree.MergeSpec
  Tree.IndexProofsW Tree.Index Tree.IndexProofsBase Tree.IndexProofsTree Tree.LoadRefineIndex Tree.FollowProofsLoadRep.
From AV Require Xml.Lexer Xml.Parser.
Open Scope string_scope.
Open Scope list_scope.
Open Scope N_scope.

Lemma to_hc_string d s : to_hc d = DString s -> d = Parser.DString s.
Proof. destruct d; cbn; intros H; try discriminate H. injection H as ->. reflexivity. Qed.

Lemma citems_length lo w : forall l ks, Reps lo w ks l -> List.length (citems ks l) = List.length l.
Proof.
  induction l as [|[c|d] r IH]; intros [|[tc|] kr] H; cbn [Reps citems List.length] in *; try contradiction; try reflexivity.
  - destruct H as [_ H]. rewrite (IH kr H). reflexivity.
  - rewrite (IH kr H). reflexivity.
Qed.

Lemma etree_ind_in (Q : Parser.etree -> Prop) :
  (forall name ty attrs content comment, (forall c, In (inl c) content -> Q c) -> Q (Parser.ENode name ty attrs content comment)) ->
  forall e, Q e.
Proof.
  intros H. fix IH 1. intros [name ty attrs content comment]. apply H.
  induction content as [|[c|d] r IHr]; intros c0 Hin; [destruct Hin| |].
  - destruct Hin as [E|Hin]; [injection E as <-; apply IH|apply IHr; exact Hin].
  - destruct Hin as [E|Hin]; [discriminate E|apply IHr; exact Hin].
Qed.

Section Go.
Variable T : tables.

Lemma idents_go_inv p' pos : forall l k x,
  In x (idents_go T p' pos k l) -> exists j c, nth_error l j = Some (inl c) /\ In x (idents_of T p' ((k + j)%nat :: pos) c).
Proof.
  induction l as [|[c|d] r IH]; intros k x Hin; cbn [idents_go] in Hin; [destruct Hin| |].
  - apply in_app_or in Hin as [Hin|Hin].
    + exists O, c. rewrite Nat.add_0_r. auto.
    + destruct (IH (S k) x Hin) as (j & c' & A & B). exists (S j), c'. split; [exact A|]. rewrite <- plus_n_Sm. exact B.
  - destruct (IH (S k) x Hin) as (j & c' & A & B). exists (S j), c'. split; [exact A|]. rewrite <- plus_n_Sm. exact B.
Qed.
Lemma idents_go_nth p' pos : forall l k j c x,
  nth_error l j = Some (inl c) -> In x (idents_of T p' ((k + j)%nat :: pos) c) -> In x (idents_go T p' pos k l).
Proof.
  induction l as [|[c0|d] r IH]; intros k [|j] c x Hn Hin; cbn [nth_error idents_go] in *; try discriminate.
  - injection Hn as <-. rewrite Nat.add_0_r in Hin. apply in_or_app. left. exact Hin.
  - apply in_or_app. right. apply (IH (S k) j c x Hn). rewrite plus_Sn_m, plus_n_Sm. exact Hin.
  - apply (IH (S k) j c x Hn). rewrite plus_Sn_m, plus_n_Sm. exact Hin.
Qed.
Lemma refs_go_inv pos : forall l k x,
  In x (refs_go T pos k l) -> exists j c, nth_error l j = Some (inl c) /\ In x (refs_of T ((k + j)%nat :: pos) c).
Proof.
  induction l as [|[c|d] r IH]; intros k x Hin; cbn [refs_go] in Hin; [destruct Hin| |].
  - apply in_app_or in Hin as [Hin|Hin].
    + exists O, c. rewrite Nat.add_0_r. auto.
    + destruct (IH (S k) x Hin) as (j & c' & A & B). exists (S j), c'. split; [exact A|]. rewrite <- plus_n_Sm. exact B.
  - destruct (IH (S k) x Hin) as (j & c' & A & B). exists (S j), c'. split; [exact A|]. rewrite <- plus_n_Sm. exact B.
Qed.
Lemma refs_go_nth pos : forall l k j c x,
  nth_error l j = Some (inl c) -> In x (refs_of T ((k + j)%nat :: pos) c) -> In x (refs_go T pos k l).
Proof.
  induction l as [|[c0|d] r IH]; intros k [|j] c x Hn Hin; cbn [nth_error refs_go] in *; try discriminate.
  - injection Hn as <-. rewrite Nat.add_0_r in Hin. apply in_or_app. left. exact Hin.
  - apply in_or_app. right. apply (IH (S k) j c x Hn). rewrite plus_Sn_m, plus_n_Sm. exact Hin.
  - apply (IH (S k) j c x Hn). rewrite plus_Sn_m, plus_n_Sm. exact Hin.
Qed.
End Go.

Section Enum.
Variable T : tables.
Variable check_fn : N -> list N -> res bool.
Variable w : world.
Variable lo : N.

(* the part of the heap the statements look at, closed under children; the node-wise side conditions of Inv04 on it,
   and: a SHORT-NAME first child only occurs below an element of a named type *)
Variable P : id -> Prop.
Hypothesis Pclosed : forall p c, P p -> child_of w p c -> P c.
Hypothesis HST : forall i n, P i -> w_nodes w i = Some n -> n_name n = name_short_name T -> short_type T check_fn (n_type n).
Hypothesis HCL : forall i n, P i -> w_nodes w i = Some n -> content_mode T (n_type n) = Val MCharacters -> chars_content (n_content n).
Hypothesis HAN : forall i n, P i -> w_nodes w i = Some n -> identifiable_n T w n = true -> item_name_n T w n <> None.
Hypothesis HSN : forall i n, P i -> w_nodes w i = Some n -> short_child T w n <> None -> named T (n_type n) = true.
Hypothesis HRF : forall ty, is_ref T ty = Val true -> content_mode T ty = Val MCharacters.

Lemma agree_id i kids e : Rep lo w (INode i kids) e -> P i ->
  match e_item_name T e with
  | Some nm => identifiable T w i = true /\ seg T w i = 47 :: nm
  | None => identifiable T w i = false /\ seg T w i = []
  end.
Proof.
  destruct e as [name ty attrs content comment]. intros HR HP.
  apply Rep_unfold in HR as ((n & Hn & (E1 & E2 & E3)) & _ & HK).
  unfold identifiable, seg. rewrite Hn. unfold e_item_name. cbn [Parser.e_content].
  unfold identifiable_n, seg_n, item_name_n, short_child. rewrite E3.
  destruct content as [|[s|d] r].
  - cbn [citems]. rewrite Bool.andb_false_r. destruct (named T (n_type n)); auto.
  - destruct kids as [|[ts|] kr]; cbn [Reps] in HK; try contradiction. destruct HK as (HRs & _). cbn [citems].
    destruct s as [sname sty sattrs scontent scomment]. destruct ts as [si skids].
    pose proof HRs as HRs0.
    apply Rep_unfold in HRs as ((sn & Hsn & (F1 & F2 & F3)) & _ & HKs). cbn [it_id]. rewrite Hsn. cbn [Parser.e_name].
    rewrite F1. destruct (sname =? name_short_name T) eqn:Esn.
    2:{ rewrite Bool.andb_false_r. destruct (named T (n_type n)); auto. }
    apply N.eqb_eq in Esn.
    assert (Psi : P si).
    { apply (Pclosed i si HP). exists n. split; [exact Hn|]. rewrite E3. cbn [citems it_id]. left. reflexivity. }
    assert (Hsc : short_child T w n = Some sn).
    { unfold short_child. rewrite E3. cbn [citems it_id]. rewrite Hsn, F1, Esn, N.eqb_refl. reflexivity. }
    assert (Hnamed : named T (n_type n) = true) by (apply (HSN i n HP Hn); rewrite Hsc; discriminate).
    rewrite Hnamed. cbn [andb].
    assert (Hst : short_type T check_fn (n_type sn)) by (apply (HST si sn Psi Hsn); congruence).
    unfold short_type in Hst. destruct Hst as (Hmode & _ & _).
    pose proof (HCL si sn Psi Hsn Hmode) as Hcc. rewrite F3 in Hcc.
    pose proof (citems_length lo w scontent skids HKs) as Hlen.
    assert (Hid : identifiable_n T w n = true) by (unfold identifiable_n; rewrite Hnamed, Hsc; reflexivity).
    pose proof (HAN i n HP Hn Hid) as Hnn. unfold item_name_n in Hnn. rewrite Hnamed, Hsc in Hnn.
    unfold e_first_string. cbn [Parser.e_content]. unfold cdata_of, character_data in *. rewrite F3 in *.
    destruct Hcc as [Hc|(d & Hc)]; rewrite Hc in *.
    + exfalso. apply Hnn. reflexivity.
    + destruct scontent as [|[c0|d0] [|x r0]]; cbn [List.length citems] in Hlen; try discriminate Hlen.
      * destruct skids as [|[t0|] kr0]; cbn [Reps citems] in *; try contradiction; discriminate Hc.
      * destruct skids as [|k0 kr0]; cbn [citems] in Hc; [discriminate Hc|]. assert (Hd : to_hc d0 = d) by congruence. clear Hc. rename Hd into Hc.
        rewrite F2 in *. rewrite Hmode in *. cbn in Hnn |- *.
        destruct d0; cbn in Hc; subst d; cbn in Hnn |- *; try (exfalso; apply Hnn; reflexivity). auto.
  - destruct kids as [|[ts|] kr]; cbn [Reps citems] in *; try contradiction;
      rewrite Bool.andb_false_r; destruct (named T (n_type n)); auto.
Qed.

(* the reference test of refs_of *)
Definition e_ty (e : Parser.etree) : N * N := match e with Parser.ENode _ ty _ _ _ => ty end.
Definition e_ref_text (e : Parser.etree) : option (list N) :=
  match is_ref T (e_ty e), Parser.e_content e with
  | Val true, [inr (Parser.DString s)] => Some s
  | _, _ => None
  end.

Lemma agree_ref i kids e : Rep lo w (INode i kids) e -> e_ref_text e = ref_text T w i.
Proof.
  destruct e as [name ty attrs content comment]. intros HR.
  apply Rep_unfold in HR as ((n & Hn & (E1 & E2 & E3)) & _ & HK).
  unfold ref_text, e_ref_text. rewrite Hn. cbn [e_ty Parser.e_content]. unfold isref. rewrite E2.
  destruct (is_ref T ty) as [[|]| |] eqn:Er; try reflexivity;
    try (destruct content as [|[c|[]] [|? ?]]; reflexivity).
  pose proof (HRF ty Er) as Hmode.
  pose proof (citems_length lo w content kids HK) as Hlen.
  unfold cdata_of, character_data. rewrite E3, E2, Hmode.
  destruct content as [|[c|d] [|x r]]; cbn [List.length] in Hlen.
  - destruct (citems kids []) eqn:Ec; [reflexivity|discriminate Hlen].
  - destruct kids as [|[tc|] kr]; cbn [Reps citems] in *; try contradiction. destruct kr; cbn [Reps] in HK; [|destruct HK as [_ []]]. reflexivity.
  - destruct kids as [|[tc|] kr]; cbn [Reps] in HK; try contradiction.
    destruct (citems (Some tc :: kr) (inl c :: x :: r)) as [|a [|b l]] eqn:Ec; cbn in Hlen; try discriminate Hlen.
    destruct a; reflexivity.
  - destruct kids as [|[tc|] kr]; cbn [Reps] in HK; try contradiction. destruct kr; cbn [Reps] in HK; [|contradiction].
    cbn [citems]. cbn. destruct d; reflexivity.
  - destruct (citems kids (inr d :: x :: r)) as [|a [|b l]] eqn:Ec; cbn in Hlen; try discriminate Hlen.
    destruct a; destruct d; reflexivity.
Qed.

(* ---------- the whole tree *)
Lemma rev_cons_app {A} (k : A) pos0 q : rev (k :: pos0) ++ q = rev pos0 ++ k :: q.
Proof. cbn [rev]. rewrite <- app_assoc. reflexivity. Qed.

Lemma enum_ids : forall e t path pos0,
  Rep lo w t e -> P (it_id t) ->
  (forall p pos, In (p, pos) (idents_of T path pos0 e) ->
     exists q tc s, pos = rev pos0 ++ q /\ it_sub t q = Some tc /\ identifiable T w (it_id tc) = true /\
                    dpath T w (it_id t) (it_id tc) s /\ p = path ++ seg T w (it_id t) ++ s) /\
  (forall j s, dpath T w (it_id t) j s -> identifiable T w j = true ->
     exists q tc, it_sub t q = Some tc /\ it_id tc = j /\
                  In (path ++ seg T w (it_id t) ++ s, rev pos0 ++ q) (idents_of T path pos0 e)).
Proof.
  intros e. induction e as [name ty attrs content comment IH] using etree_ind_in. intros [i kids] path pos0 HR HP.
  pose proof (agree_id i kids _ HR HP) as HA. cbn [it_id] in *.
  pose proof HR as HR0. apply Rep_unfold in HR as ((n & Hn & (E1 & E2 & E3)) & _ & HK).
  rewrite idents_unfold. cbv zeta.
  set (e := Parser.ENode name ty attrs content comment) in *.
  assert (Hp' : match e_item_name T e with Some nm => path ++ [47] ++ nm | None => path end = path ++ seg T w i).
  { destruct (e_item_name T e) as [nm|]; destruct HA as (_ & ->); [reflexivity|rewrite app_nil_r; reflexivity]. }
  rewrite Hp'. split.
  - intros p pos Hin. apply in_app_or in Hin as [Hin|Hin].
    + destruct (e_item_name T e) as [nm|] eqn:Een; [|destruct Hin]. destruct Hin as [[= <- <-]|[]].
      exists [], (INode i kids), []. rewrite !app_nil_r. cbn [it_sub it_id]. destruct HA as (HA1 & _).
      repeat split; auto. constructor.
    + destruct (idents_go_inv T _ _ _ _ _ Hin) as (k & c & Hk & Hin'). cbn [plus] in Hin'.
      destruct (Reps_nth lo w content kids k c HK Hk) as (tc & Hkt & HRc & Hcin).
      assert (Hch : child_of w i (it_id tc)) by (exists n; split; [exact Hn|rewrite E3; exact Hcin]).
      destruct (IH c (nth_error_In _ _ Hk) tc (path ++ seg T w i) (k :: pos0) HRc (Pclosed _ _ HP Hch)) as (IHs & _).
      destruct (IHs p pos Hin') as (q & tc' & s & -> & Hsub & Hid & Hd & ->).
      exists (k :: q), tc', (seg T w (it_id tc) ++ s). split; [apply rev_cons_app|]. split; [cbn [it_sub]; rewrite Hkt; exact Hsub|].
      split; [exact Hid|]. split; [apply dpath_cons; assumption|]. rewrite <- !app_assoc. reflexivity.
  - intros j s Hd Hid. apply dpath_head in Hd as [(-> & ->)|(c & s' & Hch & Hd & ->)].
    + exists [], (INode i kids). cbn [it_sub it_id]. split; [reflexivity|]. split; [reflexivity|]. rewrite !app_nil_r.
      apply in_or_app. left. destruct (e_item_name T e) as [nm|]; [left; reflexivity|]. destruct HA as (HA1 & _). congruence.
    + destruct Hch as (n' & Hn' & Hcin). assert (n' = n) by congruence. subst n'. rewrite E3 in Hcin.
      destruct (Reps_child lo w content kids c HK Hcin) as (k & ce & tc & Hk & Hkt & <- & HRc).
      assert (Hch : child_of w i (it_id tc)) by (exists n; split; [exact Hn|rewrite E3; exact Hcin]).
      destruct (IH ce (nth_error_In _ _ Hk) tc (path ++ seg T w i) (k :: pos0) HRc (Pclosed _ _ HP Hch)) as (_ & IHc).
      destruct (IHc j s' Hd Hid) as (q & tc' & Hsub & Hj & Hin).
      exists (k :: q), tc'. split; [cbn [it_sub]; rewrite Hkt; exact Hsub|]. split; [exact Hj|].
      apply in_or_app. right. apply (idents_go_nth T _ _ content O k ce); [exact Hk|]. cbn [plus].
      rewrite rev_cons_app in Hin. rewrite <- !app_assoc in Hin. exact Hin.
Qed.

Lemma enum_refs : forall e t pos0,
  Rep lo w t e -> P (it_id t) ->
  (forall p pos, In (p, pos) (refs_of T pos0 e) ->
     exists q tc, pos = rev pos0 ++ q /\ it_sub t q = Some tc /\ ref_text T w (it_id tc) = Some p /\
                  reach T w (it_id t) (it_id tc)) /\
  (forall j p, reach T w (it_id t) j -> ref_text T w j = Some p ->
     exists q tc, it_sub t q = Some tc /\ it_id tc = j /\ In (p, rev pos0 ++ q) (refs_of T pos0 e)).
Proof.
  intros e. induction e as [name ty attrs content comment IH] using etree_ind_in. intros [i kids] pos0 HR HP.
  pose proof (agree_ref i kids _ HR) as HA. cbn [it_id] in *.
  apply Rep_unfold in HR as ((n & Hn & (E1 & E2 & E3)) & _ & HK).
  rewrite refs_unfold. unfold e_ref_text in HA. cbn [e_ty Parser.e_content] in HA. split.
  - intros p pos Hin. apply in_app_or in Hin as [Hin|Hin].
    + exists [], (INode i kids). cbn [it_sub it_id]. rewrite app_nil_r.
      assert (Hp : pos = rev pos0 /\ ref_text T w i = Some p).
      { rewrite <- HA. destruct (is_ref T ty) as [[|]| |]; try (destruct Hin; fail).
        destruct content as [|[c|[]] [|? ?]]; try (destruct Hin; fail). destruct Hin as [[= <- <-]|[]]. auto. }
      destruct Hp as (-> & Hp). repeat split; auto. apply reach_refl.
    + destruct (refs_go_inv T _ _ _ _ Hin) as (k & c & Hk & Hin'). cbn [plus] in Hin'.
      destruct (Reps_nth lo w content kids k c HK Hk) as (tc & Hkt & HRc & Hcin).
      assert (Hch : child_of w i (it_id tc)) by (exists n; split; [exact Hn|rewrite E3; exact Hcin]).
      destruct (IH c (nth_error_In _ _ Hk) tc (k :: pos0) HRc (Pclosed _ _ HP Hch)) as (IHs & _).
      destruct (IHs p pos Hin') as (q & tc' & -> & Hsub & Ht & Hr).
      exists (k :: q), tc'. split; [apply rev_cons_app|]. split; [cbn [it_sub]; rewrite Hkt; exact Hsub|].
      split; [exact Ht|]. eapply reach_trans; [|exact Hr]. eapply reach_step; [apply reach_refl|exact Hch].
  - intros j p (s & Hd) Ht. apply dpath_head in Hd as [(-> & ->)|(c & s' & Hch & Hd & ->)].
    + exists [], (INode i kids). cbn [it_sub it_id]. split; [reflexivity|]. split; [reflexivity|]. rewrite app_nil_r.
      apply in_or_app. left. rewrite Ht in HA.
      destruct (is_ref T ty) as [[|]| |]; try discriminate HA.
      destruct content as [|[c|[]] [|? ?]]; try discriminate HA. injection HA as ->. left. reflexivity.
    + destruct Hch as (n' & Hn' & Hcin). assert (n' = n) by congruence. subst n'. rewrite E3 in Hcin.
      destruct (Reps_child lo w content kids c HK Hcin) as (k & ce & tc & Hk & Hkt & <- & HRc).
      assert (Hch : child_of w i (it_id tc)) by (exists n; split; [exact Hn|rewrite E3; exact Hcin]).
      destruct (IH ce (nth_error_In _ _ Hk) tc (k :: pos0) HRc (Pclosed _ _ HP Hch)) as (_ & IHc).
      destruct (IHc j p (ex_intro _ s' Hd) Ht) as (q & tc' & Hsub & Hj & Hin).
      exists (k :: q), tc'. split; [cbn [it_sub]; rewrite Hkt; exact Hsub|]. split; [exact Hj|].
      apply in_or_app. right. apply (refs_go_nth T _ content O k ce); [exact Hk|]. cbn [plus].
      rewrite rev_cons_app in Hin. exact Hin.
Qed.

End Enum.
