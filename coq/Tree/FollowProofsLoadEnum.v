(* Tree/FollowProofsLoadEnum.v — C06 after a first load, layer 3: in a world that holds the parsed tree (Rep), the lists
   the parser records (MergeSpec.idents_of / refs_of: what fill_identifiables / fill_references walk) enumerate exactly
   the identifiable elements with their specification paths, and the reference elements with their texts.
     agree_id / agree_ref    one node: the parser-side reading (e_item_name, the reference test of refs_of) and the
                             specification-side reading (identifiable, seg, ref_text) coincide
     enum_ids / enum_refs    the whole tree, both directions *)
From Coq Require Import Lia.
From AV Require Import Base.Bytes Base.Outcome Hash.HashModel Spec.SpecOps Tree.Heap Tree.Ops Tree.Script Tree.Load Tree.MergeSpec
  Tree.IndexProofsW Tree.Index Tree.IndexProofsBase Tree.IndexProofsTree Tree.LoadRefineIndex Tree.FollowProofsLoadRep.
From AV Require Xml.Lexer Xml.Parser.
Open Scope string_scope.
Open Scope list_scope.
Open Scope N_scope.

Lemma to_hc_string d s : to_hc d = DString s -> d = Parser.DString s.
Proof. destruct d; cbn; intros H; try discriminate H. injection H as ->. reflexivity. Qed.

Lemma citems_length lo w : forall l ks, Reps lo w ks l -> List.length (citems ks l) = List.length l.
Proof.
  induction l as [|[c|d] r IH]; intros [|[tc|] kr] H; cbn [Reps citems List.length] in *; try contradiction; try reflexivity.
  - destruct H as [_ H]. rewrite (IH kr H). reflexivity.
  - rewrite (IH kr H). reflexivity.
Qed.

Section Enum.
Variable T : tables.
Variable check_fn : N -> list N -> res bool.
Variable w : world.
Variable lo : N.

(* the part of the heap the statements look at, closed under children; the node-wise side conditions of Inv04 on it,
   and: a SHORT-NAME first child only occurs below an element of a named type *)
Variable P : id -> Prop.
Hypothesis Pclosed : forall p c, P p -> child_of w p c -> P c.
Hypothesis HST : forall i n, P i -> w_nodes w i = Some n -> n_name n = name_short_name T -> short_type T check_fn (n_type n).
Hypothesis HCL : forall i n, P i -> w_nodes w i = Some n -> content_mode T (n_type n) = Val MCharacters -> chars_content (n_content n).
Hypothesis HAN : forall i n, P i -> w_nodes w i = Some n -> identifiable_n T w n = true -> item_name_n T w n <> None.
Hypothesis HSN : forall i n, P i -> w_nodes w i = Some n -> short_child T w n <> None -> named T (n_type n) = true.
Hypothesis HRF : forall ty, is_ref T ty = Val true -> content_mode T ty = Val MCharacters.

Lemma agree_id i kids e : Rep lo w (INode i kids) e -> P i ->
  match e_item_name T e with
  | Some nm => identifiable T w i = true /\ seg T w i = 47 :: nm
  | None => identifiable T w i = false /\ seg T w i = []
  end.
Proof.
  destruct e as [name ty attrs content comment]. intros HR HP.
  apply Rep_unfold in HR as ((n & Hn & (E1 & E2 & E3)) & _ & HK).
  unfold identifiable, seg. rewrite Hn. unfold e_item_name. cbn [Parser.e_content].
  unfold identifiable_n, seg_n, item_name_n, short_child. rewrite E3.
  destruct content as [|[s|d] r].
  - cbn [citems]. rewrite Bool.andb_false_r. destruct (named T (n_type n)); auto.
  - destruct kids as [|[ts|] kr]; cbn [Reps] in HK; try contradiction. destruct HK as (HRs & _). cbn [citems].
    destruct s as [sname sty sattrs scontent scomment]. destruct ts as [si skids].
    pose proof HRs as HRs0.
    apply Rep_unfold in HRs as ((sn & Hsn & (F1 & F2 & F3)) & _ & HKs). cbn [it_id]. rewrite Hsn. cbn [Parser.e_name].
    rewrite F1. destruct (sname =? name_short_name T) eqn:Esn.
    2:{ rewrite Bool.andb_false_r. destruct (named T (n_type n)); auto. }
    apply N.eqb_eq in Esn.
    assert (Psi : P si).
    { apply (Pclosed i si HP). exists n. split; [exact Hn|]. rewrite E3. cbn [citems it_id]. left. reflexivity. }
    assert (Hsc : short_child T w n = Some sn).
    { unfold short_child. rewrite E3. cbn [citems it_id]. rewrite Hsn, F1, Esn, N.eqb_refl. reflexivity. }
    assert (Hnamed : named T (n_type n) = true) by (apply (HSN i n HP Hn); rewrite Hsc; discriminate).
    rewrite Hnamed. cbn [andb].
    assert (Hst : short_type T check_fn (n_type sn)) by (apply (HST si sn Psi Hsn); congruence).
    unfold short_type in Hst. destruct Hst as (Hmode & _ & _).
    pose proof (HCL si sn Psi Hsn Hmode) as Hcc. rewrite F3 in Hcc.
    pose proof (citems_length lo w scontent skids HKs) as Hlen.
    assert (Hid : identifiable_n T w n = true) by (unfold identifiable_n; rewrite Hnamed, Hsc; reflexivity).
    pose proof (HAN i n HP Hn Hid) as Hnn. unfold item_name_n in Hnn. rewrite Hnamed, Hsc in Hnn.
    unfold e_first_string. cbn [Parser.e_content]. unfold cdata_of, character_data in *. rewrite F3 in *.
    destruct Hcc as [Hc|(d & Hc)]; rewrite Hc in *.
    + exfalso. apply Hnn. reflexivity.
    + destruct scontent as [|[c0|d0] [|x r0]]; cbn [List.length citems] in Hlen; try discriminate Hlen.
      * destruct skids as [|[t0|] kr0]; cbn [Reps citems] in *; try contradiction; discriminate Hc.
      * destruct skids as [|k0 kr0]; cbn [citems] in Hc; [discriminate Hc|]. assert (Hd : to_hc d0 = d) by congruence. clear Hc. rename Hd into Hc.
        rewrite F2 in *. rewrite Hmode in *. cbn in Hnn |- *.
        destruct d0; cbn in Hc; subst d; cbn in Hnn |- *; try (exfalso; apply Hnn; reflexivity). auto.
  - destruct kids as [|[ts|] kr]; cbn [Reps citems] in *; try contradiction;
      rewrite Bool.andb_false_r; destruct (named T (n_type n)); auto.
Qed.

(* the reference test of refs_of *)
Definition e_ty (e : Parser.etree) : N * N := match e with Parser.ENode _ ty _ _ _ => ty end.
Definition e_ref_text (e : Parser.etree) : option (list N) :=
  match is_ref T (e_ty e), Parser.e_content e with
  | Val true, [inr (Parser.DString s)] => Some s
  | _, _ => None
  end.

Lemma agree_ref i kids e : Rep lo w (INode i kids) e -> e_ref_text e = ref_text T w i.
Proof.
  destruct e as [name ty attrs content comment]. intros HR.
  apply Rep_unfold in HR as ((n & Hn & (E1 & E2 & E3)) & _ & HK).
  unfold ref_text, e_ref_text. rewrite Hn. cbn [e_ty Parser.e_content]. unfold isref. rewrite E2.
  destruct (is_ref T ty) as [[|]| |] eqn:Er; try reflexivity;
    try (destruct content as [|[c|[]] [|? ?]]; reflexivity).
  pose proof (HRF ty Er) as Hmode.
  pose proof (citems_length lo w content kids HK) as Hlen.
  unfold cdata_of, character_data. rewrite E3, E2, Hmode.
  destruct content as [|[c|d] [|x r]]; cbn [List.length] in Hlen.
  - destruct (citems kids []) eqn:Ec; [reflexivity|discriminate Hlen].
  - destruct kids as [|[tc|] kr]; cbn [Reps citems] in *; try contradiction. destruct kr; cbn [Reps] in HK; [|destruct HK as [_ []]]. reflexivity.
  - destruct kids as [|[tc|] kr]; cbn [Reps] in HK; try contradiction.
    destruct (citems (Some tc :: kr) (inl c :: x :: r)) as [|a [|b l]] eqn:Ec; cbn in Hlen; try discriminate Hlen.
    destruct a; reflexivity.
  - destruct kids as [|[tc|] kr]; cbn [Reps] in HK; try contradiction. destruct kr; cbn [Reps] in HK; [|contradiction].
    cbn [citems]. cbn. destruct d; reflexivity.
  - destruct (citems kids (inr d :: x :: r)) as [|a [|b l]] eqn:Ec; cbn in Hlen; try discriminate Hlen.
    destruct a; destruct d; reflexivity.
Qed.

End Enum.
