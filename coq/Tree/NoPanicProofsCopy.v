(* Tree/NoPanicProofsCopy.v — C12, layer 6: ElementRaw::deep_copy never panics or runs out of fuel.
   The copy recurses along the SOURCE subtree (height bound hb of the source, which the copy never modifies: [frozen]);
   the nodes it creates have children with larger ids than themselves ([IncNew]), which bounds the height of the copy for
   the registration walk that follows. *)
From Coq Require Import Lia.
From AV Require Import Base.Bytes Base.Outcome Hash.HashModel Spec.SpecOps Xml.TablesOk Tree.Heap Tree.Ops Tree.Script Tree.Inv.
From AV Require Import Tree.NoPanic Tree.NoPanicProofsBase Tree.NoPanicProofsOps1 Tree.NoPanicProofsClosed Tree.NoPanicProofsOps2.
From AV Require Import Tree.NoPanicProofsOps3 Tree.NoPanicProofsDepth Tree.NoPanicProofsDec.
Open Scope string_scope.
Open Scope list_scope.
Open Scope N_scope.

Definition frozen (w w' : world) : Prop := forall x, x < w_next w -> w_nodes w' x = w_nodes w x.
Lemma frozen_refl w : frozen w w. Proof. intros x _. reflexivity. Qed.
Lemma frozen_trans a b c : w_next a <= w_next b -> frozen a b -> frozen b c -> frozen a c.
Proof. intros L H1 H2 x Lx. rewrite H2; [apply H1; exact Lx|lia]. Qed.

(* nodes at or above N0 list only larger ids *)
Definition IncNew (N0 : N) (w : world) : Prop :=
  forall x n y, N0 <= x -> w_nodes w x = Some n -> In (CElem y) (n_content n) -> x < y.

Lemma hb_IncNew N0 w : IncNew N0 w -> (forall x n, w_nodes w x = Some n -> forall y, In (CElem y) (n_content n) -> y < w_next w) ->
  forall k x, N0 <= x -> (N.to_nat (w_next w) <= N.to_nat x + k)%nat -> hb w x (S k).
Proof.
  intros INC CL. induction k as [|k IH]; intros x Lx B; constructor; intros n y E IN.
  - exfalso. pose proof (INC x n y Lx E IN). pose proof (CL x n E y IN). lia.
  - pose proof (INC x n y Lx E IN) as XY. apply IH; lia.
Qed.

Section Copy.
Variable T : tables.
Variable tab_el tab_en : nametab.
Variable check_fn : N -> list N -> res bool.
Variable LATEST : N.
Variable root_attrs : list (N * cdata).
Hypothesis OK12 : tables_ok12 T = true.
Hypothesis CHECK : forall fn s, exists b, check_fn fn s = Val b.
Collection Env := T tab_el tab_en check_fn LATEST root_attrs OK12 CHECK.
Set Default Proof Using "Env".

Notation ENV f := (f T tab_el tab_en check_fn LATEST root_attrs OK12 CHECK) (only parsing).
Notation TOK := (ok12_tables T OK12) (only parsing).
Notation node_ok := (node_ok T tab_el tab_en).
Notation Closed := (Closed T tab_el tab_en).
Notation PanicFree := (PanicFree T tab_el tab_en).

Lemma hb_frozen w w' : Closed w -> frozen w w' -> forall x f, x < w_next w -> hb w x f -> hb w' x f.
Proof.
  intros C FR x f L H. revert L. induction H as [x f HK IH]. intros L. constructor. intros n c E IN.
  rewrite (FR x L) in E. eapply IH; eauto.
  pose proof (cl_node _ _ _ _ C _ _ E) as (_ & _ & KIDS & _). apply KIDS. exact IN.
Qed.

(* the judgement of the copy: whatever the result *)
Definition dc (N0 : N) (w : world) : world -> Prop := fun w' =>
  Closed w' /\ ext w w' /\ frozen w w' /\ (IncNew N0 w -> IncNew N0 w') /\ w_models w' = w_models w.
Definition dcpost (N0 : N) (w : world) : out id -> world -> Prop := fun r w' =>
  dc N0 w w' /\ match r with OK c => w_next w <= c /\ c < w_next w' | ER _ => True end.

Lemma dc_refl N0 w : Closed w -> dc N0 w w.
Proof. intros C. split; [exact C|]. split; [apply ext_refl|]. split; [apply frozen_refl|]. split; [auto|reflexivity]. Qed.
Lemma dc_trans N0 a b c : dc N0 a b -> dc N0 b c -> dc N0 a c.
Proof.
  intros (C1 & X1 & F1 & I1 & M1) (C2 & X2 & F2 & I2 & M2). split; [exact C2|]. split; [eapply ext_trans; eauto|].
  split; [eapply frozen_trans; eauto; apply X1|]. split; [auto|congruence].
Qed.

Lemma copy_attrs_ok w ty version : etype_ok T ty -> forall attrs acc, rd (copy_attrs T ty version attrs acc) w (fun _ => True).
Proof.
  intros ET. induction attrs as [|[an av] rest IH]; intros acc; cbn [copy_attrs].
  - apply rd_ret. exact I.
  - destruct (find_attribute_spec_ok T TOK ty an ET) as (sp & E & _).
    eapply rd_bind; [apply (rd_wl _ sp w (fun a => a = sp) E); reflexivity|]. intros a ->.
    destruct sp as [[[[c spec] req] mask]|]; [|apply rd_fail].
    destruct (negb (N.land version mask =? 0) && fst (value_compat av spec version)); [apply IH|].
    destruct (negb (req =? 0)); [apply rd_fail|apply IH].
Qed.

(* a step on a NEW node c (c >= next of the start world w0) that keeps its parent-independent closedness *)
Lemma dc_set_new N0 w0 w c n n' : Closed w -> w_next w0 <= c -> w_nodes w c = Some n -> node_ok w n' ->
  (forall y, In (CElem y) (n_content n') -> In (CElem y) (n_content n) \/ c < y) ->
  dc N0 w0 w -> dc N0 w0 (wset w c n').
Proof.
  intros C Lc E NO KID (C0 & X0 & F0 & I0 & M0). assert (L : c < w_next w) by (apply (cl_alloc _ _ _ _ C); congruence).
  split; [apply Closed_wset; auto|]. split; [eapply ext_trans; [exact X0|apply ext_wset]|]. split; [|split; [|exact M0]].
  - intros x Lx. cbn [wset w_nodes]. rewrite upd_other; [apply F0; exact Lx|]. intros ->. lia.
  - intros INC x nx y Lx Ex IN. cbn [wset w_nodes] in Ex. unfold upd in Ex. destruct (x =? c) eqn:EX.
    + apply N.eqb_eq in EX. subst x. injection Ex as <-. destruct (KID y IN) as [H|H]; [eapply (I0 INC); eauto|exact H].
    + eapply (I0 INC); eauto.
Qed.

(* ElementRaw::deep_copy *)
Lemma dc_deep_copy version : forall f src w N0, Closed w -> N0 <= w_next w -> src < w_next w -> hb w src f ->
  runsQ (deep_copy T f src version) w (dcpost N0 w).
Proof.
  induction f as [|f IH]; intros src w N0 C LN L H; [inversion H|].
  inversion H as [i0 f0 HK]; subst. cbn [deep_copy].
  destruct (ENV get_node_ok w src C L) as (n & EG & EN & NO).
  unfold runsQ. unfold wbind at 1. rewrite EG.
  pose proof NO as (ET & NM & KIDS & CDS & _).
  set (c := w_next w). set (nc0 := mkNode PNone (n_name n) (n_type n) [] [] [] (n_comment n)).
  unfold wbind at 1. rewrite alloc_val. fold nc0. fold c. set (w1 := walloc w nc0).
  assert (C1 : Closed w1).
  { apply Closed_walloc; [exact C|]. split; [exact ET|]. split; [exact NM|]. cbn. split; [intros y []|]. split; [intros d []|exact I]. }
  assert (D1 : dc N0 w w1).
  { split; [exact C1|]. split; [apply ext_walloc|]. split; [|split; [|reflexivity]].
    - intros x Lx. unfold w1. cbn [walloc w_nodes]. apply upd_other. lia.
    - intros INC x nx y Lx Ex IN. unfold w1 in Ex. cbn [walloc w_nodes] in Ex. unfold upd in Ex. destruct (x =? w_next w).
      + injection Ex as <-. destruct IN.
      + eapply INC; eauto. }
  assert (Ec1 : w_nodes w1 c = Some nc0) by (unfold w1, c; cbn [walloc w_nodes]; apply upd_same).
  destruct (copy_attrs_ok w1 (n_type n) version ET (n_attrs n) []) as (ra & EA & _).
  unfold wbind at 1. rewrite EA. destruct ra as [attrs|ea];
    [|exists (ER ea), w1; split; [reflexivity|]; split; [exact D1|exact I]].
  set (nc1 := set_attrs nc0 attrs).
  unfold wbind at 1. rewrite (modify_node_val c _ w1 nc0 Ec1). fold nc1. set (w2 := wset w1 c nc1).
  assert (D2 : dc N0 w w2).
  { apply (dc_set_new N0 w w1 c nc0 nc1 C1 ltac:(unfold c; lia) Ec1); [|intros y []|exact D1].
    split; [exact ET|]. split; [exact NM|]. cbn. split; [intros y []|]. split; [intros d []|exact I]. }
  (* the content items: any world reached from w2, the node c present with only larger ids below it *)
  assert (ITEMS : forall l wk, dc N0 w wk -> (exists nk, w_nodes wk c = Some nk /\ etype_ok T (n_type nk) /\ name_ok tab_el (n_name nk)) ->
            (forall it, In it l -> In it (n_content n)) ->
            exists r wk', (fix items (l : list citem) : W unit :=
        match l with
        | [] => wret tt
        | CData d :: rest =>
          wbind (modify_node c (fun x => set_content x (n_content x ++ [CData d]))) (fun _ => items rest)
        | CElem s :: rest =>
          wbind (get_node s) (fun sn =>
          wbind (wl (find_sub_element T (n_type n) (n_name sn) version)) (fun fs =>
          match fs with
          | Some _ =>
            wbind (wtry (deep_copy T f s version)) (fun r =>
            match r with
            | Some cs =>
              wbind (modify_node cs (fun x => set_parent x (PElem c))) (fun _ =>
              wbind (modify_node c (fun x => set_content x (n_content x ++ [CElem cs]))) (fun _ =>
              items rest))
            | None => items rest
            end)
          | None => items rest
          end))
        end) l wk = Val (r, wk') /\ dc N0 w wk' /\ c < w_next wk').
  { induction l as [|it rest IHl]; intros wk Dk (nk & Ek & ETk & NMk) SUB.
    - exists (OK tt), wk. split; [reflexivity|]. split; [exact Dk|]. destruct Dk as (Ck & _). apply (cl_alloc _ _ _ _ Ck). congruence.
    - pose proof Dk as (Ck & Xk & Fk & Ik & Mk).
      assert (Lck : c < w_next wk) by (apply (cl_alloc _ _ _ _ Ck); congruence).
      pose proof (cl_node _ _ _ _ Ck _ _ Ek) as (_ & _ & KIDk & CDk & POk).
      assert (SUBr : forall it0, In it0 rest -> In it0 (n_content n)) by (intros it0 H0; apply SUB; right; exact H0).
      destruct it as [s|d].
      + assert (INs : In (CElem s) (n_content n)) by (apply SUB; left; reflexivity).
        assert (Ls : s < w_next w) by (apply KIDS; exact INs).
        assert (Lsk : s < w_next wk) by (destruct Xk as (A & _); lia).
        destruct (ENV get_node_ok wk s Ck Lsk) as (sn & EGS & _ & _).
        unfold wbind at 1. rewrite EGS.
        destruct (find_sub_element_total T TOK (n_type n) (n_name sn) version ET) as (fs & EFS & _).
        unfold wbind at 1. rewrite (wl_val _ _ _ EFS).
        destruct fs as [fsv|]; [|apply IHl; eauto].
        assert (Hs : hb wk s f) by (eapply hb_frozen; [exact C|exact Fk|exact Ls|eapply HK; [exact EN|exact INs]]).
        destruct (IH s wk N0 Ck ltac:(destruct Xk as (A & _); lia) Lsk Hs) as (r3 & w3 & E3 & D3 & R3).
        unfold wbind at 1. rewrite (wtry_val _ _ _ _ E3).
        assert (Dk3 : dc N0 w w3) by (eapply dc_trans; [exact Dk|exact D3]).
        pose proof D3 as (C3 & X3 & F3 & _ & _).
        assert (Ec3 : w_nodes w3 c = Some nk) by (rewrite (F3 c Lck); exact Ek).
        destruct r3 as [cs|e3]; [|apply IHl; eauto].
        destruct R3 as (Lcs1 & Lcs2).
        destruct (ENV get_node_ok w3 cs C3 Lcs2) as (ncs & _ & Ecs & NOcs).
        unfold wbind at 1. rewrite (modify_node_val cs _ w3 ncs Ecs). set (w4 := wset w3 cs (set_parent ncs (PElem c))).
        assert (Lc3 : c < w_next w3) by (destruct X3 as (A & _); lia).
        assert (D4 : dc N0 w w4).
        { apply (dc_set_new N0 w w3 cs ncs _ C3); [destruct Xk as (A & _); lia|exact Ecs| |intros y IN; left; exact IN|exact Dk3].
          destruct NOcs as (A & B & D & E & _). split; [exact A|]. split; [exact B|]. split; [exact D|]. split; [exact E|exact Lc3]. }
        assert (Ec4 : w_nodes w4 c = Some nk).
        { unfold w4. cbn [wset w_nodes]. rewrite upd_other; [exact Ec3|]. lia. }
        unfold wbind at 1. rewrite (modify_node_val c _ w4 nk Ec4).
        set (nk' := set_content nk (n_content nk ++ [CElem cs])). set (w5 := wset w4 c nk').
        pose proof D4 as (C4 & _).
        assert (D5 : dc N0 w w5).
        { apply (dc_set_new N0 w w4 c nk nk' C4 ltac:(unfold c; lia) Ec4); [| |exact D4].
          - pose proof (cl_node _ _ _ _ C4 _ _ Ec4) as (A & B & D & E & G). split; [exact A|]. split; [exact B|]. cbn.
            split; [|split; [|exact G]].
            + intros y IN. apply in_app_or in IN as [IN|[[= <-]|[]]]; [apply D; exact IN|]. unfold w4. cbn. exact Lcs2.
            + intros d IN. apply in_app_or in IN as [IN|[[=]|[]]]. apply E. exact IN.
          - intros y IN. cbn in IN. apply in_app_or in IN as [IN|[[= <-]|[]]]; [left; exact IN|right]. lia. }
        apply IHl; [exact D5| |exact SUBr].
        exists nk'. split; [unfold w5; cbn [wset w_nodes]; apply upd_same|]. split; [exact ETk|exact NMk].
      + unfold wbind at 1. rewrite (modify_node_val c _ wk nk Ek).
        set (nk' := set_content nk (n_content nk ++ [CData d])).
        assert (D5 : dc N0 w (wset wk c nk')).
        { apply (dc_set_new N0 w wk c nk nk' Ck ltac:(unfold c; lia) Ek); [| |exact Dk].
          - split; [exact ETk|]. split; [exact NMk|]. cbn. split; [|split; [|exact POk]].
            + intros y IN. apply in_app_or in IN as [IN|[[=]|[]]]. apply KIDk. exact IN.
            + intros d0 IN. apply in_app_or in IN as [IN|[[= <-]|[]]]; [apply CDk; exact IN|]. apply CDS. apply SUB. left. reflexivity.
          - intros y IN. cbn in IN. apply in_app_or in IN as [IN|[[=]|[]]]. left. exact IN. }
        apply IHl; [exact D5| |exact SUBr].
        exists nk'. split; [cbn [wset w_nodes]; apply upd_same|]. split; [exact ETk|exact NMk]. }
  destruct (ITEMS (n_content n) w2 D2) as (r & w' & E' & D' & Lc').
  { exists nc1. split; [unfold w2; cbn [wset w_nodes]; apply upd_same|]. split; [exact ET|exact NM]. }
  { auto. }
  unfold wbind at 1. rewrite E'. destruct r as [[]|e].
  - exists (OK c), w'. split; [reflexivity|]. split; [exact D'|]. split; [unfold c; lia|exact Lc'].
  - exists (ER e), w'. split; [reflexivity|]. split; [exact D'|exact I].
Qed.

End Copy.
